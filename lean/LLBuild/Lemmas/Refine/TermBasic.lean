/-
IM3 — termination: the SHARED toolbox for the `TermStep` lemmas of every engine function (design: notes/REFINE.md §8,
definitions: `Term0.lean`).
 1. `sumBy` algebra (`sumBy_perm`, `sumBy_split`, `sumBy_transfer_le`, …);
 2. `SameCore` / `Phi_congr`: the potential only reads `ruleInfos`, `taskInfos`, `store`, `currentEpoch` and the three
    work queues (up to order); invariance under the recorder (`Phi_same`, `ClosedU.same`, `emit`, `emitAll`, `doCancel`, `halt`);
 3. moving an item between a queue and the hand (`Phi_popInput`, `Phi_popFin`, `Phi_popScan`);
 4. pointwise facts: `phase_*` by rule state, `ruleW_of_phase*`, `ruleW_le`, monotonicity of `inputQW`/`scanQW`;
 5. registration: `getRuleInfoForKey_term`;
 6. `pushInput_Phi`, `ClosedU.pushInput`;
 7. the entry: `keyUniverse_closed`, `Phi_entry_le`, `entry_term`.
-/
import LLBuild.Lemmas.Refine.Term0

namespace LLBuild.Refine
open LLBuild.Engine LLBuild.Engine.DSL LLBuild.EngineImpl

/-! ## 1. `sumBy` -/

section sumBy
variable {α β : Type}

@[simp] theorem sumBy_nil (f : α → Nat) : sumBy f [] = 0 := rfl

@[simp] theorem sumBy_cons (f : α → Nat) (a : α) (l : List α) : sumBy f (a :: l) = f a + sumBy f l := by
  simp [sumBy]

@[simp] theorem sumBy_append (f : α → Nat) (l1 l2 : List α) : sumBy f (l1 ++ l2) = sumBy f l1 + sumBy f l2 := by
  simp [sumBy]

theorem sumBy_singleton (f : α → Nat) (a : α) : sumBy f [a] = f a := by simp

theorem sumBy_perm (f : α → Nat) {l1 l2 : List α} (h : List.Perm l1 l2) : sumBy f l1 = sumBy f l2 :=
  (h.map f).sum_nat

theorem sumBy_le_of_le {f g : α → Nat} : ∀ {l : List α}, (∀ x ∈ l, f x ≤ g x) → sumBy f l ≤ sumBy g l
  | [], _ => Nat.le_refl _
  | a :: l, h => by
    have h1 := h a List.mem_cons_self
    have h2 := sumBy_le_of_le (l := l) (fun x hx => h x (List.mem_cons_of_mem _ hx))
    simp only [sumBy_cons]; omega

theorem sumBy_congr {f g : α → Nat} {l : List α} (h : ∀ x ∈ l, f x = g x) : sumBy f l = sumBy g l :=
  Nat.le_antisymm (sumBy_le_of_le (fun x hx => Nat.le_of_eq (h x hx))) (sumBy_le_of_le (fun x hx => Nat.le_of_eq (h x hx).symm))

theorem sumBy_const (c : Nat) : ∀ (l : List α), sumBy (fun _ => c) l = c * l.length
  | [] => rfl
  | a :: l => by simp only [sumBy_cons, sumBy_const c l, List.length_cons, Nat.mul_succ]; omega

theorem sumBy_le_mul {f : α → Nat} {c : Nat} {l : List α} (h : ∀ x ∈ l, f x ≤ c) : sumBy f l ≤ c * l.length := by
  rw [← sumBy_const c l]; exact sumBy_le_of_le h

theorem sumBy_mul_le {f : α → Nat} {c : Nat} {l : List α} (h : ∀ x ∈ l, c ≤ f x) : c * l.length ≤ sumBy f l := by
  rw [← sumBy_const c l]; exact sumBy_le_of_le h

theorem sumBy_add (f g : α → Nat) : ∀ (l : List α), sumBy (fun x => f x + g x) l = sumBy f l + sumBy g l
  | [] => rfl
  | a :: l => by simp only [sumBy_cons, sumBy_add f g l]; omega

/-- `sumBy (fun r => f r + c)`: the form of the two deferred-request summands of `Phi` -/
theorem sumBy_add_const (f : α → Nat) (c : Nat) (l : List α) : sumBy (fun x => f x + c) l = sumBy f l + c * l.length := by
  rw [sumBy_add, sumBy_const]

theorem sumBy_flatMap (f : β → Nat) (g : α → List β) : ∀ (l : List α),
    sumBy f (l.flatMap g) = sumBy (fun x => sumBy f (g x)) l
  | [] => rfl
  | a :: l => by simp only [List.flatMap_cons, sumBy_append, sumBy_cons, sumBy_flatMap f g l]

theorem sumBy_map (f : β → Nat) (g : α → β) (l : List α) : sumBy f (l.map g) = sumBy (fun x => f (g x)) l := by
  simp [sumBy, List.map_map, Function.comp_def]

theorem le_sumBy_of_mem {f : α → Nat} {l : List α} {a : α} (h : a ∈ l) : f a ≤ sumBy f l := by
  induction l with
  | nil => cases h
  | cons b l ih =>
    rcases List.mem_cons.1 h with e | e
    · subst e; simp only [sumBy_cons]; omega
    · have := ih e; simp only [sumBy_cons]; omega

variable [DecidableEq α]

/-- **exact split**: the summand of one member -/
theorem sumBy_split (f : α → Nat) {U : List α} {k : α} (hk : k ∈ U) : sumBy f U = f k + sumBy f (U.erase k) := by
  rw [sumBy_perm f (List.perm_cons_erase hk), sumBy_cons]

/-- **one key changes** (`≤`): every other summand does not grow -/
theorem sumBy_transfer_le {f g : α → Nat} {U : List α} {k : α} (hn : U.Nodup) (hk : k ∈ U)
    (h : ∀ x ∈ U, x ≠ k → f x ≤ g x) : sumBy f U + g k ≤ sumBy g U + f k := by
  rw [sumBy_split f hk, sumBy_split g hk]
  have : sumBy f (U.erase k) ≤ sumBy g (U.erase k) :=
    sumBy_le_of_le (fun x hx => by
      have := (hn.mem_erase_iff).1 hx
      exact h x this.2 this.1)
  omega

/-- **one key changes** (`=`): every other summand is the same -/
theorem sumBy_transfer_eq {f g : α → Nat} {U : List α} {k : α} (hn : U.Nodup) (hk : k ∈ U)
    (h : ∀ x ∈ U, x ≠ k → f x = g x) : sumBy f U + g k = sumBy g U + f k := by
  have h1 := sumBy_transfer_le hn hk (fun x hx hne => Nat.le_of_eq (h x hx hne))
  have h2 := sumBy_transfer_le hn hk (fun x hx hne => Nat.le_of_eq (h x hx hne).symm)
  omega

/-- one key changes and its own summand drops by `c` -/
theorem sumBy_drop_one {f g : α → Nat} {U : List α} {k : α} {c : Nat} (hn : U.Nodup) (hk : k ∈ U)
    (h : ∀ x ∈ U, x ≠ k → f x ≤ g x) (hd : f k + c ≤ g k) : sumBy f U + c ≤ sumBy g U := by
  have := sumBy_transfer_le hn hk h; omega

/-- **two keys change** -/
theorem sumBy_transfer2_le {f g : α → Nat} {U : List α} {k1 k2 : α} (hn : U.Nodup) (hk1 : k1 ∈ U) (hk2 : k2 ∈ U)
    (hne : k1 ≠ k2) (h : ∀ x ∈ U, x ≠ k1 → x ≠ k2 → f x ≤ g x) :
    sumBy f U + g k1 + g k2 ≤ sumBy g U + f k1 + f k2 := by
  have hk2' : k2 ∈ U.erase k1 := (hn.mem_erase_iff).2 ⟨Ne.symm hne, hk2⟩
  rw [sumBy_split f hk1, sumBy_split g hk1]
  have := sumBy_transfer_le (f := f) (g := g) (hn.erase k1) hk2' (fun x hx hx2 => by
    have := (hn.mem_erase_iff).1 hx
    exact h x this.2 this.1 hx2)
  omega

omit [DecidableEq α] in
/-- a key outside the list does not matter -/
theorem sumBy_congr_off {f g : α → Nat} {U : List α} {k : α} (hk : k ∉ U) (h : ∀ x, x ≠ k → f x = g x) :
    sumBy f U = sumBy g U :=
  sumBy_congr (fun x hx => h x (fun e => hk (e ▸ hx)))

end sumBy


/-! ## 2. What the potential reads -/

/-- the part of the state that `phase`, `deps0`, `ruleW`, `inputQW`, `scanRest`, `scanQW`, `liveRecords`,
`pausedAll`, `requestedByAll` read -/
structure SameCore (s s' : State) : Prop where
  ruleInfos : s'.ruleInfos = s.ruleInfos
  taskInfos : s'.taskInfos = s.taskInfos
  store : s'.store = s.store
  currentEpoch : s'.currentEpoch = s.currentEpoch

theorem SameCore.rfl' (s : State) : SameCore s s := ⟨rfl, rfl, rfl, rfl⟩

theorem SameCore.symm {s s' : State} (h : SameCore s s') : SameCore s' s :=
  ⟨h.ruleInfos.symm, h.taskInfos.symm, h.store.symm, h.currentEpoch.symm⟩

theorem SameCore.trans {s1 s2 s3 : State} (a : SameCore s1 s2) (b : SameCore s2 s3) : SameCore s1 s3 :=
  ⟨b.ruleInfos.trans a.ruleInfos, b.taskInfos.trans a.taskInfos, b.store.trans a.store, b.currentEpoch.trans a.currentEpoch⟩

theorem SameEngine.core {s s' : State} (h : SameEngine s s') : SameCore s s' :=
  ⟨h.ruleInfos, h.taskInfos, h.store, h.currentEpoch⟩

section core
variable {s s' : State} (hc : SameCore s s')
include hc

theorem SameCore.rule_eq (k : Key) : s'.rule k = s.rule k := by unfold State.rule; rw [hc.ruleInfos]
theorem SameCore.task_eq (k : Key) : s'.task k = s.task k := by unfold State.task; rw [hc.taskInfos]

theorem SameCore.phase_eq (k : Key) : phase s' k = phase s k := by
  unfold Refine.phase; rw [hc.ruleInfos, hc.currentEpoch, hc.task_eq]

theorem SameCore.deps0_eq (k : Key) : deps0 s' k = deps0 s k := by
  unfold Refine.deps0; rw [hc.ruleInfos, hc.store]

theorem SameCore.ruleW_eq (rules : List RuleSpec) (k : Key) : ruleW rules s' k = ruleW rules s k := by
  unfold Refine.ruleW; rw [hc.phase_eq, hc.deps0_eq, hc.task_eq]

theorem SameCore.inputQW_eq (r : TaskInputRequest) : inputQW s' r = inputQW s r := by
  unfold Refine.inputQW; rw [hc.phase_eq]

theorem SameCore.scanRest_eq (r : RuleScanRequest) : scanRest s' r = scanRest s r := by
  unfold Refine.scanRest; rw [hc.rule_eq]

theorem SameCore.scanQW_eq (r : RuleScanRequest) : scanQW s' r = scanQW s r := by
  unfold Refine.scanQW; rw [hc.scanRest_eq, hc.rule_eq]
  cases (s.rule r.ruleInfo).result.deps[r.inputIndex]? with
  | none => rfl
  | some d => simp only [hc.phase_eq]

theorem SameCore.liveRecords_eq : liveRecords s' = liveRecords s := by unfold Refine.liveRecords; rw [hc.ruleInfos]
theorem SameCore.pausedAll_eq : pausedAll s' = pausedAll s := by unfold Refine.pausedAll; rw [hc.liveRecords_eq]
theorem SameCore.requestedByAll_eq : requestedByAll s' = requestedByAll s := by unfold Refine.requestedByAll; rw [hc.taskInfos]
theorem SameCore.registered_iff (k : Key) : Registered s' k ↔ Registered s k := by unfold Registered; rw [hc.ruleInfos]

/-- **what `Phi` reads**: the core, the input and scan work lists (hand + queue) up to order, the NUMBER of finished
input requests -/
theorem Phi_congr (rules : List RuleSpec) (U : List Key) {h h' : Hand}
    (hi : List.Perm (h'.inp ++ s'.inputRequests) (h.inp ++ s.inputRequests))
    (hf : (h'.fin ++ s'.finishedInputRequests).length = (h.fin ++ s.finishedInputRequests).length)
    (hs : List.Perm (h'.scan ++ s'.ruleInfosToScan) (h.scan ++ s.ruleInfosToScan)) :
    Phi rules U s' h' = Phi rules U s h := by
  unfold Phi
  have e1 : Refine.ruleW rules s' = Refine.ruleW rules s := funext (hc.ruleW_eq rules)
  have e2 : Refine.inputQW s' = Refine.inputQW s := funext hc.inputQW_eq
  have e3 : Refine.scanQW s' = Refine.scanQW s := funext hc.scanQW_eq
  have e4 : Refine.scanRest s' = Refine.scanRest s := funext hc.scanRest_eq
  rw [e1, e2, e3, e4, hc.pausedAll_eq, hc.requestedByAll_eq, hc.liveRecords_eq, hc.taskInfos, hf,
    sumBy_perm _ hi, sumBy_perm _ hs]

/-- `ClosedU` reads the core and `inputRequests` -/
theorem ClosedU.congr {rules : List RuleSpec} {U : List Key} (hu : ClosedU rules U s)
    (hi : ∀ r ∈ s'.inputRequests, r ∈ s.inputRequests) : ClosedU rules U s' :=
  { nodup := hu.nodup
    registered := fun k hk => hu.registered k ((hc.registered_iff k).1 hk)
    reqs := hu.reqs
    discs := hu.discs
    deps := fun k hk d hd => hu.deps k hk d (by rwa [hc.deps0_eq] at hd)
    inputs := fun r hr => hu.inputs r (hi r hr) }

end core

/-! ### the recorder -/

theorem Phi_same {s s' : State} (rules : List RuleSpec) (U : List Key) (h : Hand) (hs : SameEngine s s') :
    Phi rules U s' h = Phi rules U s h :=
  Phi_congr hs.core rules U (by rw [hs.inputRequests]) (by rw [hs.finishedInputRequests]) (by rw [hs.ruleInfosToScan])

theorem ClosedU.same {rules : List RuleSpec} {U : List Key} {s s' : State} (hu : ClosedU rules U s) (hs : SameEngine s s') :
    ClosedU rules U s' :=
  hu.congr hs.core (fun r hr => by rwa [hs.inputRequests] at hr)

theorem TermStep.same {rules : List RuleSpec} {U : List Key} {s s' : State} {h : Hand} (hu : ClosedU rules U s)
    (hs : SameEngine s s') : TermStep rules U s h s' h 0 :=
  by unfold TermStep; exact ⟨hu.same hs, by rw [Nat.add_zero, Phi_same rules U h hs]; exact Nat.le_refl _⟩

theorem SameEngine.trans' {s1 s2 s3 : State} (a : SameEngine s1 s2) (b : SameEngine s2 s3) : SameEngine s1 s3 :=
  SameEngine.trans a b

@[simp] theorem phase_emit (t : Tok) (s : State) (k : Key) : phase (emit t s) k = phase s k := (emit_same t s).core.phase_eq k
@[simp] theorem deps0_emit (t : Tok) (s : State) (k : Key) : deps0 (emit t s) k = deps0 s k := (emit_same t s).core.deps0_eq k
@[simp] theorem ruleW_emit (rules : List RuleSpec) (t : Tok) (s : State) (k : Key) :
    ruleW rules (emit t s) k = ruleW rules s k := (emit_same t s).core.ruleW_eq rules k
@[simp] theorem inputQW_emit (t : Tok) (s : State) (r : TaskInputRequest) : inputQW (emit t s) r = inputQW s r :=
  (emit_same t s).core.inputQW_eq r
@[simp] theorem scanRest_emit (t : Tok) (s : State) (r : RuleScanRequest) : scanRest (emit t s) r = scanRest s r :=
  (emit_same t s).core.scanRest_eq r
@[simp] theorem scanQW_emit (t : Tok) (s : State) (r : RuleScanRequest) : scanQW (emit t s) r = scanQW s r :=
  (emit_same t s).core.scanQW_eq r

@[simp] theorem Phi_emit (rules : List RuleSpec) (U : List Key) (t : Tok) (s : State) (h : Hand) :
    Phi rules U (emit t s) h = Phi rules U s h := Phi_same rules U h (emit_same t s)
@[simp] theorem Phi_emitAll (rules : List RuleSpec) (U : List Key) (toks : List Tok) (s : State) (h : Hand) :
    Phi rules U (emitAll toks s) h = Phi rules U s h := Phi_same rules U h (emitAll_same toks s)
@[simp] theorem Phi_doCancel (rules : List RuleSpec) (U : List Key) (s : State) (h : Hand) :
    Phi rules U (doCancel s) h = Phi rules U s h := Phi_same rules U h (doCancel_same s)
@[simp] theorem Phi_halt (rules : List RuleSpec) (U : List Key) (t : Tok) (s : State) (h : Hand) :
    Phi rules U (halt t s) h = Phi rules U s h := Phi_same rules U h (halt_same t s)

theorem ClosedU.emit_tok {rules : List RuleSpec} {U : List Key} {s : State} (hu : ClosedU rules U s) (t : Tok) :
    ClosedU rules U (EngineImpl.emit t s) := hu.same (emit_same t s)
theorem ClosedU.emit_all {rules : List RuleSpec} {U : List Key} {s : State} (hu : ClosedU rules U s) (toks : List Tok) :
    ClosedU rules U (Refine.emitAll toks s) := hu.same (emitAll_same toks s)
theorem ClosedU.do_cancel {rules : List RuleSpec} {U : List Key} {s : State} (hu : ClosedU rules U s) :
    ClosedU rules U (EngineImpl.doCancel s) := hu.same (doCancel_same s)
theorem ClosedU.halt_tok {rules : List RuleSpec} {U : List Key} {s : State} (hu : ClosedU rules U s) (t : Tok) :
    ClosedU rules U (EngineImpl.halt t s) := hu.same (halt_same t s)

theorem ClosedU.of_emit {rules : List RuleSpec} {U : List Key} {s : State} {t : Tok}
    (hu : ClosedU rules U (EngineImpl.emit t s)) : ClosedU rules U s :=
  hu.congr (emit_same t s).core.symm (fun r hr => by rwa [emit_inputRequests])

theorem emit_term {rules : List RuleSpec} {U : List Key} {s : State} {h : Hand} (hu : ClosedU rules U s) (t : Tok) :
    TermStep rules U s h (emit t s) h 0 := TermStep.same hu (emit_same t s)
theorem emitAll_term {rules : List RuleSpec} {U : List Key} {s : State} {h : Hand} (hu : ClosedU rules U s) (toks : List Tok) :
    TermStep rules U s h (emitAll toks s) h 0 := TermStep.same hu (emitAll_same toks s)
theorem doCancel_term {rules : List RuleSpec} {U : List Key} {s : State} {h : Hand} (hu : ClosedU rules U s) :
    TermStep rules U s h (doCancel s) h 0 := TermStep.same hu (doCancel_same s)
theorem halt_term {rules : List RuleSpec} {U : List Key} {s : State} {h : Hand} (hu : ClosedU rules U s) (t : Tok) :
    TermStep rules U s h (halt t s) h 0 := TermStep.same hu (halt_same t s)

/-- `TermStep` with nothing happening -/
theorem TermStep.refl {rules : List RuleSpec} {U : List Key} {s : State} {h : Hand} (hu : ClosedU rules U s) :
    TermStep rules U s h s h 0 := by unfold TermStep; exact ⟨hu, Nat.le_refl _⟩

/-- weaken the drop -/
theorem TermStep.mono {rules : List RuleSpec} {U : List Key} {s s' : State} {h h' : Hand} {c d : Nat}
    (a : TermStep rules U s h s' h' c) (hd : d ≤ c) : TermStep rules U s h s' h' d :=
  by unfold TermStep at *; exact ⟨a.1, by have := a.2; omega⟩


/-! ## 3. The hand -/

/-- the `dec` and `issuing` fields of the hand do not enter the potential -/
theorem Phi_hand (rules : List RuleSpec) (U : List Key) (s : State) {h h' : Hand}
    (hi : h'.inp = h.inp) (hf : h'.fin = h.fin) (hs : h'.scan = h.scan) : Phi rules U s h' = Phi rules U s h :=
  Phi_congr (SameCore.rfl' s) rules U (by rw [hi]) (by rw [hf]) (by rw [hs])

@[simp] theorem Phi_hand_dec (rules : List RuleSpec) (U : List Key) (s : State) (h : Hand) (l : List TaskInputRequest) :
    Phi rules U s { h with dec := l } = Phi rules U s h := Phi_hand rules U s rfl rfl rfl

@[simp] theorem Phi_hand_issuing (rules : List RuleSpec) (U : List Key) (s : State) (h : Hand) (x : Option (Key × List Req)) :
    Phi rules U s { h with issuing := x } = Phi rules U s h := Phi_hand rules U s rfl rfl rfl

theorem perm_getLast {α : Type} {l : List α} {r : α} (h : l.getLast? = some r) (pre : List α) :
    List.Perm ((r :: pre) ++ l.dropLast) (pre ++ l) := by
  have e : l = l.dropLast ++ [r] := by
    obtain ⟨ys, hy⟩ := List.getLast?_eq_some_iff.1 h
    rw [hy, List.dropLast_concat]
  have hp : List.Perm (pre ++ l) (pre ++ (l.dropLast ++ [r])) := by rw [← e]
  refine List.Perm.symm (hp.trans ?_)
  rw [← List.append_assoc]
  exact (List.perm_append_comm (l₁ := pre ++ l.dropLast) (l₂ := [r])).trans (by simp)

/-- `inputRequestsLoop` pops the head of `inputRequests` into the hand -/
theorem Phi_popInput (rules : List RuleSpec) (U : List Key) {s : State} (h : Hand) {r : TaskInputRequest}
    {rest : List TaskInputRequest} (hq : s.inputRequests = r :: rest) :
    Phi rules U { s with inputRequests := rest } { h with inp := r :: h.inp } = Phi rules U s h :=
  Phi_congr (s := s) (s' := { s with inputRequests := rest }) ⟨rfl, rfl, rfl, rfl⟩ rules U
    (by show List.Perm ((r :: h.inp) ++ rest) (h.inp ++ s.inputRequests)
        rw [hq]; exact (List.perm_middle).symm)
    rfl (List.Perm.refl _)

/-- … with the empty hand, as `inputRequestsLoop` does -/
theorem Phi_popInput0 (rules : List RuleSpec) (U : List Key) {s : State} {r : TaskInputRequest}
    {rest : List TaskInputRequest} (hq : s.inputRequests = r :: rest) :
    Phi rules U { s with inputRequests := rest } { inp := [r] } = Phi rules U s {} :=
  Phi_popInput rules U {} hq

/-- `finishedInputsLoop` pops the LAST finished request into the hand -/
theorem Phi_popFin (rules : List RuleSpec) (U : List Key) {s : State} (h : Hand) {r : TaskInputRequest}
    (hq : s.finishedInputRequests.getLast? = some r) :
    Phi rules U { s with finishedInputRequests := s.finishedInputRequests.dropLast } { h with fin := r :: h.fin } =
      Phi rules U s h :=
  Phi_congr (s := s) (s' := { s with finishedInputRequests := s.finishedInputRequests.dropLast }) ⟨rfl, rfl, rfl, rfl⟩ rules U
    (List.Perm.refl _) ((perm_getLast hq h.fin).length_eq) (List.Perm.refl _)

theorem Phi_popFin0 (rules : List RuleSpec) (U : List Key) {s : State} {r : TaskInputRequest}
    (hq : s.finishedInputRequests.getLast? = some r) :
    Phi rules U { s with finishedInputRequests := s.finishedInputRequests.dropLast } { fin := [r] } = Phi rules U s {} :=
  Phi_popFin rules U {} hq

/-- `scanRequestsLoop` pops the LAST scan request into the hand -/
theorem Phi_popScan (rules : List RuleSpec) (U : List Key) {s : State} (h : Hand) {r : RuleScanRequest}
    (hq : s.ruleInfosToScan.getLast? = some r) :
    Phi rules U { s with ruleInfosToScan := s.ruleInfosToScan.dropLast } { h with scan := r :: h.scan } =
      Phi rules U s h :=
  Phi_congr (s := s) (s' := { s with ruleInfosToScan := s.ruleInfosToScan.dropLast }) ⟨rfl, rfl, rfl, rfl⟩ rules U
    (List.Perm.refl _) rfl (perm_getLast hq h.scan)

theorem Phi_popScan0 (rules : List RuleSpec) (U : List Key) {s : State} {r : RuleScanRequest}
    (hq : s.ruleInfosToScan.getLast? = some r) :
    Phi rules U { s with ruleInfosToScan := s.ruleInfosToScan.dropLast } { scan := [r] } = Phi rules U s {} :=
  Phi_popScan rules U {} hq

/-- `ClosedU` when a queue other than… any queue shrinks -/
theorem ClosedU.popInput {rules : List RuleSpec} {U : List Key} {s : State} {r : TaskInputRequest}
    {rest : List TaskInputRequest} (hu : ClosedU rules U s) (hq : s.inputRequests = r :: rest) :
    ClosedU rules U { s with inputRequests := rest } :=
  hu.congr (s := s) (s' := { s with inputRequests := rest }) ⟨rfl, rfl, rfl, rfl⟩
    (fun x hx => by rw [hq]; exact List.mem_cons_of_mem _ hx)

theorem ClosedU.popped_mem {rules : List RuleSpec} {U : List Key} {s : State} {r : TaskInputRequest}
    {rest : List TaskInputRequest} (hu : ClosedU rules U s) (hq : s.inputRequests = r :: rest) : r.inputRuleInfo ∈ U :=
  hu.inputs r (by rw [hq]; exact List.mem_cons_self)

/-- the value of `Phi` with items in hand, in terms of the empty hand -/
theorem Phi_hand_inp (rules : List RuleSpec) (U : List Key) (s : State) (h : Hand) (r : TaskInputRequest) :
    Phi rules U s { h with inp := r :: h.inp } = Phi rules U s h + inputQW s r := by
  unfold Phi
  simp only [List.cons_append, sumBy_cons]
  omega

theorem Phi_hand_fin (rules : List RuleSpec) (U : List Key) (s : State) (h : Hand) (r : TaskInputRequest) :
    Phi rules U s { h with fin := r :: h.fin } = Phi rules U s h + 1 := by
  unfold Phi
  simp only [List.cons_append, List.length_cons]
  omega

theorem Phi_hand_scan (rules : List RuleSpec) (U : List Key) (s : State) (h : Hand) (r : RuleScanRequest) :
    Phi rules U s { h with scan := r :: h.scan } = Phi rules U s h + scanQW s r := by
  unfold Phi
  simp only [List.cons_append, sumBy_cons]
  omega


/-! ## 4. Pointwise facts -/

/-! ### `phase` -/

theorem phase_le (s : State) (k : Key) : phase s k ≤ 6 := by
  unfold phase
  split
  · exact Nat.le_refl _
  · split <;> try omega
    all_goals split <;> omega

/-- what `phase` reads at one key -/
theorem phase_congr_key {s s' : State} {k : Key} (h1 : s'.ruleInfos.lookup k = s.ruleInfos.lookup k)
    (h2 : (s'.task k).done = (s.task k).done) (h3 : s'.currentEpoch = s.currentEpoch) : phase s' k = phase s k := by
  unfold phase; rw [h1, h2, h3]

/-- `phase` through the accessor `s.rule k` (an unregistered key reads as a default `Incomplete` rule) -/
theorem phase_rule (s : State) (k : Key) :
    phase s k =
      match (s.rule k).state with
      | .incomplete => 6
      | .isScanning => 5
      | .needsToRun => 4
      | .doesNotNeedToRun => 4
      | .inProgressWaiting => 3
      | .inProgressComputing => if (s.task k).done then 1 else 2
      | .complete => if (s.rule k).result.builtAt = s.currentEpoch then 0 else 6 := by
  unfold phase State.rule
  cases s.ruleInfos.lookup k <;> rfl

theorem phase_unreg {s : State} {k : Key} (h : s.ruleInfos.lookup k = none) : phase s k = 6 := by
  unfold phase; rw [h]

theorem phase_incomplete {s : State} {k : Key} (h : (s.rule k).state = .incomplete) : phase s k = 6 := by
  rw [phase_rule, h]
theorem phase_isScanning {s : State} {k : Key} (h : (s.rule k).state = .isScanning) : phase s k = 5 := by
  rw [phase_rule, h]
theorem phase_needsToRun {s : State} {k : Key} (h : (s.rule k).state = .needsToRun) : phase s k = 4 := by
  rw [phase_rule, h]
theorem phase_doesNotNeedToRun {s : State} {k : Key} (h : (s.rule k).state = .doesNotNeedToRun) : phase s k = 4 := by
  rw [phase_rule, h]
theorem phase_waiting {s : State} {k : Key} (h : (s.rule k).state = .inProgressWaiting) : phase s k = 3 := by
  rw [phase_rule, h]
theorem phase_computing {s : State} {k : Key} (h : (s.rule k).state = .inProgressComputing) :
    phase s k = if (s.task k).done then 1 else 2 := by
  rw [phase_rule, h]
theorem phase_complete {s : State} {k : Key} (h : (s.rule k).state = .complete) :
    phase s k = if (s.rule k).result.builtAt = s.currentEpoch then 0 else 6 := by
  rw [phase_rule, h]

theorem phase_eq_5_iff {s : State} {k : Key} : phase s k = 5 ↔ (s.rule k).state = .isScanning := by
  rw [phase_rule]
  cases (s.rule k).state <;> simp <;> split <;> omega

theorem phase_eq_4_iff {s : State} {k : Key} :
    phase s k = 4 ↔ (s.rule k).state = .needsToRun ∨ (s.rule k).state = .doesNotNeedToRun := by
  rw [phase_rule]
  cases (s.rule k).state <;> simp <;> split <;> omega

theorem phase_eq_3_iff {s : State} {k : Key} : phase s k = 3 ↔ (s.rule k).state = .inProgressWaiting := by
  rw [phase_rule]
  cases (s.rule k).state <;> simp <;> split <;> omega

theorem phase_eq_2_iff {s : State} {k : Key} :
    phase s k = 2 ↔ (s.rule k).state = .inProgressComputing ∧ (s.task k).done = false := by
  rw [phase_rule]
  cases (s.rule k).state <;> cases (s.task k).done <;> simp <;> split <;> omega

theorem phase_eq_1_iff {s : State} {k : Key} :
    phase s k = 1 ↔ (s.rule k).state = .inProgressComputing ∧ (s.task k).done = true := by
  rw [phase_rule]
  cases (s.rule k).state <;> cases (s.task k).done <;> simp <;> split <;> omega

/-- `RuleInfo::isComplete(engine)` -/
theorem phase_eq_0_iff {s : State} {k : Key} : phase s k = 0 ↔ isComplete s (s.rule k) = true := by
  rw [phase_rule]
  unfold isComplete
  cases (s.rule k).state <;> simp
  · split <;> omega

/-- `RuleInfo::isScanned(engine)`: the rule has a scan verdict (or is further) -/
theorem phase_le_4_iff {s : State} {k : Key} : phase s k ≤ 4 ↔ isScanned s (s.rule k) = true := by
  rw [phase_rule]
  unfold isScanned isComplete
  cases (s.rule k).state <;> simp [StateKind.toNat]
  · split <;> omega
  · split <;> simp_all

theorem phase_eq_6_iff {s : State} {k : Key} :
    phase s k = 6 ↔ (s.rule k).state = .incomplete ∨
      ((s.rule k).state = .complete ∧ (s.rule k).result.builtAt ≠ s.currentEpoch) := by
  rw [phase_rule]
  cases (s.rule k).state <;> simp
  · split <;> omega

theorem phase_lt_6_registered {s : State} {k : Key} (h : phase s k < 6) : Registered s k := by
  unfold Registered
  cases hl : s.ruleInfos.lookup k with
  | none => rw [phase_unreg hl] at h; omega
  | some _ => rfl

@[simp] theorem phase_setRule_ne {s : State} {ri : RuleInfo} {k : Key} (hne : k ≠ ri.key) :
    phase (s.setRule ri) k = phase s k :=
  phase_congr_key (by rw [setRule_lookup]; simp [hne]) rfl rfl

theorem phase_setTask_ne {s : State} {t : TaskInfo} {k : Key} (hne : k ≠ t.forRuleInfo) :
    phase (s.setTask t) k = phase s k :=
  phase_congr_key rfl (by rw [setTask_task]; simp [hne]) rfl

/-- a task update that keeps `done` -/
theorem phase_setTask_done {s : State} {t : TaskInfo} (hd : t.done = (s.task t.forRuleInfo).done) (k : Key) :
    phase (s.setTask t) k = phase s k :=
  phase_congr_key rfl (by
    rw [setTask_task]
    by_cases e : k = t.forRuleInfo
    · subst e; simp [hd]
    · simp [e]) rfl

/-! ### `deps0` -/

theorem deps0_congr_key {s s' : State} {k : Key} (h1 : s'.ruleInfos.lookup k = s.ruleInfos.lookup k)
    (h2 : s'.store.rows.lookup k = s.store.rows.lookup k) : deps0 s' k = deps0 s k := by
  unfold deps0; rw [h1, h2]

theorem deps0_registered {s : State} {k : Key} (h : Registered s k) : deps0 s k = (s.rule k).result.deps := by
  unfold deps0 State.rule
  unfold Registered at h
  cases hl : s.ruleInfos.lookup k with
  | none => rw [hl] at h; cases h
  | some ri => rfl

theorem deps0_unreg {s : State} {k : Key} (h : s.ruleInfos.lookup k = none) :
    deps0 s k = ((s.store.rows.lookup k).getD {}).deps := by
  unfold deps0; rw [h]

@[simp] theorem deps0_setRule_ne {s : State} {ri : RuleInfo} {k : Key} (hne : k ≠ ri.key) :
    deps0 (s.setRule ri) k = deps0 s k :=
  deps0_congr_key (by rw [setRule_lookup]; simp [hne]) rfl

@[simp] theorem deps0_setRule_self (s : State) (ri : RuleInfo) : deps0 (s.setRule ri) ri.key = ri.result.deps := by
  unfold deps0; rw [setRule_lookup]; simp

@[simp] theorem deps0_setTask (s : State) (t : TaskInfo) (k : Key) : deps0 (s.setTask t) k = deps0 s k := rfl

/-! ### `ruleW` -/

theorem ruleW_congr_key {rules : List RuleSpec} {s s' : State} {k : Key} (h1 : phase s' k = phase s k)
    (h2 : deps0 s' k = deps0 s k) (h3 : (s'.task k).issuedReqs = (s.task k).issuedReqs) :
    ruleW rules s' k = ruleW rules s k := by
  unfold ruleW; rw [h1, h2, h3]

theorem ruleW_of_phase6 {rules : List RuleSpec} {s : State} {k : Key} (h : phase s k = 6) :
    ruleW rules s k =
      6 + 6 * ((deps0 s k).length + 1) + 6 * (allReqs (specOf rules k)).length + 6 * (specOf rules k).discs.length := by
  unfold ruleW; rw [h]; simp

theorem ruleW_of_phase5 {rules : List RuleSpec} {s : State} {k : Key} (h : phase s k = 5) :
    ruleW rules s k = 5 + 6 * (allReqs (specOf rules k)).length + 6 * (specOf rules k).discs.length := by
  unfold ruleW; rw [h]; simp

theorem ruleW_of_phase4 {rules : List RuleSpec} {s : State} {k : Key} (h : phase s k = 4) :
    ruleW rules s k = 4 + 6 * (allReqs (specOf rules k)).length + 6 * (specOf rules k).discs.length := by
  unfold ruleW; rw [h]; simp

theorem ruleW_of_phase3 {rules : List RuleSpec} {s : State} {k : Key} (h : phase s k = 3) :
    ruleW rules s k =
      3 + 6 * ((allReqs (specOf rules k)).length - (s.task k).issuedReqs.length) + 6 * (specOf rules k).discs.length := by
  unfold ruleW; rw [h]; simp

theorem ruleW_of_phase2 {rules : List RuleSpec} {s : State} {k : Key} (h : phase s k = 2) :
    ruleW rules s k = 2 + 6 * (specOf rules k).discs.length := by
  unfold ruleW; rw [h]; simp

theorem ruleW_of_phase1 {rules : List RuleSpec} {s : State} {k : Key} (h : phase s k = 1) :
    ruleW rules s k = 1 + 6 * (specOf rules k).discs.length := by
  unfold ruleW; rw [h]; simp

theorem ruleW_of_phase0 {rules : List RuleSpec} {s : State} {k : Key} (h : phase s k = 0) : ruleW rules s k = 0 := by
  unfold ruleW; rw [h]; simp

/-- the weight of a rule never exceeds the weight of the idle rule -/
theorem ruleW_le (rules : List RuleSpec) (s : State) (k : Key) :
    ruleW rules s k ≤
      6 + 6 * ((deps0 s k).length + 1) + 6 * (allReqs (specOf rules k)).length + 6 * (specOf rules k).discs.length := by
  have h6 := phase_le s k
  unfold ruleW
  split <;> split <;> (try split) <;> (try split) <;> omega

/-- the phase is part of the weight -/
theorem phase_le_ruleW (rules : List RuleSpec) (s : State) (k : Key) : phase s k ≤ ruleW rules s k := by
  unfold ruleW; omega

@[simp] theorem ruleW_setRule_ne {rules : List RuleSpec} {s : State} {ri : RuleInfo} {k : Key} (hne : k ≠ ri.key) :
    ruleW rules (s.setRule ri) k = ruleW rules s k :=
  ruleW_congr_key (phase_setRule_ne hne) (deps0_setRule_ne hne) rfl

theorem ruleW_setTask_ne {rules : List RuleSpec} {s : State} {t : TaskInfo} {k : Key} (hne : k ≠ t.forRuleInfo) :
    ruleW rules (s.setTask t) k = ruleW rules s k :=
  ruleW_congr_key (phase_setTask_ne hne) rfl (by rw [setTask_task]; simp [hne])

/-- the phase drops (or stays) and the request budget does not grow back: the weight drops by at least as much.
The workhorse for a state transition of ONE rule: `6 → 5`, `5 → 4`, `4 → 3`, `3 → 2`, `2 → 1`, `1 → 0`. -/
theorem ruleW_mono_phase {rules : List RuleSpec} {s s' : State} {k : Key} (hp : phase s' k ≤ phase s k)
    (hd : phase s' k = 6 → deps0 s' k = deps0 s k)
    (hi : phase s' k = 3 → phase s k = 3 → (s.task k).issuedReqs.length ≤ (s'.task k).issuedReqs.length) :
    ruleW rules s' k + (phase s k - phase s' k) ≤ ruleW rules s k := by
  have h6 := phase_le s k
  unfold ruleW
  have hA : (if phase s' k = 6 then 6 * ((deps0 s' k).length + 1) else 0) ≤
      (if phase s k = 6 then 6 * ((deps0 s k).length + 1) else 0) := by
    split
    · rename_i e; rw [hd e]; split <;> omega
    · exact Nat.zero_le _
  have hB : (if 4 ≤ phase s' k then 6 * (allReqs (specOf rules k)).length
        else if phase s' k = 3 then 6 * ((allReqs (specOf rules k)).length - (s'.task k).issuedReqs.length) else 0) ≤
      (if 4 ≤ phase s k then 6 * (allReqs (specOf rules k)).length
        else if phase s k = 3 then 6 * ((allReqs (specOf rules k)).length - (s.task k).issuedReqs.length) else 0) := by
    split
    · split <;> omega
    · split
      · rename_i e3
        split
        · omega
        · split
          · rename_i e3'; have := hi e3 e3'; omega
          · omega
      · exact Nat.zero_le _
  have hC : (if phase s' k = 0 then 0 else 6 * (specOf rules k).discs.length) ≤
      (if phase s k = 0 then 0 else 6 * (specOf rules k).discs.length) := by
    split
    · exact Nat.zero_le _
    · split <;> omega
  omega

/-! ### `inputQW` -/

theorem inputQW_le5 (s : State) (r : TaskInputRequest) : inputQW s r ≤ 5 := by unfold inputQW; split <;> omega
theorem inputQW_ge3 (s : State) (r : TaskInputRequest) : 3 ≤ inputQW s r := by unfold inputQW; split <;> omega

theorem inputQW_of_ge5 {s : State} {r : TaskInputRequest} (h : 5 ≤ phase s r.inputRuleInfo) : inputQW s r = 5 := by
  unfold inputQW; simp [h]

theorem inputQW_of_le4 {s : State} {r : TaskInputRequest} (h : phase s r.inputRuleInfo ≤ 4) : inputQW s r = 3 := by
  unfold inputQW
  have : ¬ 5 ≤ phase s r.inputRuleInfo := by omega
  simp [this]

/-- `inputQW` is monotone in the phase of the target -/
theorem inputQW_mono {s s' : State} {r : TaskInputRequest} (h : phase s' r.inputRuleInfo ≤ phase s r.inputRuleInfo) :
    inputQW s' r ≤ inputQW s r := by
  unfold inputQW; split <;> split <;> omega

theorem inputQW_congr {s s' : State} {r : TaskInputRequest} (h : phase s' r.inputRuleInfo = phase s r.inputRuleInfo) :
    inputQW s' r = inputQW s r := by
  unfold inputQW; rw [h]

/-- only the target of a request matters -/
theorem inputQW_congr_req (s : State) {r r' : TaskInputRequest} (h : r'.inputRuleInfo = r.inputRuleInfo) :
    inputQW s r' = inputQW s r := by
  unfold inputQW; rw [h]

theorem sumBy_inputQW_mono {s s' : State} {l : List TaskInputRequest}
    (h : ∀ r ∈ l, phase s' r.inputRuleInfo ≤ phase s r.inputRuleInfo) : sumBy (inputQW s') l ≤ sumBy (inputQW s) l :=
  sumBy_le_of_le (fun r hr => inputQW_mono (h r hr))

/-! ### `scanRest`, `scanQW` -/

/-- the location part of `scanQW`: by the phase of the dependency the request stands at -/
def scanLoc (s : State) (r : RuleScanRequest) : Nat :=
  match (s.rule r.ruleInfo).result.deps[r.inputIndex]? with
  | none => 0
  | some d => if 5 ≤ phase s d.key then 5 else if 1 ≤ phase s d.key then 3 else 1

theorem scanQW_eq_loc (s : State) (r : RuleScanRequest) : scanQW s r = scanRest s r + scanLoc s r := rfl

theorem scanLoc_le (s : State) (r : RuleScanRequest) : scanLoc s r ≤ 5 := by
  unfold scanLoc; split
  · omega
  · split
    · omega
    · split <;> omega

theorem scanQW_le_rest5 (s : State) (r : RuleScanRequest) : scanQW s r ≤ scanRest s r + 5 := by
  rw [scanQW_eq_loc]; have := scanLoc_le s r; omega

theorem scanRest_le_scanQW (s : State) (r : RuleScanRequest) : scanRest s r ≤ scanQW s r := by
  rw [scanQW_eq_loc]; omega

theorem scanLoc_of_dep {s : State} {r : RuleScanRequest} {d : Dep}
    (h : (s.rule r.ruleInfo).result.deps[r.inputIndex]? = some d) :
    scanLoc s r = if 5 ≤ phase s d.key then 5 else if 1 ≤ phase s d.key then 3 else 1 := by
  unfold scanLoc; rw [h]

theorem scanLoc_ge_of_dep {s : State} {r : RuleScanRequest} {d : Dep}
    (h : (s.rule r.ruleInfo).result.deps[r.inputIndex]? = some d) : 1 ≤ scanLoc s r := by
  rw [scanLoc_of_dep h]; split
  · omega
  · split <;> omega

/-- a request in bounds (`ScanReqOk.inBounds`) still has at least 6 to go -/
theorem scanRest_pos {s : State} {r : RuleScanRequest} (h : r.inputIndex < (s.rule r.ruleInfo).result.deps.length) :
    6 ≤ scanRest s r := by
  unfold scanRest; omega

/-- only the scanned rule and the index matter (the cached input of the request does not) -/
theorem scanRest_congr_req (s : State) {r r' : RuleScanRequest} (h1 : r'.ruleInfo = r.ruleInfo)
    (h2 : r'.inputIndex = r.inputIndex) : scanRest s r' = scanRest s r := by
  unfold scanRest; rw [h1, h2]

theorem scanQW_congr_req (s : State) {r r' : RuleScanRequest} (h1 : r'.ruleInfo = r.ruleInfo)
    (h2 : r'.inputIndex = r.inputIndex) : scanQW s r' = scanQW s r := by
  unfold scanQW scanRest; rw [h1, h2]

/-- what `scanRest` reads -/
theorem scanRest_congr {s s' : State} {r : RuleScanRequest}
    (hd : (s'.rule r.ruleInfo).result.deps = (s.rule r.ruleInfo).result.deps) : scanRest s' r = scanRest s r := by
  unfold scanRest; rw [hd]

/-- what `scanQW` reads -/
theorem scanQW_congr {s s' : State} {r : RuleScanRequest}
    (hd : (s'.rule r.ruleInfo).result.deps = (s.rule r.ruleInfo).result.deps)
    (hp : ∀ d, (s.rule r.ruleInfo).result.deps[r.inputIndex]? = some d → phase s' d.key = phase s d.key) :
    scanQW s' r = scanQW s r := by
  unfold scanQW scanRest; rw [hd]
  cases hx : (s.rule r.ruleInfo).result.deps[r.inputIndex]? with
  | none => rfl
  | some d => simp only [hp d hx]

/-- `scanQW` is monotone in the phase of the dependency the request stands at -/
theorem scanQW_mono {s s' : State} {r : RuleScanRequest}
    (hd : (s'.rule r.ruleInfo).result.deps = (s.rule r.ruleInfo).result.deps)
    (hp : ∀ d, (s.rule r.ruleInfo).result.deps[r.inputIndex]? = some d → phase s' d.key ≤ phase s d.key) :
    scanQW s' r ≤ scanQW s r := by
  unfold scanQW scanRest; rw [hd]
  cases hx : (s.rule r.ruleInfo).result.deps[r.inputIndex]? with
  | none => exact Nat.le_refl _
  | some d =>
    have := hp d hx
    simp only
    split <;> split <;> (try split) <;> (try split) <;> omega

theorem scanLoc_mono {s s' : State} {r : RuleScanRequest}
    (hd : (s'.rule r.ruleInfo).result.deps = (s.rule r.ruleInfo).result.deps)
    (hp : ∀ d, (s.rule r.ruleInfo).result.deps[r.inputIndex]? = some d → phase s' d.key ≤ phase s d.key) :
    scanLoc s' r ≤ scanLoc s r := by
  have h1 := scanQW_mono hd hp
  rw [scanQW_eq_loc, scanQW_eq_loc, scanRest_congr hd] at h1
  omega

/-- moving on to the next dependency: `−6`, and the new location costs at most 5 -/
theorem scanRest_advance {s : State} {r r' : RuleScanRequest} (hb : r.inputIndex < (s.rule r.ruleInfo).result.deps.length)
    (h1 : r'.ruleInfo = r.ruleInfo) (h2 : r'.inputIndex = r.inputIndex + 1) : scanRest s r' + 6 = scanRest s r := by
  unfold scanRest; rw [h1, h2]; omega

theorem scanQW_advance {s : State} {r r' : RuleScanRequest} (hb : r.inputIndex < (s.rule r.ruleInfo).result.deps.length)
    (h1 : r'.ruleInfo = r.ruleInfo) (h2 : r'.inputIndex = r.inputIndex + 1) : scanQW s r' + 1 ≤ scanRest s r := by
  have := scanRest_advance hb h1 h2
  have := scanQW_le_rest5 s r'
  omega

/-- a request past the end: nothing left -/
theorem scanQW_done {s : State} {r : RuleScanRequest} (h : (s.rule r.ruleInfo).result.deps.length ≤ r.inputIndex) :
    scanQW s r = 0 := by
  unfold scanQW scanRest
  have : (s.rule r.ruleInfo).result.deps[r.inputIndex]? = none := List.getElem?_eq_none h
  rw [this]; simp; omega


/-! ## 5. Registration -/

section register
variable {s : State} {k : Key}

theorem phase_fresh (hl : s.ruleInfos.lookup k = none) (k' : Key) : phase (s.setRule (freshRule s k)) k' = phase s k' := by
  by_cases e : k' = k
  · subst e
    rw [phase_unreg hl]
    exact phase_incomplete (by rw [setRule_rule]; simp [freshRule])
  · exact phase_setRule_ne (ri := freshRule s k) e

theorem deps0_fresh (hl : s.ruleInfos.lookup k = none) (k' : Key) : deps0 (s.setRule (freshRule s k)) k' = deps0 s k' := by
  by_cases e : k' = k
  · subst e
    rw [deps0_unreg hl]
    exact deps0_setRule_self s (freshRule s k')
  · exact deps0_setRule_ne (ri := freshRule s k) e

theorem ruleW_fresh (rules : List RuleSpec) (hl : s.ruleInfos.lookup k = none) (k' : Key) :
    ruleW rules (s.setRule (freshRule s k)) k' = ruleW rules s k' :=
  ruleW_congr_key (phase_fresh hl k') (deps0_fresh hl k') rfl

theorem inputQW_fresh (hl : s.ruleInfos.lookup k = none) (r : TaskInputRequest) :
    inputQW (s.setRule (freshRule s k)) r = inputQW s r := inputQW_congr (phase_fresh hl _)

theorem scanQW_fresh (hl : s.ruleInfos.lookup k = none) {r : RuleScanRequest} (hr : Registered s r.ruleInfo) :
    scanQW (s.setRule (freshRule s k)) r = scanQW s r := by
  have hne : r.ruleInfo ≠ k := registered_ne hl hr
  exact scanQW_congr (by rw [fresh_rule_ne rfl hne]) (fun d _ => phase_fresh hl d.key)

theorem scanRest_fresh (hl : s.ruleInfos.lookup k = none) {r : RuleScanRequest} (hr : Registered s r.ruleInfo) :
    scanRest (s.setRule (freshRule s k)) r = scanRest s r := by
  have hne : r.ruleInfo ≠ k := registered_ne hl hr
  exact scanRest_congr (by rw [fresh_rule_ne rfl hne])

/-- appending a fresh `Incomplete` rule leaves the potential unchanged (an unregistered key of `U` already counts as
idle).  `hscan`: every live scan request belongs to a registered rule (`Rel.scanOk`/`ScanReqOk.reg`). -/
theorem Phi_fresh (rules : List RuleSpec) (U : List Key) (h : Hand) (hl : s.ruleInfos.lookup k = none)
    (hscan : ∀ r ∈ scanReqs s h, Registered s r.ruleInfo) :
    Phi rules U (s.setRule (freshRule s k)) h = Phi rules U s h := by
  have hlr : liveRecords (s.setRule (freshRule s k)) = liveRecords s := fresh_liveRecords hl rfl rfl
  have e1 : ruleW rules (s.setRule (freshRule s k)) = ruleW rules s := funext (ruleW_fresh rules hl)
  have e2 : inputQW (s.setRule (freshRule s k)) = inputQW s := funext (inputQW_fresh hl)
  have e3 : sumBy (scanQW (s.setRule (freshRule s k))) (h.scan ++ s.ruleInfosToScan) =
      sumBy (scanQW s) (h.scan ++ s.ruleInfosToScan) :=
    sumBy_congr (fun r hr => scanQW_fresh hl (hscan r (by
      unfold scanReqs; exact List.mem_append_left _ hr)))
  have e4 : sumBy (fun r => scanRest (s.setRule (freshRule s k)) r + 4) ((liveRecords s).flatMap (fun p => p.2.deferredScanRequests)) =
      sumBy (fun r => scanRest s r + 4) ((liveRecords s).flatMap (fun p => p.2.deferredScanRequests)) :=
    sumBy_congr (fun r hr => by
      rw [scanRest_fresh hl (hscan r (by
        unfold scanReqs deferredAll; exact List.mem_append_right _ (List.mem_append_left _ hr)))])
  have e5 : sumBy (fun r => scanRest (s.setRule (freshRule s k)) r + 2) (s.taskInfos.flatMap (fun p => p.2.deferredScanRequests)) =
      sumBy (fun r => scanRest s r + 2) (s.taskInfos.flatMap (fun p => p.2.deferredScanRequests)) :=
    sumBy_congr (fun r hr => by
      rw [scanRest_fresh hl (hscan r (by
        unfold scanReqs deferredAll; exact List.mem_append_right _ (List.mem_append_right _ hr)))])
  unfold Phi pausedAll requestedByAll
  rw [hlr, e1, e2]
  show _ + sumBy (scanQW (s.setRule (freshRule s k))) (h.scan ++ s.ruleInfosToScan) +
    sumBy (fun r => scanRest (s.setRule (freshRule s k)) r + 4) ((liveRecords s).flatMap (fun p => p.2.deferredScanRequests)) +
    sumBy (fun r => scanRest (s.setRule (freshRule s k)) r + 2) (s.taskInfos.flatMap (fun p => p.2.deferredScanRequests)) = _
  rw [e3, e4, e5]
  rfl

theorem ClosedU.fresh {rules : List RuleSpec} {U : List Key} (hu : ClosedU rules U s) (hk : k ∈ U) (hl : s.ruleInfos.lookup k = none) :
    ClosedU rules U (s.setRule (freshRule s k)) :=
  { nodup := hu.nodup
    registered := fun k' hk' => by
      unfold Registered at hk'
      rw [setRule_lookup] at hk'
      by_cases e : k' = k
      · rw [e]; exact hk
      · have : ¬ k' = (freshRule s k).key := e
        simp only [this, if_false] at hk'
        exact hu.registered k' hk'
    reqs := hu.reqs
    discs := hu.discs
    deps := fun k' hk' d hd => hu.deps k' hk' d (by rwa [deps0_fresh hl] at hd)
    inputs := hu.inputs }

end register

/-- every live scan request belongs to a registered rule: from the simulation relation -/
theorem Rel.scanReqs_registered {rules : List RuleSpec} {s : State} {ms : MSt} {h : Hand} (hr : Rel rules s ms h) :
    ∀ r ∈ scanReqs s h, Registered s r.ruleInfo := fun r hm => (hr.scanOk r hm).reg

/-- `getRuleInfoForKey` leaves `phase` and `deps0` of every key unchanged -/
theorem getRuleInfoForKey_phase (k : Key) (s : State) (hdb : s.hasDB = true) (k' : Key) :
    phase (getRuleInfoForKey k s) k' = phase s k' := by
  cases hl : s.ruleInfos.lookup k with
  | some ri => rw [getRuleInfoForKey_old k s (by rw [hl]; rfl)]
  | none => rw [getRuleInfoForKey_fresh k s hdb hl, phase_emit, phase_emit, phase_fresh hl]

theorem getRuleInfoForKey_deps0 (k : Key) (s : State) (hdb : s.hasDB = true) (k' : Key) :
    deps0 (getRuleInfoForKey k s) k' = deps0 s k' := by
  cases hl : s.ruleInfos.lookup k with
  | some ri => rw [getRuleInfoForKey_old k s (by rw [hl]; rfl)]
  | none => rw [getRuleInfoForKey_fresh k s hdb hl, deps0_emit, deps0_emit, deps0_fresh hl]

theorem getRuleInfoForKey_ruleW (rules : List RuleSpec) (k : Key) (s : State) (hdb : s.hasDB = true) (k' : Key) :
    ruleW rules (getRuleInfoForKey k s) k' = ruleW rules s k' :=
  ruleW_congr_key (getRuleInfoForKey_phase k s hdb k') (getRuleInfoForKey_deps0 k s hdb k')
    (by unfold State.task; rw [(getRuleInfoForKey_same k s).taskInfos])

theorem getRuleInfoForKey_inputQW (k : Key) (s : State) (hdb : s.hasDB = true) (r : TaskInputRequest) :
    inputQW (getRuleInfoForKey k s) r = inputQW s r := inputQW_congr (getRuleInfoForKey_phase k s hdb _)

theorem getRuleInfoForKey_Phi (rules : List RuleSpec) (U : List Key) (k : Key) (s : State) (h : Hand) (hdb : s.hasDB = true)
    (hscan : ∀ r ∈ scanReqs s h, Registered s r.ruleInfo) :
    Phi rules U (getRuleInfoForKey k s) h = Phi rules U s h := by
  cases hl : s.ruleInfos.lookup k with
  | some ri => rw [getRuleInfoForKey_old k s (by rw [hl]; rfl)]
  | none => rw [getRuleInfoForKey_fresh k s hdb hl, Phi_emit, Phi_emit, Phi_fresh rules U h hl hscan]

theorem ClosedU.getRule {rules : List RuleSpec} {U : List Key} {s : State} {k : Key} (hu : ClosedU rules U s) (hk : k ∈ U)
    (hdb : s.hasDB = true) : ClosedU rules U (getRuleInfoForKey k s) := by
  cases hl : s.ruleInfos.lookup k with
  | some ri => rw [getRuleInfoForKey_old k s (by rw [hl]; rfl)]; exact hu
  | none =>
    rw [getRuleInfoForKey_fresh k s hdb hl]
    exact ((hu.fresh hk hl).emit_tok _).emit_tok _

theorem getRuleInfoForKey_halted' (k : Key) (s : State) : (getRuleInfoForKey k s).halted = s.halted :=
  (getRuleInfoForKey_same k s).halted

/-- **registration**: `getRuleInfoForKey k` for a key of the universe is free -/
theorem getRuleInfoForKey_term {rules : List RuleSpec} {U : List Key} {s : State} {h : Hand} {k : Key}
    (hu : ClosedU rules U s) (hk : k ∈ U) (hdb : s.hasDB = true)
    (hscan : ∀ r ∈ scanReqs s h, Registered s r.ruleInfo) :
    TermStep rules U s h (getRuleInfoForKey k s) h 0 := by
  unfold TermStep
  exact ⟨hu.getRule hk hdb, by rw [Nat.add_zero, getRuleInfoForKey_Phi rules U k s h hdb hscan]; exact Nat.le_refl _⟩

/-- … under the simulation relation -/
theorem Rel.getRule_term {rules : List RuleSpec} {U : List Key} {s : State} {ms : MSt} {h : Hand} {k : Key}
    (hr : Rel rules s ms h) (hu : ClosedU rules U s) (hk : k ∈ U) :
    TermStep rules U s h (getRuleInfoForKey k s) h 0 :=
  getRuleInfoForKey_term hu hk hr.hasDB hr.scanReqs_registered


/-! ## 6. Queue pushes -/

theorem pushInput_core (d : TaskInputRequest) (s : State) : SameCore s (pushInput d s) := ⟨rfl, rfl, rfl, rfl⟩

/-- `inputRequests.push_back(d)`: the potential grows by exactly the weight of the request (≤ 5) -/
theorem Phi_pushInput (rules : List RuleSpec) (U : List Key) (d : TaskInputRequest) (s : State) (h : Hand) :
    Phi rules U (pushInput d s) h = Phi rules U s h + inputQW s d := by
  rw [← Phi_hand_inp]
  exact Phi_congr (pushInput_core d s) rules U
    (by show List.Perm (h.inp ++ (s.inputRequests ++ [d])) ((d :: h.inp) ++ s.inputRequests)
        rw [← List.append_assoc]
        exact (List.perm_append_comm (l₁ := h.inp ++ s.inputRequests) (l₂ := [d])).trans (by simp))
    rfl (List.Perm.refl _)

theorem Phi_pushInput_le (rules : List RuleSpec) (U : List Key) (d : TaskInputRequest) (s : State) (h : Hand) :
    Phi rules U (pushInput d s) h ≤ Phi rules U s h + 5 := by
  rw [Phi_pushInput]; have := inputQW_le5 s d; omega

theorem ClosedU.push_input {rules : List RuleSpec} {U : List Key} {s : State} (hu : ClosedU rules U s)
    {d : TaskInputRequest} (hd : d.inputRuleInfo ∈ U) : ClosedU rules U (Refine.pushInput d s) :=
  { nodup := hu.nodup, registered := hu.registered, reqs := hu.reqs, discs := hu.discs, deps := hu.deps
    inputs := fun r hr => by
      rcases List.mem_append.1 hr with h1 | h1
      · exact hu.inputs r h1
      · rw [List.mem_singleton.1 h1]; exact hd }

/-- `finishedInputRequests.push_back(r)`: `+1` -/
theorem Phi_pushFin (rules : List RuleSpec) (U : List Key) (r : TaskInputRequest) (s : State) (h : Hand) :
    Phi rules U { s with finishedInputRequests := s.finishedInputRequests ++ [r] } h = Phi rules U s h + 1 := by
  rw [← Phi_hand_fin rules U s h r]
  exact Phi_congr (s := s) (s' := { s with finishedInputRequests := s.finishedInputRequests ++ [r] }) ⟨rfl, rfl, rfl, rfl⟩
    rules U (List.Perm.refl _) (by simp only [List.length_append, List.length_cons, List.length_nil]; omega) (List.Perm.refl _)

/-- `ruleInfosToScan.push_back(r)`: `+ scanQW s r` -/
theorem Phi_pushScan (rules : List RuleSpec) (U : List Key) (r : RuleScanRequest) (s : State) (h : Hand) :
    Phi rules U { s with ruleInfosToScan := s.ruleInfosToScan ++ [r] } h = Phi rules U s h + scanQW s r := by
  rw [← Phi_hand_scan rules U s h r]
  exact Phi_congr (s := s) (s' := { s with ruleInfosToScan := s.ruleInfosToScan ++ [r] }) ⟨rfl, rfl, rfl, rfl⟩
    rules U (List.Perm.refl _) rfl
    (by show List.Perm (h.scan ++ (s.ruleInfosToScan ++ [r])) ((r :: h.scan) ++ s.ruleInfosToScan)
        rw [← List.append_assoc]
        exact (List.perm_append_comm (l₁ := h.scan ++ s.ruleInfosToScan) (l₂ := [r])).trans (by simp))

/-- a change of a field the potential does not read (the other queues, counters, flags) -/
theorem ClosedU.core {rules : List RuleSpec} {U : List Key} {s s' : State} (hu : ClosedU rules U s) (hc : SameCore s s')
    (hi : s'.inputRequests = s.inputRequests) : ClosedU rules U s' :=
  hu.congr hc (fun r hr => by rwa [hi] at hr)


/-! ## 7. The entry into the work loop -/

theorem keyUniverse_nodup (rules : List RuleSpec) (s : State) (key : Key) : (keyUniverse rules s key).Nodup :=
  nodup_eraseDups _

theorem key_mem_keyUniverse (rules : List RuleSpec) (s : State) (key : Key) : key ∈ keyUniverse rules s key := by
  unfold keyUniverse; rw [List.mem_eraseDups]; simp

theorem mem_keyUniverse_of_rule {rules : List RuleSpec} {s : State} {key : Key} {k : Key} {ri : RuleInfo}
    (h : (k, ri) ∈ s.ruleInfos) : k ∈ keyUniverse rules s key := by
  unfold keyUniverse; rw [List.mem_eraseDups]
  refine List.mem_cons_of_mem _ (List.mem_append_left _ (List.mem_append_right _ ?_))
  exact List.mem_flatMap.2 ⟨(k, ri), h, List.mem_cons_self⟩

theorem mem_keyUniverse_of_rule_dep {rules : List RuleSpec} {s : State} {key : Key} {k : Key} {ri : RuleInfo} {d : Dep}
    (h : (k, ri) ∈ s.ruleInfos) (hd : d ∈ ri.result.deps) : d.key ∈ keyUniverse rules s key := by
  unfold keyUniverse; rw [List.mem_eraseDups]
  refine List.mem_cons_of_mem _ (List.mem_append_left _ (List.mem_append_right _ ?_))
  exact List.mem_flatMap.2 ⟨(k, ri), h, List.mem_cons_of_mem _ (List.mem_map.2 ⟨d, hd, rfl⟩)⟩

theorem mem_keyUniverse_of_row_dep {rules : List RuleSpec} {s : State} {key : Key} {k : Key} {row : Res} {d : Dep}
    (h : (k, row) ∈ s.store.rows) (hd : d ∈ row.deps) : d.key ∈ keyUniverse rules s key := by
  unfold keyUniverse; rw [List.mem_eraseDups]
  refine List.mem_cons_of_mem _ (List.mem_append_right _ ?_)
  exact List.mem_flatMap.2 ⟨(k, row), h, List.mem_cons_of_mem _ (List.mem_map.2 ⟨d, hd, rfl⟩)⟩

theorem mem_keyUniverse_of_req {rules : List RuleSpec} {s : State} {key : Key} {sp : RuleSpec} {q : Req}
    (h : sp ∈ rules) (hq : q ∈ allReqs sp) : q.key ∈ keyUniverse rules s key := by
  unfold keyUniverse; rw [List.mem_eraseDups]
  refine List.mem_cons_of_mem _ (List.mem_append_left _ (List.mem_append_left _ ?_))
  exact List.mem_flatMap.2 ⟨sp, h, List.mem_cons_of_mem _ (List.mem_append_left _ (List.mem_map.2 ⟨q, hq, rfl⟩))⟩

theorem mem_keyUniverse_of_disc {rules : List RuleSpec} {s : State} {key : Key} {sp : RuleSpec} {d : Cond × Key}
    (h : sp ∈ rules) (hd : d ∈ sp.discs) : d.2 ∈ keyUniverse rules s key := by
  unfold keyUniverse; rw [List.mem_eraseDups]
  refine List.mem_cons_of_mem _ (List.mem_append_left _ (List.mem_append_left _ ?_))
  exact List.mem_flatMap.2 ⟨sp, h, List.mem_cons_of_mem _ (List.mem_append_right _ (List.mem_map.2 ⟨d, hd, rfl⟩))⟩

/-- `specOf rules k` is a rule of the program, or the default input rule (no requests, no discovered dependencies) -/
theorem specOf_cases (rules : List RuleSpec) (k : Key) :
    specOf rules k ∈ rules ∨ (allReqs (specOf rules k) = [] ∧ (specOf rules k).discs = []) := by
  unfold specOf
  cases hf : rules.find? (fun s => s.key == k) with
  | some sp => exact Or.inl (List.mem_of_find?_eq_some hf)
  | none => exact Or.inr ⟨rfl, rfl⟩

/-- the canonical universe is closed in every state with no input request queued (in particular between builds
and in the prologue of `build`) -/
theorem keyUniverse_closed' (rules : List RuleSpec) (s : State) (key : Key) (hq : s.inputRequests = []) :
    ClosedU rules (keyUniverse rules s key) s :=
  { nodup := keyUniverse_nodup rules s key
    registered := fun k hk => by
      unfold Registered at hk
      cases hl : s.ruleInfos.lookup k with
      | none => rw [hl] at hk; cases hk
      | some ri => exact mem_keyUniverse_of_rule (lookup_mem _ _ _ hl)
    reqs := fun k _ q hq' => by
      rcases specOf_cases rules k with h | ⟨h, _⟩
      · exact mem_keyUniverse_of_req h hq'
      · rw [h] at hq'; cases hq'
    discs := fun k _ d hd => by
      rcases specOf_cases rules k with h | ⟨_, h⟩
      · exact mem_keyUniverse_of_disc h hd
      · rw [h] at hd; cases hd
    deps := fun k _ d hd => by
      unfold deps0 at hd
      cases hl : s.ruleInfos.lookup k with
      | some ri =>
        rw [hl] at hd
        exact mem_keyUniverse_of_rule_dep (lookup_mem _ _ _ hl) hd
      | none =>
        rw [hl] at hd
        cases hr : s.store.rows.lookup k with
        | none => rw [hr] at hd; cases hd
        | some row =>
          rw [hr] at hd
          exact mem_keyUniverse_of_row_dep (lookup_mem _ _ _ hr) hd
    inputs := fun r hr => by rw [hq] at hr; cases hr }

theorem keyUniverse_closed {rules : List RuleSpec} {s : State} {m : Engine.St} (key : Key) (hr : RelIdle rules s m) :
    ClosedU rules (keyUniverse rules s key) s := keyUniverse_closed' rules s key hr.noInputQ

/-- `keyUniverse` and `workBound` read `ruleInfos` and the store only (not the epoch, not the recorder) -/
theorem keyUniverse_congr (rules : List RuleSpec) {s s' : State} (key : Key) (h1 : s'.ruleInfos = s.ruleInfos)
    (h2 : s'.store = s.store) : keyUniverse rules s' key = keyUniverse rules s key := by
  unfold keyUniverse; rw [h1, h2]

theorem workBound_congr (rules : List RuleSpec) {s s' : State} (key : Key) (h1 : s'.ruleInfos = s.ruleInfos)
    (h2 : s'.store = s.store) : workBound rules s' key = workBound rules s key := by
  unfold workBound
  rw [keyUniverse_congr rules key h1 h2]
  have : ∀ k, deps0 s' k = deps0 s k := fun k => by unfold deps0; rw [h1, h2]
  simp only [this]

/-- `ClosedU` is insensitive to the epoch -/
theorem ClosedU.epoch {rules : List RuleSpec} {U : List Key} {s : State} (hu : ClosedU rules U s) (e : Nat) :
    ClosedU rules U { s with currentEpoch := e } :=
  { nodup := hu.nodup, registered := hu.registered, reqs := hu.reqs, discs := hu.discs, deps := hu.deps, inputs := hu.inputs }

/-- the potential of a state with no task, no live scan record, no scan request and no finished request -/
theorem Phi_quiet_eq (rules : List RuleSpec) (U : List Key) {s : State} (ht : s.taskInfos = []) (hl : liveRecords s = [])
    (hs : s.ruleInfosToScan = []) (hf : s.finishedInputRequests = []) :
    Phi rules U s {} = sumBy (ruleW rules s) U + sumBy (inputQW s) s.inputRequests := by
  unfold Phi pausedAll requestedByAll
  rw [hl, ht, hs, hf]
  show _ + sumBy (inputQW s) ([] ++ s.inputRequests) + _ + _ + _ + _ + _ + _ = _
  simp

/-- **the entry bound**: with only the dummy request queued, the potential is at most the sum of the idle weights + 5 -/
theorem Phi_entry_le (rules : List RuleSpec) (U : List Key) {s : State} {d : TaskInputRequest} (ht : s.taskInfos = [])
    (hl : liveRecords s = []) (hs : s.ruleInfosToScan = []) (hf : s.finishedInputRequests = [])
    (hi : s.inputRequests = [d]) :
    Phi rules U s {} ≤
      sumBy (fun k => 6 + 6 * ((deps0 s k).length + 1) + 6 * (allReqs (specOf rules k)).length + 6 * (specOf rules k).discs.length) U + 5 := by
  rw [Phi_quiet_eq rules U ht hl hs hf, hi, sumBy_singleton]
  have h1 := sumBy_le_of_le (l := U) (fun k _ => ruleW_le rules s k)
  have h2 := inputQW_le5 s d
  omega

/-- **the prologue of `executeTasks`**: from a quiescent state `s` (after `QC`, `++currentEpoch`), registering the
requested key and queueing its dummy request gives a state with a closed universe and `Phi ≤ workBound` -/
theorem entry_term {rules : List RuleSpec} {s : State} (key : Key) (hq : Quiet s)
    (hn : (s.ruleInfos.map (fun p => p.1)).Nodup) (hdb : s.hasDB = true) (d : TaskInputRequest) (hd : d.inputRuleInfo = key) :
    ClosedU rules (keyUniverse rules s key) (pushInput d (getRuleInfoForKey key s)) ∧
      Phi rules (keyUniverse rules s key) (pushInput d (getRuleInfoForKey key s)) {} ≤ workBound rules s key := by
  have hk := key_mem_keyUniverse rules s key
  have hu := keyUniverse_closed' rules s key hq.noInputQ
  have hlr := hq.liveRecords hn
  have hscan : ∀ r ∈ scanReqs s {}, Registered s r.ruleInfo := by
    intro r hr
    have : scanReqs s {} = [] := by simp [scanReqs, deferredAll, hlr, hq.noScanQ, hq.noTasks]
    rw [this] at hr; cases hr
  refine ⟨(hu.getRule hk hdb).push_input (by rw [hd]; exact hk), ?_⟩
  rw [Phi_pushInput, getRuleInfoForKey_Phi rules _ key s {} hdb hscan,
    Phi_quiet_eq rules _ hq.noTasks hlr hq.noScanQ hq.noFinQ, hq.noInputQ]
  have h1 := sumBy_le_of_le (l := keyUniverse rules s key) (fun k _ => ruleW_le rules s k)
  have h2 := inputQW_le5 (getRuleInfoForKey key s) d
  unfold workBound
  simp only [sumBy_nil]
  omega


/-! ## 8. One rule / one task changes; everything but the rule weights is monotone in the phases -/

/-- `setRule ri`: only the weight of `ri.key` moves -/
theorem sumBy_ruleW_setRule (rules : List RuleSpec) {U : List Key} (s : State) {ri : RuleInfo} (hn : U.Nodup)
    (hk : ri.key ∈ U) :
    sumBy (ruleW rules (s.setRule ri)) U + ruleW rules s ri.key =
      sumBy (ruleW rules s) U + ruleW rules (s.setRule ri) ri.key :=
  sumBy_transfer_eq hn hk (fun _ _ hne => ruleW_setRule_ne hne)

/-- `setTask t`: only the weight of `t.forRuleInfo` moves -/
theorem sumBy_ruleW_setTask (rules : List RuleSpec) {U : List Key} (s : State) {t : TaskInfo} (hn : U.Nodup)
    (hk : t.forRuleInfo ∈ U) :
    sumBy (ruleW rules (s.setTask t)) U + ruleW rules s t.forRuleInfo =
      sumBy (ruleW rules s) U + ruleW rules (s.setTask t) t.forRuleInfo :=
  sumBy_transfer_eq hn hk (fun _ _ hne => ruleW_setTask_ne hne)

theorem phase_setRule_le {s : State} {ri : RuleInfo} (h : phase (s.setRule ri) ri.key ≤ phase s ri.key) (k : Key) :
    phase (s.setRule ri) k ≤ phase s k := by
  by_cases e : k = ri.key
  · rw [e]; exact h
  · rw [phase_setRule_ne e]; exact Nat.le_refl _

theorem rule_deps_setRule {s : State} {ri : RuleInfo} (hd : ri.result.deps = (s.rule ri.key).result.deps) (k : Key) :
    ((s.setRule ri).rule k).result.deps = (s.rule k).result.deps := by
  rw [setRule_rule]
  by_cases e : k = ri.key
  · rw [e]; simp [hd]
  · simp [e]

theorem sumBy_scanQW_mono {s s' : State} {l : List RuleScanRequest}
    (hd : ∀ k, (s'.rule k).result.deps = (s.rule k).result.deps) (hp : ∀ k, phase s' k ≤ phase s k) :
    sumBy (scanQW s') l ≤ sumBy (scanQW s) l :=
  sumBy_le_of_le (fun r _ => scanQW_mono (hd r.ruleInfo) (fun d _ => hp d.key))

theorem sumBy_scanRest_congr {s s' : State} (c : Nat) (l : List RuleScanRequest)
    (hd : ∀ k, (s'.rule k).result.deps = (s.rule k).result.deps) :
    sumBy (fun r => scanRest s' r + c) l = sumBy (fun r => scanRest s r + c) l :=
  sumBy_congr (fun r _ => by rw [scanRest_congr (hd r.ruleInfo)])

/-- **everything but the rule weights is monotone**: same queues, tasks, live scan records and recorded dependencies,
and no phase goes up ⇒ the request part of the potential does not grow -/
theorem Phi_mono_rest (rules : List RuleSpec) (U : List Key) {s s' : State} (h : Hand)
    (hq1 : s'.inputRequests = s.inputRequests) (hq2 : s'.finishedInputRequests = s.finishedInputRequests)
    (hq3 : s'.ruleInfosToScan = s.ruleInfosToScan) (ht : s'.taskInfos = s.taskInfos)
    (hlr : liveRecords s' = liveRecords s)
    (hd : ∀ k, (s'.rule k).result.deps = (s.rule k).result.deps) (hp : ∀ k, phase s' k ≤ phase s k) :
    Phi rules U s' h + sumBy (ruleW rules s) U ≤ Phi rules U s h + sumBy (ruleW rules s') U := by
  unfold Phi pausedAll requestedByAll
  rw [hlr, ht, hq1, hq2, hq3, sumBy_scanRest_congr 4 _ hd, sumBy_scanRest_congr 2 _ hd]
  have h1 : sumBy (inputQW s') (h.inp ++ s.inputRequests) ≤ sumBy (inputQW s) (h.inp ++ s.inputRequests) :=
    sumBy_inputQW_mono (fun r _ => hp _)
  have h2 : sumBy (scanQW s') (h.scan ++ s.ruleInfosToScan) ≤ sumBy (scanQW s) (h.scan ++ s.ruleInfosToScan) :=
    sumBy_scanQW_mono hd hp
  omega

/-- **one rule moves on** (`setRule ri` keeping the recorded dependencies and the live scan records, the phase of
`ri.key` not going up): the potential changes by at most the change of the weight of `ri.key` -/
theorem Phi_setRule_le (rules : List RuleSpec) {U : List Key} (s : State) (h : Hand) {ri : RuleInfo} (hn : U.Nodup)
    (hk : ri.key ∈ U) (hd : ri.result.deps = (s.rule ri.key).result.deps)
    (hlr : liveRecords (s.setRule ri) = liveRecords s) (hp : phase (s.setRule ri) ri.key ≤ phase s ri.key) :
    Phi rules U (s.setRule ri) h + ruleW rules s ri.key ≤ Phi rules U s h + ruleW rules (s.setRule ri) ri.key := by
  have h1 := Phi_mono_rest rules U (s := s) (s' := s.setRule ri) h rfl rfl rfl rfl hlr (rule_deps_setRule hd)
    (phase_setRule_le hp)
  have h2 := sumBy_ruleW_setRule rules s hn hk
  omega

/-- `ClosedU` under `setRule` of a registered rule that keeps its recorded dependencies within `U` -/
theorem ClosedU.set_rule {rules : List RuleSpec} {U : List Key} {s : State} (hu : ClosedU rules U s) {ri : RuleInfo}
    (hk : ri.key ∈ U) (hd : ∀ d ∈ ri.result.deps, d.key ∈ U) : ClosedU rules U (s.setRule ri) :=
  { nodup := hu.nodup
    registered := fun k hk' => by
      unfold Registered at hk'
      rw [setRule_lookup] at hk'
      by_cases e : k = ri.key
      · rw [e]; exact hk
      · simp only [e, if_false] at hk'
        exact hu.registered k hk'
    reqs := hu.reqs
    discs := hu.discs
    deps := fun k hk' d hd' => by
      by_cases e : k = ri.key
      · rw [e, deps0_setRule_self] at hd'; exact hd d hd'
      · rw [deps0_setRule_ne e] at hd'; exact hu.deps k hk' d hd'
    inputs := hu.inputs }

/-- `ClosedU` does not read the tasks -/
theorem ClosedU.set_task {rules : List RuleSpec} {U : List Key} {s : State} (hu : ClosedU rules U s) (t : TaskInfo) :
    ClosedU rules U (s.setTask t) :=
  { nodup := hu.nodup, registered := hu.registered, reqs := hu.reqs, discs := hu.discs, deps := hu.deps, inputs := hu.inputs }

/-- the recorded dependencies of a registered key of `U` are in `U` -/
theorem ClosedU.rule_deps {rules : List RuleSpec} {U : List Key} {s : State} (hu : ClosedU rules U s) {k : Key}
    (hr : Registered s k) : ∀ d ∈ (s.rule k).result.deps, d.key ∈ U := by
  intro d hd
  rw [← deps0_registered hr] at hd
  exact hu.deps k (hu.registered k hr) d hd

end LLBuild.Refine
