/-
IM3 — termination / no-stall, part A (scanning): `scanRule`, `finishScanRequest`, the hand-only steps,
`scanLoop`, `scanRequestsLoop` never halt under `Phi < fuel` and never increase the potential `Phi` (Term0.lean);
every popped scan request strictly decreases it.  Helpers live in the namespace `TermScan`.
-/
import LLBuild.Lemmas.Refine.ScanLoop
import LLBuild.Lemmas.Refine.Term0

namespace LLBuild.Refine
open LLBuild.Engine LLBuild.Engine.DSL LLBuild.EngineImpl

namespace TermScan

/-! ## `sumBy` algebra -/

@[simp] theorem sumBy_nil {α : Type} (f : α → Nat) : sumBy f [] = 0 := rfl
@[simp] theorem sumBy_cons {α : Type} (f : α → Nat) (a : α) (l : List α) : sumBy f (a :: l) = f a + sumBy f l := by
  simp [sumBy]
@[simp] theorem sumBy_append {α : Type} (f : α → Nat) (a b : List α) : sumBy f (a ++ b) = sumBy f a + sumBy f b := by
  simp [sumBy]

theorem sumBy_le {α : Type} {f g : α → Nat} : ∀ {l : List α}, (∀ x ∈ l, f x ≤ g x) → sumBy f l ≤ sumBy g l
  | [], _ => Nat.le_refl _
  | a :: l, h => by
    rw [sumBy_cons, sumBy_cons]
    have h1 := h a (by simp)
    have h2 := sumBy_le (l := l) (fun x hx => h x (by simp [hx]))
    omega

theorem sumBy_congr {α : Type} {f g : α → Nat} {l : List α} (h : ∀ x ∈ l, f x = g x) : sumBy f l = sumBy g l :=
  Nat.le_antisymm (sumBy_le (fun x hx => Nat.le_of_eq (h x hx))) (sumBy_le (fun x hx => Nat.le_of_eq (h x hx).symm))

theorem sumBy_add_const {α : Type} (f : α → Nat) (c : Nat) : ∀ (l : List α),
    sumBy (fun x => f x + c) l = sumBy f l + c * l.length
  | [] => by simp
  | a :: l => by
    rw [sumBy_cons, sumBy_cons, sumBy_add_const f c l, List.length_cons, Nat.mul_succ]
    omega

/-- two weight functions that differ at one key of a duplicate-free list -/
theorem sumBy_update {f g : Key → Nat} {k : Key} : ∀ {U : List Key}, U.Nodup → k ∈ U →
    (∀ x ∈ U, x ≠ k → f x = g x) → sumBy f U + g k = sumBy g U + f k
  | [], _, hk, _ => by cases hk
  | a :: U, hn, hk, h => by
    rw [sumBy_cons, sumBy_cons]
    rw [List.nodup_cons] at hn
    by_cases e : a = k
    · subst e
      have : sumBy f U = sumBy g U := sumBy_congr (fun x hx => h x (by simp [hx]) (fun e => hn.1 (e ▸ hx)))
      omega
    · have hk' : k ∈ U := by
        rcases List.mem_cons.1 hk with e' | e'
        · exact absurd e'.symm e
        · exact e'
      have h1 := sumBy_update hn.2 hk' (fun x hx hne => h x (by simp [hx]) hne)
      have h2 := h a (by simp) e
      omega

/-! ## one registered rule is replaced -/

/-- `s'` is `s` with the registered rule `k` replaced (queues may differ) -/
structure RuleUpd (s s' : State) (k : Key) (ri ri' : RuleInfo) : Prop where
  old : s.ruleInfos.lookup k = some ri
  lk : ∀ x, s'.ruleInfos.lookup x = if x = k then some ri' else s.ruleInfos.lookup x
  tasks : s'.taskInfos = s.taskInfos
  epoch : s'.currentEpoch = s.currentEpoch
  store : s'.store = s.store

section ruleUpd
variable {s s' : State} {k : Key} {ri ri' : RuleInfo} (hu : RuleUpd s s' k ri ri')
include hu

theorem RuleUpd.task (x : Key) : s'.task x = s.task x := by unfold State.task; rw [hu.tasks]

theorem RuleUpd.rule_ne {x : Key} (hx : x ≠ k) : s'.rule x = s.rule x := by
  unfold State.rule; rw [hu.lk]; simp [hx]

theorem RuleUpd.rule_self : s'.rule k = ri' := by
  unfold State.rule; rw [hu.lk]; simp

theorem RuleUpd.rule_old : s.rule k = ri := rule_of_lookup hu.old

theorem RuleUpd.phase_ne {x : Key} (hx : x ≠ k) : phase s' x = phase s x := by
  unfold phase; rw [hu.lk, hu.task, hu.epoch]; simp [hx]

theorem RuleUpd.deps0_ne {x : Key} (hx : x ≠ k) : deps0 s' x = deps0 s x := by
  unfold deps0; rw [hu.lk, hu.store]; simp [hx]

theorem RuleUpd.deps0_self : deps0 s' k = ri'.result.deps := by
  unfold deps0; rw [hu.lk]; simp

theorem RuleUpd.deps0_old : deps0 s k = ri.result.deps := by
  unfold deps0; rw [hu.old]

theorem RuleUpd.ruleW_ne (rules : List RuleSpec) {x : Key} (hx : x ≠ k) : ruleW rules s' x = ruleW rules s x := by
  unfold ruleW; rw [hu.phase_ne hx, hu.deps0_ne hx, hu.task]

theorem RuleUpd.phase_self_scanning (h : ri'.state = .isScanning) : phase s' k = 5 := by
  unfold phase; rw [hu.lk]; simp [h]

theorem RuleUpd.phase_self_verdict (h : ri'.state = .needsToRun ∨ ri'.state = .doesNotNeedToRun) : phase s' k = 4 := by
  unfold phase; rw [hu.lk]; rcases h with h | h <;> simp [h]

theorem RuleUpd.phase_old_scanning (h : ri.state = .isScanning) : phase s k = 5 := by
  unfold phase; rw [hu.old]; simp [h]

theorem RuleUpd.registered {x : Key} : Registered s' x ↔ Registered s x := by
  unfold Registered; rw [hu.lk]
  by_cases e : x = k
  · subst e; simp [hu.old]
  · simp [e]

/-- the phase of every key does not increase when that of `k` does not -/
theorem RuleUpd.phase_le (hk : phase s' k ≤ phase s k) (x : Key) : phase s' x ≤ phase s x := by
  by_cases e : x = k
  · subst e; exact hk
  · rw [hu.phase_ne e]; exact Nat.le_refl _

/-- the sum of the rule weights moves by the weight of `k` -/
theorem RuleUpd.ruleSum (rules : List RuleSpec) {U : List Key} (hn : U.Nodup) (hk : k ∈ U) :
    sumBy (ruleW rules s') U + ruleW rules s k = sumBy (ruleW rules s) U + ruleW rules s' k :=
  sumBy_update hn hk (fun _ _ hx => hu.ruleW_ne rules hx)

/-- the universe stays closed when the dependency list of `k` does not grow and the new input requests aim into it -/
theorem RuleUpd.closed {rules : List RuleSpec} {U : List Key} (hc : ClosedU rules U s)
    (hdeps : ∀ d ∈ ri'.result.deps, d ∈ ri.result.deps) (hinp : ∀ r ∈ s'.inputRequests, r.inputRuleInfo ∈ U) :
    ClosedU rules U s' where
  nodup := hc.nodup
  registered := fun x hx => hc.registered x (hu.registered.1 hx)
  reqs := hc.reqs
  discs := hc.discs
  deps := by
    intro x hx d hd
    by_cases e : x = k
    · subst e
      rw [hu.deps0_self] at hd
      exact hc.deps x hx d (by rw [hu.deps0_old]; exact hdeps d hd)
    · rw [hu.deps0_ne e] at hd
      exact hc.deps x hx d hd
  inputs := hinp

end ruleUpd

/-! ## weights under a change of state -/

theorem inputQW_le {s s' : State} (hph : ∀ x, phase s' x ≤ phase s x) (r : TaskInputRequest) :
    inputQW s' r ≤ inputQW s r := by
  unfold inputQW
  have := hph r.inputRuleInfo
  split <;> split <;> omega

theorem scanRest_eq {s s' : State} {r : RuleScanRequest} (hres : (s'.rule r.ruleInfo).result = (s.rule r.ruleInfo).result) :
    scanRest s' r = scanRest s r := by
  unfold scanRest; rw [hres]

theorem scanQW_le {s s' : State} {r : RuleScanRequest} (hres : (s'.rule r.ruleInfo).result = (s.rule r.ruleInfo).result)
    (hph : ∀ x, phase s' x ≤ phase s x) : scanQW s' r ≤ scanQW s r := by
  unfold scanQW
  rw [scanRest_eq hres, hres]
  cases (s.rule r.ruleInfo).result.deps[r.inputIndex]? with
  | none => exact Nat.le_refl _
  | some d =>
    simp only
    have := hph d.key
    split <;> split <;> (try split) <;> (try split) <;> omega

/-- the location weight of a scan request is at most 5 -/
theorem scanQW_le_rest {s : State} (r : RuleScanRequest) : scanQW s r ≤ scanRest s r + 5 := by
  unfold scanQW
  cases (s.rule r.ruleInfo).result.deps[r.inputIndex]? with
  | none => simp
  | some d => simp only; split <;> (try split) <;> omega

/-- the weight of a scan request standing at a dependency of known phase -/
theorem scanQW_at {s : State} {r : RuleScanRequest} {d : Dep} (hd : (s.rule r.ruleInfo).result.deps[r.inputIndex]? = some d) :
    scanQW s r = scanRest s r + (if 5 ≤ phase s d.key then 5 else if 1 ≤ phase s d.key then 3 else 1) := by
  unfold scanQW; rw [hd]

/-! ## states that agree on everything `Phi` reads -/

structure PhiSame (s s' : State) : Prop where
  ruleInfos : s'.ruleInfos = s.ruleInfos
  taskInfos : s'.taskInfos = s.taskInfos
  store : s'.store = s.store
  currentEpoch : s'.currentEpoch = s.currentEpoch
  inputRequests : s'.inputRequests = s.inputRequests
  finishedInputRequests : s'.finishedInputRequests = s.finishedInputRequests
  ruleInfosToScan : s'.ruleInfosToScan = s.ruleInfosToScan

theorem PhiSame.of_sameEngine {s s' : State} (h : SameEngine s s') : PhiSame s s' :=
  ⟨h.ruleInfos, h.taskInfos, h.store, h.currentEpoch, h.inputRequests, h.finishedInputRequests, h.ruleInfosToScan⟩

section phiSame
variable {s s' : State} (hs : PhiSame s s')
include hs

theorem PhiSame.phase : phase s' = phase s := by
  funext x; unfold LLBuild.Refine.phase State.task; rw [hs.ruleInfos, hs.taskInfos, hs.currentEpoch]
theorem PhiSame.rule : s'.rule = s.rule := by funext x; unfold State.rule; rw [hs.ruleInfos]
theorem PhiSame.deps0 : deps0 s' = deps0 s := by
  funext x; unfold LLBuild.Refine.deps0; rw [hs.ruleInfos, hs.store]
theorem PhiSame.ruleW (rules : List RuleSpec) : ruleW rules s' = ruleW rules s := by
  funext x; unfold LLBuild.Refine.ruleW State.task; rw [hs.phase, hs.deps0, hs.taskInfos]
theorem PhiSame.inputQW : inputQW s' = inputQW s := by funext r; unfold LLBuild.Refine.inputQW; rw [hs.phase]
theorem PhiSame.scanRest : scanRest s' = scanRest s := by funext r; unfold LLBuild.Refine.scanRest; rw [hs.rule]
theorem PhiSame.scanQW : scanQW s' = scanQW s := by
  funext r; unfold LLBuild.Refine.scanQW; rw [hs.scanRest, hs.rule, hs.phase]
theorem PhiSame.liveRecords : liveRecords s' = liveRecords s := by unfold LLBuild.Refine.liveRecords; rw [hs.ruleInfos]

theorem PhiSame.Phi (rules : List RuleSpec) (U : List Key) (h : Hand) : Phi rules U s' h = Phi rules U s h := by
  unfold LLBuild.Refine.Phi pausedAll requestedByAll
  rw [hs.ruleW, hs.inputQW, hs.scanQW, hs.scanRest, hs.liveRecords, hs.taskInfos, hs.inputRequests,
    hs.finishedInputRequests, hs.ruleInfosToScan]

theorem PhiSame.closed {rules : List RuleSpec} {U : List Key} (hc : ClosedU rules U s) : ClosedU rules U s' where
  nodup := hc.nodup
  registered := fun x hx => hc.registered x (by unfold Registered at *; rw [← hs.ruleInfos]; exact hx)
  reqs := hc.reqs
  discs := hc.discs
  deps := by rw [hs.deps0]; exact hc.deps
  inputs := by rw [hs.inputRequests]; exact hc.inputs

theorem PhiSame.termStep {rules : List RuleSpec} {U : List Key} {s0 : State} {h0 h : Hand} {c : Nat}
    (ht : TermStep rules U s0 h0 s h c) : TermStep rules U s0 h0 s' h c :=
  ⟨hs.closed ht.1, by rw [hs.Phi]; exact ht.2⟩

end phiSame

/-! ## `scanRule` -/

theorem phase_idle_of_not_scanned {s : State} {k : Key} {ri : RuleInfo} (hl : s.ruleInfos.lookup k = some ri)
    (h1 : ¬ isScanned s ri = true) (h2 : ¬ ri.isScanning = true) : phase s k = 6 := by
  unfold phase
  rw [hl]
  simp only
  unfold isScanned isComplete at h1
  unfold RuleInfo.isScanning at h2
  cases hs : ri.state <;> simp [hs, StateKind.toNat] at h1 h2 ⊢
  exact h1

theorem mem_scanReqs_parts {s : State} {h : Hand} {x : RuleScanRequest} :
    x ∈ scanReqs s h ↔ x ∈ h.scan ++ s.ruleInfosToScan ∨
      x ∈ (liveRecords s).flatMap (fun p => p.2.deferredScanRequests) ∨
      x ∈ s.taskInfos.flatMap (fun p => p.2.deferredScanRequests) := by
  unfold scanReqs deferredAll
  simp only [List.mem_append]

theorem scanResult_ruleUpd {s : State} {k : Key} {ri0 : RuleInfo} {st' : StateKind}
    (hl : s.ruleInfos.lookup k = some ri0) (hk : ri0.key = k) :
    RuleUpd s (scanResultState k ri0 st' s) k ri0 (scanResultRule ri0 st') where
  old := hl
  lk := scanResult_lookup hk
  tasks := scanResult_taskInfos
  epoch := scanResult_currentEpoch
  store := by unfold scanResultState; split <;> rfl

/-- **`scanRule` reached a verdict / started a scan**: the potential does not grow -/
theorem scanResult_term {rules : List RuleSpec} {U : List Key} {s : State} {ms : MSt} {h : Hand} {k : Key} {ri0 : RuleInfo}
    {st' : StateKind} (hr : Rel rules s ms h) (hl : s.ruleInfos.lookup k = some ri0) (hidle : phase s k = 6)
    (hst' : st' = .needsToRun ∨ st' = .doesNotNeedToRun ∨ st' = .isScanning) (hc : ClosedU rules U s) :
    TermStep rules U s h (scanResultState k ri0 st' s) h 0 := by
  have hk : ri0.key = k := hr.keyOk k ri0 hl
  have hu := scanResult_ruleUpd (st' := st') hl hk
  have hkU : k ∈ U := hc.registered k (by simp [Registered, hl])
  have ho : ri0.isScanning = false := by
    cases hs : ri0.state <;> simp [RuleInfo.isScanning, hs]
    unfold phase at hidle; rw [hl] at hidle; simp [hs] at hidle
  have hdeps_sub : ∀ d ∈ (scanResultRule ri0 st').result.deps, d ∈ ri0.result.deps := by
    intro d hd
    rw [scanResultRule_result] at hd
    simp only [scanClean, cleanSingleUseDependencies, List.mem_filter] at hd
    exact hd.1
  have hdeps_len : (scanResultRule ri0 st').result.deps.length ≤ ri0.result.deps.length := by
    rw [scanResultRule_result]
    simp only [scanClean, cleanSingleUseDependencies]
    exact List.length_filter_le _ _
  refine ⟨hu.closed hc hdeps_sub (by rw [scanResult_inputRequests]; exact hc.inputs), ?_⟩
  -- phases
  have hph_k : phase (scanResultState k ri0 st' s) k = if st' = .isScanning then 5 else 4 := by
    rcases hst' with e | e | e
    · rw [hu.phase_self_verdict (Or.inl (by rw [scanResultRule_state]; exact e))]; simp [e]
    · rw [hu.phase_self_verdict (Or.inr (by rw [scanResultRule_state]; exact e))]; simp [e]
    · rw [hu.phase_self_scanning (by rw [scanResultRule_state]; exact e)]; simp [e]
  have hph : ∀ x, phase (scanResultState k ri0 st' s) x ≤ phase s x :=
    hu.phase_le (by rw [hph_k, hidle]; split <;> omega)
  -- no live scan request belongs to `k`
  have hne : ∀ x ∈ scanReqs s h, x.ruleInfo ≠ k := by
    intro x hx e
    have hsc := (hr.scanOk x hx).scanning
    rw [e, rule_of_lookup hl] at hsc
    simp [RuleInfo.isScanning, hsc] at ho
  have hres : ∀ x ∈ scanReqs s h,
      ((scanResultState k ri0 st' s).rule x.ruleInfo).result = (s.rule x.ruleInfo).result := by
    intro x hx; rw [hu.rule_ne (hne x hx)]
  -- the components
  have hA := hu.ruleSum rules hc.nodup hkU
  have hWold : ruleW rules s k = 6 + 6 * (ri0.result.deps.length + 1) + 6 * (allReqs (specOf rules k)).length +
      6 * (specOf rules k).discs.length := by
    unfold ruleW; rw [hidle, hu.deps0_old]; simp
  have hWnew : ruleW rules (scanResultState k ri0 st' s) k = (if st' = .isScanning then 5 else 4) +
      6 * (allReqs (specOf rules k)).length + 6 * (specOf rules k).discs.length := by
    unfold ruleW; rw [hph_k]; split <;> simp
  have hB : sumBy (inputQW (scanResultState k ri0 st' s)) (h.inp ++ (scanResultState k ri0 st' s).inputRequests) ≤
      sumBy (inputQW s) (h.inp ++ s.inputRequests) := by
    rw [scanResult_inputRequests]; exact sumBy_le (fun x _ => inputQW_le hph x)
  have hP : pausedAll (scanResultState k ri0 st' s) = pausedAll s := scanResult_pausedAll hl hk ho
  have hQ : requestedByAll (scanResultState k ri0 st' s) = requestedByAll s := by
    unfold requestedByAll; rw [scanResult_taskInfos]
  have hF : (scanResultState k ri0 st' s).finishedInputRequests = s.finishedInputRequests := scanResult_finishedInputRequests
  have hS : sumBy (scanQW (scanResultState k ri0 st' s)) (h.scan ++ (scanResultState k ri0 st' s).ruleInfosToScan) ≤
      sumBy (scanQW s) (h.scan ++ s.ruleInfosToScan) +
        (if st' = .isScanning then 6 * ri0.result.deps.length + 5 else 0) := by
    have hold : sumBy (scanQW (scanResultState k ri0 st' s)) (h.scan ++ s.ruleInfosToScan) ≤
        sumBy (scanQW s) (h.scan ++ s.ruleInfosToScan) :=
      sumBy_le (fun x hx => scanQW_le (hres x (mem_scanReqs_parts.2 (Or.inl hx))) hph)
    rw [scanResult_scanQ]
    split
    · rw [← List.append_assoc, sumBy_append, sumBy_cons, sumBy_nil]
      have h1 := scanQW_le_rest (s := scanResultState k ri0 st' s) (scanReq0 k)
      have h2 : scanRest (scanResultState k ri0 st' s) (scanReq0 k) = 6 * (scanResultRule ri0 st').result.deps.length := by
        unfold scanRest; simp only [scanReq0]; rw [hu.rule_self]; simp
      have h3 := Nat.mul_le_mul_left 6 hdeps_len
      omega
    · omega
  have hlr : (liveRecords (scanResultState k ri0 st' s)).flatMap (fun p => p.2.deferredScanRequests) =
      (liveRecords s).flatMap (fun p => p.2.deferredScanRequests) := by
    by_cases e : st' = .isScanning
    · obtain ⟨a, b, h1, h2⟩ := (scanResult_liveRecords (st' := st') hl hk ho).2 e
      rw [h1, h2]; simp
    · rw [(scanResult_liveRecords (st' := st') hl hk ho).1 e]
  have hR : sumBy (fun r => scanRest (scanResultState k ri0 st' s) r + 4)
      ((liveRecords (scanResultState k ri0 st' s)).flatMap (fun p => p.2.deferredScanRequests)) =
      sumBy (fun r => scanRest s r + 4) ((liveRecords s).flatMap (fun p => p.2.deferredScanRequests)) := by
    rw [hlr]
    exact sumBy_congr (fun x hx => by rw [scanRest_eq (hres x (mem_scanReqs_parts.2 (Or.inr (Or.inl hx))))])
  have hT : sumBy (fun r => scanRest (scanResultState k ri0 st' s) r + 2)
      ((scanResultState k ri0 st' s).taskInfos.flatMap (fun p => p.2.deferredScanRequests)) =
      sumBy (fun r => scanRest s r + 2) (s.taskInfos.flatMap (fun p => p.2.deferredScanRequests)) := by
    rw [scanResult_taskInfos]
    exact sumBy_congr (fun x hx => by rw [scanRest_eq (hres x (mem_scanReqs_parts.2 (Or.inr (Or.inr hx))))])
  unfold Phi
  rw [hP, hQ, hF, hR, hT]
  rw [hWold, hWnew] at hA
  split at hS <;> split at hA <;> omega

/-! ## `finishScanRequest` -/

theorem sumBy_zero {α : Type} : ∀ (l : List α), sumBy (fun _ : α => 0) l = 0
  | [] => rfl
  | a :: l => by rw [sumBy_cons, sumBy_zero l]

theorem sumBy_const {α : Type} (c : Nat) (l : List α) : sumBy (fun _ => c) l = c * l.length := by
  have := sumBy_add_const (fun _ : α => 0) c l
  simp only [Nat.zero_add] at this
  rw [this, sumBy_zero]
  omega

theorem finishState_ruleUpd {s : State} {k : Key} {rk : RuleInfo} {rec : RuleScanRecord} {st : StateKind}
    (hl : s.ruleInfos.lookup k = some rk) (hk : rk.key = k) :
    RuleUpd s (finishState rk rec st s) k rk (scanFinRule rk st) where
  old := hl
  lk := by
    intro x
    rw [finishState_ruleInfos, setRule_lookup]
    have : (scanFinRule rk st).key = k := hk
    rw [this]
  tasks := rfl
  epoch := rfl
  store := rfl

/-- **`finishScanRequest` with the request in hand consumed**: the potential drops -/
theorem finishState_term {rules : List RuleSpec} {U : List Key} {s : State} {ms : MSt} {r : RuleScanRequest} {k : Key}
    {rk : RuleInfo} {rec : RuleScanRecord} {st : StateKind}
    (hr : Rel rules s ms { scan := [r] }) (hrk : r.ruleInfo = k) (hl : s.ruleInfos.lookup k = some rk)
    (hrec : rk.inProgressInfo = .pendingScanRecord rec) (hst : st = .needsToRun ∨ st = .doesNotNeedToRun)
    (hc : ClosedU rules U s) :
    TermStep rules U s { scan := [r] } (finishState rk rec st s) {} 1 := by
  have hk : rk.key = k := hr.keyOk k rk hl
  have hu := finishState_ruleUpd (rec := rec) (st := st) hl hk
  have hkU : k ∈ U := hc.registered k (by simp [Registered, hl])
  have hok := hr.scanOk r (mem_scanReqs_hand s r)
  have hsc : rk.state = .isScanning := by
    have := hok.scanning; rw [hrk, rule_of_lookup hl] at this; exact this
  have hlive_k : (k, rec) ∈ liveRecords s := (mem_liveRecords hr.rulesNodup (k, rec)).2 ⟨rk, hl, hsc, hrec⟩
  have hph_old : phase s k = 5 := hu.phase_old_scanning hsc
  have hph_new : phase (finishState rk rec st s) k = 4 := hu.phase_self_verdict hst
  have hph : ∀ x, phase (finishState rk rec st s) x ≤ phase s x := hu.phase_le (by rw [hph_old, hph_new]; omega)
  have hres : ∀ x, ((finishState rk rec st s).rule x).result = (s.rule x).result := by
    intro x
    by_cases e : x = k
    · subst e; rw [hu.rule_self, hu.rule_old]; rfl
    · rw [hu.rule_ne e]
  have hrest : ∀ x, scanRest (finishState rk rec st s) x = scanRest s x := fun x => scanRest_eq (hres _)
  refine ⟨hu.closed hc (fun d hd => hd) ?_, ?_⟩
  · intro x hx
    rw [finishState_inputRequests] at hx
    rcases List.mem_append.1 hx with h1 | h1
    · exact hc.inputs x h1
    · rw [hr.pausedAt (k, rec) hlive_k x h1]; exact hkU
  have hns : (scanFinRule rk st).isScanning = false := by
    show (st == StateKind.isScanning) = false
    rcases hst with e | e <;> rw [e] <;> rfl
  obtain ⟨la, lb, hlive, hlive'⟩ := setRule_liveRecords_stop hl (show (scanFinRule rk st).key = k from hk) hsc hns hrec
  have hlive1 : liveRecords (finishState rk rec st s) = la ++ lb := hlive'
  -- the components
  have hA := hu.ruleSum rules hc.nodup hkU
  have hWold : ruleW rules s k = 5 + 6 * (allReqs (specOf rules k)).length + 6 * (specOf rules k).discs.length := by
    unfold ruleW; rw [hph_old]; simp
  have hWnew : ruleW rules (finishState rk rec st s) k =
      4 + 6 * (allReqs (specOf rules k)).length + 6 * (specOf rules k).discs.length := by
    unfold ruleW; rw [hph_new]; simp
  have hB : sumBy (inputQW (finishState rk rec st s)) (({} : Hand).inp ++ (finishState rk rec st s).inputRequests) ≤
      sumBy (inputQW s) (({ scan := [r] } : Hand).inp ++ s.inputRequests) + 3 * rec.pausedInputRequests.length := by
    rw [finishState_inputRequests]
    simp only [List.nil_append, sumBy_append]
    have h1 : sumBy (inputQW (finishState rk rec st s)) s.inputRequests ≤ sumBy (inputQW s) s.inputRequests :=
      sumBy_le (fun x _ => inputQW_le hph x)
    have h2 : sumBy (inputQW (finishState rk rec st s)) rec.pausedInputRequests = 3 * rec.pausedInputRequests.length := by
      rw [← sumBy_const]
      apply sumBy_congr
      intro x hx
      unfold inputQW
      rw [hr.pausedAt (k, rec) hlive_k x hx, hph_new]
      simp
    omega
  have hP : (pausedAll (finishState rk rec st s)).length + rec.pausedInputRequests.length = (pausedAll s).length := by
    unfold pausedAll
    rw [hlive1, hlive]
    simp only [List.flatMap_append, List.flatMap_cons, List.length_append]
    omega
  have hQ : requestedByAll (finishState rk rec st s) = requestedByAll s := rfl
  have hF : (({} : Hand).fin ++ (finishState rk rec st s).finishedInputRequests).length =
      (({ scan := [r] } : Hand).fin ++ s.finishedInputRequests).length := rfl
  have hS : sumBy (scanQW (finishState rk rec st s)) (({} : Hand).scan ++ (finishState rk rec st s).ruleInfosToScan) ≤
      sumBy (scanQW s) (({ scan := [r] } : Hand).scan ++ s.ruleInfosToScan) +
        (sumBy (scanRest s) rec.deferredScanRequests + 3 * rec.deferredScanRequests.length) := by
    rw [finishState_scanQ]
    simp only [List.nil_append, sumBy_append, sumBy_cons, sumBy_nil]
    have h1 : sumBy (scanQW (finishState rk rec st s)) s.ruleInfosToScan ≤ sumBy (scanQW s) s.ruleInfosToScan :=
      sumBy_le (fun x _ => scanQW_le (hres _) hph)
    have h2 : sumBy (scanQW (finishState rk rec st s)) rec.deferredScanRequests =
        sumBy (scanRest s) rec.deferredScanRequests + 3 * rec.deferredScanRequests.length := by
      rw [← sumBy_add_const]
      apply sumBy_congr
      intro x hx
      have hxm : x ∈ scanReqs s { scan := [r] } :=
        mem_scanReqs_parts.2 (Or.inr (Or.inl (List.mem_flatMap.2 ⟨(k, rec), hlive_k, hx⟩)))
      obtain ⟨_, d, hd, hdk, _⟩ := (hr.scanOk x hxm).cached k (hr.deferredAtRecord (k, rec) hlive_k x hx)
      rw [← hres] at hd
      rw [scanQW_at hd, hdk, hph_new, hrest]
      simp
    omega
  have hR : sumBy (fun x => scanRest (finishState rk rec st s) x + 4)
        ((liveRecords (finishState rk rec st s)).flatMap (fun p => p.2.deferredScanRequests)) +
      (sumBy (scanRest s) rec.deferredScanRequests + 4 * rec.deferredScanRequests.length) =
      sumBy (fun x => scanRest s x + 4) ((liveRecords s).flatMap (fun p => p.2.deferredScanRequests)) := by
    rw [hlive1, hlive]
    simp only [List.flatMap_append, List.flatMap_cons, sumBy_append, hrest]
    rw [sumBy_add_const (scanRest s) 4 rec.deferredScanRequests]
    omega
  have hT : sumBy (fun x => scanRest (finishState rk rec st s) x + 2)
        ((finishState rk rec st s).taskInfos.flatMap (fun p => p.2.deferredScanRequests)) =
      sumBy (fun x => scanRest s x + 2) (s.taskInfos.flatMap (fun p => p.2.deferredScanRequests)) := by
    simp only [hrest]; rfl
  unfold Phi
  rw [hQ, hT]
  rw [hWold, hWnew] at hA
  omega

/-! ## the hand-only steps -/

theorem phase_of_done {s : State} {pend : Option Key} {k : Key} (h : statusOf s pend k = .done) : phase s k = 0 := by
  unfold statusOf at h
  unfold phase
  cases hl : s.ruleInfos.lookup k with
  | none => rw [hl] at h; cases h
  | some ri =>
    rw [hl] at h
    simp only at h ⊢
    cases hs : ri.state <;> simp [hs] at h ⊢
    by_cases e : ri.result.builtAt = s.currentEpoch
    · exact e
    · simp [e] at h

theorem Rel_phase_done {rules : List RuleSpec} {s : State} {ms : MSt} {h : Hand} (hr : Rel rules s ms h) {k : Key}
    (hd : isDone ms.m k = true) : phase s k = 0 := by
  apply phase_of_done (pend := ms.pend)
  rw [← hr.status k]
  simpa [isDone] using hd

/-- the request in hand is replaced by one at the same place: `Phi` is the same -/
theorem Phi_hand_same {rules : List RuleSpec} {U : List Key} {s : State} {r r' : RuleScanRequest}
    (h1 : r'.ruleInfo = r.ruleInfo) (h2 : r'.inputIndex = r.inputIndex) :
    Phi rules U s { scan := [r'] } = Phi rules U s { scan := [r] } := by
  have : scanQW s r' = scanQW s r := by unfold scanQW scanRest; rw [h1, h2]
  unfold Phi
  simp only [List.cons_append, List.nil_append, sumBy_cons, this]

/-- moving on to the next dependency: `Phi` drops by at least 2 -/
theorem Phi_advance {rules : List RuleSpec} {U : List Key} {s : State} {ms : MSt} {r : RuleScanRequest} {i : Key}
    (hr : Rel rules s ms { scan := [r] }) (hin : r.inputRuleInfo = some i) (hdone : isDone ms.m i = true) :
    Phi rules U s { scan := [{ r with inputIndex := r.inputIndex + 1, inputRuleInfo := none, orderOnly := false,
                                      singleUse := false }] } + 2 ≤ Phi rules U s { scan := [r] } := by
  have hok := hr.scanOk r (mem_scanReqs_hand s r)
  obtain ⟨_, d, hd, hdk, _⟩ := hok.cached i hin
  have hph : phase s d.key = 0 := by rw [hdk]; exact Rel_phase_done hr hdone
  have h1 : scanQW s r = scanRest s r + 1 := by rw [scanQW_at hd, hph]; simp
  have h2 := scanQW_le_rest (s := s) { r with inputIndex := r.inputIndex + 1, inputRuleInfo := none, orderOnly := false,
                                              singleUse := false }
  have h3 : scanRest s { r with inputIndex := r.inputIndex + 1, inputRuleInfo := none, orderOnly := false,
                                singleUse := false } + 6 = scanRest s r := by
    have := hok.inBounds
    unfold scanRest
    simp only
    omega
  unfold Phi
  simp only [List.cons_append, List.nil_append, sumBy_cons]
  omega

/-- parking at the scan record of the scanning input: `Phi` drops by 1 -/
theorem deferAtRecord_term {rules : List RuleSpec} {U : List Key} {s : State} {ms : MSt} {r : RuleScanRequest} {i : Key}
    {ri : RuleInfo} {rec : RuleScanRecord}
    (hr : Rel rules s ms { scan := [r] }) (hin : r.inputRuleInfo = some i)
    (hl : s.ruleInfos.lookup i = some ri) (hs : ri.state = .isScanning) (hrec : ri.inProgressInfo = .pendingScanRecord rec)
    (hc : ClosedU rules U s) :
    TermStep rules U s { scan := [r] } (s.setRule { ri with inProgressInfo := .pendingScanRecord (recDefer rec r) }) {} 1 := by
  have hk : ri.key = i := hr.keyOk i ri hl
  generalize hri' : ({ ri with inProgressInfo := .pendingScanRecord (recDefer rec r) } : RuleInfo) = ri'
  have hk' : ri'.key = i := by rw [← hri']; exact hk
  have hst' : ri'.state = .isScanning := by rw [← hri']; exact hs
  have hres' : ri'.result = ri.result := by rw [← hri']
  have hrec' : ri'.inProgressInfo = .pendingScanRecord (recDefer rec r) := by rw [← hri']
  have hu : RuleUpd s (s.setRule ri') i ri ri' :=
    { old := hl, lk := fun x => by rw [setRule_lookup, hk'], tasks := rfl, epoch := rfl, store := rfl }
  have hiU : i ∈ U := hc.registered i (by simp [Registered, hl])
  have hph_old : phase s i = 5 := hu.phase_old_scanning hs
  have hph_new : phase (s.setRule ri') i = 5 := hu.phase_self_scanning hst'
  have hph : ∀ x, phase (s.setRule ri') x ≤ phase s x := hu.phase_le (by rw [hph_old, hph_new]; omega)
  have hres : ∀ x, ((s.setRule ri').rule x).result = (s.rule x).result := by
    intro x
    by_cases e : x = i
    · subst e; rw [hu.rule_self, hu.rule_old]; exact hres'
    · rw [hu.rule_ne e]
  have hrest : ∀ x, scanRest (s.setRule ri') x = scanRest s x := fun x => scanRest_eq (hres _)
  refine ⟨hu.closed hc (fun d hd => by rw [hres'] at hd; exact hd) hc.inputs, ?_⟩
  obtain ⟨la, lb, hlive, hlive'⟩ := setRule_liveRecords_rec hl hk' hs hst' hrec hrec'
  have hok := hr.scanOk r (mem_scanReqs_hand s r)
  obtain ⟨_, d, hd, hdk, _⟩ := hok.cached i hin
  have hr5 : scanQW s r = scanRest s r + 5 := by rw [scanQW_at hd, hdk, hph_old]; simp
  have hA := hu.ruleSum rules hc.nodup hiU
  have hW : ruleW rules (s.setRule ri') i = ruleW rules s i := by
    unfold ruleW; rw [hph_old, hph_new, hu.task]; simp
  have hB : sumBy (inputQW (s.setRule ri')) (({} : Hand).inp ++ (s.setRule ri').inputRequests) ≤
      sumBy (inputQW s) (({ scan := [r] } : Hand).inp ++ s.inputRequests) :=
    sumBy_le (fun x _ => inputQW_le hph x)
  have hP : (pausedAll (s.setRule ri')).length = (pausedAll s).length := by
    unfold pausedAll; rw [hlive, hlive']; simp [recDefer]
  have hQ : requestedByAll (s.setRule ri') = requestedByAll s := rfl
  have hS : sumBy (scanQW (s.setRule ri')) (({} : Hand).scan ++ (s.setRule ri').ruleInfosToScan) + (scanRest s r + 5) ≤
      sumBy (scanQW s) (({ scan := [r] } : Hand).scan ++ s.ruleInfosToScan) := by
    simp only [List.nil_append, List.cons_append, sumBy_cons, setRule_ruleInfosToScan]
    have h1 : sumBy (scanQW (s.setRule ri')) s.ruleInfosToScan ≤ sumBy (scanQW s) s.ruleInfosToScan :=
      sumBy_le (fun x _ => scanQW_le (hres _) hph)
    omega
  have hR : sumBy (fun x => scanRest (s.setRule ri') x + 4)
        ((liveRecords (s.setRule ri')).flatMap (fun p => p.2.deferredScanRequests)) =
      sumBy (fun x => scanRest s x + 4) ((liveRecords s).flatMap (fun p => p.2.deferredScanRequests)) + (scanRest s r + 4) := by
    rw [hlive, hlive']
    simp only [List.flatMap_append, List.flatMap_cons, sumBy_append, sumBy_cons, sumBy_nil, hrest, recDefer]
    omega
  have hT : sumBy (fun x => scanRest (s.setRule ri') x + 2)
        ((s.setRule ri').taskInfos.flatMap (fun p => p.2.deferredScanRequests)) =
      sumBy (fun x => scanRest s x + 2) (s.taskInfos.flatMap (fun p => p.2.deferredScanRequests)) := by
    simp only [hrest]; rfl
  have hF : (({} : Hand).fin ++ (s.setRule ri').finishedInputRequests).length =
      (({ scan := [r] } : Hand).fin ++ s.finishedInputRequests).length := rfl
  unfold Phi
  rw [hQ, hT, hR, hP]
  rw [hW] at hA
  omega

/-- a rule with a task, outside a pending completion, is waiting or computing: phase 3, 2 or 1 -/
theorem Rel_phase_task {rules : List RuleSpec} {s : State} {ms : MSt} {h : Hand} (hr : Rel rules s ms h)
    (hp : ms.pend = none) {i : Key} (ht : (s.taskInfos.lookup i).isSome = true) : 1 ≤ phase s i ∧ phase s i ≤ 3 := by
  have h0 := hr.taskKeys i
  rw [ht, hp] at h0
  unfold statusOf at h0
  unfold phase
  cases hl : s.ruleInfos.lookup i with
  | none => rw [hl] at h0; simp at h0
  | some ri =>
    rw [hl] at h0
    simp only at h0 ⊢
    cases hs : ri.state <;> simp [hs] at h0 ⊢
    · split <;> omega
    · split at h0 <;> simp at h0

/-- parking at the task of the input in progress: `Phi` drops by 1 -/
theorem deferAtTask_term {rules : List RuleSpec} {U : List Key} {s : State} {ms : MSt} {r : RuleScanRequest} {i : Key}
    {t : TaskInfo}
    (hr : Rel rules s ms { scan := [r] }) (hp : ms.pend = none) (hin : r.inputRuleInfo = some i)
    (hl : s.taskInfos.lookup i = some t) (hc : ClosedU rules U s) :
    TermStep rules U s { scan := [r] } (s.setTask { t with deferredScanRequests := t.deferredScanRequests ++ [r] }) {} 1 := by
  have hk : t.forRuleInfo = i := (hr.taskOk i t hl).forRule
  generalize ht' : ({ t with deferredScanRequests := t.deferredScanRequests ++ [r] } : TaskInfo) = t'
  have hk' : t'.forRuleInfo = i := by rw [← ht']; exact hk
  have htask : ∀ x, (s.setTask t').task x = if x = i then t' else s.task x := by
    intro x; rw [setTask_task, hk']
  have hdone : ∀ x, ((s.setTask t').task x).done = (s.task x).done := by
    intro x; rw [htask]
    by_cases e : x = i
    · subst e; simp only [if_true]; rw [task_of_lookup hl, ← ht']
    · simp [e]
  have hiss : ∀ x, ((s.setTask t').task x).issuedReqs = (s.task x).issuedReqs := by
    intro x; rw [htask]
    by_cases e : x = i
    · subst e; simp only [if_true]; rw [task_of_lookup hl, ← ht']
    · simp [e]
  have hphase : phase (s.setTask t') = phase s := by
    funext x; unfold phase; rw [hdone]; rfl
  have hdeps0 : deps0 (s.setTask t') = deps0 s := rfl
  have hruleW : ruleW rules (s.setTask t') = ruleW rules s := by
    funext x; unfold ruleW; rw [hphase, hdeps0, hiss]
  have hinputQW : inputQW (s.setTask t') = inputQW s := by funext x; unfold inputQW; rw [hphase]
  have hscanRest : scanRest (s.setTask t') = scanRest s := rfl
  have hscanQW : scanQW (s.setTask t') = scanQW s := by
    funext x; unfold scanQW; rw [hscanRest, hphase]; rfl
  refine ⟨⟨hc.nodup, hc.registered, hc.reqs, hc.discs, by rw [hdeps0]; exact hc.deps, hc.inputs⟩, ?_⟩
  obtain ⟨l1, l2, hsplit, hsplit'⟩ := scanTasks_split hl t' hk'
  have hreqBy : requestedByAll (s.setTask t') = requestedByAll s := by
    unfold requestedByAll; rw [hsplit, hsplit', ← ht']; simp
  have hok := hr.scanOk r (mem_scanReqs_hand s r)
  obtain ⟨_, d, hd, hdk, _⟩ := hok.cached i hin
  obtain ⟨hp1, hp3⟩ := Rel_phase_task hr hp (by rw [hl]; rfl)
  have hr3 : scanQW s r = scanRest s r + 3 := by
    rw [scanQW_at hd, hdk]
    have : ¬ 5 ≤ phase s i := by omega
    simp [this, hp1]
  have e3 : t'.deferredScanRequests = t.deferredScanRequests ++ [r] := by rw [← ht']
  have hT : sumBy (fun x => scanRest s x + 2) ((s.setTask t').taskInfos.flatMap (fun p => p.2.deferredScanRequests)) =
      sumBy (fun x => scanRest s x + 2) (s.taskInfos.flatMap (fun p => p.2.deferredScanRequests)) + (scanRest s r + 2) := by
    rw [hsplit, hsplit']
    simp only [List.flatMap_append, List.flatMap_cons, sumBy_append, sumBy_cons, sumBy_nil, e3]
    omega
  have hlr : liveRecords (s.setTask t') = liveRecords s := rfl
  have hpa : pausedAll (s.setTask t') = pausedAll s := rfl
  unfold Phi
  rw [hruleW, hinputQW, hscanQW, hscanRest, hreqBy, hT, hlr, hpa]
  simp only [List.nil_append, List.cons_append, sumBy_cons]
  have e1 : (s.setTask t').inputRequests = s.inputRequests := rfl
  have e2 : (s.setTask t').finishedInputRequests = s.finishedInputRequests := rfl
  have e4 : (s.setTask t').ruleInfosToScan = s.ruleInfosToScan := rfl
  rw [e1, e2, e4]
  omega

/-! ## registration (own version: `TermBasic.lean` did not build when this file was written) -/

theorem fresh_term {rules : List RuleSpec} {U : List Key} {s : State} {ms : MSt} {h : Hand} {k : Key}
    (hr : Rel rules s ms h) (hl : s.ruleInfos.lookup k = none) (hk : k ∈ U) (hc : ClosedU rules U s) :
    TermStep rules U s h (s.setRule (freshRule s k)) h 0 := by
  have hkey : (freshRule s k).key = k := rfl
  have hst : (freshRule s k).state = .incomplete := rfl
  have hlk := fresh_lookup (s := s) (fr := freshRule s k) hkey
  have htask : ∀ x, (s.setRule (freshRule s k)).task x = s.task x := fun _ => rfl
  have hphase : phase (s.setRule (freshRule s k)) = phase s := by
    funext x
    unfold phase
    rw [hlk, htask]
    by_cases e : x = k
    · subst e; simp [hl, hst]
    · simp only [e, if_false]; rfl
  have hdeps0 : deps0 (s.setRule (freshRule s k)) = deps0 s := by
    funext x
    unfold deps0
    rw [hlk]
    by_cases e : x = k
    · subst e; simp [hl, freshRule]
    · simp only [e, if_false]; rfl
  have hruleW : ruleW rules (s.setRule (freshRule s k)) = ruleW rules s := by
    funext x; unfold ruleW; rw [hphase, hdeps0, htask]
  have hinputQW : inputQW (s.setRule (freshRule s k)) = inputQW s := by funext x; unfold inputQW; rw [hphase]
  have hrule : ∀ x ∈ scanReqs s h, (s.setRule (freshRule s k)).rule x.ruleInfo = s.rule x.ruleInfo := by
    intro x hx
    exact fresh_rule_ne hkey (registered_ne hl (hr.scanOk x hx).reg)
  have hscanRest : ∀ x ∈ scanReqs s h, scanRest (s.setRule (freshRule s k)) x = scanRest s x := by
    intro x hx; unfold scanRest; rw [hrule x hx]
  have hscanQW : ∀ x ∈ scanReqs s h, scanQW (s.setRule (freshRule s k)) x = scanQW s x := by
    intro x hx; unfold scanQW; rw [hscanRest x hx, hrule x hx, hphase]
  have hlive : liveRecords (s.setRule (freshRule s k)) = liveRecords s := fresh_liveRecords hl hkey hst
  refine ⟨⟨hc.nodup, ?_, hc.reqs, hc.discs, by rw [hdeps0]; exact hc.deps, hc.inputs⟩, ?_⟩
  · intro x hx
    unfold Registered at hx
    rw [hlk] at hx
    by_cases e : x = k
    · rw [e]; exact hk
    · simp only [e, if_false] at hx; exact hc.registered x hx
  · apply Nat.le_of_eq
    unfold Phi pausedAll
    rw [hruleW, hinputQW, hlive]
    have e1 : sumBy (scanQW (s.setRule (freshRule s k))) (h.scan ++ (s.setRule (freshRule s k)).ruleInfosToScan) =
        sumBy (scanQW s) (h.scan ++ s.ruleInfosToScan) :=
      sumBy_congr (fun x hx => hscanQW x (mem_scanReqs_parts.2 (Or.inl hx)))
    have e2 : sumBy (fun x => scanRest (s.setRule (freshRule s k)) x + 4)
          ((liveRecords s).flatMap (fun p => p.2.deferredScanRequests)) =
        sumBy (fun x => scanRest s x + 4) ((liveRecords s).flatMap (fun p => p.2.deferredScanRequests)) :=
      sumBy_congr (fun x hx => by rw [hscanRest x (mem_scanReqs_parts.2 (Or.inr (Or.inl hx)))])
    have e3 : sumBy (fun x => scanRest (s.setRule (freshRule s k)) x + 2)
          ((s.setRule (freshRule s k)).taskInfos.flatMap (fun p => p.2.deferredScanRequests)) =
        sumBy (fun x => scanRest s x + 2) (s.taskInfos.flatMap (fun p => p.2.deferredScanRequests)) :=
      sumBy_congr (fun x hx => by rw [hscanRest x (mem_scanReqs_parts.2 (Or.inr (Or.inr hx)))])
    rw [e1, e2, e3]
    rfl

/-- `getRuleInfoForKey k` for a key of the universe is free -/
theorem getRule_term {rules : List RuleSpec} {U : List Key} {s : State} {ms : MSt} {h : Hand} {k : Key}
    (hr : Rel rules s ms h) (hk : k ∈ U) (hc : ClosedU rules U s) :
    TermStep rules U s h (getRuleInfoForKey k s) h 0 := by
  cases hl : s.ruleInfos.lookup k with
  | some ri => rw [getRuleInfoForKey_old k s (by rw [hl]; rfl)]; exact ⟨hc, Nat.le_refl _⟩
  | none =>
    rw [getRuleInfoForKey_fresh k s hr.hasDB hl]
    exact (PhiSame.of_sameEngine ((emit_same _ _).trans (emit_same _ _))).termStep (fresh_term hr hl hk hc)

/-! ## popping the scan queue -/

theorem Phi_popScan {rules : List RuleSpec} {U : List Key} {s : State} {r : RuleScanRequest}
    (hq : s.ruleInfosToScan.getLast? = some r) :
    Phi rules U { s with ruleInfosToScan := s.ruleInfosToScan.dropLast } { scan := [r] } = Phi rules U s {} := by
  obtain ⟨ys, hys⟩ := List.getLast?_eq_some_iff.1 hq
  have hdl : s.ruleInfosToScan.dropLast = ys := by rw [hys]; simp
  have e1 : ruleW rules { s with ruleInfosToScan := s.ruleInfosToScan.dropLast } = ruleW rules s := rfl
  have e2 : inputQW { s with ruleInfosToScan := s.ruleInfosToScan.dropLast } = inputQW s := rfl
  have e3 : scanQW { s with ruleInfosToScan := s.ruleInfosToScan.dropLast } = scanQW s := rfl
  have e4 : scanRest { s with ruleInfosToScan := s.ruleInfosToScan.dropLast } = scanRest s := rfl
  have e5 : liveRecords { s with ruleInfosToScan := s.ruleInfosToScan.dropLast } = liveRecords s := rfl
  have e6 : pausedAll { s with ruleInfosToScan := s.ruleInfosToScan.dropLast } = pausedAll s := rfl
  have e7 : requestedByAll { s with ruleInfosToScan := s.ruleInfosToScan.dropLast } = requestedByAll s := rfl
  unfold Phi
  rw [e1, e2, e3, e4, e5, e6, e7]
  simp only [hdl]
  rw [hys]
  simp only [List.nil_append, List.cons_append, sumBy_append, sumBy_cons, sumBy_nil]
  omega

theorem closed_popScan {rules : List RuleSpec} {U : List Key} {s : State} (q : List RuleScanRequest)
    (hc : ClosedU rules U s) : ClosedU rules U { s with ruleInfosToScan := q } :=
  ⟨hc.nodup, hc.registered, hc.reqs, hc.discs, hc.deps, hc.inputs⟩

end TermScan

/-! ## T1 for `scanRule`: it never halts -/

theorem scanRule_nohalt (k : Key) (s : State) (hh : s.halted = false) : (scanRule k s).2.halted = false := by
  rw [scanRule_eq]
  simp only
  repeat' split
  all_goals first
    | exact hh
    | (rw [emitAll_halted]; exact hh)

theorem TermScan.termStep_refl {rules : List RuleSpec} {U : List Key} {s : State} {h : Hand} (hc : ClosedU rules U s) :
    TermStep rules U s h s h 0 := ⟨hc, Nat.le_refl _⟩

/-- **T2 for `scanRule`** -/
theorem scanRule_term {rules : List RuleSpec} {U : List Key} {s : State} {ms : MSt} {h : Hand} {k : Key}
    (hr : Rel rules s ms h) (hreg : Registered s k) (hc : ClosedU rules U s) :
    TermStep rules U s h (scanRule k s).2 h 0 := by
  obtain ⟨ri0, hl⟩ := Option.isSome_iff_exists.1 hreg
  have hrule : s.rule k = ri0 := rule_of_lookup hl
  rw [scanRule_eq]
  simp only [hrule]
  by_cases h1 : isScanned s ri0 = true
  · simp only [h1, if_true]; exact TermScan.termStep_refl hc
  by_cases h2 : ri0.isScanning = true
  · simp only [h1, h2, if_true, Bool.false_eq_true, if_false]; exact TermScan.termStep_refl hc
  simp only [h1, h2, Bool.false_eq_true, if_false]
  have hidle := TermScan.phase_idle_of_not_scanned hl h1 h2
  have hN := TermScan.scanResult_term (st' := .needsToRun) hr hl hidle (Or.inl rfl) hc
  have hD := TermScan.scanResult_term (st' := .doesNotNeedToRun) hr hl hidle (Or.inr (Or.inl rfl)) hc
  have hS := TermScan.scanResult_term (st' := .isScanning) hr hl hidle (Or.inr (Or.inr rfl)) hc
  rw [scanResultState_ne (by decide)] at hN hD
  rw [scanResultState_scanning] at hS
  split
  · exact (TermScan.PhiSame.of_sameEngine (emitAll_same _ _)).termStep hN
  split
  · exact (TermScan.PhiSame.of_sameEngine (emitAll_same _ _)).termStep hN
  split
  · exact (TermScan.PhiSame.of_sameEngine (emitAll_same _ _)).termStep hN
  split
  · exact (TermScan.PhiSame.of_sameEngine (emitAll_same _ _)).termStep hD
  · exact (TermScan.PhiSame.of_sameEngine (emitAll_same _ _)).termStep hS

/-! ## T1/T2 for `finishScanRequest` with the request in hand consumed -/

theorem finishScan_nohalt {rules : List RuleSpec} {s : State} {ms : MSt} {r : RuleScanRequest}
    (hr : Rel rules s ms { scan := [r] }) (st : StateKind) (hh : s.halted = false) :
    (finishScanRequest r.ruleInfo st s).halted = false := by
  obtain ⟨rk, rec, hlk, _, hrec, _⟩ := hr.hand_rule
  rw [finishScanRequest_eq st hlk hrec]
  exact hh

theorem finishScan_term {rules : List RuleSpec} {U : List Key} {s : State} {ms : MSt} {r : RuleScanRequest} {st : StateKind}
    (hr : Rel rules s ms { scan := [r] }) (hst : st = .needsToRun ∨ st = .doesNotNeedToRun) (hc : ClosedU rules U s) :
    TermStep rules U s { scan := [r] } (finishScanRequest r.ruleInfo st s) {} 1 := by
  obtain ⟨rk, rec, hlk, _, hrec, _⟩ := hr.hand_rule
  rw [finishScanRequest_eq st hlk hrec]
  exact TermScan.finishState_term hr rfl hlk hrec hst hc

/-- `finishScanRequest k NeedsToRun ; N k 3 input` -/
theorem finishScan_needs_nohalt {rules : List RuleSpec} {s : State} {ms : MSt} {r : RuleScanRequest} (i : Key)
    (hr : Rel rules s ms { scan := [r] }) (hh : s.halted = false) :
    (emit (.N r.ruleInfo 3 (some i)) (finishScanRequest r.ruleInfo .needsToRun s)).halted = false := by
  rw [emit_halted_eq]; exact finishScan_nohalt hr _ hh

theorem finishScan_needs_term {rules : List RuleSpec} {U : List Key} {s : State} {ms : MSt} {r : RuleScanRequest} (i : Key)
    (hr : Rel rules s ms { scan := [r] }) (hc : ClosedU rules U s) :
    TermStep rules U s { scan := [r] } (emit (.N r.ruleInfo 3 (some i)) (finishScanRequest r.ruleInfo .needsToRun s)) {} 1 :=
  (TermScan.PhiSame.of_sameEngine (emit_same _ _)).termStep (finishScan_term hr (Or.inl rfl) hc)

/-! ## T2 for the hand-only steps -/

/-- `Todo_scanLookup`: the request in hand now points at its input — `Phi` is unchanged -/
theorem scanLookup_term {rules : List RuleSpec} {U : List Key} {s : State} (r : RuleScanRequest) (d : Dep)
    (hc : ClosedU rules U s) :
    TermStep rules U s { scan := [r] } s
      { scan := [{ r with inputRuleInfo := some d.key, orderOnly := d.orderOnly, singleUse := d.singleUse }] } 0 :=
  ⟨hc, by
    have h := TermScan.Phi_hand_same (rules := rules) (U := U) (s := s) (r := r)
      (r' := { r with inputRuleInfo := some d.key, orderOnly := d.orderOnly, singleUse := d.singleUse }) rfl rfl
    omega⟩

/-- `Todo_scanAdvance`: −6 for the dependency passed, location 1 (done) → at most 5 -/
theorem scanAdvance_term {rules : List RuleSpec} {U : List Key} {s : State} {ms : MSt} {r : RuleScanRequest} {i : Key}
    (hr : Rel rules s ms { scan := [r] }) (hin : r.inputRuleInfo = some i) (hdone : isDone ms.m i = true)
    (hc : ClosedU rules U s) :
    TermStep rules U s { scan := [r] } s
      { scan := [{ r with inputIndex := r.inputIndex + 1, inputRuleInfo := none, orderOnly := false, singleUse := false }] } 2 :=
  ⟨hc, TermScan.Phi_advance hr hin hdone⟩

/-- `Todo_scanDefer`, first half: queued at a scanning input (5) → parked at its record (4) -/
theorem scanDefer_record_term {rules : List RuleSpec} {U : List Key} {s : State} {ms : MSt} {r : RuleScanRequest} {i : Key}
    (hr : Rel rules s ms { scan := [r] }) (hin : r.inputRuleInfo = some i) (hs : (s.rule i).state = .isScanning)
    (hh : s.halted = false) (hc : ClosedU rules U s) :
    (modScanRecord i (fun rec => { rec with deferredScanRequests := rec.deferredScanRequests ++ [r] }) s).halted = false ∧
    TermStep rules U s { scan := [r] }
      (modScanRecord i (fun rec => { rec with deferredScanRequests := rec.deferredScanRequests ++ [r] }) s) {} 1 := by
  obtain ⟨ri, rec, hl, hs', hrec, heq⟩ := hr.modScanRecord_eq r hs
  rw [heq]
  exact ⟨hh, TermScan.deferAtRecord_term hr hin hl hs' hrec hc⟩

/-- `Todo_scanDefer`, second half: queued at an input in progress (3) → parked at its task (2) -/
theorem scanDefer_task_term {rules : List RuleSpec} {U : List Key} {s : State} {ms : MSt} {r : RuleScanRequest} {i : Key}
    (hr : Rel rules s ms { scan := [r] }) (hp : ms.pend = none) (hin : r.inputRuleInfo = some i)
    (ht : (s.taskInfos.lookup i).isSome = true) (hc : ClosedU rules U s) :
    TermStep rules U s { scan := [r] }
      (s.modTask i (fun t => { t with deferredScanRequests := t.deferredScanRequests ++ [r] })) {} 1 := by
  obtain ⟨t, hl⟩ := Option.isSome_iff_exists.1 ht
  have e : s.modTask i (fun t => { t with deferredScanRequests := t.deferredScanRequests ++ [r] }) =
      s.setTask { t with deferredScanRequests := t.deferredScanRequests ++ [r] } := by
    unfold State.modTask; rw [task_of_lookup hl]
  rw [e]
  exact TermScan.deferAtTask_term hr hp hin hl hc

/-! ## `scanLoop` -/

/-- `demandRule` never halts (obligation of the prover of `demandRule`; hypothesis here) -/
def TermScan.DemandRuleNoHalt : Prop :=
  ∀ rules, RulesOk rules → ∀ (s : State) (ms : MSt) (h : Hand) (k : Key) (U : List Key),
    h.dec = [] → Rel rules s ms h → ms.pend = none → s.halted = false → h.issuing = none → Registered s k →
    isScanned s (s.rule k) = true → ClosedU rules U s → k ∈ U → (demandRule k s).2.halted = false

/-- `demandRule` does not increase the potential (obligation of the prover of `demandRule`; hypothesis here) -/
def TermScan.DemandRuleTerm : Prop :=
  ∀ rules, RulesOk rules → ∀ (s : State) (ms : MSt) (h : Hand) (k : Key) (U : List Key),
    h.dec = [] → Rel rules s ms h → ms.pend = none → s.halted = false → h.issuing = none → Registered s k →
    isScanned s (s.rule k) = true → ClosedU rules U s → k ∈ U → TermStep rules U s h (demandRule k s).2 h 0

/-- the two statements about `scanLoop` for a given fuel -/
def TermScan.ScanLoopTermAt (rules : List RuleSpec) (U : List Key) (fuel : Nat) : Prop :=
  ∀ (s : State) (ms : MSt) (r : RuleScanRequest),
    Rel rules s ms { scan := [r] } → ms.pend = none → s.halted = false → ClosedU rules U s →
    Phi rules U s { scan := [r] } < fuel →
    (scanLoop fuel r s).halted = false ∧ TermStep rules U s { scan := [r] } (scanLoop fuel r s) {} 1

theorem TermScan.afterDemand_nt {rules : List RuleSpec} {U : List Key} {fuel : Nat}
    (ih : TermScan.ScanLoopTermAt rules U fuel) {s : State} {ms : MSt} {r : RuleScanRequest} {input : Key}
    (hr : Rel rules s ms { scan := [r] }) (hp : ms.pend = none) (hh : s.halted = false)
    (hin : r.inputRuleInfo = some input) (hdone : isDone ms.m input = true) (hc : ClosedU rules U s)
    (hphi : Phi rules U s { scan := [r] } < fuel + 1) :
    (afterDemand fuel r input s).halted = false ∧ TermStep rules U s { scan := [r] } (afterDemand fuel r input s) {} 1 := by
  unfold afterDemand
  by_cases hcnd : (!r.orderOnly && decide ((s.rule r.ruleInfo).result.builtAt < (s.rule input).result.computedAt)) = true
  · rw [if_pos hcnd]
    exact ⟨finishScan_needs_nohalt input hr hh, finishScan_needs_term input hr hc⟩
  · rw [if_neg hcnd]
    have hfresh : r.orderOnly = true ∨ ¬ (s.rule r.ruleInfo).result.builtAt < (s.rule input).result.computedAt := by
      simp only [Bool.and_eq_true, Bool.not_eq_true', decide_eq_true_eq, not_and] at hcnd
      cases hoo : r.orderOnly with
      | true => exact Or.inl rfl
      | false => exact Or.inr (hcnd hoo)
    by_cases hl : r.inputIndex + 1 = (s.rule r.ruleInfo).result.deps.length
    · have hb : (r.inputIndex + 1 != (s.rule r.ruleInfo).result.deps.length) = false := by simpa using hl
      rw [hb]
      simp only [Bool.false_eq_true, if_false]
      exact ⟨finishScan_nohalt hr _ hh, finishScan_term hr (Or.inr rfl) hc⟩
    · have hb : (r.inputIndex + 1 != (s.rule r.ruleInfo).result.deps.length) = true := by simpa using hl
      rw [hb]
      simp only [if_true]
      have hadv := TermScan.Phi_advance (rules := rules) (U := U) hr hin hdone
      obtain ⟨h1, h2, h3⟩ := ih s ms _ (scanAdvance_sim rules s ms r input hr hin hdone hfresh hl) hp hh hc (by omega)
      exact ⟨h1, h2, by omega⟩

theorem TermScan.afterScan_nt (hdn : TermScan.DemandRuleNoHalt) (hdt : TermScan.DemandRuleTerm) {rules : List RuleSpec} (hok : RulesOk rules)
    {U : List Key} {fuel : Nat} (ih : TermScan.ScanLoopTermAt rules U fuel) {s : State} {ms : MSt} {r : RuleScanRequest} {input : Key}
    (hr : Rel rules s ms { scan := [r] }) (hp : ms.pend = none) (hh : s.halted = false)
    (hin : r.inputRuleInfo = some input) (hc : ClosedU rules U s) (hphi : Phi rules U s { scan := [r] } < fuel + 1) :
    (afterScan fuel r input (scanRule input s)).halted = false ∧
      TermStep rules U s { scan := [r] } (afterScan fuel r input (scanRule input s)) {} 1 := by
  have hokr := hr.scanOk r (mem_scanReqs_hand s r)
  have hreg_in : Registered s input := (hokr.cached input hin).1
  have hinU : input ∈ U := hc.registered input hreg_in
  have hinhand : InHand { scan := [r] } s input := Or.inl ⟨r, by simp, hin⟩
  have hsim1 := scanRule_sim rules hok s ms { scan := [r] } input hr hp hh hreg_in hinhand (fun _ => hr.hand_demanded hin)
  have hh2 := scanRule_nohalt input s hh
  have t1 := scanRule_term (U := U) hr hreg_in hc
  generalize scanRule input s = p at hsim1 hh2 t1
  obtain ⟨b, s2⟩ := p
  simp only at hsim1 hh2 t1
  obtain ⟨_, ms2, _, _, hr2, hp2, hreg2, _, _, hsc_t, hsc_f⟩ := hsim1 hh2
  unfold afterScan
  simp only
  cases b with
  | false =>
    simp only [Bool.not_false, if_true]
    obtain ⟨h1, h2, h3⟩ := scanDefer_record_term hr2 hin (hsc_f rfl) hh2 t1.1
    exact ⟨h1, h2, by have := t1.2; omega⟩
  | true =>
    simp only [Bool.not_true, Bool.false_eq_true, if_false]
    have hreg2_in := hreg2 _ hreg_in
    have hh3 := hdn rules hok s2 ms2 { scan := [r] } input U rfl hr2 hp2 hh2 rfl hreg2_in (hsc_t rfl) t1.1 hinU
    have t2 := hdt rules hok s2 ms2 { scan := [r] } input U rfl hr2 hp2 hh2 rfl hreg2_in (hsc_t rfl) t1.1 hinU
    have hsim2 := demandRule_sim rules hok s2 ms2 { scan := [r] } input rfl hr2 hp2 hh2 rfl hreg2_in (hsc_t rfl)
    generalize demandRule input s2 = q at hsim2 hh3 t2
    obtain ⟨c, s3⟩ := q
    simp only at hsim2 hh3 t2
    obtain ⟨_, ms3, _, _, hr3, hp3, _, _, hd_t, hd_f, _⟩ := hsim2 hh3
    cases c with
    | false =>
      simp only [Bool.not_false, if_true]
      have h2 := scanDefer_task_term hr3 hp3 hin (hd_f rfl) t2.1
      exact ⟨hh3, h2.1, by have := t1.2; have := t2.2; have := h2.2; omega⟩
    | true =>
      simp only [Bool.not_true, Bool.false_eq_true, if_false]
      obtain ⟨h1, h2, h3⟩ := TermScan.afterDemand_nt ih hr3 hp3 hh3 hin (hd_t rfl) t2.1
        (by have := t1.2; have := t2.2; omega)
      exact ⟨h1, h2, by have := t1.2; have := t2.2; omega⟩

theorem TermScan.scanLoop_nt (hdn : TermScan.DemandRuleNoHalt) (hdt : TermScan.DemandRuleTerm) {rules : List RuleSpec} (hok : RulesOk rules)
    (U : List Key) : ∀ fuel, TermScan.ScanLoopTermAt rules U fuel
  | 0 => by intro s ms r _ _ _ _ hphi; omega
  | fuel + 1 => by
    intro s ms r hr hp hh hc hphi
    have ih := TermScan.scanLoop_nt hdn hdt hok U fuel
    rw [scanLoop_succ]
    have hokr := hr.scanOk r (mem_scanReqs_hand s r)
    cases hin : r.inputRuleInfo with
    | some i =>
      simp only
      exact TermScan.afterScan_nt hdn hdt hok ih hr hp hh hin hc hphi
    | none =>
      simp only
      obtain ⟨d, hd⟩ : ∃ d, (s.rule r.ruleInfo).result.deps[r.inputIndex]? = some d :=
        ⟨_, List.getElem?_eq_getElem hokr.inBounds⟩
      rw [hd]
      simp only
      -- the dependency is a key of the universe
      have hdU : d.key ∈ U := by
        obtain ⟨rk, hlk⟩ := Option.isSome_iff_exists.1 hokr.reg
        refine hc.deps r.ruleInfo (hc.registered _ hokr.reg) d ?_
        unfold deps0; rw [hlk]
        rw [rule_of_lookup hlk] at hd
        exact List.mem_of_getElem? hd
      obtain ⟨_, ms1, _, _, hrel, hp1, hreg, hh1, _, _⟩ := hr.getRule' hh d.key
      have t0 := TermScan.getRule_term (k := d.key) hr hdU hc
      have hrule := getRuleInfoForKey_rule_of_registered d.key s hr.hasDB hokr.reg
      have hlook := scanLookup_sim rules _ ms1 r d hrel hin (by rw [hrule]; exact hd) hreg
      have hsame : Phi rules U (getRuleInfoForKey d.key s)
          { scan := [{ r with inputRuleInfo := some d.key, orderOnly := d.orderOnly, singleUse := d.singleUse }] } =
          Phi rules U (getRuleInfoForKey d.key s) { scan := [r] } := TermScan.Phi_hand_same rfl rfl
      obtain ⟨h1, h2, h3⟩ := TermScan.afterScan_nt hdn hdt hok ih hlook (hp1.trans hp) hh1 rfl t0.1
        (by have := t0.2; omega)
      exact ⟨h1, h2, by have := t0.2; omega⟩

/-- **T1 for `scanLoop`** -/
theorem scanLoop_nohalt (hdn : TermScan.DemandRuleNoHalt) (hdt : TermScan.DemandRuleTerm) {rules : List RuleSpec} (hok : RulesOk rules)
    {U : List Key} {fuel : Nat} {s : State} {ms : MSt} {r : RuleScanRequest}
    (hr : Rel rules s ms { scan := [r] }) (hp : ms.pend = none) (hh : s.halted = false) (hc : ClosedU rules U s)
    (hphi : Phi rules U s { scan := [r] } < fuel) : (scanLoop fuel r s).halted = false :=
  (TermScan.scanLoop_nt hdn hdt hok U fuel s ms r hr hp hh hc hphi).1

/-- **T2 for `scanLoop`** -/
theorem scanLoop_term (hdn : TermScan.DemandRuleNoHalt) (hdt : TermScan.DemandRuleTerm) {rules : List RuleSpec} (hok : RulesOk rules)
    {U : List Key} {fuel : Nat} {s : State} {ms : MSt} {r : RuleScanRequest}
    (hr : Rel rules s ms { scan := [r] }) (hp : ms.pend = none) (hh : s.halted = false) (hc : ClosedU rules U s)
    (hphi : Phi rules U s { scan := [r] } < fuel) : TermStep rules U s { scan := [r] } (scanLoop fuel r s) {} 1 :=
  (TermScan.scanLoop_nt hdn hdt hok U fuel s ms r hr hp hh hc hphi).2

/-! ## `scanRequestsLoop` -/

theorem TermScan.scanRequestsLoop_nt (hdn : TermScan.DemandRuleNoHalt) (hdt : TermScan.DemandRuleTerm) {rules : List RuleSpec}
    (hok : RulesOk rules) (U : List Key) : ∀ (fuel : Nat) (w : Bool) (s : State) (ms : MSt),
    Rel rules s ms {} → ms.pend = none → s.halted = false → ClosedU rules U s →
    Phi rules U s {} < fuel → Phi rules U s {} < scanFuel →
    (scanRequestsLoop fuel w s).2.halted = false ∧
      TermStep rules U s {} (scanRequestsLoop fuel w s).2 {} (if s.ruleInfosToScan = [] then 0 else 1)
  | 0, _, _, _, _, _, _, _, hphi, _ => by omega
  | fuel + 1, w, s, ms, hr, hp, hh, hc, hphi, hphi2 => by
    rw [scanRequestsLoop_succ]
    cases hq : s.ruleInfosToScan.getLast? with
    | none =>
      simp only
      have he := List.getLast?_eq_none_iff.1 hq
      rw [if_pos he]
      exact ⟨hh, hc, Nat.le_refl _⟩
    | some request =>
      simp only
      have hne : s.ruleInfosToScan ≠ [] := by
        intro e; rw [e] at hq; cases hq
      rw [if_neg hne]
      have hpop := hr.popScan hq
      have hsc := (hpop.scanOk request (mem_scanReqs_hand _ request)).scanning
      have hproc : processRuleScanRequest request { s with ruleInfosToScan := s.ruleInfosToScan.dropLast } =
          scanLoop scanFuel request { s with ruleInfosToScan := s.ruleInfosToScan.dropLast } := by
        unfold processRuleScanRequest
        simp [RuleInfo.isScanning, hsc]
      rw [hproc]
      have hphi0 := TermScan.Phi_popScan (rules := rules) (U := U) hq
      have hc0 := TermScan.closed_popScan s.ruleInfosToScan.dropLast hc
      obtain ⟨hh1, hc1, hd1⟩ := TermScan.scanLoop_nt hdn hdt hok U scanFuel _ ms request hpop hp hh hc0 (by omega)
      obtain ⟨_, ms1, _, _, hr1, hp1, _, _, _⟩ :=
        scanLoop_sim demandRule_sim rules hok scanFuel _ ms request hpop hp hh hh1
      obtain ⟨h1, h2, h3⟩ := TermScan.scanRequestsLoop_nt hdn hdt hok U fuel true _ ms1 hr1 hp1 hh1 hc1
        (by omega) (by omega)
      refine ⟨h1, h2, ?_⟩
      split at h3 <;> omega

/-- **T1 for `scanRequestsLoop`** -/
theorem scanRequestsLoop_nohalt (hdn : TermScan.DemandRuleNoHalt) (hdt : TermScan.DemandRuleTerm) {rules : List RuleSpec} (hok : RulesOk rules)
    {U : List Key} {fuel : Nat} {w : Bool} {s : State} {ms : MSt}
    (hr : Rel rules s ms {}) (hp : ms.pend = none) (hh : s.halted = false) (hc : ClosedU rules U s)
    (hphi : Phi rules U s {} < fuel) (hphi2 : Phi rules U s {} < scanFuel) :
    (scanRequestsLoop fuel w s).2.halted = false :=
  (TermScan.scanRequestsLoop_nt hdn hdt hok U fuel w s ms hr hp hh hc hphi hphi2).1

/-- **T2 for `scanRequestsLoop`** -/
theorem scanRequestsLoop_term (hdn : TermScan.DemandRuleNoHalt) (hdt : TermScan.DemandRuleTerm) {rules : List RuleSpec} (hok : RulesOk rules)
    {U : List Key} {fuel : Nat} {w : Bool} {s : State} {ms : MSt}
    (hr : Rel rules s ms {}) (hp : ms.pend = none) (hh : s.halted = false) (hc : ClosedU rules U s)
    (hphi : Phi rules U s {} < fuel) (hphi2 : Phi rules U s {} < scanFuel) :
    TermStep rules U s {} (scanRequestsLoop fuel w s).2 {} (if s.ruleInfosToScan = [] then 0 else 1) :=
  (TermScan.scanRequestsLoop_nt hdn hdt hok U fuel w s ms hr hp hh hc hphi hphi2).2

end LLBuild.Refine
