/-
IM2 — refinement: `findCycle` against the monitor's `lassoOk` (section F of `Todo.lean`, the heart of C07).

Helpers (namespace `LLBuild.Refine.Cyc`):
* §0-2 graphs as association lists (`GraphAll`, `GraphLe`), `sortBy` keeps the members (`mem_sortBy`), the inversion
  `invertGraph` is sound and complete (`invertGraph_all`, `invertGraph_mem`)                                   [B]
* §3 the search: loop invariant `SearchInv`; `cycleSearchOpt_lasso` (the result is `[]` or a lasso `IsLasso` from the
  entry node) and `cycleSearchOpt_nonempty` (in a set where every node has a predecessor the search never backtracks) [C]
* §4-5 `Stuck` = the hypotheses of `Todo_findCycle`; status facts (`no_computing`, `task_running`, …);
  `edge_of_request`, `edge_of_scanReq`, `taskSuccs_edge`, `record_edges`, `gather_all`: every successor edge `a → b`
  is `waitsFor b a` with `a` blocked (`Edge`)                                                                  [A]
* §6 `predGraph_sound`, `findCycle_lasso`;  §7 `predGraph_complete` (every parked request is an edge);
  §8 `blocked_has_pred` (progress), `findCycle_nonempty`                                                       [D]
* §9 `NoMFDelivered` is an invariant of `Engine.step` / `tstep` / `trun`.
Results (namespace `LLBuild.Refine`, §10): `findCycle_lasso_or_nil`, `findCycle_fixed`, `findCycle_of_side`.
`Todo_findCycle` itself is NOT provable as stated: see the three STRENGTHENED hypotheses of `findCycle_fixed`.
-/
import LLBuild.Lemmas.Refine.Scan
import LLBuild.Lemmas.Refine.Halt

namespace LLBuild.Refine
open LLBuild.Engine LLBuild.Engine.DSL LLBuild.EngineImpl

/- helper lemmas live in `LLBuild.Refine.Cyc` (other prover files of this directory are written concurrently: no
name clashes); the results are stated in `LLBuild.Refine` at the end of the file -/
namespace Cyc

/-! ## 0. graphs as association lists -/

/-- every edge `k → x` recorded in ANY entry of the graph satisfies `R k x` -/
def GraphAll (R : Key → Key → Prop) (g : Graph) : Prop := ∀ e ∈ g, ∀ x ∈ e.2, R e.1 x

theorem GraphAll.nil (R : Key → Key → Prop) : GraphAll R [] := by
  intro e he; cases he

theorem GraphAll.get {R : Key → Key → Prop} {g : Graph} (h : GraphAll R g) {k x : Key} (hx : x ∈ g.get k) : R k x := by
  unfold Graph.get at hx
  cases hl : g.lookup k with
  | none => rw [hl] at hx; simp at hx
  | some v =>
    rw [hl] at hx
    exact h (k, v) (lookup_mem g k v hl) x hx

theorem mem_alSet {α : Type} : ∀ (l : List (Key × α)) (k : Key) (x : α) (e : Key × α),
    e ∈ alSet l k x → e = (k, x) ∨ e ∈ l
  | [], k, x, e, h => by simp [alSet] at h; exact Or.inl h
  | (k0, y) :: rest, k, x, e, h => by
    simp only [alSet] at h
    by_cases h0 : (k0 == k) = true
    · simp only [h0, if_true, List.mem_cons] at h
      rcases h with h | h
      · exact Or.inl h
      · exact Or.inr (List.mem_cons_of_mem _ h)
    · simp only [h0, Bool.false_eq_true, if_false, List.mem_cons] at h
      rcases h with h | h
      · exact Or.inr (by rw [h]; exact List.mem_cons_self)
      · rcases mem_alSet rest k x e h with h | h
        · exact Or.inl h
        · exact Or.inr (List.mem_cons_of_mem _ h)

theorem GraphAll.push {R : Key → Key → Prop} {g : Graph} (h : GraphAll R g) {k x : Key} (hx : R k x) :
    GraphAll R (g.push k x) := by
  intro e he y hy
  rcases mem_alSet g k _ e he with e1 | e1
  · subst e1
    simp only [List.mem_append, List.mem_singleton] at hy
    rcases hy with hy | hy
    · exact h.get hy
    · subst hy; exact hx
  · exact h e e1 y hy

theorem get_push (g : Graph) (k x k' : Key) :
    (g.push k x).get k' = if k' = k then g.get k ++ [x] else g.get k' := by
  unfold Graph.push Graph.get
  rw [lookup_alSet]
  by_cases h : k' = k <;> simp [h]

/-- edges only grow -/
def GraphLe (g g' : Graph) : Prop := ∀ k x, x ∈ g.get k → x ∈ g'.get k

theorem GraphLe.refl (g : Graph) : GraphLe g g := fun _ _ h => h
theorem GraphLe.trans {a b c : Graph} (h1 : GraphLe a b) (h2 : GraphLe b c) : GraphLe a c :=
  fun k x h => h2 k x (h1 k x h)

theorem graphLe_push (g : Graph) (k x : Key) : GraphLe g (g.push k x) := by
  intro k' y hy
  rw [get_push]
  by_cases h : k' = k
  · subst h; simp [hy]
  · simp [h, hy]

theorem mem_get_push (g : Graph) (k x : Key) : x ∈ (g.push k x).get k := by
  rw [get_push]; simp

/-! ## 1. sorting keeps the members -/

theorem mem_insertBy {α : Type} (lt : α → α → Bool) (x y : α) : ∀ (l : List α), y ∈ insertBy lt x l ↔ y = x ∨ y ∈ l
  | [] => by simp [insertBy]
  | z :: zs => by
    simp only [insertBy]
    split
    · simp
    · simp only [List.mem_cons, mem_insertBy lt x y zs]
      constructor
      · rintro (h | h | h)
        · exact Or.inr (Or.inl h)
        · exact Or.inl h
        · exact Or.inr (Or.inr h)
      · rintro (h | h | h)
        · exact Or.inr (Or.inl h)
        · exact Or.inl h
        · exact Or.inr (Or.inr h)

theorem mem_foldl_insertBy {α : Type} (lt : α → α → Bool) (y : α) : ∀ (l acc : List α),
    y ∈ l.foldl (fun acc x => insertBy lt x acc) acc ↔ y ∈ acc ∨ y ∈ l
  | [], acc => by simp
  | x :: xs, acc => by
    simp only [List.foldl_cons, mem_foldl_insertBy lt y xs, mem_insertBy, List.mem_cons]
    constructor
    · rintro ((h | h) | h)
      · exact Or.inr (Or.inl h)
      · exact Or.inl h
      · exact Or.inr (Or.inr h)
    · rintro (h | h | h)
      · exact Or.inl (Or.inr h)
      · exact Or.inl (Or.inl h)
      · exact Or.inr h

/-- `sortBy` is a rearrangement: same members -/
theorem mem_sortBy {α : Type} (lt : α → α → Bool) (y : α) (l : List α) : y ∈ sortBy lt l ↔ y ∈ l := by
  unfold sortBy
  rw [mem_foldl_insertBy]; simp

theorem lookup_map_snd {α β : Type} (f : α → β) : ∀ (l : List (Key × α)) (k : Key),
    (l.map (fun e => (e.1, f e.2))).lookup k = (l.lookup k).map f
  | [], k => by simp
  | (k0, y) :: rest, k => by
    simp only [List.map_cons, List.lookup]
    cases k == k0 with
    | true => rfl
    | false => exact lookup_map_snd f rest k

/-- the normalised graph has the same edges -/
theorem mem_get_sorted (pg : Graph) (k x : Key) :
    x ∈ Graph.get (pg.map (fun entry => (entry.1, sortBy keyLt entry.2))) k ↔ x ∈ pg.get k := by
  unfold Graph.get
  rw [lookup_map_snd]
  cases pg.lookup k with
  | none => simp
  | some v => simp [mem_sortBy]

/-! ## 2. inverting the graph -/

/-- `findCycle`'s inversion of the successor graph -/
def invertGraph (g : Graph) : Graph :=
  g.foldl (fun pg entry => entry.2.foldl (fun pg succ => pg.push succ entry.1) pg) []

theorem invert_inner_all {R : Key → Key → Prop} (a : Key) : ∀ (succs : List Key) (pg : Graph),
    GraphAll (fun b a => R a b) pg → (∀ b ∈ succs, R a b) →
    GraphAll (fun b a => R a b) (succs.foldl (fun pg succ => pg.push succ a) pg)
  | [], pg, h, _ => h
  | b :: rest, pg, h, hs => by
    simp only [List.foldl_cons]
    exact invert_inner_all a rest _ (h.push (hs b List.mem_cons_self))
      (fun b' hb' => hs b' (List.mem_cons_of_mem _ hb'))

theorem invert_outer_all {R : Key → Key → Prop} : ∀ (g : Graph) (pg : Graph),
    GraphAll (fun b a => R a b) pg → GraphAll R g →
    GraphAll (fun b a => R a b) (g.foldl (fun pg entry => entry.2.foldl (fun pg succ => pg.push succ entry.1) pg) pg)
  | [], pg, h, _ => h
  | e :: rest, pg, h, hg => by
    simp only [List.foldl_cons]
    exact invert_outer_all rest _ (invert_inner_all e.1 e.2 pg h (fun b hb => hg e List.mem_cons_self b hb))
      (fun e' he' => hg e' (List.mem_cons_of_mem _ he'))

/-- **B (soundness)**: every predecessor edge `b → a` of the inverted graph is a successor edge `a → b` -/
theorem invertGraph_all {R : Key → Key → Prop} {g : Graph} (h : GraphAll R g) :
    GraphAll (fun b a => R a b) (invertGraph g) :=
  invert_outer_all g [] (GraphAll.nil _) h

theorem invert_inner_le (a : Key) : ∀ (succs : List Key) (pg : Graph),
    GraphLe pg (succs.foldl (fun pg succ => pg.push succ a) pg)
  | [], pg => GraphLe.refl pg
  | b :: rest, pg => by
    simp only [List.foldl_cons]
    exact (graphLe_push pg b a).trans (invert_inner_le a rest _)

theorem invert_inner_mem (a : Key) : ∀ (succs : List Key) (pg : Graph), ∀ b ∈ succs,
    a ∈ (succs.foldl (fun pg succ => pg.push succ a) pg).get b
  | [], _, b, hb => by cases hb
  | c :: rest, pg, b, hb => by
    simp only [List.foldl_cons]
    rcases List.mem_cons.1 hb with e | e
    · subst e
      exact invert_inner_le a rest _ _ _ (mem_get_push pg b a)
    · exact invert_inner_mem a rest _ b e

theorem invert_outer_le : ∀ (g : Graph) (pg : Graph),
    GraphLe pg (g.foldl (fun pg entry => entry.2.foldl (fun pg succ => pg.push succ entry.1) pg) pg)
  | [], pg => GraphLe.refl pg
  | e :: rest, pg => by
    simp only [List.foldl_cons]
    exact (invert_inner_le e.1 e.2 pg).trans (invert_outer_le rest _)

theorem invert_outer_mem : ∀ (g : Graph) (pg : Graph), ∀ e ∈ g, ∀ b ∈ e.2,
    e.1 ∈ (g.foldl (fun pg entry => entry.2.foldl (fun pg succ => pg.push succ entry.1) pg) pg).get b
  | [], _, e, he => by cases he
  | e0 :: rest, pg, e, he => by
    intro b hb
    simp only [List.foldl_cons]
    rcases List.mem_cons.1 he with h | h
    · subst h
      exact invert_outer_le rest _ _ _ (invert_inner_mem e.1 e.2 pg b hb)
    · exact invert_outer_mem rest _ e h b hb

/-- **B (completeness)**: every successor edge `a → b` is a predecessor edge `b → a` of the inverted graph -/
theorem invertGraph_mem {g : Graph} {a b : Key} (h : b ∈ g.get a) : a ∈ (invertGraph g).get b := by
  unfold Graph.get at h
  cases hl : g.lookup a with
  | none => rw [hl] at h; simp at h
  | some v =>
    rw [hl] at h
    exact invert_outer_mem g [] (a, v) (lookup_mem g a v hl) b h

/-! ## 3. the depth-first search -/

/-- a path: each element is `R`-related to the next one -/
def Chain (R : Key → Key → Prop) : List Key → Prop
  | [] => True
  | [_] => True
  | x :: y :: rest => R x y ∧ Chain R (y :: rest)

/-- a path read backwards (the search stack has its top at the head) -/
def RChain (R : Key → Key → Prop) : List Key → Prop
  | [] => True
  | [_] => True
  | y :: x :: rest => R x y ∧ RChain R (x :: rest)

theorem chain_snoc (R : Key → Key → Prop) : ∀ (l : List Key) (y : Key),
    Chain R (l ++ [y]) ↔ Chain R l ∧ (∀ x, l.getLast? = some x → R x y)
  | [], y => by simp [Chain]
  | [x], y => by simp [Chain]
  | x :: x' :: rest, y => by
    have ih := chain_snoc R (x' :: rest) y
    simp only [List.cons_append, Chain] at ih ⊢
    rw [ih]
    simp only [List.getLast?_cons_cons]
    constructor
    · rintro ⟨a, b, c⟩; exact ⟨⟨a, b⟩, c⟩
    · rintro ⟨⟨a, b⟩, c⟩; exact ⟨a, b, c⟩

theorem rchain_reverse {R : Key → Key → Prop} : ∀ (l : List Key), RChain R l → Chain R l.reverse
  | [], _ => by simp [Chain]
  | [x], _ => by simp [Chain]
  | y :: x :: rest, h => by
    simp only [RChain] at h
    have ih := rchain_reverse (x :: rest) h.2
    rw [List.reverse_cons, chain_snoc]
    refine ⟨ih, ?_⟩
    intro z hz
    simp at hz
    subst hz
    exact h.1

theorem chain_zip {R : Key → Key → Prop} : ∀ (l : List Key), Chain R l → ∀ ab ∈ l.zip l.tail, R ab.1 ab.2
  | [], _ => by simp
  | [x], _ => by simp
  | x :: y :: rest, h => by
    simp only [Chain] at h
    intro ab hab
    simp only [List.tail_cons, List.zip_cons_cons, List.mem_cons] at hab
    rcases hab with e | e
    · subst e; exact h.1
    · exact chain_zip (y :: rest) h.2 ab (by simpa using e)

def nodesOf (stack : List WorkItem) : List Key := stack.map (fun e => e.node)

/-- the current path `cycleList` as a function of the stack: all the nodes on the stack, bottom first, except a top
entry that has not been visited yet -/
def pathOf : List WorkItem → List Key
  | [] => []
  | e :: below => if e.predecessorIndex == 0 then (nodesOf below).reverse else (nodesOf (e :: below)).reverse

/-- the loop invariant of `cycleSearch` -/
structure SearchInv (R : Key → Key → Prop) (key : Key) (stack : List WorkItem) (cl ci : List Key) : Prop where
  /-- the stack is a path from the entry node along predecessor edges -/
  chain : RChain R (nodesOf stack)
  /-- only the top entry can be unvisited -/
  started : ∀ e ∈ stack.tail, e.predecessorIndex ≠ 0
  path : cl = pathOf stack
  /-- `cycleItems` ⊆ the nodes of `cycleList` -/
  items : ∀ x ∈ ci, x ∈ cl
  root : stack ≠ [] → (nodesOf stack).getLast? = some key

/-- what the search may return: nothing, or a lasso from the entry node -/
def IsLasso (R : Key → Key → Prop) (key : Key) (l : List Key) : Prop :=
  l.head? = some key ∧ Chain R l ∧ ∃ last, l.getLast? = some last ∧ last ∈ l.dropLast

theorem pathOf_started {below : List WorkItem} (h : ∀ e' ∈ below, e'.predecessorIndex ≠ 0) :
    pathOf below = (nodesOf below).reverse := by
  cases below with
  | nil => rfl
  | cons e' rest =>
    have := h e' List.mem_cons_self
    simp [pathOf, this]

/-- **C: the search returns the empty list or a lasso** -/
theorem cycleSearchOpt_lasso {R : Key → Key → Prop} {pred : Graph} (hR : ∀ x y, y ∈ pred.get x → R x y) (key : Key) :
    ∀ (fuel : Nat) (stack : List WorkItem) (cl ci l : List Key), SearchInv R key stack cl ci →
      cycleSearchOpt pred fuel stack cl ci = some l → l = [] ∨ IsLasso R key l
  | 0, _, _, _, _, _, h => by simp [cycleSearchOpt] at h
  | fuel + 1, [], cl, ci, l, inv, h => by
    simp [cycleSearchOpt] at h
    left; rw [← h, inv.path]; rfl
  | fuel + 1, entry :: below, cl, ci, l, inv, h => by
    rw [cycleSearchOpt] at h
    have hbelow : ∀ e' ∈ below, e'.predecessorIndex ≠ 0 := inv.started
    have hpb : pathOf below = (nodesOf below).reverse := pathOf_started hbelow
    have hroot : (nodesOf (entry :: below)).getLast? = some key := inv.root (by simp)
    -- the path once the top entry is visited
    have hcl1 : (if (entry.predecessorIndex == 0) = true then cl ++ [entry.node] else cl) = (nodesOf (entry :: below)).reverse := by
      rw [inv.path]
      by_cases hs : (entry.predecessorIndex == 0) = true
      · simp [pathOf, hs, nodesOf]
      · simp [pathOf, hs]
    split at h
    · -- found
      rename_i hf
      simp only [Bool.and_eq_true] at hf
      obtain ⟨hs, hc⟩ := hf
      right
      simp only [hs, if_true] at h hcl1
      have hl : l = cl ++ [entry.node] := by simpa using h.symm
      have hclb : cl = (nodesOf below).reverse := by rw [inv.path]; simp [pathOf, hs]
      have hmem : entry.node ∈ cl := inv.items _ (by simpa using hc)
      refine ⟨?_, ?_, entry.node, ?_, ?_⟩
      · rw [hl, hcl1, List.head?_reverse]; exact hroot
      · rw [hl, hcl1]; exact rchain_reverse _ inv.chain
      · rw [hl]; simp
      · rw [hl]; simpa using hmem
    · rename_i hf
      have hitems1 : ∀ x ∈ (if ((entry.predecessorIndex == 0) && !((entry.predecessorIndex == 0) && ci.contains entry.node)) = true
            then entry.node :: ci else ci), x ∈ (nodesOf (entry :: below)).reverse := by
        intro x hx
        rw [← hcl1]
        by_cases hs : (entry.predecessorIndex == 0) = true
        · simp only [hs, Bool.true_and, if_true] at hx ⊢
          split at hx
          · rcases List.mem_cons.1 hx with e | e
            · subst e; simp
            · exact List.mem_append_left _ (inv.items x e)
          · exact List.mem_append_left _ (inv.items x hx)
        · simp only [hs, Bool.false_and, Bool.false_eq_true, if_false] at hx ⊢
          exact inv.items x hx
      simp only [hcl1] at h
      split at h
      · -- descend into a child
        rename_i child hc
        have hchild : child ∈ pred.get entry.node := List.mem_of_getElem? hc
        refine cycleSearchOpt_lasso hR key fuel _ _ _ l ?_ h
        refine ⟨?_, ?_, ?_, hitems1, ?_⟩
        · have := inv.chain
          cases below with
          | nil => simp only [nodesOf, List.map_cons, List.map_nil, RChain]; exact ⟨hR _ _ hchild, trivial⟩
          | cons b bs =>
            simp only [nodesOf, List.map_cons, RChain] at this ⊢
            exact ⟨hR _ _ hchild, this⟩
        · intro e' he'
          simp only [List.tail_cons, List.mem_cons] at he'
          rcases he' with e | e
          · subst e; simp
          · exact hbelow e' e
        · simp [pathOf, nodesOf]
        · intro _
          simp only [nodesOf, List.map_cons] at hroot ⊢
          rw [List.getLast?_cons_cons]; exact hroot
      · -- done with this node
        refine cycleSearchOpt_lasso hR key fuel _ _ _ l ?_ h
        refine ⟨?_, ?_, ?_, ?_, ?_⟩
        · have := inv.chain
          cases below with
          | nil => simp [nodesOf, RChain]
          | cons b bs =>
            simp only [nodesOf, List.map_cons, RChain] at this ⊢
            exact this.2
        · intro e' he'
          exact hbelow e' (List.mem_of_mem_tail he')
        · rw [hpb]; simp [nodesOf]
        · intro x hx
          simp only [List.mem_filter, bne_iff_ne, ne_eq] at hx
          have := hitems1 x hx.1
          simp only [nodesOf, List.map_cons, List.reverse_cons, List.mem_append, List.mem_singleton] at this
          rcases this with e | e
          · simpa [nodesOf] using e
          · exact absurd e hx.2
        · intro hne
          cases below with
          | nil => exact absurd rfl hne
          | cons b bs =>
            simp only [nodesOf, List.map_cons] at hroot ⊢
            rw [List.getLast?_cons_cons] at hroot; exact hroot


/-- a search started at an unvisited node of a set in which every node has a predecessor (in the set) never
backtracks: it descends until it meets a node again, so it does not return the empty list -/
theorem cycleSearchOpt_nonempty {pred : Graph} {S : Key → Prop}
    (hS : ∀ x, S x → pred.get x ≠ [] ∧ ∀ y ∈ pred.get x, S y) :
    ∀ (fuel : Nat) (entry : WorkItem) (below : List WorkItem) (cl ci l : List Key),
      entry.predecessorIndex = 0 → S entry.node →
      cycleSearchOpt pred fuel (entry :: below) cl ci = some l → l ≠ []
  | 0, _, _, _, _, _, _, _, h => by simp [cycleSearchOpt] at h
  | fuel + 1, entry, below, cl, ci, l, h0, hs, h => by
    rw [cycleSearchOpt] at h
    simp only [h0, beq_self_eq_true, Bool.true_and, if_true] at h
    split at h
    · have : l = cl ++ [entry.node] := by simpa using h.symm
      rw [this]; simp
    · obtain ⟨hne, hcl⟩ := hS _ hs
      cases hp : pred.get entry.node with
      | nil => exact absurd hp hne
      | cons child rest =>
        rw [hp] at h
        simp only [List.getElem?_cons_zero] at h
        refine cycleSearchOpt_nonempty hS fuel _ _ _ _ l rfl (hcl child ?_) h
        rw [hp]; exact List.mem_cons_self

/-! ## 4. the engine state when the work loop has nothing left to do -/

/-- the hypotheses of `Todo_findCycle` on the engine state -/
structure Stuck (rules : List RuleSpec) (s : State) (ms : MSt) : Prop where
  rel : Rel rules s ms {}
  pend : ms.pend = none
  noMid : NoMid s
  q1 : s.ruleInfosToScan = []
  q2 : s.inputRequests = []
  q3 : s.finishedInputRequests = []
  q4 : s.readyTaskInfos = []
  q5 : s.finishedTaskInfos = []
  num : s.numOutstandingUnfinishedTasks = 0

/-- a rule that is waiting for something: the nodes of the wait-for graph -/
def Blocked (m : Engine.St) (k : Key) : Prop := m.status k = .running ∨ m.status k = .scanning

/-- the edge `a → b` of the successor graph (`b` is in the list of `a`): `b` waits for `a`, and `a` is itself blocked -/
def Edge (m : Engine.St) (a b : Key) : Prop := waitsFor m b a = true ∧ Blocked m a

variable {rules : List RuleSpec} {s : State} {ms : MSt}

theorem status_eq (hst : Stuck rules s ms) (k : Key) : ms.m.status k = statusOf s none k := by
  rw [hst.rel.status k, hst.pend]

theorem status_scanning_of (hst : Stuck rules s ms) {k : Key} {ri : RuleInfo} (hl : s.ruleInfos.lookup k = some ri)
    (h : ri.state = .isScanning) : ms.m.status k = .scanning := by
  rw [status_eq hst]; simp [statusOf, hl, h]

theorem lookup_of_rule_state {k : Key} {st : StateKind} (h : (s.rule k).state = st) (hne : st ≠ .incomplete) :
    ∃ ri, s.ruleInfos.lookup k = some ri ∧ ri.state = st := by
  cases hl : s.ruleInfos.lookup k with
  | none =>
    simp only [State.rule, hl, Option.getD_none] at h
    exact absurd h.symm hne
  | some ri => exact ⟨ri, rfl, by rw [← rule_of_lookup hl]; exact h⟩

theorem status_running_of (hst : Stuck rules s ms) {k : Key} (h : (s.rule k).state = .inProgressWaiting) :
    ms.m.status k = .running := by
  obtain ⟨ri, hl, hs⟩ := lookup_of_rule_state h (by simp)
  rw [status_eq hst]; simp [statusOf, hl, hs]

theorem state_of_scanning (hst : Stuck rules s ms) {k : Key} (h : ms.m.status k = .scanning) :
    ∃ ri, s.ruleInfos.lookup k = some ri ∧ ri.state = .isScanning := by
  rw [status_eq hst] at h
  unfold statusOf at h
  cases hl : s.ruleInfos.lookup k with
  | none => simp [hl] at h
  | some ri =>
    refine ⟨ri, rfl, ?_⟩
    have hnm := hst.noMid k ri hl
    simp only [hl] at h
    cases hs : ri.state <;> simp [hs] at h hnm ⊢
    split at h <;> cases h

theorem state_of_running (hst : Stuck rules s ms) {k : Key} (h : ms.m.status k = .running) :
    ∃ ri, s.ruleInfos.lookup k = some ri ∧ ri.state = .inProgressWaiting := by
  rw [status_eq hst] at h
  unfold statusOf at h
  cases hl : s.ruleInfos.lookup k with
  | none => simp [hl] at h
  | some ri =>
    refine ⟨ri, rfl, ?_⟩
    simp only [hl] at h
    cases hs : ri.state <;> simp [hs] at h ⊢
    split at h <;> cases h

/-- nothing is computing: every computing task is counted in `numOutstandingUnfinishedTasks` -/
theorem no_computing (hst : Stuck rules s ms) (k : Key) : ms.m.status k ≠ .computing := by
  intro h
  have htk := hst.rel.taskKeys k
  rw [hst.pend, ← status_eq hst, h] at htk
  simp only [beq_self_eq_true, Bool.or_true] at htk
  cases ht : s.taskInfos.lookup k with
  | none => simp [ht] at htk
  | some t =>
    have hcomp : (s.rule k).state = .inProgressComputing := by
      rw [status_eq hst] at h
      unfold statusOf at h
      cases hl : s.ruleInfos.lookup k with
      | none => simp [hl] at h
      | some ri =>
        rw [rule_of_lookup hl]
        simp only [hl] at h
        cases hs : ri.state <;> simp [hs] at h ⊢
        split at h <;> cases h
    have hw := hst.rel.computingWhere k t ht hcomp
    have hc := hst.rel.outstandingCount
    rw [hst.num, hst.pend, hst.q5] at hc
    have hpd : s.pendingDeferred = [] := by
      cases hp : s.pendingDeferred with
      | nil => rfl
      | cons a l => rw [hp] at hc; simp at hc
    cases hd : t.done with
    | false => have := hw.1 hd; rw [hpd] at this; cases this
    | true => have := hw.2 hd; rw [hst.q5] at this; cases this

/-- a rule with a task is running -/
theorem task_running (hst : Stuck rules s ms) {k : Key} (h : (s.taskInfos.lookup k).isSome = true) :
    ms.m.status k = .running := by
  have htk := hst.rel.taskKeys k
  rw [hst.pend, ← status_eq hst, h] at htk
  have hnc := no_computing hst k
  cases hs : ms.m.status k <;> simp [hs] at htk hnc ⊢

theorem not_done_of_blocked {m : Engine.St} {k : Key} (h : Blocked m k) : isDone m k = false := by
  unfold isDone
  rcases h with h | h <;> simp [h]

/-! ## 5. A: every edge of the successor graph is a wait of the monitor -/

/-- must-follow requests are never "delivered" (the monitor's `provide` only delivers value requests; this is an
invariant of `Engine.step` that `TaskOk` does not record) -/
def NoMFDelivered (m : Engine.St) : Prop := ∀ a q, delivered (m.task a).seq q = true → q.kind ≠ 2

/-- an outstanding input request of task `b` for a key that is not done: `b` waits for that key -/
theorem edge_of_request (hst : Stuck rules s ms) (hmf : NoMFDelivered ms.m) {r : TaskInputRequest}
    (hr : r ∈ outstanding s {}) {b : Key} (hb : r.taskInfo = some b) (hnd : isDone ms.m r.inputRuleInfo = false) :
    (s.task b).forRuleInfo = b ∧ waitsFor ms.m b r.inputRuleInfo = true := by
  obtain ⟨hts, hw⟩ := hst.rel.reqTask r hr b hb
  cases ht : s.taskInfos.lookup b with
  | none => simp [ht] at hts
  | some t =>
    have tok := hst.rel.taskOk b t ht
    rw [task_of_lookup ht]
    refine ⟨tok.forRule, ?_⟩
    have hmem : r ∈ ofTask b (outstanding s {}) := by
      simp only [ofTask, List.mem_filter, hr, hb, beq_self_eq_true, and_self]
    obtain ⟨q, hq, hrq, hund⟩ := tok.outIssued r hmem
    have hkey : r.inputRuleInfo = q.key := by rw [hrq]; rfl
    have hiss : (ms.m.task b).issued = t.issuedReqs := by
      rw [tok.issued]; simp [Hand.toIssue]
    have hdel : delivered (ms.m.task b).seq q = false := by
      cases hd : delivered (ms.m.task b).seq q with
      | false => rfl
      | true =>
        have h2 := hmf b q hd
        rw [hund h2] at hd; cases hd
    unfold waitsFor
    rw [status_running_of hst hw]
    simp only [List.any_eq_true]
    refine ⟨q, by rw [hiss]; exact hq, ?_⟩
    rw [hkey] at hnd ⊢
    simp [hdel, hnd]

theorem firstNotDone_of (m : Engine.St) : ∀ (l : List Dep) (i : Nat) (d : Dep),
    (∀ d' ∈ l.take i, isDone m d'.key = true) → l[i]? = some d → isDone m d.key = false →
    firstNotDone m l = some d.key
  | [], i, d, _, h, _ => by simp at h
  | d0 :: ds, 0, d, _, h, hd => by
    simp at h; subst h
    simp [firstNotDone, hd]
  | d0 :: ds, i + 1, d, hp, h, hd => by
    have h0 : isDone m d0.key = true := hp d0 (by simp)
    simp only [firstNotDone, h0, if_true]
    refine firstNotDone_of m ds i d ?_ (by simpa using h) hd
    intro d' hd'
    exact hp d' (by simp [hd'])

/-- a live scan request whose cached input is not done: the scanning rule waits for that input -/
theorem edge_of_scanReq (hst : Stuck rules s ms) {r : RuleScanRequest} (hr : r ∈ scanReqs s {}) {a : Key}
    (ha : r.inputRuleInfo = some a) (hnd : isDone ms.m a = false) : waitsFor ms.m r.ruleInfo a = true := by
  have ok := hst.rel.scanOk r hr
  obtain ⟨ri, hl, hs⟩ := lookup_of_rule_state ok.scanning (by simp)
  have hrule := rule_of_lookup hl
  have hdeps : (ms.m.mem.res r.ruleInfo).deps = ri.result.deps := by
    have hres := hst.rel.res r.ruleInfo ri hl
    have hso := hst.rel.scanningOk r.ruleInfo ri hl (Or.inl hs)
    refine hres.2.2.2.2 ?_ ?_ hso.2.1
    · rw [hst.pend]; rfl
    · simp [StateKind.inProgress, hs]
  obtain ⟨_, d, hd, hdk, _⟩ := ok.cached a ha
  rw [hrule] at hd
  unfold waitsFor
  rw [status_scanning_of hst hl hs]
  simp only [beq_iff_eq]
  rw [← hdk]
  refine firstNotDone_of ms.m _ r.inputIndex d ?_ (by rw [hdeps]; exact hd) (by rw [hdk]; exact hnd)
  intro d' hd'
  have := ok.prefixFresh d' hd'
  simp only [depFresh, Bool.and_eq_true] at this
  exact this.1

/-- the successors `findCycle` records for a task -/
def taskSuccs (s : State) (t : TaskInfo) : List Key :=
  t.requestedBy.map (fun request => (s.task (request.taskInfo.getD 0)).forRuleInfo)
    ++ t.deferredScanRequests.map (fun request => request.ruleInfo)

def taskGraphStep (s : State) (g : Graph) (p : Key × TaskInfo) : Graph :=
  if (g.lookup p.2.forRuleInfo).isSome then g else g ++ [(p.2.forRuleInfo, taskSuccs s p.2)]

/-- the first part of the successor graph: the tasks -/
def taskGraph (s : State) : Graph := s.taskInfos.foldl (taskGraphStep s) []

theorem task_mem_lookup (hst : Stuck rules s ms) {p : Key × TaskInfo} (hp : p ∈ s.taskInfos) :
    s.taskInfos.lookup p.1 = some p.2 ∧ p.2.forRuleInfo = p.1 := by
  have hl : s.taskInfos.lookup p.1 = some p.2 := lookup_of_mem_nodup _ _ _ hst.rel.taskNodup (by cases p; exact hp)
  exact ⟨hl, (hst.rel.taskOk p.1 p.2 hl).forRule⟩

/-- A(1,2): the edges out of a task -/
theorem taskSuccs_edge (hst : Stuck rules s ms) (hmf : NoMFDelivered ms.m) {p : Key × TaskInfo} (hp : p ∈ s.taskInfos) :
    ∀ b ∈ taskSuccs s p.2, Edge ms.m p.2.forRuleInfo b := by
  obtain ⟨hl, hfor⟩ := task_mem_lookup hst hp
  have hrun : ms.m.status p.1 = .running := task_running hst (by rw [hl]; rfl)
  have hbl : Blocked ms.m p.1 := Or.inl hrun
  have hnd := not_done_of_blocked hbl
  intro b hb
  rw [hfor]
  refine ⟨?_, hbl⟩
  simp only [taskSuccs, List.mem_append, List.mem_map] at hb
  rcases hb with ⟨r, hr, rfl⟩ | ⟨r, hr, rfl⟩
  · have hproc : r ∈ processed s {} := by
      simp only [processed, List.mem_append, requestedByAll, List.mem_flatMap]
      exact Or.inl (Or.inr ⟨p, hp, hr⟩)
    have hout : r ∈ outstanding s {} := List.mem_append_right _ hproc
    have hat := hst.rel.requestedAt p hp r hr
    cases hti : r.taskInfo with
    | none => exact absurd hti (hst.rel.dummyUnproc r hproc)
    | some b' =>
      obtain ⟨h1, h2⟩ := edge_of_request hst hmf hout hti (by rw [hat]; exact hnd)
      simp only [Option.getD_some, h1]
      rw [← hat]; exact h2
  · have hsr : r ∈ scanReqs s {} := by
      simp only [scanReqs, deferredAll, List.mem_append, List.mem_flatMap]
      exact Or.inr (Or.inr ⟨p, hp, hr⟩)
    exact edge_of_scanReq hst hsr (hst.rel.deferredAtTask p hp r hr) hnd

theorem graphAll_append {R : Key → Key → Prop} {g : Graph} (h : GraphAll R g) {e : Key × List Key}
    (he : ∀ x ∈ e.2, R e.1 x) : GraphAll R (g ++ [e]) := by
  intro e' he' x hx
  rcases List.mem_append.1 he' with h1 | h1
  · exact h e' h1 x hx
  · simp at h1; subst h1; exact he x hx

theorem taskGraph_fold_all (hst : Stuck rules s ms) (hmf : NoMFDelivered ms.m) : ∀ (l : List (Key × TaskInfo)) (g : Graph),
    (∀ p ∈ l, p ∈ s.taskInfos) → GraphAll (Edge ms.m) g → GraphAll (Edge ms.m) (l.foldl (taskGraphStep s) g)
  | [], g, _, h => h
  | p :: rest, g, hl, h => by
    simp only [List.foldl_cons]
    refine taskGraph_fold_all hst hmf rest _ (fun p' hp' => hl p' (List.mem_cons_of_mem _ hp')) ?_
    unfold taskGraphStep
    split
    · exact h
    · exact graphAll_append h (taskSuccs_edge hst hmf (hl p List.mem_cons_self))

theorem taskGraph_all (hst : Stuck rules s ms) (hmf : NoMFDelivered ms.m) : GraphAll (Edge ms.m) (taskGraph s) :=
  taskGraph_fold_all hst hmf _ _ (fun _ h => h) (GraphAll.nil _)

/-! ### the scan records -/

def pausedFold (s : State) (g : Graph) (l : List TaskInputRequest) : Graph :=
  l.foldl (fun g request =>
    match request.taskInfo with
    | some t => g.push request.inputRuleInfo (s.task t).forRuleInfo
    | none => g) g

def deferredFold (owner : Key) (g : Graph) (l : List RuleScanRequest) : Graph :=
  l.foldl (fun g request => g.push (request.inputRuleInfo.getD owner) request.ruleInfo) g

def activeFold (s : State) (a : List Key) (l : List RuleScanRequest) : List Key :=
  l.foldl (fun a request => if (s.rule request.ruleInfo).isScanning then a ++ [request.ruleInfo] else a) a

theorem gather_succ (s : State) (fuel : Nat) (active visited : List Key) (g : Graph) :
    gatherScanRecords s (fuel + 1) active visited g =
      match active.getLast? with
      | none => some g
      | some owner =>
        if visited.contains owner then gatherScanRecords s fuel active.dropLast visited g else
        match (s.rule owner).getPendingScanRecord with
        | none => none
        | some record =>
          gatherScanRecords s fuel (activeFold s active.dropLast record.deferredScanRequests) (owner :: visited)
            (deferredFold owner (pausedFold s g record.pausedInputRequests) record.deferredScanRequests) := by
  rw [gatherScanRecords]
  rfl

theorem pausedFold_all {R : Key → Key → Prop} (s : State) : ∀ (l : List TaskInputRequest) (g : Graph),
    GraphAll R g → (∀ r ∈ l, ∀ t, r.taskInfo = some t → R r.inputRuleInfo (s.task t).forRuleInfo) →
    GraphAll R (pausedFold s g l)
  | [], g, h, _ => h
  | r :: rest, g, h, hl => by
    simp only [pausedFold, List.foldl_cons]
    refine pausedFold_all s rest _ ?_ (fun r' hr' => hl r' (List.mem_cons_of_mem _ hr'))
    cases ht : r.taskInfo with
    | none => exact h
    | some t => exact h.push (hl r List.mem_cons_self t ht)

theorem deferredFold_all {R : Key → Key → Prop} (owner : Key) : ∀ (l : List RuleScanRequest) (g : Graph),
    GraphAll R g → (∀ r ∈ l, R (r.inputRuleInfo.getD owner) r.ruleInfo) → GraphAll R (deferredFold owner g l)
  | [], g, h, _ => h
  | r :: rest, g, h, hl => by
    simp only [deferredFold, List.foldl_cons]
    exact deferredFold_all owner rest _ (h.push (hl r List.mem_cons_self)) (fun r' hr' => hl r' (List.mem_cons_of_mem _ hr'))

theorem activeFold_mem (s : State) : ∀ (l : List RuleScanRequest) (a : List Key) (k : Key),
    k ∈ activeFold s a l → k ∈ a ∨ (s.rule k).isScanning = true
  | [], a, k, h => Or.inl h
  | r :: rest, a, k, h => by
    simp only [activeFold, List.foldl_cons] at h
    rcases activeFold_mem s rest _ k h with h1 | h1
    · split at h1
      · rename_i hsc
        rcases List.mem_append.1 h1 with h2 | h2
        · exact Or.inl h2
        · simp at h2; subst h2; exact Or.inr hsc
      · exact Or.inl h1
    · exact Or.inr h1

theorem activeFold_sub (s : State) : ∀ (l : List RuleScanRequest) (a : List Key) (k : Key),
    k ∈ a → k ∈ activeFold s a l
  | [], _, _, h => h
  | r :: rest, a, k, h => by
    simp only [activeFold, List.foldl_cons]
    refine activeFold_sub s rest _ k ?_
    split
    · exact List.mem_append_left _ h
    · exact h

/-- a scanning rule with a live record is in `liveRecords` -/
theorem live_of_rule {k : Key} {rec : RuleScanRecord} (h1 : (s.rule k).isScanning = true)
    (h2 : (s.rule k).getPendingScanRecord = some rec) : (k, rec) ∈ liveRecords s := by
  have h1' : (s.rule k).state = .isScanning := by simpa [RuleInfo.isScanning] using h1
  obtain ⟨ri, hl, _⟩ := lookup_of_rule_state h1' (by simp)
  rw [rule_of_lookup hl] at h1 h2
  unfold liveRecords
  rw [List.mem_filterMap]
  exact ⟨(k, ri), lookup_mem _ _ _ hl, by simp [h1, h2]⟩

/-- A(3): the edges out of a live scan record -/
theorem record_edges (hst : Stuck rules s ms) (hmf : NoMFDelivered ms.m) {p : Key × RuleScanRecord} (hp : p ∈ liveRecords s) :
    (∀ r ∈ p.2.pausedInputRequests, ∀ t, r.taskInfo = some t → Edge ms.m r.inputRuleInfo (s.task t).forRuleInfo) ∧
    (∀ r ∈ p.2.deferredScanRequests, Edge ms.m (r.inputRuleInfo.getD p.1) r.ruleInfo) := by
  have hsc : ms.m.status p.1 = .scanning := by
    have hp' := hp
    unfold liveRecords at hp'
    rw [List.mem_filterMap] at hp'
    obtain ⟨q, hq, he⟩ := hp'
    split at he
    · rename_i hs
      cases hg : q.2.getPendingScanRecord with
      | none => simp [hg] at he
      | some rec =>
        simp only [hg, Option.map_some, Option.some.injEq] at he
        have hk : p.1 = q.1 := by rw [← he]
        rw [hk]
        exact status_scanning_of hst (lookup_of_mem_nodup _ q.1 q.2 hst.rel.rulesNodup (by cases q; exact hq))
          (by simpa [RuleInfo.isScanning] using hs)
    · cases he
  have hbl : Blocked ms.m p.1 := Or.inr hsc
  have hnd := not_done_of_blocked hbl
  constructor
  · intro r hr t ht
    have hun : r ∈ unprocessed s {} := by
      simp only [unprocessed, pausedAll, List.mem_append, List.mem_flatMap]
      exact Or.inr ⟨p, hp, hr⟩
    have hout : r ∈ outstanding s {} := List.mem_append_left _ hun
    have hat := hst.rel.pausedAt p hp r hr
    obtain ⟨h1, h2⟩ := edge_of_request hst hmf hout ht (by rw [hat]; exact hnd)
    rw [h1]
    exact ⟨h2, by rw [hat]; exact hbl⟩
  · intro r hr
    have hsr : r ∈ scanReqs s {} := by
      simp only [scanReqs, deferredAll, List.mem_append, List.mem_flatMap]
      exact Or.inr (Or.inl ⟨p, hp, hr⟩)
    have hat := hst.rel.deferredAtRecord p hp r hr
    rw [hat]
    exact ⟨edge_of_scanReq hst hsr hat hnd, hbl⟩

/-- **A (soundness of the successor graph)**: `gatherScanRecords` only adds waits of the monitor -/
theorem gather_all (hst : Stuck rules s ms) (hmf : NoMFDelivered ms.m) : ∀ (fuel : Nat) (active visited : List Key) (g g' : Graph),
    GraphAll (Edge ms.m) g → (∀ k ∈ active, (s.rule k).isScanning = true) →
    gatherScanRecords s fuel active visited g = some g' → GraphAll (Edge ms.m) g'
  | 0, _, _, _, _, _, _, h => by simp [gatherScanRecords] at h
  | fuel + 1, active, visited, g, g', hg, ha, h => by
    rw [gather_succ] at h
    split at h
    · simp at h; subst h; exact hg
    · rename_i owner ho
      have hda : ∀ k ∈ active.dropLast, (s.rule k).isScanning = true :=
        fun k hk => ha k (List.dropLast_subset _ hk)
      split at h
      · exact gather_all hst hmf fuel _ _ _ _ hg hda h
      · split at h
        · cases h
        · rename_i record hrec
          have hown := ha owner (List.mem_of_getLast? ho)
          have hlive := live_of_rule hown hrec
          obtain ⟨e1, e2⟩ := record_edges hst hmf hlive
          refine gather_all hst hmf fuel _ _ _ _ ?_ ?_ h
          · exact deferredFold_all owner _ _ (pausedFold_all s _ _ hg e1) e2
          · intro k hk
            rcases activeFold_mem s _ _ k hk with h1 | h1
            · exact hda k h1
            · exact h1

/-! ## 6. the predecessor graph: soundness -/

/-- the scanning rules `findCycle` starts the walk over the scan records with -/
def active0 (s : State) : List Key := (s.ruleInfos.filter (fun p => p.2.isScanning)).map (fun p => p.1)

theorem predGraph_eq (s : State) :
    predGraph s = (gatherScanRecords s loopFuel (active0 s) [] (taskGraph s)).map (fun g =>
      (invertGraph g).map (fun entry => (entry.1, sortBy keyLt entry.2))) := rfl

theorem active0_scanning (hst : Stuck rules s ms) : ∀ k ∈ active0 s, (s.rule k).isScanning = true := by
  intro k hk
  simp only [active0, List.mem_map, List.mem_filter] at hk
  obtain ⟨p, ⟨hp, hs⟩, rfl⟩ := hk
  have hl : s.ruleInfos.lookup p.1 = some p.2 :=
    lookup_of_mem_nodup _ p.1 p.2 hst.rel.rulesNodup (by cases p; exact hp)
  rw [rule_of_lookup hl]; exact hs

/-- **A + B**: every edge `x → y` of the graph that `findCycle` searches is a wait `x waits for y` of the monitor,
and `y` is itself blocked -/
theorem predGraph_sound (hst : Stuck rules s ms) (hmf : NoMFDelivered ms.m) {pred : Graph} (hp : predGraph s = some pred)
    {x y : Key} (h : y ∈ pred.get x) : waitsFor ms.m x y = true ∧ Blocked ms.m y := by
  rw [predGraph_eq] at hp
  cases hg : gatherScanRecords s loopFuel (active0 s) [] (taskGraph s) with
  | none => rw [hg] at hp; cases hp
  | some g =>
    rw [hg] at hp
    simp only [Option.map_some, Option.some.injEq] at hp
    subst hp
    rw [mem_get_sorted] at h
    have hall := gather_all hst hmf loopFuel _ _ _ g (taskGraph_all hst hmf) (active0_scanning hst) hg
    exact (invertGraph_all hall).get h

theorem lassoOk_of_isLasso {m : Engine.St} {key : Key} {l : List Key}
    (h : IsLasso (fun x y => waitsFor m x y = true) key l) : lassoOk m key l = true := by
  obtain ⟨hh, hc, last, hl, hm⟩ := h
  cases l with
  | nil => simp at hh
  | cons a rest =>
    simp only [List.head?_cons, Option.some.injEq] at hh
    subst hh
    simp only [lassoOk, beq_self_eq_true, Bool.true_and, Bool.and_eq_true, List.all_eq_true]
    refine ⟨fun ab hab => chain_zip _ hc ab hab, ?_⟩
    rw [hl]
    simpa using hm

theorem searchInv_init (R : Key → Key → Prop) (key : Key) : SearchInv R key [{ node := key }] [] [] where
  chain := by simp [nodesOf, RChain]
  started := by simp
  path := by simp [pathOf, nodesOf]
  items := by simp
  root := by simp [nodesOf]

theorem findCycle_unfold {key : Key} {ks : List Key} (hfc : findCycle key s = some ks) (_hsearch : CycleSearchOk key s) :
    ∃ pred, predGraph s = some pred ∧ cycleSearchOpt pred loopFuel [{ node := key }] [] [] = some ks :=
  findCycle_some hfc

/-- **D (the non-empty case)**: what `findCycle` reports is the empty list or a lasso the monitor accepts -/
theorem findCycle_lasso (hst : Stuck rules s ms) (hmf : NoMFDelivered ms.m) {key : Key} {ks : List Key}
    (hfc : findCycle key s = some ks) (hsearch : CycleSearchOk key s) :
    ks = [] ∨ lassoOk ms.m key ks = true := by
  obtain ⟨pred, hp, ho⟩ := findCycle_unfold hfc hsearch
  rcases cycleSearchOpt_lasso (R := fun x y => waitsFor ms.m x y = true)
      (fun x y h => (predGraph_sound hst hmf hp h).1) key loopFuel _ _ _ ks (searchInv_init _ key) ho with h | h
  · exact Or.inl h
  · exact Or.inr (lassoOk_of_isLasso h)

/-! ## 7. the predecessor graph: completeness (every parked request is an edge) -/

theorem lookup_append_of_some {α : Type} {g : List (Key × α)} {k : Key} {v : α} (h : g.lookup k = some v)
    (g2 : List (Key × α)) : (g ++ g2).lookup k = some v := by
  rw [List.lookup_append, h]; rfl

theorem lookup_append_of_none {α : Type} {g : List (Key × α)} {k : Key} (h : g.lookup k = none)
    (g2 : List (Key × α)) : (g ++ g2).lookup k = g2.lookup k := by
  rw [List.lookup_append, h]; rfl

theorem graphLe_append (g g2 : Graph) : GraphLe g (g ++ g2) := by
  intro k x hx
  unfold Graph.get at hx ⊢
  cases hl : g.lookup k with
  | none => rw [hl] at hx; simp at hx
  | some v => rw [lookup_append_of_some hl]; rw [hl] at hx; exact hx

theorem taskGraphStep_le (s : State) (g : Graph) (p : Key × TaskInfo) : GraphLe g (taskGraphStep s g p) := by
  unfold taskGraphStep
  split
  · exact GraphLe.refl g
  · exact graphLe_append g _

theorem taskGraph_fold_le (s : State) : ∀ (l : List (Key × TaskInfo)) (g : Graph), GraphLe g (l.foldl (taskGraphStep s) g)
  | [], g => GraphLe.refl g
  | p :: rest, g => by
    simp only [List.foldl_cons]
    exact (taskGraphStep_le s g p).trans (taskGraph_fold_le s rest _)

theorem taskGraph_fold_mem (s : State) : ∀ (l : List (Key × TaskInfo)) (g : Graph),
    (l.map (fun p => p.2.forRuleInfo)).Nodup → (∀ p ∈ l, g.lookup p.2.forRuleInfo = none) →
    ∀ p ∈ l, ∀ b ∈ taskSuccs s p.2, b ∈ (l.foldl (taskGraphStep s) g).get p.2.forRuleInfo
  | [], _, _, _, p, hp => by cases hp
  | p0 :: rest, g, hn, hg, p, hp => by
    intro b hb
    simp only [List.foldl_cons]
    simp only [List.map_cons, List.nodup_cons] at hn
    have h0 : g.lookup p0.2.forRuleInfo = none := hg p0 List.mem_cons_self
    have hstep : taskGraphStep s g p0 = g ++ [(p0.2.forRuleInfo, taskSuccs s p0.2)] := by
      simp [taskGraphStep, h0]
    rcases List.mem_cons.1 hp with e | e
    · subst e
      refine taskGraph_fold_le s rest _ _ _ ?_
      rw [hstep]
      unfold Graph.get
      rw [lookup_append_of_none h0]
      simpa [List.lookup] using hb
    · refine taskGraph_fold_mem s rest _ hn.2 ?_ p e b hb
      intro p' hp'
      rw [hstep, lookup_append_of_none (hg p' (List.mem_cons_of_mem _ hp'))]
      have hne : p'.2.forRuleInfo ≠ p0.2.forRuleInfo := by
        intro e'
        exact hn.1 (by rw [← e']; exact List.mem_map.2 ⟨p', hp', rfl⟩)
      have hne' : (p'.2.forRuleInfo == p0.2.forRuleInfo) = false := by simpa using hne
      simp [List.lookup, hne']

/-- every successor of a task is in the task part of the successor graph -/
theorem taskGraph_mem (hst : Stuck rules s ms) {p : Key × TaskInfo} (hp : p ∈ s.taskInfos) :
    ∀ b ∈ taskSuccs s p.2, b ∈ (taskGraph s).get p.2.forRuleInfo := by
  refine taskGraph_fold_mem s s.taskInfos [] ?_ (fun _ _ => rfl) p hp
  have : s.taskInfos.map (fun p => p.2.forRuleInfo) = s.taskInfos.map (fun p => p.1) :=
    List.map_congr_left (fun p hp => (task_mem_lookup hst hp).2)
  rw [this]; exact hst.rel.taskNodup

/-- the edges of the scan record `rec` of `k` are in `g` -/
def RecEdges (s : State) (k : Key) (rec : RuleScanRecord) (g : Graph) : Prop :=
  (∀ r ∈ rec.pausedInputRequests, ∀ t, r.taskInfo = some t → (s.task t).forRuleInfo ∈ g.get r.inputRuleInfo) ∧
  (∀ r ∈ rec.deferredScanRequests, r.ruleInfo ∈ g.get (r.inputRuleInfo.getD k))

theorem RecEdges.mono {k : Key} {rec : RuleScanRecord} {g g' : Graph} (h : RecEdges s k rec g) (hle : GraphLe g g') :
    RecEdges s k rec g' :=
  ⟨fun r hr t ht => hle _ _ (h.1 r hr t ht), fun r hr => hle _ _ (h.2 r hr)⟩

theorem pausedFold_le (s : State) : ∀ (l : List TaskInputRequest) (g : Graph), GraphLe g (pausedFold s g l)
  | [], g => GraphLe.refl g
  | r :: rest, g => by
    simp only [pausedFold, List.foldl_cons]
    refine GraphLe.trans ?_ (pausedFold_le s rest _)
    cases r.taskInfo with
    | none => exact GraphLe.refl g
    | some t => exact graphLe_push g _ _

theorem pausedFold_mem (s : State) : ∀ (l : List TaskInputRequest) (g : Graph), ∀ r ∈ l, ∀ t, r.taskInfo = some t →
    (s.task t).forRuleInfo ∈ (pausedFold s g l).get r.inputRuleInfo
  | [], _, r, hr => by cases hr
  | r0 :: rest, g, r, hr => by
    intro t ht
    simp only [pausedFold, List.foldl_cons]
    rcases List.mem_cons.1 hr with e | e
    · subst e
      refine pausedFold_le s rest _ _ _ ?_
      simp only [ht]
      exact mem_get_push g _ _
    · exact pausedFold_mem s rest _ r e t ht

theorem deferredFold_le (owner : Key) : ∀ (l : List RuleScanRequest) (g : Graph), GraphLe g (deferredFold owner g l)
  | [], g => GraphLe.refl g
  | r :: rest, g => by
    simp only [deferredFold, List.foldl_cons]
    exact (graphLe_push g _ _).trans (deferredFold_le owner rest _)

theorem deferredFold_mem (owner : Key) : ∀ (l : List RuleScanRequest) (g : Graph), ∀ r ∈ l,
    r.ruleInfo ∈ (deferredFold owner g l).get (r.inputRuleInfo.getD owner)
  | [], _, r, hr => by cases hr
  | r0 :: rest, g, r, hr => by
    simp only [deferredFold, List.foldl_cons]
    rcases List.mem_cons.1 hr with e | e
    · subst e
      exact deferredFold_le owner rest _ _ _ (mem_get_push g _ _)
    · exact deferredFold_mem owner rest _ r e

/-- the walk over the scan records keeps every edge and adds those of every record it is asked to visit -/
theorem gather_complete (s : State) : ∀ (fuel : Nat) (active visited : List Key) (g g' : Graph),
    gatherScanRecords s fuel active visited g = some g' →
    GraphLe g g' ∧ ∀ k ∈ active, k ∉ visited → ∀ rec, (s.rule k).getPendingScanRecord = some rec → RecEdges s k rec g'
  | 0, _, _, _, _, h => by simp [gatherScanRecords] at h
  | fuel + 1, active, visited, g, g', h => by
    rw [gather_succ] at h
    split at h
    · rename_i hn
      simp at h; subst h
      rw [List.getLast?_eq_none_iff] at hn
      subst hn
      exact ⟨GraphLe.refl g, fun k hk => by cases hk⟩
    · rename_i owner ho
      obtain ⟨init, hinit⟩ := List.getLast?_eq_some_iff.1 ho
      have hdl : active.dropLast = init := by rw [hinit]; simp
      rw [hdl] at h
      split at h
      · rename_i hv
        obtain ⟨hle, hrec⟩ := gather_complete s fuel _ _ _ _ h
        refine ⟨hle, ?_⟩
        intro k hk hnv
        rw [hinit] at hk
        rcases List.mem_append.1 hk with h1 | h1
        · exact hrec k h1 hnv
        · simp at h1; subst h1
          exact absurd (by simpa using hv) hnv
      · split at h
        · cases h
        · rename_i record hrecord
          obtain ⟨hle, hrec⟩ := gather_complete s fuel _ _ _ _ h
          have hle1 : GraphLe g (deferredFold owner (pausedFold s g record.pausedInputRequests) record.deferredScanRequests) :=
            (pausedFold_le s _ g).trans (deferredFold_le owner _ _)
          refine ⟨hle1.trans hle, ?_⟩
          intro k hk hnv rec hkrec
          by_cases hko : k = owner
          · subst hko
            rw [hrecord] at hkrec
            simp only [Option.some.injEq] at hkrec
            subst hkrec
            refine RecEdges.mono ?_ hle
            exact ⟨fun r hr t ht => deferredFold_le k _ _ _ _ (pausedFold_mem s _ g r hr t ht),
              fun r hr => deferredFold_mem k _ _ r hr⟩
          · refine hrec k (activeFold_sub s _ _ k ?_) ?_ rec hkrec
            · rw [hinit] at hk
              rcases List.mem_append.1 hk with h1 | h1
              · exact h1
              · simp at h1; exact absurd h1 hko
            · simp only [List.mem_cons, not_or]
              exact ⟨hko, hnv⟩

/-- a live record belongs to a rule of the initial work list of `gatherScanRecords` -/
theorem live_active (hst : Stuck rules s ms) {p : Key × RuleScanRecord} (hp : p ∈ liveRecords s) :
    p.1 ∈ active0 s ∧ (s.rule p.1).getPendingScanRecord = some p.2 := by
  unfold liveRecords at hp
  rw [List.mem_filterMap] at hp
  obtain ⟨q, hq, he⟩ := hp
  split at he
  · rename_i hs
    cases hg : q.2.getPendingScanRecord with
    | none => simp [hg] at he
    | some rec =>
      simp only [hg, Option.map_some, Option.some.injEq] at he
      subst he
      have hl : s.ruleInfos.lookup q.1 = some q.2 :=
        lookup_of_mem_nodup _ q.1 q.2 hst.rel.rulesNodup (by cases q; exact hq)
      refine ⟨?_, by rw [rule_of_lookup hl]; exact hg⟩
      simp only [active0, List.mem_map, List.mem_filter]
      exact ⟨q, ⟨hq, hs⟩, rfl⟩
  · cases he

/-- **A + B (completeness)**: every request parked at a task or at a scan record is an edge of the graph searched -/
theorem predGraph_complete (hst : Stuck rules s ms) {pred : Graph} (hp : predGraph s = some pred) :
    (∀ p ∈ s.taskInfos, ∀ b ∈ taskSuccs s p.2, p.2.forRuleInfo ∈ pred.get b) ∧
    (∀ p ∈ liveRecords s,
      (∀ r ∈ p.2.pausedInputRequests, ∀ t, r.taskInfo = some t → r.inputRuleInfo ∈ pred.get (s.task t).forRuleInfo) ∧
      (∀ r ∈ p.2.deferredScanRequests, r.inputRuleInfo.getD p.1 ∈ pred.get r.ruleInfo)) := by
  rw [predGraph_eq] at hp
  cases hg : gatherScanRecords s loopFuel (active0 s) [] (taskGraph s) with
  | none => rw [hg] at hp; cases hp
  | some g =>
    rw [hg] at hp
    simp only [Option.map_some, Option.some.injEq] at hp
    subst hp
    obtain ⟨hle, hrec⟩ := gather_complete s loopFuel _ _ _ g hg
    constructor
    · intro p hpm b hb
      rw [mem_get_sorted]
      exact invertGraph_mem (hle _ _ (taskGraph_mem hst hpm b hb))
    · intro p hpm
      obtain ⟨hact, hpr⟩ := live_active hst hpm
      obtain ⟨e1, e2⟩ := hrec p.1 hact (by simp) p.2 hpr
      constructor
      · intro r hr t ht
        rw [mem_get_sorted]
        exact invertGraph_mem (e1 r hr t ht)
      · intro r hr
        rw [mem_get_sorted]
        exact invertGraph_mem (e2 r hr)

/-! ## 8. progress: a blocked rule has an edge -/

/-- a task that waits for nothing is queued as ready (`demandRule` / `decrementTaskWaitCount` push it the moment its
count is 0).  True of the engine at the top of the work loop, but NOT a clause of `Rel` (which only has the converse,
`readyOk`). -/
def ReadyWhenZero (s : State) : Prop :=
  ∀ a t, s.taskInfos.lookup a = some t → (s.rule a).state = .inProgressWaiting → t.waitCount = 0 → a ∈ s.readyTaskInfos

theorem no_needsRun (hst : Stuck rules s ms) (k : Key) : ms.m.status k ≠ .needsRun := by
  intro h
  rw [status_eq hst] at h
  unfold statusOf at h
  cases hl : s.ruleInfos.lookup k with
  | none => simp [hl] at h
  | some ri =>
    have hnm := hst.noMid k ri hl
    simp only [hl] at h
    cases hs : ri.state <;> simp [hs] at h hnm
    split at h <;> cases h

/-- **D (progress)**: when the work loop has nothing left to do, every running rule has an outstanding request parked
somewhere and every scanning rule has its scan request parked somewhere — an edge of the graph `findCycle` searches -/
theorem blocked_has_pred (hst : Stuck rules s ms) (hrz : ReadyWhenZero s) {pred : Graph} (hp : predGraph s = some pred)
    {x : Key} (hb : Blocked ms.m x) : pred.get x ≠ [] := by
  obtain ⟨c1, c2⟩ := predGraph_complete hst hp
  suffices h : ∃ y, y ∈ pred.get x by
    obtain ⟨y, hy⟩ := h
    exact List.ne_nil_of_mem hy
  rcases hb with hrun | hscan
  · obtain ⟨ri, hl, hs⟩ := state_of_running hst hrun
    have hw : (s.rule x).state = .inProgressWaiting := by rw [rule_of_lookup hl]; exact hs
    have htk := hst.rel.taskKeys x
    rw [hst.pend, ← status_eq hst, hrun] at htk
    simp only [beq_self_eq_true, Bool.true_or] at htk
    cases ht : s.taskInfos.lookup x with
    | none => simp [ht] at htk
    | some t =>
      have tok := hst.rel.taskOk x t ht
      have hwc : t.waitCount ≠ 0 := by
        intro h0
        have := hrz x t ht hw h0
        rw [hst.q4] at this; cases this
      have hcount := tok.waitCount
      have hdec : ofTask x ({} : Hand).dec = [] := rfl
      rw [hdec] at hcount
      have hpos : 0 < (ofTask x (outstanding s {})).length := by
        simp only [List.length_nil, Nat.add_zero] at hcount
        omega
      obtain ⟨r, hr⟩ := List.exists_mem_of_length_pos hpos
      simp only [ofTask, List.mem_filter, beq_iff_eq] at hr
      obtain ⟨hro, hrt⟩ := hr
      have hfor : (s.task x).forRuleInfo = x := by rw [task_of_lookup ht]; exact tok.forRule
      have hsplit : r ∈ pausedAll s ∨ r ∈ requestedByAll s := by
        simp only [outstanding, unprocessed, processed, hst.q2, hst.q3, List.mem_append] at hro
        rcases hro with ((h | h) | h) | ((h | h) | h)
        · cases h
        · cases h
        · exact Or.inl h
        · cases h
        · exact Or.inr h
        · cases h
      rcases hsplit with h | h
      · simp only [pausedAll, List.mem_flatMap] at h
        obtain ⟨p, hpm, hrp⟩ := h
        refine ⟨r.inputRuleInfo, ?_⟩
        have := (c2 p hpm).1 r hrp x hrt
        rw [hfor] at this; exact this
      · simp only [requestedByAll, List.mem_flatMap] at h
        obtain ⟨p, hpm, hrp⟩ := h
        refine ⟨p.2.forRuleInfo, c1 p hpm x ?_⟩
        simp only [taskSuccs, List.mem_append, List.mem_map]
        exact Or.inl ⟨r, hrp, by rw [hrt]; exact hfor⟩
  · obtain ⟨ri, hl, hs⟩ := state_of_scanning hst hscan
    have hone := hst.rel.scanOne x ri hl hs
    have hpos : 0 < ((scanReqs s {}).filter (fun r => r.ruleInfo == x)).length := by omega
    obtain ⟨r, hr⟩ := List.exists_mem_of_length_pos hpos
    simp only [List.mem_filter, beq_iff_eq] at hr
    obtain ⟨hrs, hrx⟩ := hr
    simp only [scanReqs, hst.q1, deferredAll, List.mem_append, List.mem_flatMap] at hrs
    rcases hrs with (h | h) | (⟨p, hpm, hrp⟩ | ⟨p, hpm, hrp⟩)
    · cases h
    · cases h
    · refine ⟨r.inputRuleInfo.getD p.1, ?_⟩
      have := (c2 p hpm).2 r hrp
      rw [hrx] at this; exact this
    · refine ⟨p.2.forRuleInfo, c1 p hpm x ?_⟩
      simp only [taskSuccs, List.mem_append, List.mem_map]
      exact Or.inr ⟨r, hrp, hrx⟩

/-- **D (the empty case)**: if the requested key is blocked, the search does not come back empty-handed -/
theorem findCycle_nonempty (hst : Stuck rules s ms) (hmf : NoMFDelivered ms.m) (hrz : ReadyWhenZero s)
    {key : Key} {ks : List Key} (hfc : findCycle key s = some ks) (hsearch : CycleSearchOk key s)
    (hb : Blocked ms.m key) : ks ≠ [] := by
  obtain ⟨pred, hp, ho⟩ := findCycle_unfold hfc hsearch
  refine cycleSearchOpt_nonempty (S := Blocked ms.m) ?_ loopFuel _ _ _ _ ks rfl hb ho
  intro x hx
  exact ⟨blocked_has_pred hst hrz hp hx, fun y hy => (predGraph_sound hst hmf hp hy).2⟩

/-- a key that is neither idle nor done is blocked (nothing is computing or between scan and demand) -/
theorem blocked_of_not_done (hst : Stuck rules s ms) {k : Key} (hi : ms.m.status k ≠ .idle)
    (hd : isDone ms.m k = false) : Blocked ms.m k := by
  have h1 := no_computing hst k
  have h2 := no_needsRun hst k
  unfold isDone at hd
  unfold Blocked
  cases hs : ms.m.status k <;> simp [hs] at hi hd h1 h2 ⊢

/-! ## 9. `NoMFDelivered` is an invariant of the monitor -/

theorem noMF_task_eq {m m' : Engine.St} (h : m'.task = m.task) (hm : NoMFDelivered m) : NoMFDelivered m' := by
  intro a q; rw [h]; exact hm a q

theorem noMF_upd {m m' : Engine.St} {k : Key} {t : Task} (h : m'.task = upd m.task k t) (hm : NoMFDelivered m)
    (ht : ∀ q, delivered t.seq q = true → q.kind ≠ 2) : NoMFDelivered m' := by
  intro a q
  rw [h]
  by_cases hak : a = k
  · subst hak; rw [upd_same]; exact ht q
  · rw [upd_other _ _ _ _ hak]; exact hm a q

theorem noMF_reset {m' : Engine.St} (h : m'.task = fun _ => {}) : NoMFDelivered m' := by
  intro a q; rw [h]; simp [delivered]

theorem step_noMFDelivered (P : Program) (m m' : Engine.St) (e : Event) (h : step P m e = some m')
    (hm : NoMFDelivered m) : NoMFDelivered m' := by
  cases e <;> simp only [step] at h
  all_goals (try (split at h <;> try cases h))
  all_goals (try (split at h <;> try cases h))
  all_goals (try (split at h <;> try cases h))
  all_goals (try cases h)
  all_goals (try (first | exact noMF_task_eq rfl hm | exact noMF_reset rfl))
  case create => exact noMF_upd rfl hm (fun q hd => by simp [delivered] at hd)
  case start => exact noMF_upd rfl hm (fun q hd => by simp [delivered] at hd)
  case prior => exact noMF_upd rfl hm (fun q hd => hm _ q hd)
  case inputsAvail => exact noMF_upd rfl hm (fun q hd => hm _ q hd)
  case complete => exact noMF_upd rfl hm (fun q hd => hm _ q hd)
  · -- provide
    rename_i k _ _ _ _ _ _ q0 hfind _
    refine noMF_upd rfl hm (fun q hd => ?_)
    simp only [delivered, List.any_cons, Bool.or_eq_true, beq_iff_eq] at hd
    rcases hd with hd | hd
    · subst hd
      have := List.find?_some hfind
      simp only [Bool.and_eq_true, bne_iff_ne, ne_eq] at this
      exact this.1.2
    · exact hm k q hd
  · -- ret (failure)
    split at h
    · cases h; exact noMF_task_eq rfl hm
    · cases h

theorem noMF_init : NoMFDelivered ({} : Engine.St) := noMF_reset rfl

theorem tstep_noMF {P : Program} {ms ms' : MSt} {t : Tok} (h : tstep P ms t = some ms') (hm : NoMFDelivered ms.m) :
    NoMFDelivered ms'.m := by
  unfold tstep at h
  split at h
  · split at h
    · cases h; exact hm
    · split at h
      · cases h
      · rename_i e _
        cases hs : step P ms.m e with
        | none => rw [hs] at h; cases h
        | some m1 => rw [hs] at h; cases h; exact step_noMFDelivered P _ _ e hs hm
  · split at h
    · split at h
      · rename_i row _
        cases hs : step P ms.m (.finished _ row) with
        | none => rw [hs] at h; cases h
        | some m1 => rw [hs] at h; cases h; exact step_noMFDelivered P _ _ _ hs hm
      · cases h
    · split at h
      · split at h
        · cases h
        · rename_i e _
          cases hs : step P ms.m e with
          | none => rw [hs] at h; cases h
          | some m1 => rw [hs] at h; cases h; exact step_noMFDelivered P _ _ e hs hm
      · cases h

theorem trun_noMF {P : Program} : ∀ (toks : List Tok) (ms ms' : MSt), trun P ms toks = some ms' →
    NoMFDelivered ms.m → NoMFDelivered ms'.m
  | [], ms, ms', h, hm => by simp [trun] at h; subst h; exact hm
  | t :: rest, ms, ms', h, hm => by
    simp only [trun] at h
    cases hts : tstep P ms t with
    | none => rw [hts] at h; cases h
    | some ms1 =>
      rw [hts] at h
      exact trun_noMF rest ms1 ms' h (tstep_noMF hts hm)

end Cyc

open Cyc

/-! ## 10. the results -/

/-- **`findCycle` is correct for the monitor, non-empty part** (A, B, C and the first half of D): under the hypotheses
of `Todo_findCycle`, the reported list is EMPTY or a lasso of the monitor's wait-for relation from the requested key.

STRENGTHENED (one hypothesis more than `Todo_findCycle`): `hmf`, must-follow requests are never in a delivery
sequence of the monitor.  `waitsFor` of a running rule asks for an UNDELIVERED issued request also when it is a
must-follow request; `TaskOk.outIssued` only says so for value requests.  It is an invariant of `Engine.step`
(`provide` is the only event that extends `seq`, with a request of kind ≠ 2): `Cyc.step_noMFDelivered`,
`Cyc.tstep_noMF`, `Cyc.trun_noMF`, `Cyc.noMF_init` above. -/
theorem findCycle_lasso_or_nil (rules : List RuleSpec) (s : State) (ms : MSt) (key : Key) (ks : List Key)
    (hr : Rel rules s ms {}) (hp : ms.pend = none) (hnm : NoMid s)
    (q1 : s.ruleInfosToScan = []) (q2 : s.inputRequests = []) (q3 : s.finishedInputRequests = [])
    (q4 : s.readyTaskInfos = []) (q5 : s.finishedTaskInfos = []) (hnum : s.numOutstandingUnfinishedTasks = 0)
    (hfc : findCycle key s = some ks) (hsearch : CycleSearchOk key s)
    -- STRENGTHENED: monitor invariant missing from `TaskOk` (needed for the edges of must-follow requests)
    (hmf : NoMFDelivered ms.m) :
    ks = [] ∨ lassoOk ms.m key ks = true :=
  findCycle_lasso ⟨hr, hp, hnm, q1, q2, q3, q4, q5, hnum⟩ hmf hfc hsearch

/-- **`Todo_findCycle`, corrected statement.**  Three hypotheses more than `Todo_findCycle`:
* `hmf` (see `findCycle_lasso_or_nil`);
* `hrz`: a waiting task with wait count 0 is in `readyTaskInfos` — the PROGRESS property of the engine that makes
  "the search came back empty" imply "the requested key is complete"; `Rel` only has the converse (`readyOk`);
* `hroot`: the requested key has been looked at in this build (its dummy request has been processed).  `Rel` holds
  already before that request is pushed, with every queue empty; there `findCycle` returns `[]` and the key is
  `idle`, not `done`. -/
theorem findCycle_fixed (rules : List RuleSpec) (s : State) (ms : MSt) (key : Key) (ks : List Key)
    (hr : Rel rules s ms {}) (hp : ms.pend = none) (_ht : ms.m.target = some key) (hnm : NoMid s)
    (q1 : s.ruleInfosToScan = []) (q2 : s.inputRequests = []) (q3 : s.finishedInputRequests = [])
    (q4 : s.readyTaskInfos = []) (q5 : s.finishedTaskInfos = []) (hnum : s.numOutstandingUnfinishedTasks = 0)
    (hfc : findCycle key s = some ks) (hsearch : CycleSearchOk key s)
    -- STRENGTHENED: monitor invariant missing from `TaskOk` (needed for the edges of must-follow requests)
    (hmf : NoMFDelivered ms.m)
    -- STRENGTHENED: engine progress invariant missing from `Rel` (converse of `readyOk`)
    (hrz : ReadyWhenZero s)
    -- STRENGTHENED: the requested key is no longer idle (loop invariant after the first pass over the input requests)
    (hroot : ms.m.status key ≠ .idle) :
    lassoOk ms.m key ks = true ∨ (ks.isEmpty = true ∧ isDone ms.m key = true) := by
  have hst : Stuck rules s ms := ⟨hr, hp, hnm, q1, q2, q3, q4, q5, hnum⟩
  rcases findCycle_lasso hst hmf hfc hsearch with h | h
  · right
    refine ⟨by rw [h]; rfl, ?_⟩
    cases hd : isDone ms.m key with
    | true => rfl
    | false =>
      exact absurd h (findCycle_nonempty hst hmf hrz hfc hsearch (blocked_of_not_done hst hroot hd))
  · exact Or.inl h

/-- the three side conditions as ONE statement about the states at which the work loop calls `findCycle`.  It does
not follow from `Rel` (see `findCycle_fixed`): each conjunct has to be carried by the loop invariant (or added to
`Rel`/`TaskOk`). -/
def FindCycleSide : Prop :=
  ∀ rules (s : State) (ms : MSt) (key : Key),
    Rel rules s ms {} → ms.pend = none → ms.m.target = some key → NoMid s →
    s.ruleInfosToScan = [] → s.inputRequests = [] → s.finishedInputRequests = [] → s.readyTaskInfos = [] →
    s.finishedTaskInfos = [] → s.numOutstandingUnfinishedTasks = 0 →
    NoMFDelivered ms.m ∧ ReadyWhenZero s ∧ ms.m.status key ≠ .idle

theorem findCycle_of_side (h : FindCycleSide) : Todo_findCycle := by
  intro rules s ms key ks hr hp ht hnm q1 q2 q3 q4 q5 hnum hfc hsearch
  obtain ⟨h1, h2, h3⟩ := h rules s ms key hr hp ht hnm q1 q2 q3 q4 q5 hnum
  exact findCycle_fixed rules s ms key ks hr hp ht hnm q1 q2 q3 q4 q5 hnum hfc hsearch h1 h2 h3

end LLBuild.Refine
