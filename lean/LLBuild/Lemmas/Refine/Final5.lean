/-
IM6 — ONE history theorem over EVERY op kind the refinement covers, in the `GEvent` / `runG` form of `Gen.lean`:
`W`, `E`, `M`, completed builds with arbitrary asynchronous schedules (IM4), builds KILLED before their commit (IM5, op `K`),
and `P rules'` in the middle of a history (program generations, `Gen.lean`).
* `OpU` = an `OpC` of `Final4.lean` or `program rules'`; `runOpsU`, `histEventsU`, `installedU`, `lastGenU`, `currentRulesU`,
  `histSizedU` (an op performed in generation `g` is sized under the rule list of generation `g`);
* `refinement_uop` / `refinement_uhistory`: from `RelIdle (genRules rs g) s m ∧ Committed m`;
* **`refinement_final_all`**: from the fresh harness, the history's `GEvent`s are accepted by `runG (PPof …) ({}, 0)`, end in the
  last generation, engine and monitor are related under the CURRENT rules, and the monitor is committed;
* special cases: `refinement_final_crash_of_all` (no `program` op: `Final4.refinement_final_crash`), hence
  `refinement_final_async_of_all`, `refinement_final_sized_of_all`; `refinement_history_gen_of_all` (`GOp` histories of
  `Gen.lean`, with the size condition instead of `ghistOk`; `ghistOk_of_sized`).
-/
import LLBuild.Lemmas.Refine.Final4
import LLBuild.Lemmas.Refine.Gen

namespace LLBuild.Refine
open LLBuild.Engine LLBuild.Engine.DSL LLBuild.EngineImpl

/-! ## 1. histories over every op kind -/

/-- every op of the harness the refinement covers -/
inductive OpU
  | op (o : OpC)
  /-- harness op `P` in mid-history: a new rule list, and a new engine on the same database -/
  | program (rules : List RuleSpec)

def runOpU : OpU → State → State
  | .op o, s => runOpC o s
  | .program rules, s => opProgram rules s

def runOpsU : List OpU → State → State
  | [], s => s
  | o :: os, s => runOpsU os (runOpU o s)

/-- the rule lists the history installs, in order -/
def programsOfU : List OpU → List (List RuleSpec)
  | [] => []
  | .op _ :: t => programsOfU t
  | .program rules :: t => rules :: programsOfU t

/-- generation 0 is `rs0`, generation `i` the `i`-th list installed afterwards -/
def installedU (rs0 : List RuleSpec) (ops : List OpU) : List (List RuleSpec) := rs0 :: programsOfU ops

def nextGenU (g : Nat) : OpU → Nat
  | .op _ => g
  | .program _ => g + 1

def lastGenU : Nat → List OpU → Nat
  | g, [] => g
  | g, o :: os => lastGenU (nextGenU g o) os

/-- the monitor events of an op performed in generation `g` -/
def uopEvents (g : Nat) : OpU → State → Option (List GEvent)
  | .op o, s => (opEventsC o s).map (fun evs => evs.map GEvent.ev)
  | .program _, _ => some [.reprogram (g + 1)]

def histEventsU : Nat → List OpU → State → Option (List GEvent)
  | _, [], _ => some []
  | g, o :: os, s => do
    let a ← uopEvents g o s
    let b ← histEventsU (nextGenU g o) os (runOpU o s)
    some (a ++ b)

/-- the history, started in generation `g`, installs the rule lists that `rs` lists after position `g` -/
def InstallsU (rs : List (List RuleSpec)) : Nat → List OpU → Prop
  | _, [] => True
  | g, .op _ :: t => InstallsU rs g t
  | g, .program rules :: t => rs[g + 1]? = some rules ∧ InstallsU rs (g + 1) t

/-- the size condition: a build (completed or killed) performed in generation `g` is sized under the rules of `g` -/
def histSizedU (rs : List (List RuleSpec)) : Nat → List OpU → State → Prop
  | _, [], _ => True
  | g, o :: os, s =>
    (match o with
     | .op o => histSizedC (genRules rs g) [o] s
     | .program _ => True) ∧ histSizedU rs (nextGenU g o) os (runOpU o s)

/-- the rule list in force after the history -/
def currentRulesU (rs0 : List RuleSpec) (ops : List OpU) : List RuleSpec :=
  genRules (installedU rs0 ops) (lastGenU 0 ops)

theorem lastGenU_eq : ∀ (ops : List OpU) (g : Nat), lastGenU g ops = g + (programsOfU ops).length
  | [], g => rfl
  | .op _ :: t, g => by simp only [lastGenU, nextGenU, programsOfU]; exact lastGenU_eq t g
  | .program _ :: t, g => by
    simp only [lastGenU, nextGenU, programsOfU, List.length_cons]; rw [lastGenU_eq t (g + 1)]; omega

theorem installsU_installed : ∀ (ops : List OpU) (pre : List (List RuleSpec)) (r : List RuleSpec),
    InstallsU (pre ++ r :: programsOfU ops) pre.length ops
  | [], _, _ => trivial
  | .op _ :: t, pre, r => by simp only [InstallsU, programsOfU]; exact installsU_installed t pre r
  | .program rules :: t, pre, r => by
    simp only [InstallsU, programsOfU]
    refine ⟨by simp, ?_⟩
    have h := installsU_installed t (pre ++ [r]) rules
    simpa using h

/-- a history installs its own list of programs -/
theorem InstallsU.self (rs0 : List RuleSpec) (ops : List OpU) : InstallsU (installedU rs0 ops) 0 ops :=
  installsU_installed ops [] rs0

theorem currentRulesU_eq (rs0 : List RuleSpec) (ops : List OpU) :
    currentRulesU rs0 ops = ((installedU rs0 ops).getLast?).getD [] := by
  unfold currentRulesU installedU genRules
  rw [lastGenU_eq, List.getD_eq_getElem?_getD, List.getLast?_eq_getElem?]
  simp

/-! ## 2. the refinement -/

/-- **refinement_uop**: one op, from related and committed states in generation `g` -/
theorem refinement_uop {rs : List (List RuleSpec)} (hok : ∀ r ∈ rs, RulesOk r) {g : Nat} {s : State} {m : Engine.St}
    (hr : RelIdle (genRules rs g) s m) (hc : Committed m) (o : OpU) (hi : InstallsU rs g [o])
    (hs : histSizedU rs g [o] s) :
    ∃ gevs m', uopEvents g o s = some gevs ∧ runG (PPof rs) (m, g) gevs = some (m', nextGenU g o) ∧
      RelIdle (genRules rs (nextGenU g o)) (runOpU o s) m' ∧ Committed m' := by
  cases o with
  | op o =>
    obtain ⟨evs, m', h1, h2, h3, h4⟩ := refinement_opC (RulesOk.genRules hok g) hr hc o hs.1
    refine ⟨evs.map .ev, m', by simp [uopEvents, h1], ?_, h3, h4⟩
    rw [runG_ev]
    show (run (program (genRules rs g)) m evs).map _ = _
    rw [h2]; rfl
  | program rules =>
    obtain ⟨m', h1, h2⟩ := hr.program rules (PPof rs g)
    have hg : genRules rs (g + 1) = rules := genRules_of_getElem? hi.1
    refine ⟨[.reprogram (g + 1)], m', rfl, ?_, ?_, Committed.step h1 rfl hc⟩
    · simp only [runG, stepG, h1, Option.map, Option.bind, nextGenU]
    · show RelIdle (genRules rs (g + 1)) (opProgram rules s) m'
      rw [hg]; exact h2

/-- **refinement_uhistory** (general form): from related, committed states in generation `g` -/
theorem refinement_uhistory {rs : List (List RuleSpec)} (hok : ∀ r ∈ rs, RulesOk r) :
    ∀ (ops : List OpU) (g : Nat) (s : State) (m : Engine.St), RelIdle (genRules rs g) s m → Committed m →
      InstallsU rs g ops → histSizedU rs g ops s →
      ∃ gevs m', histEventsU g ops s = some gevs ∧ runG (PPof rs) (m, g) gevs = some (m', lastGenU g ops) ∧
        RelIdle (genRules rs (lastGenU g ops)) (runOpsU ops s) m' ∧ Committed m'
  | [], g, s, m, hr, hc, _, _ => ⟨[], m, rfl, rfl, hr, hc⟩
  | o :: os, g, s, m, hr, hc, hi, hs => by
    have hi1 : InstallsU rs g [o] ∧ InstallsU rs (nextGenU g o) os := by
      cases o with
      | op o => exact ⟨trivial, hi⟩
      | program rules => exact ⟨⟨hi.1, trivial⟩, hi.2⟩
    obtain ⟨a, m1, h1, h2, h3, hc1⟩ := refinement_uop hok hr hc o hi1.1 ⟨hs.1, trivial⟩
    obtain ⟨b, m2, h4, h5, h6, hc2⟩ := refinement_uhistory hok os (nextGenU g o) (runOpU o s) m1 h3 hc1 hi1.2 hs.2
    refine ⟨a ++ b, m2, ?_, ?_, h6, hc2⟩
    · simp [histEventsU, h1, h4]
    · rw [runG_append, h2]; exact h5

/-- **IM2 – IM6: every op kind.**  From a fresh harness with rule list `rs0`, any history of `W`, `E`, `M`, builds —
completed OR KILLED before their commit, each with an arbitrary schedule of completions and cancellations by other
threads — and `P` ops that install new rule lists, in which every installed rule list satisfies `RulesOk` and every build
satisfies the size condition under the rules of its generation, produces `GEvent`s (with `crash` after each killed build,
`reprogram` for each `P`) that the generation monitor accepts from its initial state in generation 0, ending in the last
generation; the engine, whose rule list is the last one installed, and the monitor are related again, and the monitor's
committed database is its database. -/
theorem refinement_final_all (rs0 : List RuleSpec) (ops : List OpU)
    (hok : ∀ r ∈ installedU rs0 ops, RulesOk r)
    (hs : histSizedU (installedU rs0 ops) 0 ops (opProgram rs0 {})) :
    ∃ gevs m', histEventsU 0 ops (opProgram rs0 {}) = some gevs ∧
      runG (PPof (installedU rs0 ops)) ({}, 0) gevs = some (m', lastGenU 0 ops) ∧
      RelIdle (currentRulesU rs0 ops) (runOpsU ops (opProgram rs0 {})) m' ∧ Committed m' :=
  refinement_uhistory hok ops 0 _ _ (RelIdle.init rs0) Committed.init (InstallsU.self rs0 ops) hs

/-- the engine's rule list after the history is the last one installed -/
theorem runOpsU_rules (rs0 : List RuleSpec) (ops : List OpU)
    (hok : ∀ r ∈ installedU rs0 ops, RulesOk r)
    (hs : histSizedU (installedU rs0 ops) 0 ops (opProgram rs0 {})) :
    (runOpsU ops (opProgram rs0 {})).rules = currentRulesU rs0 ops := by
  obtain ⟨_, _, _, _, h, _⟩ := refinement_final_all rs0 ops hok hs
  exact h.rules_eq

/-! ## 3. special case: no `program` op (`Final4.refinement_final_crash`, hence IM4, IM3) -/

theorem programsOfU_op (ops : List OpC) : programsOfU (ops.map OpU.op) = [] := by
  induction ops with
  | nil => rfl
  | cons o t ih => simpa [programsOfU] using ih

theorem lastGenU_op : ∀ (ops : List OpC) (g : Nat), lastGenU g (ops.map OpU.op) = g
  | [], _ => rfl
  | _ :: t, g => by simp only [List.map_cons, lastGenU, nextGenU]; exact lastGenU_op t g

theorem runOpsU_op : ∀ (ops : List OpC) (s : State), runOpsU (ops.map OpU.op) s = runOpsC ops s
  | [], _ => rfl
  | o :: t, s => by simp only [List.map_cons, runOpsU, runOpsC, runOpU]; exact runOpsU_op t _

theorem histEventsU_op : ∀ (ops : List OpC) (g : Nat) (s : State),
    histEventsU g (ops.map OpU.op) s = (histEventsC ops s).map (fun evs => evs.map GEvent.ev)
  | [], _, _ => rfl
  | o :: t, g, s => by
    simp only [List.map_cons, histEventsU, histEventsC, uopEvents, nextGenU, runOpU, histEventsU_op t g]
    cases opEventsC o s with
    | none => rfl
    | some a =>
      cases histEventsC t (runOpC o s) with
      | none => rfl
      | some b => simp

theorem histSizedU_op (rules : List RuleSpec) : ∀ (ops : List OpC) (g : Nat) (s : State),
    histSizedC rules ops s → histSizedU [rules] g (ops.map OpU.op) s
  | [], _, _, _ => trivial
  | o :: t, g, s, h => by
    have hg : genRules [rules] g = rules := by
      cases g with
      | zero => rfl
      | succ n => simp [genRules]
    refine ⟨?_, histSizedU_op rules t g _ h.2⟩
    show histSizedC (genRules [rules] g) [o] s
    rw [hg]; exact ⟨h.1, trivial⟩

/-- `refinement_final_crash` (Final4.lean) is `refinement_final_all` for histories without `program` ops -/
theorem refinement_final_crash_of_all {rules : List RuleSpec} (hok : RulesOk rules) (ops : List OpC)
    (hs : histSizedC rules ops (opProgram rules {})) :
    ∃ evs m', histEventsC ops (opProgram rules {}) = some evs ∧ run (program rules) {} evs = some m' ∧
      RelIdle rules (runOpsC ops (opProgram rules {})) m' := by
  have hinst : installedU rules (ops.map OpU.op) = [rules] := by unfold installedU; rw [programsOfU_op]
  obtain ⟨gevs, m', h1, h2, h3, _⟩ := refinement_final_all rules (ops.map OpU.op)
    (by rw [hinst]; intro r hr; simp at hr; subst hr; exact hok)
    (by rw [hinst]; exact histSizedU_op rules ops 0 _ hs)
  rw [histEventsU_op] at h1
  cases he : histEventsC ops (opProgram rules {}) with
  | none => rw [he] at h1; cases h1
  | some evs =>
    rw [he] at h1
    simp only [Option.map_some, Option.some.injEq] at h1
    subst h1
    rw [hinst, runG_ev] at h2
    have hcur : currentRulesU rules (ops.map OpU.op) = rules := by
      unfold currentRulesU; rw [hinst, lastGenU_op]; rfl
    rw [hcur, runOpsU_op] at h3
    cases hrun : run (PPof [rules] 0) {} evs with
    | none => rw [hrun] at h2; cases h2
    | some m1 =>
      rw [hrun] at h2
      simp only [Option.map_some, Option.some.injEq, Prod.mk.injEq] at h2
      obtain ⟨h2, _⟩ := h2
      subst h2
      exact ⟨evs, m1, rfl, hrun, h3⟩

/-- `refinement_final_async` (Final3.lean) from `refinement_final_all` -/
theorem refinement_final_async_of_all {rules : List RuleSpec} (hok : RulesOk rules) (ops : List OpA)
    (hs : histSizedA rules ops (opProgram rules {})) :
    ∃ evs m', histEventsA ops (opProgram rules {}) = some evs ∧ run (program rules) {} evs = some m' ∧
      RelIdle rules (runOpsA ops (opProgram rules {})) m' := by
  have h := refinement_final_crash_of_all hok (ops.map OpA.toC) ((histSizedC_toC rules ops _).2 hs)
  rwa [histEventsC_toC, runOpsC_toC] at h

/-- `refinement_final_sized` (Final2.lean) from `refinement_final_all` -/
theorem refinement_final_sized_of_all {rules : List RuleSpec} (hok : RulesOk rules) (ops : List Op)
    (hs : histSized rules ops (opProgram rules {})) :
    ∃ evs m', histEvents ops (opProgram rules {}) = some evs ∧ run (program rules) {} evs = some m' ∧
      RelIdle rules (runOps ops (opProgram rules {})) m' := by
  have h := refinement_final_async_of_all hok (ops.map Op.toA) ((histSizedA_toA rules ops _).2 hs)
  rwa [histEventsA_toA, runOpsA_toA] at h

/-! ## 4. special case: the `GOp` histories of `Gen.lean` (synchronous builds, no kill) -/

/-- a synchronous op as an op of the full vocabulary: the build gets the empty asynchronous schedule -/
def Op.toC (o : Op) : OpC := o.toA.toC

def GOp.toU : GOp → OpU
  | .op o => .op o.toC
  | .program rules => .program rules

theorem runOpC_ofOp (o : Op) (s : State) : runOpC o.toC s = runOp o s := by
  unfold Op.toC; rw [runOpC_toC, runOpA_toA]

theorem opEventsC_ofOp (o : Op) (s : State) : opEventsC o.toC s = opEvents o s := by
  unfold Op.toC; rw [opEventsC_toC, opEventsA_toA]

theorem runOpU_toU (o : GOp) (s : State) : runOpU o.toU s = runGOp o s := by
  cases o with
  | op o => exact runOpC_ofOp o s
  | program rules => rfl

theorem uopEvents_toU (g : Nat) (o : GOp) (s : State) : uopEvents g o.toU s = gopEvents g o s := by
  cases o with
  | op o => simp only [GOp.toU, uopEvents, gopEvents, opEventsC_ofOp]
  | program rules => rfl

theorem nextGenU_toU (g : Nat) (o : GOp) : nextGenU g o.toU = nextGen g o := by cases o <;> rfl

theorem runOpsU_toU : ∀ (gops : List GOp) (s : State), runOpsU (gops.map GOp.toU) s = runGOps gops s
  | [], _ => rfl
  | o :: t, s => by simp only [List.map_cons, runOpsU, runGOps, runOpU_toU]; exact runOpsU_toU t _

theorem programsOfU_toU : ∀ (gops : List GOp), programsOfU (gops.map GOp.toU) = programsOf gops
  | [] => rfl
  | .op _ :: t => by simp only [List.map_cons, GOp.toU, programsOfU, programsOf]; exact programsOfU_toU t
  | .program _ :: t => by simp only [List.map_cons, GOp.toU, programsOfU, programsOf, programsOfU_toU t]

theorem installedU_toU (rs0 : List RuleSpec) (gops : List GOp) :
    installedU rs0 (gops.map GOp.toU) = installed rs0 gops := by
  unfold installedU installed; rw [programsOfU_toU]

theorem lastGenU_toU : ∀ (gops : List GOp) (g : Nat), lastGenU g (gops.map GOp.toU) = lastGen g gops
  | [], _ => rfl
  | o :: t, g => by simp only [List.map_cons, lastGenU, lastGen, nextGenU_toU]; exact lastGenU_toU t _

theorem histEventsU_toU : ∀ (gops : List GOp) (g : Nat) (s : State),
    histEventsU g (gops.map GOp.toU) s = ghistEvents g gops s
  | [], _, _ => rfl
  | o :: t, g, s => by
    simp only [List.map_cons, histEventsU, ghistEvents, uopEvents_toU, nextGenU_toU, runOpU_toU, histEventsU_toU t]

theorem currentRulesU_toU (rs0 : List RuleSpec) (gops : List GOp) :
    currentRulesU rs0 (gops.map GOp.toU) = currentRules rs0 gops := by
  unfold currentRulesU currentRules; rw [installedU_toU, lastGenU_toU]

/-- the size condition on a `GOp` history: a build performed in generation `g` is sized under the rules of `g` -/
def ghistSized (rs : List (List RuleSpec)) : Nat → List GOp → State → Prop
  | _, [], _ => True
  | g, o :: os, s =>
    (match o with
     | .op o => histSized (genRules rs g) [o] s
     | .program _ => True) ∧ ghistSized rs (nextGen g o) os (runGOp o s)

theorem histSizedC_ofOp (rules : List RuleSpec) (o : Op) (s : State) :
    histSizedC rules [o.toC] s ↔ histSized rules [o] s := by
  unfold Op.toC
  have h1 := histSizedC_toC rules [o.toA] s
  have h2 := histSizedA_toA rules [o] s
  simp only [List.map_cons, List.map_nil] at h1 h2
  exact h1.trans h2

theorem histSizedU_toU (rs : List (List RuleSpec)) : ∀ (gops : List GOp) (g : Nat) (s : State),
    histSizedU rs g (gops.map GOp.toU) s ↔ ghistSized rs g gops s
  | [], _, _ => Iff.rfl
  | .op o :: t, g, s => by
    simp only [List.map_cons, GOp.toU, histSizedU, ghistSized, nextGenU, nextGen, runOpU, runGOp, runOpC_ofOp,
      histSizedC_ofOp, histSizedU_toU rs t]
  | .program r :: t, g, s => by
    simp only [List.map_cons, GOp.toU, histSizedU, ghistSized, nextGenU, nextGen, runOpU, runGOp, histSizedU_toU rs t]

/-- `refinement_history_gen` (Gen.lean) from `refinement_final_all`, with the SIZE CONDITION in place of `ghistOk` -/
theorem refinement_history_gen_of_all (rs0 : List RuleSpec) (gops : List GOp)
    (hok : ∀ r ∈ installed rs0 gops, RulesOk r)
    (hs : ghistSized (installed rs0 gops) 0 gops (opProgram rs0 {})) :
    ∃ gevs m', ghistEvents 0 gops (opProgram rs0 {}) = some gevs ∧
      runG (PPof (installed rs0 gops)) ({}, 0) gevs = some (m', lastGen 0 gops) ∧
      RelIdle (currentRules rs0 gops) (runGOps gops (opProgram rs0 {})) m' := by
  obtain ⟨gevs, m', h1, h2, h3, _⟩ := refinement_final_all rs0 (gops.map GOp.toU)
    (by rw [installedU_toU]; exact hok)
    (by rw [installedU_toU]; exact (histSizedU_toU _ gops 0 _).2 hs)
  rw [histEventsU_toU] at h1
  rw [installedU_toU, lastGenU_toU] at h2
  rw [currentRulesU_toU, runOpsU_toU] at h3
  exact ⟨gevs, m', h1, h2, h3⟩

/-- … and the monitor ends committed -/
theorem refinement_history_gen_committed (rs0 : List RuleSpec) (gops : List GOp)
    (hok : ∀ r ∈ installed rs0 gops, RulesOk r)
    (hs : ghistSized (installed rs0 gops) 0 gops (opProgram rs0 {})) :
    ∃ gevs m', ghistEvents 0 gops (opProgram rs0 {}) = some gevs ∧
      runG (PPof (installed rs0 gops)) ({}, 0) gevs = some (m', lastGen 0 gops) ∧
      RelIdle (currentRules rs0 gops) (runGOps gops (opProgram rs0 {})) m' ∧ Committed m' := by
  obtain ⟨gevs, m', h1, h2, h3, h4⟩ := refinement_final_all rs0 (gops.map GOp.toU)
    (by rw [installedU_toU]; exact hok)
    (by rw [installedU_toU]; exact (histSizedU_toU _ gops 0 _).2 hs)
  rw [histEventsU_toU] at h1
  rw [installedU_toU, lastGenU_toU] at h2
  rw [currentRulesU_toU, runOpsU_toU] at h3
  exact ⟨gevs, m', h1, h2, h3, h4⟩

/-- the size condition implies the hypothesis `ghistOk` of `Gen.refinement_history_gen` (no build halts) -/
theorem ghistOk_of_sized {rs : List (List RuleSpec)} (hok : ∀ r ∈ rs, RulesOk r) :
    ∀ (gops : List GOp) (g : Nat) (s : State) (m : Engine.St), RelIdle (genRules rs g) s m → Installs rs g gops →
      ghistSized rs g gops s → ghistOk gops s
  | [], _, _, _, _, _, _ => trivial
  | o :: os, g, s, m, hr, hi, hs => by
    have hi1 : Installs rs g [o] ∧ Installs rs (nextGen g o) os := by
      cases o with
      | op o => exact ⟨trivial, hi⟩
      | program rules => exact ⟨⟨hi.1, trivial⟩, hi.2⟩
    have ho : gopOk o s := by
      cases o with
      | op o => exact (histOk_of_sized (RulesOk.genRules hok g) [o] s m hr hs.1).1
      | program rules => trivial
    obtain ⟨_, m1, _, _, h3⟩ := refinement_gop hok hr o hi1.1 ho
    exact ⟨ho, ghistOk_of_sized hok os (nextGen g o) (runGOp o s) m1 h3 hi1.2 hs.2⟩

theorem ghistOk_of_sized_start (rs0 : List RuleSpec) (gops : List GOp)
    (hok : ∀ r ∈ installed rs0 gops, RulesOk r)
    (hs : ghistSized (installed rs0 gops) 0 gops (opProgram rs0 {})) : ghistOk gops (opProgram rs0 {}) :=
  ghistOk_of_sized hok gops 0 _ _ (RelIdle.init rs0) (Installs.self rs0 gops) hs

/-! ## 5. non-vacuity: a history over two rule lists with every op kind -/

/-- the second rule list: rule `3` changes its result function and its signature base (rule `1` stays deferred) -/
def exRulesD2 : List RuleSpec :=
  [{ key := 1, deferred := 1 }, { key := 3, kind := 1, sigBase := 20, vmod := 5, statics := [⟨1, 7, 0⟩] }]

/-- a (synchronous) build under `exRulesD`; `P exRulesD2`; the build of `3` under the new rules (cancellation armed at
event 18) KILLED after 19 tokens, `… ; C 3 3 0 ; S 3 2 ; X ‖ DS 3 …` — inside the write window of rule `3`; the build again,
completed, with completions arriving asynchronously; the input changes; a later build, again with a non-empty
asynchronous schedule (the deferred task `1` is completed by the other thread) -/
def exOpsU : List OpU :=
  [.op (.mutate 1 55), .op (.build 3 0 [] []), .program exRulesD2, .op (.crashedBuild 3 18 [] exAsyncComplete 18),
   .op (.build 3 0 [] exAsyncComplete), .op (.mutate 1 56), .op (.build 3 0 [] exAsyncComplete)]

theorem exOpsU_ok : ∀ r ∈ installedU exRulesD exOpsU, RulesOk r := by
  intro r hr
  simp only [installedU, exOpsU, programsOfU, List.mem_cons, List.not_mem_nil, or_false] at hr
  rcases hr with rfl | rfl <;> exact RulesOk.of_check (by decide)

theorem exOpsU_sized : histSizedU (installedU exRulesD exOpsU) 0 exOpsU (opProgram exRulesD {}) := by
  simp only [exOpsU, histSizedU, histSizedC, nextGenU, runOpU, runOpC, and_true, true_and]
  refine ⟨by decide, by decide, by decide, by decide⟩

/-- the theorem applies: the history ends in generation 1, under `exRulesD2` -/
example : ∃ gevs m', histEventsU 0 exOpsU (opProgram exRulesD {}) = some gevs ∧
    runG (PPof (installedU exRulesD exOpsU)) ({}, 0) gevs = some (m', 1) ∧
    RelIdle exRulesD2 (runOpsU exOpsU (opProgram exRulesD {})) m' ∧ Committed m' :=
  refinement_final_all exRulesD exOpsU exOpsU_ok exOpsU_sized

/-- the state in which the killed build starts: after `P exRulesD2` -/
def exS1 : State := runOpsU [.op (.mutate 1 55), .op (.build 3 0 [] []), .program exRulesD2] (opProgram exRulesD {})

/-- the killed build is cut INSIDE the write window of rule `3`: 19 tokens, the 18th is `S 3 2`, the last one a
registration token (`X`); `toEvents` rejects the cut trace, `evOfToks` reads 18 events; the completed build would have
rewritten row `3` (value 3 under the new rules), the store after the crash still has the old row (value of the old rules) -/
example : (cutToks 3 18 [] exAsyncComplete 18 exS1).length = 19 ∧
    ((cutToks 3 18 [] exAsyncComplete 18 exS1)[17]?.bind Tok.isS2) = some 3 ∧
    ((cutToks 3 18 [] exAsyncComplete 18 exS1)[18]?.map Tok.isReg) = some true ∧
    (toEvents (cutToks 3 18 [] exAsyncComplete 18 exS1)).isNone = true ∧
    (evOfToks none (cutToks 3 18 [] exAsyncComplete 18 exS1)).map List.length = some 18 ∧
    ((runBuildA 3 0 [] exAsyncComplete exS1).store.rows.lookup 3).map (fun r => r.value) = some 3 ∧
    ((runOpC (.crashedBuild 3 18 [] exAsyncComplete 18) exS1).store.rows.lookup 3).map (fun r => r.value) =
      (exS1.store.rows.lookup 3).map (fun r => r.value) ∧
    ((exS1.store.rows.lookup 3).map (fun r => r.value) == some 3) = false := by
  decide

/-- the events of the whole example history exist, and it ends in generation 1 -/
example : (histEventsU 0 exOpsU (opProgram exRulesD {})).isSome = true ∧ lastGenU 0 exOpsU = 1 := by decide

/-
all of: [propext, Classical.choice, Quot.sound]
#print axioms refinement_uop
#print axioms refinement_uhistory
#print axioms refinement_final_all
#print axioms runOpsU_rules
#print axioms refinement_final_crash_of_all
#print axioms refinement_final_async_of_all
#print axioms refinement_final_sized_of_all
#print axioms refinement_history_gen_of_all
#print axioms refinement_history_gen_committed
#print axioms ghistOk_of_sized_start
-/
end LLBuild.Refine
