/-
C07 "cycles are never reported falsely" (including the EMPTY report, F30) — part 1: THE FUNCTIONS THAT RECORD NO `CY` TOKEN.
`CY ks` is recorded at exactly one place, the cycle exit of the work loop (`resolveCycle`).  Every other function of the engine
model records only tokens that are not `CY`: the recorder-closure framework of Halt.lean / Crash2.lean (`Closed`, `ClosedT`)
re-stated for the token class `Tok.isCY` (`ClosedY`, lemmas `ry_…` / `ryA_…`: the proofs of Crash2.lean, the side condition
`Tok.isCY t = false` is `rfl` at every `emit` of these functions), instantiated with "the trace is the old one plus tokens
that are not `CY`" (`NoCYB`).
-/
import LLBuild.Lemmas.Refine.Sched5

namespace LLBuild.Refine
open LLBuild.Engine LLBuild.Engine.DSL LLBuild.EngineImpl

/-- a predicate on `(halted, trace)` closed under the recorder operations as every function other than `resolveCycle`
uses them: `emit t` only for a token that is not `CY _` -/
structure ClosedY (R : Bool → List Tok → Prop) : Prop where
  emit : ∀ (t : Tok) (s : State), Tok.isCY t = false → R s.halted s.trace → R (emit t s).halted (emit t s).trace
  halt : ∀ (t : Tok) (s : State), Tok.isBad t = true → R s.halted s.trace → R (halt t s).halted (halt t s).trace
  doCancel : ∀ (s : State), R s.halted s.trace → R (doCancel s).halted (doCancel s).trace

section PreserveY
variable {R : Bool → List Tok → Prop} (hR : ClosedY R)
include hR

local notation "⟪" s "⟫" => R (State.halted s) (State.trace s)

theorem ry_modScanRecord (k : Key) (f : RuleScanRecord → RuleScanRecord) (s : State) (h : ⟪s⟫) :
    ⟪modScanRecord k f s⟫ := by
  unfold modScanRecord
  split
  · exact h
  · exact hR.halt _ _ rfl h

theorem ry_getRuleInfoForKey (k : Key) (s : State) (h : ⟪s⟫) : ⟪getRuleInfoForKey k s⟫ := by
  unfold getRuleInfoForKey
  split
  · exact h
  · dsimp only
    split
    · split
      · exact hR.emit _ _ rfl (hR.emit _ _ rfl h)
      · exact hR.emit _ _ rfl (hR.emit _ _ rfl h)
    · exact hR.emit _ _ rfl h

theorem ry_addTaskInputRequest (task key inputID : Nat) (oo su : Bool) (s : State) (h : ⟪s⟫) :
    ⟪addTaskInputRequest task key inputID oo su s⟫ := by
  unfold addTaskInputRequest
  split
  · exact hR.halt _ _ rfl h
  · exact ry_getRuleInfoForKey hR _ _ h

theorem ry_taskNeedsInput (task key inputID : Nat) (s : State) (h : ⟪s⟫) : ⟪taskNeedsInput task key inputID s⟫ := by
  unfold taskNeedsInput
  split
  · exact hR.emit _ _ rfl h
  · exact ry_addTaskInputRequest hR _ _ _ _ _ _ h

theorem ry_taskNeedsSingleUseInput (task key inputID : Nat) (s : State) (h : ⟪s⟫) :
    ⟪taskNeedsSingleUseInput task key inputID s⟫ := by
  unfold taskNeedsSingleUseInput
  split
  · exact hR.emit _ _ rfl h
  · exact ry_addTaskInputRequest hR _ _ _ _ _ _ h

theorem ry_taskMustFollow (task key : Nat) (s : State) (h : ⟪s⟫) : ⟪taskMustFollow task key s⟫ :=
  ry_addTaskInputRequest hR _ _ _ _ _ _ h

theorem ry_taskDiscoveredDependency (task key : Nat) (s : State) (h : ⟪s⟫) : ⟪taskDiscoveredDependency task key s⟫ := by
  unfold taskDiscoveredDependency
  split
  · exact hR.emit _ _ rfl h
  · exact h

theorem ry_taskIsComplete (task : Key) (v : Val) (fc : Bool) (s : State) (h : ⟪s⟫) : ⟪taskIsComplete task v fc s⟫ := by
  unfold taskIsComplete
  dsimp only
  split
  · exact hR.emit _ _ rfl h
  · exact h

theorem ry_issue (task : Key) : ∀ (l : List Req) (s : State), ⟪s⟫ → ⟪issue task l s⟫
  | [], s, h => h
  | q :: rest, s, h => by
    rw [issue]
    apply ry_issue task rest
    split
    · exact ry_taskNeedsInput hR _ _ _ _ h
    · split
      · exact ry_taskNeedsSingleUseInput hR _ _ _ _ h
      · exact ry_taskMustFollow hR _ _ _ h

theorem ry_taskStart (task : Key) (s : State) (h : ⟪s⟫) : ⟪taskStart task s⟫ :=
  ry_issue hR _ _ _ (hR.emit _ _ rfl h)

theorem ry_taskProvideValue (task : Key) (id : Nat) (key : Key) (v : Val) (s : State) (h : ⟪s⟫) :
    ⟪taskProvideValue task id key v s⟫ :=
  ry_issue hR _ _ _ (hR.emit _ _ rfl h)

theorem ry_taskComplete (task : Key) (s : State) (h : ⟪s⟫) : ⟪taskComplete task s⟫ :=
  ry_taskIsComplete hR _ _ _ _ (hR.emit _ _ rfl h)

theorem ry_reportDiscovered (task : Key) : ∀ (l : List Key) (s : State), ⟪s⟫ → ⟪reportDiscovered task l s⟫
  | [], s, h => h
  | d :: ds, s, h => by
    rw [reportDiscovered]
    exact ry_reportDiscovered task ds _ (ry_taskDiscoveredDependency hR _ _ _ h)

theorem ry_taskInputsAvailable (task : Key) (s : State) (h : ⟪s⟫) : ⟪taskInputsAvailable task s⟫ := by
  unfold taskInputsAvailable
  dsimp only
  have h1 := ry_reportDiscovered hR task (discKeys (specOf s.rules task) (s.task task).recv) _
    (hR.emit (.IA task (discKeys (specOf s.rules task) (s.task task).recv)) s rfl h)
  split
  · exact ry_taskComplete hR _ _ h1
  · exact h1

theorem ry_completeKey (k : Key) (s : State) (h : ⟪s⟫) : ⟪(completeKey k s).2⟫ := by
  unfold completeKey
  split
  · exact ry_taskComplete hR _ _ h
  · exact h

theorem ry_completeSmallest (s : State) (h : ⟪s⟫) : ⟪(completeSmallest s).2⟫ := by
  unfold completeSmallest
  split
  · exact h
  · exact ry_completeKey hR _ _ h

theorem ry_completeKeys : ∀ (l : List Key) (any : Bool) (s : State), ⟪s⟫ → ⟪(completeKeys l any s).2⟫
  | [], any, s, h => h
  | k :: ks, any, s, h => by
    rw [completeKeys]
    exact ry_completeKeys ks _ _ (ry_completeKey hR k s h)

theorem ry_hook (point : Nat) (s : State) (h : ⟪s⟫) : ⟪hook point s⟫ := by
  unfold hook
  split
  · exact ry_completeSmallest hR _ h
  · split
    next any s1 heq =>
      have h1 : ⟪s1⟫ := by
        refine of_eq_pair heq ?_
        split
        · exact h
        · split
          next any2 s2 heq2 =>
            have h2 : ⟪s2⟫ := of_eq_pair heq2 (ry_completeKeys hR _ _ _ h)
            dsimp only
            split
            · exact hR.doCancel _ h2
            · exact h2
      split
      · exact ry_completeSmallest hR _ h1
      · exact h1

/-! ### scanning and demanding -/

theorem ry_scanRule (k : Key) (s : State) (h : ⟪s⟫) : ⟪(scanRule k s).2⟫ := by
  unfold scanRule
  dsimp only
  repeat' split
  all_goals first
    | exact h
    | exact hR.emit _ _ rfl h
    | exact hR.emit _ _ rfl (hR.emit _ _ rfl h)
    | exact hR.emit _ _ rfl (hR.emit _ _ rfl (hR.emit _ _ rfl h))

theorem ry_demandRule (k : Key) (s : State) (h : ⟪s⟫) : ⟪(demandRule k s).2⟫ := by
  unfold demandRule
  dsimp only
  split
  · exact h
  · split
    · exact h
    · split
      · exact hR.emit _ _ rfl h
      · have h1 := ry_taskStart hR k _ (rs_modRule ((emit (.T k) s).setTask { forRuleInfo := k }) k
          (fun ri => { ri with state := .inProgressWaiting, inProgressInfo := .pendingTaskInfo,
                               result := { ri.result with deps := [] } }) (hR.emit (.T k) s rfl h))
        split <;> split <;> first | exact h1 | exact hR.emit _ _ rfl h1

theorem ry_finishScanRequest (k : Key) (st : StateKind) (s : State) (h : ⟪s⟫) : ⟪finishScanRequest k st s⟫ := by
  unfold finishScanRequest
  split
  · exact hR.halt _ _ rfl h
  · exact h

theorem ry_scanLoop : ∀ (fuel : Nat) (r : RuleScanRequest) (s : State), ⟪s⟫ → ⟪scanLoop fuel r s⟫
  | 0, r, s, h => by rw [scanLoop]; exact hR.halt _ _ rfl h
  | fuel + 1, r, s, h => by
    rw [scanLoop]
    dsimp only
    split
    · exact hR.halt _ _ rfl h
    · next request input s1 heq =>
      have h1 : ⟪s1⟫ := by
        split at heq
        · cases heq; exact h
        · split at heq
          · cases heq
          · cases heq; exact ry_getRuleInfoForKey hR _ _ h
      have h2 := ry_scanRule hR input s1 h1
      split
      · exact ry_modScanRecord hR _ _ _ h2
      · have h3 := ry_demandRule hR input _ h2
        split
        · exact h3
        · split
          · exact hR.emit _ _ rfl (ry_finishScanRequest hR _ _ _ h3)
          · split
            · exact ry_scanLoop fuel _ _ h3
            · exact ry_finishScanRequest hR _ _ _ h3

theorem ry_processRuleScanRequest (r : RuleScanRequest) (s : State) (h : ⟪s⟫) : ⟪processRuleScanRequest r s⟫ := by
  unfold processRuleScanRequest
  split
  · exact h
  · exact ry_scanLoop hR _ _ _ h

theorem ry_decrementTaskWaitCount (task : Key) (s : State) (h : ⟪s⟫) : ⟪decrementTaskWaitCount task s⟫ := by
  unfold decrementTaskWaitCount
  split
  · exact hR.halt _ _ rfl h
  · dsimp only
    split <;> exact h

theorem ry_processInputRequest (r : TaskInputRequest) (s : State) (h : ⟪s⟫) : ⟪processInputRequest r s⟫ := by
  unfold processInputRequest
  dsimp only
  have h2 := ry_scanRule hR r.inputRuleInfo s h
  split
  · exact ry_modScanRecord hR _ _ _ h2
  · have h3 := ry_demandRule hR r.inputRuleInfo _ h2
    split
    · exact h3
    · split <;> exact h3

theorem ry_finishedInputStep (task : Key) (r : TaskInputRequest) (s : State) (h : ⟪s⟫) : ⟪finishedInputStep task r s⟫ := by
  unfold finishedInputStep
  apply ry_decrementTaskWaitCount hR
  split
  · exact h
  · exact ry_taskProvideValue hR _ _ _ _ _ h

theorem ry_readyStep (task : Key) (s : State) (h : ⟪s⟫) : ⟪readyStep task s⟫ := by
  unfold readyStep
  exact ry_taskInputsAvailable hR task _ (rs_modRule s _ _ h)

theorem ry_pushDiscovered : ∀ (l : List Dep) (s : State), ⟪s⟫ → ⟪pushDiscovered l s⟫
  | [], s, h => h
  | d :: ds, s, h => by
    rw [pushDiscovered]
    exact ry_pushDiscovered ds _ (ry_getRuleInfoForKey hR d.key s h)

theorem ry_setRuleResult (k : Key) (res : Res) (s : State) (h : ⟪s⟫) : ⟪(setRuleResult k res s).2⟫ := by
  unfold setRuleResult
  dsimp only
  split <;> exact hR.emit _ _ rfl h

theorem ry_finishedTaskWrite (task : Key) (s : State) (h : ⟪s⟫) : ⟪(finishedTaskWrite task s).2⟫ := by
  unfold finishedTaskWrite
  dsimp only
  have h1 : ⟪emit (.S (s.task task).forRuleInfo 2)
      (s.modRule (s.task task).forRuleInfo (fun ri => setComplete s { ri with inProgressInfo := .null }))⟫ :=
    hR.emit _ _ rfl h
  have h2 := ry_pushDiscovered hR (s.task task).discoveredDependencies _
    (rs_modRule _ (s.task task).forRuleInfo
      (fun ri => { ri with result := { ri.result with deps := ri.result.deps ++ (s.task task).discoveredDependencies } }) h1)
  split
  · exact ry_setRuleResult hR _ _ _ h2
  · exact h2

theorem ryA_asyncStep (it : SchedItem) (s : State) (h : ⟪s⟫) : ⟪asyncStep it s⟫ := by
  unfold asyncStep
  dsimp only
  have h1 := ry_completeKeys hR it.keys false s h
  split
  · exact hR.doCancel _ h1
  · exact h1

theorem ryA_asyncPoint (a : Async) (s : State) (h : ⟪s⟫) : ⟪(asyncPoint a s).2⟫ := by
  cases a with
  | nil => exact h
  | cons it rest => exact ryA_asyncStep hR it s h

theorem ryA_scanRequestsLoopA : ∀ (fuel : Nat) (w : Bool) (a : Async) (s : State), ⟪s⟫ → ⟪(scanRequestsLoopA fuel w a s).2.2⟫
  | 0, w, a, s, h => by rw [scanRequestsLoopA]; exact hR.halt _ _ rfl h
  | fuel + 1, w, a, s, h => by
    rw [scanRequestsLoopA]
    dsimp only
    have h1 := ryA_asyncPoint hR a s h
    split
    · exact h1
    · exact ryA_scanRequestsLoopA fuel _ _ _ (ry_processRuleScanRequest hR _ _ h1)

theorem ryA_inputRequestsLoopA : ∀ (fuel : Nat) (w : Bool) (a : Async) (s : State), ⟪s⟫ → ⟪(inputRequestsLoopA fuel w a s).2.2⟫
  | 0, w, a, s, h => by rw [inputRequestsLoopA]; exact hR.halt _ _ rfl h
  | fuel + 1, w, a, s, h => by
    rw [inputRequestsLoopA]
    dsimp only
    have h1 := ryA_asyncPoint hR a s h
    split
    · exact h1
    · exact ryA_inputRequestsLoopA fuel _ _ _ (ry_processInputRequest hR _ _ h1)

theorem ryA_finishedInputsLoopA : ∀ (fuel : Nat) (w : Bool) (a : Async) (s : State), ⟪s⟫ → ⟪(finishedInputsLoopA fuel w a s).2.2⟫
  | 0, w, a, s, h => by rw [finishedInputsLoopA]; exact hR.halt _ _ rfl h
  | fuel + 1, w, a, s, h => by
    rw [finishedInputsLoopA]
    dsimp only
    have h1 := ryA_asyncPoint hR a s h
    split
    · exact h1
    · split
      · exact hR.halt _ _ rfl h1
      · exact ryA_finishedInputsLoopA fuel _ _ _ (ry_finishedInputStep hR _ _ _ h1)

theorem ryA_readyTasksLoopA : ∀ (fuel : Nat) (w : Bool) (a : Async) (s : State), ⟪s⟫ → ⟪(readyTasksLoopA fuel w a s).2.2⟫
  | 0, w, a, s, h => by rw [readyTasksLoopA]; exact hR.halt _ _ rfl h
  | fuel + 1, w, a, s, h => by
    rw [readyTasksLoopA]
    dsimp only
    have h1 := ryA_asyncPoint hR a s h
    split
    · exact h1
    · exact ryA_readyTasksLoopA fuel _ _ _ (ry_readyStep hR _ _ h1)

theorem ryA_drainLoopA : ∀ (fuel : Nat) (a : Async) (s : State), ⟪s⟫ → ⟪(drainLoopA fuel a s).2⟫
  | 0, a, s, h => by rw [drainLoopA]; exact hR.halt _ _ rfl h
  | fuel + 1, a, s, h => by
    rw [drainLoopA]
    dsimp only
    have h1 := ry_hook hR 2 _ (ryA_asyncPoint hR a s h)
    split
    · exact h
    · split
      · exact hR.halt _ _ rfl h1
      · exact ryA_drainLoopA fuel _ _ h1

theorem ryA_cancelRemainingTasksA (a : Async) (s : State) (h : ⟪s⟫) : ⟪(cancelRemainingTasksA a s).2⟫ := by
  unfold cancelRemainingTasksA
  exact rsA_cancelTail _ (ryA_drainLoopA hR _ _ _ h)

theorem ryA_finishedTasksLoopA : ∀ (fuel : Nat) (w : Bool) (a : Async) (s : State), ⟪s⟫ →
    ⟪(finishedTasksLoopA fuel w a s).2.2.2⟫
  | 0, w, a, s, h => by rw [finishedTasksLoopA]; exact hR.halt _ _ rfl h
  | fuel + 1, w, a, s, h => by
    rw [finishedTasksLoopA]
    dsimp only
    have h0 := ryA_asyncPoint hR a s h
    split
    · exact h0
    · next task _ =>
      have h1 := ry_finishedTaskWrite hR task
        { (asyncPoint a s).2 with finishedTaskInfos := (asyncPoint a s).2.finishedTaskInfos.dropLast } h0
      split
      · exact ryA_cancelRemainingTasksA hR _ _ (hR.emit _ _ rfl h1)
      · exact ryA_finishedTasksLoopA fuel _ _ _ h1

theorem ryA_waitStep (s : State) (h : ⟪s⟫) : ⟪waitStep s⟫ := by
  unfold waitStep
  dsimp only
  split
  · exact hR.halt _ _ rfl (ry_hook hR 1 s h)
  · exact ry_hook hR 1 s h

theorem ryA_buildTail (key : Key) (r : Bool × State) (h : ⟪r.2⟫) : ⟪(buildTail key r).2⟫ := by
  unfold buildTail
  obtain ⟨ok, s1⟩ := r
  dsimp only at h ⊢
  generalize hs2 : (if s1.hasDB = true then _ else s1) = s2
  have h2 : ⟪s2⟫ := by
    rw [← hs2]
    split
    · exact hR.emit _ _ rfl h
    · exact h
  split
  · exact h2
  · exact ry_getRuleInfoForKey hR key s2 h2


end PreserveY

/-! ## the instance: the tokens recorded since `s0` are not `CY` -/

/-- no `CY` token in the list -/
def NoCYL (toks : List Tok) : Prop := ∀ t ∈ toks, Tok.isCY t = false

theorem NoCYL.nil : NoCYL [] := fun _ h => by cases h

theorem NoCYL.append {a b : List Tok} (ha : NoCYL a) (hb : NoCYL b) : NoCYL (a ++ b) := by
  intro t ht
  rcases List.mem_append.1 ht with h | h
  · exact ha t h
  · exact hb t h

theorem NoCYL.cons {t : Tok} {a : List Tok} (ht : Tok.isCY t = false) (ha : NoCYL a) : NoCYL (t :: a) := by
  intro x hx
  rcases List.mem_cons.1 hx with h | h
  · subst h; exact ht
  · exact ha x h

/-- the tokens recorded between `s` and `s'` contain no `CY` -/
def NoCYB (s s' : State) : Prop := ∃ toks, Emits s toks s' ∧ NoCYL toks

theorem NoCYB.refl (s : State) : NoCYB s s := ⟨[], Emits.refl s, NoCYL.nil⟩

theorem NoCYB.trans {s1 s2 s3 : State} (h1 : NoCYB s1 s2) (h2 : NoCYB s2 s3) : NoCYB s1 s3 := by
  obtain ⟨a, ea, ha⟩ := h1
  obtain ⟨b, eb, hb⟩ := h2
  exact ⟨a ++ b, ea.trans eb, ha.append hb⟩

theorem NoCYB.of_trace_eq {s X Y : State} (h : NoCYB X Y) (hX : X.trace = s.trace) : NoCYB s Y := by
  obtain ⟨a, ea, ha⟩ := h
  exact ⟨a, ea.of_trace_eq hX, ha⟩

/-- the tokens recorded between `s` and `s'`, whatever list they are, contain no `CY` -/
theorem NoCYB.toks {s s' : State} (h : NoCYB s s') {toks : List Tok} (he : Emits s toks s') : NoCYL toks := by
  obtain ⟨a, ea, ha⟩ := h
  rw [Emits.unique he ea]; exact ha

theorem NoCYB.emit (t : Tok) (s : State) (ht : Tok.isCY t = false) : NoCYB s (emit t s) := by
  by_cases hh : s.halted = true
  · rw [emit_halted t s hh]; exact NoCYB.refl s
  · have hh' : s.halted = false := by simpa using hh
    rcases emit_emits t s hh' with e | e
    · exact ⟨[t], e, NoCYL.cons ht NoCYL.nil⟩
    · exact ⟨[t, .X], e, NoCYL.cons ht (NoCYL.cons rfl NoCYL.nil)⟩

/-- the trace is that of `s0` plus tokens that are not `CY` -/
def NoCYSince (s0 : State) (_ : Bool) (tr : List Tok) : Prop := ∃ toks, tr = toks.reverse ++ s0.trace ∧ NoCYL toks

theorem closedY_noCYSince (s0 : State) : ClosedY (NoCYSince s0) where
  emit := fun t s ht h => by
    obtain ⟨toks, e, hn⟩ := h
    obtain ⟨b, eb, hb⟩ := NoCYB.emit t s ht
    exact ⟨toks ++ b, by unfold Emits at eb; rw [eb, e]; simp, hn.append hb⟩
  halt := fun t s ht h => by
    by_cases hh : s.halted = true
    · have : halt t s = s := by simp [EngineImpl.halt, hh]
      rw [this]; exact h
    · have hh' : s.halted = false := by simpa using hh
      obtain ⟨toks, e, hn⟩ := h
      rw [halt_spec t s hh']
      refine ⟨toks ++ [t], by simp [e], hn.append (NoCYL.cons ?_ NoCYL.nil)⟩
      cases t <;> first | rfl | cases ht
  doCancel := fun s h => by
    obtain ⟨toks, e, hn⟩ := h
    by_cases hh : s.halted = true
    · have e' : (doCancel s).trace = s.trace := by
        unfold EngineImpl.doCancel; by_cases hc : s.cancelIssued = true <;> simp [hc, hh]
      exact ⟨toks, by rw [e', e], hn⟩
    · have hh' : s.halted = false := by simpa using hh
      rcases doCancel_spec s hh' with e' | ⟨_, e'⟩ <;> rw [e']
      · exact ⟨toks, e, hn⟩
      · exact ⟨toks ++ [.X], by simp [e], hn.append (NoCYL.cons rfl NoCYL.nil)⟩

/-- from the closure lemma of a function to `NoCYB` -/
theorem noCYB_of {f : State → State}
    (hf : ∀ {R : Bool → List Tok → Prop}, ClosedY R → ∀ s, R s.halted s.trace → R (f s).halted (f s).trace) (s : State) :
    NoCYB s (f s) := by
  obtain ⟨toks, e, hn⟩ := hf (closedY_noCYSince s) s ⟨[], rfl, NoCYL.nil⟩
  exact ⟨toks, e, hn⟩

theorem noCYB_getRuleInfoForKey (k : Key) (s : State) : NoCYB s (getRuleInfoForKey k s) :=
  noCYB_of (fun hR => ry_getRuleInfoForKey hR k) s
theorem noCYB_hook (point : Nat) (s : State) : NoCYB s (hook point s) := noCYB_of (fun hR => ry_hook hR point) s
theorem noCYB_waitStep (s : State) : NoCYB s (waitStep s) := noCYB_of (fun hR => ryA_waitStep hR) s
theorem noCYB_asyncPoint (a : Async) (s : State) : NoCYB s (asyncPoint a s).2 :=
  noCYB_of (f := fun s => (asyncPoint a s).2) (fun hR => ryA_asyncPoint hR a) s
theorem noCYB_scanRequestsLoopA (fuel : Nat) (w : Bool) (a : Async) (s : State) :
    NoCYB s (scanRequestsLoopA fuel w a s).2.2 :=
  noCYB_of (f := fun s => (scanRequestsLoopA fuel w a s).2.2) (fun hR => ryA_scanRequestsLoopA hR fuel w a) s
theorem noCYB_inputRequestsLoopA (fuel : Nat) (w : Bool) (a : Async) (s : State) :
    NoCYB s (inputRequestsLoopA fuel w a s).2.2 :=
  noCYB_of (f := fun s => (inputRequestsLoopA fuel w a s).2.2) (fun hR => ryA_inputRequestsLoopA hR fuel w a) s
theorem noCYB_finishedInputsLoopA (fuel : Nat) (w : Bool) (a : Async) (s : State) :
    NoCYB s (finishedInputsLoopA fuel w a s).2.2 :=
  noCYB_of (f := fun s => (finishedInputsLoopA fuel w a s).2.2) (fun hR => ryA_finishedInputsLoopA hR fuel w a) s
theorem noCYB_readyTasksLoopA (fuel : Nat) (w : Bool) (a : Async) (s : State) :
    NoCYB s (readyTasksLoopA fuel w a s).2.2 :=
  noCYB_of (f := fun s => (readyTasksLoopA fuel w a s).2.2) (fun hR => ryA_readyTasksLoopA hR fuel w a) s
theorem noCYB_finishedTasksLoopA (fuel : Nat) (w : Bool) (a : Async) (s : State) :
    NoCYB s (finishedTasksLoopA fuel w a s).2.2.2 :=
  noCYB_of (f := fun s => (finishedTasksLoopA fuel w a s).2.2.2) (fun hR => ryA_finishedTasksLoopA hR fuel w a) s
theorem noCYB_cancelRemainingTasksA (a : Async) (s : State) : NoCYB s (cancelRemainingTasksA a s).2 :=
  noCYB_of (f := fun s => (cancelRemainingTasksA a s).2) (fun hR => ryA_cancelRemainingTasksA hR a) s
theorem noCYB_buildTail (key : Key) (r : Bool × State) : NoCYB r.2 (buildTail key r).2 := by
  obtain ⟨toks, e, hn⟩ := ryA_buildTail (closedY_noCYSince r.2) key r ⟨[], rfl, NoCYL.nil⟩
  exact ⟨toks, e, hn⟩

end LLBuild.Refine
