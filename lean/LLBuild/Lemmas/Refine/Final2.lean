/-
IM3 — termination / no-stall: the END RESULT.  A build from related states never runs into `FUEL` / `BAD _`
(`halted = false`) under ONE size condition, `workBound rules s key + 2 < scanFuel` (`workBound`, Term0.lean, is an
explicit sum over the keys the program, the engine and the store mention) — no behavioural hypothesis.  Hence
`histOk` (the hypothesis of `refinement_final`) follows from a size condition on the history: `histSized`.
-/
import LLBuild.Lemmas.Refine.TermLoop

namespace LLBuild.Refine
open LLBuild.Engine LLBuild.Engine.DSL LLBuild.EngineImpl

theorem scanFuel_eq : scanFuel = 100000 := rfl
theorem loopFuel_eq : loopFuel = 1000000 := rfl

/-- every key of the universe contributes at least 12 to the work bound -/
theorem keyUniverse_length_le_workBound (rules : List RuleSpec) (s : State) (key : Key) :
    (keyUniverse rules s key).length ≤ workBound rules s key := by
  unfold workBound
  have := sumBy_mul_le (c := 1) (l := keyUniverse rules s key)
    (f := fun k => 6 + 6 * ((deps0 s k).length + 1) + 6 * (allReqs (specOf rules k)).length +
      6 * (specOf rules k).discs.length) (fun x _ => by omega)
  omega

/-- `executeTasks` from the prologue relation (after `QC`): the loop is entered with `Phi ≤ workBound` -/
theorem executeTasks_nohalt {rules : List RuleSpec} (hok : RulesOk rules) {key : Key} {s : State} {m : Engine.St}
    (hr : RelPre rules key true s m) (hd : DiscM (program rules) m) (hfin : s.finishedInputRequests = [])
    (hh : s.halted = false) (hsize : workBound rules s key + 2 < scanFuel) :
    (executeTasks key s).2.halted = false := by
  have hs0 : ({ s with finishedInputRequests := [] } : State) = s := by
    cases s; simp at hfin; simp [hfin]
  unfold executeTasks
  simp only [hs0]
  obtain ⟨toks1, m1, he1, hrun1, hr1, hreg1, hh1⟩ := hr.getRule hh key
  have hrel := Rel.entry hr1
  have hrel2 := hrel.pushDummy { taskInfo := none, inputID := 0, inputRuleInfo := key } rfl hreg1 rfl
    (Or.inr (Or.inl hr1.target))
  have hnm : NoMid (pushInput { taskInfo := none, inputID := 0, inputRuleInfo := key } (getRuleInfoForKey key s)) := by
    intro k ri hl
    rcases hr1.states k ri hl with e | e <;> rw [e] <;> exact ⟨by decide, by decide⟩
  have haux : Aux key (pushInput { taskInfo := none, inputID := 0, inputRuleInfo := key } (getRuleInfoForKey key s)) {} :=
    { readyZero := fun a t hl => (by
        have : (getRuleInfoForKey key s).taskInfos.lookup a = some t := hl
        rw [hr1.noTasks] at this; cases this),
      rootSeen := Or.inr ⟨{ taskInfo := none, inputID := 0, inputRuleInfo := key }, by simp [pushInput], rfl⟩ }
  obtain ⟨hU, hPhi⟩ := entry_term (rules := rules) key hr.toQuiet hr.rulesNodup hr.hasDB
    { taskInfo := none, inputID := 0, inputRuleInfo := key } rfl
  have hlen := keyUniverse_length_le_workBound rules s key
  have hsf := scanFuel_eq
  have hlf := loopFuel_eq
  exact executeLoop_nohalt hok (U := keyUniverse rules s key) (by omega) loopFuel
    (pushInput { taskInfo := none, inputID := 0, inputRuleInfo := key } (getRuleInfoForKey key s)) ⟨m1, none⟩
    ⟨hrel2, rfl, hr1.target, hreg1, fun p hp => (by rw [hr1.noPending] at hp; cases hp),
      fun a q hdl => (by rw [hr1.noSeq a] at hdl; simp [delivered] at hdl)⟩
    hnm haux (trun_discM hrun1 hd) hU hh1 (by omega) (by omega) (by omega)

/-- `build` up to the deferred `buildComplete`, from the prologue relation (after `B key`) -/
theorem buildPre_nohalt {rules : List RuleSpec} (hok : RulesOk rules) {key : Key} {s : State} {m : Engine.St}
    (hr : RelPre rules key false s m) (hd : DiscM (program rules) m) (hh : s.halted = false)
    (hsize : workBound rules s key + 2 < scanFuel) : (buildPre key s).2.halted = false := by
  unfold buildPre
  simp only [hr.hasDB, if_true]
  obtain ⟨toks1, m1, he1, hrun1, hr1, hh1⟩ := prologue_DB hr hh
  have hd1 : DiscM (program rules) m1 := trun_discM hrun1 hd
  have hri : (emit .DB s).ruleInfos = s.ruleInfos := (emit_same .DB s).ruleInfos
  have hsto : (emit .DB s).store = s.store := (emit_same .DB s).store
  generalize emit .DB s = sD at hr1 hh1 hri hsto ⊢
  by_cases hc : sD.buildCancelled = true
  · simp only [hc, if_true]; exact hh1
  · simp only [hc, Bool.false_eq_true, if_false]
    rw [buildWork_halted]
    obtain ⟨m2, hstep2, hr2⟩ := prologue_QC hr1 hh1
    have hd2 : DiscM (program rules) m2 := step_discM _ _ _ _ hstep2 hd1
    have hri2 : (emit .QC sD).ruleInfos = s.ruleInfos := ((emit_same .QC sD).ruleInfos).trans hri
    have hsto2 : (emit .QC sD).store = s.store := ((emit_same .QC sD).store).trans hsto
    have hfq : (emit .QC sD).finishedInputRequests = [] := by
      rw [(emit_same .QC sD).finishedInputRequests]; exact hr1.noFinQ
    have hhQ : (emit .QC sD).halted = false := by rw [emit_halted_eq]; exact hh1
    generalize emit .QC sD = sQ at hr2 hri2 hsto2 hfq hhQ ⊢
    have hsQ : ({ sQ with currentEpoch := sQ.currentEpoch + 1 } : State) =
        { sQ with currentEpoch := sQ.currentEpoch + 1, finishedInputRequests := [] } := by
      rw [← hfq]
    rw [hsQ]
    refine executeTasks_nohalt hok hr2 hd2 rfl hhQ ?_
    rw [workBound_congr rules (s := s) (s' := { sQ with currentEpoch := sQ.currentEpoch + 1, finishedInputRequests := [] })
      key hri2 hsto2]
    exact hsize

/-- **IM3: a build terminates without `FUEL` / `BAD _`** from related states, under the size condition
`workBound rules s key + 2 < scanFuel` (= 100000; `loopFuel` is ten times larger). -/
theorem build_terminates {rules : List RuleSpec} (hok : RulesOk rules) {s : State} {m : Engine.St}
    (hr : RelIdle rules s m) (key cancelAt : Nat) (sched : List SchedItem)
    (hsize : workBound rules s key + 2 < scanFuel) : (runBuild key cancelAt sched s).halted = false := by
  obtain ⟨toks1, m1, he1, hrun1, hr1, hh1⟩ := prologue_B hr key cancelAt sched
  -- the monitor's tasks were reset by `buildStart`
  have hd1 : DiscM (program rules) m1 := by
    have htoks : toks1 = (emit (.B key) (buildInit cancelAt sched s)).trace.reverse := by
      unfold Emits at he1
      rw [he1]; simp [buildInit]
    have hB : ∃ rest, toks1 = .B key :: rest := by
      rcases emit_spec (.B key) (buildInit cancelAt sched s) rfl with e | ⟨_, e⟩
      · exact ⟨[], by rw [htoks, e]; simp [buildInit]⟩
      · exact ⟨[.X], by rw [htoks, e]; simp [buildInit]⟩
    obtain ⟨rest, hrest⟩ := hB
    rw [hrest] at hrun1
    exact trun_B_discM hrun1
  have hP : (buildPre key (emit (.B key) (buildInit cancelAt sched s))).2.halted = false := by
    refine buildPre_nohalt hok hr1 hd1 hh1 ?_
    rw [workBound_congr rules (s := s) (s' := emit (.B key) (buildInit cancelAt sched s)) key
      (emit_same (.B key) _).ruleInfos (emit_same (.B key) _).store]
    exact hsize
  rw [runBuild_eq0, build_eq]
  unfold closeOf finishDB
  rw [emit_halted_eq, emit_halted_eq]
  simp only []
  split
  · rw [emit_halted_eq]; exact hP
  · exact hP

/-- … so its printed trace contains no `FUEL` / `BAD _` token -/
theorem build_noBad {rules : List RuleSpec} (hok : RulesOk rules) {s : State} {m : Engine.St}
    (hr : RelIdle rules s m) (key cancelAt : Nat) (sched : List SchedItem)
    (hsize : workBound rules s key + 2 < scanFuel) : NoBad (runBuild key cancelAt sched s).trace :=
  (halted_iff_bad key cancelAt sched s).1 (build_terminates hok hr key cancelAt sched hsize)

/-- the size condition on a history: every build is requested in a state whose work bound is below the fuel -/
def histSized (rules : List RuleSpec) : List Op → State → Prop
  | [], _ => True
  | op :: ops, s =>
    (match op with
     | .build key _ _ => workBound rules s key + 2 < scanFuel
     | _ => True) ∧ histSized rules ops (runOp op s)

/-- **`histOk` from the size condition** -/
theorem histOk_of_sized {rules : List RuleSpec} (hok : RulesOk rules) :
    ∀ (ops : List Op) (s : State) (m : Engine.St), RelIdle rules s m → histSized rules ops s → histOk ops s
  | [], _, _, _, _ => trivial
  | op :: ops, s, m, hr, hs => by
    have hop : opOk op s := by
      cases op with
      | build key cancelAt sched => exact build_terminates hok hr key cancelAt sched hs.1
      | wipe => trivial
      | restart => trivial
      | mutate a b => trivial
    obtain ⟨_, m', _, _, hr'⟩ := refinement_op (workLoop_final rules hok) hr op hop
    exact ⟨hop, histOk_of_sized hok ops _ m' hr' hs.2⟩

/-- **IM2 + IM3.**  From a fresh harness with program `rules`, any history of ops whose builds satisfy the size
condition is accepted by the abstract monitor — no `histOk` hypothesis. -/
theorem refinement_final_sized {rules : List RuleSpec} (hok : RulesOk rules) (ops : List Op)
    (hs : histSized rules ops (opProgram rules {})) :
    ∃ evs m', histEvents ops (opProgram rules {}) = some evs ∧ run (program rules) {} evs = some m' ∧
      RelIdle rules (runOps ops (opProgram rules {})) m' :=
  refinement_final hok ops (histOk_of_sized hok ops _ _ (RelIdle.init rules) hs)

/-! ## non-vacuity: the example history of `Final.lean` satisfies the size condition -/

theorem exOps_sized : histSized exRules exOps (opProgram exRules {}) := by
  simp only [exOps, histSized, runOp, and_true, true_and]
  refine ⟨by decide, by decide, by decide⟩

/-- the theorem applies, without running the builds to check `histOk` -/
example : ∃ evs m', histEvents exOps (opProgram exRules {}) = some evs ∧ run (program exRules) {} evs = some m' ∧
    RelIdle exRules (runOps exOps (opProgram exRules {})) m' :=
  refinement_final_sized exRules_ok exOps exOps_sized

/-- the first build of the example terminates: its work bound is far below the fuel -/
example : (runBuild 3 0 [] (opMutate 1 55 (opProgram exRules {}))).halted = false := by
  obtain ⟨m', _, hr⟩ := (RelIdle.init exRules).mutate (program exRules) 1 55
  exact build_terminates exRules_ok hr 3 0 [] (by decide)

/-
#print axioms executeLoop_nohalt       -- [propext, Classical.choice, Quot.sound]
#print axioms build_terminates         -- [propext, Classical.choice, Quot.sound]
#print axioms refinement_final_sized   -- [propext, Classical.choice, Quot.sound]
-/

end LLBuild.Refine
