/-
IM4 — free-running completion threads: the exits of the work loop (`drainLoopA`, `cancelRemainingTasksA`, also after
`CY ks`), for EVERY asynchronous schedule `a`.
* (N) `drainLoopA_nil_exit`, `cancelRemainingTasksA_nil_exit`;
* (R) `cancelRemainingTasksA_sim`, `cycleExitA_sim`: the statements of `Todo_cancelRemainingTasks` / `Todo_cycleExit` with
  `(cancelRemainingTasksA a ·).2`;
* (T) `drainLoopA_nohalt`, `cancelRemainingTasksA_nohalt(_of_Phi)`, `cancelRemainingTasksA_cycle_nohalt(_of_Phi)`.

`AsyncStepSim`/`AsyncStepFrame` are NOT used: they speak about `Rel` on the real state, while the drain keeps `Rel` on
the GHOST state (`Exit.DrainInv`).  Instead every operation of a round — `completeKey k`, `completeKeys`, `doCancel`,
`asyncStep it`, hook point 2 — is shown to act on the ghost (`GS`: a batch of completions / a cancellation applied to the
ghost, with drain-safe tokens `C`/`X`/`ER`), directly from `taskComplete_sim`, as `Exit.drain_hook` did for hook point 2.
-/
import LLBuild.Lemmas.Refine.Exit
import LLBuild.Lemmas.Refine.TermExit
import LLBuild.Lemmas.Refine.Ready
import LLBuild.Lemmas.Refine.AsyncSpec

namespace LLBuild.Refine
open LLBuild.Engine LLBuild.Engine.DSL LLBuild.EngineImpl

/-! ## (N) the empty schedule -/

theorem drainLoopA_succ (fuel : Nat) (a : Async) (s : State) :
    drainLoopA (fuel + 1) a s =
      if s.numOutstandingUnfinishedTasks == 0 then (a, s) else
      if (hook 2 (asyncPoint a s).2).finishedTaskInfos.isEmpty then
        ((asyncPoint a s).1, halt (.BAD "stall") (hook 2 (asyncPoint a s).2))
      else drainLoopA fuel (asyncPoint a s).1 { hook 2 (asyncPoint a s).2 with
        numOutstandingUnfinishedTasks := (hook 2 (asyncPoint a s).2).numOutstandingUnfinishedTasks -
          (hook 2 (asyncPoint a s).2).finishedTaskInfos.length,
        finishedTaskInfos := [] } := by
  rw [drainLoopA]

theorem drainLoopA_nil_exit : ∀ (fuel : Nat) (s : State), drainLoopA fuel [] s = ([], drainLoop fuel s)
  | 0, s => rfl
  | fuel + 1, s => by
    rw [drainLoopA_succ, drainLoop_succ]
    have e : asyncPoint [] s = ([], s) := rfl
    rw [e]
    simp only []
    split
    · rfl
    · split
      · rfl
      · exact drainLoopA_nil_exit fuel _

theorem cancelTail_eq_finish (s : State) : cancelTail s = cancelFinish s := rfl

theorem cancelRemainingTasksA_nil_exit (s : State) : cancelRemainingTasksA [] s = ([], cancelRemainingTasks s) := by
  unfold cancelRemainingTasksA
  simp only [drainLoopA_nil_exit]
  rfl

/-! ## Operations of a drain round, on the ghost -/

/-- a batch of completions and/or a cancellation applied to the ghost state: the relation holds again for the ghost
(`g`, monitor `m0`, real finished list `f`) ↦ (`g'`, `m1`, `f'`), the count clause is kept, and the recorded tokens are
drain-safe (`C`, `X`, `ER`) -/
def GS (rules : List RuleSpec) (n : Nat) (g : State) (m0 : Engine.St) (g' : State) (m1 : Engine.St) (f' : List Key) : Prop :=
  ∃ toks, Rel rules g' ⟨m1, none⟩ {} ∧ n ≤ g'.pendingDeferred.length + f'.length ∧ Emits g toks g' ∧
    trun (program rules) ⟨m0, none⟩ toks = some ⟨m1, none⟩ ∧ (∀ t ∈ toks, Tok.drainSafe t = true) ∧
    (NoMid g → NoMid g') ∧ g'.halted = false

theorem GS.refl {rules : List RuleSpec} {n : Nat} {g : State} {m0 : Engine.St} {f : List Key}
    (hr : Rel rules g ⟨m0, none⟩ {}) (hcnt : n ≤ g.pendingDeferred.length + f.length) (hh : g.halted = false) :
    GS rules n g m0 g m0 f :=
  ⟨[], hr, hcnt, Emits.refl g, rfl, by simp, id, hh⟩

theorem GS.trans {rules : List RuleSpec} {n : Nat} {g g1 g2 : State} {m0 m1 m2 : Engine.St} {f1 f2 : List Key}
    (a : GS rules n g m0 g1 m1 f1) (b : GS rules n g1 m1 g2 m2 f2) : GS rules n g m0 g2 m2 f2 := by
  obtain ⟨t1, _, _, a3, a4, a5, a6, _⟩ := a
  obtain ⟨t2, b1, b2, b3, b4, b5, b6, b7⟩ := b
  refine ⟨t1 ++ t2, b1, b2, a3.trans b3, trun_append_some a4 b4, ?_, fun h => b6 (a6 h), b7⟩
  intro t ht
  rcases List.mem_append.1 ht with h | h
  · exact a5 t h
  · exact b5 t h

/-- `completeKey k` (any parked key, not only the smallest) -/
theorem ghost_completeKey {rules : List RuleSpec} (hok : RulesOk rules) {g : State} {m0 : Engine.St}
    (hr : Rel rules g ⟨m0, none⟩ {}) (hh : g.halted = false) (f : List Key) (n : Nat)
    (hcnt : n ≤ g.pendingDeferred.length + f.length) (k : Key) :
    ∃ g' m1 f', (completeKey k (fr f n g)).2 = fr f' n g' ∧ GS rules n g m0 g' m1 f' ∧
      (k ∈ g.pendingDeferred → f' = f ++ [k]) ∧ (k ∉ g.pendingDeferred → f' = f) := by
  have hpd0 : (fr f n g).pendingDeferred = g.pendingDeferred := rfl
  unfold completeKey
  by_cases hc : (fr f n g).pendingDeferred.contains k = true
  · have hk : k ∈ g.pendingDeferred := by rw [hpd0] at hc; simpa using hc
    rw [if_pos hc]
    show ∃ g' m1 f', taskComplete k (fr f n { g with pendingDeferred := g.pendingDeferred.filter (· != k) }) = fr f' n g' ∧ _
    obtain ⟨f', hf', hfapp⟩ := taskComplete_frame k { g with pendingDeferred := g.pendingDeferred.filter (· != k) } f n
    rw [hf']
    obtain ⟨toks, ms', he, hrun, hr', hpend, hmid'⟩ := taskComplete_sim rules hok g ⟨m0, none⟩ k hr hh hk
    obtain ⟨toks2, he2, hsafe⟩ := taskComplete_toks k { g with pendingDeferred := g.pendingDeferred.filter (· != k) } hh
    have he' : Emits { g with pendingDeferred := g.pendingDeferred.filter (· != k) } toks
        (taskComplete k { g with pendingDeferred := g.pendingDeferred.filter (· != k) }) := he
    have htoks : toks = toks2 := he'.unique he2
    subst htoks
    obtain ⟨m1, p1⟩ := ms'
    replace hpend : p1 = none := hpend
    subst hpend
    obtain ⟨t, _, hcomp, _⟩ := hr.deferredOk k hk
    have hf2 : f' = f ++ [k] := hfapp (by
      show (g.rule k).isInProgressComputing = true
      simp [RuleInfo.isInProgressComputing, hcomp])
    refine ⟨_, m1, f', rfl, ⟨toks, hr', ?_, he, hrun, hsafe, hmid', ?_⟩, fun _ => hf2, fun h => absurd hk h⟩
    · have hlen := filter_ne_length k g.pendingDeferred hr.deferredNodup hk
      rw [taskComplete_pendingDeferred]
      show n ≤ (g.pendingDeferred.filter (· != k)).length + f'.length
      rw [hf2, List.length_append]
      simp only [List.length_cons, List.length_nil]
      omega
    · rw [taskComplete_halted]; exact hh
  · rw [if_neg hc]
    have hk : k ∉ g.pendingDeferred := by
      intro h; apply hc; rw [hpd0]; simpa using h
    exact ⟨g, m0, f, rfl, GS.refl hr hcnt hh, fun h => absurd h hk, fun _ => rfl⟩

theorem completeKeys_cons (k : Key) (ks : List Key) (any : Bool) (s : State) :
    completeKeys (k :: ks) any s = completeKeys ks (any || (completeKey k s).1) (completeKey k s).2 := by
  rw [completeKeys]

/-- `completeKeys` -/
theorem ghost_completeKeys {rules : List RuleSpec} (hok : RulesOk rules) (n : Nat) :
    ∀ (ks : List Key) (any : Bool) (g : State) (m0 : Engine.St) (f : List Key),
    Rel rules g ⟨m0, none⟩ {} → g.halted = false → n ≤ g.pendingDeferred.length + f.length →
    ∃ g' m1 f', (completeKeys ks any (fr f n g)).2 = fr f' n g' ∧ GS rules n g m0 g' m1 f'
  | [], any, g, m0, f, hr, hh, hcnt => ⟨g, m0, f, rfl, GS.refl hr hcnt hh⟩
  | k :: ks, any, g, m0, f, hr, hh, hcnt => by
    rw [completeKeys_cons]
    obtain ⟨g1, m1, f1, e1, gs1, _, _⟩ := ghost_completeKey hok hr hh f n hcnt k
    rw [e1]
    obtain ⟨_, hr1, hcnt1, _, _, _, _, hh1⟩ := id gs1
    obtain ⟨g2, m2, f2, e2, gs2⟩ := ghost_completeKeys hok n ks (any || (completeKey k (fr f n g)).1) g1 m1 f1 hr1 hh1 hcnt1
    exact ⟨g2, m2, f2, e2, gs1.trans gs2⟩

theorem doCancel_frame (g : State) (f : List Key) (n : Nat) : doCancel (fr f n g) = fr f n (doCancel g) := by
  unfold doCancel fr
  by_cases hc : g.cancelIssued = true
  · simp [hc]
  · by_cases hh : g.halted = true <;> simp [hc, hh]

/-- `doCancel` -/
theorem ghost_doCancel {rules : List RuleSpec} {n : Nat} {g : State} {m0 : Engine.St} {f : List Key}
    (hr : Rel rules g ⟨m0, none⟩ {}) (hh : g.halted = false) (hcnt : n ≤ g.pendingDeferred.length + f.length) :
    ∃ m1, GS rules n g m0 (doCancel g) m1 f := by
  rcases doCancel_spec g hh with he | ⟨_, he⟩
  · rw [he]; exact ⟨m0, GS.refl hr hcnt hh⟩
  · rw [he]
    refine ⟨cancelM m0, [.X], hr.cancelled_ms (.X :: g.trace), hcnt, by simp [Emits], ?_, by simp [Tok.drainSafe], id, hh⟩
    simp only [trun, tstep_X, Option.bind_some]
    rfl

/-- an asynchronous step -/
theorem ghost_asyncStep {rules : List RuleSpec} (hok : RulesOk rules) (it : SchedItem) {g : State} {m0 : Engine.St}
    (hr : Rel rules g ⟨m0, none⟩ {}) (hh : g.halted = false) (f : List Key) (n : Nat)
    (hcnt : n ≤ g.pendingDeferred.length + f.length) :
    ∃ g' m1 f', asyncStep it (fr f n g) = fr f' n g' ∧ GS rules n g m0 g' m1 f' := by
  unfold asyncStep
  simp only []
  obtain ⟨g1, m1, f1, e1, gs1⟩ := ghost_completeKeys hok n it.keys false g m0 f hr hh hcnt
  rw [e1]
  by_cases hc : it.cancel = true
  · rw [if_pos hc, doCancel_frame]
    obtain ⟨_, hr1, hcnt1, _, _, _, _, hh1⟩ := id gs1
    obtain ⟨m2, gs2⟩ := ghost_doCancel (f := f1) hr1 hh1 hcnt1
    exact ⟨_, m2, f1, rfl, gs1.trans gs2⟩
  · rw [if_neg hc]
    exact ⟨g1, m1, f1, rfl, gs1⟩

theorem ghost_asyncPoint {rules : List RuleSpec} (hok : RulesOk rules) (a : Async) {g : State} {m0 : Engine.St}
    (hr : Rel rules g ⟨m0, none⟩ {}) (hh : g.halted = false) (f : List Key) (n : Nat)
    (hcnt : n ≤ g.pendingDeferred.length + f.length) :
    ∃ g' m1 f', (asyncPoint a (fr f n g)).2 = fr f' n g' ∧ GS rules n g m0 g' m1 f' := by
  cases a with
  | nil => exact ⟨g, m0, f, rfl, GS.refl hr hcnt hh⟩
  | cons it rest => exact ghost_asyncStep hok it hr hh f n hcnt

theorem hook2_cases' (s : State) :
    (s.pendingDeferred = [] ∧ hook 2 s = s) ∨
    (∃ k, k ∈ s.pendingDeferred ∧ hook 2 s = (completeKey k s).2) := by
  rw [hook2_eq]
  unfold completeSmallest
  cases hpd : s.pendingDeferred with
  | nil => left; exact ⟨rfl, rfl⟩
  | cons k rest => right; exact ⟨k, by simp, rfl⟩

/-- hook point 2, with NO STALL -/
theorem ghost_hook2 {rules : List RuleSpec} (hok : RulesOk rules) {g : State} {m0 : Engine.St}
    (hr : Rel rules g ⟨m0, none⟩ {}) (hh : g.halted = false) (f : List Key) (n : Nat)
    (hcnt : n ≤ g.pendingDeferred.length + f.length) :
    ∃ g' m1 f', hook 2 (fr f n g) = fr f' n g' ∧ GS rules n g m0 g' m1 f' ∧ (n ≠ 0 → f' ≠ []) := by
  rcases hook2_cases' (fr f n g) with ⟨hpd, h⟩ | ⟨k, hk, h⟩
  · rw [h]
    refine ⟨g, m0, f, rfl, GS.refl hr hcnt hh, fun h0 e => ?_⟩
    replace hpd : g.pendingDeferred = [] := hpd
    rw [hpd, e] at hcnt
    simp at hcnt; exact h0 hcnt
  · rw [h]
    replace hk : k ∈ g.pendingDeferred := hk
    obtain ⟨g1, m1, f1, e1, gs1, hf1, _⟩ := ghost_completeKey hok hr hh f n hcnt k
    refine ⟨g1, m1, f1, e1, gs1, fun _ => ?_⟩
    rw [hf1 hk]; simp

/-- **one round of `drainLoopA`** on the ghost: the asynchronous point, then hook point 2 -/
theorem ghost_roundA {rules : List RuleSpec} (hok : RulesOk rules) (a : Async) {g : State} {m0 : Engine.St}
    (hr : Rel rules g ⟨m0, none⟩ {}) (hh : g.halted = false) (f : List Key) (n : Nat)
    (hcnt : n ≤ g.pendingDeferred.length + f.length) :
    ∃ g' m1 f', hook 2 (asyncPoint a (fr f n g)).2 = fr f' n g' ∧ GS rules n g m0 g' m1 f' ∧ (n ≠ 0 → f' ≠ []) := by
  obtain ⟨g1, m1, f1, e1, gs1⟩ := ghost_asyncPoint hok a hr hh f n hcnt
  rw [e1]
  obtain ⟨_, hr1, hcnt1, _, _, _, _, hh1⟩ := id gs1
  obtain ⟨g2, m2, f2, e2, gs2, hne⟩ := ghost_hook2 hok hr1 hh1 f1 n hcnt1
  exact ⟨g2, m2, f2, e2, gs1.trans gs2, hne⟩

/-! ## One round under the two drain invariants -/

/-- a round under `Exit.DrainInv` -/
theorem drain_roundA {rules : List RuleSpec} {key : Key} (hok : RulesOk rules) (a : Async) {s : State} {m : Engine.St}
    (hinv : DrainInv rules key s m) (hh : s.halted = false) :
    ∃ toks m', Emits s toks (hook 2 (asyncPoint a s).2) ∧ trun (program rules) ⟨m, none⟩ toks = some ⟨m', none⟩ ∧
      DrainInv rules key (hook 2 (asyncPoint a s).2) m' ∧ (hook 2 (asyncPoint a s).2).halted = false ∧
      (hook 2 (asyncPoint a s).2).numOutstandingUnfinishedTasks = s.numOutstandingUnfinishedTasks ∧
      (s.numOutstandingUnfinishedTasks ≠ 0 → (hook 2 (asyncPoint a s).2).finishedTaskInfos ≠ []) := by
  obtain ⟨g, m0, c, f, n, hr, hmid, rfl, rfl, htgt, hfail, hcnt⟩ := hinv
  obtain ⟨g', m1, f', e, ⟨toks, hr', hcnt', he, hrun, hsafe, hmid', hh'⟩, hne⟩ := ghost_roundA hok a hr hh f n hcnt
  rw [e]
  obtain ⟨b1, b2, b3, b4⟩ := trun_drainSafe (program rules) toks m0 none ⟨m1, none⟩ hsafe hrun
  refine ⟨toks, setCy c m1, he, b4 c, ⟨g', m1, c, f', n, hr', hmid' hmid, rfl, rfl, b1.trans htgt, ?_, hcnt'⟩,
    hh', rfl, hne⟩
  rcases hfail with h | h | h
  · exact Or.inl (b2 h)
  · exact Or.inr (Or.inl h)
  · exact Or.inr (Or.inr (b3 h))

/-- a round under `TermExit.DrainInv0` -/
theorem drain_roundA0 {rules : List RuleSpec} (hok : RulesOk rules) (a : Async) {s : State}
    (hinv : DrainInv0 rules s) (hh : s.halted = false) :
    DrainInv0 rules (hook 2 (asyncPoint a s).2) ∧ (hook 2 (asyncPoint a s).2).halted = false ∧
      (hook 2 (asyncPoint a s).2).numOutstandingUnfinishedTasks = s.numOutstandingUnfinishedTasks ∧
      (s.numOutstandingUnfinishedTasks ≠ 0 → (hook 2 (asyncPoint a s).2).finishedTaskInfos ≠ []) := by
  obtain ⟨g, m0, f, n, hr, rfl, hcnt⟩ := hinv
  obtain ⟨g', m1, f', e, ⟨toks, hr', hcnt', _, _, _, _, hh'⟩, hne⟩ := ghost_roundA hok a hr hh f n hcnt
  rw [e]
  exact ⟨⟨g', m1, f', n, hr', rfl, hcnt'⟩, hh', rfl, hne⟩

/-! ## (R) the drain with completions arriving, and the two exits -/

theorem drainLoopA_sim {rules : List RuleSpec} {key : Key} (hok : RulesOk rules) :
    ∀ (fuel : Nat) (a : Async) (s : State) (m : Engine.St), DrainInv rules key s m → s.halted = false →
    (drainLoopA fuel a s).2.halted = false →
    ∃ toks m', Emits s toks (drainLoopA fuel a s).2 ∧ trun (program rules) ⟨m, none⟩ toks = some ⟨m', none⟩ ∧
      DrainInv rules key (drainLoopA fuel a s).2 m' ∧ (drainLoopA fuel a s).2.numOutstandingUnfinishedTasks = 0
  | 0, a, s, m, _, _, hnh => by
    rw [drainLoopA] at hnh
    rw [halt_halted] at hnh; cases hnh
  | fuel + 1, a, s, m, hinv, hh, hnh => by
    rw [drainLoopA_succ] at hnh ⊢
    by_cases h0 : (s.numOutstandingUnfinishedTasks == 0) = true
    · rw [if_pos h0]
      exact ⟨[], m, Emits.refl s, rfl, hinv, by simpa using h0⟩
    · rw [if_neg h0] at hnh ⊢
      by_cases h1 : (hook 2 (asyncPoint a s).2).finishedTaskInfos.isEmpty = true
      · rw [if_pos h1] at hnh
        rw [halt_halted] at hnh; cases hnh
      · rw [if_neg h1] at hnh ⊢
        obtain ⟨toks1, m1, he1, hrun1, hinv1, hh1, _, _⟩ := drain_roundA hok a hinv hh
        have hinv2 : DrainInv rules key { hook 2 (asyncPoint a s).2 with
            numOutstandingUnfinishedTasks := (hook 2 (asyncPoint a s).2).numOutstandingUnfinishedTasks -
              (hook 2 (asyncPoint a s).2).finishedTaskInfos.length,
            finishedTaskInfos := [] } m1 := by
          obtain ⟨g, m0, c, f, n, a1, a2, a3, a4, a5, a6, a7⟩ := hinv1
          refine ⟨g, m0, c, [], (hook 2 (asyncPoint a s).2).numOutstandingUnfinishedTasks -
            (hook 2 (asyncPoint a s).2).finishedTaskInfos.length, a1, a2, ?_, a4, a5, a6, ?_⟩
          · rw [a3]; rfl
          · rw [a3]
            show n - f.length ≤ g.pendingDeferred.length + 0
            omega
        obtain ⟨toks2, m2, he2, hrun2, hinv3, hnum⟩ := drainLoopA_sim hok fuel _ _ m1 hinv2 hh1 hnh
        have he2' : Emits (hook 2 (asyncPoint a s).2) toks2 (drainLoopA fuel (asyncPoint a s).1 { hook 2 (asyncPoint a s).2 with
            numOutstandingUnfinishedTasks := (hook 2 (asyncPoint a s).2).numOutstandingUnfinishedTasks -
              (hook 2 (asyncPoint a s).2).finishedTaskInfos.length,
            finishedTaskInfos := [] }).2 := he2
        exact ⟨toks1 ++ toks2, m2, he1.trans he2', trun_append_some hrun1 hrun2, hinv3, hnum⟩

/-- `cancelRemainingTasksA` from the drain invariant (shared by the two exits) -/
theorem cancelA_of_drainInv {rules : List RuleSpec} {key : Key} (hok : RulesOk rules) (a : Async)
    {s : State} {m : Engine.St} (hinv : DrainInv rules key s m) (hh : s.halted = false)
    (hnh : (cancelRemainingTasksA a s).2.halted = false) :
    ∃ toks m', Emits s toks (cancelRemainingTasksA a s).2 ∧ trun (program rules) ⟨m, none⟩ toks = some ⟨m', none⟩ ∧
      RelPost rules key (cancelRemainingTasksA a s).2 m' false ∧ m'.started = true := by
  have e : (cancelRemainingTasksA a s).2 = cancelFinish (drainLoopA loopFuel a s).2 := rfl
  rw [e] at hnh ⊢
  rw [cancelFinish_halted] at hnh
  obtain ⟨toks, m', he, hrun, hinv', hnum⟩ := drainLoopA_sim hok loopFuel a s m hinv hh hnh
  obtain ⟨g, m0, c, f, n, hr, hmid, hs, hm, htgt, hfail, _⟩ := hinv'
  rw [hs] at hnum
  replace hnum : n = 0 := hnum
  subst hnum
  refine ⟨toks, m', ?_, hrun, ?_, ?_⟩
  · unfold Emits at he ⊢
    rw [cancelFinish_trace]; exact he
  · rw [hs, hm]
    exact cancelFinish_post hr hmid f c htgt hfail
  · rw [hm]; exact hr.started

/-- **(R) the cancellation exit, for every asynchronous schedule** -/
theorem cancelRemainingTasksA_sim :
    ∀ rules, RulesOk rules → ∀ (a : Async) (s : State) (ms : MSt) (key : Key),
    Rel rules s ms {} → ms.pend = none → s.halted = false → ms.m.target = some key → NoMid s →
    (ms.m.cancelled = true ∨ ms.m.cycleSeen = true ∨ ms.m.errSeen = true ∨ s.buildCancelled = true) →
    (cancelRemainingTasksA a s).2.halted = false →
    ∃ toks m', Emits s toks (cancelRemainingTasksA a s).2 ∧ trun (program rules) ms toks = some ⟨m', none⟩ ∧
      RelPost rules key (cancelRemainingTasksA a s).2 m' false ∧ m'.started = true := by
  intro rules hok a s ms key hr hp hh htgt hmid hcause hnh
  obtain ⟨m, p⟩ := ms
  simp only at hp
  subst hp
  replace htgt : m.target = some key := htgt
  apply cancelA_of_drainInv hok a _ hh hnh
  refine ⟨s, m, m.cycleSeen, s.finishedTaskInfos, s.numOutstandingUnfinishedTasks, hr, hmid, rfl, rfl, htgt, ?_,
    Nat.le_of_eq (by simpa using hr.outstandingCount)⟩
  rcases hcause with h | h | h | h
  · exact Or.inl h
  · exact Or.inr (Or.inl h)
  · exact Or.inr (Or.inr h)
  · rcases hr.cancelled h with h' | h'
    · exact Or.inl h'
    · exact Or.inr (Or.inr h')

/-- **(R) the cycle exit, for every asynchronous schedule** -/
theorem cycleExitA_sim :
    ∀ rules, RulesOk rules → ∀ (a : Async) (s : State) (ms : MSt) (key : Key) (ks : List Key),
    Rel rules s ms {} → ms.pend = none → s.halted = false → ms.m.target = some key → NoMid s →
    (lassoOk ms.m key ks = true ∨ (ks.isEmpty = true ∧ isDone ms.m key = true)) →
    (cancelRemainingTasksA a (emit (.CY ks) s)).2.halted = false →
    ∃ toks m', Emits s toks (cancelRemainingTasksA a (emit (.CY ks) s)).2 ∧
      trun (program rules) ms toks = some ⟨m', none⟩ ∧
      RelPost rules key (cancelRemainingTasksA a (emit (.CY ks) s)).2 m' false ∧ m'.started = true := by
  intro rules hok a s ms key ks hr hp hh htgt hmid hlasso hnh
  obtain ⟨m, p⟩ := ms
  simp only at hp
  subst hp
  replace htgt : m.target = some key := htgt
  replace hlasso : lassoOk m key ks = true ∨ (ks.isEmpty = true ∧ isDone m key = true) := hlasso
  have hstep : step (program rules) m (.cycle ks) = some (setCy true m) := by
    simp only [step, htgt]
    rw [if_pos]
    · simp only [setCy, htgt]
    · rcases hlasso with h | ⟨h1, h2⟩
      · simp [h]
      · simp [h1, h2]
  have hts : tstep (program rules) ⟨m, none⟩ (.CY ks) = some ⟨setCy true m, none⟩ :=
    tstep_ev (t := .CY ks) (by rfl) (by rfl) hstep
  have hcnt : s.numOutstandingUnfinishedTasks ≤ s.pendingDeferred.length + s.finishedTaskInfos.length :=
    Nat.le_of_eq (by simpa using hr.outstandingCount)
  rcases emit_spec (.CY ks) s hh with he | ⟨_, he⟩
  · rw [he] at hnh ⊢
    have hinv : DrainInv rules key { s with trace := .CY ks :: s.trace } (setCy true m) := by
      refine ⟨_, m, true, s.finishedTaskInfos, s.numOutstandingUnfinishedTasks,
        hr.recorder (.CY ks :: s.trace) s.halted s.cancelAtEvent s.cancelIssued s.sched s.buildCancelled
          hr.cancelled hr.errCancelled, hmid, rfl, rfl, htgt, Or.inr (Or.inl rfl), hcnt⟩
    obtain ⟨toks, m', h1, h2, h3, h4⟩ := cancelA_of_drainInv hok a hinv hh hnh
    refine ⟨.CY ks :: toks, m', ?_, ?_, h3, h4⟩
    · unfold Emits at h1 ⊢
      rw [h1]; simp
    · simp only [trun, hts, Option.bind_some]
      exact h2
  · rw [he] at hnh ⊢
    have hinv : DrainInv rules key { s with trace := .X :: .CY ks :: s.trace, cancelIssued := true, buildCancelled := true }
        (setCy true (cancelM m)) := by
      refine ⟨_, cancelM m, true, s.finishedTaskInfos, s.numOutstandingUnfinishedTasks,
        hr.cancelled_ms (.X :: .CY ks :: s.trace), hmid, rfl, rfl, htgt, Or.inr (Or.inl rfl), hcnt⟩
    obtain ⟨toks, m', h1, h2, h3, h4⟩ := cancelA_of_drainInv hok a hinv hh hnh
    refine ⟨.CY ks :: .X :: toks, m', ?_, ?_, h3, h4⟩
    · unfold Emits at h1 ⊢
      rw [h1]; simp
    · simp only [trun, hts, Option.bind_some, tstep_X]
      exact h2

/-! ## (T) no halt -/

/-- **`drainLoopA` never halts** when its fuel exceeds the number of outstanding tasks, whatever other threads do -/
theorem drainLoopA_nohalt {rules : List RuleSpec} (hok : RulesOk rules) :
    ∀ (fuel : Nat) (a : Async) (s : State), DrainInv0 rules s → s.halted = false →
    s.numOutstandingUnfinishedTasks < fuel → (drainLoopA fuel a s).2.halted = false
  | 0, _, s, _, _, hlt => by cases hlt
  | fuel + 1, a, s, hinv, hh, hlt => by
    rw [drainLoopA_succ]
    by_cases h0 : (s.numOutstandingUnfinishedTasks == 0) = true
    · rw [if_pos h0]; exact hh
    · rw [if_neg h0]
      have h0' : s.numOutstandingUnfinishedTasks ≠ 0 := by simpa using h0
      obtain ⟨hinv1, hh1, hnum1, hfin⟩ := drain_roundA0 hok a hinv hh
      have hfin1 := hfin h0'
      have hne : ¬ (hook 2 (asyncPoint a s).2).finishedTaskInfos.isEmpty = true := by
        simpa using hfin1
      rw [if_neg hne]
      apply drainLoopA_nohalt hok fuel
      · obtain ⟨g, m0, f, n, a1, a3, a7⟩ := hinv1
        refine ⟨g, m0, [], (hook 2 (asyncPoint a s).2).numOutstandingUnfinishedTasks -
          (hook 2 (asyncPoint a s).2).finishedTaskInfos.length, a1, ?_, ?_⟩
        · rw [a3]; rfl
        · rw [a3]
          show n - f.length ≤ g.pendingDeferred.length + 0
          omega
      · exact hh1
      · show (hook 2 (asyncPoint a s).2).numOutstandingUnfinishedTasks -
          (hook 2 (asyncPoint a s).2).finishedTaskInfos.length < fuel
        rw [hnum1]
        have : 0 < (hook 2 (asyncPoint a s).2).finishedTaskInfos.length := List.length_pos_iff.2 hfin1
        omega

theorem cancelRemainingTasksA_nohalt0 {rules : List RuleSpec} (hok : RulesOk rules) (a : Async) {s : State}
    (hinv : DrainInv0 rules s) (hh : s.halted = false) (hlt : s.numOutstandingUnfinishedTasks < loopFuel) :
    (cancelRemainingTasksA a s).2.halted = false := by
  have e : (cancelRemainingTasksA a s).2 = cancelFinish (drainLoopA loopFuel a s).2 := rfl
  rw [e, cancelFinish_halted]
  exact drainLoopA_nohalt hok loopFuel a s hinv hh hlt

theorem cancelRemainingTasksA_nohalt {rules : List RuleSpec} (hok : RulesOk rules) (a : Async) {s : State} {ms : MSt}
    (hr : Rel rules s ms {}) (hp : ms.pend = none) (hh : s.halted = false)
    (hlt : s.numOutstandingUnfinishedTasks < loopFuel) : (cancelRemainingTasksA a s).2.halted = false := by
  obtain ⟨m, p⟩ := ms
  simp only at hp
  subst hp
  exact cancelRemainingTasksA_nohalt0 hok a (DrainInv0.ofRel hr) hh hlt

theorem cancelRemainingTasksA_cycle_nohalt {rules : List RuleSpec} (hok : RulesOk rules) (a : Async) {s : State} {ms : MSt}
    (ks : List Key) (hr : Rel rules s ms {}) (hp : ms.pend = none) (hh : s.halted = false)
    (hlt : s.numOutstandingUnfinishedTasks < loopFuel) :
    (cancelRemainingTasksA a (emit (.CY ks) s)).2.halted = false := by
  obtain ⟨m, p⟩ := ms
  simp only at hp
  subst hp
  apply cancelRemainingTasksA_nohalt0 hok a
  · rcases emit_spec (.CY ks) s hh with he | ⟨_, he⟩
    · rw [he]
      exact DrainInv0.ofRel (m := m)
        (hr.recorder (.CY ks :: s.trace) s.halted s.cancelAtEvent s.cancelIssued s.sched s.buildCancelled
          hr.cancelled hr.errCancelled)
    · rw [he]
      exact DrainInv0.ofRel (m := cancelM m) (hr.cancelled_ms (.X :: .CY ks :: s.trace))
  · rw [emit_halted_eq]; exact hh
  · rw [emit_numOutstanding]; exact hlt

/-- **(T)** the cancellation exit never halts when the potential is below the fuel -/
theorem cancelRemainingTasksA_nohalt_of_Phi {rules : List RuleSpec} (hok : RulesOk rules) (a : Async) {U : List Key}
    {s : State} {ms : MSt} (hr : Rel rules s ms {}) (hp : ms.pend = none) (hU : ClosedU rules U s) (hh : s.halted = false)
    (hlt : Phi rules U s {} < loopFuel) : (cancelRemainingTasksA a s).2.halted = false :=
  cancelRemainingTasksA_nohalt hok a hr hp hh (Nat.lt_of_le_of_lt (outstanding_le_Phi hr hp hU) hlt)

/-- **(T)** nor the cycle exit -/
theorem cancelRemainingTasksA_cycle_nohalt_of_Phi {rules : List RuleSpec} (hok : RulesOk rules) (a : Async) {U : List Key}
    {s : State} {ms : MSt} (ks : List Key) (hr : Rel rules s ms {}) (hp : ms.pend = none) (hU : ClosedU rules U s)
    (hh : s.halted = false) (hlt : Phi rules U s {} < loopFuel) :
    (cancelRemainingTasksA a (emit (.CY ks) s)).2.halted = false :=
  cancelRemainingTasksA_cycle_nohalt hok a ks hr hp hh (Nat.lt_of_le_of_lt (outstanding_le_Phi hr hp hU) hlt)

end LLBuild.Refine
