/-
IM2 — refinement: section D of `Todo.lean` — ready tasks, completions, the hook.
* `Rel.updTask`: ONE generic re-establishment of `Rel` for "the rule and the task of `a` are replaced (the rule ends
  `InProgressComputing`), the three task queues and the counter are set"; the delicate clauses are hypotheses;
* `taskComplete_eq` (batched form), `taskComplete_step`, `taskComplete_sim : Todo_taskComplete`;
* `readyStep_sim : Todo_readyStep`, `readyTasksLoop_sim : Todo_readyTasksLoop`;
* `hook_sim : Todo_hook`, `waitStep_ok : Todo_waitStep`.
-/
import LLBuild.Lemmas.Refine.Scan
import LLBuild.Lemmas.Refine.Halt

namespace LLBuild.Refine
open LLBuild.Engine LLBuild.Engine.DSL LLBuild.EngineImpl

/-! ## lists: `insertKey`, `filter (· != a)` -/

theorem mem_insertKey (k x : Key) : ∀ (l : List Key), x ∈ insertKey k l ↔ x = k ∨ x ∈ l
  | [] => by simp [insertKey]
  | y :: ys => by
    simp only [insertKey]
    split
    · simp
    · split
      · rename_i h2
        have e : k = y := by simpa using h2
        subst e; simp
      · rw [List.mem_cons, mem_insertKey k x ys, List.mem_cons]
        constructor
        · rintro (h | h | h)
          · exact Or.inr (Or.inl h)
          · exact Or.inl h
          · exact Or.inr (Or.inr h)
        · rintro (h | h | h)
          · exact Or.inr (Or.inl h)
          · exact Or.inl h
          · exact Or.inr (Or.inr h)

theorem insertKey_nodup (k : Key) : ∀ (l : List Key), k ∉ l → l.Nodup → (insertKey k l).Nodup
  | [], _, _ => by simp [insertKey]
  | y :: ys, hk, hn => by
    simp only [insertKey]
    split
    · exact List.nodup_cons.2 ⟨hk, hn⟩
    · split
      · exact hn
      · have hk' : k ∉ ys := fun h => hk (List.mem_cons_of_mem _ h)
        have hn' := List.nodup_cons.1 hn
        refine List.nodup_cons.2 ⟨?_, insertKey_nodup k ys hk' hn'.2⟩
        intro hm
        rcases (mem_insertKey k y ys).1 hm with e | e
        · exact hk (by rw [e]; exact List.mem_cons_self)
        · exact hn'.1 e

theorem insertKey_length (k : Key) : ∀ (l : List Key), k ∉ l → (insertKey k l).length = l.length + 1
  | [], _ => by simp [insertKey]
  | y :: ys, hk => by
    simp only [insertKey]
    split
    · simp
    · split
      · rename_i h2
        have e : k = y := by simpa using h2
        exact absurd (by rw [e]; exact List.mem_cons_self) hk
      · have hk' : k ∉ ys := fun h => hk (List.mem_cons_of_mem _ h)
        simp [insertKey_length k ys hk']

theorem filter_ne_of_not_mem (k : Key) : ∀ (l : List Key), k ∉ l → l.filter (· != k) = l
  | [], _ => rfl
  | y :: ys, hk => by
    have hy : y ≠ k := fun e => hk (by rw [e]; exact List.mem_cons_self)
    have hk' : k ∉ ys := fun h => hk (List.mem_cons_of_mem _ h)
    simp [hy, filter_ne_of_not_mem k ys hk']

theorem filter_insertKey (k : Key) : ∀ (l : List Key), k ∉ l → (insertKey k l).filter (· != k) = l
  | [], _ => by simp [insertKey]
  | y :: ys, hk => by
    have hy : y ≠ k := fun e => hk (by rw [e]; exact List.mem_cons_self)
    have hk' : k ∉ ys := fun h => hk (List.mem_cons_of_mem _ h)
    simp only [insertKey]
    split
    · simp [hy, filter_ne_of_not_mem k ys hk']
    · split
      · rename_i h2
        have e : k = y := by simpa using h2
        exact absurd e.symm hy
      · simp [hy, filter_insertKey k ys hk']

theorem filter_ne_length (a : Key) : ∀ (l : List Key), l.Nodup → a ∈ l → (l.filter (· != a)).length + 1 = l.length
  | [], _, h => by cases h
  | y :: ys, hn, hm => by
    have hn' := List.nodup_cons.1 hn
    by_cases e : y = a
    · subst e
      simp [filter_ne_of_not_mem y ys hn'.1]
    · have hm' : a ∈ ys := by
        rcases List.mem_cons.1 hm with h | h
        · exact absurd h.symm e
        · exact h
      simp [e, filter_ne_length a ys hn'.2 hm']

/-! ## association lists: replacing an entry in place -/

theorem mem_alSet_of_lookup {α : Type} {l : List (Key × α)} {k : Key} {old new : α} (hl : l.lookup k = some old)
    (p : Key × α) : p ∈ alSet l k new → p = (k, new) ∨ p ∈ l := by
  obtain ⟨l1, l2, h1, h2, _⟩ := alSet_split l k old new hl
  rw [h2, h1]
  simp only [List.mem_append, List.mem_cons]
  rintro (h | h | h)
  · exact Or.inr (Or.inl h)
  · exact Or.inl h
  · exact Or.inr (Or.inr (Or.inr h))

theorem flatMap_alSet {α β : Type} (f : α → List β) {l : List (Key × α)} {k : Key} {old new : α}
    (hl : l.lookup k = some old) (hf : f new = f old) :
    (alSet l k new).flatMap (fun p => f p.2) = l.flatMap (fun p => f p.2) := by
  obtain ⟨l1, l2, h1, h2, _⟩ := alSet_split l k old new hl
  rw [h2, h1]
  simp [List.flatMap_append, List.flatMap_cons, hf]

/-! ## the generic update of one task and its rule -/

/-- the engine with the rule and the task of `a` replaced and the three task queues / the counter set -/
def updS (ri : RuleInfo) (t : TaskInfo) (rdy fin pd : List Key) (n : Nat) (s : State) : State :=
  { s with ruleInfos := alSet s.ruleInfos ri.key ri, taskInfos := alSet s.taskInfos t.forRuleInfo t,
           readyTaskInfos := rdy, finishedTaskInfos := fin, pendingDeferred := pd, numOutstandingUnfinishedTasks := n }

/-- the monitor after `inputsAvail a _` / `complete a _ _`: status `computing`, the task and the result of `a` replaced -/
def updM (m : Engine.St) (a : Key) (tk : Task) (r : Res) : Engine.St :=
  { m with status := upd m.status a .computing, task := upd m.task a tk, mem := m.mem.setRes a r }

section updS
variable {s : State} {ri : RuleInfo} {t : TaskInfo} {rdy fin pd : List Key} {n : Nat}

theorem updS_lookup (k : Key) :
    (updS ri t rdy fin pd n s).ruleInfos.lookup k = if k = ri.key then some ri else s.ruleInfos.lookup k := by
  simp [updS, lookup_alSet]

theorem updS_tlookup (k : Key) :
    (updS ri t rdy fin pd n s).taskInfos.lookup k = if k = t.forRuleInfo then some t else s.taskInfos.lookup k := by
  simp [updS, lookup_alSet]

theorem updS_rule_ne {k : Key} (hne : k ≠ ri.key) : (updS ri t rdy fin pd n s).rule k = s.rule k := by
  unfold State.rule; rw [updS_lookup]; simp [hne]

theorem updS_rule_self : (updS ri t rdy fin pd n s).rule ri.key = ri := by
  unfold State.rule; rw [updS_lookup]; simp

theorem updS_liveRecords {ri0 : RuleInfo} (hl : s.ruleInfos.lookup ri.key = some ri0) (ho : ri0.isScanning = false)
    (hn : ri.isScanning = false) : liveRecords (updS ri t rdy fin pd n s) = liveRecords s :=
  setRule_liveRecords_nn (s := s) hl rfl ho hn

theorem updS_scanCount {ri0 : RuleInfo} (hl : s.ruleInfos.lookup ri.key = some ri0) (ho : ri0.isScanning = false)
    (hn : ri.isScanning = false) :
    ((updS ri t rdy fin pd n s).ruleInfos.filter (fun p => p.2.isScanning)).length =
      (s.ruleInfos.filter (fun p => p.2.isScanning)).length :=
  setRule_scanCount_nn (s := s) hl rfl ho hn

theorem updS_requestedByAll {t0 : TaskInfo} (hlt : s.taskInfos.lookup t.forRuleInfo = some t0)
    (hreq : t.requestedBy = t0.requestedBy) : requestedByAll (updS ri t rdy fin pd n s) = requestedByAll s :=
  flatMap_alSet (fun x : TaskInfo => x.requestedBy) hlt hreq

theorem updS_taskDeferred {t0 : TaskInfo} (hlt : s.taskInfos.lookup t.forRuleInfo = some t0)
    (hd : t.deferredScanRequests = t0.deferredScanRequests) :
    (updS ri t rdy fin pd n s).taskInfos.flatMap (fun p => p.2.deferredScanRequests) =
      s.taskInfos.flatMap (fun p => p.2.deferredScanRequests) :=
  flatMap_alSet (fun x : TaskInfo => x.deferredScanRequests) hlt hd

theorem updS_statusOf_ne (pend : Option Key) {k : Key} (hne : k ≠ ri.key) :
    statusOf (updS ri t rdy fin pd n s) pend k = statusOf s pend k := by
  unfold statusOf; rw [updS_lookup]; simp only [hne, if_false]; rfl

theorem updS_statusOf_self (pend : Option Key) (hst : ri.state = .inProgressComputing) :
    statusOf (updS ri t rdy fin pd n s) pend ri.key = .computing := by
  unfold statusOf; rw [updS_lookup]; simp [hst]

theorem updS_registered {k : Key} (h : Registered s k) : Registered (updS ri t rdy fin pd n s) k := by
  unfold Registered at *
  rw [updS_lookup]
  by_cases e : k = ri.key <;> simp [e, h]

theorem updS_unprocessed {ri0 : RuleInfo} (hl : s.ruleInfos.lookup ri.key = some ri0) (ho : ri0.isScanning = false)
    (hn : ri.isScanning = false) (h : Hand) : unprocessed (updS ri t rdy fin pd n s) h = unprocessed s h := by
  unfold unprocessed pausedAll; rw [updS_liveRecords hl ho hn]; rfl

theorem updS_outstanding {ri0 : RuleInfo} {t0 : TaskInfo} (hl : s.ruleInfos.lookup ri.key = some ri0)
    (ho : ri0.isScanning = false) (hn : ri.isScanning = false)
    (hlt : s.taskInfos.lookup t.forRuleInfo = some t0) (hreq : t.requestedBy = t0.requestedBy) (h : Hand) :
    outstanding (updS ri t rdy fin pd n s) h = outstanding s h := by
  unfold outstanding processed
  rw [updS_unprocessed hl ho hn, updS_requestedByAll hlt hreq]; rfl

end updS

/-- the task of `a` after an update that keeps its requests, its deliveries and its outstanding requests, and leaves
its rule not `InProgressWaiting` -/
theorem TaskOk.update {rules : List RuleSpec} {s s' : State} {m m' : Engine.St} {h : Hand} {a : Key} {t0 t : TaskInfo}
    (hb : TaskOk rules s m h a t0)
    (hfor : t.forRuleInfo = t0.forRuleInfo) (hiss : t.issuedReqs = t0.issuedReqs) (hrecv : t.recv = t0.recv)
    (hwc : t.waitCount = t0.waitCount)
    (hstarted : (m'.task a).started = (m.task a).started) (hissued : (m'.task a).issued = (m.task a).issued)
    (hseq : (m'.task a).seq = (m.task a).seq)
    (hcompl : (m'.task a).completed = t.done)
    (hout : outstanding s' h = outstanding s h) (hunp : unprocessed s' h = unprocessed s h)
    (hdone : ∀ x, isDone m x = true → isDone m' x = true)
    (hdeps : (s'.rule a).result.deps = (s.rule a).result.deps)
    (hnw : (s'.rule a).state ≠ .inProgressWaiting)
    (hdisc : t.discoveredDependencies = discDeps (m'.task a).discs) (hnone : ofTask a (outstanding s h) = []) :
    TaskOk rules s' m' h a t := by
  refine { forRule := by rw [hfor]; exact hb.forRule, started := by rw [hstarted]; exact hb.started,
           issued := by rw [hissued, hiss]; exact hb.issued,
           issuedSeq := by rw [hissued, hseq]; exact hb.issuedSeq, recv := by rw [hseq, hrecv]; exact hb.recv,
           deliveredIssued := by rw [hseq, hiss]; exact hb.deliveredIssued,
           completed := hcompl,
           waitCount := by rw [hwc, hout]; exact hb.waitCount,
           outIssued := ?_, issuedOut := ?_, outNodup := by rw [hout]; exact hb.outNodup, depsPerm := ?_,
           waiting := fun hw => absurd hw hnw, computing := fun _ => ⟨hdisc, by rw [hout]; exact hnone⟩ }
  · intro r hr
    rw [hout] at hr
    rw [hiss, hseq]
    exact hb.outIssued r hr
  · intro q hq
    rw [hiss] at hq
    obtain ⟨h1, h2⟩ := hb.issuedOut q hq
    rw [hseq, hout]
    refine ⟨h1, fun x => ?_⟩
    rcases h2 x with h3 | h3
    · exact Or.inl (hdone _ h3)
    · exact Or.inr h3
  · rw [hiss, hdeps, hunp]
    exact hb.depsPerm

/-- **The generic step of section D**: the rule of `a` (in progress) is replaced by one that is
`InProgressComputing`, its task by one with the same requests, the monitor's status of `a` becomes `computing`; the
three task queues and the counter are set.  What is specific to the caller is a hypothesis: the result of the rule
(`hres`), the task against the monitor's task (`htask`), the queues (`hrdy` … `hcount`). -/
theorem Rel.updTask {rules : List RuleSpec} {s : State} {m : Engine.St} {pend : Option Key} {h : Hand} {a : Key}
    {ri0 ri : RuleInfo} {t0 t : TaskInfo} {rdy fin pd : List Key} {n : Nat} {tk : Task} {r : Res}
    (hr : Rel rules s ⟨m, pend⟩ h)
    (hl : s.ruleInfos.lookup a = some ri0) (hlt : s.taskInfos.lookup a = some t0)
    (hst0 : ri0.state = .inProgressWaiting ∨ ri0.state = .inProgressComputing)
    (hkey : ri.key = a) (hsig : ri.signature = ri0.signature) (hstate : ri.state = .inProgressComputing)
    (hbuilt : ri.result.builtAt = ri0.result.builtAt)
    (hres : resRel true false r ri.result)
    (htk : t.forRuleInfo = a) (hreqBy : t.requestedBy = t0.requestedBy)
    (hdefer : t.deferredScanRequests = t0.deferredScanRequests)
    (hnoOut : ∀ x ∈ outstanding s h, x.taskInfo ≠ some a)
    (htask : TaskOk rules (updS ri t rdy fin pd n s) (updM m a tk r) h a t)
    (hrdy : ∀ b ∈ rdy, b ∈ s.readyTaskInfos ∧ b ≠ a) (hrdyN : rdy.Nodup)
    (hfin : ∀ b ∈ fin, (b ∈ s.finishedTaskInfos ∧ b ≠ a) ∨ (b = a ∧ t.done = true)) (hfinN : fin.Nodup)
    (hpd : ∀ b ∈ pd, (b ∈ s.pendingDeferred ∧ b ≠ a) ∨ (b = a ∧ t.done = false)) (hpdN : pd.Nodup)
    (hfinKeep : ∀ b, b ≠ a → b ∈ s.finishedTaskInfos → b ∈ fin)
    (hpdKeep : ∀ b, b ≠ a → b ∈ s.pendingDeferred → b ∈ pd)
    (hwhere : (t.done = false → a ∈ pd) ∧ (t.done = true → a ∈ fin))
    (hcount : n = pd.length + fin.length + (if pend.isSome then 1 else 0)) :
    Rel rules (updS ri t rdy fin pd n s) ⟨updM m a tk r, pend⟩ h := by
  subst hkey
  have hl' : s.ruleInfos.lookup ri.key = some ri0 := hl
  have hlt' : s.taskInfos.lookup t.forRuleInfo = some t0 := by rw [htk]; exact hlt
  have ho : ri0.isScanning = false := by rcases hst0 with e | e <;> simp [RuleInfo.isScanning, e]
  have hn : ri.isScanning = false := by simp [RuleInfo.isScanning, hstate]
  have hlk := updS_lookup (s := s) (ri := ri) (t := t) (rdy := rdy) (fin := fin) (pd := pd) (n := n)
  have htlk := updS_tlookup (s := s) (ri := ri) (t := t) (rdy := rdy) (fin := fin) (pd := pd) (n := n)
  rw [htk] at htlk
  have hlive : liveRecords (updS ri t rdy fin pd n s) = liveRecords s := updS_liveRecords hl' ho hn
  have hreqAll : requestedByAll (updS ri t rdy fin pd n s) = requestedByAll s := updS_requestedByAll hlt' hreqBy
  have hunp : unprocessed (updS ri t rdy fin pd n s) h = unprocessed s h := by
    unfold unprocessed pausedAll; rw [hlive]; rfl
  have hproc : processed (updS ri t rdy fin pd n s) h = processed s h := by
    unfold processed; rw [hreqAll]; rfl
  have hout : outstanding (updS ri t rdy fin pd n s) h = outstanding s h := by
    unfold outstanding; rw [hunp, hproc]
  have hscanReqs : scanReqs (updS ri t rdy fin pd n s) h = scanReqs s h := by
    unfold scanReqs deferredAll; rw [hlive, updS_taskDeferred hlt' hdefer]; rfl
  -- the monitor
  have hmstat0 : m.status ri.key = .running ∨ m.status ri.key = .computing := by
    have := hr.status ri.key
    simp only [statusOf, hl] at this
    rcases hst0 with e | e <;> simp only [e] at this
    · exact Or.inl this
    · exact Or.inr this
  have hstatus' : ∀ k, (updM m ri.key tk r).status k = if k = ri.key then .computing else m.status k := by
    intro k; simp [updM, upd]
  have hdoneEq : ∀ x, isDone (updM m ri.key tk r) x = isDone m x := by
    intro x
    unfold isDone
    rw [hstatus']
    by_cases e : x = ri.key
    · subst e; rcases hmstat0 with e2 | e2 <;> rw [e2] <;> simp <;> rfl
    · simp [e]
  have hmem' : ∀ k, k ≠ ri.key → (updM m ri.key tk r).mem.res k = m.mem.res k := by
    intro k hne; simp [updM, Store.setRes, upd, hne]
  have htask' : ∀ k, k ≠ ri.key → (updM m ri.key tk r).task k = m.task k := by
    intro k hne; simp [updM, upd, hne]
  have hnotDone : isDone m ri.key = false := by
    unfold isDone; rcases hmstat0 with e2 | e2 <;> rw [e2] <;> rfl
  have hfreshdep : ∀ (r' : Res) d, depFresh m r' d = true → depFresh (updM m ri.key tk r) r' d = true := by
    intro r' d hd
    unfold depFresh at hd ⊢
    simp only [Bool.and_eq_true] at hd ⊢
    have hdk : d.key ≠ ri.key := by
      intro e; have := hd.1; rw [e, hnotDone] at this; cases this
    rw [hdoneEq, hmem' _ hdk]; exact hd
  have hpendNe : ∀ k, pend = some k → k ≠ ri.key := by
    intro k hp e
    obtain ⟨ri', h1, h2, _⟩ := hr.pendOk k hp
    rw [e, hl] at h1
    cases h1
    rcases hst0 with e2 | e2 <;> rw [e2] at h2 <;> cases h2
  have hstatusOf : ∀ k, statusOf (updS ri t rdy fin pd n s) pend k = if k = ri.key then .computing else statusOf s pend k := by
    intro k
    by_cases e : k = ri.key
    · subst e; rw [updS_statusOf_self pend hstate]; simp
    · rw [updS_statusOf_ne pend e]; simp [e]
  have hstat0Of : statusOf s pend ri.key = .running ∨ statusOf s pend ri.key = .computing := by
    have := hr.status ri.key; simp only at this; rw [← this]; exact hmstat0
  have hreg := fun k (h1 : Registered s k) => updS_registered (ri := ri) (t := t) (rdy := rdy) (fin := fin) (pd := pd) (n := n) h1
  have hrule_ne : ∀ k, k ≠ ri.key → (updS ri t rdy fin pd n s).rule k = s.rule k := fun k hne => updS_rule_ne hne
  have hrule_self : (updS ri t rdy fin pd n s).rule ri.key = ri := updS_rule_self
  have hmemT : ∀ p ∈ (updS ri t rdy fin pd n s).taskInfos, p = (ri.key, t) ∨ p ∈ s.taskInfos := by
    intro p hp
    have := mem_alSet_of_lookup (new := t) hlt' p hp
    rw [htk] at this; exact this
  have hmemT0 : (ri.key, t0) ∈ s.taskInfos := lookup_mem _ _ _ hlt
  refine
    { rules_eq := hr.rules_eq, env := hr.env, hasDB := hr.hasDB, noResolve := hr.noResolve, noFail := hr.noFail,
      epoch := hr.epoch, reg := ?reg, keyOk := ?keyOk, rulesNodup := ?rulesNodup, sig := ?sig, res := ?res,
      resUnreg := ?resUnreg, db := hr.db, dbBuilt := hr.dbBuilt, dbBuiltLe := hr.dbBuiltLe, dbIter := hr.dbIter,
      builtLe := ?builtLe,
      active := hr.active, started := hr.started, notReturned := hr.notReturned, epochPos := hr.epochPos,
      cancelled := hr.cancelled, errCancelled := hr.errCancelled, noCycle := hr.noCycle, targetReg := hr.targetReg,
      status := ?status, pendOk := ?pendOk,
      validIdle := ?validIdle, scanningOk := ?scanningOk, dntrFresh := ?dntrFresh, inScanned := ?inScanned,
      inRan := ?inRan, ranOk := ?ranOk, scanOne := ?scanOne, scanOk := ?scanOk,
      deferredAtRecord := ?deferredAtRecord, deferredAtTask := ?deferredAtTask, recordLive := ?recordLive,
      scanCount := ?scanCount, recordWaited := ?recordWaited, midScan := ?midScan, taskKeys := ?taskKeys,
      taskNodup := ?taskNodup,
      taskOk := ?taskOk, reqReg := ?reqReg, reqTask := ?reqTask, dummyOk := ?dummyOk, dummyUnproc := ?dummyUnproc,
      pausedAt := ?pausedAt, requestedAt := ?requestedAt, finDone := ?finDone, pendingOk := ?pendingOk,
      readyOk := ?readyOk, readyNodup := hrdyN, finTaskOk := ?finTaskOk, finTaskNodup := hfinN,
      deferredOk := ?deferredOk, deferredNodup := hpdN, computingWhere := ?computingWhere,
      outstandingCount := hcount }
  case reg =>
    intro k
    show m.registered k = _
    rw [hlk, hr.reg k]
    by_cases e : k = ri.key
    · subst e; simp [hl]
    · simp [e]
  case keyOk =>
    intro k ri' h1
    rw [hlk] at h1
    by_cases e : k = ri.key
    · subst e; simp at h1; subst h1; rfl
    · simp [e] at h1; exact hr.keyOk k ri' h1
  case rulesNodup => exact setRule_rulesNodup (s := s) ri hr.rulesNodup
  case sig =>
    intro k ri' h1
    rw [hlk] at h1
    show m.sigAt k = _
    by_cases e : k = ri.key
    · subst e; simp at h1; subst h1; rw [hsig]; exact hr.sig _ ri0 hl
    · simp [e] at h1; exact hr.sig k ri' h1
  case res =>
    intro k ri' h1
    rw [hlk] at h1
    by_cases e : k = ri.key
    · subst e; simp at h1; subst h1
      have hp : (pend == some ri.key) = false := by
        cases hpe : pend with
        | none => rfl
        | some k' => simpa using hpendNe k' hpe
      have hi : StateKind.inProgress ri.state = true := by simp [StateKind.inProgress, hstate]
      show resRel _ _ ((updM m ri.key tk r).mem.res ri.key) _
      rw [hp, hi]
      simpa [updM, Store.setRes] using hres
    · simp [e] at h1
      show resRel _ _ ((updM m ri.key tk r).mem.res k) _
      rw [hmem' _ e]; exact hr.res k ri' h1
  case resUnreg =>
    intro k h1
    rw [hlk] at h1
    by_cases e : k = ri.key
    · subst e; simp at h1
    · simp only [e, if_false] at h1
      show (updM m ri.key tk r).mem.res k = _
      rw [hmem' _ e]; exact hr.resUnreg k h1
  case builtLe =>
    intro k ri' h1
    rw [hlk] at h1
    show _ ≤ s.currentEpoch
    by_cases e : k = ri.key
    · subst e; simp at h1; subst h1; rw [hbuilt]; exact hr.builtLe _ ri0 hl
    · simp [e] at h1; exact hr.builtLe k ri' h1
  case status =>
    intro k
    show (updM m ri.key tk r).status k = statusOf _ pend k
    rw [hstatusOf, hstatus']
    by_cases e : k = ri.key
    · simp [e]
    · simp only [e, if_false]; exact hr.status k
  case pendOk =>
    intro k hp
    have hp' : pend = some k := hp
    have hne := hpendNe k hp'
    obtain ⟨ri', h1, h2, h3, h4⟩ := hr.pendOk k hp
    refine ⟨ri', ?_, h2, h3, ?_⟩
    · rw [hlk]; simp [hne, h1]
    · show ((updM m ri.key tk r).task k).completed = true
      rw [htask' _ hne]; exact h4
  case validIdle =>
    intro k hi
    have hi' : (updM m ri.key tk r).status k = .idle := hi
    rw [hstatus'] at hi'
    show m.validSeen k = none
    by_cases e : k = ri.key
    · simp [e] at hi'
    · simp only [e, if_false] at hi'
      exact hr.validIdle k hi'
  case scanningOk =>
    intro k ri' h1 h2
    rw [hlk] at h1
    by_cases e : k = ri.key
    · subst e; simp at h1; subst h1
      rw [hstate] at h2; rcases h2 with h2 | h2 <;> cases h2
    · simp [e] at h1
      exact hr.scanningOk k ri' h1 h2
  case dntrFresh =>
    intro k ri' h1 h2
    rw [hlk] at h1
    by_cases e : k = ri.key
    · subst e; simp at h1; subst h1
      rw [hstate] at h2; cases h2
    · simp [e] at h1
      show ∀ d ∈ ((updM m ri.key tk r).mem.res k).deps, depFresh (updM m ri.key tk r) ((updM m ri.key tk r).mem.res k) d = true
      rw [hmem' _ e]
      intro d hd
      exact hfreshdep _ d (hr.dntrFresh k ri' h1 h2 d hd)
  case inScanned =>
    intro k hi
    have hi' : (updM m ri.key tk r).status k = .scanning := hi
    rw [hstatus'] at hi'
    show k ∈ m.scanned
    by_cases e : k = ri.key
    · simp [e] at hi'
    · simp only [e, if_false] at hi'
      exact hr.inScanned k hi'
  case inRan =>
    intro k hi
    have hi' : (updM m ri.key tk r).status k = .running ∨ (updM m ri.key tk r).status k = .computing := hi
    rw [hstatus'] at hi'
    show k ∈ m.ran
    by_cases e : k = ri.key
    · subst e; exact hr.inRan _ hmstat0
    · simp only [e, if_false] at hi'
      exact hr.inRan k hi'
  case ranOk =>
    intro k hk
    have hk' : k ∈ m.ran := hk
    show (updM m ri.key tk r).status k = .running ∨ (updM m ri.key tk r).status k = .computing ∨ (updM m ri.key tk r).status k = .done
    rw [hstatus']
    by_cases e : k = ri.key
    · simp [e]
    · simp only [e, if_false]; exact hr.ranOk k hk'
  case scanOne =>
    intro k ri' h1 h2
    rw [hlk] at h1
    rw [hscanReqs]
    by_cases e : k = ri.key
    · subst e; simp at h1; subst h1; rw [hstate] at h2; cases h2
    · simp [e] at h1
      exact hr.scanOne k ri' h1 h2
  case scanOk =>
    intro x hm
    rw [hscanReqs] at hm
    have h0 := hr.scanOk x hm
    have hne : x.ruleInfo ≠ ri.key := by
      intro e
      have hsc := h0.scanning
      rw [e, rule_of_lookup hl] at hsc
      simp [RuleInfo.isScanning, hsc] at ho
    exact h0.frame hreg (hrule_ne _ hne) (hmem' _ hne) (hfreshdep _)
  case deferredAtRecord => rw [hlive]; exact hr.deferredAtRecord
  case deferredAtTask =>
    intro p hp
    rcases hmemT p hp with e | e
    · subst e
      show ∀ x ∈ t.deferredScanRequests, _
      rw [hdefer]
      exact hr.deferredAtTask (ri.key, t0) hmemT0
    · exact hr.deferredAtTask p e
  case recordLive =>
    intro k ri' h1 h2
    rw [hlk] at h1
    by_cases e : k = ri.key
    · subst e; simp at h1; subst h1; rw [hstate] at h2; cases h2
    · simp [e] at h1; exact hr.recordLive k ri' h1 h2
  case scanCount =>
    rw [updS_scanCount hl' ho hn]; exact hr.scanCount
  case recordWaited => rw [hlive]; exact hr.recordWaited
  case midScan =>
    intro k ri' h1 h2
    rw [hlk] at h1
    by_cases e : k = ri.key
    · subst e; simp at h1; subst h1; rw [hstate] at h2; rcases h2 with h2 | h2 <;> cases h2
    · simp [e] at h1
      exact hr.midScan k ri' h1 h2
  case taskKeys =>
    intro k
    show ((updS ri t rdy fin pd n s).taskInfos.lookup k).isSome = (statusOf _ pend k == .running || statusOf _ pend k == .computing)
    rw [htlk, hstatusOf]
    by_cases e : k = ri.key
    · simp [e]
    · simp only [e, if_false]; exact hr.taskKeys k
  case taskNodup => exact alSet_keys_nodup _ _ _ hr.taskNodup
  case taskOk =>
    intro a' t' h1
    rw [htlk] at h1
    by_cases e : a' = ri.key
    · subst e; simp at h1; subst h1; exact htask
    · simp only [e, if_false] at h1
      refine (hr.taskOk a' t' h1).frame (hrule_ne _ e) (htask' _ e) (by rw [hout]) (by rw [hunp]) rfl rfl rfl
        (fun x hx => by rw [hdoneEq]; exact hx) ?_
      unfold priorDue
      rw [hmem' _ e]; rfl
  case reqReg =>
    intro x hm; rw [hout] at hm
    exact ⟨hreg _ (hr.reqReg x hm).1, (hr.reqReg x hm).2⟩
  case reqTask =>
    intro x hm a' ha; rw [hout] at hm
    obtain ⟨h1, h2⟩ := hr.reqTask x hm a' ha
    have hne : a' ≠ ri.key := by
      intro e; rw [e] at ha; exact hnoOut x hm ha
    refine ⟨?_, ?_⟩
    · rw [htlk]; simp only [hne, if_false]; exact h1
    · rw [hrule_ne _ hne]; exact h2
  case dummyOk =>
    intro x hm hnn; rw [hunp] at hm
    show (updM m ri.key tk r).status x.inputRuleInfo ≠ .idle ∨ m.target = some x.inputRuleInfo ∨
      (∃ p ∈ m.pending, p.1 = x.inputRuleInfo) ∨ _
    rw [hstatus']
    rcases hr.dummyOk x hm hnn with h1 | h1 | h1 | ⟨k2, t2, h1, h2, h3⟩
    · left
      by_cases e : x.inputRuleInfo = ri.key
      · simp [e]
      · simp only [e, if_false]; exact h1
    · exact Or.inr (Or.inl h1)
    · exact Or.inr (Or.inr (Or.inl h1))
    · refine Or.inr (Or.inr (Or.inr ⟨k2, t2, h1, ?_, h3⟩))
      have hne := hpendNe k2 h1
      rw [htlk]; simp only [hne, if_false]; exact h2
  case dummyUnproc => rw [hproc]; exact hr.dummyUnproc
  case pausedAt => rw [hlive]; exact hr.pausedAt
  case requestedAt =>
    intro p hp
    rcases hmemT p hp with e | e
    · subst e
      show ∀ x ∈ t.requestedBy, _
      rw [hreqBy]
      exact hr.requestedAt (ri.key, t0) hmemT0
    · exact hr.requestedAt p e
  case finDone =>
    intro x hm
    show isDone (updM m ri.key tk r) x.inputRuleInfo = true
    rw [hdoneEq]; exact hr.finDone x hm
  case pendingOk =>
    intro p hp
    rw [hunp, htlk]
    rcases hr.pendingOk p hp with h1 | h1
    · exact Or.inl h1
    · right
      by_cases e : p.1 = ri.key
      · simp [e]
      · simp only [e, if_false]; exact h1
  case readyOk =>
    intro b hb
    obtain ⟨hb1, hb2⟩ := hrdy b hb
    obtain ⟨t', h1, h2, h3⟩ := hr.readyOk b hb1
    exact ⟨t', by rw [htlk]; simp only [hb2, if_false]; exact h1, by rw [hrule_ne _ hb2]; exact h2, h3⟩
  case finTaskOk =>
    intro b hb
    rcases hfin b hb with ⟨hb1, hb2⟩ | ⟨hb1, hb2⟩
    · obtain ⟨t', h1, h2, h3⟩ := hr.finTaskOk b hb1
      exact ⟨t', by rw [htlk]; simp only [hb2, if_false]; exact h1, by rw [hrule_ne _ hb2]; exact h2, h3⟩
    · subst hb1
      exact ⟨t, by rw [htlk]; simp, by rw [hrule_self]; exact hstate, hb2⟩
  case deferredOk =>
    intro b hb
    rcases hpd b hb with ⟨hb1, hb2⟩ | ⟨hb1, hb2⟩
    · obtain ⟨t', h1, h2, h3⟩ := hr.deferredOk b hb1
      exact ⟨t', by rw [htlk]; simp only [hb2, if_false]; exact h1, by rw [hrule_ne _ hb2]; exact h2, h3⟩
    · subst hb1
      exact ⟨t, by rw [htlk]; simp, by rw [hrule_self]; exact hstate, hb2⟩
  case computingWhere =>
    intro b t' h1 h2
    rw [htlk] at h1
    by_cases e : b = ri.key
    · subst e; simp at h1; subst h1; exact hwhere
    · simp only [e, if_false] at h1
      rw [hrule_ne _ e] at h2
      obtain ⟨h3, h4⟩ := hr.computingWhere b t' h1 h2
      exact ⟨fun x => hpdKeep b e (h3 x), fun x => hfinKeep b e (h4 x)⟩

/-! ## 1. `taskComplete` -/

theorem emit_updS (tok : Tok) (s : State) (ri : RuleInfo) (t : TaskInfo) (rdy fin pd : List Key) (n : Nat) :
    emit tok (updS ri t rdy fin pd n s) = updS ri t rdy fin pd n (emit tok s) := by
  unfold emit updS
  by_cases hh : s.halted = true
  · simp [hh]
  · simp only [hh, Bool.false_eq_true, if_false]
    split <;> simp [doCancel] <;> split <;> rfl

/-- the result `taskIsComplete` stores: the signature always, value and `computedAt` when changed or forced -/
def completeRes (ri : RuleInfo) (v : Val) (fc : Bool) (epoch : Nat) : Res :=
  if !fc && v == ri.result.value then { ri.result with sig := ri.signature }
  else { ri.result with sig := ri.signature, value := v, computedAt := epoch }

/-- the engine update of `taskComplete a` (`done := true`, `taskIsComplete`) without the recorded token -/
def completeUpd (a : Key) (v : Val) (fc : Bool) (s : State) : State :=
  updS { s.rule a with result := completeRes (s.rule a) v fc s.currentEpoch } { s.task a with done := true }
    s.readyTaskInfos (s.finishedTaskInfos ++ [a]) s.pendingDeferred s.numOutstandingUnfinishedTasks s

/-- **`taskComplete` in batched form** (for a rule that is `InProgressComputing`: no `ER 4`) -/
theorem taskComplete_eq (a : Key) (s : State) (hc : (s.rule a).isInProgressComputing = true) :
    taskComplete a s =
      emit (.C a (outValue (specOf s.rules a) s.env (s.task a).recv) (specOf s.rules a).force)
        (completeUpd a (outValue (specOf s.rules a) s.env (s.task a).recv) ((specOf s.rules a).force != 0) s) := by
  unfold completeUpd
  rw [emit_updS]
  unfold taskComplete taskIsComplete
  simp only [State.modTask]
  have e1 : ∀ (x : State) (t : TaskInfo), (x.setTask t).rule a = x.rule a := fun _ _ => rfl
  simp only [e1, emit_rule, emit_task, hc, Bool.not_true, Bool.false_eq_true, if_false]
  apply state_ext <;> simp [updS, State.setRule, State.setTask, completeRes]

/-! ### the loop-level facts `Aux` (`Spec.lean`) across the generic update and the recorder -/

theorem Aux.updS {key : Key} {s : State} {h : Hand} {ri : RuleInfo} {t : TaskInfo} {rdy fin pd : List Key} {n : Nat}
    (hx : Aux key s h) (hst : ri.state = .inProgressComputing) (htk : t.forRuleInfo = ri.key)
    (hrdyKeep : ∀ b, b ≠ ri.key → b ∈ s.readyTaskInfos → b ∈ rdy) : Aux key (updS ri t rdy fin pd n s) h := by
  refine ⟨?_, ?_⟩
  · intro b tb hlb hwb hcb
    by_cases e : b = ri.key
    · subst e
      rw [updS_rule_self, hst] at hwb; cases hwb
    · rw [updS_tlookup, htk] at hlb
      simp only [e, if_false] at hlb
      rw [updS_rule_ne e] at hwb
      rcases hx.readyZero b tb hlb hwb hcb with h1 | h1
      · exact Or.inl (hrdyKeep b e h1)
      · exact Or.inr h1
  · by_cases e : key = ri.key
    · left; rw [e, updS_statusOf_self none hst]; decide
    · rw [updS_statusOf_ne none e]; exact hx.rootSeen

theorem statusOf_same {s s' : State} (hs : SameEngine s s') (pend : Option Key) (k : Key) :
    statusOf s' pend k = statusOf s pend k := by
  unfold statusOf; rw [hs.ruleInfos, hs.currentEpoch]

theorem Aux.same {key : Key} {s s' : State} {h : Hand} (hs : SameEngine s s') (hx : Aux key s h) : Aux key s' h := by
  refine ⟨?_, ?_⟩
  · intro b tb hlb hwb hcb
    rw [hs.taskInfos] at hlb
    rw [rule_same hs] at hwb
    rw [hs.readyTaskInfos]
    exact hx.readyZero b tb hlb hwb hcb
  · rw [statusOf_same hs, hs.inputRequests]; exact hx.rootSeen

/-- an accepted step of section D from a `Rel` state to a `Rel` state (hand empty), in whatever phase of the token
monitor (`C`, `X` are registration tokens); the function does not halt, does not touch the counter and never empties
`finishedTaskInfos` -/
def Step (rules : List RuleSpec) (s : State) (ms : MSt) (s' : State) : Prop :=
  ∃ toks ms', Emits s toks s' ∧ trun (program rules) ms toks = some ms' ∧ Rel rules s' ms' {} ∧ ms'.pend = ms.pend ∧
    RegMono s s' ∧ ms'.m.target = ms.m.target ∧ (NoMid s → NoMid s') ∧ s'.halted = false ∧
    s'.numOutstandingUnfinishedTasks = s.numOutstandingUnfinishedTasks ∧
    (s.finishedTaskInfos ≠ [] → s'.finishedTaskInfos ≠ []) ∧
    (∀ key, Aux key s {} → Aux key s' {})

theorem Step.refl {rules : List RuleSpec} {s : State} {ms : MSt} (hr : Rel rules s ms {}) (hh : s.halted = false) :
    Step rules s ms s :=
  ⟨[], ms, Emits.refl s, rfl, hr, rfl, fun _ x => x, rfl, id, hh, rfl, id, fun _ x => x⟩

theorem Step.bind {rules : List RuleSpec} {s s1 s2 : State} {ms : MSt} (h1 : Step rules s ms s1)
    (h2 : ∀ ms1, Rel rules s1 ms1 {} → s1.halted = false → Step rules s1 ms1 s2) : Step rules s ms s2 := by
  obtain ⟨toks, ms1, a1, a2, a3, a4, a5, a6, a7, a8, a9, a10, a11⟩ := h1
  obtain ⟨toks2, ms2, b1, b2, b3, b4, b5, b6, b7, b8, b9, b10, b11⟩ := h2 ms1 a3 a8
  exact ⟨toks ++ toks2, ms2, a1.trans b1, trun_append_some a2 b2, b3, b4.trans a4, fun k hk => b5 k (a5 k hk),
    b6.trans a6, fun x => b7 (a7 x), b8, b9.trans a9, fun x => b10 (a10 x), fun key x => b11 key (a11 key x)⟩

/-- the monitor's result of `complete a v fc` -/
def monRes (m : Engine.St) (a : Key) (v : Val) (fc : Bool) : Res :=
  if !fc && v == (m.mem.res a).value then { m.mem.res a with sig := m.sigAt a }
  else { m.mem.res a with sig := m.sigAt a, value := v, computedAt := m.epoch }

theorem step_complete {P : Program} {m : Engine.St} {a : Key} {v : Val} {fc : Bool}
    (hst : m.status a = .computing) (hstarted : (m.task a).started = true) (hcompl : (m.task a).completed = false)
    (hv : P.out a m.env (recvOf (m.task a).seq) = v) (hf : P.force a = fc) :
    step P m (.complete a v fc) = some (updM m a { m.task a with completed := true } (monRes m a v fc)) := by
  have e : upd m.status a .computing = m.status := by
    have := upd_self m.status a; rw [hst] at this; exact this
  simp only [step, hst, hstarted, hcompl, hv, hf, beq_self_eq_true, Bool.not_false, Bool.and_self, if_true]
  unfold updM monRes
  rw [e]

/-- **`taskComplete a`** for a task parked in `pendingDeferred` (the core of section D) -/
theorem taskComplete_step {rules : List RuleSpec} {s : State} {ms : MSt} {a : Key}
    (hr : Rel rules s ms {}) (hh : s.halted = false) (ha : a ∈ s.pendingDeferred) :
    Step rules s ms (taskComplete a { s with pendingDeferred := s.pendingDeferred.filter (· != a) }) ∧
    (taskComplete a { s with pendingDeferred := s.pendingDeferred.filter (· != a) }).finishedTaskInfos ≠ [] := by
  obtain ⟨m, pend⟩ := ms
  obtain ⟨t0, hlt, hcomp, hdone0⟩ := hr.deferredOk a ha
  have hregA : Registered s a := hr.task_registered (by rw [hlt]; rfl)
  obtain ⟨ri0, hl⟩ := Option.isSome_iff_exists.1 hregA
  have hrule : s.rule a = ri0 := rule_of_lookup hl
  have htaskA : s.task a = t0 := task_of_lookup hlt
  rw [hrule] at hcomp
  have hk : ri0.key = a := hr.keyOk a ri0 hl
  have hTok := hr.taskOk a t0 hlt
  have hfor : t0.forRuleInfo = a := hTok.forRule
  have hc : (({ s with pendingDeferred := s.pendingDeferred.filter (· != a) } : State).rule a).isInProgressComputing = true := by
    show (s.rule a).isInProgressComputing = true
    rw [hrule]; simp [RuleInfo.isInProgressComputing, hcomp]
  -- the batched form
  generalize hvdef : outValue (specOf s.rules a) s.env t0.recv = v
  generalize hfdef : (specOf s.rules a).force = f
  obtain ⟨ri, hri⟩ : ∃ ri : RuleInfo, ri = { ri0 with result := completeRes ri0 v (f != 0) s.currentEpoch } := ⟨_, rfl⟩
  obtain ⟨t, ht⟩ : ∃ t : TaskInfo, t = { t0 with done := true } := ⟨_, rfl⟩
  have hEq : taskComplete a { s with pendingDeferred := s.pendingDeferred.filter (· != a) } =
      emit (.C a v f) (updS ri t s.readyTaskInfos (s.finishedTaskInfos ++ [a]) (s.pendingDeferred.filter (· != a))
        s.numOutstandingUnfinishedTasks s) := by
    rw [taskComplete_eq a _ hc]
    unfold completeUpd
    show emit (.C a (outValue (specOf s.rules a) s.env (s.task a).recv) (specOf s.rules a).force)
      (updS { s.rule a with result := (completeRes (s.rule a) (outValue (specOf s.rules a) s.env (s.task a).recv)
          ((specOf s.rules a).force != 0) s.currentEpoch) } { s.task a with done := true }
        s.readyTaskInfos (s.finishedTaskInfos ++ [a]) (s.pendingDeferred.filter (· != a)) s.numOutstandingUnfinishedTasks s) = _
    rw [hrule, htaskA, hvdef, hfdef, hri, ht]
  rw [hEq]
  have hrik : ri.key = a := by rw [hri]; exact hk
  have hrisig : ri.signature = ri0.signature := by rw [hri]
  have hristate : ri.state = .inProgressComputing := by rw [hri]; exact hcomp
  have hrires : ri.result = completeRes ri0 v (f != 0) s.currentEpoch := by rw [hri]
  have htfor : t.forRuleInfo = a := by rw [ht]; exact hfor
  have htdone : t.done = true := by rw [ht]
  have hriS : ri.isScanning = false := by simp [RuleInfo.isScanning, hristate]
  -- the monitor
  have hstatA : m.status a = .computing := by
    have := hr.status a; simp only [statusOf, hl, hcomp] at this; exact this
  have hv : (program rules).out a m.env (recvOf (m.task a).seq) = v := by
    show outValue (specOf rules a) m.env (recvOf (m.task a).seq) = v
    rw [hTok.recv, hr.env, ← hr.rules_eq]; exact hvdef
  have hf : (program rules).force a = (f != 0) := by
    show ((specOf rules a).force != 0) = _
    rw [← hr.rules_eq, hfdef]
  have hstep := step_complete (P := program rules) hstatA hTok.started (by rw [hTok.completed]; exact hdone0) hv hf
  obtain ⟨tk, htk⟩ : ∃ tk : Engine.Task, tk = { m.task a with completed := true } := ⟨_, rfl⟩
  rw [← htk] at hstep
  have hts : tstep (program rules) ⟨m, pend⟩ (.C a v f) = some ⟨updM m a tk (monRes m a v (f != 0)), pend⟩ :=
    tstep_reg_any pend (by rfl) (by rfl) hstep
  have hmt : (updM m a tk (monRes m a v (f != 0))).task a = tk := by simp [updM]
  have hpendNe : (pend == some a) = false := by
    cases hpe : pend with
    | none => rfl
    | some k' =>
      have hp : (⟨m, pend⟩ : MSt).pend = some k' := hpe
      obtain ⟨ri', h1, h2, _⟩ := hr.pendOk k' hp
      have : k' ≠ a := by
        intro e; rw [e, hl] at h1; cases h1; rw [hcomp] at h2; cases h2
      simpa using this
  -- facts about the old state
  have hnone : ofTask a (outstanding s {}) = [] := (hTok.computing (by rw [hrule, hcomp]; decide)).2
  have hnoOut : ∀ x ∈ outstanding s {}, x.taskInfo ≠ some a := by
    intro x hx e
    have : x ∈ ofTask a (outstanding s {}) := by
      unfold ofTask; exact List.mem_filter.2 ⟨hx, by simp [e]⟩
    rw [hnone] at this; cases this
  have haFin : a ∉ s.finishedTaskInfos := by
    intro hm
    obtain ⟨t', h1, _, h3⟩ := hr.finTaskOk a hm
    rw [hlt] at h1; cases h1; rw [hdone0] at h3; cases h3
  have hri0s : ri0.isScanning = false := by simp [RuleInfo.isScanning, hcomp]
  have hl' : s.ruleInfos.lookup ri.key = some ri0 := by rw [hrik]; exact hl
  have hlt' : s.taskInfos.lookup t.forRuleInfo = some t0 := by rw [htfor]; exact hlt
  have hself := updS_rule_self (s := s) (ri := ri) (t := t) (rdy := s.readyTaskInfos) (fin := s.finishedTaskInfos ++ [a])
        (pd := s.pendingDeferred.filter (· != a)) (n := s.numOutstandingUnfinishedTasks)
  rw [hrik] at hself
  -- the relation for the updated engine
  have hrel : Rel rules
      (updS ri t s.readyTaskInfos (s.finishedTaskInfos ++ [a]) (s.pendingDeferred.filter (· != a)) s.numOutstandingUnfinishedTasks s)
      ⟨updM m a tk (monRes m a v (f != 0)), pend⟩ {} := by
    refine Rel.updTask (ri0 := ri0) (t0 := t0) hr hl hlt (Or.inr hcomp) hrik hrisig hristate ?hbuilt ?hres htfor
      (by rw [ht]) (by rw [ht]) hnoOut ?htask ?hrdy hr.readyNodup ?hfin ?hfinN ?hpd ?hpdN ?hfinKeep ?hpdKeep ?hwhere ?hcount
    case hbuilt => rw [hrires]; unfold completeRes; split <;> rfl
    case hres =>
      obtain ⟨o1, o2, o3, o4, _⟩ := hr.res a ri0 hl
      have o4' := o4 hpendNe
      have hsigA : m.sigAt a = ri0.signature := hr.sig a ri0 hl
      have hep : m.epoch = s.currentEpoch := hr.epoch
      rw [hrires]
      unfold monRes completeRes resRel
      rw [o1, hsigA, hep]
      by_cases hcnd : (!(f != 0) && v == ri0.result.value) = true
      · rw [if_pos hcnd, if_pos hcnd]
        exact ⟨o1, rfl, o3, fun _ => o4', fun _ x => by cases x⟩
      · rw [if_neg hcnd, if_neg hcnd]
        exact ⟨rfl, rfl, rfl, fun _ => o4', fun _ x => by cases x⟩
    case htask =>
      refine hTok.update (by rw [ht]) (by rw [ht]) (by rw [ht]) (by rw [ht]) (by rw [hmt, htk]) (by rw [hmt, htk])
        (by rw [hmt, htk]) (by rw [hmt, htk, htdone])
        (updS_outstanding hl' hri0s hriS hlt' (by rw [ht]) {}) (updS_unprocessed hl' hri0s hriS {}) ?_ ?_ ?_ ?_ hnone
      · intro x hx
        unfold isDone at hx ⊢
        by_cases e : x = a
        · subst e; rw [hstatA] at hx; cases hx
        · simpa [updM, upd, e] using hx
      · rw [hself, hrule, hrires]
        unfold completeRes; split <;> rfl
      · rw [hself, hristate]; decide
      · rw [hmt, htk, ht]
        exact (hTok.computing (by rw [hrule, hcomp]; decide)).1
    case hrdy =>
      intro b hb
      refine ⟨hb, ?_⟩
      intro e; subst e
      obtain ⟨_, _, h2, _⟩ := hr.readyOk b hb
      rw [hrule, hcomp] at h2; cases h2
    case hfin =>
      intro b hb
      rcases List.mem_append.1 hb with h1 | h1
      · left; exact ⟨h1, fun e => haFin (e ▸ h1)⟩
      · right; exact ⟨by simpa using h1, htdone⟩
    case hfinN =>
      refine List.nodup_append.2 ⟨hr.finTaskNodup, by simp, ?_⟩
      intro x hx y hy e
      have : y = a := by simpa using hy
      rw [this] at e; subst e; exact haFin hx
    case hpd =>
      intro b hb
      have := List.mem_filter.1 hb
      exact Or.inl ⟨this.1, by simpa using this.2⟩
    case hpdN => exact hr.deferredNodup.filter _
    case hfinKeep => intro b _ hb; exact List.mem_append_left _ hb
    case hpdKeep => intro b hne hb; exact List.mem_filter.2 ⟨hb, by simpa using hne⟩
    case hwhere => exact ⟨fun x => (by rw [htdone] at x; cases x), fun _ => (by simp)⟩
    case hcount =>
      have h1 := hr.outstandingCount
      have h2 := filter_ne_length a s.pendingDeferred hr.deferredNodup ha
      simp only [List.length_append, List.length_singleton]
      simp only at h1
      omega
  -- the token
  have hhU : (updS ri t s.readyTaskInfos (s.finishedTaskInfos ++ [a]) (s.pendingDeferred.filter (· != a))
      s.numOutstandingUnfinishedTasks s).halted = false := hh
  obtain ⟨toks', ms'', he, hrun', hrel', hms⟩ := Rel.emit_list [.C a v f] _ ⟨m, pend⟩ _ hhU
    (by intro t ht; simp at ht; subst ht; rfl) (by simp [trun, hts]) hrel
  simp only [emitAll_cons, emitAll_nil] at he hrel'
  have hsame := emit_same (.C a v f) (updS ri t s.readyTaskInfos (s.finishedTaskInfos ++ [a])
    (s.pendingDeferred.filter (· != a)) s.numOutstandingUnfinishedTasks s)
  have hlkU := updS_lookup (s := s) (ri := ri) (t := t) (rdy := s.readyTaskInfos) (fin := s.finishedTaskInfos ++ [a])
        (pd := s.pendingDeferred.filter (· != a)) (n := s.numOutstandingUnfinishedTasks)
  rw [hrik] at hlkU
  refine ⟨⟨toks', ms'', he, hrun', hrel', ?_, ?_, ?_, ?_, ?_, ?_, ?_, ?_⟩, ?_⟩
  · rcases hms with e | e <;> rw [e] <;> rfl
  · intro k hk'
    unfold Registered at *
    rw [hsame.ruleInfos]
    exact updS_registered hk'
  · rcases hms with e | e <;> rw [e] <;> rfl
  · intro hnm k ri' hlk'
    rw [hsame.ruleInfos, hlkU] at hlk'
    by_cases e : k = a
    · simp only [e, if_true, Option.some.injEq] at hlk'
      subst hlk'
      rw [hristate]; exact ⟨by decide, by decide⟩
    · simp only [e, if_false] at hlk'
      exact hnm k ri' hlk'
  · rw [emit_halted_eq]; exact hh
  · rw [hsame.numOutstandingUnfinishedTasks]; rfl
  · intro _
    rw [hsame.finishedTaskInfos]
    show s.finishedTaskInfos ++ [a] ≠ []
    simp
  · intro key hx
    exact (hx.updS hristate (by rw [htfor, hrik]) (fun _ _ hb => hb)).same hsame
  · rw [hsame.finishedTaskInfos]
    show s.finishedTaskInfos ++ [a] ≠ []
    simp

/-- **`Todo_taskComplete`** -/
theorem taskComplete_sim : Todo_taskComplete := by
  intro rules _ s ms a hr hh ha
  obtain ⟨⟨toks, ms', h1, h2, h3, h4, _, _, h7, _⟩, _⟩ := taskComplete_step hr hh ha
  exact ⟨toks, ms', h1, h2, h3, h4, h7⟩

/-! ## 2. `readyStep` -/

theorem alSet_self {α : Type} : ∀ (l : List (Key × α)) (k : Key) (x : α), l.lookup k = some x → alSet l k x = l
  | [], _, _, h => by simp at h
  | (k0, y) :: rest, k, x, h => by
    rw [lookup_cons_ite] at h
    by_cases hk : k = k0
    · subst hk
      simp only [if_true, Option.some.injEq] at h
      subst h
      simp [alSet]
    · simp only [hk, if_false] at h
      have hk' : (k0 == k) = false := by simpa using (Ne.symm hk)
      simp [alSet, hk', alSet_self rest k x h]

theorem setTask_setTask (s : State) (t t' : TaskInfo) (h : t.forRuleInfo = t'.forRuleInfo) :
    (s.setTask t).setTask t' = s.setTask t' := by
  simp [State.setTask, h, alSet_alSet]

theorem updS_setTask (ri : RuleInfo) (t t' : TaskInfo) (rdy fin pd : List Key) (n : Nat) (x : State)
    (h : t.forRuleInfo = t'.forRuleInfo) :
    (updS ri t rdy fin pd n x).setTask t' = updS ri t' rdy fin pd n x := by
  simp [updS, State.setTask, h, alSet_alSet]

/-- the loop of `taskDiscoveredDependency` calls of `DslTask::inputsAvailable` in closed form (`ER 3` unreachable for a
rule that is `InProgressComputing`) -/
theorem reportDiscovered_eq (a : Key) : ∀ (ds : List Key) (x : State) (tx : TaskInfo),
    (x.rule a).isInProgressComputing = true → x.taskInfos.lookup a = some tx → tx.forRuleInfo = a →
    reportDiscovered a ds x = x.setTask { tx with discoveredDependencies := tx.discoveredDependencies ++ discDeps ds }
  | [], x, tx, _, hlt, hfor => by
    simp only [reportDiscovered, discDeps, List.map_nil, List.append_nil]
    show x = x.setTask tx
    unfold State.setTask; rw [hfor, alSet_self _ _ _ hlt]
  | d :: ds, x, tx, hc, hlt, hfor => by
    rw [reportDiscovered]
    have e : taskDiscoveredDependency a d x =
        x.setTask { tx with discoveredDependencies := tx.discoveredDependencies ++ [⟨d, false, false⟩] } := by
      unfold taskDiscoveredDependency
      simp [hc, State.modTask, task_of_lookup hlt]
    rw [e, reportDiscovered_eq a ds
      (x.setTask { tx with discoveredDependencies := tx.discoveredDependencies ++ [⟨d, false, false⟩] })
      { tx with discoveredDependencies := tx.discoveredDependencies ++ [⟨d, false, false⟩] }
      hc (by rw [setTask_lookup]; simp [hfor]) hfor]
    rw [setTask_setTask]
    · simp [discDeps, List.append_assoc]
    · rfl

/-- `++numOutstandingUnfinishedTasks` -/
def bumpNum (s : State) : State := { s with numOutstandingUnfinishedTasks := s.numOutstandingUnfinishedTasks + 1 }

theorem emit_bumpNum (tok : Tok) (s : State) : emit tok (bumpNum s) = bumpNum (emit tok s) := by
  unfold emit bumpNum
  by_cases hh : s.halted = true
  · simp [hh]
  · simp only [hh, Bool.false_eq_true, if_false]
    split <;> simp [doCancel] <;> split <;> rfl

theorem taskComplete_bumpNum (a : Key) (y : State) (hc : (y.rule a).isInProgressComputing = true) :
    bumpNum (taskComplete a y) = taskComplete a (bumpNum y) := by
  rw [taskComplete_eq a y hc, taskComplete_eq a (bumpNum y) hc, ← emit_bumpNum]
  rfl

/-- **`readyStep` in batched form**: the engine update (rule → `InProgressComputing`, discovered dependencies recorded,
task parked in `pendingDeferred`, counter incremented), then `IA`; a task that is not deferred is completed at once
out of `pendingDeferred`. -/
theorem readyStep_eq (a : Key) (s : State) (rest : List Key) (ri0 : RuleInfo) (t0 : TaskInfo)
    (hl : s.ruleInfos.lookup a = some ri0) (hlt : s.taskInfos.lookup a = some t0) (hk : ri0.key = a)
    (hfor : t0.forRuleInfo = a) (hapd : a ∉ s.pendingDeferred)
    (ds : List Key) (hds : ds = discKeys (specOf s.rules a) t0.recv)
    (ri : RuleInfo) (hri : ri = { ri0 with state := .inProgressComputing })
    (t : TaskInfo) (ht : t = { t0 with discoveredDependencies := t0.discoveredDependencies ++ discDeps ds })
    (X : State) (hX : X = emit (.IA a ds) (updS ri t rest s.finishedTaskInfos (insertKey a s.pendingDeferred)
      (s.numOutstandingUnfinishedTasks + 1) s)) :
    readyStep a { s with readyTaskInfos := rest } =
      if (specOf s.rules a).deferred == 0 then taskComplete a { X with pendingDeferred := X.pendingDeferred.filter (· != a) }
      else X := by
  have hrik : ri.key = a := by rw [hri]; exact hk
  have htfor : t.forRuleInfo = a := by rw [ht]; exact hfor
  have hristate : ri.state = .inProgressComputing := by rw [hri]
  -- `setComputing`
  have e1 : ({ s with readyTaskInfos := rest } : State).modRule (({ s with readyTaskInfos := rest } : State).task a).forRuleInfo
      (fun ri => { ri with state := .inProgressComputing }) =
      updS ri t0 rest s.finishedTaskInfos s.pendingDeferred s.numOutstandingUnfinishedTasks s := by
    have h1 : ({ s with readyTaskInfos := rest } : State).task a = t0 := task_of_lookup (s := { s with readyTaskInfos := rest }) hlt
    have h2 : ({ s with readyTaskInfos := rest } : State).rule a = ri0 := rule_of_lookup (s := { s with readyTaskInfos := rest }) hl
    unfold State.modRule
    rw [h1, hfor, h2]
    show ({ s with readyTaskInfos := rest } : State).setRule { ri0 with state := .inProgressComputing } = _
    rw [← hri]
    unfold updS State.setRule
    rw [hfor, alSet_self _ _ _ hlt]
  -- `taskInputsAvailable`
  have hY1 : ∀ (E : State), ((updS ri t0 rest s.finishedTaskInfos s.pendingDeferred s.numOutstandingUnfinishedTasks E).rule a).isInProgressComputing = true := by
    intro E
    have := updS_rule_self (s := E) (ri := ri) (t := t0) (rdy := rest) (fin := s.finishedTaskInfos) (pd := s.pendingDeferred)
      (n := s.numOutstandingUnfinishedTasks)
    rw [hrik] at this
    rw [this]; simp [RuleInfo.isInProgressComputing, hristate]
  have hY2 : ∀ (E : State), (updS ri t0 rest s.finishedTaskInfos s.pendingDeferred s.numOutstandingUnfinishedTasks E).taskInfos.lookup a = some t0 := by
    intro E; rw [updS_tlookup]; simp [hfor]
  have e2 : reportDiscovered a ds (emit (.IA a ds) (updS ri t0 rest s.finishedTaskInfos s.pendingDeferred s.numOutstandingUnfinishedTasks s)) =
      updS ri t rest s.finishedTaskInfos s.pendingDeferred s.numOutstandingUnfinishedTasks (emit (.IA a ds) s) := by
    rw [emit_updS, reportDiscovered_eq a ds _ t0 (hY1 _) (hY2 _) hfor, ← ht, updS_setTask _ _ _ _ _ _ _ _ (by rw [ht])]
  have e3 : (specOf (updS ri t0 rest s.finishedTaskInfos s.pendingDeferred s.numOutstandingUnfinishedTasks s).rules a) = specOf s.rules a := rfl
  have e4 : ((updS ri t0 rest s.finishedTaskInfos s.pendingDeferred s.numOutstandingUnfinishedTasks s).task a).recv = t0.recv := by
    rw [task_of_lookup (hY2 s)]
  have hXe : X = updS ri t rest s.finishedTaskInfos (insertKey a s.pendingDeferred) (s.numOutstandingUnfinishedTasks + 1) (emit (.IA a ds) s) := by
    rw [hX, emit_updS]
  unfold readyStep
  simp only []
  rw [e1]
  unfold taskInputsAvailable
  simp only [e3, e4, ← hds, e2]
  by_cases hd : ((specOf s.rules a).deferred == 0) = true
  · simp only [hd, if_true]
    have hc : ((updS ri t rest s.finishedTaskInfos s.pendingDeferred s.numOutstandingUnfinishedTasks (emit (.IA a ds) s)).rule a).isInProgressComputing = true := by
      have := updS_rule_self (s := emit (.IA a ds) s) (ri := ri) (t := t) (rdy := rest) (fin := s.finishedTaskInfos) (pd := s.pendingDeferred)
        (n := s.numOutstandingUnfinishedTasks)
      rw [hrik] at this
      rw [this]; simp [RuleInfo.isInProgressComputing, hristate]
    have := taskComplete_bumpNum a _ hc
    unfold bumpNum at this
    rw [this, hXe]
    show taskComplete a (updS ri t rest s.finishedTaskInfos s.pendingDeferred (s.numOutstandingUnfinishedTasks + 1) (emit (.IA a ds) s)) =
      taskComplete a (updS ri t rest s.finishedTaskInfos ((insertKey a s.pendingDeferred).filter (· != a)) (s.numOutstandingUnfinishedTasks + 1) (emit (.IA a ds) s))
    rw [filter_insertKey a _ hapd]
  · simp only [hd, Bool.false_eq_true, if_false]
    rw [hXe]
    simp only [updS]

theorem NoMid.updS {s : State} {ri : RuleInfo} {t : TaskInfo} {rdy fin pd : List Key} {n : Nat} (h : NoMid s)
    (hst : ri.state = .inProgressComputing) : NoMid (updS ri t rdy fin pd n s) := by
  intro k ri' hlk
  rw [updS_lookup] at hlk
  by_cases e : k = ri.key
  · simp only [e, if_true, Option.some.injEq] at hlk
    subst hlk
    rw [hst]; exact ⟨by decide, by decide⟩
  · simp only [e, if_false] at hlk
    exact h k ri' hlk

theorem NoMid.same {s s' : State} (hs : SameEngine s s') (h : NoMid s) : NoMid s' := by
  intro k ri hlk
  rw [hs.ruleInfos] at hlk
  exact h k ri hlk

theorem step_inputsAvail {P : Program} {m : Engine.St} {a : Key} {ds : List Key}
    (hst : m.status a = .running) (hstarted : (m.task a).started = true)
    (hprior : (m.task a).priorSeen = priorDue m a)
    (hall : (m.task a).issued.all (fun q => if q.kind == 2 then isDone m q.key else delivered (m.task a).seq q) = true)
    (hds : ds = P.disc a (recvOf (m.task a).seq)) :
    step P m (.inputsAvail a ds) = some (updM m a { m.task a with discs := ds } (m.mem.res a)) := by
  subst hds
  have e : m.mem.setRes a (m.mem.res a) = m.mem := by unfold Store.setRes; rw [upd_self]
  simp only [step, hst, hstarted, hprior, hall, beq_self_eq_true, Bool.and_self, if_true]
  unfold updM
  rw [e]

/-- `readyStep` with everything its callers need: the simulation (unconditionally: `readyStep` never halts), and the
loop-level facts `Aux` -/
theorem readyStep_full {rules : List RuleSpec} {s : State} {ms : MSt} {a : Key} {rest : List Key}
    (hr : Rel rules s ms {}) (hp : ms.pend = none) (hh : s.halted = false) (hready : s.readyTaskInfos = a :: rest)
    (hnm : NoMid s) :
    (∃ toks ms', Emits s toks (readyStep a { s with readyTaskInfos := rest }) ∧ trun (program rules) ms toks = some ms' ∧
      Rel rules (readyStep a { s with readyTaskInfos := rest }) ms' {} ∧ ms'.pend = none ∧
      RegMono s (readyStep a { s with readyTaskInfos := rest }) ∧ ms'.m.target = ms.m.target ∧
      NoMid (readyStep a { s with readyTaskInfos := rest })) ∧
    (readyStep a { s with readyTaskInfos := rest }).halted = false ∧
    (∀ key, Aux key s {} → Aux key (readyStep a { s with readyTaskInfos := rest }) {}) := by
  obtain ⟨m, pend⟩ := ms
  simp only at hp; subst hp
  have haR : a ∈ s.readyTaskInfos := by rw [hready]; exact List.mem_cons_self
  obtain ⟨t0, hlt, hwait, hwc⟩ := hr.readyOk a haR
  have hregA : Registered s a := hr.task_registered (by rw [hlt]; rfl)
  obtain ⟨ri0, hl⟩ := Option.isSome_iff_exists.1 hregA
  have hrule : s.rule a = ri0 := rule_of_lookup hl
  rw [hrule] at hwait
  have hk : ri0.key = a := hr.keyOk a ri0 hl
  have hTok := hr.taskOk a t0 hlt
  have hfor : t0.forRuleInfo = a := hTok.forRule
  have hapd : a ∉ s.pendingDeferred := by
    intro h'; obtain ⟨_, _, h2, _⟩ := hr.deferredOk a h'; rw [hrule, hwait] at h2; cases h2
  have haFin : a ∉ s.finishedTaskInfos := by
    intro h'; obtain ⟨_, _, h2, _⟩ := hr.finTaskOk a h'; rw [hrule, hwait] at h2; cases h2
  have hnodup : (a :: rest).Nodup := by rw [← hready]; exact hr.readyNodup
  have haRest : a ∉ rest := (List.nodup_cons.1 hnodup).1
  obtain ⟨hw1, hw2, hw3⟩ := hTok.waiting (by rw [hrule]; exact hwait)
  have hprior : (m.task a).priorSeen = priorDue m a := by
    rcases hw1 with h1 | h1
    · exact h1
    · simp [Hand.issuingFor] at h1
  have hnone : ofTask a (outstanding s {}) = [] := by
    have := hTok.waitCount
    rw [hwc] at this
    exact List.eq_nil_of_length_eq_zero (by omega)
  have hnoOut : ∀ x ∈ outstanding s {}, x.taskInfo ≠ some a := by
    intro x hx e
    have : x ∈ ofTask a (outstanding s {}) := by
      unfold ofTask; exact List.mem_filter.2 ⟨hx, by simp [e]⟩
    rw [hnone] at this; cases this
  -- the batched form
  obtain ⟨ds, hds⟩ : ∃ ds, ds = discKeys (specOf s.rules a) t0.recv := ⟨_, rfl⟩
  obtain ⟨ri, hri⟩ : ∃ ri : RuleInfo, ri = { ri0 with state := .inProgressComputing } := ⟨_, rfl⟩
  obtain ⟨t, ht⟩ : ∃ t : TaskInfo, t = { t0 with discoveredDependencies := t0.discoveredDependencies ++ discDeps ds } := ⟨_, rfl⟩
  obtain ⟨X, hX⟩ : ∃ X, X = emit (.IA a ds) (updS ri t rest s.finishedTaskInfos (insertKey a s.pendingDeferred)
      (s.numOutstandingUnfinishedTasks + 1) s) := ⟨_, rfl⟩
  rw [readyStep_eq a s rest ri0 t0 hl hlt hk hfor hapd ds hds ri hri t ht X hX]
  have hrik : ri.key = a := by rw [hri]; exact hk
  have hristate : ri.state = .inProgressComputing := by rw [hri]
  have htfor : t.forRuleInfo = a := by rw [ht]; exact hfor
  have htdone : t.done = false := by rw [ht]; exact hw3
  have hri0s : ri0.isScanning = false := by simp [RuleInfo.isScanning, hwait]
  have hriS : ri.isScanning = false := by simp [RuleInfo.isScanning, hristate]
  have hl' : s.ruleInfos.lookup ri.key = some ri0 := by rw [hrik]; exact hl
  have hlt' : s.taskInfos.lookup t.forRuleInfo = some t0 := by rw [htfor]; exact hlt
  -- the monitor
  have hstatA : m.status a = .running := by
    have := hr.status a; simp only [statusOf, hl, hwait] at this; exact this
  have hissued : (m.task a).issued = t0.issuedReqs := by
    have := hTok.issued; simpa [Hand.toIssue] using this
  have hall : (m.task a).issued.all (fun q => if q.kind == 2 then isDone m q.key else delivered (m.task a).seq q) = true := by
    rw [hissued, List.all_eq_true]
    intro q hq
    obtain ⟨h1, h2⟩ := hTok.issuedOut q hq
    have hno : reqOf a q ∉ outstanding s {} := fun hm => hnoOut _ hm rfl
    by_cases hk2 : q.kind = 2
    · simp only [hk2, beq_self_eq_true, if_true]
      rcases h2 hk2 with h3 | h3
      · exact h3
      · exact absurd h3 hno
    · have : (q.kind == 2) = false := by simpa using hk2
      simp only [this, Bool.false_eq_true, if_false]
      cases hdl : delivered (m.task a).seq q with
      | true => rfl
      | false => exact absurd (h1 hk2 hdl) hno
  have hdsP : ds = (program rules).disc a (recvOf (m.task a).seq) := by
    show ds = discKeys (specOf rules a) (recvOf (m.task a).seq)
    rw [hTok.recv, ← hr.rules_eq]; exact hds
  have hstep := step_inputsAvail (P := program rules) hstatA hTok.started hprior hall hdsP
  obtain ⟨tk, htk⟩ : ∃ tk : Engine.Task, tk = { m.task a with discs := ds } := ⟨_, rfl⟩
  rw [← htk] at hstep
  have hts : tstep (program rules) ⟨m, none⟩ (.IA a ds) = some ⟨updM m a tk (m.mem.res a), none⟩ :=
    tstep_ev (by rfl) (by rfl) hstep
  have hmt : (updM m a tk (m.mem.res a)).task a = tk := by simp [updM]
  have hself := updS_rule_self (s := s) (ri := ri) (t := t) (rdy := rest) (fin := s.finishedTaskInfos)
        (pd := insertKey a s.pendingDeferred) (n := s.numOutstandingUnfinishedTasks + 1)
  rw [hrik] at hself
  -- the relation for the updated engine
  have hrel : Rel rules
      (updS ri t rest s.finishedTaskInfos (insertKey a s.pendingDeferred) (s.numOutstandingUnfinishedTasks + 1) s)
      ⟨updM m a tk (m.mem.res a), none⟩ {} := by
    refine Rel.updTask (ri0 := ri0) (t0 := t0) hr hl hlt (Or.inl hwait) hrik (by rw [hri]) hristate (by rw [hri]) ?hres htfor
      (by rw [ht]) (by rw [ht]) hnoOut ?htask ?hrdy (List.nodup_cons.1 hnodup).2 ?hfin hr.finTaskNodup ?hpd
      (insertKey_nodup a _ hapd hr.deferredNodup) (fun _ _ hb => hb) ?hpdKeep ?hwhere ?hcount
    case hres =>
      have := hr.res a ri0 hl
      rw [hwait] at this
      rw [hri]
      simpa [StateKind.inProgress] using this
    case htask =>
      refine hTok.update (by rw [ht]) (by rw [ht]) (by rw [ht]) (by rw [ht]) (by rw [hmt, htk]) (by rw [hmt, htk])
        (by rw [hmt, htk]) (by rw [hmt, htk, htdone]; show (m.task a).completed = false; rw [hTok.completed]; exact hw3)
        (updS_outstanding hl' hri0s hriS hlt' (by rw [ht]) {}) (updS_unprocessed hl' hri0s hriS {}) ?_ ?_ ?_ ?_ hnone
      · intro x hx
        unfold isDone at hx ⊢
        by_cases e : x = a
        · subst e; rw [hstatA] at hx; cases hx
        · simpa [updM, upd, e] using hx
      · rw [hself, hrule, hri]
      · rw [hself, hristate]; decide
      · rw [hmt, htk, ht, hw2]; rfl
    case hrdy =>
      intro b hb
      exact ⟨by rw [hready]; exact List.mem_cons_of_mem _ hb, fun e => haRest (e ▸ hb)⟩
    case hfin => intro b hb; exact Or.inl ⟨hb, fun e => haFin (e ▸ hb)⟩
    case hpd =>
      intro b hb
      rcases (mem_insertKey a b _).1 hb with e | e
      · exact Or.inr ⟨e, htdone⟩
      · exact Or.inl ⟨e, fun e' => hapd (e' ▸ e)⟩
    case hpdKeep => intro b _ hb; exact (mem_insertKey a b _).2 (Or.inr hb)
    case hwhere => exact ⟨fun _ => (mem_insertKey a a _).2 (Or.inl rfl), fun x => (by rw [htdone] at x; cases x)⟩
    case hcount =>
      have h1 := hr.outstandingCount
      simp only at h1
      rw [insertKey_length a _ hapd, h1]
      simp; omega
  -- the token
  have hhU : (updS ri t rest s.finishedTaskInfos (insertKey a s.pendingDeferred) (s.numOutstandingUnfinishedTasks + 1) s).halted = false := hh
  obtain ⟨toks', ms'', he, hrun', hrel', hms⟩ := Rel.emit_list [.IA a ds] _ ⟨m, none⟩ _ hhU
    (by intro t ht; simp at ht; subst ht; rfl) (by simp [trun, hts]) hrel
  simp only [emitAll_cons, emitAll_nil] at he hrel'
  rw [← hX] at he hrel'
  have hsame : SameEngine (updS ri t rest s.finishedTaskInfos (insertKey a s.pendingDeferred) (s.numOutstandingUnfinishedTasks + 1) s) X := by
    rw [hX]; exact emit_same _ _
  have hpend'' : ms''.pend = none := by rcases hms with e | e <;> rw [e] <;> rfl
  have htarget'' : ms''.m.target = m.target := by rcases hms with e | e <;> rw [e] <;> rfl
  have hregX : RegMono s X := by
    intro k hk'
    unfold Registered at *
    rw [hsame.ruleInfos]
    exact updS_registered hk'
  have hnmX : NoMid X := (hnm.updS hristate).same hsame
  have hheX : Emits s toks' X := he
  have hXh : X.halted = false := by rw [hX, emit_halted_eq]; exact hh
  have hauxX : ∀ key, Aux key s {} → Aux key X {} := by
    intro key hx
    refine (hx.updS hristate (by rw [htfor, hrik]) ?_).same hsame
    intro b hne hb
    rw [hready] at hb
    rcases List.mem_cons.1 hb with e | e
    · rw [hrik] at hne; exact absurd e hne
    · exact e
  by_cases hd : ((specOf s.rules a).deferred == 0) = true
  · simp only [hd, if_true]
    have hXpd : a ∈ X.pendingDeferred := by
      rw [hsame.pendingDeferred]; exact (mem_insertKey a a _).2 (Or.inl rfl)
    obtain ⟨⟨toks2, ms2, b1, b2, b3, b4, b5, b6, b7, b8, _, _, b11⟩, _⟩ := taskComplete_step hrel' hXh hXpd
    exact ⟨⟨toks' ++ toks2, ms2, hheX.trans b1, trun_append_some hrun' b2, b3, b4.trans hpend'', fun k hk' => b5 k (hregX k hk'),
      b6.trans htarget'', b7 hnmX⟩, b8, fun key hx => b11 key (hauxX key hx)⟩
  · simp only [hd, Bool.false_eq_true, if_false]
    exact ⟨⟨toks', ms'', hheX, hrun', hrel', hpend'', hregX, htarget'', hnmX⟩, hXh, hauxX⟩

/-- **`Todo_readyStep`** -/
theorem readyStep_sim : Todo_readyStep := by
  intro rules _ s ms a rest hr hp hh hready hnm _
  exact (readyStep_full hr hp hh hready hnm).1

/-! ## 3. `readyTasksLoop` -/

/-- **`Todo_readyTasksLoop`** -/
theorem readyTasksLoop_sim : Todo_readyTasksLoop := by
  intro rules hro fuel
  induction fuel with
  | zero =>
    intro w s ms _ _ _ _ hres
    simp [readyTasksLoop, halt_halted] at hres
  | succ fuel ih =>
    intro w s ms hr hp hh hnm
    rw [readyTasksLoop_succ]
    cases hq : s.readyTaskInfos with
    | nil =>
      simp only
      intro _
      exact ⟨[], ms, Emits.refl s, rfl, hr, hp, fun _ x => x, rfl, hq, hnm⟩
    | cons a rest =>
      simp only
      intro hres
      have hmono : HaltMono (fun x => (readyTasksLoop fuel true x).2) := haltMono_of (fun hR => rs_readyTasksLoop hR fuel true)
      have hh1 : (readyStep a { s with readyTaskInfos := rest }).halted = false := hmono.of_result hres
      obtain ⟨toks, ms1, a1, a2, a3, a4, a5, a6, a7⟩ := readyStep_sim rules hro s ms a rest hr hp hh hq hnm hh1
      obtain ⟨toks2, ms2, b1, b2, b3, b4, b5, b6, b7⟩ := ih true _ ms1 a3 a4 hh1 a7 hres
      exact ⟨toks ++ toks2, ms2, a1.trans b1, trun_append_some a2 b2, b3, b4, fun k hk => b5 k (a5 k hk), b6.trans a6, b7⟩

/-! ## 4. the hook -/

theorem Step.bind' {rules : List RuleSpec} {s s1 s2 : State} {ms : MSt} {Q : Prop} (h1 : Step rules s ms s1)
    (h2 : ∀ ms1, Rel rules s1 ms1 {} → s1.halted = false → ms1.pend = ms.pend → Step rules s1 ms1 s2 ∧ Q) :
    Step rules s ms s2 ∧ Q := by
  obtain ⟨toks, ms1, a1, a2, a3, a4, a5, a6, a7, a8, a9, a10, a11⟩ := h1
  obtain ⟨⟨toks2, ms2, b1, b2, b3, b4, b5, b6, b7, b8, b9, b10, b11⟩, hq⟩ := h2 ms1 a3 a8 a4
  exact ⟨⟨toks ++ toks2, ms2, a1.trans b1, trun_append_some a2 b2, b3, b4.trans a4, fun k hk => b5 k (a5 k hk),
    b6.trans a6, fun x => b7 (a7 x), b8, b9.trans a9, fun x => b10 (a10 x), fun key x => b11 key (a11 key x)⟩, hq⟩

theorem Step.fin_mono {rules : List RuleSpec} {s s' : State} {ms : MSt} (h : Step rules s ms s')
    (hf : s.finishedTaskInfos ≠ []) : s'.finishedTaskInfos ≠ [] := by
  obtain ⟨_, _, _, _, _, _, _, _, _, _, _, a10, _⟩ := h
  exact a10 hf

theorem Step.aux {rules : List RuleSpec} {s s' : State} {ms : MSt} (h : Step rules s ms s') (key : Key)
    (hx : Aux key s {}) : Aux key s' {} := by
  obtain ⟨_, _, _, _, _, _, _, _, _, _, _, _, a11⟩ := h
  exact a11 key hx

/-- `completeKey k`: nothing, or `taskComplete` of a parked task -/
theorem completeKey_step {rules : List RuleSpec} {s : State} {ms : MSt} (k : Key)
    (hr : Rel rules s ms {}) (hh : s.halted = false) :
    Step rules s ms (completeKey k s).2 ∧
      ((completeKey k s).1 = true → (completeKey k s).2.finishedTaskInfos ≠ []) ∧
      (k ∈ s.pendingDeferred → (completeKey k s).2.finishedTaskInfos ≠ []) := by
  unfold completeKey
  by_cases hc : s.pendingDeferred.contains k = true
  · simp only [hc, if_true]
    have hk : k ∈ s.pendingDeferred := by simpa using hc
    obtain ⟨h1, h2⟩ := taskComplete_step hr hh hk
    exact ⟨h1, fun _ => h2, fun _ => h2⟩
  · simp only [hc, Bool.false_eq_true, if_false]
    refine ⟨Step.refl hr hh, fun x => (by cases x), fun hk => ?_⟩
    exact absurd (by simpa using hk) hc

theorem completeSmallest_step {rules : List RuleSpec} {s : State} {ms : MSt}
    (hr : Rel rules s ms {}) (hh : s.halted = false) :
    Step rules s ms (completeSmallest s).2 ∧ (s.pendingDeferred ≠ [] → (completeSmallest s).2.finishedTaskInfos ≠ []) := by
  unfold completeSmallest
  cases hq : s.pendingDeferred with
  | nil => exact ⟨Step.refl hr hh, fun x => absurd rfl x⟩
  | cons k rest =>
    simp only
    obtain ⟨h1, _, h3⟩ := completeKey_step k hr hh
    exact ⟨h1, fun _ => h3 (by rw [hq]; exact List.mem_cons_self)⟩

theorem completeKeys_step {rules : List RuleSpec} : ∀ (ks : List Key) (any : Bool) (s : State) (ms : MSt),
    Rel rules s ms {} → s.halted = false →
    Step rules s ms (completeKeys ks any s).2 ∧
      ((completeKeys ks any s).1 = true → any = true ∨ (completeKeys ks any s).2.finishedTaskInfos ≠ [])
  | [], any, s, ms, hr, hh => ⟨Step.refl hr hh, fun x => Or.inl x⟩
  | k :: ks, any, s, ms, hr, hh => by
    rw [completeKeys]
    obtain ⟨h1, h2, _⟩ := completeKey_step k hr hh
    generalize completeKey k s = r at h1 h2 ⊢
    obtain ⟨b, s1⟩ := r
    simp only at h1 h2 ⊢
    have hboth := h1.bind' (Q := (completeKeys ks (any || b) s1).1 = true →
        (any || b) = true ∨ (completeKeys ks (any || b) s1).2.finishedTaskInfos ≠ [])
      (fun ms1 hr1 hh1 _ => completeKeys_step ks (any || b) s1 ms1 hr1 hh1)
    refine ⟨hboth.1, fun hres => ?_⟩
    rcases hboth.2 hres with e | e
    · cases any with
      | true => exact Or.inl rfl
      | false =>
        have hb : b = true := by simpa using e
        right
        obtain ⟨ms1, hr1, hh1⟩ : ∃ ms1, Rel rules s1 ms1 {} ∧ s1.halted = false := by
          obtain ⟨_, ms1, _, _, a3, _, _, _, _, a8, _⟩ := h1
          exact ⟨ms1, a3, a8⟩
        exact (completeKeys_step ks (false || b) s1 ms1 hr1 hh1).1.fin_mono (h2 hb)
    · exact Or.inr e

theorem doCancel_step {rules : List RuleSpec} {s : State} {ms : MSt} (hr : Rel rules s ms {}) (hh : s.halted = false) :
    Step rules s ms (doCancel s) := by
  rcases doCancel_spec s hh with he | ⟨_, he⟩
  · rw [he]; exact Step.refl hr hh
  · rw [he]
    have h1 := hr.mflags true ms.m.errSeen (fun _ => Or.inl rfl) hr.errCancelled
    have h2 := h1.recorder (.X :: s.trace) s.halted s.cancelAtEvent true s.sched true (fun _ => Or.inl rfl) (fun _ => rfl)
    exact ⟨[.X], ⟨{ ms.m with cancelled := true }, ms.pend⟩, by simp [Emits], by simp [trun, tstep_X], h2, rfl,
      fun _ x => x, rfl, id, hh, rfl, id, fun _ x => ⟨x.readyZero, x.rootSeen⟩⟩

/-- the scheduled part of `hook`: the completions of the next schedule item, then its cancellation -/
def hookSched (s : State) : Bool × State :=
  match s.sched with
  | [] => (false, s)
  | it :: rest =>
    ((completeKeys it.keys false { s with sched := rest }).1,
      if it.cancel then doCancel (completeKeys it.keys false { s with sched := rest }).2
      else (completeKeys it.keys false { s with sched := rest }).2)

theorem hook_eq (point : Nat) (s : State) :
    hook point s =
      if point == 2 then (completeSmallest s).2
      else if point == 1 && !(hookSched s).1 then (completeSmallest (hookSched s).2).2 else (hookSched s).2 := by
  unfold hook hookSched
  cases s.sched with
  | nil => rfl
  | cons it rest =>
    simp only

theorem hookSched_step {rules : List RuleSpec} {s : State} {ms : MSt} (hr : Rel rules s ms {}) (hh : s.halted = false) :
    Step rules s ms (hookSched s).2 ∧ ((hookSched s).1 = true → (hookSched s).2.finishedTaskInfos ≠ []) := by
  unfold hookSched
  cases hq : s.sched with
  | nil => exact ⟨Step.refl hr hh, fun x => by cases x⟩
  | cons it rest =>
    simp only
    have hr0 : Rel rules { s with sched := rest } ms {} :=
      hr.recorder s.trace s.halted s.cancelAtEvent s.cancelIssued rest s.buildCancelled hr.cancelled hr.errCancelled
    have hst0 : Step rules s ms { s with sched := rest } :=
      ⟨[], ms, by simp [Emits], rfl, hr0, rfl, fun _ x => x, rfl, id, hh, rfl, id, fun _ x => ⟨x.readyZero, x.rootSeen⟩⟩
    obtain ⟨h1, h2⟩ := completeKeys_step it.keys false { s with sched := rest } ms hr0 hh
    have h2' : (completeKeys it.keys false { s with sched := rest }).1 = true →
        (completeKeys it.keys false { s with sched := rest }).2.finishedTaskInfos ≠ [] := by
      intro x; rcases h2 x with e | e
      · cases e
      · exact e
    by_cases hc : it.cancel = true
    · simp only [hc, if_true]
      have := (hst0.bind (fun ms0 hr0' hh0 => (completeKeys_step it.keys false { s with sched := rest } ms0 hr0' hh0).1)).bind'
        (s2 := doCancel (completeKeys it.keys false { s with sched := rest }).2)
        (Q := (completeKeys it.keys false { s with sched := rest }).2.finishedTaskInfos ≠ [] →
          (doCancel (completeKeys it.keys false { s with sched := rest }).2).finishedTaskInfos ≠ [])
        (fun ms1 hr1 hh1 _ => ⟨doCancel_step hr1 hh1, (doCancel_step hr1 hh1).fin_mono⟩)
      exact ⟨this.1, fun x => this.2 (h2' x)⟩
    · simp only [hc, Bool.false_eq_true, if_false]
      exact ⟨hst0.bind (fun ms0 hr0' hh0 => (completeKeys_step it.keys false { s with sched := rest } ms0 hr0' hh0).1), h2'⟩

/-- `hook point`, with what the wait branch needs: at point 1, with outstanding tasks, some task is finished -/
theorem hook_step {rules : List RuleSpec} {s : State} {ms : MSt} (point : Nat) (hr : Rel rules s ms {}) (hh : s.halted = false) :
    Step rules s ms (hook point s) ∧
      (point = 1 → ms.pend = none → s.numOutstandingUnfinishedTasks ≠ 0 → (hook point s).finishedTaskInfos ≠ []) := by
  rw [hook_eq]
  by_cases h2 : (point == 2) = true
  · simp only [h2, if_true]
    refine ⟨(completeSmallest_step hr hh).1, fun e => ?_⟩
    rw [e] at h2; cases h2
  · simp only [h2, Bool.false_eq_true, if_false]
    obtain ⟨hs1, hs2⟩ := hookSched_step hr hh
    by_cases hc : (point == 1 && !(hookSched s).1) = true
    · simp only [hc, if_true]
      have := hs1.bind' (s2 := (completeSmallest (hookSched s).2).2)
        (Q := ms.pend = none → s.numOutstandingUnfinishedTasks ≠ 0 → (completeSmallest (hookSched s).2).2.finishedTaskInfos ≠ [])
        (fun ms1 hr1 hh1 hp1 => by
          obtain ⟨c1, c2⟩ := completeSmallest_step hr1 hh1
          refine ⟨c1, fun hp hn => ?_⟩
          by_cases hf : (hookSched s).2.finishedTaskInfos = []
          · apply c2
            intro hpd
            have hcnt := hr1.outstandingCount
            have hnum : (hookSched s).2.numOutstandingUnfinishedTasks = s.numOutstandingUnfinishedTasks := by
              obtain ⟨_, _, _, _, _, _, _, _, _, _, a9, _⟩ := hs1
              exact a9
            rw [hp1, hp, hpd, hf, hnum] at hcnt
            exact hn (by simpa using hcnt)
          · exact c1.fin_mono hf)
      exact ⟨this.1, fun _ hp hn => this.2 hp hn⟩
    · simp only [hc, Bool.false_eq_true, if_false]
      refine ⟨hs1, fun e _ _ => ?_⟩
      have hany : (hookSched s).1 = true := by
        rw [e] at hc
        cases hb : (hookSched s).1 with
        | true => rfl
        | false => rw [hb] at hc; simp at hc
      exact hs2 hany

/-- **`Todo_hook`** -/
theorem hook_sim : Todo_hook := by
  intro rules _ point s ms hr hp hh _
  obtain ⟨⟨toks, ms', a1, a2, a3, a4, a5, a6, a7, _⟩, _⟩ := hook_step point hr hh
  exact ⟨toks, ms', a1, a2, a3, a4.trans hp, a5, a6, a7⟩

/-- **`Todo_waitStep`**: no stall -/
theorem waitStep_ok : Todo_waitStep := by
  intro rules _ s ms hr hp hh hn _ _
  exact (hook_step 1 hr hh).2 rfl hp hn

/-! ## 5. the loop-level facts `Aux` (wave 2) -/

/-- `taskComplete` of a parked task preserves `Aux` -/
theorem taskComplete_aux {rules : List RuleSpec} {s : State} {ms : MSt} {a : Key} (key : Key)
    (hr : Rel rules s ms {}) (hh : s.halted = false) (ha : a ∈ s.pendingDeferred) (hx : Aux key s {}) :
    Aux key (taskComplete a { s with pendingDeferred := s.pendingDeferred.filter (· != a) }) {} :=
  (taskComplete_step hr hh ha).1.aux key hx

/-- `hook point` preserves `Aux` -/
theorem hook_aux {rules : List RuleSpec} {s : State} {ms : MSt} (key : Key) (point : Nat)
    (hr : Rel rules s ms {}) (_hp : ms.pend = none) (hh : s.halted = false) (hx : Aux key s {}) :
    Aux key (hook point s) {} :=
  (hook_step point hr hh).1.aux key hx

/-- the body of `readyTasksLoop` preserves `Aux` -/
theorem readyStep_aux {rules : List RuleSpec} {s : State} {ms : MSt} {a : Key} {rest : List Key} (key : Key)
    (hr : Rel rules s ms {}) (hp : ms.pend = none) (hh : s.halted = false) (hready : s.readyTaskInfos = a :: rest)
    (hnm : NoMid s) (hx : Aux key s {}) : Aux key (readyStep a { s with readyTaskInfos := rest }) {} :=
  (readyStep_full hr hp hh hready hnm).2.2 key hx

/-- `readyTasksLoop` preserves `Aux` -/
theorem readyTasksLoop_aux {rules : List RuleSpec} (key : Key) : ∀ (fuel : Nat) (w : Bool) (s : State) (ms : MSt),
    Rel rules s ms {} → ms.pend = none → s.halted = false → NoMid s → (readyTasksLoop fuel w s).2.halted = false →
    Aux key s {} → Aux key (readyTasksLoop fuel w s).2 {}
  | 0, w, s, _, _, _, _, _, hres, _ => by simp [readyTasksLoop, halt_halted] at hres
  | fuel + 1, w, s, ms, hr, hp, hh, hnm, hres, hx => by
    rw [readyTasksLoop_succ] at hres ⊢
    cases hq : s.readyTaskInfos with
    | nil => simp only; exact hx
    | cons a rest =>
      rw [hq] at hres
      simp only at hres ⊢
      obtain ⟨⟨_, ms1, _, _, a3, a4, _, _, a7⟩, a8, a9⟩ := readyStep_full hr hp hh hq hnm
      exact readyTasksLoop_aux key fuel true _ ms1 a3 a4 a8 a7 hres (a9 key hx)

end LLBuild.Refine
