/-
IM2 — refinement: updates of ONE registered rule (`setRule` at a key that is present).
* `alSet_split` / `rules_split`: the entry is replaced in place; `liveRecords` and the scanning count follow;
* `ScanReqOk.frame`, `TaskOk.frame`: requests and tasks of OTHER rules stay well formed (outstanding requests may be
  permuted).
-/
import LLBuild.Lemmas.Refine.Spec
import LLBuild.Lemmas.Refine.Batch

namespace LLBuild.Refine
open LLBuild.Engine LLBuild.Engine.DSL LLBuild.EngineImpl

/-- an entry of an association list with distinct keys can be replaced in place -/
theorem alSet_split {α : Type} : ∀ (l : List (Key × α)) (k : Key) (old new : α), l.lookup k = some old →
    ∃ l1 l2, l = l1 ++ (k, old) :: l2 ∧ alSet l k new = l1 ++ (k, new) :: l2 ∧ l1.lookup k = none
  | [], k, old, new, h => by simp at h
  | (k0, y) :: rest, k, old, new, h => by
    rw [lookup_cons_ite] at h
    by_cases hk : k = k0
    · subst hk
      simp only [if_true, Option.some.injEq] at h
      subst h
      exact ⟨[], rest, rfl, by simp [alSet], rfl⟩
    · simp only [hk, if_false] at h
      obtain ⟨l1, l2, h1, h2, h3⟩ := alSet_split rest k old new h
      have hk' : (k0 == k) = false := by simpa using (Ne.symm hk)
      refine ⟨(k0, y) :: l1, l2, by rw [h1]; rfl, ?_, ?_⟩
      · simp [alSet, hk', h2]
      · rw [lookup_cons_ite]; simp [hk, h3]

/-- the contribution of one rule to `liveRecords` -/
def liveOf (p : Key × RuleInfo) : Option (Key × RuleScanRecord) :=
  if p.2.isScanning then p.2.getPendingScanRecord.map (fun r => (p.1, r)) else none

theorem liveRecords_eq (s : State) : liveRecords s = s.ruleInfos.filterMap liveOf := rfl

/-- `ruleInfos` around a registered key -/
theorem rules_split {s : State} {k : Key} {old : RuleInfo} (hl : s.ruleInfos.lookup k = some old) (new : RuleInfo)
    (hk : new.key = k) :
    ∃ l1 l2, s.ruleInfos = l1 ++ (k, old) :: l2 ∧ (s.setRule new).ruleInfos = l1 ++ (k, new) :: l2 := by
  obtain ⟨l1, l2, h1, h2, _⟩ := alSet_split s.ruleInfos k old new hl
  exact ⟨l1, l2, h1, by simp [State.setRule, hk, h2]⟩

/-- replacing a rule that is not scanning by one that is not scanning: no live record changes -/
theorem setRule_liveRecords_nn {s : State} {k : Key} {old new : RuleInfo} (hl : s.ruleInfos.lookup k = some old)
    (hk : new.key = k) (ho : old.isScanning = false) (hn : new.isScanning = false) :
    liveRecords (s.setRule new) = liveRecords s := by
  obtain ⟨l1, l2, h1, h2⟩ := rules_split hl new hk
  rw [liveRecords_eq, liveRecords_eq, h1, h2]
  simp [List.filterMap_append, List.filterMap_cons, liveOf, ho, hn]

/-- … by one that starts scanning with an empty record: one live record `(k, {})` appears -/
theorem setRule_liveRecords_start {s : State} {k : Key} {old new : RuleInfo} (hl : s.ruleInfos.lookup k = some old)
    (hk : new.key = k) (ho : old.isScanning = false) (hn : new.isScanning = true)
    (hrec : new.inProgressInfo = .pendingScanRecord {}) :
    ∃ a b, liveRecords s = a ++ b ∧ liveRecords (s.setRule new) = a ++ (k, {}) :: b := by
  obtain ⟨l1, l2, h1, h2⟩ := rules_split hl new hk
  refine ⟨l1.filterMap liveOf, l2.filterMap liveOf, ?_, ?_⟩
  · rw [liveRecords_eq, h1]
    simp [List.filterMap_append, List.filterMap_cons, liveOf, ho]
  · rw [liveRecords_eq, h2]
    simp [List.filterMap_append, List.filterMap_cons, liveOf, hn, RuleInfo.getPendingScanRecord, hrec]

theorem setRule_scanCount_nn {s : State} {k : Key} {old new : RuleInfo} (hl : s.ruleInfos.lookup k = some old)
    (hk : new.key = k) (ho : old.isScanning = false) (hn : new.isScanning = false) :
    ((s.setRule new).ruleInfos.filter (fun p => p.2.isScanning)).length = (s.ruleInfos.filter (fun p => p.2.isScanning)).length := by
  obtain ⟨l1, l2, h1, h2⟩ := rules_split hl new hk
  rw [h1, h2]; simp [List.filter_append, List.filter_cons, ho, hn]

theorem setRule_scanCount_start {s : State} {k : Key} {old new : RuleInfo} (hl : s.ruleInfos.lookup k = some old)
    (hk : new.key = k) (ho : old.isScanning = false) (hn : new.isScanning = true) :
    ((s.setRule new).ruleInfos.filter (fun p => p.2.isScanning)).length = (s.ruleInfos.filter (fun p => p.2.isScanning)).length + 1 := by
  obtain ⟨l1, l2, h1, h2⟩ := rules_split hl new hk
  rw [h1, h2]; simp [List.filter_append, List.filter_cons, ho, hn]; omega

theorem setRule_rulesNodup {s : State} (new : RuleInfo) (h : (s.ruleInfos.map (fun p => p.1)).Nodup) :
    ((s.setRule new).ruleInfos.map (fun p => p.1)).Nodup := alSet_keys_nodup _ _ _ h


/-! ## frames: a scan request / a task whose own rule is not touched -/

theorem ofTask_perm {a : Key} {l l' : List TaskInputRequest} (h : List.Perm l' l) : List.Perm (ofTask a l') (ofTask a l) :=
  List.Perm.filter _ h

/-- a live scan request of an untouched rule stays well formed -/
theorem ScanReqOk.frame {s s' : State} {m m' : Engine.St} {r : RuleScanRequest} (hb : ScanReqOk s m r)
    (hreg : ∀ k, Registered s k → Registered s' k)
    (hrule : s'.rule r.ruleInfo = s.rule r.ruleInfo)
    (hmem : m'.mem.res r.ruleInfo = m.mem.res r.ruleInfo)
    (hfresh : ∀ d, depFresh m (m.mem.res r.ruleInfo) d = true → depFresh m' (m.mem.res r.ruleInfo) d = true) :
    ScanReqOk s' m' r :=
  { reg := hreg _ hb.reg,
    scanning := by rw [hrule]; exact hb.scanning,
    inBounds := by rw [hrule]; exact hb.inBounds,
    prefixFresh := by
      rw [hmem]; intro d hd; exact hfresh d (hb.prefixFresh d hd),
    cached := by
      intro i hi
      obtain ⟨h1, h2⟩ := hb.cached i hi
      exact ⟨hreg _ h1, by rw [hrule]; exact h2⟩ }

/-- a task whose rule, monitor task and outstanding requests (up to order) are not touched stays well formed -/
theorem TaskOk.frame {rules : List RuleSpec} {s s' : State} {m m' : Engine.St} {h h' : Hand} {a : Key} {t : TaskInfo}
    (hb : TaskOk rules s m h a t)
    (hrule : s'.rule a = s.rule a) (htask : m'.task a = m.task a)
    (hout : List.Perm (outstanding s' h') (outstanding s h))
    (hunp : List.Perm (unprocessed s' h') (unprocessed s h))
    (hissue : h'.toIssue a = h.toIssue a) (hmark : h'.issuingFor = h.issuingFor) (hdec : h'.dec = h.dec)
    (hdone : ∀ x, isDone m x = true → isDone m' x = true)
    (hprior : priorDue m' a = priorDue m a) :
    TaskOk rules s' m' h' a t := by
  have hoa := ofTask_perm (a := a) hout
  have hua := ofTask_perm (a := a) hunp
  refine { forRule := hb.forRule, started := by rw [htask]; exact hb.started,
           issued := by rw [htask, hissue]; exact hb.issued,
           issuedSeq := by rw [htask]; exact hb.issuedSeq, recv := by rw [htask]; exact hb.recv,
           deliveredIssued := by rw [htask]; exact hb.deliveredIssued,
           completed := by rw [htask]; exact hb.completed,
           waitCount := by rw [hb.waitCount, hdec, hoa.length_eq],
           outIssued := ?_, issuedOut := ?_, outNodup := ?_, depsPerm := ?_, waiting := ?_, computing := ?_ }
  · intro r hr
    rw [htask]
    exact hb.outIssued r (hoa.mem_iff.1 hr)
  · intro q hq
    obtain ⟨h1, h2⟩ := hb.issuedOut q hq
    rw [htask]
    refine ⟨fun x y => hout.mem_iff.2 (h1 x y), fun x => ?_⟩
    rcases h2 x with h3 | h3
    · exact Or.inl (hdone _ h3)
    · exact Or.inr (hout.mem_iff.2 h3)
  · exact (List.Perm.nodup_iff (List.Perm.filter _ hoa)).2 hb.outNodup
  · rw [hrule]
    exact hb.depsPerm.trans (List.Perm.append_left _ (List.Perm.map _ hua.symm))
  · rw [hrule, htask, hprior, hmark]; exact hb.waiting
  · rw [hrule, htask]
    intro hne
    obtain ⟨h1, h2⟩ := hb.computing hne
    exact ⟨h1, List.Perm.eq_nil (h2 ▸ hoa)⟩

end LLBuild.Refine
