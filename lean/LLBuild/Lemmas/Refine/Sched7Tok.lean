/-
The abstract monitor on TOKENS — what the monitor state of a build says, read back on the tokens printed so far, and what the
printed tokens say about the monitor state:
* `TokInv pre m`: (state ⇒ tokens) a rule that needs to run printed `N`, a recorded validity answer `V`, a started task `ST`, a
  task that saw its prior value `PP`, every delivered value `PV`, a computing / executed-and-complete rule `IA`;
  (tokens ⇒ state) `T k` puts `k` in `ran`, `ST k reqs` / `PV k …` / `PP k …` / `IA k …` leave the task of `k` started with
  the printed requests issued, the printed delivery in its sequence, the prior value seen, the rule computing or complete;
* `tokInv_after_B`, `tstep_tokInv`, `trun_tokInv`: the invariant holds after `B key` and along the tokens of a build.
-/
import LLBuild.Lemmas.Refine.Sched6End

set_option linter.unusedSimpArgs false
set_option linter.unusedVariables false

namespace LLBuild.Refine
open LLBuild.Engine LLBuild.Engine.DSL LLBuild.EngineImpl

/-- the tokens `pre` of the build so far (starting with `B key`) against the monitor state `m` they lead to -/
structure TokInv (pre : List Tok) (m : Engine.St) : Prop where
  -- state ⇒ tokens
  needsRun : ∀ k, m.status k = .needsRun → ∃ r i, Tok.N k r i ∈ pre
  validSeen : ∀ k b, m.validSeen k = some b → ∃ v, Tok.V k v b ∈ pre
  started : ∀ k, (m.task k).started = true → ∃ reqs, Tok.ST k reqs ∈ pre
  priorSeen : ∀ k, (m.task k).priorSeen = true → ∃ v, Tok.PP k v ∈ pre
  delivered : ∀ k q v, (q, v) ∈ (m.task k).seq → ∃ reqs, Tok.PV k q.id q.key v reqs ∈ pre
  computing : ∀ k, m.status k = .computing ∨ (m.status k = .done ∧ k ∈ m.ran) → ∃ ds, Tok.IA k ds ∈ pre
  -- tokens ⇒ state
  tRan : ∀ k, Tok.T k ∈ pre → k ∈ m.ran
  tST : ∀ k reqs, Tok.ST k reqs ∈ pre → k ∈ m.ran ∧ (m.task k).started = true ∧ ∀ q ∈ reqs, q ∈ (m.task k).issued
  tPV : ∀ k id key v reqs, Tok.PV k id key v reqs ∈ pre →
    k ∈ m.ran ∧ (m.task k).started = true ∧ (∃ q, (q, v) ∈ (m.task k).seq ∧ q.id = id ∧ q.key = key) ∧
      ∀ q ∈ reqs, q ∈ (m.task k).issued
  tPP : ∀ k v, Tok.PP k v ∈ pre → k ∈ m.ran ∧ (m.task k).started = true ∧ (m.task k).priorSeen = true
  tIA : ∀ k ds, Tok.IA k ds ∈ pre → k ∈ m.ran ∧ (m.status k = .computing ∨ m.status k = .done)
  -- bookkeeping needed for the above to be inductive
  ranSt : ∀ k ∈ m.ran, m.status k = .running ∨ m.status k = .computing ∨ m.status k = .done
  runRan : ∀ k, m.status k = .running ∨ m.status k = .computing → k ∈ m.ran
  ranNodup : m.ran.Nodup

/-! ## 1. tokens and their events -/

/-- the token `t` is read by the monitor as the event `e` (its own, or the merged `finished k row` for `DS k row`) -/
def TokEv (t : Tok) (e : Event) : Prop := t.toEvent? = some e ∨ ∃ k row, t = .DS k row ∧ e = .finished k row

theorem TokEv.needs {t : Tok} {k : Key} {r : Nat} {i : Option Key} (h : TokEv t (.needs k r i)) : t = .N k r i := by
  rcases h with he | ⟨_, _, _, he⟩
  · cases t with
    | S k0 n => rcases n with _ | _ | n <;> simp [Tok.toEvent?] at he
    | N k0 r0 i0 =>
      simp only [Tok.toEvent?, Option.some.injEq, Event.needs.injEq] at he
      obtain ⟨e1, e2, e3⟩ := he; subst e1; subst e2; subst e3; rfl
    | _ => simp [Tok.toEvent?] at he
  · cases he

theorem TokEv.valid {t : Tok} {k : Key} {v : Val} {b : Bool} (h : TokEv t (.valid k v b)) : t = .V k v b := by
  rcases h with he | ⟨_, _, _, he⟩
  · cases t with
    | S k0 n => rcases n with _ | _ | n <;> simp [Tok.toEvent?] at he
    | V k0 v0 b0 =>
      simp only [Tok.toEvent?, Option.some.injEq, Event.valid.injEq] at he
      obtain ⟨e1, e2, e3⟩ := he; subst e1; subst e2; subst e3; rfl
    | _ => simp [Tok.toEvent?] at he
  · cases he

theorem TokEv.start {t : Tok} {k : Key} {reqs : List Req} (h : TokEv t (.start k reqs)) : t = .ST k reqs := by
  rcases h with he | ⟨_, _, _, he⟩
  · cases t with
    | S k0 n => rcases n with _ | _ | n <;> simp [Tok.toEvent?] at he
    | ST k0 r0 =>
      simp only [Tok.toEvent?, Option.some.injEq, Event.start.injEq] at he
      obtain ⟨e1, e2⟩ := he; subst e1; subst e2; rfl
    | _ => simp [Tok.toEvent?] at he
  · cases he

theorem TokEv.prior {t : Tok} {k : Key} {v : Val} (h : TokEv t (.prior k v)) : t = .PP k v := by
  rcases h with he | ⟨_, _, _, he⟩
  · cases t with
    | S k0 n => rcases n with _ | _ | n <;> simp [Tok.toEvent?] at he
    | PP k0 v0 =>
      simp only [Tok.toEvent?, Option.some.injEq, Event.prior.injEq] at he
      obtain ⟨e1, e2⟩ := he; subst e1; subst e2; rfl
    | _ => simp [Tok.toEvent?] at he
  · cases he

theorem TokEv.provide {t : Tok} {k id key : Nat} {v : Val} {reqs : List Req} (h : TokEv t (.provide k id key v reqs)) :
    t = .PV k id key v reqs := by
  rcases h with he | ⟨_, _, _, he⟩
  · cases t with
    | S k0 n => rcases n with _ | _ | n <;> simp [Tok.toEvent?] at he
    | PV k0 i0 y0 v0 r0 =>
      simp only [Tok.toEvent?, Option.some.injEq, Event.provide.injEq] at he
      obtain ⟨e1, e2, e3, e4, e5⟩ := he; subst e1; subst e2; subst e3; subst e4; subst e5; rfl
    | _ => simp [Tok.toEvent?] at he
  · cases he

theorem TokEv.inputsAvail {t : Tok} {k : Key} {ds : List Key} (h : TokEv t (.inputsAvail k ds)) : t = .IA k ds := by
  rcases h with he | ⟨_, _, _, he⟩
  · cases t with
    | S k0 n => rcases n with _ | _ | n <;> simp [Tok.toEvent?] at he
    | IA k0 d0 =>
      simp only [Tok.toEvent?, Option.some.injEq, Event.inputsAvail.injEq] at he
      obtain ⟨e1, e2⟩ := he; subst e1; subst e2; rfl
    | _ => simp [Tok.toEvent?] at he
  · cases he

theorem TokEv.ofT {k : Key} {e : Event} (h : TokEv (.T k) e) : e = .create k := by
  rcases h with he | ⟨_, _, h1, _⟩
  · simp only [Tok.toEvent?, Option.some.injEq] at he; exact he.symm
  · cases h1

theorem TokEv.ofST {k : Key} {reqs : List Req} {e : Event} (h : TokEv (.ST k reqs) e) : e = .start k reqs := by
  rcases h with he | ⟨_, _, h1, _⟩
  · simp only [Tok.toEvent?, Option.some.injEq] at he; exact he.symm
  · cases h1

theorem TokEv.ofPP {k : Key} {v : Val} {e : Event} (h : TokEv (.PP k v) e) : e = .prior k v := by
  rcases h with he | ⟨_, _, h1, _⟩
  · simp only [Tok.toEvent?, Option.some.injEq] at he; exact he.symm
  · cases h1

theorem TokEv.ofPV {k id key : Nat} {v : Val} {reqs : List Req} {e : Event} (h : TokEv (.PV k id key v reqs) e) :
    e = .provide k id key v reqs := by
  rcases h with he | ⟨_, _, h1, _⟩
  · simp only [Tok.toEvent?, Option.some.injEq] at he; exact he.symm
  · cases h1

theorem TokEv.ofIA {k : Key} {ds : List Key} {e : Event} (h : TokEv (.IA k ds) e) : e = .inputsAvail k ds := by
  rcases h with he | ⟨_, _, h1, _⟩
  · simp only [Tok.toEvent?, Option.some.injEq] at he; exact he.symm
  · cases h1

/-! ## 2. what one event of the middle of a build changes -/

/-- the status of `k` moves along `idle → scanning → needsRun → running → computing → done` / `scanning → done`, one
event per move -/
theorem step_statusT {P : Program} {m m' : Engine.St} {e : Event} (h : step P m e = some m')
    (hmid : Event.isMidX e = true) (k : Key) :
    m'.status k = m.status k ∨
    (e = .scanning k ∧ m.status k = .idle ∧ m'.status k = .scanning) ∨
    ((∃ r i, e = .needs k r i) ∧ m.status k = .scanning ∧ m'.status k = .needsRun) ∨
    (e = .upToDate k ∧ m.status k = .scanning ∧ m'.status k = .done) ∨
    (e = .create k ∧ m.status k = .needsRun ∧ m'.status k = .running) ∨
    ((∃ ds, e = .inputsAvail k ds) ∧ m.status k = .running ∧ m'.status k = .computing) ∨
    ((∃ row, e = .finished k row) ∧ m.status k = .computing ∧ m'.status k = .done) := by
  cases e with
  | scanning k0 =>
    simp only [step] at h
    split at h
    · rename_i hc
      cases h
      simp only [Bool.and_eq_true, beq_iff_eq] at hc
      by_cases e : k = k0
      · subst e; right; left; exact ⟨rfl, hc.1.1.2, by simp [upd]⟩
      · left; simp [upd, e]
    · cases h
  | needs k0 r i =>
    simp only [step] at h
    split at h
    · rename_i hc
      cases h
      simp only [Bool.and_eq_true, beq_iff_eq] at hc
      by_cases e : k = k0
      · subst e; right; right; left; exact ⟨⟨r, i, rfl⟩, hc.1, by simp [upd]⟩
      · left; simp [upd, e]
    · cases h
  | upToDate k0 =>
    simp only [step] at h
    split at h
    · rename_i hc
      cases h
      simp only [Bool.and_eq_true, beq_iff_eq] at hc
      by_cases e : k = k0
      · subst e; right; right; right; left; exact ⟨rfl, hc.1.1, by simp [upd]⟩
      · left; simp [upd, e]
    · cases h
  | create k0 =>
    simp only [step] at h
    split at h
    · rename_i hc
      cases h
      simp only [Bool.and_eq_true, beq_iff_eq] at hc
      by_cases e : k = k0
      · subst e; right; right; right; right; left; exact ⟨rfl, hc.1, by simp [upd]⟩
      · left; simp [upd, e]
    · cases h
  | inputsAvail k0 ds =>
    simp only [step] at h
    split at h
    · rename_i hc
      cases h
      simp only [Bool.and_eq_true, beq_iff_eq] at hc
      by_cases e : k = k0
      · subst e; right; right; right; right; right; left; exact ⟨⟨ds, rfl⟩, hc.1.1.1.1, by simp [upd]⟩
      · left; simp [upd, e]
    · cases h
  | finished k0 row =>
    simp only [step] at h
    split at h
    · rename_i hc
      cases h
      simp only [Bool.and_eq_true, beq_iff_eq] at hc
      by_cases e : k = k0
      · subst e; right; right; right; right; right; right
        exact ⟨⟨row, rfl⟩, hc.1.1.1.1.1.1.1.1.1, by simp [upd]⟩
      · left; simp [upd, e]
    · cases h
  | _ => first
    | (exact Bool.noConfusion hmid)
    | (simp only [step] at h
       repeat' split at h
       all_goals (first | cases h | skip)
       all_goals (exact Or.inl rfl))

/-- the task record of `k` is reset by `create k` (only outside `ran`), replaced by `start k _` (only when not started), and
extended by `prior` / `provide` (only when started); `inputsAvail` / `complete` touch other fields -/
theorem step_taskT {P : Program} {m m' : Engine.St} {e : Event} (h : step P m e = some m')
    (hmid : Event.isMidX e = true) (k : Key) :
    ((m'.task k).started = (m.task k).started ∧ (m'.task k).priorSeen = (m.task k).priorSeen ∧
      (m'.task k).issued = (m.task k).issued ∧ (m'.task k).seq = (m.task k).seq) ∨
    (e = .create k ∧ k ∉ m.ran ∧ m'.task k = {}) ∨
    (∃ reqs, e = .start k reqs ∧ (m.task k).started = false ∧ m'.task k = { started := true, issued := reqs }) ∨
    (∃ v, e = .prior k v ∧ (m.task k).started = true ∧ m'.task k = { m.task k with priorSeen := true }) ∨
    (∃ id key v reqs q, e = .provide k id key v reqs ∧ (m.task k).started = true ∧ q.key = key ∧ q.id = id ∧
      m'.task k = { m.task k with issued := (m.task k).issued ++ reqs, seq := (q, v) :: (m.task k).seq }) := by
  cases e with
  | create k0 =>
    simp only [step] at h
    split at h
    · rename_i hc
      cases h
      simp only [Bool.and_eq_true, beq_iff_eq, Bool.not_eq_true', List.contains_eq_mem, decide_eq_false_iff_not] at hc
      by_cases e : k = k0
      · subst e; right; left; exact ⟨rfl, hc.2, by simp [upd]⟩
      · left; simp [upd, e]
    · cases h
  | start k0 reqs =>
    simp only [step] at h
    split at h
    · rename_i hc
      cases h
      simp only [Bool.and_eq_true, beq_iff_eq, Bool.not_eq_true'] at hc
      by_cases e : k = k0
      · subst e; right; right; left; exact ⟨reqs, rfl, hc.1.2, by simp [upd]⟩
      · left; simp [upd, e]
    · cases h
  | prior k0 v =>
    simp only [step] at h
    split at h
    · rename_i hc
      cases h
      simp only [Bool.and_eq_true, beq_iff_eq, Bool.not_eq_true'] at hc
      by_cases e : k = k0
      · subst e; right; right; right; left; exact ⟨v, rfl, hc.1.1.1.1.2, by simp [upd]⟩
      · left; simp [upd, e]
    · cases h
  | provide k0 id key v reqs =>
    simp only [step] at h
    split at h
    · rename_i hc
      split at h
      · cases h
      · rename_i q hq
        split at h
        · cases h
          simp only [Bool.and_eq_true, beq_iff_eq, Bool.not_eq_true'] at hc
          by_cases e : k = k0
          · subst e; right; right; right; right
            have hp := List.find?_some hq
            simp only [Bool.and_eq_true, beq_iff_eq] at hp
            exact ⟨id, key, v, reqs, q, rfl, hc.1.2, hp.1.1.1, hp.1.1.2, by simp [upd]⟩
          · left; simp [upd, e]
        · cases h
    · cases h
  | inputsAvail k0 ds =>
    simp only [step] at h
    split at h
    · cases h
      left
      by_cases e : k = k0
      · subst e; simp [upd]
      · simp [upd, e]
    · cases h
  | complete k0 v f =>
    simp only [step] at h
    split at h
    · cases h
      left
      by_cases e : k = k0
      · subst e; simp [upd]
      · simp [upd, e]
    · cases h
  | _ => first
    | (exact Bool.noConfusion hmid)
    | (simp only [step] at h
       repeat' split at h
       all_goals (first | cases h | skip)
       all_goals (exact Or.inl ⟨rfl, rfl, rfl, rfl⟩))

/-- a validity answer is recorded by `valid` only -/
theorem step_validT {P : Program} {m m' : Engine.St} {e : Event} (h : step P m e = some m')
    (hmid : Event.isMidX e = true) (k : Key) :
    m'.validSeen k = m.validSeen k ∨ ∃ v b, e = .valid k v b ∧ m'.validSeen k = some b := by
  cases e with
  | valid k0 v b =>
    simp only [step] at h
    split at h
    · cases h
      by_cases e : k = k0
      · subst e; right; exact ⟨v, b, rfl, by simp [upd]⟩
      · left; simp [upd, e]
    · cases h
  | _ => first
    | (exact Bool.noConfusion hmid)
    | (simp only [step] at h
       repeat' split at h
       all_goals (first | cases h | skip)
       all_goals (exact Or.inl rfl))

/-- a key of `ran` after the event was there before, or its task has just been created -/
theorem step_ran_mem {P : Program} {m m' : Engine.St} {e : Event} (h : step P m e = some m')
    (hmid : Event.isMidX e = true) {k : Key} (hk : k ∈ m'.ran) :
    k ∈ m.ran ∨ (e = .create k ∧ m'.status k = .running) := by
  cases e with
  | create k0 =>
    simp only [step] at h
    split at h
    · cases h
      simp only [List.mem_cons] at hk
      rcases hk with hk | hk
      · subst hk; right; exact ⟨rfl, by simp [upd]⟩
      · left; exact hk
    · cases h
  | _ => first
    | (exact Bool.noConfusion hmid)
    | (rw [step_ranX h hmid] at hk; left; exact hk)

theorem step_ran_nodup {P : Program} {m m' : Engine.St} {e : Event} (h : step P m e = some m')
    (hmid : Event.isMidX e = true) (hn : m.ran.Nodup) : m'.ran.Nodup := by
  cases e with
  | create k0 =>
    simp only [step] at h
    split at h
    · rename_i hc
      cases h
      simp only [Bool.and_eq_true, beq_iff_eq, Bool.not_eq_true', List.contains_eq_mem, decide_eq_false_iff_not] at hc
      exact List.nodup_cons.2 ⟨hc.2, hn⟩
    · cases h
  | _ => first
    | (exact Bool.noConfusion hmid)
    | (rw [step_ranX h hmid]; exact hn)

theorem step_start_new {P : Program} {m m' : Engine.St} {k : Key} {reqs : List Req}
    (h : step P m (.start k reqs) = some m') :
    m.status k = .running ∧ (m'.task k).started = true ∧ (m'.task k).issued = reqs := by
  simp only [step] at h
  split at h
  · rename_i hc
    cases h
    simp only [Bool.and_eq_true, beq_iff_eq] at hc
    exact ⟨hc.1.1, by simp [upd], by simp [upd]⟩
  · cases h

theorem step_prior_new {P : Program} {m m' : Engine.St} {k : Key} {v : Val} (h : step P m (.prior k v) = some m') :
    m.status k = .running ∧ (m'.task k).started = true ∧ (m'.task k).priorSeen = true := by
  simp only [step] at h
  split at h
  · rename_i hc
    cases h
    simp only [Bool.and_eq_true, beq_iff_eq] at hc
    exact ⟨hc.1.1.1.1.1, by simpa [upd] using hc.1.1.1.1.2, by simp [upd]⟩
  · cases h

theorem step_provide_new {P : Program} {m m' : Engine.St} {k id key : Nat} {v : Val} {reqs : List Req}
    (h : step P m (.provide k id key v reqs) = some m') :
    m.status k = .running ∧ (m'.task k).started = true ∧
      (∃ q, (q, v) ∈ (m'.task k).seq ∧ q.id = id ∧ q.key = key) ∧ ∀ q ∈ reqs, q ∈ (m'.task k).issued := by
  simp only [step] at h
  split at h
  · rename_i hc
    split at h
    · cases h
    · rename_i q hq
      split at h
      · cases h
        simp only [Bool.and_eq_true, beq_iff_eq] at hc
        have hp := List.find?_some hq
        simp only [Bool.and_eq_true, beq_iff_eq] at hp
        refine ⟨hc.1.1, by simpa [upd] using hc.1.2, ⟨q, by simp [upd], hp.1.1.2, hp.1.1.1⟩, fun r hr => ?_⟩
        simp only [upd, if_true, List.mem_append]
        exact Or.inr hr
      · cases h
  · cases h

theorem step_inputsAvail_new {P : Program} {m m' : Engine.St} {k : Key} {ds : List Key}
    (h : step P m (.inputsAvail k ds) = some m') : m.status k = .running ∧ m'.status k = .computing := by
  simp only [step] at h
  split at h
  · rename_i hc
    cases h
    simp only [Bool.and_eq_true, beq_iff_eq] at hc
    exact ⟨hc.1.1.1.1, by simp [upd]⟩
  · cases h

/-- what is kept about a key of `ran`: it stays there, a started task keeps what it recorded, a computing / complete rule
stays so -/
theorem step_keep {P : Program} {m m' : Engine.St} {e : Event} (h : step P m e = some m')
    (hmid : Event.isMidX e = true) {k : Key} (hk : k ∈ m.ran) :
    k ∈ m'.ran ∧
    ((m.task k).started = true → (m'.task k).started = true ∧
      ((m.task k).priorSeen = true → (m'.task k).priorSeen = true) ∧
      (∀ x ∈ (m.task k).seq, x ∈ (m'.task k).seq) ∧ (∀ q ∈ (m.task k).issued, q ∈ (m'.task k).issued)) ∧
    (m.status k = .computing ∨ m.status k = .done → m'.status k = .computing ∨ m'.status k = .done) ∧
    (m.status k = .running ∨ m.status k = .computing ∨ m.status k = .done →
      m'.status k = .running ∨ m'.status k = .computing ∨ m'.status k = .done) := by
  refine ⟨?_, fun hs => ?_, fun hs => ?_, fun hs => ?_⟩
  · rw [step_ranX h hmid]; exact List.mem_append_right _ hk
  · rcases step_taskT h hmid k with ⟨h1, h2, h3, h4⟩ | ⟨_, h0, _⟩ | ⟨reqs, _, h0, _⟩ | ⟨v, _, _, h1⟩ |
      ⟨i0, key, v, reqs, q, _, _, _, _, h1⟩
    · rw [h1, h2, h3, h4]; exact ⟨hs, id, fun _ hx => hx, fun _ hq => hq⟩
    · exact absurd hk h0
    · rw [hs] at h0; cases h0
    · rw [h1]; exact ⟨hs, fun _ => rfl, fun _ hx => hx, fun _ hq => hq⟩
    · rw [h1]; exact ⟨hs, id, fun _ hx => List.mem_cons_of_mem _ hx, fun _ hq => List.mem_append_left _ hq⟩
  · rcases step_statusT h hmid k with h0 | ⟨_, h0, _⟩ | ⟨_, h0, _⟩ | ⟨_, h0, _⟩ | ⟨_, h0, _⟩ | ⟨_, h0, _⟩ | ⟨_, _, h1⟩
    · rw [h0]; exact hs
    · rw [h0] at hs; rcases hs with hs | hs <;> cases hs
    · rw [h0] at hs; rcases hs with hs | hs <;> cases hs
    · rw [h0] at hs; rcases hs with hs | hs <;> cases hs
    · rw [h0] at hs; rcases hs with hs | hs <;> cases hs
    · rw [h0] at hs; rcases hs with hs | hs <;> cases hs
    · right; exact h1
  · rcases step_statusT h hmid k with h0 | ⟨_, h0, _⟩ | ⟨_, h0, _⟩ | ⟨_, h0, _⟩ | ⟨_, h0, _⟩ | ⟨_, _, h1⟩ | ⟨_, _, h1⟩
    · rw [h0]; exact hs
    · rw [h0] at hs; rcases hs with hs | hs | hs <;> cases hs
    · rw [h0] at hs; rcases hs with hs | hs | hs <;> cases hs
    · rw [h0] at hs; rcases hs with hs | hs | hs <;> cases hs
    · rw [h0] at hs; rcases hs with hs | hs | hs <;> cases hs
    · right; left; exact h1
    · right; right; exact h1

/-! ## 3. one event read from one token keeps `TokInv` -/

theorem TokInv.mono_st {pre pre' : List Tok} {m : Engine.St} (h : TokInv pre m) (hs : ∀ t ∈ pre, t ∈ pre') :
    (∀ k, m.status k = .needsRun → ∃ r i, Tok.N k r i ∈ pre') ∧
    (∀ k b, m.validSeen k = some b → ∃ v, Tok.V k v b ∈ pre') ∧
    (∀ k, (m.task k).started = true → ∃ reqs, Tok.ST k reqs ∈ pre') ∧
    (∀ k, (m.task k).priorSeen = true → ∃ v, Tok.PP k v ∈ pre') ∧
    (∀ k q v, (q, v) ∈ (m.task k).seq → ∃ reqs, Tok.PV k q.id q.key v reqs ∈ pre') ∧
    (∀ k, m.status k = .computing ∨ (m.status k = .done ∧ k ∈ m.ran) → ∃ ds, Tok.IA k ds ∈ pre') :=
  ⟨fun k hk => (h.needsRun k hk).imp fun r ⟨i, hi⟩ => ⟨i, hs _ hi⟩,
   fun k b hk => (h.validSeen k b hk).imp fun v hv => hs _ hv,
   fun k hk => (h.started k hk).imp fun v hv => hs _ hv,
   fun k hk => (h.priorSeen k hk).imp fun v hv => hs _ hv,
   fun k q v hk => (h.delivered k q v hk).imp fun r hr => hs _ hr,
   fun k hk => (h.computing k hk).imp fun v hv => hs _ hv⟩

section
variable {P : Program} {m m' : Engine.St} {e : Event} {t : Tok} {acc : List Tok}

/-- state ⇒ tokens, part 1: `needsRun`, `validSeen`, `started`, `priorSeen` -/
theorem step_tokInv_A (hst : step P m e = some m') (hmid : Event.isMidX e = true) (hte : TokEv t e) (hs : TokInv acc m) :
    (∀ k, m'.status k = .needsRun → ∃ r i, Tok.N k r i ∈ acc ++ [t]) ∧
    (∀ k b, m'.validSeen k = some b → ∃ v, Tok.V k v b ∈ acc ++ [t]) ∧
    (∀ k, (m'.task k).started = true → ∃ reqs, Tok.ST k reqs ∈ acc ++ [t]) ∧
    (∀ k, (m'.task k).priorSeen = true → ∃ v, Tok.PP k v ∈ acc ++ [t]) := by
  have hsub : ∀ x ∈ acc, x ∈ acc ++ [t] := fun x hx => List.mem_append_left _ hx
  have hlast : t ∈ acc ++ [t] := List.mem_append_right _ List.mem_cons_self
  obtain ⟨o1, o2, o3, o4, _, _⟩ := hs.mono_st hsub
  refine ⟨fun k hk => ?_, fun k b hk => ?_, fun k hk => ?_, fun k hk => ?_⟩
  · rcases step_statusT hst hmid k with h0 | ⟨_, _, h1⟩ | ⟨⟨r, i, he⟩, _, _⟩ | ⟨_, _, h1⟩ | ⟨_, _, h1⟩ | ⟨_, _, h1⟩ |
      ⟨_, _, h1⟩
    · rw [h0] at hk; exact o1 k hk
    · rw [h1] at hk; cases hk
    · subst he; have := hte.needs; subst this; exact ⟨r, i, hlast⟩
    · rw [h1] at hk; cases hk
    · rw [h1] at hk; cases hk
    · rw [h1] at hk; cases hk
    · rw [h1] at hk; cases hk
  · rcases step_validT hst hmid k with h0 | ⟨v, b', he, h1⟩
    · rw [h0] at hk; exact o2 k b hk
    · rw [h1] at hk; cases hk
      subst he; have := hte.valid; subst this; exact ⟨v, hlast⟩
  · rcases step_taskT hst hmid k with ⟨h1, _, _, _⟩ | ⟨_, _, h1⟩ | ⟨reqs, he, _, _⟩ | ⟨v, _, h0, _⟩ |
      ⟨i0, key, v, reqs, q, _, h0, _, _, _⟩
    · rw [h1] at hk; exact o3 k hk
    · rw [h1] at hk; cases hk
    · subst he; have := hte.start; subst this; exact ⟨reqs, hlast⟩
    · exact o3 k h0
    · exact o3 k h0
  · rcases step_taskT hst hmid k with ⟨_, h1, _, _⟩ | ⟨_, _, h1⟩ | ⟨reqs, _, _, h1⟩ | ⟨v, he, _, _⟩ |
      ⟨i0, key, v, reqs, q, _, _, _, _, h1⟩
    · rw [h1] at hk; exact o4 k hk
    · rw [h1] at hk; cases hk
    · rw [h1] at hk; cases hk
    · subst he; have := hte.prior; subst this; exact ⟨v, hlast⟩
    · rw [h1] at hk; exact o4 k hk

/-- state ⇒ tokens, part 2: `delivered`, `computing` -/
theorem step_tokInv_B (hst : step P m e = some m') (hmid : Event.isMidX e = true) (hte : TokEv t e) (hs : TokInv acc m) :
    (∀ k q v, (q, v) ∈ (m'.task k).seq → ∃ reqs, Tok.PV k q.id q.key v reqs ∈ acc ++ [t]) ∧
    (∀ k, m'.status k = .computing ∨ (m'.status k = .done ∧ k ∈ m'.ran) → ∃ ds, Tok.IA k ds ∈ acc ++ [t]) := by
  have hsub : ∀ x ∈ acc, x ∈ acc ++ [t] := fun x hx => List.mem_append_left _ hx
  have hlast : t ∈ acc ++ [t] := List.mem_append_right _ List.mem_cons_self
  obtain ⟨_, _, _, _, o5, o6⟩ := hs.mono_st hsub
  refine ⟨fun k q v hk => ?_, fun k hk => ?_⟩
  · rcases step_taskT hst hmid k with ⟨_, _, _, h1⟩ | ⟨_, _, h1⟩ | ⟨reqs, _, _, h1⟩ | ⟨v0, _, _, h1⟩ |
      ⟨i0, key, v0, reqs, q0, he, _, hq1, hq2, h1⟩
    · rw [h1] at hk; exact o5 k q v hk
    · rw [h1] at hk; cases hk
    · rw [h1] at hk; cases hk
    · rw [h1] at hk; exact o5 k q v hk
    · rw [h1] at hk
      rcases List.mem_cons.1 hk with hk | hk
      · cases hk
        subst he; subst hq1; subst hq2
        have := hte.provide; subst this; exact ⟨reqs, hlast⟩
      · exact o5 k q v hk
  · -- a key of `ran` after the event
    have hr : m'.status k = .done → k ∈ m'.ran → m.status k ≠ .scanning := by
      intro hd hk' hsc
      rcases step_ran_mem hst hmid hk' with h1 | ⟨_, h1⟩
      · rcases hs.ranSt k h1 with h2 | h2 | h2 <;> rw [h2] at hsc <;> cases hsc
      · rw [h1] at hd; cases hd
    rcases step_statusT hst hmid k with h0 | ⟨_, _, h1⟩ | ⟨_, _, h1⟩ | ⟨_, h0, h1⟩ | ⟨_, _, h1⟩ | ⟨⟨ds, he⟩, _, _⟩ |
      ⟨_, h0, _⟩
    · rcases hk with hk | ⟨hk, hk'⟩
      · rw [h0] at hk; exact o6 k (Or.inl hk)
      · rcases step_ran_mem hst hmid hk' with h1 | ⟨_, h1⟩
        · rw [h0] at hk; exact o6 k (Or.inr ⟨hk, h1⟩)
        · rw [h1] at hk; cases hk
    · rw [h1] at hk; rcases hk with hk | ⟨hk, _⟩ <;> cases hk
    · rw [h1] at hk; rcases hk with hk | ⟨hk, _⟩ <;> cases hk
    · rcases hk with hk | ⟨hk, hk'⟩
      · rw [h1] at hk; cases hk
      · exact absurd h0 (hr hk hk')
    · rw [h1] at hk; rcases hk with hk | ⟨hk, _⟩ <;> cases hk
    · subst he; have := hte.inputsAvail; subst this; exact ⟨ds, hlast⟩
    · exact o6 k (Or.inl h0)

/-- tokens ⇒ state -/
theorem step_tokInv_C (hst : step P m e = some m') (hmid : Event.isMidX e = true) (hte : TokEv t e) (hs : TokInv acc m) :
    (∀ k, Tok.T k ∈ acc ++ [t] → k ∈ m'.ran) ∧
    (∀ k reqs, Tok.ST k reqs ∈ acc ++ [t] →
      k ∈ m'.ran ∧ (m'.task k).started = true ∧ ∀ q ∈ reqs, q ∈ (m'.task k).issued) ∧
    (∀ k id key v reqs, Tok.PV k id key v reqs ∈ acc ++ [t] →
      k ∈ m'.ran ∧ (m'.task k).started = true ∧ (∃ q, (q, v) ∈ (m'.task k).seq ∧ q.id = id ∧ q.key = key) ∧
        ∀ q ∈ reqs, q ∈ (m'.task k).issued) ∧
    (∀ k v, Tok.PP k v ∈ acc ++ [t] → k ∈ m'.ran ∧ (m'.task k).started = true ∧ (m'.task k).priorSeen = true) ∧
    (∀ k ds, Tok.IA k ds ∈ acc ++ [t] → k ∈ m'.ran ∧ (m'.status k = .computing ∨ m'.status k = .done)) := by
  have hsplit : ∀ x, x ∈ acc ++ [t] → x ∈ acc ∨ x = t := fun x hx => by
    rcases List.mem_append.1 hx with hx | hx
    · exact Or.inl hx
    · exact Or.inr (List.mem_singleton.1 hx)
  have hrun : ∀ k, m.status k = .running → k ∈ m'.ran := fun k hk =>
    (step_keep hst hmid (hs.runRan k (Or.inl hk))).1
  refine ⟨fun k hk => ?_, fun k reqs hk => ?_, fun k i0 key v reqs hk => ?_, fun k v hk => ?_, fun k ds hk => ?_⟩
  · rcases hsplit _ hk with hk | hk
    · exact (step_keep hst hmid (hs.tRan k hk)).1
    · subst hk; have := hte.ofT; subst this
      rw [step_ranX hst hmid]; exact List.mem_append_left _ (by simp [Event.cKey])
  · rcases hsplit _ hk with hk | hk
    · obtain ⟨a1, a2, a3⟩ := hs.tST k reqs hk
      obtain ⟨b1, b2, _, _⟩ := step_keep hst hmid a1
      obtain ⟨c1, _, _, c4⟩ := b2 a2
      exact ⟨b1, c1, fun q hq => c4 q (a3 q hq)⟩
    · subst hk; have := hte.ofST; subst this
      obtain ⟨a1, a2, a3⟩ := step_start_new hst
      exact ⟨hrun k a1, a2, fun q hq => by rw [a3]; exact hq⟩
  · rcases hsplit _ hk with hk | hk
    · obtain ⟨a1, a2, ⟨q, a3, a4, a5⟩, a6⟩ := hs.tPV k i0 key v reqs hk
      obtain ⟨b1, b2, _, _⟩ := step_keep hst hmid a1
      obtain ⟨c1, _, c3, c4⟩ := b2 a2
      exact ⟨b1, c1, ⟨q, c3 _ a3, a4, a5⟩, fun q hq => c4 q (a6 q hq)⟩
    · subst hk; have := hte.ofPV; subst this
      obtain ⟨a1, a2, a3, a4⟩ := step_provide_new hst
      exact ⟨hrun k a1, a2, a3, a4⟩
  · rcases hsplit _ hk with hk | hk
    · obtain ⟨a1, a2, a3⟩ := hs.tPP k v hk
      obtain ⟨b1, b2, _, _⟩ := step_keep hst hmid a1
      obtain ⟨c1, c2, _, _⟩ := b2 a2
      exact ⟨b1, c1, c2 a3⟩
    · subst hk; have := hte.ofPP; subst this
      obtain ⟨a1, a2, a3⟩ := step_prior_new hst
      exact ⟨hrun k a1, a2, a3⟩
  · rcases hsplit _ hk with hk | hk
    · obtain ⟨a1, a2⟩ := hs.tIA k ds hk
      obtain ⟨b1, _, b3, _⟩ := step_keep hst hmid a1
      exact ⟨b1, b3 a2⟩
    · subst hk; have := hte.ofIA; subst this
      obtain ⟨a1, a2⟩ := step_inputsAvail_new hst
      exact ⟨hrun k a1, Or.inl a2⟩

/-- **one event** of the middle of a build, read from the token `t`, keeps `TokInv` -/
theorem step_tokInv (hst : step P m e = some m') (hmid : Event.isMidX e = true) (hte : TokEv t e) (hs : TokInv acc m) :
    TokInv (acc ++ [t]) m' := by
  obtain ⟨a1, a2, a3, a4⟩ := step_tokInv_A hst hmid hte hs
  obtain ⟨b1, b2⟩ := step_tokInv_B hst hmid hte hs
  obtain ⟨c1, c2, c3, c4, c5⟩ := step_tokInv_C hst hmid hte hs
  refine ⟨a1, a2, a3, a4, b1, b2, c1, c2, c3, c4, c5, fun k hk => ?_, fun k hk => ?_, step_ran_nodup hst hmid hs.ranNodup⟩
  · rcases step_ran_mem hst hmid hk with h1 | ⟨_, h1⟩
    · exact (step_keep hst hmid h1).2.2.2 (hs.ranSt k h1)
    · exact Or.inl h1
  · rcases (step_seen hst hmid).2.1 k hk with h1 | h1
    · exact (step_keep hst hmid (hs.runRan k h1)).1
    · subst h1; rw [step_ranX hst hmid]; exact List.mem_append_left _ (by simp [Event.cKey])

end

/-! ## 4. one token, a token run, the first token -/

/-- one accepted token of the middle of a build (or `DE`) -/
theorem tstep_tokInv {P : Program} {ms ms' : MSt} {t : Tok} {acc : List Tok} (h : tstep P ms t = some ms')
    (hc : Tok.isClose t = false ∨ t = .DE) (htg : ms.m.target.isSome = true) (hs : TokInv acc ms.m) :
    TokInv (acc ++ [t]) ms'.m := by
  rcases tstep_event h with ⟨⟨k0, ht⟩, hm⟩ | ⟨ev, he | ⟨k0, row0, ht, he⟩, hst⟩
  · -- `S k 2`: buffered, the monitor state is unchanged and the token is none of those the invariant speaks about
    subst ht; rw [hm]
    have hsub : ∀ x ∈ acc, x ∈ acc ++ [Tok.S k0 2] := fun x hx => List.mem_append_left _ hx
    have hsplit : ∀ x, x ∈ acc ++ [Tok.S k0 2] → x ∈ acc ∨ x = Tok.S k0 2 := fun x hx => by
      rcases List.mem_append.1 hx with hx | hx
      · exact Or.inl hx
      · exact Or.inr (List.mem_singleton.1 hx)
    obtain ⟨o1, o2, o3, o4, o5, o6⟩ := hs.mono_st hsub
    refine ⟨o1, o2, o3, o4, o5, o6, fun k hk => ?_, fun k reqs hk => ?_, fun k i0 key v reqs hk => ?_, fun k v hk => ?_,
      fun k ds hk => ?_, hs.ranSt, hs.runRan, hs.ranNodup⟩
    · rcases hsplit _ hk with hk | hk
      · exact hs.tRan k hk
      · cases hk
    · rcases hsplit _ hk with hk | hk
      · exact hs.tST k reqs hk
      · cases hk
    · rcases hsplit _ hk with hk | hk
      · exact hs.tPV k i0 key v reqs hk
      · cases hk
    · rcases hsplit _ hk with hk | hk
      · exact hs.tPP k v hk
      · cases hk
    · rcases hsplit _ hk with hk | hk
      · exact hs.tIA k ds hk
      · cases hk
  · have hmid : Event.isMidX ev = true := by
      rcases hc with hc | hc
      · rcases toEvent_midX he hc with hmid | ⟨k1, hk1⟩
        · exact hmid
        · subst hk1
          rw [step_buildStart_inside P k1 htg] at hst
          cases hst
      · subst hc
        simp only [Tok.toEvent?, Option.some.injEq] at he; subst he; rfl
    exact step_tokInv hst hmid (Or.inl he) hs
  · subst he
    exact step_tokInv hst rfl (Or.inr ⟨k0, row0, ht, rfl⟩) hs

theorem trun_tokInv {P : Program} : ∀ (toks : List Tok) (ms ms' : MSt) (acc : List Tok), trun P ms toks = some ms' →
    (∀ t ∈ toks, Tok.isClose t = false ∨ t = .DE) → ms.m.target.isSome = true → TokInv acc ms.m →
    TokInv (acc ++ toks) ms'.m
  | [], ms, ms', acc, h, _, _, hs => by
    simp only [trun, Option.some.injEq] at h; subst h; simpa using hs
  | t :: ts, ms, ms', acc, h, hc, htg, hs => by
    simp only [trun] at h
    cases hts : tstep P ms t with
    | none => rw [hts] at h; simp at h
    | some ms1 =>
      rw [hts] at h; simp only [Option.bind_some] at h
      have hct := hc t List.mem_cons_self
      have := trun_tokInv ts ms1 ms' (acc ++ [t]) h (fun t' ht' => hc t' (List.mem_cons_of_mem _ ht'))
        (tstep_target_isSome hts hct htg) (tstep_tokInv hts hct htg hs)
      simpa [List.append_assoc] using this

/-- right after the first token `B key` -/
theorem tokInv_after_B {P : Program} {m : Engine.St} {key : Key} {ms1 : MSt}
    (h : tstep P ⟨m, none⟩ (.B key) = some ms1) : TokInv [Tok.B key] ms1.m := by
  have hst := tstep_ev_inv h (e := .buildStart key) rfl
  simp only [step] at hst
  split at hst
  · cases ms1; simp only [Option.some.injEq] at hst; subst hst
    refine ⟨fun k hk => (by cases hk), fun k b hk => (by cases hk), fun k hk => (by cases hk), fun k hk => (by cases hk),
      fun k q v hk => (by cases hk), fun k hk => (by rcases hk with hk | ⟨hk, _⟩ <;> cases hk),
      fun k hk => ?_, fun k reqs hk => ?_, fun k i0 key' v reqs hk => ?_, fun k v hk => ?_, fun k ds hk => ?_,
      fun k hk => (by cases hk), fun k hk => (by rcases hk with hk | hk <;> cases hk), List.nodup_nil⟩
    all_goals (rw [List.mem_singleton] at hk; cases hk)
  · cases hst

end LLBuild.Refine
