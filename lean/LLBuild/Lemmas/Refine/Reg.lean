/-
IM2 — refinement: rule registration.  `getRuleInfoForKey k` under `Rel`: a first lookup emits `L k ; G k found`
(the monitor's `lookup` / `dbGet` guards follow from `Base.reg`, `Base.resUnreg`, `Base.db`, `Base.dbBuilt`)
and appends a rule in state `Incomplete`, which leaves every abstraction function unchanged.
-/
import LLBuild.Lemmas.Refine.Frame

namespace LLBuild.Refine
open LLBuild.Engine LLBuild.Engine.DSL LLBuild.EngineImpl

theorem alSet_fresh {α : Type} : ∀ (l : List (Key × α)) (k : Key) (x : α), l.lookup k = none → alSet l k x = l ++ [(k, x)]
  | [], k, x, _ => rfl
  | (k0, y) :: rest, k, x, h => by
    rw [lookup_cons_ite] at h
    by_cases hk : k = k0
    · simp [hk] at h
    · simp only [hk, if_false] at h
      have : (k0 == k) = false := by simpa using (Ne.symm hk)
      simp [alSet, this, alSet_fresh rest k x h]

/-- the form of a first lookup -/
theorem getRuleInfoForKey_fresh (k : Key) (s : State) (hdb : s.hasDB = true) (hl : s.ruleInfos.lookup k = none) :
    getRuleInfoForKey k s =
      emit (.G k (s.store.rows.lookup k).isSome) (EngineImpl.emit (.L k) (s.setRule (freshRule s k))) := by
  unfold getRuleInfoForKey
  simp only [hl, emit_hasDB, hdb, if_true, emit_store, emit_rules, emit_env]
  cases hr : s.store.rows.lookup k with
  | none => simp [emit_setRule, freshRule, hr]
  | some row => simp [emit_setRule, freshRule, hr]

theorem getRuleInfoForKey_old (k : Key) (s : State) (hl : (s.ruleInfos.lookup k).isSome = true) :
    getRuleInfoForKey k s = s := by
  unfold getRuleInfoForKey
  cases h : s.ruleInfos.lookup k with
  | none => simp [h] at hl
  | some _ => rfl


section fresh
variable {s : State} {k : Key} {fr : RuleInfo}

theorem fresh_ruleInfos (hl : s.ruleInfos.lookup k = none) (hk : fr.key = k) :
    (s.setRule fr).ruleInfos = s.ruleInfos ++ [(k, fr)] := by
  simp [State.setRule, hk, alSet_fresh _ _ _ hl]

theorem fresh_lookup (hk : fr.key = k) (k' : Key) :
    (s.setRule fr).ruleInfos.lookup k' = if k' = k then some fr else s.ruleInfos.lookup k' := by
  simp [hk]

theorem fresh_rule_ne (hk : fr.key = k) {k' : Key} (hne : k' ≠ k) : (s.setRule fr).rule k' = s.rule k' := by
  simp [hk, hne]

theorem fresh_liveRecords (hl : s.ruleInfos.lookup k = none) (hk : fr.key = k) (hst : fr.state = .incomplete) :
    liveRecords (s.setRule fr) = liveRecords s := by
  unfold liveRecords
  rw [fresh_ruleInfos hl hk]
  simp [RuleInfo.isScanning, hst]

theorem fresh_scanCount (hl : s.ruleInfos.lookup k = none) (hk : fr.key = k) (hst : fr.state = .incomplete) :
    ((s.setRule fr).ruleInfos.filter (fun p => p.2.isScanning)).length = (s.ruleInfos.filter (fun p => p.2.isScanning)).length := by
  rw [fresh_ruleInfos hl hk]
  simp [RuleInfo.isScanning, hst]

theorem fresh_unprocessed (hl : s.ruleInfos.lookup k = none) (hk : fr.key = k) (hst : fr.state = .incomplete) (h : Hand) :
    unprocessed (s.setRule fr) h = unprocessed s h := by
  unfold unprocessed pausedAll
  rw [fresh_liveRecords hl hk hst]; rfl

theorem fresh_processed (h : Hand) : processed (s.setRule fr) h = processed s h := rfl

theorem fresh_outstanding (hl : s.ruleInfos.lookup k = none) (hk : fr.key = k) (hst : fr.state = .incomplete) (h : Hand) :
    outstanding (s.setRule fr) h = outstanding s h := by
  unfold outstanding
  rw [fresh_unprocessed hl hk hst, fresh_processed]

theorem fresh_scanReqs (hl : s.ruleInfos.lookup k = none) (hk : fr.key = k) (hst : fr.state = .incomplete) (h : Hand) :
    scanReqs (s.setRule fr) h = scanReqs s h := by
  unfold scanReqs deferredAll
  rw [fresh_liveRecords hl hk hst]; rfl

theorem fresh_statusOf (hl : s.ruleInfos.lookup k = none) (hk : fr.key = k) (hst : fr.state = .incomplete)
    (pend : Option Key) (k' : Key) : statusOf (s.setRule fr) pend k' = statusOf s pend k' := by
  unfold statusOf
  rw [fresh_lookup hk]
  by_cases h : k' = k
  · subst h; simp [hl, hst]
  · simp only [h, if_false]; rfl

theorem fresh_registered (hk : fr.key = k) {k' : Key} (h : Registered s k') : Registered (s.setRule fr) k' := by
  unfold Registered at *
  rw [fresh_lookup hk]
  by_cases h' : k' = k <;> simp [h', h]

end fresh

theorem registered_ne {s : State} {k k' : Key} (hl : s.ruleInfos.lookup k = none) (h : Registered s k') : k' ≠ k := by
  intro e; subst e; simp [Registered, hl] at h


theorem ScanReqOk.register {s : State} {m : Engine.St} {r : RuleScanRequest} {k : Key} {fr : RuleInfo}
    (hl : s.ruleInfos.lookup k = none) (hk : fr.key = k) (sg : Nat)
    (hb : ScanReqOk s m r) :
    ScanReqOk (s.setRule fr) { m with registered := upd m.registered k true, sigAt := upd m.sigAt k sg } r := by
  have hne : r.ruleInfo ≠ k := registered_ne hl hb.reg
  refine { reg := fresh_registered hk hb.reg, scanning := ?_, inBounds := ?_, prefixFresh := hb.prefixFresh, cached := ?_ }
  · rw [fresh_rule_ne hk hne]; exact hb.scanning
  · rw [fresh_rule_ne hk hne]; exact hb.inBounds
  · intro i hi
    obtain ⟨h1, h2⟩ := hb.cached i hi
    refine ⟨fresh_registered hk h1, ?_⟩
    rw [fresh_rule_ne hk hne]; exact h2

theorem TaskOk.register {rules : List RuleSpec} {s : State} {m : Engine.St} {h : Hand} {a : Key} {t : TaskInfo}
    {k : Key} {fr : RuleInfo}
    (hl : s.ruleInfos.lookup k = none) (hk : fr.key = k) (hst : fr.state = .incomplete) (sg : Nat) (hne : a ≠ k)
    (hb : TaskOk rules s m h a t) :
    TaskOk rules (s.setRule fr) { m with registered := upd m.registered k true, sigAt := upd m.sigAt k sg } h a t := by
  have ho := fresh_outstanding hl hk hst h
  have hu := fresh_unprocessed hl hk hst h
  have hr := fresh_rule_ne (s := s) hk hne
  refine { forRule := hb.forRule, started := hb.started, issued := hb.issued, issuedSeq := hb.issuedSeq, recv := hb.recv, deliveredIssued := hb.deliveredIssued,
           completed := hb.completed, waitCount := ?_, outIssued := ?_, issuedOut := ?_, outNodup := ?_, depsPerm := ?_,
           waiting := ?_, computing := ?_ }
  · rw [ho]; exact hb.waitCount
  · rw [ho]; exact hb.outIssued
  · rw [ho]; exact hb.issuedOut
  · rw [ho]; exact hb.outNodup
  · rw [hu, hr]; exact hb.depsPerm
  · rw [hr]
    intro hw
    obtain ⟨h1, h2⟩ := hb.waiting hw
    refine ⟨?_, h2⟩
    rcases h1 with h1 | h1
    · left; rw [h1]; simp [priorDue, upd, hne]
    · exact Or.inr h1
  · rw [hr, ho]; exact hb.computing

theorem Rel.task_registered {rules : List RuleSpec} {s : State} {ms : MSt} {h : Hand} (hr : Rel rules s ms h)
    {a : Key} (h1 : (s.taskInfos.lookup a).isSome = true) : Registered s a := by
  have := hr.taskKeys a
  rw [h1] at this
  unfold Registered
  cases hl : s.ruleInfos.lookup a with
  | none => simp [statusOf, hl] at this
  | some _ => rfl

/-- **Registration of a fresh key** (`L k` accepted by the monitor): `Rel` is preserved. -/
theorem Rel.register {rules : List RuleSpec} {s : State} {ms : MSt} {h : Hand} {k : Key}
    (hr : Rel rules s ms h) (hl : s.ruleInfos.lookup k = none) :
    Rel rules (s.setRule (freshRule s k))
      ⟨{ ms.m with registered := upd ms.m.registered k true,
                   sigAt := upd ms.m.sigAt k ((program rules).sig ms.m.env k) }, ms.pend⟩ h := by
  have hk : (freshRule s k).key = k := rfl
  have hst : (freshRule s k).state = .incomplete := rfl
  have ho := fresh_outstanding hl hk hst h
  have hu := fresh_unprocessed hl hk hst h
  have hsr := fresh_scanReqs hl hk hst h
  have hlr := fresh_liveRecords hl hk hst
  have hso := fresh_statusOf hl hk hst ms.pend
  have hlk := fresh_lookup (s := s) hk
  have hidle : ms.m.status k = .idle := by rw [hr.status]; simp [statusOf, hl]
  -- lookup of an OLD key
  have hold : ∀ k' ri, (s.setRule (freshRule s k)).ruleInfos.lookup k' = some ri → k' ≠ k → s.ruleInfos.lookup k' = some ri := by
    intro k' ri h1 h2; rw [hlk] at h1; simpa [h2] using h1
  refine
    { rules_eq := hr.rules_eq, env := hr.env, hasDB := hr.hasDB, noResolve := hr.noResolve, noFail := hr.noFail,
      epoch := hr.epoch, reg := ?reg, keyOk := ?keyOk, rulesNodup := alSet_keys_nodup _ _ _ hr.rulesNodup, sig := ?sig, res := ?res, resUnreg := ?resUnreg, db := hr.db,
      dbBuilt := hr.dbBuilt, dbBuiltLe := hr.dbBuiltLe, dbIter := hr.dbIter, builtLe := ?builtLe,
      active := hr.active, started := hr.started, notReturned := hr.notReturned, epochPos := hr.epochPos,
      cancelled := hr.cancelled, errCancelled := hr.errCancelled, noCycle := hr.noCycle, targetReg := ?targetReg, status := ?status, pendOk := ?pendOk,
      validIdle := hr.validIdle, scanningOk := ?scanningOk, dntrFresh := ?dntrFresh, inScanned := hr.inScanned,
      inRan := hr.inRan, ranOk := hr.ranOk, scanOne := ?scanOne, scanOk := ?scanOk,
      deferredAtRecord := ?deferredAtRecord, deferredAtTask := hr.deferredAtTask, recordLive := ?recordLive,
      scanCount := ?scanCount, recordWaited := ?recordWaited, midScan := ?midScan, taskKeys := ?taskKeys, taskNodup := hr.taskNodup,
      taskOk := ?taskOk, reqReg := ?reqReg, reqTask := ?reqTask, dummyOk := ?dummyOk, dummyUnproc := ?dummyUnproc,
      pausedAt := ?pausedAt, requestedAt := hr.requestedAt, finDone := hr.finDone, pendingOk := ?pendingOk,
      readyOk := ?readyOk, readyNodup := hr.readyNodup, finTaskOk := ?finTaskOk, finTaskNodup := hr.finTaskNodup,
      deferredOk := ?deferredOk, deferredNodup := hr.deferredNodup, computingWhere := ?computingWhere,
      outstandingCount := hr.outstandingCount }
  case reg =>
    intro k'; show upd ms.m.registered k true k' = _
    rw [hlk]; by_cases e : k' = k
    · subst e; simp
    · simp [upd, e, hr.reg k']
  case keyOk =>
    intro k' ri h1; rw [hlk] at h1
    by_cases e : k' = k
    · subst e; simp at h1; subst h1; rfl
    · simp [e] at h1; exact hr.keyOk k' ri h1
  case sig =>
    intro k' ri h1; rw [hlk] at h1
    show upd ms.m.sigAt k _ k' = _
    by_cases e : k' = k
    · subst e; simp at h1; subst h1
      simp [freshRule, program, hr.rules_eq, hr.env]
    · simp [e] at h1; simp [upd, e]; exact hr.sig k' ri h1
  case res =>
    intro k' ri h1; rw [hlk] at h1
    show resRel _ _ (ms.m.mem.res k') _
    by_cases e : k' = k
    · subst e; simp at h1; subst h1
      have h2 := hr.resUnreg k' hl
      have h3 := hr.db k'
      have hp : (ms.pend == some k') = false := by
        cases hp : ms.pend with
        | none => rfl
        | some k2 =>
          obtain ⟨ri, h4, _⟩ := hr.pendOk k2 hp
          by_cases e2 : k2 = k'
          · subst e2; rw [hl] at h4; cases h4
          · simpa using e2
      rw [h2, h3, hp]
      simp [resRel, freshRule]
    · simp [e] at h1; exact hr.res k' ri h1
  case resUnreg =>
    intro k' h1; rw [hlk] at h1
    by_cases e : k' = k
    · subst e; simp at h1
    · simp only [e, if_false] at h1; exact hr.resUnreg k' h1
  case builtLe =>
    intro k' ri h1; rw [hlk] at h1
    by_cases e : k' = k
    · subst e; simp at h1; subst h1
      show ((s.store.rows.lookup k').getD {}).builtAt ≤ s.currentEpoch
      cases hrow : s.store.rows.lookup k' with
      | none => simp
      | some row => simpa using hr.dbBuiltLe k' row hrow
    · simp [e] at h1; exact hr.builtLe k' ri h1
  case targetReg =>
    exact hr.targetReg
  case status => intro k'; rw [hso]; exact hr.status k'
  case pendOk =>
    intro k' hp
    obtain ⟨ri, h1, h2⟩ := hr.pendOk k' hp
    have e : k' ≠ k := by intro e; subst e; rw [hl] at h1; cases h1
    exact ⟨ri, by rw [hlk]; simpa [e] using h1, h2⟩
  case scanningOk =>
    intro k' ri h1 h2
    by_cases e : k' = k
    · subst e; rw [hlk] at h1; simp at h1; subst h1; simp [freshRule] at h2
    · exact hr.scanningOk k' ri (hold k' ri h1 e) h2
  case dntrFresh =>
    intro k' ri h1 h2
    by_cases e : k' = k
    · subst e; rw [hlk] at h1; simp at h1; subst h1; simp [freshRule] at h2
    · exact hr.dntrFresh k' ri (hold k' ri h1 e) h2
  case scanOne =>
    intro k' ri h1 h2
    rw [hsr]
    by_cases e : k' = k
    · subst e; rw [hlk] at h1; simp at h1; subst h1; simp [freshRule] at h2
    · exact hr.scanOne k' ri (hold k' ri h1 e) h2
  case scanOk =>
    intro r hm; rw [hsr] at hm
    exact (hr.scanOk r hm).register hl hk _
  case deferredAtRecord => rw [hlr]; exact hr.deferredAtRecord
  case recordLive =>
    intro k' ri h1 h2
    by_cases e : k' = k
    · subst e; rw [hlk] at h1; simp at h1; subst h1; simp [freshRule] at h2
    · exact hr.recordLive k' ri (hold k' ri h1 e) h2
  case scanCount =>
    rw [fresh_scanCount hl hk hst]; exact hr.scanCount
  case midScan =>
    intro k' ri h1 h2
    by_cases e : k' = k
    · subst e; rw [hlk] at h1; simp at h1; subst h1; simp [freshRule] at h2
    · exact hr.midScan k' ri (hold k' ri h1 e) h2
  case recordWaited => rw [hlr]; exact hr.recordWaited
  case taskKeys => intro k'; rw [hso]; exact hr.taskKeys k'
  case taskOk =>
    intro a t h1
    replace h1 : s.taskInfos.lookup a = some t := h1
    have hne : a ≠ k := registered_ne hl (hr.task_registered (by rw [h1]; rfl))
    exact (hr.taskOk a t h1).register hl hk hst _ hne
  case reqReg =>
    intro r hm; rw [ho] at hm
    exact ⟨fresh_registered hk (hr.reqReg r hm).1, (hr.reqReg r hm).2⟩
  case reqTask =>
    intro r hm a ha; rw [ho] at hm
    obtain ⟨h1, h2⟩ := hr.reqTask r hm a ha
    have hne : a ≠ k := registered_ne hl (hr.task_registered h1)
    exact ⟨h1, by rw [fresh_rule_ne hk hne]; exact h2⟩
  case dummyOk => intro r hm; rw [hu] at hm; exact hr.dummyOk r hm
  case dummyUnproc => exact hr.dummyUnproc
  case pausedAt => rw [hlr]; exact hr.pausedAt
  case pendingOk => intro p hp; rw [hu]; exact hr.pendingOk p hp
  case readyOk =>
    intro a ha
    obtain ⟨t, h1, h2, h3⟩ := hr.readyOk a ha
    have hne : a ≠ k := registered_ne hl (hr.task_registered (by rw [h1]; rfl))
    exact ⟨t, h1, by rw [fresh_rule_ne hk hne]; exact h2, h3⟩
  case finTaskOk =>
    intro a ha
    obtain ⟨t, h1, h2, h3⟩ := hr.finTaskOk a ha
    have hne : a ≠ k := registered_ne hl (hr.task_registered (by rw [h1]; rfl))
    exact ⟨t, h1, by rw [fresh_rule_ne hk hne]; exact h2, h3⟩
  case deferredOk =>
    intro a ha
    obtain ⟨t, h1, h2, h3⟩ := hr.deferredOk a ha
    have hne : a ≠ k := registered_ne hl (hr.task_registered (by rw [h1]; rfl))
    exact ⟨t, h1, by rw [fresh_rule_ne hk hne]; exact h2, h3⟩
  case computingWhere =>
    intro a t h1 h2
    replace h1 : s.taskInfos.lookup a = some t := h1
    have hne : a ≠ k := registered_ne hl (hr.task_registered (by rw [h1]; rfl))
    rw [fresh_rule_ne hk hne] at h2
    exact hr.computingWhere a t h1 h2


theorem Rel.pend_registered {rules : List RuleSpec} {s : State} {ms : MSt} {h : Hand} (hr : Rel rules s ms h)
    {k : Key} (hp : ms.pend = some k) : Registered s k := by
  obtain ⟨ri, h1, _⟩ := hr.pendOk k hp
  simp [Registered, h1]

/-- the guard of `dbGet` from the relation -/
theorem Rel.dbGet_ok {rules : List RuleSpec} {s : State} {ms : MSt} {h : Hand} (hr : Rel rules s ms h)
    {k : Key} {ri : RuleInfo} (hl : s.ruleInfos.lookup k = some ri) (hp : ms.pend ≠ some k) (P : Program) :
    step P ms.m (.dbGet k (ri.result.builtAt != 0)) = some ms.m := by
  have h1 := hr.reg k
  have h2 := hr.res k ri hl
  have hp' : (ms.pend == some k) = false := by simpa using hp
  rw [hp'] at h2
  have h3 := h2.2.2.2.1 rfl
  simp [step, h1, hl, h3]

/-- **`getRuleInfoForKey` under `Rel`** -/
theorem Rel.getRule {rules : List RuleSpec} {s : State} {ms : MSt} {h : Hand}
    (hr : Rel rules s ms h) (hh : s.halted = false) (k : Key) :
    ∃ toks ms', Emits s toks (EngineImpl.getRuleInfoForKey k s) ∧ trun (program rules) ms toks = some ms' ∧
      Rel rules (EngineImpl.getRuleInfoForKey k s) ms' h ∧ ms'.pend = ms.pend ∧
      Registered (EngineImpl.getRuleInfoForKey k s) k ∧ (EngineImpl.getRuleInfoForKey k s).halted = false := by
  cases hl : s.ruleInfos.lookup k with
  | some ri =>
    have he := getRuleInfoForKey_old k s (by rw [hl]; rfl)
    rw [he]
    exact ⟨[], ms, Emits.refl s, rfl, hr, rfl, by simp [Registered, hl], hh⟩
  | none =>
    rw [getRuleInfoForKey_fresh k s hr.hasDB hl]
    -- `L k`
    have hreg : ms.m.registered k = false := by rw [hr.reg k, hl]; rfl
    have hstepL : step (program rules) ms.m (.lookup k) =
        some { ms.m with registered := upd ms.m.registered k true,
                         sigAt := upd ms.m.sigAt k ((program rules).sig ms.m.env k) } := by
      simp [step, hreg]
    have htL : tstep (program rules) ms (.L k) = some ⟨_, ms.pend⟩ :=
      tstep_reg_any (P := program rules) (m := ms.m) ms.pend (by rfl) (by rfl) hstepL
    have hhA : (s.setRule (freshRule s k)).halted = false := hh
    obtain ⟨toks1, ms1, he1, hrun1, hr1, hp1⟩ := Rel.emit_tok hhA htL (hr.register hl)
    -- `G k found`
    have hlk1 : (EngineImpl.emit (.L k) (s.setRule (freshRule s k))).ruleInfos.lookup k = some (freshRule s k) := by simp [freshRule]
    have hpk : ms1.pend ≠ some k := by
      rw [hp1]; intro hp
      have := hr.pend_registered hp
      simp [Registered, hl] at this
    have hfound : (s.store.rows.lookup k).isSome = ((freshRule s k).result.builtAt != 0) := by
      cases hrow : s.store.rows.lookup k with
      | none => simp [freshRule, hrow]
      | some row => simp [freshRule, hrow, hr.dbBuilt k row hrow]
    have hstepG := hr1.dbGet_ok hlk1 hpk (program rules)
    rw [← hfound] at hstepG
    have htG : tstep (program rules) ms1 (.G k (s.store.rows.lookup k).isSome) = some ⟨ms1.m, ms1.pend⟩ :=
      tstep_reg_any (P := program rules) (m := ms1.m) ms1.pend (by rfl) (by rfl) hstepG
    have hh1 : (EngineImpl.emit (.L k) (s.setRule (freshRule s k))).halted = false := by simp [hhA]
    obtain ⟨toks2, ms2, he2, hrun2, hr2, hp2⟩ := Rel.emit_tok hh1 htG hr1
    refine ⟨toks1 ++ toks2, ms2, ?_, trun_append_some hrun1 hrun2, hr2, by rw [hp2, hp1], ?_, by simp [hhA]⟩
    · have := he1.trans he2
      simpa [Emits, State.setRule] using this
    · simp [Registered, freshRule]

end LLBuild.Refine
