/-
IM2 — refinement: work-queue pushes.  `pushInput d` (`inputRequests.push_back`) for a dummy request (the requested
key in `executeTasks`, a discovered dependency in `pushDiscovered`): how `unprocessed`/`outstanding`/`ofTask` move,
and `Rel.pushDummy`.
-/
import LLBuild.Lemmas.Refine.Reg

namespace LLBuild.Refine
open LLBuild.Engine LLBuild.Engine.DSL LLBuild.EngineImpl

section pushInput
variable {s : State} {d : TaskInputRequest}

/-- `inputRequests.push_back(d)` -/
def pushInput (d : TaskInputRequest) (s : State) : State := { s with inputRequests := s.inputRequests ++ [d] }

theorem pushInput_unprocessed_mem (h : Hand) (r : TaskInputRequest) :
    r ∈ unprocessed (pushInput d s) h ↔ r = d ∨ r ∈ unprocessed s h := by
  simp only [unprocessed, pushInput, pausedAll, liveRecords, List.mem_append, List.mem_singleton]
  constructor
  · rintro ((h1 | h1 | h1) | h1)
    · exact Or.inr (Or.inl (Or.inl h1))
    · exact Or.inr (Or.inl (Or.inr h1))
    · exact Or.inl h1
    · exact Or.inr (Or.inr h1)
  · rintro (h1 | (h1 | h1) | h1)
    · exact Or.inl (Or.inr (Or.inr h1))
    · exact Or.inl (Or.inl h1)
    · exact Or.inl (Or.inr (Or.inl h1))
    · exact Or.inr h1

theorem pushInput_processed (h : Hand) : processed (pushInput d s) h = processed s h := rfl

theorem pushInput_outstanding_mem (h : Hand) (r : TaskInputRequest) :
    r ∈ outstanding (pushInput d s) h ↔ r = d ∨ r ∈ outstanding s h := by
  simp only [outstanding, List.mem_append, pushInput_unprocessed_mem, pushInput_processed]
  constructor
  · rintro ((h1 | h1) | h1)
    · exact Or.inl h1
    · exact Or.inr (Or.inl h1)
    · exact Or.inr (Or.inr h1)
  · rintro (h1 | h1 | h1)
    · exact Or.inl (Or.inl h1)
    · exact Or.inl (Or.inr h1)
    · exact Or.inr h1

/-- a dummy request belongs to no task -/
theorem pushInput_ofTask_unprocessed (h : Hand) (a : Key) (hd : d.taskInfo ≠ some a) :
    ofTask a (unprocessed (pushInput d s) h) = ofTask a (unprocessed s h) := by
  have hd' : (d.taskInfo == some a) = false := by simpa using hd
  simp [ofTask, unprocessed, pushInput, pausedAll, liveRecords, List.filter_append, hd']

theorem pushInput_ofTask_outstanding (h : Hand) (a : Key) (hd : d.taskInfo ≠ some a) :
    ofTask a (outstanding (pushInput d s) h) = ofTask a (outstanding s h) := by
  have h1 := pushInput_ofTask_unprocessed (s := s) h a hd
  simp only [ofTask, outstanding, List.filter_append] at h1 ⊢
  rw [h1]; rfl

theorem pushInput_scanReqs (h : Hand) : scanReqs (pushInput d s) h = scanReqs s h := rfl
theorem pushInput_liveRecords : liveRecords (pushInput d s) = liveRecords s := rfl
theorem pushInput_statusOf (p : Option Key) (k : Key) : statusOf (pushInput d s) p k = statusOf s p k := rfl

end pushInput

theorem ScanReqOk.pushInput {s : State} {m : Engine.St} {r : RuleScanRequest} (d : TaskInputRequest)
    (hb : ScanReqOk s m r) : ScanReqOk (pushInput d s) m r := { hb with }

theorem TaskOk.pushInput {rules : List RuleSpec} {s : State} {m : Engine.St} {h : Hand} {a : Key} {t : TaskInfo}
    {d : TaskInputRequest} (hd : d.taskInfo ≠ some a) (hb : TaskOk rules s m h a t) :
    TaskOk rules (pushInput d s) m h a t := by
  have ho := pushInput_ofTask_outstanding (s := s) h a hd
  have hu := pushInput_ofTask_unprocessed (s := s) h a hd
  refine { forRule := hb.forRule, started := hb.started, issued := hb.issued, issuedSeq := hb.issuedSeq, recv := hb.recv, deliveredIssued := hb.deliveredIssued,
           completed := hb.completed, waitCount := ?_, outIssued := ?_, issuedOut := ?_, outNodup := ?_, depsPerm := ?_,
           waiting := hb.waiting, computing := ?_ }
  · rw [ho]; exact hb.waitCount
  · rw [ho]; exact hb.outIssued
  · intro q hq
    obtain ⟨h1, h2⟩ := hb.issuedOut q hq
    refine ⟨fun a b => ?_, fun a => ?_⟩
    · exact (pushInput_outstanding_mem h _).2 (Or.inr (h1 a b))
    · rcases h2 a with h3 | h3
      · exact Or.inl h3
      · exact Or.inr ((pushInput_outstanding_mem h _).2 (Or.inr h3))
  · rw [ho]; exact hb.outNodup
  · rw [hu]; exact hb.depsPerm
  · rw [ho]; exact hb.computing

/-- **Pushing a dummy input request** (the requested key, or a discovered dependency) -/
theorem Rel.pushDummy {rules : List RuleSpec} {s : State} {ms : MSt} {h : Hand} (hr : Rel rules s ms h)
    (d : TaskInputRequest) (hd : d.taskInfo = none) (hreg : Registered s d.inputRuleInfo) (hf : d.forcePriorValue = false)
    (hok : ms.m.status d.inputRuleInfo ≠ .idle ∨ ms.m.target = some d.inputRuleInfo ∨
      (∃ p ∈ ms.m.pending, p.1 = d.inputRuleInfo) ∨
      (∃ k t, ms.pend = some k ∧ s.taskInfos.lookup k = some t ∧ ∃ x ∈ t.discoveredDependencies, x.key = d.inputRuleInfo)) :
    Rel rules (pushInput d s) ms h := by
  have hda : ∀ a, d.taskInfo ≠ some a := by intro a; rw [hd]; simp
  exact
    { toBase := { hr.toBase with }, active := hr.active, started := hr.started, notReturned := hr.notReturned,
      epochPos := hr.epochPos, cancelled := hr.cancelled, errCancelled := hr.errCancelled, noCycle := hr.noCycle, targetReg := hr.targetReg, status := hr.status,
      pendOk := hr.pendOk, validIdle := hr.validIdle, scanningOk := hr.scanningOk, dntrFresh := hr.dntrFresh,
      inScanned := hr.inScanned, inRan := hr.inRan, ranOk := hr.ranOk, scanOne := hr.scanOne,
      scanOk := fun r hm => (hr.scanOk r hm).pushInput d,
      deferredAtRecord := hr.deferredAtRecord, deferredAtTask := hr.deferredAtTask, recordLive := hr.recordLive,
      scanCount := hr.scanCount,
      recordWaited := fun p hp => by
        rcases hr.recordWaited p hp with h1 | h1 | h1 | ⟨r, h1, h2⟩
        · exact Or.inl h1
        · exact Or.inr (Or.inl h1)
        · exact Or.inr (Or.inr (Or.inl h1))
        · refine Or.inr (Or.inr (Or.inr ⟨r, ?_, h2⟩))
          simp only [pushInput, List.mem_append] at h1 ⊢
          rcases h1 with h1 | h1
          · exact Or.inl h1
          · exact Or.inr (Or.inl h1),
      midScan := fun k ri hl hs => by
        rcases hr.midScan k ri hl hs with h1 | ⟨r, h1, h2⟩
        · exact Or.inl h1
        · refine Or.inr ⟨r, ?_, h2⟩
          simp only [pushInput, List.mem_append] at h1 ⊢
          rcases h1 with h1 | h1
          · exact Or.inl h1
          · exact Or.inr (Or.inl h1),
      taskKeys := hr.taskKeys, taskNodup := hr.taskNodup,
      taskOk := fun a t hl => (hr.taskOk a t hl).pushInput (hda a),
      reqReg := fun r hm => by
        rcases (pushInput_outstanding_mem h r).1 hm with e | e
        · subst e; exact ⟨hreg, hf⟩
        · exact hr.reqReg r e,
      reqTask := fun r hm a ha => by
        rcases (pushInput_outstanding_mem h r).1 hm with e | e
        · subst e; rw [hd] at ha; cases ha
        · exact hr.reqTask r e a ha,
      dummyOk := fun r hm hn => by
        rcases (pushInput_unprocessed_mem h r).1 hm with e | e
        · subst e; exact hok
        · exact hr.dummyOk r e hn,
      dummyUnproc := hr.dummyUnproc, pausedAt := hr.pausedAt, requestedAt := hr.requestedAt, finDone := hr.finDone,
      pendingOk := fun p hp => by
        rcases hr.pendingOk p hp with ⟨r, h1, h2⟩ | h1
        · exact Or.inl ⟨r, (pushInput_unprocessed_mem h r).2 (Or.inr h1), h2⟩
        · exact Or.inr h1,
      readyOk := hr.readyOk, readyNodup := hr.readyNodup, finTaskOk := hr.finTaskOk, finTaskNodup := hr.finTaskNodup,
      deferredOk := hr.deferredOk, deferredNodup := hr.deferredNodup, computingWhere := hr.computingWhere,
      outstandingCount := hr.outstandingCount }

end LLBuild.Refine
