/-
IM2 — refinement: the END RESULT.  Every history of `W`/`E`/`M`/`B` ops of the concrete engine model
(`Model/EngineImpl.lean`) that does not halt (`histOk`: no `FUEL`, no `BAD`) is accepted by the abstract monitor
(`Model/Engine.lean`), with no hypothesis left besides `RulesOk rules` (request kinds ≤ 2, ids ≤ `kMaximumInputID`,
ids distinct within a rule: each NECESSARY, see `Defs.lean` / notes/REFINE.md §5).
-/
import LLBuild.Lemmas.Refine.Loop

namespace LLBuild.Refine
open LLBuild.Engine LLBuild.Engine.DSL LLBuild.EngineImpl

/-- **IM2.**  From a fresh harness with program `rules`, any history of ops in which no build halts produces events
that the abstract monitor accepts from its initial state: `run (program rules) {} evs = some m'` — the hypothesis of
every C01–C07 theorem — and the engine and the monitor are related again (`RelIdle`). -/
theorem refinement_final {rules : List RuleSpec} (hok : RulesOk rules)
    (ops : List Op) (hok' : histOk ops (opProgram rules {})) :
    ∃ evs m', histEvents ops (opProgram rules {}) = some evs ∧ run (program rules) {} evs = some m' ∧
      RelIdle rules (runOps ops (opProgram rules {})) m' :=
  refinement_from_start (workLoop_final rules hok) ops hok'

/-- one build from related states (the op-level statement) -/
theorem refinement_build {rules : List RuleSpec} (hok : RulesOk rules) {s : State} {m : Engine.St}
    (hr : RelIdle rules s m) (key cancelAt : Nat) (sched : List SchedItem)
    (hnh : (runBuild key cancelAt sched s).halted = false) :
    ∃ evs m', toEvents (runBuild key cancelAt sched s).trace.reverse = some evs ∧
      run (program rules) m evs = some m' ∧ RelIdle rules (runBuild key cancelAt sched s) m' :=
  runBuild_refines (workLoop_final rules hok) hr key cancelAt sched hnh

/-- `histOk` on the printed traces: a build is fine iff its trace has no `FUEL` / `BAD _` token -/
theorem opOk_iff_noBad (key cancelAt : Nat) (sched : List SchedItem) (s : State) :
    opOk (.build key cancelAt sched) s ↔ NoBad (runBuild key cancelAt sched s).trace :=
  halted_iff_bad key cancelAt sched s

/-! ## non-vacuity: a concrete program and history satisfy the hypotheses -/

/-- an input rule `1` and a derived rule `3` that requests it with id 7 -/
def exRules : List RuleSpec :=
  [{ key := 1 }, { key := 3, kind := 1, statics := [⟨1, 7, 0⟩] }]

theorem exRules_ok : RulesOk exRules := by
  have h : ∀ k, allReqs (specOf exRules k) = [] ∨ allReqs (specOf exRules k) = [⟨1, 7, 0⟩] := by
    intro k
    unfold specOf exRules
    by_cases h1 : k = 1
    · subst h1; left; rfl
    · by_cases h3 : k = 3
      · subst h3; right; rfl
      · left
        have e1 : ((1 : Nat) == k) = false := by simpa using (Ne.symm h1)
        have e3 : ((3 : Nat) == k) = false := by simpa using (Ne.symm h3)
        simp [List.find?, e1, e3, allReqs]
  refine ⟨?_, ?_, ?_⟩
  · intro k q hq; rcases h k with e | e <;> rw [e] at hq <;> simp at hq; subst hq; decide
  · intro k q hq; rcases h k with e | e <;> rw [e] at hq <;> simp at hq; subst hq; decide
  · intro k; rcases h k with e | e <;> rw [e] <;> simp

/-- set the input, build the derived rule, change the input, build again, restart, build again -/
def exOps : List Op := [.mutate 1 55, .build 3 0 [], .mutate 1 56, .build 3 0 [], .restart, .build 3 0 []]

theorem exOps_ok : histOk exOps (opProgram exRules {}) := by
  simp only [exOps, histOk, opOk, runOp, and_true, true_and]
  refine ⟨by decide, by decide, by decide⟩

/-- the theorem applies: the monitor accepts the whole history -/
example : ∃ evs m', histEvents exOps (opProgram exRules {}) = some evs ∧ run (program exRules) {} evs = some m' ∧
    RelIdle exRules (runOps exOps (opProgram exRules {})) m' :=
  refinement_final exRules_ok exOps exOps_ok

/-
#print axioms refinement_final   -- [propext, Classical.choice, Quot.sound]
#print axioms refinement_build   -- [propext, Classical.choice, Quot.sound]
-/

end LLBuild.Refine
