/-
IM2 — refinement of the abstract monitor (`LLBuild.Engine.step`) by the concrete engine model
(`LLBuild.EngineImpl`): DEFINITIONS.

* `tstep` / `trun`: the monitor run directly on TOKENS (with the `S k 2 … DS k row` merge of
  `toEvents` as a one-place buffer `pend`), so that traces compose by plain append;
  `Basic.trun_toEvents` turns an accepted token run into `toEvents … = some evs ∧ Engine.run … = some _`.
* `Emits s toks s'`: the trace of `s'` is the trace of `s` extended by `toks` (traces are most-recent-first).
* `RulesOk`: the hypotheses on the DSL program without which the monitor REJECTS traces of the concrete
  engine (three concrete counterexamples in notes/REFINE.md §5): request kinds ≤ 2, request ids
  ≤ `kMaximumInputID`, ids distinct within a rule.
* `Base`, `RelIdle`, `Rel`: the simulation relation (between builds / inside the work loop).
No Mathlib.  Imports only the three models.
-/
import LLBuild.Model.Engine
import LLBuild.Model.EngineDSL
import LLBuild.Model.EngineImpl

namespace LLBuild.Refine
open LLBuild.Engine LLBuild.Engine.DSL LLBuild.EngineImpl

/-! ## The monitor on tokens -/

/-- monitor state while reading tokens: `pend = some k` after `S k 2` until the `DS k row` that completes
the merged event `finished k row` -/
structure MSt where
  m : Engine.St
  pend : Option Key := none

/-- tokens that may stand between `S k 2` and `DS k` (`splitAtWrite`) -/
def Tok.isReg : Tok → Bool
  | .L _ => true
  | .G _ _ => true
  | .X => true
  | .C _ _ _ => true
  | _ => false

/-- `S k 2` (`updateStatus(IsComplete)`) -/
def Tok.isS2 : Tok → Option Key
  | .S k 2 => some k
  | _ => none

/-- one token through the monitor -/
def tstep (P : Program) (ms : MSt) (t : Tok) : Option MSt :=
  match ms.pend with
  | none =>
    match Tok.isS2 t with
    | some k => some { ms with pend := some k }
    | none =>
      match t.toEvent? with
      | none => none
      | some e => (step P ms.m e).map (fun m' => { m := m', pend := none })
  | some k =>
    match t with
    | .DS k' row => if k = k' then (step P ms.m (.finished k row)).map (fun m' => { m := m', pend := none }) else none
    | _ =>
      if Tok.isReg t then
        match t.toEvent? with
        | none => none
        | some e => (step P ms.m e).map (fun m' => { m := m', pend := some k })
      else none

def trun (P : Program) : MSt → List Tok → Option MSt
  | ms, [] => some ms
  | ms, t :: ts => (tstep P ms t).bind (fun ms' => trun P ms' ts)

/-- `s'` has recorded exactly `toks` (oldest first) on top of the trace of `s` -/
def Emits (s : State) (toks : List Tok) (s' : State) : Prop := s'.trace = toks.reverse ++ s.trace

/-- a token of the two kinds that mark "the C++ has no defined behaviour here / fuel ran out" -/
def Tok.isBad : Tok → Bool
  | .FUEL => true
  | .BAD _ => true
  | _ => false

def NoBad (toks : List Tok) : Prop := ∀ t ∈ toks, Tok.isBad t = false

/-! ## Hypotheses on the program -/

/-- Needed hypotheses on the DSL rules (each one is NECESSARY: see the rejected runs in notes/REFINE.md §5):
every request has a kind the engine knows, an input id the engine accepts (`taskNeedsInput` reports
`ER 2` otherwise and the request is silently dropped), and ids are distinct within a rule
(`DslTask::provideValue` identifies the request by `(id, key)` and lets the LAST match decide
single-use-ness whereas the monitor takes the FIRST undelivered match). -/
structure RulesOk (rules : List RuleSpec) : Prop where
  kinds : ∀ k, ∀ q ∈ allReqs (specOf rules k), q.kind ≤ 2
  ids : ∀ k, ∀ q ∈ allReqs (specOf rules k), q.id ≤ kMaximumInputID
  nodup : ∀ k, ((allReqs (specOf rules k)).map (fun q => q.id)).Nodup

/-! ## Abstraction functions on the concrete state -/

/-- what is "in hand": items popped off a work queue by the loop body that is executing and not yet
re-queued / consumed.  They count as if they were still queued. -/
structure Hand where
  /-- scan requests being processed by `processRuleScanRequest` / `scanLoop` -/
  scan : List RuleScanRequest := []
  /-- input requests popped by `inputRequestsLoop`, not yet past `scanRule`/`demandRule` (UNPROCESSED) -/
  inp : List TaskInputRequest := []
  /-- finished input requests popped by `finishedInputsLoop`, wait count not yet decremented (PROCESSED) -/
  fin : List TaskInputRequest := []
  /-- finished requests whose value has been handed to the task (`PV`; nothing for a must-follow request) but
  whose `decrementTaskWaitCount` has not run yet: no longer outstanding, still counted in `waitCount` -/
  dec : List TaskInputRequest := []
  /-- inside `DslTask::issue(ti, fresh)` of task `a`: the requests the monitor already counts as issued
  (`start`/`provide` carry the whole list) that the engine has not been told about yet -/
  issuing : Option (Key × List Req) := none

/-- the task whose `DslTask::issue` is running (between `ST`/`PV` and the end of the client callback) -/
def Hand.issuingFor (h : Hand) : Option Key := h.issuing.map (fun p => p.1)

/-- the requests of `a` still to be issued by the running `DslTask::issue` -/
def Hand.toIssue (h : Hand) (a : Key) : List Req :=
  match h.issuing with
  | some (b, l) => if a = b then l else []
  | none => []

def Registered (s : State) (k : Key) : Prop := (s.ruleInfos.lookup k).isSome = true

/-- the abstract status of a key, read off the concrete state (inside a started build).  A rule whose
`S k 2` has been reported but whose row is not yet written (`pend = some k`) is still `computing`
for the monitor; `DoesNotNeedToRun` is still `scanning` for the monitor (until `S k 1`). -/
def statusOf (s : State) (pend : Option Key) (k : Key) : Status :=
  match s.ruleInfos.lookup k with
  | none => .idle
  | some ri =>
    match ri.state with
    | .incomplete => .idle
    | .isScanning => .scanning
    | .needsToRun => .needsRun
    | .doesNotNeedToRun => .scanning
    | .inProgressWaiting => .running
    | .inProgressComputing => .computing
    | .complete =>
      if ri.result.builtAt = s.currentEpoch then (if pend = some k then .computing else .done) else .idle

/-- the live scan records: `(owner, record)` for every rule in `IsScanning` -/
def liveRecords (s : State) : List (Key × RuleScanRecord) :=
  s.ruleInfos.filterMap (fun p => if p.2.isScanning then p.2.getPendingScanRecord.map (fun r => (p.1, r)) else none)

def pausedAll (s : State) : List TaskInputRequest := (liveRecords s).flatMap (fun p => p.2.pausedInputRequests)
def requestedByAll (s : State) : List TaskInputRequest := s.taskInfos.flatMap (fun p => p.2.requestedBy)

/-- input requests that `processInputRequest` has not yet taken past `scanRule`/`demandRule` -/
def unprocessed (s : State) (h : Hand) : List TaskInputRequest := h.inp ++ s.inputRequests ++ pausedAll s
/-- input requests already recorded as a dependency of the requesting rule -/
def processed (s : State) (h : Hand) : List TaskInputRequest := h.fin ++ requestedByAll s ++ s.finishedInputRequests
def outstanding (s : State) (h : Hand) : List TaskInputRequest := unprocessed s h ++ processed s h

def ofTask (a : Key) (l : List TaskInputRequest) : List TaskInputRequest := l.filter (fun r => r.taskInfo == some a)

def deferredAll (s : State) : List RuleScanRequest :=
  (liveRecords s).flatMap (fun p => p.2.deferredScanRequests) ++ s.taskInfos.flatMap (fun p => p.2.deferredScanRequests)
/-- all live scan requests -/
def scanReqs (s : State) (h : Hand) : List RuleScanRequest := h.scan ++ s.ruleInfosToScan ++ deferredAll s

/-- the `TaskInputRequest` that `DslTask::issue` creates for the request `q` of the task of rule `a` -/
def reqOf (a : Key) (q : Req) : TaskInputRequest :=
  { taskInfo := some a, inputID := if q.kind == 2 then kMustFollowInputID else q.id, inputRuleInfo := q.key,
    orderOnly := q.kind == 2, forcePriorValue := false, singleUse := q.kind == 1 }

/-- the dependency `processInputRequest` records for a request -/
def depOf (r : TaskInputRequest) : Dep := ⟨r.inputRuleInfo, r.orderOnly, r.singleUse⟩

/-- the in-memory results agree.  For a rule in flight the monitor does not track the partial
dependency list; between `S k 2` and `DS k` (`pend`) the concrete `builtAt` is already the new one;
a never-built result (`builtAt = 0`, e.g. after a cancelled task) may carry stale dependencies that
nobody reads. -/
def resRel (inflight pend : Bool) (mr cr : Res) : Prop :=
  mr.value = cr.value ∧ mr.sig = cr.sig ∧ mr.computedAt = cr.computedAt ∧
  (pend = false → mr.builtAt = cr.builtAt) ∧
  (pend = false → inflight = false → cr.builtAt ≠ 0 → mr.deps = cr.deps)

def StateKind.inProgress (st : StateKind) : Bool := st == .inProgressWaiting || st == .inProgressComputing

/-! ## The relation: part 1, what holds at all times (`Base`) -/

structure Base (rules : List RuleSpec) (s : State) (m : Engine.St) (pend : Option Key) : Prop where
  rules_eq : s.rules = rules
  env : m.env = s.env
  hasDB : s.hasDB = true
  /-- the harness's delegate (and the default one) never asks for a cycle to be broken -/
  noResolve : s.shouldResolveCycle = false
  /-- no injected database failure (op `F`): the monitor has no event for a failed write -/
  noFail : s.store.failNextSet = false
  epoch : m.epoch = s.currentEpoch
  /-- `ruleInfos` keys ↔ `registered` -/
  reg : ∀ k, m.registered k = (s.ruleInfos.lookup k).isSome
  keyOk : ∀ k ri, s.ruleInfos.lookup k = some ri → ri.key = k
  /-- `ruleInfos` is a map -/
  rulesNodup : (s.ruleInfos.map (fun p => p.1)).Nodup
  /-- `rule->signature` ↔ `sigAt` -/
  sig : ∀ k ri, s.ruleInfos.lookup k = some ri → m.sigAt k = ri.signature
  /-- `RuleInfo.result` ↔ `mem.res` -/
  res : ∀ k ri, s.ruleInfos.lookup k = some ri →
    resRel (StateKind.inProgress ri.state) (pend == some k) (m.mem.res k) ri.result
  /-- an unregistered key has its database row in (abstract) memory -/
  resUnreg : ∀ k, s.ruleInfos.lookup k = none → m.mem.res k = m.db.res k
  /-- store rows ↔ `db` -/
  db : ∀ k, m.db.res k = (s.store.rows.lookup k).getD {}
  dbBuilt : ∀ k row, s.store.rows.lookup k = some row → row.builtAt ≠ 0
  /-- stored rows never carry an epoch from the future -/
  dbBuiltLe : ∀ k row, s.store.rows.lookup k = some row → row.builtAt ≤ s.currentEpoch
  dbIter : m.dbIter = s.store.iteration
  /-- results never carry an epoch from the future (so `++currentEpoch` makes every rule incomplete) -/
  builtLe : ∀ k ri, s.ruleInfos.lookup k = some ri → ri.result.builtAt ≤ s.currentEpoch

/-! ## part 2: between builds -/

/-- The relation between two ops (no build active). -/
structure RelIdle (rules : List RuleSpec) (s : State) (m : Engine.St) : Prop extends Base rules s m none where
  target : m.target = none
  allIdle : ∀ k, m.status k = .idle
  /-- the engine's epoch is the stored iteration (so a restart does not go back in time) -/
  iterEq : s.store.iteration = s.currentEpoch
  /-- rules are left `Incomplete` or `Complete` (never a scan verdict without its demand: see `midScan`) -/
  states : ∀ k ri, s.ruleInfos.lookup k = some ri → ri.state = .incomplete ∨ ri.state = .complete
  noTasks : s.taskInfos = []
  noScanQ : s.ruleInfosToScan = []
  noInputQ : s.inputRequests = []
  noFinQ : s.finishedInputRequests = []
  noReady : s.readyTaskInfos = []
  noFinTasks : s.finishedTaskInfos = []
  noOutstanding : s.numOutstandingUnfinishedTasks = 0
  noScanning : s.numRulesBeingScanned = 0
  noDeferred : s.pendingDeferred = []
  notActive : s.buildActive = false

/-! ## part 3: inside the work loop of a started build -/

/-- well-formedness of one live scan request `r` (rule `a = r.ruleInfo` is `IsScanning`) -/
structure ScanReqOk (s : State) (m : Engine.St) (r : RuleScanRequest) : Prop where
  reg : Registered s r.ruleInfo
  scanning : (s.rule r.ruleInfo).state = .isScanning
  /-- `BAD dependency-index-out-of-bounds` is unreachable -/
  inBounds : r.inputIndex < (s.rule r.ruleInfo).result.deps.length
  /-- the dependencies before `inputIndex` were found complete and not newer (monitor's `depFresh`) -/
  prefixFresh : ∀ d ∈ (m.mem.res r.ruleInfo).deps.take r.inputIndex, depFresh m (m.mem.res r.ruleInfo) d = true
  /-- a cached input is the dependency at `inputIndex` -/
  cached : ∀ i, r.inputRuleInfo = some i →
    Registered s i ∧ ∃ d, (s.rule r.ruleInfo).result.deps[r.inputIndex]? = some d ∧ d.key = i ∧ d.orderOnly = r.orderOnly

/-- the task of rule `a` (in `taskInfos`) against the monitor's `Task` -/
structure TaskOk (rules : List RuleSpec) (s : State) (m : Engine.St) (h : Hand) (a : Key) (t : TaskInfo) : Prop where
  forRule : t.forRuleInfo = a
  started : (m.task a).started = true
  issued : (m.task a).issued = t.issuedReqs ++ h.toIssue a
  /-- the monitor's `issued` is always the function of its delivery sequence that `provide` recomputes -/
  issuedSeq : (m.task a).issued = issuedAfter (program rules) a (m.task a).seq
  recv : recvOf (m.task a).seq = t.recv
  /-- only issued requests have been delivered -/
  deliveredIssued : ∀ q, delivered (m.task a).seq q = true → q ∈ t.issuedReqs
  completed : (m.task a).completed = t.done
  /-- `waitCount` = number of outstanding requests of this task, wherever they are -/
  waitCount : t.waitCount = (ofTask a (outstanding s h)).length + (ofTask a h.dec).length
  /-- every outstanding request is an issued one; a value request is still undelivered -/
  outIssued : ∀ r ∈ ofTask a (outstanding s h), ∃ q ∈ t.issuedReqs, r = reqOf a q ∧ (q.kind ≠ 2 → delivered (m.task a).seq q = false)
  /-- every undelivered issued value request is outstanding; a must-follow request is outstanding or its key is done -/
  issuedOut : ∀ q ∈ t.issuedReqs,
    (q.kind ≠ 2 → delivered (m.task a).seq q = false → reqOf a q ∈ outstanding s h) ∧
    (q.kind = 2 → isDone m q.key = true ∨ reqOf a q ∈ outstanding s h)
  /-- outstanding value requests are pairwise distinct (popping one removes it) -/
  outNodup : ((ofTask a (outstanding s h)).filter (fun r => !r.orderOnly)).Nodup
  /-- `result.dependencies` of the running rule: the requests processed so far -/
  depsPerm : List.Perm (t.issuedReqs.map Req.toDep)
    ((s.rule a).result.deps ++ (ofTask a (unprocessed s h)).map depOf)
  /-- per state (inside `demandRule`, between `ST` and `PP`, the prior value has not been offered yet: the hand is still
  marked `issuing` for this task) -/
  waiting : (s.rule a).state = .inProgressWaiting →
    ((m.task a).priorSeen = priorDue m a ∨ h.issuingFor = some a) ∧ t.discoveredDependencies = [] ∧ t.done = false
  computing : (s.rule a).state ≠ .inProgressWaiting →
    t.discoveredDependencies = discDeps (m.task a).discs ∧ ofTask a (outstanding s h) = []

/-- The relation inside `executeLoop` (from `QC`/`++currentEpoch` to the return of `executeTasks`). -/
structure Rel (rules : List RuleSpec) (s : State) (ms : MSt) (h : Hand) : Prop extends Base rules s ms.m ms.pend where
  /- build flags -/
  active : s.buildActive = true
  started : ms.m.started = true
  notReturned : ms.m.returned = false
  epochPos : s.currentEpoch ≠ 0
  /-- `buildCancelled` has a visible cause (`X`, or `ER 2/3/4`) -/
  cancelled : s.buildCancelled = true → ms.m.cancelled = true ∨ ms.m.errSeen = true
  /-- every reported error cancels the build (`ER 2/3/4` set `buildCancelled`; `ER 6` is excluded by `noFail`) -/
  errCancelled : ms.m.errSeen = true → s.buildCancelled = true
  /-- a reported cycle ends the work loop at once -/
  noCycle : ms.m.cycleSeen = false
  /-- a build is being run (the requested key is registered before the loop starts, and registrations
  only grow: that fact is carried by the loop lemmas, not by `Rel`) -/
  targetReg : ∃ root, ms.m.target = some root
  /-- `RuleInfo.state` (epoch-lazy completeness) ↔ `status` -/
  status : ∀ k, ms.m.status k = statusOf s ms.pend k
  /-- the buffered completion is a real one -/
  pendOk : ∀ k, ms.pend = some k → ∃ ri, s.ruleInfos.lookup k = some ri ∧ ri.state = .complete ∧
    ri.result.builtAt = s.currentEpoch ∧ (ms.m.task k).completed = true
  /- monitor-side bookkeeping -/
  validIdle : ∀ k, ms.m.status k = .idle → ms.m.validSeen k = none
  /-- a rule being scanned (incl. `DoesNotNeedToRun` before its `S k 1`) has a built, signature-current,
  valid result -/
  scanningOk : ∀ k ri, s.ruleInfos.lookup k = some ri → (ri.state = .isScanning ∨ ri.state = .doesNotNeedToRun) →
    ms.m.validSeen k = some true ∧ ri.result.builtAt ≠ 0 ∧ ri.signature = ri.result.sig
  /-- `DoesNotNeedToRun`: the monitor's guard of `upToDate` already holds -/
  dntrFresh : ∀ k ri, s.ruleInfos.lookup k = some ri → ri.state = .doesNotNeedToRun →
    ∀ d ∈ (ms.m.mem.res k).deps, depFresh ms.m (ms.m.mem.res k) d = true
  inScanned : ∀ k, ms.m.status k = .scanning → k ∈ ms.m.scanned
  inRan : ∀ k, ms.m.status k = .running ∨ ms.m.status k = .computing → k ∈ ms.m.ran
  ranOk : ∀ k ∈ ms.m.ran, ms.m.status k = .running ∨ ms.m.status k = .computing ∨ ms.m.status k = .done
  /- scanning -/
  /-- every scanning rule has EXACTLY ONE live scan request … -/
  scanOne : ∀ k ri, s.ruleInfos.lookup k = some ri → ri.state = .isScanning →
    ((scanReqs s h).filter (fun r => r.ruleInfo == k)).length = 1
  /-- … and every live scan request belongs to a scanning rule and is well formed -/
  scanOk : ∀ r ∈ scanReqs s h, ScanReqOk s ms.m r
  /-- a deferred request is parked at the record / task of the input it waits for, and carries that input -/
  deferredAtRecord : ∀ p ∈ liveRecords s, ∀ r ∈ p.2.deferredScanRequests, r.inputRuleInfo = some p.1
  deferredAtTask : ∀ p ∈ s.taskInfos, ∀ r ∈ p.2.deferredScanRequests, r.inputRuleInfo = some p.1
  /-- `pendingScanRecord` live ⇔ `isScanning` (no use of a freed scan record) -/
  recordLive : ∀ k ri, s.ruleInfos.lookup k = some ri → ri.state = .isScanning →
    ∃ r, ri.inProgressInfo = .pendingScanRecord r
  scanCount : s.numRulesBeingScanned = (s.ruleInfos.filter (fun p => p.2.isScanning)).length
  /-- somebody waits for every scan: its record holds a request, or the request that started it is still in
  hand / queued (so that `finishScanRequest` always wakes somebody up: `midScan`) -/
  recordWaited : ∀ p ∈ liveRecords s, p.2.pausedInputRequests ≠ [] ∨ p.2.deferredScanRequests ≠ [] ∨
    (∃ r ∈ h.scan ++ s.ruleInfosToScan, r.inputRuleInfo = some p.1) ∨ (∃ r ∈ h.inp ++ s.inputRequests, r.inputRuleInfo = p.1)
  /-- a scan verdict (`NeedsToRun`/`DoesNotNeedToRun`) is always about to be demanded: some request for
  the rule is in hand or queued.  (At the top of the work loop there is no such rule: `Todo_noMid`.) -/
  midScan : ∀ k ri, s.ruleInfos.lookup k = some ri → (ri.state = .needsToRun ∨ ri.state = .doesNotNeedToRun) →
    (∃ r ∈ h.scan ++ s.ruleInfosToScan, r.inputRuleInfo = some k) ∨ (∃ r ∈ h.inp ++ s.inputRequests, r.inputRuleInfo = k)
  /- tasks -/
  taskKeys : ∀ k, (s.taskInfos.lookup k).isSome = (statusOf s ms.pend k == .running || statusOf s ms.pend k == .computing)
  taskNodup : (s.taskInfos.map (fun p => p.1)).Nodup
  taskOk : ∀ a t, s.taskInfos.lookup a = some t → TaskOk rules s ms.m h a t
  /- input requests -/
  reqReg : ∀ r ∈ outstanding s h, Registered s r.inputRuleInfo ∧ r.forcePriorValue = false
  reqTask : ∀ r ∈ outstanding s h, ∀ a, r.taskInfo = some a →
    (s.taskInfos.lookup a).isSome = true ∧ (s.rule a).state = .inProgressWaiting
  /-- a dummy request (of `build` or of a discovered dependency) justifies the scan it may start -/
  dummyOk : ∀ r ∈ unprocessed s h, r.taskInfo = none →
    ms.m.status r.inputRuleInfo ≠ .idle ∨ ms.m.target = some r.inputRuleInfo ∨
    (∃ p ∈ ms.m.pending, p.1 = r.inputRuleInfo) ∨
    (∃ k t, ms.pend = some k ∧ s.taskInfos.lookup k = some t ∧ ∃ d ∈ t.discoveredDependencies, d.key = r.inputRuleInfo)
  dummyUnproc : ∀ r ∈ processed s h, r.taskInfo ≠ none
  pausedAt : ∀ p ∈ liveRecords s, ∀ r ∈ p.2.pausedInputRequests, r.inputRuleInfo = p.1
  requestedAt : ∀ p ∈ s.taskInfos, ∀ r ∈ p.2.requestedBy, r.inputRuleInfo = p.1
  /-- a finished input request carries a value: its rule is complete in this build -/
  finDone : ∀ r ∈ h.fin ++ s.finishedInputRequests, isDone ms.m r.inputRuleInfo = true
  /-- the monitor's `pending` (discovered dependencies not yet up to date): each is still being brought
  up to date by the engine -/
  pendingOk : ∀ p ∈ ms.m.pending,
    (∃ r ∈ unprocessed s h, r.taskInfo = none ∧ r.inputRuleInfo = p.1) ∨ (s.taskInfos.lookup p.1).isSome = true
  /- task queues -/
  readyOk : ∀ a ∈ s.readyTaskInfos, ∃ t, s.taskInfos.lookup a = some t ∧ (s.rule a).state = .inProgressWaiting ∧ t.waitCount = 0
  readyNodup : s.readyTaskInfos.Nodup
  finTaskOk : ∀ a ∈ s.finishedTaskInfos, ∃ t, s.taskInfos.lookup a = some t ∧ (s.rule a).state = .inProgressComputing ∧ t.done = true
  finTaskNodup : s.finishedTaskInfos.Nodup
  deferredOk : ∀ a ∈ s.pendingDeferred, ∃ t, s.taskInfos.lookup a = some t ∧ (s.rule a).state = .inProgressComputing ∧ t.done = false
  deferredNodup : s.pendingDeferred.Nodup
  /-- a computing task is either waiting for its deferred completion or finished (never lost) -/
  computingWhere : ∀ a t, s.taskInfos.lookup a = some t → (s.rule a).state = .inProgressComputing →
    (t.done = false → a ∈ s.pendingDeferred) ∧ (t.done = true → a ∈ s.finishedTaskInfos)
  /-- `numOutstandingUnfinishedTasks` (no `BAD stall`) -/
  outstandingCount : s.numOutstandingUnfinishedTasks =
    s.pendingDeferred.length + s.finishedTaskInfos.length + (if ms.pend.isSome then 1 else 0)

/-- nothing in hand -/
def Hand.none : Hand := {}

/-- no rule sits on a scan verdict (`NeedsToRun`/`DoesNotNeedToRun`): the state at the top of the work loop, where
the build may be cancelled (such a rule would be taken for scanned by the next build) -/
def NoMid (s : State) : Prop :=
  ∀ k ri, s.ruleInfos.lookup k = some ri → ri.state ≠ .needsToRun ∧ ri.state ≠ .doesNotNeedToRun

/-! ## part 3b: loop-level facts outside `Rel` -/

/-- Loop-level facts about the ENGINE state that `Rel` does not carry (found by the cycle-search proof; adding
them to `Rel` would have been the cleaner design) and that every function preserves (`…_aux` lemmas):
* `readyZero`: a waiting task whose wait count reached 0 has been queued as ready (converse of `Rel.readyOk`; inside
  `demandRule` the new task is covered by the `issuing` mark of the hand) — so a stuck running task always has an
  outstanding request, i.e. an edge of the wait-for graph;
* `rootSeen`: the requested key has been looked at in this build, or its dummy request is still queued / in hand —
  so when the loop runs dry the key is not `idle` for the monitor. -/
structure Aux (key : Key) (s : State) (h : Hand) : Prop where
  readyZero : ∀ a t, s.taskInfos.lookup a = some t → (s.rule a).state = .inProgressWaiting → t.waitCount = 0 →
    a ∈ s.readyTaskInfos ∨ h.issuingFor = some a
  rootSeen : statusOf s none key ≠ .idle ∨ ∃ r ∈ h.inp ++ s.inputRequests, r.inputRuleInfo = key

/-! ## part 4: after `executeTasks` returned (before `DI … DE ; R ; Z`) -/

/-- the engine is quiescent: nothing queued, no task, no scan (between builds, in the prologue of `build`,
and after `cancelRemainingTasks` / a successful work loop) -/
structure Quiet (s : State) : Prop where
  states : ∀ k ri, s.ruleInfos.lookup k = some ri → ri.state = .incomplete ∨ ri.state = .complete
  noTasks : s.taskInfos = []
  noScanQ : s.ruleInfosToScan = []
  noInputQ : s.inputRequests = []
  noFinQ : s.finishedInputRequests = []
  noReady : s.readyTaskInfos = []
  noFinTasks : s.finishedTaskInfos = []
  noOutstanding : s.numOutstandingUnfinishedTasks = 0
  noScanning : s.numRulesBeingScanned = 0
  noDeferred : s.pendingDeferred = []

/-- the monitor's memory once `ret 0` / `tail` have marked the in-flight rules never-built
(`cancelRemainingTasks` did that to the engine's rules before `DI`) -/
def resetMem (m : Engine.St) : Engine.St :=
  { m with mem := { m.mem with res := fun k => if inflight m k then { m.mem.res k with builtAt := 0 } else m.mem.res k } }

/-- after the work loop, until the build is closed by `Z`: the engine is quiescent and its rules agree
with the monitor's memory AS `ret`/`tail` WILL LEAVE IT.  `success`: the monitor's guard of a successful
`ret v` holds; otherwise a cause of failure was reported. -/
structure RelPost (rules : List RuleSpec) (key : Key) (s : State) (m : Engine.St) (success : Bool) : Prop
    extends Quiet s where
  base : Base rules s (resetMem m) none
  active : s.buildActive = true
  target : m.target = some key
  notReturned : m.returned = false
  /-- a build that got past the early cancellation check has `started`; `DI` then makes `dbIter = epoch` -/
  epochPos : m.started = true → s.currentEpoch ≠ 0
  ok : success = true → Registered s key ∧ isDone m key = true ∧ m.pending = [] ∧ (∀ k ∈ m.ran, inflight m k = false) ∧
        m.cycleSeen = false ∧ m.errSeen = false
  failed : success = false → m.cancelled = true ∨ m.cycleSeen = true ∨ m.errSeen = true

end LLBuild.Refine
