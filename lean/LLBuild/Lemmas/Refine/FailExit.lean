/-
IM7-D — the failure exit of `finishedTasksLoopA`: an injected database write failure (op `F`).

State of the engine when `cancelRemainingTasksA` is called after a failed write: `failExitState task s0` (Fail0.lean).
It is read by the monitor as: `S k 2` (buffered), the registrations of the discovered dependencies, `DS k row` DROPPED
(no `finished` event), `error 6`, then the tokens of the drain.  On the monitor side rule `k` stays `computing`.

Proof: a GHOST engine state `G` = the state `s` BEFORE the pop (task still in `finishedTaskInfos`, rule still
`InProgressComputing`) after the registrations only, with the recorder's fields (trace, `cancelIssued`,
`buildCancelled`) of the real state; `Rel` holds for `G` (`failExit_setup`).  The real state is
`ov task F dm (fr f' (n-1) G)` (`ov`: FailExit1.lean — rule `task` overwritten, the dummies appended); the drain commutes
with `ov` (`drainLoopA_ov`) and keeps the ghost invariant of `Exit.lean` / `AsyncExit.lean` (`DrainInvE`: the monitor is
the ghost's with `errSeen` set); `cancelFinish` clears the queues and resets rule `task` (its task is still listed), and
what is left of the override — the appended dependencies of a never-built result — is not read by `RelPost`
(`relPost_ov`).

FINDING: when `cancelAtEvent` fires at the `DS` token the trace is `… DS k row ; X ; ER 6 …` — `ER 6` does not
IMMEDIATELY follow `DS`.  The main theorem `failExit_sim` has the tokens `xtoks c1` (`[]` or `[X]`) between `DS` and
`ER 6`; `failExit_sim_noX` is the statement for `c1 = false`.
Core Lean only.
-/
import LLBuild.Lemmas.Refine.FailExit1

namespace LLBuild.Refine
open LLBuild.Engine LLBuild.Engine.DSL LLBuild.EngineImpl

/-! ## An optional `X` -/

/-- the `X` an `emit` may add -/
def xtoks (c : Bool) : List Tok := if c then [.X] else []
/-- … and the monitor after it -/
def xmon (c : Bool) (m : Engine.St) : Engine.St := if c then cancelM m else m

theorem trun_xtoks (P : Program) (c : Bool) (m : Engine.St) (p : Option Key) :
    trun P ⟨m, p⟩ (xtoks c) = some ⟨xmon c m, p⟩ := by
  cases c
  · rfl
  · show (tstep P ⟨m, p⟩ .X).bind _ = _
    rw [tstep_X]
    rfl

theorem xmon_target (c : Bool) (m : Engine.St) : (xmon c m).target = m.target := by cases c <;> rfl
theorem xmon_started (c : Bool) (m : Engine.St) : (xmon c m).started = m.started := by cases c <;> rfl
theorem xmon_setE (c : Bool) (m : Engine.St) : xmon c (setE m) = setE (xmon c m) := by cases c <;> rfl

theorem xtoks_drainSafe (c : Bool) : ∀ t ∈ xtoks c, Tok.drainSafe t = true := by
  cases c
  · intro t h; cases h
  · intro t h
    simp only [xtoks, if_true, List.mem_singleton] at h
    subst h; rfl

theorem xtoks_isReg (c : Bool) : ∀ t ∈ xtoks c, Tok.isReg t = true := by
  cases c
  · intro t h; cases h
  · intro t h
    simp only [xtoks, if_true, List.mem_singleton] at h
    subst h; rfl

/-- a token that the GHOST does not read as an event: the relation only sees the recorder (a possible `X`) -/
theorem ghost_emit {rules : List RuleSpec} {g : State} {m0 : Engine.St} (hr : Rel rules g ⟨m0, none⟩ {})
    (hh : g.halted = false) (tok : Tok) :
    ∃ c, Emits g (tok :: xtoks c) (emit tok g) ∧ Rel rules (emit tok g) ⟨xmon c m0, none⟩ {} := by
  rcases emit_spec tok g hh with he | ⟨_, he⟩
  · refine ⟨false, ?_, ?_⟩
    · rw [he]; simp [Emits, xtoks]
    · rw [he]
      exact hr.recorder (tok :: g.trace) g.halted g.cancelAtEvent g.cancelIssued g.sched g.buildCancelled
        hr.cancelled hr.errCancelled
  · refine ⟨true, ?_, ?_⟩
    · rw [he]; simp [Emits, xtoks]
    · rw [he]
      exact hr.cancelled_ms (.X :: tok :: g.trace)

/-! ## A frame for `emit` / `getRuleInfoForKey`: three fields they do not touch -/

/-- `finishedTaskInfos`, `numOutstandingUnfinishedTasks`, `inputRequests` overridden -/
def fr3 (f : List Key) (n : Nat) (l : List TaskInputRequest) (g : State) : State :=
  { g with finishedTaskInfos := f, numOutstandingUnfinishedTasks := n, inputRequests := l }

theorem emit_fr3 (t : Tok) (g : State) (f : List Key) (n : Nat) (l : List TaskInputRequest) :
    emit t (fr3 f n l g) = fr3 f n l (emit t g) := by
  unfold emit fr3
  by_cases hh : g.halted = true
  · simp [hh]
  · simp only [hh, Bool.false_eq_true, if_false]
    split
    · simp only [EngineImpl.doCancel]
      split <;> first | rfl | (split <;> rfl)
    · rfl

theorem getRuleInfoForKey_fr3 (k : Key) (g : State) (hdb : g.hasDB = true) (f : List Key) (n : Nat)
    (l : List TaskInputRequest) : getRuleInfoForKey k (fr3 f n l g) = fr3 f n l (getRuleInfoForKey k g) := by
  cases hl : g.ruleInfos.lookup k with
  | some ri =>
    rw [getRuleInfoForKey_old k g (by rw [hl]; rfl),
      getRuleInfoForKey_old k _ (by show (g.ruleInfos.lookup k).isSome = true; rw [hl]; rfl)]
  | none =>
    rw [getRuleInfoForKey_fresh k g hdb hl, getRuleInfoForKey_fresh k (fr3 f n l g) hdb hl]
    show emit _ (emit _ (fr3 f n l (g.setRule (freshRule g k)))) = _
    rw [emit_fr3, emit_fr3]
    rfl

/-- the registrations of `pushDiscovered`, without the dummy input requests -/
def regOnly : List Dep → State → State
  | [], s => s
  | d :: ds, s => regOnly ds (getRuleInfoForKey d.key s)

theorem regOnly_same : ∀ (ds : List Dep) (s : State), SameButRules s (regOnly ds s)
  | [], s => by constructor <;> first | rfl | exact id
  | d :: ds, s => (getRuleInfoForKey_same d.key s).trans (regOnly_same ds _)

theorem regOnly_fr3 : ∀ (ds : List Dep) (g : State), g.hasDB = true → ∀ (f : List Key) (n : Nat)
    (l : List TaskInputRequest), regOnly ds (fr3 f n l g) = fr3 f n l (regOnly ds g)
  | [], _, _, _, _, _ => rfl
  | d :: ds, g, hdb, f, n, l => by
    show regOnly ds (getRuleInfoForKey d.key (fr3 f n l g)) = fr3 f n l (regOnly ds (getRuleInfoForKey d.key g))
    rw [getRuleInfoForKey_fr3 d.key g hdb]
    exact regOnly_fr3 ds _ (by rw [(getRuleInfoForKey_same d.key g).hasDB]; exact hdb) f n l

theorem regOnly_keep : ∀ (ds : List Dep) (s : State), s.hasDB = true → ∀ {k : Key} {ri : RuleInfo},
    s.ruleInfos.lookup k = some ri → (regOnly ds s).ruleInfos.lookup k = some ri
  | [], _, _, _, _, h => h
  | d :: ds, s, hdb, _, _, h =>
    regOnly_keep ds _ (by rw [(getRuleInfoForKey_same d.key s).hasDB]; exact hdb) (getRuleInfoForKey_keep d.key s hdb h)

theorem regOnly_new : ∀ (ds : List Dep) (s : State), s.hasDB = true → ∀ {k : Key} {ri : RuleInfo},
    (regOnly ds s).ruleInfos.lookup k = some ri → s.ruleInfos.lookup k = some ri ∨ ri.state = .incomplete
  | [], _, _, _, _, h => Or.inl h
  | d :: ds, s, hdb, _, _, h => by
    rcases regOnly_new ds _ (by rw [(getRuleInfoForKey_same d.key s).hasDB]; exact hdb) h with h1 | h1
    · exact getRuleInfoForKey_new d.key s hdb h1
    · exact Or.inr h1

/-- `pushDiscovered` = the registrations, then all the dummies -/
theorem pushDiscovered_split : ∀ (ds : List Dep) (s : State), s.hasDB = true →
    pushDiscovered ds s = { regOnly ds s with inputRequests := s.inputRequests ++ ds.map dummyOf }
  | [], s, _ => by
    show s = { s with inputRequests := s.inputRequests ++ [] }
    rw [List.append_nil]
  | d :: ds, s, hdb => by
    have hdb1 : (getRuleInfoForKey d.key s).hasDB = true := by rw [(getRuleInfoForKey_same d.key s).hasDB]; exact hdb
    rw [pushDiscovered_cons, pushDiscovered_split ds _ (show (pushInput (dummyOf d) (getRuleInfoForKey d.key s)).hasDB = true from hdb1)]
    have e1 : pushInput (dummyOf d) (getRuleInfoForKey d.key s) =
        fr3 (getRuleInfoForKey d.key s).finishedTaskInfos (getRuleInfoForKey d.key s).numOutstandingUnfinishedTasks
          ((getRuleInfoForKey d.key s).inputRequests ++ [dummyOf d]) (getRuleInfoForKey d.key s) := rfl
    rw [e1, regOnly_fr3 ds _ hdb1]
    show ({ regOnly ds (getRuleInfoForKey d.key s) with
        finishedTaskInfos := (getRuleInfoForKey d.key s).finishedTaskInfos,
        numOutstandingUnfinishedTasks := (getRuleInfoForKey d.key s).numOutstandingUnfinishedTasks,
        inputRequests := ((getRuleInfoForKey d.key s).inputRequests ++ [dummyOf d]) ++ ds.map dummyOf } : State) =
      { regOnly ds (getRuleInfoForKey d.key s) with inputRequests := s.inputRequests ++ (dummyOf d :: ds.map dummyOf) }
    have hs := regOnly_same ds (getRuleInfoForKey d.key s)
    rw [← hs.finishedTaskInfos, ← hs.numOutstandingUnfinishedTasks, (getRuleInfoForKey_same d.key s).inputRequests,
      List.append_assoc]
    rfl

theorem isLGX_isReg {t : Tok} (h : Tok.isLGX t = true) : Tok.isReg t = true := by
  cases t <;> simp [Tok.isLGX] at h <;> rfl

/-- the registrations keep the relation (`Rel.getRule`, iterated) -/
theorem regOnly_rel {rules : List RuleSpec} : ∀ (ds : List Dep) (s : State) (m : Engine.St),
    Rel rules s ⟨m, none⟩ {} → s.halted = false →
    ∃ toks m', Emits s toks (regOnly ds s) ∧ trun (program rules) ⟨m, none⟩ toks = some ⟨m', none⟩ ∧
      Rel rules (regOnly ds s) ⟨m', none⟩ {} ∧ (regOnly ds s).halted = false ∧ (∀ t ∈ toks, Tok.isLGX t = true)
  | [], s, m, hr, hh => ⟨[], m, Emits.refl s, rfl, hr, hh, fun _ h => by cases h⟩
  | d :: ds, s, m, hr, hh => by
    obtain ⟨toks1, ms1, he1, hrun1, hr1, hp1, _, hh1⟩ := hr.getRule hh d.key
    obtain ⟨m1, p1⟩ := ms1
    replace hp1 : p1 = none := hp1
    subst hp1
    obtain ⟨toks1', he1', hlgx1⟩ := (getRuleInfoForKey_frame d.key s hr.hasDB hh).toks
    have := emits_inj he1 he1'
    subst this
    obtain ⟨toks2, m2, he2, hrun2, hr2, hh2, hlgx2⟩ := regOnly_rel ds _ m1 hr1 hh1
    refine ⟨toks1 ++ toks2, m2, he1.trans he2, trun_append_some hrun1 hrun2, hr2, hh2, ?_⟩
    intro t ht
    rcases List.mem_append.1 ht with h | h
    · exact hlgx1 t h
    · exact hlgx2 t h

/-! ## The failure exit state as an override of a frame of the ghost -/

/-- what `finishedTasksLoop` does to the rule of the finished task before the write -/
def failF (ep : Nat) (dd : List Dep) (ri : RuleInfo) : RuleInfo :=
  { ri with inProgressInfo := .null, state := .complete,
            result := { ri.result with builtAt := ep, deps := ri.result.deps ++ dd } }

theorem failF_eq (s : State) (t : TaskInfo) (ri : RuleInfo) :
    finRule2 (finRule1 s ri) t = failF s.currentEpoch t.discoveredDependencies ri := rfl

/-- the ghost: the state before the pop, after the registrations, with the recorder of the real state -/
def failGhost (task : Key) (s : State) : State :=
  emit (.ER 6) (emit (.DS task (failF s.currentEpoch (s.task task).discoveredDependencies (s.rule task)).result)
    (regOnly (s.task task).discoveredDependencies (emit (.S task 2) s)))

theorem fr_eq_fr3 (f : List Key) (n : Nat) (g : State) : fr f n g = fr3 f n g.inputRequests g := rfl

/-- `finishedTaskPre`, the two updates of the rule moved behind `pushDiscovered` -/
theorem finishedTaskPre_eq {s0 : State} {task : Key} {ri0 : RuleInfo}
    (hfk : (s0.task task).forRuleInfo = task) (hl : s0.ruleInfos.lookup task = some ri0) (hk : ri0.key = task)
    (hdb : s0.hasDB = true) (hh : s0.halted = false) :
    finishedTaskPre task s0 =
      (pushDiscovered (s0.task task).discoveredDependencies (emit (.S task 2) s0)).setRule
        (failF s0.currentEpoch (s0.task task).discoveredDependencies ri0) := by
  have hk1 : (finRule1 s0 ri0).key = task := hk
  have hk2 : (finRule2 (finRule1 s0 ri0) (s0.task task)).key = task := hk
  have e1 : s0.modRule task (fun ri => setComplete s0 { ri with inProgressInfo := .null }) = s0.setRule (finRule1 s0 ri0) := by
    unfold State.modRule; rw [rule_of_lookup hl]; rfl
  have e2 : (emit (.S task 2) (s0.setRule (finRule1 s0 ri0))).modRule task
        (fun ri => { ri with result := { ri.result with deps := ri.result.deps ++ (s0.task task).discoveredDependencies } }) =
      (emit (.S task 2) (s0.setRule (finRule1 s0 ri0))).setRule (finRule2 (finRule1 s0 ri0) (s0.task task)) := by
    unfold State.modRule
    rw [emit_rule, setRule_rule, hk1]
    simp only [if_true]
    rfl
  have hdbE : (emit (.S task 2) s0).hasDB = true := by rw [emit_hasDB]; exact hdb
  have hregE : Registered (emit (.S task 2) s0) (finRule1 s0 ri0).key := by
    unfold Registered; rw [emit_ruleInfos, hk1, hl]; rfl
  have hdbP : (pushDiscovered (s0.task task).discoveredDependencies (emit (.S task 2) s0)).hasDB = true := by
    rw [(pushDiscovered_frame _ _ hdbE (by rw [emit_halted_eq]; exact hh)).1.hasDB]; exact hdbE
  unfold finishedTaskPre
  simp only [hfk]
  rw [e1, e2, emit_setRule, setRule_setRule _ _ _ (hk1.trans hk2.symm),
    pushDiscovered_setRule _ _ _ hdbE (show Registered (emit (.S task 2) s0) (finRule2 (finRule1 s0 ri0) (s0.task task)).key from hregE)]
  rfl

theorem failExitState_eq {s : State} {task : Key} {ri0 : RuleInfo}
    (hfk : (s.task task).forRuleInfo = task) (hl : s.ruleInfos.lookup task = some ri0) (hk : ri0.key = task)
    (hdb : s.hasDB = true) (hh : s.halted = false) :
    (finishedTaskPre task { s with finishedTaskInfos := s.finishedTaskInfos.dropLast }).rule task =
      failF s.currentEpoch (s.task task).discoveredDependencies ri0 ∧
    finishedTaskPre task { s with finishedTaskInfos := s.finishedTaskInfos.dropLast } =
      ov task (failF s.currentEpoch (s.task task).discoveredDependencies)
        ((s.task task).discoveredDependencies.map dummyOf)
        (fr s.finishedTaskInfos.dropLast s.numOutstandingUnfinishedTasks
          (regOnly (s.task task).discoveredDependencies (emit (.S task 2) s))) ∧
    failExitState task { s with finishedTaskInfos := s.finishedTaskInfos.dropLast } =
      ov task (failF s.currentEpoch (s.task task).discoveredDependencies)
        ((s.task task).discoveredDependencies.map dummyOf)
        (fr s.finishedTaskInfos.dropLast (s.numOutstandingUnfinishedTasks - 1) (failGhost task s)) := by
  have hk2 : (failF s.currentEpoch (s.task task).discoveredDependencies ri0).key = task := hk
  have hpre := finishedTaskPre_eq (s0 := { s with finishedTaskInfos := s.finishedTaskInfos.dropLast }) (task := task)
    hfk hl hk hdb hh
  replace hpre : finishedTaskPre task { s with finishedTaskInfos := s.finishedTaskInfos.dropLast } =
      (pushDiscovered (s.task task).discoveredDependencies
        (emit (.S task 2) { s with finishedTaskInfos := s.finishedTaskInfos.dropLast })).setRule
        (failF s.currentEpoch (s.task task).discoveredDependencies ri0) := hpre
  have hrule : (finishedTaskPre task { s with finishedTaskInfos := s.finishedTaskInfos.dropLast }).rule task =
      failF s.currentEpoch (s.task task).discoveredDependencies ri0 := by
    rw [hpre, setRule_rule, hk2]; simp
  -- the registrations on the ghost
  have hdbE : (emit (.S task 2) s).hasDB = true := by rw [emit_hasDB]; exact hdb
  have hlE : (emit (.S task 2) s).ruleInfos.lookup task = some ri0 := by rw [emit_ruleInfos]; exact hl
  have hE : emit (.S task 2) ({ s with finishedTaskInfos := s.finishedTaskInfos.dropLast } : State) =
      fr3 s.finishedTaskInfos.dropLast s.numOutstandingUnfinishedTasks s.inputRequests (emit (.S task 2) s) :=
    emit_fr3 (.S task 2) s s.finishedTaskInfos.dropLast s.numOutstandingUnfinishedTasks s.inputRequests
  have hRrule : (regOnly (s.task task).discoveredDependencies (emit (.S task 2) s)).rule task = ri0 :=
    rule_of_lookup (regOnly_keep _ _ hdbE hlE)
  have hRin : (regOnly (s.task task).discoveredDependencies (emit (.S task 2) s)).inputRequests = s.inputRequests := by
    rw [(regOnly_same _ _).inputRequests, emit_inputRequests]
  have hp2 : finishedTaskPre task { s with finishedTaskInfos := s.finishedTaskInfos.dropLast } =
      ov task (failF s.currentEpoch (s.task task).discoveredDependencies)
        ((s.task task).discoveredDependencies.map dummyOf)
        (fr s.finishedTaskInfos.dropLast s.numOutstandingUnfinishedTasks
          (regOnly (s.task task).discoveredDependencies (emit (.S task 2) s))) := by
    rw [hpre, hE, pushDiscovered_split _ _ (show (fr3 s.finishedTaskInfos.dropLast s.numOutstandingUnfinishedTasks
        s.inputRequests (emit (.S task 2) s)).hasDB = true from hdbE), regOnly_fr3 _ _ hdbE]
    show ({ regOnly (s.task task).discoveredDependencies (emit (.S task 2) s) with
        finishedTaskInfos := s.finishedTaskInfos.dropLast,
        numOutstandingUnfinishedTasks := s.numOutstandingUnfinishedTasks,
        inputRequests := s.inputRequests ++ (s.task task).discoveredDependencies.map dummyOf,
        ruleInfos := alSet (regOnly (s.task task).discoveredDependencies (emit (.S task 2) s)).ruleInfos
          (failF s.currentEpoch (s.task task).discoveredDependencies ri0).key
          (failF s.currentEpoch (s.task task).discoveredDependencies ri0) } : State) =
      { regOnly (s.task task).discoveredDependencies (emit (.S task 2) s) with
        finishedTaskInfos := s.finishedTaskInfos.dropLast,
        numOutstandingUnfinishedTasks := s.numOutstandingUnfinishedTasks,
        ruleInfos := alSet (regOnly (s.task task).discoveredDependencies (emit (.S task 2) s)).ruleInfos task
          (failF s.currentEpoch (s.task task).discoveredDependencies
            ((regOnly (s.task task).discoveredDependencies (emit (.S task 2) s)).rule task)),
        inputRequests := (regOnly (s.task task).discoveredDependencies (emit (.S task 2) s)).inputRequests ++
          (s.task task).discoveredDependencies.map dummyOf }
    rw [hk2, hRrule, hRin]
  have hfk' : ((({ s with finishedTaskInfos := s.finishedTaskInfos.dropLast } : State).task task)).forRuleInfo = task := hfk
  refine ⟨hrule, hp2, ?_⟩
  unfold failExitState
  simp only [hfk']
  rw [hrule, hp2, ov_emit, ov_emit, emit_frame, emit_frame]
  have hg : emit (.ER 6) (emit (.DS task (failF s.currentEpoch (s.task task).discoveredDependencies ri0).result)
      (regOnly (s.task task).discoveredDependencies (emit (.S task 2) s))) = failGhost task s := by
    unfold failGhost
    rw [rule_of_lookup hl]
  rw [hg]
  rfl

/-! ## The relation for the ghost, and the tokens up to `ER 6` -/

theorem failGhost_same (task : Key) (s : State) : SameButRules s (failGhost task s) := by
  unfold failGhost
  exact ((((emit_same _ _).toButRules (emit_halted_eq _ _)).trans (regOnly_same _ _)).trans
    ((emit_same _ _).toButRules (emit_halted_eq _ _))).trans ((emit_same _ _).toButRules (emit_halted_eq _ _))

theorem failExit_setup {rules : List RuleSpec} {s : State} {m : Engine.St} {task : Key}
    (hr : Rel rules s ⟨m, none⟩ {}) (hh : s.halted = false)
    (hlast : s.finishedTaskInfos.getLast? = some task) :
    ∃ (ri0 : RuleInfo) (regs : List Tok) (c1 c2 : Bool) (m1 : Engine.St),
      s.ruleInfos.lookup task = some ri0 ∧ ri0.key = task ∧ (s.task task).forRuleInfo = task ∧
      Emits s (.S task 2 :: regs ++ .DS task (failF s.currentEpoch (s.task task).discoveredDependencies ri0).result ::
        xtoks c1 ++ .ER 6 :: xtoks c2) (failGhost task s) ∧
      (∀ t ∈ regs, Tok.isReg t = true) ∧
      Emits s (.S task 2 :: regs) (regOnly (s.task task).discoveredDependencies (emit (.S task 2) s)) ∧
      trun (program rules) ⟨m, none⟩ regs = some ⟨m1, none⟩ ∧ m1.target = m.target ∧
      Rel rules (failGhost task s) ⟨xmon c2 (xmon c1 m1), none⟩ {} ∧
      Emits (regOnly (s.task task).discoveredDependencies (emit (.S task 2) s))
        (.DS task (failF s.currentEpoch (s.task task).discoveredDependencies ri0).result :: xtoks c1)
        (emit (.DS task (failF s.currentEpoch (s.task task).discoveredDependencies ri0).result)
          (regOnly (s.task task).discoveredDependencies (emit (.S task 2) s))) ∧
      (failGhost task s).halted = false ∧ OvOk task (failGhost task s) ∧
      s.numOutstandingUnfinishedTasks - 1 ≤
        (failGhost task s).pendingDeferred.length + s.finishedTaskInfos.dropLast.length ∧
      s.numOutstandingUnfinishedTasks ≠ 0 := by
  have hmem : task ∈ s.finishedTaskInfos := List.mem_of_getLast? hlast
  obtain ⟨t, ht, _, hdone⟩ := hr.finTaskOk task hmem
  obtain ⟨ri0, hl⟩ := Option.isSome_iff_exists.1 (hr.task_registered (by rw [ht]; rfl))
  have hb := hr.taskOk task t ht
  have htask : s.task task = t := task_of_lookup ht
  have hk : ri0.key = task := hr.keyOk task ri0 hl
  have hsame := failGhost_same task s
  have hg : failGhost task s = emit (.ER 6) (emit (.DS task (failF s.currentEpoch (s.task task).discoveredDependencies ri0).result)
      (regOnly (s.task task).discoveredDependencies (emit (.S task 2) s))) := by
    unfold failGhost
    rw [rule_of_lookup hl]
  -- the ghost, token by token
  obtain ⟨c0, he0, hr0⟩ := ghost_emit hr hh (.S task 2)
  have hh0 : (emit (.S task 2) s).halted = false := by rw [emit_halted_eq]; exact hh
  have hdb0 : (emit (.S task 2) s).hasDB = true := by rw [emit_hasDB]; exact hr.hasDB
  obtain ⟨r', m1, he1, hrun1, hr1, hh1, hlgx⟩ :=
    regOnly_rel (s.task task).discoveredDependencies (emit (.S task 2) s) (xmon c0 m) hr0 hh0
  obtain ⟨c1, he2, hr2⟩ := ghost_emit hr1 hh1
    (.DS task (failF s.currentEpoch (s.task task).discoveredDependencies ri0).result)
  have hh2 : (emit (.DS task (failF s.currentEpoch (s.task task).discoveredDependencies ri0).result)
      (regOnly (s.task task).discoveredDependencies (emit (.S task 2) s))).halted = false := by
    rw [emit_halted_eq]; exact hh1
  obtain ⟨c2, he3, hr3⟩ := ghost_emit hr2 hh2 (.ER 6)
  have hcount := hr.outstandingCount
  have hsplit := getLast?_split hlast
  have hlen : s.finishedTaskInfos.length = s.finishedTaskInfos.dropLast.length + 1 := by
    conv => lhs; rw [hsplit]
    simp
  simp only [Option.isSome_none, Bool.false_eq_true, if_false] at hcount
  refine ⟨ri0, xtoks c0 ++ r', c1, c2, m1, hl, hk, by rw [htask]; exact hb.forRule, ?_, ?_, he0.trans he1, ?_, ?_, ?_, ?_, ?_, ?_, ?_, ?_⟩
  · rw [hg]
    have := ((he0.trans he1).trans he2).trans he3
    simpa [List.append_assoc] using this
  · intro x hx
    rcases List.mem_append.1 hx with h | h
    · exact xtoks_isReg c0 x h
    · exact isLGX_isReg (hlgx x h)
  · exact trun_append_some (trun_xtoks _ c0 m none) hrun1
  · have := trun_LGX_target r' ⟨xmon c0 m, none⟩ ⟨m1, none⟩ hlgx hrun1
    exact this.trans (xmon_target c0 m)
  · rw [hg]; exact hr3
  · exact he2
  · rw [hsame.halted]; exact hh
  · refine { notDeferred := ?_, reg := ?_, task := ?_, keyOk := fun k ri h => ?_ }
    · rw [hsame.pendingDeferred]
      intro hd
      obtain ⟨t', ht', _, hd'⟩ := hr.deferredOk task hd
      rw [ht] at ht'; cases ht'
      rw [hdone] at hd'; cases hd'
    · rw [hg, emit_ruleInfos, emit_ruleInfos, regOnly_keep _ _ hdb0 (by rw [emit_ruleInfos]; exact hl)]
      rfl
    · rw [hsame.taskInfos, ht]; rfl
    · rw [hg] at h
      exact hr3.keyOk k ri h
  · rw [hsame.pendingDeferred]
    omega
  · omega

theorem failGhost_noMid {s : State} (task : Key) (hmid : NoMid s) (hdb : s.hasDB = true) : NoMid (failGhost task s) := by
  intro k ri hlk
  unfold failGhost at hlk
  rw [emit_ruleInfos, emit_ruleInfos] at hlk
  rcases regOnly_new _ _ (by rw [emit_hasDB]; exact hdb) hlk with h1 | h1
  · rw [emit_ruleInfos] at h1
    exact hmid k ri h1
  · rw [h1]; exact ⟨(by intro x; cases x), (by intro x; cases x)⟩

/-! ## The drain under the ghost invariant, the monitor having seen `error 6` -/

/-- the invariant of `Exit.DrainInv` with the monitor's `errSeen` set outside the relation (instead of `cycleSeen`) -/
def DrainInvE (rules : List RuleSpec) (key : Key) (X : State) (mr : Engine.St) : Prop :=
  ∃ (g : State) (m0 : Engine.St) (f : List Key) (n : Nat),
    Rel rules g ⟨m0, none⟩ {} ∧ NoMid g ∧ X = fr f n g ∧ mr = setE m0 ∧ m0.target = some key ∧
    n ≤ g.pendingDeferred.length + f.length

theorem drain_roundE {rules : List RuleSpec} {key : Key} (hok : RulesOk rules) (α : Async) {X : State} {mr : Engine.St}
    (hinv : DrainInvE rules key X mr) (hh : X.halted = false) :
    ∃ toks mr', Emits X toks (hook 2 (asyncPoint α X).2) ∧ trun (program rules) ⟨mr, none⟩ toks = some ⟨mr', none⟩ ∧
      DrainInvE rules key (hook 2 (asyncPoint α X).2) mr' ∧ (hook 2 (asyncPoint α X).2).halted = false ∧
      (∀ t ∈ toks, Tok.drainSafe t = true) := by
  obtain ⟨g, m0, f, n, hr, hmid, rfl, rfl, htgt, hcnt⟩ := hinv
  obtain ⟨g', m1, f', e, ⟨toks, hr', hcnt', he, hrun, hsafe, hmid', hh'⟩, _⟩ := ghost_roundA hok α hr hh f n hcnt
  rw [e]
  obtain ⟨b1, _, _, _⟩ := trun_drainSafe (program rules) toks m0 none ⟨m1, none⟩ hsafe hrun
  exact ⟨toks, setE m1, he, trun_drainSafeE (program rules) toks m0 none ⟨m1, none⟩ hsafe hrun,
    ⟨g', m1, f', n, hr', hmid' hmid, rfl, rfl, b1.trans htgt, hcnt'⟩, hh', hsafe⟩

theorem drainLoopE_sim {rules : List RuleSpec} {key : Key} (hok : RulesOk rules) :
    ∀ (fuel : Nat) (α : Async) (X : State) (mr : Engine.St), DrainInvE rules key X mr → X.halted = false →
    (drainLoopA fuel α X).2.halted = false →
    ∃ toks mr', Emits X toks (drainLoopA fuel α X).2 ∧ trun (program rules) ⟨mr, none⟩ toks = some ⟨mr', none⟩ ∧
      DrainInvE rules key (drainLoopA fuel α X).2 mr' ∧ (drainLoopA fuel α X).2.numOutstandingUnfinishedTasks = 0 ∧
      (∀ t ∈ toks, Tok.drainSafe t = true)
  | 0, α, X, mr, _, _, hnh => by
    rw [drainLoopA] at hnh
    rw [halt_halted] at hnh; cases hnh
  | fuel + 1, α, X, mr, hinv, hh, hnh => by
    rw [drainLoopA_succ] at hnh ⊢
    by_cases h0 : (X.numOutstandingUnfinishedTasks == 0) = true
    · rw [if_pos h0]
      exact ⟨[], mr, Emits.refl X, rfl, hinv, by simpa using h0, fun _ h => by cases h⟩
    · rw [if_neg h0] at hnh ⊢
      by_cases h1 : (hook 2 (asyncPoint α X).2).finishedTaskInfos.isEmpty = true
      · rw [if_pos h1] at hnh
        rw [halt_halted] at hnh; cases hnh
      · rw [if_neg h1] at hnh ⊢
        obtain ⟨toks1, m1, he1, hrun1, hinv1, hh1, hs1⟩ := drain_roundE hok α hinv hh
        have hinv2 : DrainInvE rules key { hook 2 (asyncPoint α X).2 with
            numOutstandingUnfinishedTasks := (hook 2 (asyncPoint α X).2).numOutstandingUnfinishedTasks -
              (hook 2 (asyncPoint α X).2).finishedTaskInfos.length,
            finishedTaskInfos := [] } m1 := by
          obtain ⟨g, m0, f, n, a1, a2, a3, a4, a5, a7⟩ := hinv1
          refine ⟨g, m0, [], (hook 2 (asyncPoint α X).2).numOutstandingUnfinishedTasks -
            (hook 2 (asyncPoint α X).2).finishedTaskInfos.length, a1, a2, ?_, a4, a5, ?_⟩
          · rw [a3]; rfl
          · rw [a3]
            show n - f.length ≤ g.pendingDeferred.length + 0
            omega
        obtain ⟨toks2, m2, he2, hrun2, hinv3, hnum, hs2⟩ := drainLoopE_sim hok fuel _ _ m1 hinv2 hh1 hnh
        have he2' : Emits (hook 2 (asyncPoint α X).2) toks2 (drainLoopA fuel (asyncPoint α X).1 { hook 2 (asyncPoint α X).2 with
            numOutstandingUnfinishedTasks := (hook 2 (asyncPoint α X).2).numOutstandingUnfinishedTasks -
              (hook 2 (asyncPoint α X).2).finishedTaskInfos.length,
            finishedTaskInfos := [] }).2 := he2
        refine ⟨toks1 ++ toks2, m2, he1.trans he2', trun_append_some hrun1 hrun2, hinv3, hnum, ?_⟩
        intro t ht
        rcases List.mem_append.1 ht with h | h
        · exact hs1 t h
        · exact hs2 t h

/-! ## After the drain: `RelPost` for the overridden state -/

theorem relPost_setE {rules : List RuleSpec} {key : Key} {Z : State} {c : Bool} {m0 : Engine.St}
    (h : RelPost rules key Z (setCy c m0) false) : RelPost rules key Z (setE m0) false :=
  { toQuiet := h.toQuiet,
    base := h.base.congr_m rfl rfl (fun _ => rfl) (fun _ => rfl) (fun _ => rfl) (fun _ => rfl) rfl,
    active := h.active, target := h.target, notReturned := h.notReturned, epochPos := h.epochPos,
    ok := fun h => (by cases h), failed := fun _ => Or.inr (Or.inr rfl) }

/-- dependencies appended to a result -/
def addDeps (dd : List Dep) (ri : RuleInfo) : RuleInfo :=
  { ri with result := { ri.result with deps := ri.result.deps ++ dd } }

theorem cancelRule_failF (ep : Nat) (dd : List Dep) (ri : RuleInfo) :
    cancelRule (failF ep dd ri) = addDeps dd (cancelRule ri) := rfl

/-- `RelPost` does not read the dependencies of a never-built result -/
theorem relPost_congrRules {rules : List RuleSpec} {key : Key} {Z : State} {m : Engine.St} {a : Key} {dd : List Dep}
    {L' : List (Key × RuleInfo)} (h : RelPost rules key Z m false)
    (hnd : (L'.map (fun p => p.1)).Nodup)
    (hlk : ∀ k, L'.lookup k = (Z.ruleInfos.lookup k).map (fun ri => if k = a then addDeps dd ri else ri))
    (h0 : ∀ ri, Z.ruleInfos.lookup a = some ri → ri.result.builtAt = 0) :
    RelPost rules key { Z with ruleInfos := L' } m false := by
  have hb := h.base
  have hof : ∀ k ri', L'.lookup k = some ri' →
      ∃ ri, Z.ruleInfos.lookup k = some ri ∧ ri' = if k = a then addDeps dd ri else ri := by
    intro k ri' hl
    rw [hlk] at hl
    cases h2 : Z.ruleInfos.lookup k with
    | none => rw [h2] at hl; cases hl
    | some ri => rw [h2] at hl; simp only [Option.map_some, Option.some.injEq] at hl; exact ⟨ri, rfl, hl.symm⟩
  refine
    { states := ?states, noTasks := h.noTasks, noScanQ := h.noScanQ, noInputQ := h.noInputQ, noFinQ := h.noFinQ,
      noReady := h.noReady, noFinTasks := h.noFinTasks, noOutstanding := h.noOutstanding, noScanning := h.noScanning,
      noDeferred := h.noDeferred, base := ?base, active := h.active, target := h.target, notReturned := h.notReturned,
      epochPos := h.epochPos, ok := fun x => (by cases x), failed := h.failed }
  case states =>
    intro k ri' hl
    obtain ⟨ri, hl0, rfl⟩ := hof k ri' hl
    have := h.states k ri hl0
    by_cases e : k = a
    · rw [if_pos e]; exact this
    · rw [if_neg e]; exact this
  case base =>
    refine
      { rules_eq := hb.rules_eq, env := hb.env, hasDB := hb.hasDB, noResolve := hb.noResolve, noFail := hb.noFail,
        epoch := hb.epoch, reg := ?reg, keyOk := ?keyOk, rulesNodup := hnd, sig := ?sig, res := ?res,
        resUnreg := ?resUnreg, db := hb.db, dbBuilt := hb.dbBuilt, dbBuiltLe := hb.dbBuiltLe, dbIter := hb.dbIter,
        builtLe := ?builtLe }
    case reg =>
      intro k
      rw [hb.reg k]
      show _ = (L'.lookup k).isSome
      rw [hlk]
      cases Z.ruleInfos.lookup k <;> rfl
    case keyOk =>
      intro k ri' hl
      obtain ⟨ri, hl0, rfl⟩ := hof k ri' hl
      have := hb.keyOk k ri hl0
      by_cases e : k = a
      · rw [if_pos e]; exact this
      · rw [if_neg e]; exact this
    case sig =>
      intro k ri' hl
      obtain ⟨ri, hl0, rfl⟩ := hof k ri' hl
      have := hb.sig k ri hl0
      by_cases e : k = a
      · rw [if_pos e]; exact this
      · rw [if_neg e]; exact this
    case res =>
      intro k ri' hl
      obtain ⟨ri, hl0, rfl⟩ := hof k ri' hl
      have hold := hb.res k ri hl0
      by_cases e : k = a
      · rw [if_pos e]
        subst e
        obtain ⟨a1, a2, a3, a4, _⟩ := hold
        exact ⟨a1, a2, a3, a4, fun _ _ hne => absurd (h0 ri hl0) hne⟩
      · rw [if_neg e]; exact hold
    case resUnreg =>
      intro k hl
      replace hl : L'.lookup k = none := hl
      rw [hlk] at hl
      apply hb.resUnreg k
      cases h2 : Z.ruleInfos.lookup k with
      | none => rfl
      | some ri => rw [h2] at hl; cases hl
    case builtLe =>
      intro k ri' hl
      obtain ⟨ri, hl0, rfl⟩ := hof k ri' hl
      have := hb.builtLe k ri hl0
      by_cases e : k = a
      · rw [if_pos e]; exact this
      · rw [if_neg e]; exact this

theorem relPost_ov {rules : List RuleSpec} {key a : Key} {ep : Nat} {dd : List Dep} {dm : List TaskInputRequest}
    {Y : State} {m : Engine.St} (h : RelPost rules key (cancelFinish Y) m false) (hok : OvOk a Y)
    (hfor : ∀ p ∈ Y.taskInfos, p.2.forRuleInfo = p.1)
    (hregT : ∀ p ∈ Y.taskInfos, (Y.ruleInfos.lookup p.1).isSome = true)
    (hnd : (Y.ruleInfos.map (fun p => p.1)).Nodup) :
    RelPost rules key (cancelFinish (ov a (failF ep dd) dm Y)) m false := by
  obtain ⟨ria, hla⟩ := Option.isSome_iff_exists.1 hok.reg
  have hra : Y.rule a = ria := rule_of_lookup hla
  have hovl : ∀ k, (ov a (failF ep dd) dm Y).ruleInfos.lookup k =
      if k = a then some (failF ep dd ria) else Y.ruleInfos.lookup k := by
    intro k
    show (alSet Y.ruleInfos a (failF ep dd (Y.rule a))).lookup k = _
    rw [lookup_alSet, hra]
  have hZ : cancelFinish (ov a (failF ep dd) dm Y) =
      { cancelFinish Y with ruleInfos := finalRules (ov a (failF ep dd) dm Y) } := by
    rw [cancelFinish_eq, cancelFinish_eq]
    rfl
  have hlkY : ∀ k, (cancelFinish Y).ruleInfos.lookup k =
      (Y.ruleInfos.lookup k).map (finalRule (Y.taskInfos.lookup k).isSome) := by
    intro k
    rw [cancelFinish_eq]
    exact finalRules_lookup Y hfor hregT hok.keyOk k
  rw [hZ]
  apply relPost_congrRules (a := a) (dd := dd) h
  · apply finalRules_nodup
    exact alSet_keys_nodup _ _ _ hnd
  · intro k
    rw [finalRules_lookup (ov a (failF ep dd) dm Y) hfor ?_ ?_ k, hlkY k, hovl k]
    · show _ = ((Y.ruleInfos.lookup k).map _).map _
      by_cases e : k = a
      · subst e
        rw [if_pos rfl, hla]
        have ht : (Y.taskInfos.lookup k).isSome = true := hok.task
        show some (finalRule ((Y.taskInfos.lookup k).isSome) (failF ep dd ria)) = some _
        rw [ht, finalRule_task, finalRule_task, cancelRule_failF]
        simp
      · rw [if_neg e]
        cases Y.ruleInfos.lookup k with
        | none => rfl
        | some ri => simp [e]; rfl
    · intro p hp
      rw [hovl]
      split
      · rfl
      · exact hregT p hp
    · intro k ri hl
      rw [hovl] at hl
      split at hl
      · rename_i e
        cases hl
        show ria.key = k
        rw [e]; exact hok.keyOk a ria hla
      · exact hok.keyOk k ri hl
  · intro ri hl
    rw [hlkY, hla] at hl
    have ht : (Y.taskInfos.lookup a).isSome = true := hok.task
    rw [ht] at hl
    simp only [Option.map_some, Option.some.injEq] at hl
    subst hl
    rfl

/-! ## A trace cut right after the `DS` of the failing write: read as `finished`, and accepted -/

/-- the trace of the real state before the write is the ghost's -/
theorem prePush_trace {s : State} {task : Key} {ri1 : RuleInfo} (hdb : s.hasDB = true)
    (hreg : Registered s ri1.key) (ds : List Dep) :
    (pushDiscovered ds (emit (.S task 2) (finS1 s ri1))).trace = (regOnly ds (emit (.S task 2) s)).trace := by
  have hdbE : (emit (.S task 2) ({ s with finishedTaskInfos := s.finishedTaskInfos.dropLast } : State)).hasDB = true := by
    rw [emit_hasDB]; exact hdb
  have hregE : Registered (emit (.S task 2) ({ s with finishedTaskInfos := s.finishedTaskInfos.dropLast } : State)) ri1.key := by
    unfold Registered; rw [emit_ruleInfos]; exact hreg
  have hE : emit (.S task 2) ({ s with finishedTaskInfos := s.finishedTaskInfos.dropLast } : State) =
      fr3 s.finishedTaskInfos.dropLast s.numOutstandingUnfinishedTasks s.inputRequests (emit (.S task 2) s) :=
    emit_fr3 (.S task 2) s s.finishedTaskInfos.dropLast s.numOutstandingUnfinishedTasks s.inputRequests
  show (pushDiscovered ds (emit (.S task 2)
    (({ s with finishedTaskInfos := s.finishedTaskInfos.dropLast } : State).setRule ri1))).trace = _
  rw [emit_setRule, pushDiscovered_setRule _ _ _ hdbE hregE]
  show (pushDiscovered ds (emit (.S task 2) ({ s with finishedTaskInfos := s.finishedTaskInfos.dropLast } : State))).trace = _
  rw [hE, pushDiscovered_split _ _ (show (fr3 s.finishedTaskInfos.dropLast s.numOutstandingUnfinishedTasks
    s.inputRequests (emit (.S task 2) s)).hasDB = true by rw [← hE]; exact hdbE),
    regOnly_fr3 _ _ (by rw [emit_hasDB]; exact hdb)]
  rfl

/-- **the write would have been accepted**: after `S k 2` and the registrations the monitor's guard of
`finished k row` holds (steps (i)–(iii) of `finishedTaskStep_strong`; the tokens are those of the ghost) -/
theorem failPrefix_accept {rules : List RuleSpec} {s : State} {m : Engine.St} {task : Key} {ri0 : RuleInfo}
    (hr : Rel rules s ⟨m, none⟩ {}) (hh : s.halted = false)
    (hlast : s.finishedTaskInfos.getLast? = some task) (hl : s.ruleInfos.lookup task = some ri0)
    {regs : List Tok}
    (he : Emits s (.S task 2 :: regs) (regOnly (s.task task).discoveredDependencies (emit (.S task 2) s))) :
    ∃ m4 m5, trun (program rules) ⟨m, none⟩ (.S task 2 :: regs) = some ⟨m4, some task⟩ ∧
      step (program rules) m4 (.finished task (failF s.currentEpoch (s.task task).discoveredDependencies ri0).result) =
        some m5 := by
  have hmem : task ∈ s.finishedTaskInfos := List.mem_of_getLast? hlast
  obtain ⟨t, ht, _, _⟩ := hr.finTaskOk task hmem
  have htask : s.task task = t := task_of_lookup ht
  subst htask
  have hk : ri0.key = task := hr.keyOk task ri0 hl
  -- (i)
  have hr1 := hr.setCompleteS2 hlast ht hl
  have hh1 : (finS1 s (finRule1 s ri0)).halted = false := hh
  obtain ⟨toks1, ms2, he1, hrun1, hr2, hms2⟩ :=
    Rel.emit_list [.S task 2] (finS1 s (finRule1 s ri0)) ⟨m, none⟩ ⟨m, some task⟩ hh1
      (by intro x hx; simp at hx; subst hx; rfl) (by simp [trun, tstep_S2]) hr1
  simp only [emitAll_cons, emitAll_nil] at he1 hr2
  have hp2 : ms2.pend = some task := by rcases hms2 with e | e <;> rw [e] <;> rfl
  have hh2 : (emit (.S task 2) (finS1 s (finRule1 s ri0))).halted = false := by rw [emit_halted_eq]; exact hh1
  have hdb2 : (emit (.S task 2) (finS1 s (finRule1 s ri0))).hasDB = true := by rw [emit_hasDB]; exact hr.hasDB
  have ht2 : (emit (.S task 2) (finS1 s (finRule1 s ri0))).taskInfos.lookup task = some (s.task task) := by
    rw [emit_taskInfos]; exact ht
  have hl2 : (emit (.S task 2) (finS1 s (finRule1 s ri0))).ruleInfos.lookup task = some (finRule1 s ri0) := by
    rw [emit_ruleInfos, finS1_lookup]; simp [show (finRule1 s ri0).key = task from hk]
  -- (ii)
  obtain ⟨toks2, ms4, he2, hrun2, hr4, hp4⟩ :=
    Rel.pushDiscovered (a := task) (t := s.task task) (s.task task).discoveredDependencies _ ms2 hr2 hh2 hp2 ht2
      (fun _ h => h)
  obtain ⟨fr, _⟩ := pushDiscovered_frame (s.task task).discoveredDependencies _ hdb2 hh2
  obtain ⟨m4, pend4⟩ := ms4
  simp only at hp4; subst hp4
  have ht4 := fr.taskInfos ▸ ht2
  have hl4 := fr.keep task _ hl2
  -- (iii)
  have hguard := finished_guard hr4 ht4 hl4
  -- the tokens are the ghost's
  have he1' : Emits s toks1 (emit (.S task 2) (finS1 s (finRule1 s ri0))) := he1
  have he12 := he1'.trans he2
  have htr := prePush_trace (task := task) (ri1 := finRule1 s ri0) hr.hasDB
    (by unfold Registered; rw [show (finRule1 s ri0).key = task from hk, hl]; rfl)
    (s.task task).discoveredDependencies
  have htoks : toks1 ++ toks2 = .S task 2 :: regs := by
    unfold Emits at he12 he
    rw [htr, he] at he12
    exact (List.reverse_inj.1 (List.append_cancel_right he12)).symm
  have hrun12 := trun_append_some hrun1 hrun2
  rw [htoks] at hrun12
  exact ⟨m4, _, hrun12, hguard⟩

/-! ## The failure exit -/

theorem tstep_ER (P : Program) (m : Engine.St) (code : Nat) :
    tstep P ⟨m, none⟩ (.ER code) = some ⟨setE m, none⟩ :=
  tstep_ev (t := .ER code) (m' := { m with errSeen := true }) (by rfl) (by rfl) (by rfl)

/-- the general statement (explicit `s0`); the last clause identifies the case "the `DS` token did not trigger
`cancelAtEvent`" -/
theorem failExit_core {rules : List RuleSpec} (hok : RulesOk rules) (α : Async) {s : State} {m : Engine.St}
    {key task : Key} (hr : Rel rules s ⟨m, none⟩ {}) (hmid : NoMid s) (hh : s.halted = false)
    (htgt : m.target = some key) (hlast : s.finishedTaskInfos.getLast? = some task)
    (s0 : State) (hs0 : s0 = { s with finishedTaskInfos := s.finishedTaskInfos.dropLast })
    (hnh : (cancelRemainingTasksA α (failExitState task s0)).2.halted = false) :
    ∃ (regs : List Tok) (c : Bool) (ctoks : List Tok) (m1 m' : Engine.St),
      Emits s (.S (s0.task task).forRuleInfo 2 :: regs ++
          .DS (s0.task task).forRuleInfo ((finishedTaskPre task s0).rule (s0.task task).forRuleInfo).result ::
            xtoks c ++ .ER 6 :: ctoks)
        (cancelRemainingTasksA α (failExitState task s0)).2 ∧
      (∀ t ∈ regs, Tok.isReg t = true) ∧ (∀ t ∈ ctoks, Tok.isS2b t = false) ∧
      trun (program rules) ⟨m, none⟩ regs = some ⟨m1, none⟩ ∧
      trun (program rules) ⟨m1, none⟩ (xtoks c ++ .ER 6 :: ctoks) = some ⟨m', none⟩ ∧
      RelPost rules key (cancelRemainingTasksA α (failExitState task s0)).2 m' false ∧ m'.started = true ∧
      (cancelRemainingTasksA α (failExitState task s0)).2.store = s.store ∧
      (s0.task task).forRuleInfo = task ∧
      (∃ ms2, trun (program rules) ⟨m, none⟩ (.S (s0.task task).forRuleInfo 2 :: regs ++
        [.DS (s0.task task).forRuleInfo ((finishedTaskPre task s0).rule (s0.task task).forRuleInfo).result]) = some ms2) ∧
      (∃ ms3, trun (program rules) ⟨m, none⟩ (.S (s0.task task).forRuleInfo 2 :: regs ++
        .DS (s0.task task).forRuleInfo ((finishedTaskPre task s0).rule (s0.task task).forRuleInfo).result :: xtoks c) =
          some ms3) ∧
      ((emit (.DS (s0.task task).forRuleInfo ((finishedTaskPre task s0).rule (s0.task task).forRuleInfo).result)
          (finishedTaskPre task s0)).trace =
        .DS (s0.task task).forRuleInfo ((finishedTaskPre task s0).rule (s0.task task).forRuleInfo).result ::
          (finishedTaskPre task s0).trace → c = false) := by
  subst hs0
  obtain ⟨ri0, regs, c1, c2, m1, hl, hk, hfk, heG, hregs, heR, hrun1, htg1, hrG, heDS, hhG, hokG, hcnt, hn0⟩ :=
    failExit_setup (task := task) hr hh hlast
  obtain ⟨hrule, hpre, hst⟩ := failExitState_eq hfk hl hk hr.hasDB hh
  have hfk' : (({ s with finishedTaskInfos := s.finishedTaskInfos.dropLast } : State).task task).forRuleInfo = task := hfk
  have hmidG := failGhost_noMid task hmid hr.hasDB
  obtain ⟨m4, m5, hrunP, hguard⟩ := failPrefix_accept hr hh hlast hl heR
  have hacc := trun_append_some hrunP (trun_single (tstep_DS hguard))
  rw [hst] at hnh
  rw [hfk', hrule, hst]
  -- the drain commutes with the override
  have hokX : OvOk task (fr s.finishedTaskInfos.dropLast (s.numOutstandingUnfinishedTasks - 1) (failGhost task s)) :=
    hokG.congr rfl rfl rfl
  obtain ⟨eD, oD⟩ := drainLoopA_ov (a := task) (F := failF s.currentEpoch (s.task task).discoveredDependencies)
    (dm := (s.task task).discoveredDependencies.map dummyOf) loopFuel α _ hokX
  have e : ∀ X, (cancelRemainingTasksA α X).2 = cancelFinish (drainLoopA loopFuel α X).2 := fun _ => rfl
  rw [e, eD] at hnh ⊢
  simp only [] at hnh ⊢
  rw [cancelFinish_halted] at hnh
  -- the drain on the frame of the ghost
  have hinv : DrainInvE rules key
      (fr s.finishedTaskInfos.dropLast (s.numOutstandingUnfinishedTasks - 1) (failGhost task s))
      (setE (xmon c2 (xmon c1 m1))) :=
    ⟨failGhost task s, xmon c2 (xmon c1 m1), _, _, hrG, hmidG, rfl, rfl,
      by rw [xmon_target, xmon_target, htg1]; exact htgt, hcnt⟩
  obtain ⟨toks, mr', he, hrun, hinv', hnum, hsafe⟩ := drainLoopE_sim hok loopFuel α _ _ hinv hhG hnh
  obtain ⟨g, m0, f, n, hrg, hmidg, hD, hm, htg, _⟩ := hinv'
  rw [hD] at hnum oD ⊢
  replace hnum : n = 0 := hnum
  subst hnum
  subst hm
  have hbg : Base rules g m0 none := hrg.toBase
  have hmemT : ∀ p ∈ g.taskInfos, g.taskInfos.lookup p.1 = some p.2 :=
    fun p hp => lookup_of_mem_nodup _ _ _ hrg.taskNodup hp
  have hpost : RelPost rules key
      (cancelFinish (ov task (failF s.currentEpoch (s.task task).discoveredDependencies)
        ((s.task task).discoveredDependencies.map dummyOf) (fr f 0 g))) (setE m0) false :=
    relPost_ov (relPost_setE (cancelFinish_post hrg hmidg f true htg (Or.inr (Or.inl rfl)))) oD
      (fun p hp => (hrg.taskOk p.1 p.2 (hmemT p hp)).forRule)
      (fun p hp => hrg.task_registered (by rw [hmemT p hp]; rfl)) hbg.rulesNodup
  refine ⟨regs, c1, xtoks c2 ++ toks, m1, setE m0, ?_, hregs, ?_, hrun1, ?_, hpost, hrg.started, ?_, trivial,
    ⟨_, hacc⟩, ?_, ?_⟩
  · have he' : Emits (failGhost task s) toks
        (cancelFinish (ov task (failF s.currentEpoch (s.task task).discoveredDependencies)
          ((s.task task).discoveredDependencies.map dummyOf) (fr f 0 g))) := by
      unfold Emits at he ⊢
      rw [cancelFinish_trace]
      rw [hD] at he
      exact he
    have := heG.trans he'
    simpa [List.append_assoc] using this
  · intro t ht
    rcases List.mem_append.1 ht with h | h
    · exact drainSafe_notS2 (xtoks_drainSafe c2 t h)
    · exact drainSafe_notS2 (hsafe t h)
  · have h1 := trun_xtoks (program rules) c1 m1 none
    have h2 : trun (program rules) ⟨xmon c1 m1, none⟩ [.ER 6] = some ⟨setE (xmon c1 m1), none⟩ :=
      trun_single (tstep_ER _ _ 6)
    have h3 := trun_xtoks (program rules) c2 (setE (xmon c1 m1)) none
    rw [xmon_setE] at h3
    have := trun_append_some (trun_append_some (trun_append_some h1 h2) h3) hrun
    simpa [List.append_assoc] using this
  · rw [cancelFinish_store]
    have := drainLoopA_store loopFuel α (fr s.finishedTaskInfos.dropLast (s.numOutstandingUnfinishedTasks - 1) (failGhost task s))
    rw [hD] at this
    show g.store = s.store
    have h2 : (fr f 0 g).store = g.store := rfl
    rw [← h2, this]
    exact (failGhost_same task s).store
  · have := trun_append_some hacc (trun_xtoks (program rules) c1 m5 none)
    exact ⟨_, by simpa [List.append_assoc] using this⟩
  · intro hx
    rw [hpre, ov_emit, emit_frame] at hx
    replace hx : (emit (.DS task (failF s.currentEpoch (s.task task).discoveredDependencies ri0).result)
        (regOnly (s.task task).discoveredDependencies (emit (.S task 2) s))).trace =
        .DS task (failF s.currentEpoch (s.task task).discoveredDependencies ri0).result ::
          (regOnly (s.task task).discoveredDependencies (emit (.S task 2) s)).trace := hx
    unfold Emits at heDS
    rw [heDS] at hx
    cases c1 with
    | false => rfl
    | true =>
      simp [xtoks] at hx

/-- **IM7-D, the failure exit.**  The tokens are `S k 2 ; regs ; DS k row ; [X] ; ER 6 ; ctoks`; the monitor reads the
registrations, (the cancellation,) `error 6` and the tokens of the drain — NO `finished` event — and ends in a state
for which `RelPost … false` holds; the store is unchanged. -/
theorem failExit_sim {rules : List RuleSpec} (hok : RulesOk rules) (a : Async) {s : State} {m : Engine.St}
    {key task : Key} (hr : Rel rules s ⟨m, none⟩ {}) (hmid : NoMid s) (hh : s.halted = false)
    (htgt : m.target = some key) (hlast : s.finishedTaskInfos.getLast? = some task) :
    let s0 := { s with finishedTaskInfos := s.finishedTaskInfos.dropLast }
    let k := (s0.task task).forRuleInfo
    let row := ((finishedTaskPre task s0).rule k).result
    let q := cancelRemainingTasksA a (failExitState task s0)
    q.2.halted = false →
    ∃ (regs : List Tok) (c : Bool) (ctoks : List Tok) (m1 m' : Engine.St),
      Emits s (.S k 2 :: regs ++ .DS k row :: xtoks c ++ .ER 6 :: ctoks) q.2 ∧
      (∀ t ∈ regs, Tok.isReg t = true) ∧ (∀ t ∈ ctoks, Tok.isS2b t = false) ∧
      trun (program rules) ⟨m, none⟩ regs = some ⟨m1, none⟩ ∧
      trun (program rules) ⟨m1, none⟩ (xtoks c ++ .ER 6 :: ctoks) = some ⟨m', none⟩ ∧
      RelPost rules key q.2 m' false ∧ m'.started = true ∧ q.2.store = s.store ∧ k = task := by
  intro s0 k row q hnh
  obtain ⟨regs, c, ctoks, m1, m', h1, h2, h3, h4, h5, h6, h7, h8, h9, _, _, _⟩ :=
    failExit_core hok a hr hmid hh htgt hlast s0 rfl hnh
  exact ⟨regs, c, ctoks, m1, m', h1, h2, h3, h4, h5, h6, h7, h8, h9⟩

/-- the statement as first asked for (`ER 6` immediately after `DS`), under the hypothesis that the `DS` token did not
trigger `cancelAtEvent` -/
theorem failExit_sim_noX {rules : List RuleSpec} (hok : RulesOk rules) (a : Async) {s : State} {m : Engine.St}
    {key task : Key} (hr : Rel rules s ⟨m, none⟩ {}) (hmid : NoMid s) (hh : s.halted = false)
    (htgt : m.target = some key) (hlast : s.finishedTaskInfos.getLast? = some task) :
    let s0 := { s with finishedTaskInfos := s.finishedTaskInfos.dropLast }
    let k := (s0.task task).forRuleInfo
    let row := ((finishedTaskPre task s0).rule k).result
    let q := cancelRemainingTasksA a (failExitState task s0)
    (emit (.DS k row) (finishedTaskPre task s0)).trace = .DS k row :: (finishedTaskPre task s0).trace →
    q.2.halted = false →
    ∃ regs ctoks m1 m', Emits s (.S k 2 :: regs ++ .DS k row :: .ER 6 :: ctoks) q.2 ∧
      (∀ t ∈ regs, Tok.isReg t = true) ∧ (∀ t ∈ ctoks, Tok.isS2b t = false) ∧
      trun (program rules) ⟨m, none⟩ regs = some ⟨m1, none⟩ ∧
      trun (program rules) ⟨m1, none⟩ (.ER 6 :: ctoks) = some ⟨m', none⟩ ∧
      RelPost rules key q.2 m' false ∧ m'.started = true ∧ q.2.store = s.store := by
  intro s0 k row q hnx hnh
  obtain ⟨regs, c, ctoks, m1, m', h1, h2, h3, h4, h5, h6, h7, h8, _, _, _, h10⟩ :=
    failExit_core hok a hr hmid hh htgt hlast s0 rfl hnh
  have hc : c = false := h10 hnx
  subst hc
  have hl : ∀ (A : List Tok) (d : Tok) (C : List Tok), A ++ d :: xtoks false ++ C = A ++ d :: C := by
    intro A d C; simp [xtoks]
  rw [hl] at h1
  exact ⟨regs, ctoks, m1, m', h1, h2, h3, h4, h5, h6, h7, h8⟩

/-- **`failExit_sim` strengthened for killed builds**: for the SAME `regs`, `c`, the trace cut right after `DS k row`
(or after `DS k row ; X`) — where no `ER 6` is in sight and `DS` is read as `finished k row` — is accepted -/
theorem failExit_sim' {rules : List RuleSpec} (hok : RulesOk rules) (a : Async) {s : State} {m : Engine.St}
    {key task : Key} (hr : Rel rules s ⟨m, none⟩ {}) (hmid : NoMid s) (hh : s.halted = false)
    (htgt : m.target = some key) (hlast : s.finishedTaskInfos.getLast? = some task) :
    let s0 := { s with finishedTaskInfos := s.finishedTaskInfos.dropLast }
    let k := (s0.task task).forRuleInfo
    let row := ((finishedTaskPre task s0).rule k).result
    let q := cancelRemainingTasksA a (failExitState task s0)
    q.2.halted = false →
    ∃ (regs : List Tok) (c : Bool) (ctoks : List Tok) (m1 m' : Engine.St),
      Emits s (.S k 2 :: regs ++ .DS k row :: xtoks c ++ .ER 6 :: ctoks) q.2 ∧
      (∀ t ∈ regs, Tok.isReg t = true) ∧ (∀ t ∈ ctoks, Tok.isS2b t = false) ∧
      trun (program rules) ⟨m, none⟩ regs = some ⟨m1, none⟩ ∧
      trun (program rules) ⟨m1, none⟩ (xtoks c ++ .ER 6 :: ctoks) = some ⟨m', none⟩ ∧
      RelPost rules key q.2 m' false ∧ m'.started = true ∧ q.2.store = s.store ∧ k = task ∧
      (∃ ms2, trun (program rules) ⟨m, none⟩ (.S k 2 :: regs ++ [.DS k row]) = some ms2) ∧
      (∃ ms3, trun (program rules) ⟨m, none⟩ (.S k 2 :: regs ++ .DS k row :: xtoks c) = some ms3) := by
  intro s0 k row q hnh
  obtain ⟨regs, c, ctoks, m1, m', h1, h2, h3, h4, h5, h6, h7, h8, h9, h10, h11, _⟩ :=
    failExit_core hok a hr hmid hh htgt hlast s0 rfl hnh
  exact ⟨regs, c, ctoks, m1, m', h1, h2, h3, h4, h5, h6, h7, h8, h9, h10, h11⟩

theorem failExit_prefix_core {rules : List RuleSpec} {s : State} {m : Engine.St} {task : Key}
    (hr : Rel rules s ⟨m, none⟩ {}) (hh : s.halted = false) (hlast : s.finishedTaskInfos.getLast? = some task)
    (s0 : State) (hs0 : s0 = { s with finishedTaskInfos := s.finishedTaskInfos.dropLast }) :
    ∃ (regs : List Tok) (c : Bool),
      Emits s (.S (s0.task task).forRuleInfo 2 :: regs ++
          .DS (s0.task task).forRuleInfo ((finishedTaskPre task s0).rule (s0.task task).forRuleInfo).result :: xtoks c)
        (emit (.DS (s0.task task).forRuleInfo ((finishedTaskPre task s0).rule (s0.task task).forRuleInfo).result)
          (finishedTaskPre task s0)) ∧
      (∀ t ∈ regs, Tok.isReg t = true) ∧
      (∃ ms2, trun (program rules) ⟨m, none⟩ (.S (s0.task task).forRuleInfo 2 :: regs ++
        [.DS (s0.task task).forRuleInfo ((finishedTaskPre task s0).rule (s0.task task).forRuleInfo).result]) = some ms2) ∧
      (∃ ms3, trun (program rules) ⟨m, none⟩ (.S (s0.task task).forRuleInfo 2 :: regs ++
        .DS (s0.task task).forRuleInfo ((finishedTaskPre task s0).rule (s0.task task).forRuleInfo).result :: xtoks c) =
          some ms3) ∧
      (s0.task task).forRuleInfo = task := by
  subst hs0
  obtain ⟨ri0, regs, c1, c2, m1, hl, hk, hfk, _, hregs, heR, _, _, _, heDS, _, _, _, _⟩ :=
    failExit_setup (task := task) hr hh hlast
  obtain ⟨hrule, hpre, _⟩ := failExitState_eq hfk hl hk hr.hasDB hh
  have hfk' : (({ s with finishedTaskInfos := s.finishedTaskInfos.dropLast } : State).task task).forRuleInfo = task := hfk
  obtain ⟨m4, m5, hrunP, hguard⟩ := failPrefix_accept hr hh hlast hl heR
  have hacc := trun_append_some hrunP (trun_single (tstep_DS hguard))
  rw [hfk', hrule]
  refine ⟨regs, c1, ?_, hregs, ⟨_, hacc⟩, ?_, rfl⟩
  · rw [hpre, ov_emit, emit_frame]
    have := heR.trans heDS
    unfold Emits at this ⊢
    exact this
  · have := trun_append_some hacc (trun_xtoks (program rules) c1 m5 none)
    exact ⟨_, by simpa [List.append_assoc] using this⟩

/-- **the prefix up to the failing `DS`** (no hypothesis on what follows: nothing about `q`): the state right after the
`DS` token was recorded has the trace `S k 2 ; regs ; DS k row ; [X]`, and that trace, `DS` read as `finished k row`, is
accepted by the monitor (with and without the `X`) -/
theorem failExit_prefix {rules : List RuleSpec} {s : State} {m : Engine.St} {task : Key}
    (hr : Rel rules s ⟨m, none⟩ {}) (hh : s.halted = false) (hlast : s.finishedTaskInfos.getLast? = some task) :
    let s0 := { s with finishedTaskInfos := s.finishedTaskInfos.dropLast }
    let k := (s0.task task).forRuleInfo
    let row := ((finishedTaskPre task s0).rule k).result
    ∃ (regs : List Tok) (c : Bool),
      Emits s (.S k 2 :: regs ++ .DS k row :: xtoks c) (emit (.DS k row) (finishedTaskPre task s0)) ∧
      (∀ t ∈ regs, Tok.isReg t = true) ∧
      (∃ ms2, trun (program rules) ⟨m, none⟩ (.S k 2 :: regs ++ [.DS k row]) = some ms2) ∧
      (∃ ms3, trun (program rules) ⟨m, none⟩ (.S k 2 :: regs ++ .DS k row :: xtoks c) = some ms3) ∧ k = task := by
  intro s0 k row
  exact failExit_prefix_core hr hh hlast s0 rfl

/-! ## No halt -/

/-- **the failure exit never halts** (no `BAD stall`, no `FUEL`): the drain runs on the frame of the ghost -/
theorem failExit_nohalt {rules : List RuleSpec} (hok : RulesOk rules) (a : Async) {s : State} {ms : MSt} {task : Key}
    (hr : Rel rules s ms {}) (hp : ms.pend = none) (hh : s.halted = false)
    (hlast : s.finishedTaskInfos.getLast? = some task)
    (hlt : s.numOutstandingUnfinishedTasks ≤ loopFuel) :
    (cancelRemainingTasksA a
      (failExitState task { s with finishedTaskInfos := s.finishedTaskInfos.dropLast })).2.halted = false := by
  obtain ⟨m, p⟩ := ms
  simp only at hp
  subst hp
  obtain ⟨ri0, regs, c1, c2, m1, hl, hk, hfk, _, _, _, _, _, hrG, _, hhG, hokG, hcnt, hn0⟩ :=
    failExit_setup (task := task) hr hh hlast
  obtain ⟨_, _, hst⟩ := failExitState_eq hfk hl hk hr.hasDB hh
  rw [hst]
  have hokX : OvOk task (fr s.finishedTaskInfos.dropLast (s.numOutstandingUnfinishedTasks - 1) (failGhost task s)) :=
    hokG.congr rfl rfl rfl
  obtain ⟨eD, _⟩ := drainLoopA_ov (a := task) (F := failF s.currentEpoch (s.task task).discoveredDependencies)
    (dm := (s.task task).discoveredDependencies.map dummyOf) loopFuel a _ hokX
  have e : ∀ X, (cancelRemainingTasksA a X).2 = cancelFinish (drainLoopA loopFuel a X).2 := fun _ => rfl
  rw [e, eD, cancelFinish_halted]
  show (drainLoopA loopFuel a
    (fr s.finishedTaskInfos.dropLast (s.numOutstandingUnfinishedTasks - 1) (failGhost task s))).2.halted = false
  apply drainLoopA_nohalt hok loopFuel a _ ⟨failGhost task s, _, _, _, hrG, rfl, hcnt⟩ hhG
  show s.numOutstandingUnfinishedTasks - 1 < loopFuel
  omega

/-- … when the potential is below the fuel -/
theorem failExit_nohalt_of_Phi {rules : List RuleSpec} (hok : RulesOk rules) (a : Async) {U : List Key} {s : State}
    {ms : MSt} {task : Key} (hr : Rel rules s ms {}) (hp : ms.pend = none) (hU : ClosedU rules U s)
    (hh : s.halted = false) (hlast : s.finishedTaskInfos.getLast? = some task)
    (hlt : Phi rules U s {} < loopFuel) :
    (cancelRemainingTasksA a
      (failExitState task { s with finishedTaskInfos := s.finishedTaskInfos.dropLast })).2.halted = false :=
  failExit_nohalt hok a hr hp hh hlast
    (Nat.le_of_lt (Nat.lt_of_le_of_lt (outstanding_le_Phi hr hp hU) hlt))

end LLBuild.Refine
