/-
IM2 — refinement: section A of `Todo.lean` (scanning) except `scanRule`/`demandRule`.
* `scanLookup_sim`, `scanAdvance_sim` (the request in hand changes; `Rel.reshuffle`);
* `scanDefer_sim` (the request in hand is parked at a scan record / at a task);
* `finishScan_fresh_sim`, `finishScan_needs_sim` (`finishScanRequest`; `Rel.finishScan`);
* `scanLoop_sim`, `scanRequestsLoop_sim` (assembly; take `Todo_demandRule` as a hypothesis).
-/
import LLBuild.Lemmas.Refine.Scan
import LLBuild.Lemmas.Refine.Halt

namespace LLBuild.Refine
open LLBuild.Engine LLBuild.Engine.DSL LLBuild.EngineImpl

/-! ## small helpers -/

theorem Emits.inj {s s' : State} {a b : List Tok} (h1 : Emits s a s') (h2 : Emits s b s') : a = b := by
  unfold Emits at h1 h2
  rw [h1] at h2
  exact List.reverse_inj.1 (List.append_cancel_right h2)

/-- membership in `liveRecords` through `lookup` -/
theorem mem_liveRecords {s : State} (hn : (s.ruleInfos.map (fun p => p.1)).Nodup) (p : Key × RuleScanRecord) :
    p ∈ liveRecords s ↔
      ∃ ri, s.ruleInfos.lookup p.1 = some ri ∧ ri.state = .isScanning ∧ ri.inProgressInfo = .pendingScanRecord p.2 := by
  rw [liveRecords_eq, List.mem_filterMap]
  constructor
  · rintro ⟨⟨k, ri⟩, hm, hl⟩
    unfold liveOf at hl
    simp only at hl
    by_cases hs : ri.isScanning = true
    · simp only [hs, if_true, Option.map_eq_some_iff] at hl
      obtain ⟨rec, h1, h2⟩ := hl
      subst h2
      refine ⟨ri, lookup_of_mem_nodup _ _ _ hn hm, by simpa [RuleInfo.isScanning] using hs, ?_⟩
      unfold RuleInfo.getPendingScanRecord at h1
      split at h1
      · rename_i r' hr'; simp at h1; subst h1; exact hr'
      · cases h1
    · simp [hs] at hl
  · rintro ⟨ri, h1, h2, h3⟩
    refine ⟨(p.1, ri), lookup_mem _ _ _ h1, ?_⟩
    simp [liveOf, RuleInfo.isScanning, h2, RuleInfo.getPendingScanRecord, h3]

theorem statusOf_scanning {s : State} {pend : Option Key} {k : Key} {ri : RuleInfo}
    (hl : s.ruleInfos.lookup k = some ri) (h : ri.state = .isScanning) : statusOf s pend k = .scanning := by
  simp [statusOf, hl, h]

/-- the state of a rule whose abstract status is `done` -/
theorem statusOf_done {s : State} {pend : Option Key} {k : Key} {ri : RuleInfo}
    (hl : s.ruleInfos.lookup k = some ri) (h : statusOf s pend k = .done) : ri.state = .complete := by
  unfold statusOf at h
  rw [hl] at h
  simp only at h
  cases hs : ri.state <;> simp [hs] at h ⊢

theorem Rel.done_complete {rules : List RuleSpec} {s : State} {ms : MSt} {h : Hand} (hr : Rel rules s ms h)
    {k : Key} {ri : RuleInfo} (hl : s.ruleInfos.lookup k = some ri) (hd : isDone ms.m k = true) : ri.state = .complete := by
  refine statusOf_done (pend := ms.pend) hl ?_
  rw [← hr.status k]
  simpa [isDone] using hd

/-- a rule with a task is in progress or (between `S k 2` and `DS k`) complete -/
theorem Rel.task_state {rules : List RuleSpec} {s : State} {ms : MSt} {h : Hand} (hr : Rel rules s ms h)
    {k : Key} {ri : RuleInfo} (hl : s.ruleInfos.lookup k = some ri) (ht : (s.taskInfos.lookup k).isSome = true) :
    ri.state = .inProgressWaiting ∨ ri.state = .inProgressComputing ∨ ri.state = .complete := by
  have := hr.taskKeys k
  rw [ht] at this
  unfold statusOf at this
  rw [hl] at this
  simp only at this
  cases hs : ri.state <;> simp [hs] at this ⊢

/-- a scanning rule is not the buffered completion -/
theorem Rel.pend_ne_scanning {rules : List RuleSpec} {s : State} {ms : MSt} {h : Hand} (hr : Rel rules s ms h)
    {k : Key} {ri : RuleInfo} (hl : s.ruleInfos.lookup k = some ri) (hs : ri.state = .isScanning) :
    (ms.pend == some k) = false := by
  cases hp : ms.pend with
  | none => rfl
  | some k2 =>
    obtain ⟨ri2, h1, h2, _⟩ := hr.pendOk k2 hp
    by_cases e : k2 = k
    · subst e; rw [hl] at h1; cases h1; rw [hs] at h2; cases h2
    · simpa using e

/-- the monitor's dependency list of a scanning rule is the engine's -/
theorem Rel.scanning_res {rules : List RuleSpec} {s : State} {ms : MSt} {h : Hand} (hr : Rel rules s ms h)
    {k : Key} {ri : RuleInfo} (hl : s.ruleInfos.lookup k = some ri) (hs : ri.state = .isScanning) :
    (ms.m.mem.res k).deps = ri.result.deps ∧ (ms.m.mem.res k).builtAt = ri.result.builtAt := by
  have h0 := hr.res k ri hl
  rw [hr.pend_ne_scanning hl hs] at h0
  have hb := (hr.scanningOk k ri hl (Or.inl hs)).2.1
  have hi : StateKind.inProgress ri.state = false := by simp [StateKind.inProgress, hs]
  exact ⟨h0.2.2.2.2 rfl hi hb, h0.2.2.2.1 rfl⟩

theorem Rel.computedAt_eq {rules : List RuleSpec} {s : State} {ms : MSt} {h : Hand} (hr : Rel rules s ms h)
    {k : Key} {ri : RuleInfo} (hl : s.ruleInfos.lookup k = some ri) :
    (ms.m.mem.res k).computedAt = ri.result.computedAt := (hr.res k ri hl).2.2.1

/-! ## 1. the request in hand changes (`scanLookup`, `scanAdvance`, popping the scan queue) -/

theorem ScanReqOk.scanQ {s : State} {m : Engine.St} {r : RuleScanRequest} (q : List RuleScanRequest)
    (hb : ScanReqOk s m r) : ScanReqOk { s with ruleInfosToScan := q } m r := { hb with }

theorem TaskOk.scanQ {rules : List RuleSpec} {s : State} {m : Engine.St} {sc sc' : List RuleScanRequest} {a : Key} {t : TaskInfo}
    (q : List RuleScanRequest) (hb : TaskOk rules s m { scan := sc } a t) :
    TaskOk rules { s with ruleInfosToScan := q } m { scan := sc' } a t := { hb with }

theorem deferredAll_scanQ (s : State) (q : List RuleScanRequest) : deferredAll { s with ruleInfosToScan := q } = deferredAll s := rfl

/-- **The scan requests in hand / in the queue are replaced** by others that serve the same rules: only `scanOne`,
`scanOk`, `recordWaited`, `midScan` look at them. -/
theorem Rel.reshuffle {rules : List RuleSpec} {s : State} {ms : MSt} {sc sc' q' : List RuleScanRequest}
    (hr : Rel rules s ms { scan := sc })
    (hOne : ∀ k, ((sc' ++ q').filter (fun r => r.ruleInfo == k)).length =
      ((sc ++ s.ruleInfosToScan).filter (fun r => r.ruleInfo == k)).length)
    (hOk : ∀ r ∈ sc' ++ q', r ∈ sc ++ s.ruleInfosToScan ∨ ScanReqOk s ms.m r)
    (hIn : ∀ i ri, s.ruleInfos.lookup i = some ri →
      (ri.state = .isScanning ∨ ri.state = .needsToRun ∨ ri.state = .doesNotNeedToRun) →
      (∃ r ∈ sc ++ s.ruleInfosToScan, r.inputRuleInfo = some i) → ∃ r ∈ sc' ++ q', r.inputRuleInfo = some i) :
    Rel rules { s with ruleInfosToScan := q' } ms { scan := sc' } :=
  { toBase := { hr.toBase with }, active := hr.active, started := hr.started, notReturned := hr.notReturned,
    epochPos := hr.epochPos, cancelled := hr.cancelled, errCancelled := hr.errCancelled, noCycle := hr.noCycle,
    targetReg := hr.targetReg, status := hr.status,
    pendOk := hr.pendOk, validIdle := hr.validIdle, scanningOk := hr.scanningOk, dntrFresh := hr.dntrFresh,
    inScanned := hr.inScanned, inRan := hr.inRan, ranOk := hr.ranOk,
    scanOne := fun k ri hl hs => by
      have h0 := hr.scanOne k ri hl hs
      have h1 := hOne k
      simp only [scanReqs, deferredAll_scanQ, List.filter_append, List.length_append] at h0 h1 ⊢
      omega,
    scanOk := fun r hm => by
      have hm' : r ∈ sc' ++ q' ∨ r ∈ deferredAll s := by
        simpa [scanReqs, deferredAll_scanQ, List.mem_append, or_assoc] using hm
      rcases hm' with h1 | h1
      · rcases hOk r h1 with h2 | h2
        · exact (hr.scanOk r (by
            simp only [scanReqs, List.mem_append] at h2 ⊢
            rcases h2 with h2 | h2
            · exact Or.inl (Or.inl h2)
            · exact Or.inl (Or.inr h2))).scanQ q'
        · exact h2.scanQ q'
      · exact (hr.scanOk r (by simp only [scanReqs, List.mem_append]; exact Or.inr h1)).scanQ q',
    deferredAtRecord := hr.deferredAtRecord, deferredAtTask := hr.deferredAtTask, recordLive := hr.recordLive,
    scanCount := hr.scanCount,
    recordWaited := fun p hp => by
      rcases hr.recordWaited p hp with h1 | h1 | h1 | h1
      · exact Or.inl h1
      · exact Or.inr (Or.inl h1)
      · obtain ⟨ri, h2, h3, _⟩ := (mem_liveRecords hr.rulesNodup p).1 hp
        exact Or.inr (Or.inr (Or.inl (hIn p.1 ri h2 (Or.inl h3) h1)))
      · exact Or.inr (Or.inr (Or.inr h1)),
    midScan := fun k ri hl hs => by
      rcases hr.midScan k ri hl hs with h1 | h1
      · exact Or.inl (hIn k ri hl (Or.inr hs) h1)
      · exact Or.inr h1,
    taskKeys := hr.taskKeys, taskNodup := hr.taskNodup,
    taskOk := fun a t hl => (hr.taskOk a t hl).scanQ q',
    reqReg := hr.reqReg, reqTask := hr.reqTask, dummyOk := hr.dummyOk,
    dummyUnproc := hr.dummyUnproc, pausedAt := hr.pausedAt, requestedAt := hr.requestedAt, finDone := hr.finDone,
    pendingOk := hr.pendingOk,
    readyOk := hr.readyOk, readyNodup := hr.readyNodup, finTaskOk := hr.finTaskOk, finTaskNodup := hr.finTaskNodup,
    deferredOk := hr.deferredOk, deferredNodup := hr.deferredNodup, computingWhere := hr.computingWhere,
    outstandingCount := hr.outstandingCount }

theorem mem_scanReqs_hand (s : State) (r : RuleScanRequest) : r ∈ scanReqs s { scan := [r] } := by
  simp [scanReqs]

/-- **`Todo_scanLookup`** -/
theorem scanLookup_sim : Todo_scanLookup := by
  intro rules s ms r d hr hnone hdep hreg
  have hok := hr.scanOk r (mem_scanReqs_hand s r)
  have h := hr.reshuffle (sc' := [{ r with inputRuleInfo := some d.key, orderOnly := d.orderOnly, singleUse := d.singleUse }])
    (q' := s.ruleInfosToScan) ?_ ?_ ?_
  · exact h
  · intro k; simp only [List.filter_append, List.filter_cons]; split <;> simp
  · intro r' hm
    rcases List.mem_append.1 hm with h1 | h1
    · right
      simp only [List.mem_singleton] at h1
      subst h1
      exact { reg := hok.reg, scanning := hok.scanning, inBounds := hok.inBounds, prefixFresh := hok.prefixFresh,
              cached := fun i hi => by
                simp only [Option.some.injEq] at hi
                subst hi
                exact ⟨hreg, d, hdep, rfl, rfl⟩ }
    · exact Or.inl (List.mem_append_right _ h1)
  · intro i ri _ _ ⟨r', hm, hi⟩
    rcases List.mem_append.1 hm with h1 | h1
    · simp only [List.mem_singleton] at h1
      subst h1; rw [hnone] at hi; cases hi
    · exact ⟨r', List.mem_append_right _ h1, hi⟩

theorem take_succ_mem {α : Type} {l : List α} {i : Nat} {d x : α} (hd : l[i]? = some d) (hx : x ∈ l.take (i + 1)) :
    x ∈ l.take i ∨ x = d := by
  rw [List.take_add_one, hd] at hx
  simpa using hx

/-- the dependency the request in hand points at was found complete and not newer: one more fresh dependency -/
theorem Rel.prefixFresh_succ {rules : List RuleSpec} {s : State} {ms : MSt} {r : RuleScanRequest} {i : Key}
    (hr : Rel rules s ms { scan := [r] }) (hin : r.inputRuleInfo = some i) (hdone : isDone ms.m i = true)
    (hfresh : r.orderOnly = true ∨ ¬ (s.rule r.ruleInfo).result.builtAt < (s.rule i).result.computedAt) :
    ∀ x ∈ (ms.m.mem.res r.ruleInfo).deps.take (r.inputIndex + 1), depFresh ms.m (ms.m.mem.res r.ruleInfo) x = true := by
  have hok := hr.scanOk r (mem_scanReqs_hand s r)
  obtain ⟨rk, hlk⟩ := Option.isSome_iff_exists.1 hok.reg
  have hrk : s.rule r.ruleInfo = rk := rule_of_lookup hlk
  have hsc : rk.state = .isScanning := by rw [← hrk]; exact hok.scanning
  obtain ⟨hregi, d, hd, hdk, hdo⟩ := hok.cached i hin
  obtain ⟨ri, hli⟩ := Option.isSome_iff_exists.1 hregi
  obtain ⟨hdeps, hbuilt⟩ := hr.scanning_res hlk hsc
  intro x hx
  have hd' : (ms.m.mem.res r.ruleInfo).deps[r.inputIndex]? = some d := by rw [hdeps, ← hrk]; exact hd
  rcases take_succ_mem hd' hx with h2 | h2
  · exact hok.prefixFresh x h2
  · subst h2
    unfold depFresh
    rw [hdk, hdone, hbuilt, hr.computedAt_eq hli, hdo]
    rw [hrk, rule_of_lookup hli] at hfresh
    rcases hfresh with h3 | h3
    · simp [h3]
    · simp [h3]

/-- **`Todo_scanAdvance`** -/
theorem scanAdvance_sim : Todo_scanAdvance := by
  intro rules s ms r i hr hin hdone hfresh hne
  have hok := hr.scanOk r (mem_scanReqs_hand s r)
  obtain ⟨hregi, d, hd, hdk, hdo⟩ := hok.cached i hin
  obtain ⟨ri, hli⟩ := Option.isSome_iff_exists.1 hregi
  have hicomp : ri.state = .complete := hr.done_complete hli hdone
  have h := hr.reshuffle
    (sc' := [{ r with inputIndex := r.inputIndex + 1, inputRuleInfo := none, orderOnly := false, singleUse := false }])
    (q' := s.ruleInfosToScan) ?_ ?_ ?_
  · exact h
  · intro k; simp only [List.filter_append, List.filter_cons]; split <;> simp
  · intro r' hm
    rcases List.mem_append.1 hm with h1 | h1
    · right
      simp only [List.mem_singleton] at h1
      subst h1
      refine { reg := hok.reg, scanning := hok.scanning, inBounds := ?_,
               prefixFresh := hr.prefixFresh_succ hin hdone hfresh,
               cached := fun i hi => by cases hi }
      have := hok.inBounds
      show r.inputIndex + 1 < (s.rule r.ruleInfo).result.deps.length
      omega
    · exact Or.inl (List.mem_append_right _ h1)
  · intro i' ri' hl' hs' ⟨r', hm, hi⟩
    rcases List.mem_append.1 hm with h1 | h1
    · simp only [List.mem_singleton] at h1
      subst h1; rw [hin] at hi; cases hi
      rw [hli] at hl'; cases hl'
      rw [hicomp] at hs'
      rcases hs' with h | h | h <;> cases h
    · exact ⟨r', List.mem_append_right _ h1, hi⟩

/-! ## 2. parking the request in hand (`scanDefer`) -/

@[simp] theorem setRule_taskInfos (s : State) (ri : RuleInfo) : (s.setRule ri).taskInfos = s.taskInfos := rfl
@[simp] theorem setRule_inputRequests (s : State) (ri : RuleInfo) : (s.setRule ri).inputRequests = s.inputRequests := rfl
@[simp] theorem setRule_finishedInputRequests (s : State) (ri : RuleInfo) :
    (s.setRule ri).finishedInputRequests = s.finishedInputRequests := rfl

/-- replacing a scanning rule by a scanning rule with another record -/
theorem setRule_liveRecords_rec {s : State} {k : Key} {old new : RuleInfo} {r0 r1 : RuleScanRecord}
    (hl : s.ruleInfos.lookup k = some old) (hk : new.key = k) (ho : old.state = .isScanning) (hn : new.state = .isScanning)
    (hor : old.inProgressInfo = .pendingScanRecord r0) (hnr : new.inProgressInfo = .pendingScanRecord r1) :
    ∃ a b, liveRecords s = a ++ (k, r0) :: b ∧ liveRecords (s.setRule new) = a ++ (k, r1) :: b := by
  obtain ⟨l1, l2, h1, h2⟩ := rules_split hl new hk
  refine ⟨l1.filterMap liveOf, l2.filterMap liveOf, ?_, ?_⟩
  · rw [liveRecords_eq, h1]
    simp [List.filterMap_append, liveOf, RuleInfo.isScanning, ho, RuleInfo.getPendingScanRecord, hor]
  · rw [liveRecords_eq, h2]
    simp [List.filterMap_append, liveOf, RuleInfo.isScanning, hn, RuleInfo.getPendingScanRecord, hnr]

/-- replacing a scanning rule by one that is no longer scanning: its record disappears -/
theorem setRule_liveRecords_stop {s : State} {k : Key} {old new : RuleInfo} {r0 : RuleScanRecord}
    (hl : s.ruleInfos.lookup k = some old) (hk : new.key = k) (ho : old.state = .isScanning) (hn : new.isScanning = false)
    (hor : old.inProgressInfo = .pendingScanRecord r0) :
    ∃ a b, liveRecords s = a ++ (k, r0) :: b ∧ liveRecords (s.setRule new) = a ++ b := by
  obtain ⟨l1, l2, h1, h2⟩ := rules_split hl new hk
  refine ⟨l1.filterMap liveOf, l2.filterMap liveOf, ?_, ?_⟩
  · rw [liveRecords_eq, h1]
    simp [List.filterMap_append, liveOf, RuleInfo.isScanning, ho, RuleInfo.getPendingScanRecord, hor]
  · rw [liveRecords_eq, h2]
    simp [List.filterMap_append, liveOf, hn]

theorem setRule_scanCount_ss {s : State} {k : Key} {old new : RuleInfo} (hl : s.ruleInfos.lookup k = some old)
    (hk : new.key = k) (ho : old.isScanning = true) (hn : new.isScanning = true) :
    ((s.setRule new).ruleInfos.filter (fun p => p.2.isScanning)).length = (s.ruleInfos.filter (fun p => p.2.isScanning)).length := by
  obtain ⟨l1, l2, h1, h2⟩ := rules_split hl new hk
  rw [h1, h2]; simp [List.filter_append, ho, hn]

theorem setRule_scanCount_stop {s : State} {k : Key} {old new : RuleInfo} (hl : s.ruleInfos.lookup k = some old)
    (hk : new.key = k) (ho : old.isScanning = true) (hn : new.isScanning = false) :
    ((s.setRule new).ruleInfos.filter (fun p => p.2.isScanning)).length + 1 = (s.ruleInfos.filter (fun p => p.2.isScanning)).length := by
  obtain ⟨l1, l2, h1, h2⟩ := rules_split hl new hk
  rw [h1, h2]; simp [List.filter_append, ho, hn]; omega

/-- a live scan request whose rule keeps its state and result stays well formed -/
theorem ScanReqOk.frame2 {s s' : State} {m m' : Engine.St} {r : RuleScanRequest} (hb : ScanReqOk s m r)
    (hreg : ∀ k, Registered s k → Registered s' k)
    (hstate : (s'.rule r.ruleInfo).state = (s.rule r.ruleInfo).state)
    (hres : (s'.rule r.ruleInfo).result = (s.rule r.ruleInfo).result)
    (hmem : m'.mem.res r.ruleInfo = m.mem.res r.ruleInfo)
    (hfresh : ∀ d, depFresh m (m.mem.res r.ruleInfo) d = true → depFresh m' (m.mem.res r.ruleInfo) d = true) :
    ScanReqOk s' m' r :=
  { reg := hreg _ hb.reg,
    scanning := by rw [hstate]; exact hb.scanning,
    inBounds := by rw [hres]; exact hb.inBounds,
    prefixFresh := by
      rw [hmem]; intro d hd; exact hfresh d (hb.prefixFresh d hd),
    cached := by
      intro i hi
      obtain ⟨h1, h2⟩ := hb.cached i hi
      exact ⟨hreg _ h1, by rw [hres]; exact h2⟩ }

/-- the record with the request appended -/
def recDefer (rec : RuleScanRecord) (r : RuleScanRequest) : RuleScanRecord :=
  { rec with deferredScanRequests := rec.deferredScanRequests ++ [r] }

/-- **parking the request in hand at the scan record of its (scanning) input** -/
theorem Rel.deferAtRecord {rules : List RuleSpec} {s : State} {ms : MSt} {r : RuleScanRequest} {i : Key} {ri : RuleInfo}
    {rec : RuleScanRecord}
    (hr : Rel rules s ms { scan := [r] }) (hin : r.inputRuleInfo = some i)
    (hl : s.ruleInfos.lookup i = some ri) (hs : ri.state = .isScanning) (hrec : ri.inProgressInfo = .pendingScanRecord rec) :
    Rel rules (s.setRule { ri with inProgressInfo := .pendingScanRecord (recDefer rec r) }) ms {} := by
  have hk : ri.key = i := hr.keyOk i ri hl
  generalize hri' : ({ ri with inProgressInfo := .pendingScanRecord (recDefer rec r) } : RuleInfo) = ri'
  have hk' : ri'.key = i := by rw [← hri']; exact hk
  have hst' : ri'.state = ri.state := by rw [← hri']
  have hres' : ri'.result = ri.result := by rw [← hri']
  have hsig' : ri'.signature = ri.signature := by rw [← hri']
  have hrec' : ri'.inProgressInfo = .pendingScanRecord (recDefer rec r) := by rw [← hri']
  have hlk : ∀ k', (s.setRule ri').ruleInfos.lookup k' = if k' = i then some ri' else s.ruleInfos.lookup k' := by
    intro k'; rw [setRule_lookup, hk']
  have hnd' : ((s.setRule ri').ruleInfos.map (fun p => p.1)).Nodup := setRule_rulesNodup _ hr.rulesNodup
  -- every entry of the new table comes from an entry with the same state / result / signature
  have hold : ∀ k' ri1, (s.setRule ri').ruleInfos.lookup k' = some ri1 →
      ∃ ri0, s.ruleInfos.lookup k' = some ri0 ∧ ri1.state = ri0.state ∧ ri1.result = ri0.result ∧
        ri1.signature = ri0.signature ∧ ri1.key = ri0.key ∧ (k' ≠ i → ri1 = ri0) := by
    intro k' ri1 h1
    rw [hlk] at h1
    by_cases e : k' = i
    · subst e; simp only [if_true, Option.some.injEq] at h1; subst h1
      exact ⟨ri, hl, hst', hres', hsig', by rw [hk', hk], fun h => absurd rfl h⟩
    · simp only [e, if_false] at h1
      exact ⟨ri1, h1, rfl, rfl, rfl, rfl, fun _ => rfl⟩
  have hrule : ∀ a, ((s.setRule ri').rule a).state = (s.rule a).state ∧ ((s.setRule ri').rule a).result = (s.rule a).result := by
    intro a
    rw [setRule_rule, hk']
    by_cases e : a = i
    · subst e; simp only [if_true]; rw [rule_of_lookup hl]; exact ⟨hst', hres'⟩
    · simp [e]
  have hrule_ne : ∀ a, a ≠ i → (s.setRule ri').rule a = s.rule a := by
    intro a e; rw [setRule_rule, hk']; simp [e]
  have hstatusOf : ∀ k', statusOf (s.setRule ri') ms.pend k' = statusOf s ms.pend k' := by
    intro k'
    unfold statusOf
    rw [hlk]
    by_cases e : k' = i
    · subst e; simp only [if_true]; rw [hl]; simp only [hst', hres']; rfl
    · simp only [e, if_false]; rfl
  have hreg : ∀ k', Registered s k' → Registered (s.setRule ri') k' := by
    intro k' h1; unfold Registered at *; rw [hlk]; by_cases e : k' = i <;> simp [e, h1]
  obtain ⟨la, lb, hlive, hlive'⟩ := setRule_liveRecords_rec hl hk' hs (hst'.trans hs) hrec hrec'
  have hpaused : pausedAll (s.setRule ri') = pausedAll s := by
    unfold pausedAll; rw [hlive, hlive']; simp [recDefer]
  have hunp : unprocessed (s.setRule ri') {} = unprocessed s { scan := [r] } := by
    unfold unprocessed; rw [hpaused]; rfl
  have hout : outstanding (s.setRule ri') {} = outstanding s { scan := [r] } := by
    unfold outstanding; rw [hunp]; rfl
  have hperm : List.Perm (scanReqs (s.setRule ri') {}) (scanReqs s { scan := [r] }) := by
    rw [List.perm_iff_count]
    intro x
    simp only [scanReqs, deferredAll, hlive, hlive', setRule_taskInfos, setRule_ruleInfosToScan, List.flatMap_append,
      List.flatMap_cons, List.count_append, List.count_nil, recDefer]
    omega
  have hlive_i : (i, rec) ∈ liveRecords s := (mem_liveRecords hr.rulesNodup (i, rec)).2 ⟨ri, hl, hs, hrec⟩
  -- a live record of the new state: the changed one, or an old one of another rule
  have hlive_cases : ∀ p ∈ liveRecords (s.setRule ri'), (p = (i, recDefer rec r)) ∨ (p.1 ≠ i ∧ p ∈ liveRecords s) := by
    intro p hp
    obtain ⟨ri1, h1, h2, h3⟩ := (mem_liveRecords hnd' p).1 hp
    rw [hlk] at h1
    by_cases e : p.1 = i
    · left
      simp only [e, if_true, Option.some.injEq] at h1; subst h1
      rw [hrec'] at h3
      cases p; simp only at e; subst e
      cases h3; rfl
    · right
      simp only [e, if_false] at h1
      exact ⟨e, (mem_liveRecords hr.rulesNodup p).2 ⟨ri1, h1, h2, h3⟩⟩
  have htask_ne : ∀ a, (s.taskInfos.lookup a).isSome = true → a ≠ i := by
    intro a h1 e; subst e
    rcases hr.task_state hl h1 with h | h | h <;> rw [hs] at h <;> cases h
  refine
    { rules_eq := hr.rules_eq, env := hr.env, hasDB := hr.hasDB, noResolve := hr.noResolve, noFail := hr.noFail,
      epoch := hr.epoch, reg := ?reg, keyOk := ?keyOk, rulesNodup := hnd', sig := ?sig, res := ?res,
      resUnreg := ?resUnreg, db := hr.db, dbBuilt := hr.dbBuilt, dbBuiltLe := hr.dbBuiltLe, dbIter := hr.dbIter,
      builtLe := ?builtLe,
      active := hr.active, started := hr.started, notReturned := hr.notReturned, epochPos := hr.epochPos,
      cancelled := hr.cancelled, errCancelled := hr.errCancelled, noCycle := hr.noCycle, targetReg := hr.targetReg,
      status := ?status, pendOk := ?pendOk,
      validIdle := hr.validIdle, scanningOk := ?scanningOk, dntrFresh := ?dntrFresh, inScanned := hr.inScanned,
      inRan := hr.inRan, ranOk := hr.ranOk, scanOne := ?scanOne, scanOk := ?scanOk,
      deferredAtRecord := ?deferredAtRecord, deferredAtTask := hr.deferredAtTask, recordLive := ?recordLive,
      scanCount := ?scanCount, recordWaited := ?recordWaited, midScan := ?midScan, taskKeys := ?taskKeys,
      taskNodup := hr.taskNodup,
      taskOk := ?taskOk, reqReg := ?reqReg, reqTask := ?reqTask, dummyOk := ?dummyOk, dummyUnproc := hr.dummyUnproc,
      pausedAt := ?pausedAt, requestedAt := hr.requestedAt, finDone := hr.finDone, pendingOk := ?pendingOk,
      readyOk := ?readyOk, readyNodup := hr.readyNodup, finTaskOk := ?finTaskOk, finTaskNodup := hr.finTaskNodup,
      deferredOk := ?deferredOk, deferredNodup := hr.deferredNodup, computingWhere := ?computingWhere,
      outstandingCount := hr.outstandingCount }
  case reg =>
    intro k'; rw [hlk, hr.reg k']
    by_cases e : k' = i
    · subst e; simp [hl]
    · simp [e]
  case keyOk =>
    intro k' ri1 h1
    obtain ⟨ri0, h2, _, _, _, h3, _⟩ := hold k' ri1 h1
    rw [h3]; exact hr.keyOk k' ri0 h2
  case sig =>
    intro k' ri1 h1
    obtain ⟨ri0, h2, _, _, h3, _⟩ := hold k' ri1 h1
    rw [h3]; exact hr.sig k' ri0 h2
  case res =>
    intro k' ri1 h1
    obtain ⟨ri0, h2, h3, h4, _⟩ := hold k' ri1 h1
    rw [h3, h4]; exact hr.res k' ri0 h2
  case resUnreg =>
    intro k' h1
    rw [hlk] at h1
    by_cases e : k' = i
    · simp [e] at h1
    · simp only [e, if_false] at h1; exact hr.resUnreg k' h1
  case builtLe =>
    intro k' ri1 h1
    obtain ⟨ri0, h2, _, h4, _⟩ := hold k' ri1 h1
    rw [h4]; exact hr.builtLe k' ri0 h2
  case status => intro k'; rw [hstatusOf]; exact hr.status k'
  case pendOk =>
    intro k' hp
    obtain ⟨ri2, h1, h2, h3⟩ := hr.pendOk k' hp
    have e : k' ≠ i := by
      intro e; subst e; rw [hl] at h1; cases h1; rw [hs] at h2; cases h2
    exact ⟨ri2, by rw [hlk]; simp only [e, if_false]; exact h1, h2, h3⟩
  case scanningOk =>
    intro k' ri1 h1 h2
    obtain ⟨ri0, h3, h4, h5, h6, _⟩ := hold k' ri1 h1
    rw [h4] at h2; rw [h5, h6]; exact hr.scanningOk k' ri0 h3 h2
  case dntrFresh =>
    intro k' ri1 h1 h2
    obtain ⟨ri0, h3, h4, _⟩ := hold k' ri1 h1
    rw [h4] at h2; exact hr.dntrFresh k' ri0 h3 h2
  case scanOne =>
    intro k' ri1 h1 h2
    obtain ⟨ri0, h3, h4, _⟩ := hold k' ri1 h1
    rw [h4] at h2
    rw [(hperm.filter _).length_eq]
    exact hr.scanOne k' ri0 h3 h2
  case scanOk =>
    intro x hm
    exact (hr.scanOk x (hperm.mem_iff.1 hm)).frame2 hreg (hrule _).1 (hrule _).2 rfl (fun _ h => h)
  case deferredAtRecord =>
    intro p hp x hx
    rcases hlive_cases p hp with e | ⟨_, h1⟩
    · subst e
      simp only [recDefer, List.mem_append, List.mem_singleton] at hx
      rcases hx with hx | hx
      · exact hr.deferredAtRecord (i, rec) hlive_i x hx
      · subst hx; exact hin
    · exact hr.deferredAtRecord p h1 x hx
  case recordLive =>
    intro k' ri1 h1 h2
    rw [hlk] at h1
    by_cases e : k' = i
    · simp only [e, if_true, Option.some.injEq] at h1; subst h1; exact ⟨_, hrec'⟩
    · simp only [e, if_false] at h1; exact hr.recordLive k' ri1 h1 h2
  case scanCount =>
    rw [setRule_scanCount_ss hl hk' (by simp [RuleInfo.isScanning, hs]) (by simp [RuleInfo.isScanning, hst', hs])]
    exact hr.scanCount
  case recordWaited =>
    intro p hp
    rcases hlive_cases p hp with e | ⟨hne, h1⟩
    · subst e; right; left; simp [recDefer]
    · rcases hr.recordWaited p h1 with h2 | h2 | ⟨x, h2, h3⟩ | h2
      · exact Or.inl h2
      · exact Or.inr (Or.inl h2)
      · rcases List.mem_append.1 h2 with h4 | h4
        · simp only [List.mem_singleton] at h4
          subst h4; rw [hin] at h3; cases h3; exact absurd rfl hne
        · exact Or.inr (Or.inr (Or.inl ⟨x, List.mem_append_right _ h4, h3⟩))
      · exact Or.inr (Or.inr (Or.inr h2))
  case midScan =>
    intro k' ri1 h1 h2
    obtain ⟨ri0, h3, h4, _⟩ := hold k' ri1 h1
    rw [h4] at h2
    have hne : k' ≠ i := by
      intro e; subst e; rw [hl] at h3; cases h3; rw [hs] at h2; rcases h2 with h | h <;> cases h
    rcases hr.midScan k' ri0 h3 h2 with ⟨x, h5, h6⟩ | h5
    · rcases List.mem_append.1 h5 with h7 | h7
      · simp only [List.mem_singleton] at h7
        subst h7; rw [hin] at h6; cases h6; exact absurd rfl hne
      · exact Or.inl ⟨x, List.mem_append_right _ h7, h6⟩
    · exact Or.inr h5
  case taskKeys => intro k'; rw [hstatusOf]; exact hr.taskKeys k'
  case taskOk =>
    intro a t h1
    have hne : a ≠ i := htask_ne a (by rw [show s.taskInfos.lookup a = some t from h1]; rfl)
    exact (hr.taskOk a t h1).frame (hrule_ne a hne) rfl (by rw [hout]) (by rw [hunp]) rfl rfl rfl (fun _ h => h) rfl
  case reqReg =>
    intro x hm; rw [hout] at hm
    exact ⟨hreg _ (hr.reqReg x hm).1, (hr.reqReg x hm).2⟩
  case reqTask =>
    intro x hm a ha; rw [hout] at hm
    obtain ⟨h1, h2⟩ := hr.reqTask x hm a ha
    exact ⟨h1, by rw [(hrule a).1]; exact h2⟩
  case dummyOk => intro x hm hn; rw [hunp] at hm; exact hr.dummyOk x hm hn
  case pausedAt =>
    intro p hp x hx
    rcases hlive_cases p hp with e | ⟨_, h1⟩
    · subst e
      exact hr.pausedAt (i, rec) hlive_i x hx
    · exact hr.pausedAt p h1 x hx
  case pendingOk => intro p hp; rw [hunp]; exact hr.pendingOk p hp
  case readyOk =>
    intro a ha
    obtain ⟨t, h1, h2, h3⟩ := hr.readyOk a ha
    exact ⟨t, h1, by rw [(hrule a).1]; exact h2, h3⟩
  case finTaskOk =>
    intro a ha
    obtain ⟨t, h1, h2, h3⟩ := hr.finTaskOk a ha
    exact ⟨t, h1, by rw [(hrule a).1]; exact h2, h3⟩
  case deferredOk =>
    intro a ha
    obtain ⟨t, h1, h2, h3⟩ := hr.deferredOk a ha
    exact ⟨t, h1, by rw [(hrule a).1]; exact h2, h3⟩
  case computingWhere =>
    intro a t h1 h2
    rw [(hrule a).1] at h2
    exact hr.computingWhere a t h1 h2

/-- `taskInfos` around a task -/
theorem scanTasks_split {s : State} {k : Key} {old : TaskInfo} (hl : s.taskInfos.lookup k = some old) (new : TaskInfo)
    (hk : new.forRuleInfo = k) :
    ∃ l1 l2, s.taskInfos = l1 ++ (k, old) :: l2 ∧ (s.setTask new).taskInfos = l1 ++ (k, new) :: l2 := by
  obtain ⟨l1, l2, h1, h2, _⟩ := alSet_split s.taskInfos k old new hl
  exact ⟨l1, l2, h1, by simp [State.setTask, hk, h2]⟩

theorem TaskOk.deferred {rules : List RuleSpec} {s : State} {m : Engine.St} {h : Hand} {a : Key} {t : TaskInfo}
    (l : List RuleScanRequest) (hb : TaskOk rules s m h a t) :
    TaskOk rules s m h a { t with deferredScanRequests := l } := { hb with }

/-- **parking the request in hand at the task of its (in progress) input** -/
theorem Rel.deferAtTask {rules : List RuleSpec} {s : State} {ms : MSt} {r : RuleScanRequest} {i : Key} {t : TaskInfo}
    (hr : Rel rules s ms { scan := [r] }) (hin : r.inputRuleInfo = some i) (hl : s.taskInfos.lookup i = some t) :
    Rel rules (s.setTask { t with deferredScanRequests := t.deferredScanRequests ++ [r] }) ms {} := by
  have hk : t.forRuleInfo = i := (hr.taskOk i t hl).forRule
  generalize ht' : ({ t with deferredScanRequests := t.deferredScanRequests ++ [r] } : TaskInfo) = t'
  have hk' : t'.forRuleInfo = i := by rw [← ht']; exact hk
  have hlk : ∀ a, (s.setTask t').taskInfos.lookup a = if a = i then some t' else s.taskInfos.lookup a := by
    intro a; rw [setTask_lookup, hk']
  have hsome : ∀ a, ((s.setTask t').taskInfos.lookup a).isSome = (s.taskInfos.lookup a).isSome := by
    intro a; rw [hlk]
    by_cases e : a = i
    · subst e; simp [hl]
    · simp [e]
  -- an entry of the new table comes from an old one that differs at most in `deferredScanRequests`
  have hold : ∀ a t1, (s.setTask t').taskInfos.lookup a = some t1 →
      ∃ t0, s.taskInfos.lookup a = some t0 ∧ t1 = { t0 with deferredScanRequests := t1.deferredScanRequests } := by
    intro a t1 h1
    rw [hlk] at h1
    by_cases e : a = i
    · subst e; simp only [if_true, Option.some.injEq] at h1; subst h1
      exact ⟨t, hl, by rw [← ht']⟩
    · simp only [e, if_false] at h1
      exact ⟨t1, h1, rfl⟩
  have hnew : ∀ a t0, s.taskInfos.lookup a = some t0 →
      ∃ t1, (s.setTask t').taskInfos.lookup a = some t1 ∧ t1.waitCount = t0.waitCount ∧ t1.done = t0.done := by
    intro a t0 h1
    rw [hlk]
    by_cases e : a = i
    · subst e; rw [hl] at h1; cases h1
      exact ⟨t', by simp, by rw [← ht'], by rw [← ht']⟩
    · exact ⟨t0, by simp only [e, if_false]; exact h1, rfl, rfl⟩
  obtain ⟨l1, l2, hsplit, hsplit'⟩ := scanTasks_split hl t' hk'
  have hreqBy : requestedByAll (s.setTask t') = requestedByAll s := by
    unfold requestedByAll; rw [hsplit, hsplit', ← ht']; simp
  have hproc : processed (s.setTask t') {} = processed s { scan := [r] } := by
    unfold processed; rw [hreqBy]; rfl
  have hunp : unprocessed (s.setTask t') {} = unprocessed s { scan := [r] } := rfl
  have hout : outstanding (s.setTask t') {} = outstanding s { scan := [r] } := by
    unfold outstanding; rw [hunp, hproc]
  have hperm : List.Perm (scanReqs (s.setTask t') {}) (scanReqs s { scan := [r] }) := by
    rw [List.perm_iff_count]
    intro x
    have e1 : liveRecords (s.setTask t') = liveRecords s := rfl
    have e2 : (s.setTask t').ruleInfosToScan = s.ruleInfosToScan := rfl
    have e3 : t'.deferredScanRequests = t.deferredScanRequests ++ [r] := by rw [← ht']
    simp only [scanReqs, deferredAll, e1, e2, e3, hsplit, hsplit', List.flatMap_append,
      List.flatMap_cons, List.count_append, List.count_nil]
    omega
  have hmem_new : ∀ p ∈ (s.setTask t').taskInfos, p = (i, t') ∨ p ∈ s.taskInfos := by
    intro p hp
    rw [hsplit'] at hp; rw [hsplit]
    simp only [List.mem_append, List.mem_cons] at hp ⊢
    rcases hp with h | h | h
    · exact Or.inr (Or.inl h)
    · exact Or.inl h
    · exact Or.inr (Or.inr (Or.inr h))
  have hmem_i : (i, t) ∈ s.taskInfos := lookup_mem _ _ _ hl
  have htask_i : (s.taskInfos.lookup i).isSome = true := by rw [hl]; rfl
  -- `i` has a task: it is neither scanning nor on a scan verdict
  have hi_state : ∀ ri, s.ruleInfos.lookup i = some ri →
      ri.state ≠ .isScanning ∧ ri.state ≠ .needsToRun ∧ ri.state ≠ .doesNotNeedToRun := by
    intro ri h1
    rcases hr.task_state h1 htask_i with h | h | h <;> rw [h] <;> exact ⟨by decide, by decide, by decide⟩
  refine
    { toBase := { hr.toBase with }, active := hr.active, started := hr.started, notReturned := hr.notReturned,
      epochPos := hr.epochPos, cancelled := hr.cancelled, errCancelled := hr.errCancelled, noCycle := hr.noCycle,
      targetReg := hr.targetReg, status := hr.status, pendOk := hr.pendOk,
      validIdle := hr.validIdle, scanningOk := hr.scanningOk, dntrFresh := hr.dntrFresh, inScanned := hr.inScanned,
      inRan := hr.inRan, ranOk := hr.ranOk, scanOne := ?scanOne, scanOk := ?scanOk,
      deferredAtRecord := hr.deferredAtRecord, deferredAtTask := ?deferredAtTask, recordLive := hr.recordLive,
      scanCount := hr.scanCount, recordWaited := ?recordWaited, midScan := ?midScan, taskKeys := ?taskKeys,
      taskNodup := ?taskNodup,
      taskOk := ?taskOk, reqReg := ?reqReg, reqTask := ?reqTask, dummyOk := ?dummyOk, dummyUnproc := ?dummyUnproc,
      pausedAt := hr.pausedAt, requestedAt := ?requestedAt, finDone := hr.finDone, pendingOk := ?pendingOk,
      readyOk := ?readyOk, readyNodup := hr.readyNodup, finTaskOk := ?finTaskOk, finTaskNodup := hr.finTaskNodup,
      deferredOk := ?deferredOk, deferredNodup := hr.deferredNodup, computingWhere := ?computingWhere,
      outstandingCount := hr.outstandingCount }
  case scanOne =>
    intro k' ri1 h1 h2
    rw [(hperm.filter _).length_eq]
    exact hr.scanOne k' ri1 h1 h2
  case scanOk =>
    intro x hm
    exact { hr.scanOk x (hperm.mem_iff.1 hm) with }
  case deferredAtTask =>
    intro p hp x hx
    rcases hmem_new p hp with e | h1
    · subst e
      rw [← ht'] at hx
      simp only [List.mem_append, List.mem_singleton] at hx
      rcases hx with hx | hx
      · exact hr.deferredAtTask (i, t) hmem_i x hx
      · subst hx; exact hin
    · exact hr.deferredAtTask p h1 x hx
  case recordWaited =>
    intro p hp
    obtain ⟨rip, hp1, hp2, _⟩ := (mem_liveRecords hr.rulesNodup p).1 hp
    rcases hr.recordWaited p hp with h2 | h2 | ⟨x, h2, h3⟩ | h2
    · exact Or.inl h2
    · exact Or.inr (Or.inl h2)
    · rcases List.mem_append.1 h2 with h4 | h4
      · simp only [List.mem_singleton] at h4
        subst h4; rw [hin] at h3; cases h3
        exact absurd hp2 (hi_state rip hp1).1
      · exact Or.inr (Or.inr (Or.inl ⟨x, List.mem_append_right _ h4, h3⟩))
    · exact Or.inr (Or.inr (Or.inr h2))
  case midScan =>
    intro k' ri1 h1 h2
    rcases hr.midScan k' ri1 h1 h2 with ⟨x, h5, h6⟩ | h5
    · rcases List.mem_append.1 h5 with h7 | h7
      · simp only [List.mem_singleton] at h7
        subst h7; rw [hin] at h6; cases h6
        rcases h2 with h2 | h2
        · exact absurd h2 (hi_state ri1 h1).2.1
        · exact absurd h2 (hi_state ri1 h1).2.2
      · exact Or.inl ⟨x, List.mem_append_right _ h7, h6⟩
    · exact Or.inr h5
  case taskKeys => intro k'; rw [hsome]; exact hr.taskKeys k'
  case taskNodup => exact alSet_keys_nodup _ _ _ hr.taskNodup
  case taskOk =>
    intro a t1 h1
    obtain ⟨t0, h2, h3⟩ := hold a t1 h1
    have h4 := (hr.taskOk a t0 h2).frame (s' := s.setTask t') (h' := {}) rfl rfl (by rw [hout]) (by rw [hunp]) rfl rfl rfl
      (fun _ h => h) rfl
    rw [h3]
    exact h4.deferred _
  case reqReg => intro x hm; rw [hout] at hm; exact hr.reqReg x hm
  case reqTask =>
    intro x hm a ha; rw [hout] at hm
    obtain ⟨h1, h2⟩ := hr.reqTask x hm a ha
    exact ⟨by rw [hsome]; exact h1, h2⟩
  case dummyOk =>
    intro x hm hn
    rcases hr.dummyOk x hm hn with h1 | h1 | h1 | ⟨k2, t2, h1, h2, h3⟩
    · exact Or.inl h1
    · exact Or.inr (Or.inl h1)
    · exact Or.inr (Or.inr (Or.inl h1))
    · right; right; right
      by_cases e : k2 = i
      · subst e; rw [hl] at h2; cases h2
        exact ⟨k2, t', h1, by rw [hlk]; simp, by rw [← ht']; exact h3⟩
      · exact ⟨k2, t2, h1, by rw [hlk]; simp only [e, if_false]; exact h2, h3⟩
  case dummyUnproc => rw [hproc]; exact hr.dummyUnproc
  case requestedAt =>
    intro p hp x hx
    rcases hmem_new p hp with e | h1
    · subst e
      rw [← ht'] at hx
      exact hr.requestedAt (i, t) hmem_i x hx
    · exact hr.requestedAt p h1 x hx
  case pendingOk =>
    intro p hp
    rcases hr.pendingOk p hp with h1 | h1
    · exact Or.inl h1
    · exact Or.inr (by rw [hsome]; exact h1)
  case readyOk =>
    intro a ha
    obtain ⟨t0, h1, h2, h3⟩ := hr.readyOk a ha
    obtain ⟨t1, h4, h5, _⟩ := hnew a t0 h1
    exact ⟨t1, h4, h2, by rw [h5]; exact h3⟩
  case finTaskOk =>
    intro a ha
    obtain ⟨t0, h1, h2, h3⟩ := hr.finTaskOk a ha
    obtain ⟨t1, h4, _, h6⟩ := hnew a t0 h1
    exact ⟨t1, h4, h2, by rw [h6]; exact h3⟩
  case deferredOk =>
    intro a ha
    obtain ⟨t0, h1, h2, h3⟩ := hr.deferredOk a ha
    obtain ⟨t1, h4, _, h6⟩ := hnew a t0 h1
    exact ⟨t1, h4, h2, by rw [h6]; exact h3⟩
  case computingWhere =>
    intro a t1 h1 h2
    obtain ⟨t0, h3, h4⟩ := hold a t1 h1
    have := hr.computingWhere a t0 h3 h2
    rw [h4]; exact this

/-- **`Todo_scanDefer`** -/
theorem scanDefer_sim : Todo_scanDefer := by
  intro rules s ms r i hr hin
  constructor
  · intro hs
    cases hl : s.ruleInfos.lookup i with
    | none => simp [State.rule, hl] at hs
    | some ri =>
      have hri : s.rule i = ri := rule_of_lookup hl
      rw [hri] at hs
      obtain ⟨rec, hrec⟩ := hr.recordLive i ri hl hs
      have e : modScanRecord i (fun rec => { rec with deferredScanRequests := rec.deferredScanRequests ++ [r] }) s =
          s.setRule { ri with inProgressInfo := .pendingScanRecord (recDefer rec r) } := by
        unfold modScanRecord State.modRule
        rw [hri]
        simp [RuleInfo.getPendingScanRecord, hrec, recDefer]
      rw [e]
      exact ⟨hr.deferAtRecord hin hl hs hrec, rfl⟩
  · intro ht
    obtain ⟨t, hl⟩ := Option.isSome_iff_exists.1 ht
    have e : s.modTask i (fun t => { t with deferredScanRequests := t.deferredScanRequests ++ [r] }) =
        s.setTask { t with deferredScanRequests := t.deferredScanRequests ++ [r] } := by
      unfold State.modTask; rw [task_of_lookup hl]
    rw [e]
    exact hr.deferAtTask hin hl

/-! ## 3. `finishScanRequest` -/

/-- the rule after `finishScanRequest … st` -/
def scanFinRule (rk : RuleInfo) (st : StateKind) : RuleInfo := { rk with inProgressInfo := .null, state := st }

/-- the engine after `finishScanRequest k st` when the rule of `k` is `rk` with live record `rec` -/
def finishState (rk : RuleInfo) (rec : RuleScanRecord) (st : StateKind) (s : State) : State :=
  { ({ s with ruleInfosToScan := s.ruleInfosToScan ++ rec.deferredScanRequests,
              inputRequests := s.inputRequests ++ rec.pausedInputRequests }).setRule (scanFinRule rk st)
    with numRulesBeingScanned := s.numRulesBeingScanned - 1 }

theorem finishScanRequest_eq {s : State} {k : Key} {rk : RuleInfo} {rec : RuleScanRecord} (st : StateKind)
    (hl : s.ruleInfos.lookup k = some rk) (hrec : rk.inProgressInfo = .pendingScanRecord rec) :
    finishScanRequest k st s = finishState rk rec st s := by
  have hrk : s.rule k = rk := rule_of_lookup hl
  unfold finishScanRequest
  rw [hrk]
  simp only [RuleInfo.getPendingScanRecord, hrec]
  unfold finishState State.modRule
  have : ({ s with ruleInfosToScan := s.ruleInfosToScan ++ rec.deferredScanRequests,
                   inputRequests := s.inputRequests ++ rec.pausedInputRequests } : State).rule k = rk := hrk
  rw [this]
  rfl

section finish
variable {s : State} {rk : RuleInfo} {rec : RuleScanRecord} {st : StateKind}

theorem finishState_ruleInfos : (finishState rk rec st s).ruleInfos = (s.setRule (scanFinRule rk st)).ruleInfos := rfl
theorem finishState_taskInfos : (finishState rk rec st s).taskInfos = s.taskInfos := rfl
theorem finishState_scanQ :
    (finishState rk rec st s).ruleInfosToScan = s.ruleInfosToScan ++ rec.deferredScanRequests := rfl
theorem finishState_inputRequests :
    (finishState rk rec st s).inputRequests = s.inputRequests ++ rec.pausedInputRequests := rfl
theorem finishState_liveRecords : liveRecords (finishState rk rec st s) = liveRecords (s.setRule (scanFinRule rk st)) := rfl
theorem finishState_halted : (finishState rk rec st s).halted = s.halted := rfl
theorem finishState_trace : (finishState rk rec st s).trace = s.trace := rfl

end finish

/-- **`finishScanRequest` under `Rel`**: the rule `k` of the request in hand leaves `IsScanning` with the verdict
`st` (monitor status `mst`); its record's requests are woken; the request in hand is consumed. -/
theorem Rel.finishScan {rules : List RuleSpec} {s : State} {m : Engine.St} {r : RuleScanRequest} {i k : Key}
    {rk : RuleInfo} {rec : RuleScanRecord}
    (hr : Rel rules s ⟨m, none⟩ { scan := [r] }) (hrk : r.ruleInfo = k) (hin : r.inputRuleInfo = some i)
    (hdone : isDone m i = true) (hl : s.ruleInfos.lookup k = some rk) (hrec : rk.inProgressInfo = .pendingScanRecord rec)
    (st : StateKind) (mst : Status)
    (hcase : (st = .needsToRun ∧ mst = .needsRun) ∨
      (st = .doesNotNeedToRun ∧ mst = .scanning ∧ ∀ d ∈ (m.mem.res k).deps, depFresh m (m.mem.res k) d = true)) :
    Rel rules (finishState rk rec st s) ⟨{ m with status := upd m.status k mst }, none⟩ {} := by
  have hok := hr.scanOk r (mem_scanReqs_hand s r)
  have hsc : rk.state = .isScanning := by
    have := hok.scanning; rw [hrk, rule_of_lookup hl] at this; exact this
  have hkk : rk.key = k := hr.keyOk k rk hl
  have hfk : (scanFinRule rk st).key = k := hkk
  have hstM : m.status k = .scanning := by
    have := hr.status k; simp only at this; rw [this]; exact statusOf_scanning hl hsc
  have hst : st = .needsToRun ∨ st = .doesNotNeedToRun := by
    rcases hcase with ⟨h1, _⟩ | ⟨h1, _⟩
    · exact Or.inl h1
    · exact Or.inr h1
  have hmst : mst = .needsRun ∨ mst = .scanning := by
    rcases hcase with ⟨_, h1⟩ | ⟨_, h1, _⟩
    · exact Or.inl h1
    · exact Or.inr h1
  have hfst : (scanFinRule rk st).state ≠ .isScanning := by
    show st ≠ _
    rcases hst with e | e <;> rw [e] <;> decide
  have hns : (scanFinRule rk st).isScanning = false := by
    simpa [RuleInfo.isScanning] using hfst
  have hinp0 : StateKind.inProgress rk.state = false := by simp [StateKind.inProgress, hsc]
  have hinp' : StateKind.inProgress st = false := by
    rcases hst with e | e <;> simp [StateKind.inProgress, e]
  have hlk1 : ∀ k', (finishState rk rec st s).ruleInfos.lookup k' =
      if k' = k then some (scanFinRule rk st) else s.ruleInfos.lookup k' := by
    intro k'; rw [finishState_ruleInfos, setRule_lookup, hfk]
  have hnd1 : ((finishState rk rec st s).ruleInfos.map (fun p => p.1)).Nodup := by
    rw [finishState_ruleInfos]; exact setRule_rulesNodup _ hr.rulesNodup
  have hrule_ne : ∀ a, a ≠ k → (finishState rk rec st s).rule a = s.rule a := by
    intro a e; unfold State.rule; rw [hlk1]; simp [e]
  have hstatus1 : ∀ k', (upd m.status k mst) k' = if k' = k then mst else m.status k' := by
    intro k'; simp [upd]
  have hdoneEq : ∀ x, isDone { m with status := upd m.status k mst } x = isDone m x := by
    intro x
    unfold isDone
    show (upd m.status k mst x == Status.done) = _
    rw [hstatus1]
    by_cases e : x = k
    · subst e; rw [hstM]; rcases hmst with e2 | e2 <;> rw [e2] <;> simp <;> rfl
    · simp [e]
  have hfreshdep : ∀ (res : Res) d, depFresh { m with status := upd m.status k mst } res d = depFresh m res d := by
    intro res d; unfold depFresh; rw [hdoneEq]
  have hstatusOf1 : ∀ k', statusOf (finishState rk rec st s) none k' = if k' = k then mst else statusOf s none k' := by
    intro k'
    unfold statusOf
    rw [hlk1]
    by_cases e : k' = k
    · subst e
      simp only [if_true]
      rcases hcase with ⟨h1, h2⟩ | ⟨h1, h2, _⟩ <;> simp [scanFinRule, h1, h2]
    · simp only [e, if_false]; rfl
  have hreg : ∀ k', Registered s k' → Registered (finishState rk rec st s) k' := by
    intro k' h1; unfold Registered at *; rw [hlk1]; by_cases e : k' = k <;> simp [e, h1]
  obtain ⟨la, lb, hlive, hlive'⟩ := setRule_liveRecords_stop hl hfk hsc hns hrec
  have hlive1 : liveRecords (finishState rk rec st s) = la ++ lb := hlive'
  have hunp : List.Perm (unprocessed (finishState rk rec st s) {}) (unprocessed s { scan := [r] }) := by
    rw [List.perm_iff_count]
    intro x
    simp only [unprocessed, pausedAll, hlive1, hlive, finishState_inputRequests, List.flatMap_append,
      List.flatMap_cons, List.count_append, List.count_nil]
    omega
  have hproc : processed (finishState rk rec st s) {} = processed s { scan := [r] } := rfl
  have hout : List.Perm (outstanding (finishState rk rec st s) {}) (outstanding s { scan := [r] }) := by
    unfold outstanding; rw [hproc]; exact hunp.append_right _
  have hscan : List.Perm (scanReqs s { scan := [r] }) (r :: scanReqs (finishState rk rec st s) {}) := by
    rw [List.perm_iff_count]
    intro x
    simp only [scanReqs, deferredAll, hlive1, hlive, finishState_scanQ, finishState_taskInfos, List.flatMap_append,
      List.flatMap_cons, List.count_append, List.count_cons, List.count_nil]
    omega
  have hno_k : ∀ x ∈ scanReqs (finishState rk rec st s) {}, x.ruleInfo ≠ k := by
    intro x hx e
    have h1 := hr.scanOne k rk hl hsc
    have h2 := (hscan.filter (fun r => r.ruleInfo == k)).length_eq
    rw [h1] at h2
    simp only [List.filter_cons, hrk, beq_self_eq_true, if_true, List.length_cons] at h2
    have h3 : (List.filter (fun r => r.ruleInfo == k) (scanReqs (finishState rk rec st s) {})).length = 0 := by omega
    have h4 := List.filter_eq_nil_iff.1 (List.length_eq_zero_iff.1 h3) x hx
    simp [e] at h4
  have hlive_sub : ∀ p ∈ liveRecords (finishState rk rec st s), p.1 ≠ k ∧ p ∈ liveRecords s := by
    intro p hp
    obtain ⟨ri1, h1, h2, h3⟩ := (mem_liveRecords hnd1 p).1 hp
    rw [hlk1] at h1
    by_cases e : p.1 = k
    · simp only [e, if_true, Option.some.injEq] at h1; subst h1
      exact absurd h2 hfst
    · simp only [e, if_false] at h1
      exact ⟨e, (mem_liveRecords hr.rulesNodup p).2 ⟨ri1, h1, h2, h3⟩⟩
  have hlive_k : (k, rec) ∈ liveRecords s := (mem_liveRecords hr.rulesNodup (k, rec)).2 ⟨rk, hl, hsc, hrec⟩
  have hi_complete : ∀ ri0, s.ruleInfos.lookup i = some ri0 → ri0.state = .complete :=
    fun ri0 h => hr.done_complete h hdone
  have htask_ne : ∀ a, (s.taskInfos.lookup a).isSome = true → a ≠ k := by
    intro a h1 e; subst e
    rcases hr.task_state hl h1 with h | h | h <;> rw [hsc] at h <;> cases h
  refine
    { rules_eq := hr.rules_eq, env := hr.env, hasDB := hr.hasDB, noResolve := hr.noResolve, noFail := hr.noFail,
      epoch := hr.epoch, reg := ?reg, keyOk := ?keyOk, rulesNodup := hnd1, sig := ?sig, res := ?res,
      resUnreg := ?resUnreg, db := hr.db, dbBuilt := hr.dbBuilt, dbBuiltLe := hr.dbBuiltLe, dbIter := hr.dbIter,
      builtLe := ?builtLe,
      active := hr.active, started := hr.started, notReturned := hr.notReturned, epochPos := hr.epochPos,
      cancelled := hr.cancelled, errCancelled := hr.errCancelled, noCycle := hr.noCycle, targetReg := hr.targetReg,
      status := ?status, pendOk := ?pendOk,
      validIdle := ?validIdle, scanningOk := ?scanningOk, dntrFresh := ?dntrFresh, inScanned := ?inScanned,
      inRan := ?inRan, ranOk := ?ranOk, scanOne := ?scanOne, scanOk := ?scanOk,
      deferredAtRecord := ?deferredAtRecord, deferredAtTask := hr.deferredAtTask, recordLive := ?recordLive,
      scanCount := ?scanCount, recordWaited := ?recordWaited, midScan := ?midScan, taskKeys := ?taskKeys,
      taskNodup := hr.taskNodup,
      taskOk := ?taskOk, reqReg := ?reqReg, reqTask := ?reqTask, dummyOk := ?dummyOk, dummyUnproc := hr.dummyUnproc,
      pausedAt := ?pausedAt, requestedAt := hr.requestedAt, finDone := ?finDone, pendingOk := ?pendingOk,
      readyOk := ?readyOk, readyNodup := hr.readyNodup, finTaskOk := ?finTaskOk, finTaskNodup := hr.finTaskNodup,
      deferredOk := ?deferredOk, deferredNodup := hr.deferredNodup, computingWhere := ?computingWhere,
      outstandingCount := hr.outstandingCount }
  case reg =>
    intro k'
    show m.registered k' = _
    rw [hlk1, hr.reg k']
    by_cases e : k' = k
    · subst e; simp [hl]
    · simp [e]
  case keyOk =>
    intro k' ri1 h1
    rw [hlk1] at h1
    by_cases e : k' = k
    · subst e; simp only [if_true, Option.some.injEq] at h1; subst h1; exact hfk
    · simp only [e, if_false] at h1; exact hr.keyOk k' ri1 h1
  case sig =>
    intro k' ri1 h1
    rw [hlk1] at h1
    show m.sigAt k' = _
    by_cases e : k' = k
    · subst e; simp only [if_true, Option.some.injEq] at h1; subst h1; exact hr.sig k' rk hl
    · simp only [e, if_false] at h1; exact hr.sig k' ri1 h1
  case res =>
    intro k' ri1 h1
    rw [hlk1] at h1
    by_cases e : k' = k
    · subst e; simp only [if_true, Option.some.injEq] at h1; subst h1
      have h0 := hr.res k' rk hl
      rw [hinp0] at h0
      show resRel (StateKind.inProgress st) _ (m.mem.res k') rk.result
      rw [hinp']; exact h0
    · simp only [e, if_false] at h1; exact hr.res k' ri1 h1
  case resUnreg =>
    intro k' h1
    rw [hlk1] at h1
    by_cases e : k' = k
    · simp [e] at h1
    · simp only [e, if_false] at h1; exact hr.resUnreg k' h1
  case builtLe =>
    intro k' ri1 h1
    rw [hlk1] at h1
    by_cases e : k' = k
    · subst e; simp only [if_true, Option.some.injEq] at h1; subst h1; exact hr.builtLe k' rk hl
    · simp only [e, if_false] at h1; exact hr.builtLe k' ri1 h1
  case status =>
    intro k'
    rw [hstatusOf1]
    show upd m.status k mst k' = _
    rw [hstatus1]
    by_cases e : k' = k
    · simp [e]
    · simp only [e, if_false]; exact hr.status k'
  case pendOk => intro k' hp; cases hp
  case validIdle =>
    intro k' hi
    replace hi : upd m.status k mst k' = .idle := hi
    rw [hstatus1] at hi
    show m.validSeen k' = none
    by_cases e : k' = k
    · subst e; simp only [if_true] at hi; rcases hmst with e2 | e2 <;> rw [e2] at hi <;> cases hi
    · simp only [e, if_false] at hi; exact hr.validIdle k' hi
  case scanningOk =>
    intro k' ri1 h1 h2
    rw [hlk1] at h1
    by_cases e : k' = k
    · subst e; simp only [if_true, Option.some.injEq] at h1; subst h1
      exact hr.scanningOk k' rk hl (Or.inl hsc)
    · simp only [e, if_false] at h1; exact hr.scanningOk k' ri1 h1 h2
  case dntrFresh =>
    intro k' ri1 h1 h2
    rw [hlk1] at h1
    show ∀ d ∈ (m.mem.res k').deps, depFresh _ (m.mem.res k') d = true
    intro d hd
    rw [hfreshdep]
    by_cases e : k' = k
    · subst e; simp only [if_true, Option.some.injEq] at h1; subst h1
      replace h2 : st = .doesNotNeedToRun := h2
      rcases hcase with ⟨h3, _⟩ | ⟨_, _, h3⟩
      · rw [h3] at h2; cases h2
      · exact h3 d hd
    · simp only [e, if_false] at h1; exact hr.dntrFresh k' ri1 h1 h2 d hd
  case inScanned =>
    intro k' hi
    replace hi : upd m.status k mst k' = .scanning := hi
    rw [hstatus1] at hi
    show k' ∈ m.scanned
    by_cases e : k' = k
    · subst e; exact hr.inScanned k' hstM
    · simp only [e, if_false] at hi; exact hr.inScanned k' hi
  case inRan =>
    intro k' hi
    replace hi : upd m.status k mst k' = .running ∨ upd m.status k mst k' = .computing := hi
    rw [hstatus1] at hi
    show k' ∈ m.ran
    by_cases e : k' = k
    · subst e; simp only [if_true] at hi
      rcases hmst with e2 | e2 <;> rw [e2] at hi <;> rcases hi with hi | hi <;> cases hi
    · simp only [e, if_false] at hi; exact hr.inRan k' hi
  case ranOk =>
    intro k' hk'
    show upd m.status k mst k' = .running ∨ upd m.status k mst k' = .computing ∨ upd m.status k mst k' = .done
    rw [hstatus1]
    have h0 := hr.ranOk k' hk'
    by_cases e : k' = k
    · subst e; rw [hstM] at h0; rcases h0 with h0 | h0 | h0 <;> cases h0
    · simp only [e, if_false]; exact h0
  case scanOne =>
    intro k' ri1 h1 h2
    rw [hlk1] at h1
    by_cases e : k' = k
    · subst e; simp only [if_true, Option.some.injEq] at h1; subst h1
      exact absurd h2 hfst
    · simp only [e, if_false] at h1
      have h0 := hr.scanOne k' ri1 h1 h2
      have h3 := (hscan.filter (fun r => r.ruleInfo == k')).length_eq
      rw [h0] at h3
      have h4 : (r.ruleInfo == k') = false := by rw [hrk]; simpa using (Ne.symm e)
      simp only [List.filter_cons, h4, Bool.false_eq_true, if_false] at h3
      exact h3.symm
  case scanOk =>
    intro x hm
    have hm' : x ∈ scanReqs s { scan := [r] } := hscan.mem_iff.2 (List.mem_cons_of_mem _ hm)
    exact (hr.scanOk x hm').frame hreg (hrule_ne _ (hno_k x hm)) rfl (fun d h => by rw [hfreshdep]; exact h)
  case deferredAtRecord => intro p hp; exact hr.deferredAtRecord p (hlive_sub p hp).2
  case recordLive =>
    intro k' ri1 h1 h2
    rw [hlk1] at h1
    by_cases e : k' = k
    · subst e; simp only [if_true, Option.some.injEq] at h1; subst h1
      exact absurd h2 hfst
    · simp only [e, if_false] at h1; exact hr.recordLive k' ri1 h1 h2
  case scanCount =>
    show s.numRulesBeingScanned - 1 = _
    rw [finishState_ruleInfos]
    have h1 := setRule_scanCount_stop hl hfk (by simp [RuleInfo.isScanning, hsc]) hns
    have h2 := hr.scanCount
    omega
  case recordWaited =>
    intro p hp
    obtain ⟨hne, hp'⟩ := hlive_sub p hp
    rcases hr.recordWaited p hp' with h2 | h2 | ⟨x, h2, h3⟩ | ⟨x, h2, h3⟩
    · exact Or.inl h2
    · exact Or.inr (Or.inl h2)
    · rcases List.mem_append.1 h2 with h4 | h4
      · simp only [List.mem_singleton] at h4
        subst h4; rw [hin] at h3; cases h3
        obtain ⟨rip, hp1, hp2, _⟩ := (mem_liveRecords hr.rulesNodup p).1 hp'
        have := hi_complete rip hp1
        rw [hp2] at this; cases this
      · exact Or.inr (Or.inr (Or.inl ⟨x, List.mem_append_right _ (List.mem_append_left _ h4), h3⟩))
    · rcases List.mem_append.1 h2 with h4 | h4
      · cases h4
      · exact Or.inr (Or.inr (Or.inr ⟨x, List.mem_append_right _ (List.mem_append_left _ h4), h3⟩))
  case midScan =>
    intro k' ri1 h1 h2
    rw [hlk1] at h1
    by_cases e : k' = k
    · subst e
      rcases hr.recordWaited (k', rec) hlive_k with h3 | h3 | ⟨x, h3, h4⟩ | ⟨x, h3, h4⟩
      · obtain ⟨x, hx⟩ := List.exists_mem_of_ne_nil _ h3
        exact Or.inr ⟨x, List.mem_append_right _ (List.mem_append_right _ hx), hr.pausedAt (k', rec) hlive_k x hx⟩
      · obtain ⟨x, hx⟩ := List.exists_mem_of_ne_nil _ h3
        exact Or.inl ⟨x, List.mem_append_right _ (List.mem_append_right _ hx), hr.deferredAtRecord (k', rec) hlive_k x hx⟩
      · rcases List.mem_append.1 h3 with h5 | h5
        · simp only [List.mem_singleton] at h5
          subst h5; rw [hin] at h4; cases h4
          have := hi_complete rk hl
          rw [hsc] at this; cases this
        · exact Or.inl ⟨x, List.mem_append_right _ (List.mem_append_left _ h5), h4⟩
      · rcases List.mem_append.1 h3 with h5 | h5
        · cases h5
        · exact Or.inr ⟨x, List.mem_append_right _ (List.mem_append_left _ h5), h4⟩
    · simp only [e, if_false] at h1
      rcases hr.midScan k' ri1 h1 h2 with ⟨x, h3, h4⟩ | ⟨x, h3, h4⟩
      · rcases List.mem_append.1 h3 with h5 | h5
        · simp only [List.mem_singleton] at h5
          subst h5; rw [hin] at h4; cases h4
          have := hi_complete ri1 h1
          rw [this] at h2; rcases h2 with h2 | h2 <;> cases h2
        · exact Or.inl ⟨x, List.mem_append_right _ (List.mem_append_left _ h5), h4⟩
      · rcases List.mem_append.1 h3 with h5 | h5
        · cases h5
        · exact Or.inr ⟨x, List.mem_append_right _ (List.mem_append_left _ h5), h4⟩
  case taskKeys =>
    intro k'
    rw [hstatusOf1]
    show (s.taskInfos.lookup k').isSome = _
    by_cases e : k' = k
    · subst e
      have h0 := hr.taskKeys k'
      have hso : statusOf s none k' = .scanning := statusOf_scanning hl hsc
      simp only at h0
      rw [hso] at h0
      simp only [if_true]
      rw [h0]
      rcases hmst with e2 | e2 <;> rw [e2] <;> rfl
    · simp only [e, if_false]; exact hr.taskKeys k'
  case taskOk =>
    intro a t h1
    have hne : a ≠ k := htask_ne a (by rw [show s.taskInfos.lookup a = some t from h1]; rfl)
    exact (hr.taskOk a t h1).frame (hrule_ne a hne) rfl hout hunp rfl rfl rfl
      (fun x hx => by rw [hdoneEq]; exact hx) rfl
  case reqReg =>
    intro x hm
    have hm' := hout.mem_iff.1 hm
    exact ⟨hreg _ (hr.reqReg x hm').1, (hr.reqReg x hm').2⟩
  case reqTask =>
    intro x hm a ha
    have hm' := hout.mem_iff.1 hm
    obtain ⟨h1, h2⟩ := hr.reqTask x hm' a ha
    exact ⟨h1, by rw [hrule_ne a (htask_ne a h1)]; exact h2⟩
  case dummyOk =>
    intro x hm hn
    have hm' := hunp.mem_iff.1 hm
    rcases hr.dummyOk x hm' hn with h1 | h1 | h1 | ⟨k2, t, h1, _⟩
    · left
      show upd m.status k mst x.inputRuleInfo ≠ .idle
      rw [hstatus1]
      by_cases e : x.inputRuleInfo = k
      · simp only [e, if_true]; rcases hmst with e2 | e2 <;> rw [e2] <;> decide
      · simp only [e, if_false]; exact h1
    · exact Or.inr (Or.inl h1)
    · exact Or.inr (Or.inr (Or.inl h1))
    · cases h1
  case pausedAt => intro p hp; exact hr.pausedAt p (hlive_sub p hp).2
  case finDone =>
    intro x hm
    rw [hdoneEq]; exact hr.finDone x hm
  case pendingOk =>
    intro p hp
    rcases hr.pendingOk p hp with ⟨x, h1, h2⟩ | h1
    · exact Or.inl ⟨x, hunp.mem_iff.2 h1, h2⟩
    · exact Or.inr h1
  case readyOk =>
    intro a ha
    obtain ⟨t, h1, h2, h3⟩ := hr.readyOk a ha
    exact ⟨t, h1, by rw [hrule_ne a (htask_ne a (by rw [h1]; rfl))]; exact h2, h3⟩
  case finTaskOk =>
    intro a ha
    obtain ⟨t, h1, h2, h3⟩ := hr.finTaskOk a ha
    exact ⟨t, h1, by rw [hrule_ne a (htask_ne a (by rw [h1]; rfl))]; exact h2, h3⟩
  case deferredOk =>
    intro a ha
    obtain ⟨t, h1, h2, h3⟩ := hr.deferredOk a ha
    exact ⟨t, h1, by rw [hrule_ne a (htask_ne a (by rw [h1]; rfl))]; exact h2, h3⟩
  case computingWhere =>
    intro a t h1 h2
    rw [hrule_ne a (htask_ne a (by rw [show s.taskInfos.lookup a = some t from h1]; rfl))] at h2
    exact hr.computingWhere a t h1 h2

theorem setRule_regMono (s : State) (ri : RuleInfo) : RegMono s (s.setRule ri) := by
  intro k' h1
  unfold Registered at *
  rw [setRule_lookup]
  split
  · rfl
  · exact h1

theorem finishState_regMono {s : State} {rk : RuleInfo} {rec : RuleScanRecord} {st : StateKind} :
    RegMono s (finishState rk rec st s) := by
  intro k' h1
  unfold Registered
  rw [finishState_ruleInfos]
  exact setRule_regMono s _ k' h1

/-- what the request in hand says about its rule -/
theorem Rel.hand_rule {rules : List RuleSpec} {s : State} {ms : MSt} {r : RuleScanRequest}
    (hr : Rel rules s ms { scan := [r] }) :
    ∃ rk rec, s.ruleInfos.lookup r.ruleInfo = some rk ∧ rk.state = .isScanning ∧
      rk.inProgressInfo = .pendingScanRecord rec ∧ ms.m.status r.ruleInfo = .scanning := by
  have hok := hr.scanOk r (mem_scanReqs_hand s r)
  obtain ⟨rk, hlk⟩ := Option.isSome_iff_exists.1 hok.reg
  have hsc : rk.state = .isScanning := by rw [← rule_of_lookup hlk]; exact hok.scanning
  obtain ⟨rec, hrec⟩ := hr.recordLive _ rk hlk hsc
  exact ⟨rk, rec, hlk, hsc, hrec, by rw [hr.status]; exact statusOf_scanning hlk hsc⟩

/-- **`Todo_finishScan_fresh`** -/
theorem finishScan_fresh_sim : Todo_finishScan_fresh := by
  intro rules _ s ms r i hr hp hh hin hdone hfresh hlast
  obtain ⟨m, pend⟩ := ms
  simp only at hp; subst hp
  obtain ⟨rk, rec, hlk, hsc, hrec, hstM⟩ := hr.hand_rule
  simp only at hstM hdone
  rw [finishScanRequest_eq .doesNotNeedToRun hlk hrec]
  obtain ⟨hdeps, _⟩ := hr.scanning_res hlk hsc
  have hall : ∀ d ∈ (m.mem.res r.ruleInfo).deps, depFresh m (m.mem.res r.ruleInfo) d = true := by
    have h1 := hr.prefixFresh_succ hin hdone hfresh
    have h2 : (m.mem.res r.ruleInfo).deps.take (r.inputIndex + 1) = (m.mem.res r.ruleInfo).deps := by
      apply List.take_of_length_le
      rw [hdeps, ← rule_of_lookup hlk, ← hlast]
      exact Nat.le_refl _
    simp only at h1
    rw [h2] at h1
    exact h1
  have hrel := hr.finishScan rfl hin hdone hlk hrec .doesNotNeedToRun .scanning (Or.inr ⟨rfl, rfl, hall⟩)
  have hupd : upd m.status r.ruleInfo .scanning = m.status := by
    have := upd_self m.status r.ruleInfo; rw [hstM] at this; exact this
  rw [hupd] at hrel
  intro _
  exact ⟨[], ⟨m, none⟩, by simp [Emits, finishState_trace], rfl, hrel, rfl, finishState_regMono, rfl, trivial⟩

/-- **`Todo_finishScan_needs`** -/
theorem finishScan_needs_sim : Todo_finishScan_needs := by
  intro rules _ s ms r i hr hp hh hin hoo hdone hlt
  obtain ⟨m, pend⟩ := ms
  simp only at hp; subst hp
  obtain ⟨rk, rec, hlk, hsc, hrec, hstM⟩ := hr.hand_rule
  simp only at hstM hdone
  rw [finishScanRequest_eq .needsToRun hlk hrec]
  have hok := hr.scanOk r (mem_scanReqs_hand s r)
  obtain ⟨hregi, d, hd, hdk, hdo⟩ := hok.cached i hin
  obtain ⟨ri, hli⟩ := Option.isSome_iff_exists.1 hregi
  obtain ⟨hdeps, hbuilt⟩ := hr.scanning_res hlk hsc
  simp only at hdeps hbuilt
  have hrel := hr.finishScan rfl hin hdone hlk hrec .needsToRun .needsRun (Or.inl ⟨rfl, rfl⟩)
  have hno : needsOk m r.ruleInfo 3 (some i) = true := by
    have h1 : m.validSeen r.ruleInfo = some true := (hr.scanningOk _ rk hlk (Or.inl hsc)).1
    have h2 : (m.mem.res r.ruleInfo).deps.any (fun dp => dp.key == i && !dp.orderOnly) = true := by
      rw [hdeps, List.any_eq_true]
      rw [rule_of_lookup hlk] at hd
      exact ⟨d, List.mem_of_getElem? hd, by simp [hdk, hdo, hoo]⟩
    have h3 : (m.mem.res r.ruleInfo).builtAt < (m.mem.res i).computedAt := by
      have := hr.computedAt_eq hli
      simp only at this
      rw [hbuilt, this]
      rw [rule_of_lookup hlk, rule_of_lookup hli] at hlt
      exact hlt
    simp [needsOk, h1, h2, hdone, h3]
  have hstep : step (program rules) m (.needs r.ruleInfo 3 (some i)) =
      some { m with status := upd m.status r.ruleInfo .needsRun } := by
    simp [step, hstM, hno]
  have hts : tstep (program rules) ⟨m, none⟩ (.N r.ruleInfo 3 (some i)) =
      some ⟨{ m with status := upd m.status r.ruleInfo .needsRun }, none⟩ := tstep_ev (by rfl) (by rfl) hstep
  have hh' : (finishState rk rec .needsToRun s).halted = false := hh
  obtain ⟨toks', ms'', he, hrun', hrel', hms⟩ := Rel.emit_list [.N r.ruleInfo 3 (some i)] _ ⟨m, none⟩ _ hh'
    (by intro t ht; simp only [List.mem_singleton] at ht; subst ht; rfl) (by simp [trun, hts]) hrel
  simp only [emitAll_cons, emitAll_nil] at he hrel'
  intro _
  refine ⟨toks', ms'', ?_, hrun', hrel', ?_, ?_, ?_, trivial⟩
  · unfold Emits at he ⊢; rw [he]; rfl
  · rcases hms with e | e <;> rw [e] <;> rfl
  · intro k' hk'
    unfold Registered
    rw [emit_ruleInfos]
    exact finishState_regMono k' hk'
  · rcases hms with e | e <;> rw [e] <;> rfl

/-! ## 4. `scanLoop` -/

/-- the rest of the loop body once the input is available -/
def afterDemand (fuel : Nat) (request : RuleScanRequest) (input : Key) (s : State) : State :=
  if !request.orderOnly && (s.rule request.ruleInfo).result.builtAt < (s.rule input).result.computedAt then
    emit (.N request.ruleInfo 3 (some input)) (finishScanRequest request.ruleInfo .needsToRun s)
  else if request.inputIndex + 1 != (s.rule request.ruleInfo).result.deps.length then
    scanLoop fuel { request with inputIndex := request.inputIndex + 1, inputRuleInfo := none,
                                 orderOnly := false, singleUse := false } s
  else finishScanRequest request.ruleInfo .doesNotNeedToRun s

/-- the rest of the loop body after `scanRule input` returned `p` -/
def afterScan (fuel : Nat) (request : RuleScanRequest) (input : Key) (p : Bool × State) : State :=
  if !p.1 then
    modScanRecord input (fun r => { r with deferredScanRequests := r.deferredScanRequests ++ [request] }) p.2
  else
    if !(demandRule input p.2).1 then
      (demandRule input p.2).2.modTask input (fun t => { t with deferredScanRequests := t.deferredScanRequests ++ [request] })
    else afterDemand fuel request input (demandRule input p.2).2

theorem scanLoop_succ (fuel : Nat) (request : RuleScanRequest) (s : State) :
    scanLoop (fuel + 1) request s =
      match request.inputRuleInfo with
      | some i => afterScan fuel request i (scanRule i s)
      | none =>
        match (s.rule request.ruleInfo).result.deps[request.inputIndex]? with
        | none => halt (.BAD "dependency-index-out-of-bounds") s
        | some d =>
          afterScan fuel { request with inputRuleInfo := some d.key, orderOnly := d.orderOnly, singleUse := d.singleUse }
            d.key (scanRule d.key (getRuleInfoForKey d.key s)) := by
  rw [scanLoop]
  cases h : request.inputRuleInfo with
  | some i => rfl
  | none =>
    simp only
    cases (s.rule request.ruleInfo).result.deps[request.inputIndex]? with
    | none => rfl
    | some d => rfl

theorem Sim.prepend {rules : List RuleSpec} {s s1 s' : State} {ms ms1 : MSt} {h' : Hand} {Post : MSt → Prop}
    {toks1 : List Tok} (he : Emits s toks1 s1) (hrun : trun (program rules) ms toks1 = some ms1)
    (hreg : RegMono s s1) (htg : ms1.m.target = ms.m.target) (h : Sim rules s1 ms1 s' h' Post) :
    Sim rules s ms s' h' Post := by
  intro hh
  obtain ⟨toks2, ms', a, b, c, d, e, f, g⟩ := h hh
  exact ⟨toks1 ++ toks2, ms', he.trans a, trun_append_some hrun b, c, d, fun k hk => e k (hreg k hk), f.trans htg, g⟩

theorem haltMono_modScanRecord (k : Key) (f : RuleScanRecord → RuleScanRecord) : HaltMono (modScanRecord k f) :=
  haltMono_of (fun hR => rs_modScanRecord hR k f)

theorem haltMono_afterDemand (fuel : Nat) (r : RuleScanRequest) (input : Key) : HaltMono (afterDemand fuel r input) := by
  intro s hs
  unfold afterDemand
  split
  · exact haltMono_emit _ _ (haltMono_all.2.2.1 _ _ s hs)
  · split
    · exact haltMono_all.2.2.2.1 fuel _ s hs
    · exact haltMono_all.2.2.1 _ _ s hs

theorem haltMono_afterScan (fuel : Nat) (r : RuleScanRequest) (input : Key) (b : Bool) :
    HaltMono (fun s => afterScan fuel r input (b, s)) := by
  intro s hs
  unfold afterScan
  simp only
  split
  · exact haltMono_modScanRecord _ _ s hs
  · have h2 := haltMono_all.2.1 input s hs
    split
    · exact h2
    · exact haltMono_afterDemand fuel r input _ h2

/-- the monitor's `demanded` for the input of the request in hand -/
theorem Rel.hand_demanded {rules : List RuleSpec} {s : State} {ms : MSt} {r : RuleScanRequest} {input : Key}
    (hr : Rel rules s ms { scan := [r] }) (hin : r.inputRuleInfo = some input) : demanded ms.m input = true := by
  obtain ⟨rk, rec, hlk, hsc, hrec, hstM⟩ := hr.hand_rule
  have hok := hr.scanOk r (mem_scanReqs_hand s r)
  obtain ⟨_, d, hd, hdk, _⟩ := hok.cached input hin
  obtain ⟨hdeps, _⟩ := hr.scanning_res hlk hsc
  rw [rule_of_lookup hlk] at hd
  have h3 : ms.m.scanned.any (fun a => ms.m.status a == .scanning && (ms.m.mem.res a).deps.any (fun d => d.key == input)) = true := by
    rw [List.any_eq_true]
    refine ⟨r.ruleInfo, hr.inScanned _ hstM, ?_⟩
    rw [hstM, hdeps]
    simp only [beq_self_eq_true, Bool.true_and, List.any_eq_true]
    exact ⟨d, List.mem_of_getElem? hd, by simp [hdk]⟩
  unfold demanded
  rw [h3]
  simp

/-- what `modScanRecord` does to a live record -/
theorem Rel.modScanRecord_eq {rules : List RuleSpec} {s : State} {ms : MSt} {h : Hand} (hr : Rel rules s ms h)
    {i : Key} (r : RuleScanRequest) (hs : (s.rule i).state = .isScanning) :
    ∃ ri rec, s.ruleInfos.lookup i = some ri ∧ ri.state = .isScanning ∧ ri.inProgressInfo = .pendingScanRecord rec ∧
      modScanRecord i (fun rec => { rec with deferredScanRequests := rec.deferredScanRequests ++ [r] }) s =
        s.setRule { ri with inProgressInfo := .pendingScanRecord (recDefer rec r) } := by
  cases hl : s.ruleInfos.lookup i with
  | none => simp [State.rule, hl] at hs
  | some ri =>
    have hri : s.rule i = ri := rule_of_lookup hl
    rw [hri] at hs
    obtain ⟨rec, hrec⟩ := hr.recordLive i ri hl hs
    refine ⟨ri, rec, rfl, hs, hrec, ?_⟩
    unfold modScanRecord State.modRule
    rw [hri]
    simp [RuleInfo.getPendingScanRecord, hrec, recDefer]

/-- tokens of a rule registration: the monitor keeps its target -/
def Tok.keepsTarget : Tok → Bool
  | .L _ => true
  | .G _ _ => true
  | .X => true
  | _ => false

theorem tstep_keepsTarget {P : Program} {ms ms' : MSt} {t : Tok} (ht : Tok.keepsTarget t = true)
    (h : tstep P ms t = some ms') : ms'.m.target = ms.m.target := by
  obtain ⟨m, pend⟩ := ms
  cases t <;> simp only [Tok.keepsTarget, Bool.false_eq_true] at ht
  case L k =>
    cases pend <;> simp [tstep, Tok.isS2, Tok.isReg, Tok.toEvent?, step] at h <;>
      (obtain ⟨_, h⟩ := h; subst h; rfl)
  case G k f =>
    cases pend <;> simp [tstep, Tok.isS2, Tok.isReg, Tok.toEvent?, step] at h <;>
      (obtain ⟨_, h⟩ := h; subst h; rfl)
  case X =>
    cases pend <;> simp [tstep, Tok.isS2, Tok.isReg, Tok.toEvent?, step] at h <;>
      (subst h; rfl)

theorem trun_keepsTarget {P : Program} : ∀ (toks : List Tok) (ms ms' : MSt), (∀ t ∈ toks, Tok.keepsTarget t = true) →
    trun P ms toks = some ms' → ms'.m.target = ms.m.target
  | [], ms, ms', _, h => by simp [trun] at h; subst h; rfl
  | t :: rest, ms, ms', ht, h => by
    simp only [trun] at h
    cases hts : tstep P ms t with
    | none => rw [hts] at h; simp at h
    | some ms1 =>
      rw [hts] at h; simp only [Option.bind_some] at h
      rw [trun_keepsTarget rest ms1 ms' (fun t' ht' => ht t' (by simp [ht'])) h]
      exact tstep_keepsTarget (ht t (by simp)) hts

theorem getRuleInfoForKey_regMono (k : Key) (s : State) (hdb : s.hasDB = true) : RegMono s (getRuleInfoForKey k s) := by
  intro k' h1
  unfold Registered at *
  rw [getRuleInfoForKey_lookup k s hdb]
  split
  · rfl
  · exact h1

/-- `Rel.getRule` with the two facts `Sim` needs on top: the target is kept, registrations only grow -/
theorem Rel.getRule' {rules : List RuleSpec} {s : State} {ms : MSt} {h : Hand}
    (hr : Rel rules s ms h) (hh : s.halted = false) (k : Key) :
    ∃ toks ms', Emits s toks (getRuleInfoForKey k s) ∧ trun (program rules) ms toks = some ms' ∧
      Rel rules (getRuleInfoForKey k s) ms' h ∧ ms'.pend = ms.pend ∧
      Registered (getRuleInfoForKey k s) k ∧ (getRuleInfoForKey k s).halted = false ∧
      ms'.m.target = ms.m.target ∧ RegMono s (getRuleInfoForKey k s) := by
  obtain ⟨toks, ms', he, hrun, hrel, hp, hreg, hh'⟩ := hr.getRule hh k
  refine ⟨toks, ms', he, hrun, hrel, hp, hreg, hh', ?_, getRuleInfoForKey_regMono k s hr.hasDB⟩
  apply trun_keepsTarget toks ms ms' ?_ hrun
  rcases getRuleInfoForKey_emits k s hr.hasDB hh with ⟨_, e⟩ | ⟨_, x1, x2, hx1, hx2, he2⟩
  · rw [e] at he
    have := Emits.inj he (Emits.refl s)
    subst this
    intro t ht; cases ht
  · have := Emits.inj he he2
    subst this
    intro t ht
    simp only [List.mem_append, List.mem_singleton] at ht
    rcases ht with ((ht | ht) | ht) | ht
    · subst ht; rfl
    · rcases hx1 with e | e <;> rw [e] at ht
      · cases ht
      · simp only [List.mem_singleton] at ht; subst ht; rfl
    · subst ht; rfl
    · rcases hx2 with e | e <;> rw [e] at ht
      · cases ht
      · simp only [List.mem_singleton] at ht; subst ht; rfl

/-- the loop statement for a given fuel (induction hypothesis of `scanLoop_sim`) -/
def ScanLoopAt (rules : List RuleSpec) (fuel : Nat) : Prop :=
  ∀ (s : State) (ms : MSt) (r : RuleScanRequest),
    Rel rules s ms { scan := [r] } → ms.pend = none → s.halted = false →
    Sim rules s ms (scanLoop fuel r s) {} (fun _ => True)

/-- the input of the request in hand is available (complete in this build) -/
theorem afterDemand_sim {rules : List RuleSpec} (hok : RulesOk rules) {fuel : Nat} (ih : ScanLoopAt rules fuel)
    {s : State} {ms : MSt} {r : RuleScanRequest} {input : Key}
    (hr : Rel rules s ms { scan := [r] }) (hp : ms.pend = none) (hh : s.halted = false)
    (hin : r.inputRuleInfo = some input) (hdone : isDone ms.m input = true) :
    Sim rules s ms (afterDemand fuel r input s) {} (fun _ => True) := by
  unfold afterDemand
  by_cases hc : (!r.orderOnly && decide ((s.rule r.ruleInfo).result.builtAt < (s.rule input).result.computedAt)) = true
  · rw [if_pos hc]
    simp only [Bool.and_eq_true, Bool.not_eq_true', decide_eq_true_eq] at hc
    exact finishScan_needs_sim rules hok s ms r input hr hp hh hin hc.1 hdone hc.2
  · rw [if_neg hc]
    have hfresh : r.orderOnly = true ∨ ¬ (s.rule r.ruleInfo).result.builtAt < (s.rule input).result.computedAt := by
      simp only [Bool.and_eq_true, Bool.not_eq_true', decide_eq_true_eq, not_and] at hc
      cases hoo : r.orderOnly with
      | true => exact Or.inl rfl
      | false => exact Or.inr (hc hoo)
    by_cases hl : r.inputIndex + 1 = (s.rule r.ruleInfo).result.deps.length
    · have hb : (r.inputIndex + 1 != (s.rule r.ruleInfo).result.deps.length) = false := by simpa using hl
      rw [hb]
      simp only [Bool.false_eq_true, if_false]
      exact finishScan_fresh_sim rules hok s ms r input hr hp hh hin hdone hfresh hl
    · have hb : (r.inputIndex + 1 != (s.rule r.ruleInfo).result.deps.length) = true := by simpa using hl
      rw [hb]
      simp only [if_true]
      exact ih s ms _ (scanAdvance_sim rules s ms r input hr hin hdone hfresh hl) hp hh

/-- the loop body once the request in hand points at its input -/
theorem afterScan_sim (hdem : Todo_demandRule) {rules : List RuleSpec} (hok : RulesOk rules) {fuel : Nat}
    (ih : ScanLoopAt rules fuel) {s : State} {ms : MSt} {r : RuleScanRequest} {input : Key}
    (hr : Rel rules s ms { scan := [r] }) (hp : ms.pend = none) (hh : s.halted = false)
    (hin : r.inputRuleInfo = some input) :
    Sim rules s ms (afterScan fuel r input (scanRule input s)) {} (fun _ => True) := by
  intro hfin
  have hokr := hr.scanOk r (mem_scanReqs_hand s r)
  have hreg_in : Registered s input := (hokr.cached input hin).1
  have hinhand : InHand { scan := [r] } s input := Or.inl ⟨r, by simp, hin⟩
  have hsim1 := scanRule_sim rules hok s ms { scan := [r] } input hr hp hh hreg_in hinhand (fun _ => hr.hand_demanded hin)
  generalize scanRule input s = p at hsim1 hfin
  obtain ⟨b, s2⟩ := p
  simp only at hsim1
  have hh2 : s2.halted = false := (haltMono_afterScan fuel r input b).of_result hfin
  obtain ⟨toks1, ms2, he1, hrun1, hr2, hp2, hreg2, htg2, _, hsc_t, hsc_f⟩ := hsim1 hh2
  refine Sim.prepend he1 hrun1 hreg2 htg2 ?_ hfin
  unfold afterScan
  simp only
  cases b with
  | false =>
    simp only [Bool.not_false, if_true]
    obtain ⟨ri, rec, hl, hs, hrec, heq⟩ := hr2.modScanRecord_eq r (hsc_f rfl)
    rw [heq]
    intro _
    exact ⟨[], ms2, Emits.refl _, rfl, hr2.deferAtRecord hin hl hs hrec, hp2, setRule_regMono s2 _, rfl, trivial⟩
  | true =>
    simp only [Bool.not_true, Bool.false_eq_true, if_false]
    have hsim2 := hdem rules hok s2 ms2 { scan := [r] } input rfl hr2 hp2 hh2 rfl (hreg2 _ hreg_in) (hsc_t rfl)
    intro hfin2
    generalize demandRule input s2 = q at hsim2 hfin2
    obtain ⟨c, s3⟩ := q
    simp only at hsim2 hfin2
    cases c with
    | false =>
      simp only [Bool.not_false, if_true] at hfin2 ⊢
      have hh3 : s3.halted = false := hfin2
      obtain ⟨toks2, ms3, he2, hrun2, hr3, hp3, hreg3, htg3, _, hd_f, _⟩ := hsim2 hh3
      obtain ⟨t, hlt⟩ := Option.isSome_iff_exists.1 (hd_f rfl)
      have e : s3.modTask input (fun t => { t with deferredScanRequests := t.deferredScanRequests ++ [r] }) =
          s3.setTask { t with deferredScanRequests := t.deferredScanRequests ++ [r] } := by
        unfold State.modTask; rw [task_of_lookup hlt]
      rw [e]
      exact ⟨toks2, ms3, he2, hrun2, hr3.deferAtTask hin hlt, hp3, hreg3, htg3, trivial⟩
    | true =>
      simp only [Bool.not_true, Bool.false_eq_true, if_false] at hfin2 ⊢
      have hh3 : s3.halted = false := (haltMono_afterDemand fuel r input).of_result hfin2
      obtain ⟨toks2, ms3, he2, hrun2, hr3, hp3, hreg3, htg3, hd_t, _, _⟩ := hsim2 hh3
      exact Sim.prepend he2 hrun2 hreg3 htg3 (afterDemand_sim hok ih hr3 hp3 hh3 hin (hd_t rfl)) hfin2

theorem getRuleInfoForKey_rule_of_registered (k : Key) (s : State) (hdb : s.hasDB = true) {a : Key} (ha : Registered s a) :
    (getRuleInfoForKey k s).rule a = s.rule a := by
  unfold State.rule
  rw [getRuleInfoForKey_lookup k s hdb]
  split
  · rename_i h
    obtain ⟨e, hn⟩ := h
    subst e
    simp [Registered, hn] at ha
  · rfl

theorem scanLoop_at (hdem : Todo_demandRule) {rules : List RuleSpec} (hok : RulesOk rules) :
    ∀ fuel, ScanLoopAt rules fuel
  | 0 => by
    intro s ms r _ _ _ hfin
    rw [scanLoop, halt_halted] at hfin
    cases hfin
  | fuel + 1 => by
    intro s ms r hr hp hh
    have ih := scanLoop_at hdem hok fuel
    rw [scanLoop_succ]
    have hokr := hr.scanOk r (mem_scanReqs_hand s r)
    cases hin : r.inputRuleInfo with
    | some i =>
      simp only
      exact afterScan_sim hdem hok ih hr hp hh hin
    | none =>
      simp only
      obtain ⟨d, hd⟩ : ∃ d, (s.rule r.ruleInfo).result.deps[r.inputIndex]? = some d :=
        ⟨_, List.getElem?_eq_getElem hokr.inBounds⟩
      rw [hd]
      simp only
      obtain ⟨toks, ms1, he, hrun, hrel, hp1, hreg, hh1, htg, hmono⟩ := hr.getRule' hh d.key
      have hrule := getRuleInfoForKey_rule_of_registered d.key s hr.hasDB hokr.reg
      have hlook := scanLookup_sim rules _ ms1 r d hrel hin (by rw [hrule]; exact hd) hreg
      exact Sim.prepend he hrun hmono htg (afterScan_sim hdem hok ih hlook (hp1.trans hp) hh1 rfl)

/-- **`Todo_scanLoop`** (given `Todo_demandRule`) -/
theorem scanLoop_sim (hdem : Todo_demandRule) : Todo_scanLoop :=
  fun _ hok fuel s ms r hr hp hh => scanLoop_at hdem hok fuel s ms r hr hp hh

/-! ## 5. `scanRequestsLoop` -/

theorem scanRequestsLoop_succ (fuel : Nat) (w : Bool) (s : State) :
    scanRequestsLoop (fuel + 1) w s =
      match s.ruleInfosToScan.getLast? with
      | none => (w, s)
      | some request =>
        scanRequestsLoop fuel true (processRuleScanRequest request { s with ruleInfosToScan := s.ruleInfosToScan.dropLast }) := by
  rw [scanRequestsLoop]
  rfl

/-- popping the scan queue = taking the last request in hand -/
theorem Rel.popScan {rules : List RuleSpec} {s : State} {ms : MSt} {request : RuleScanRequest}
    (hr : Rel rules s ms {}) (hq : s.ruleInfosToScan.getLast? = some request) :
    Rel rules { s with ruleInfosToScan := s.ruleInfosToScan.dropLast } ms { scan := [request] } := by
  obtain ⟨ys, hys⟩ := List.getLast?_eq_some_iff.1 hq
  have hdl : s.ruleInfosToScan.dropLast = ys := by rw [hys]; simp
  rw [hdl]
  refine hr.reshuffle (sc := []) (sc' := [request]) (q' := ys) ?_ ?_ ?_
  · intro k
    rw [hys]
    simp only [List.filter_append, List.length_append, List.nil_append]
    omega
  · intro x hx
    left
    rw [hys]
    simp only [List.mem_append, List.mem_singleton, List.nil_append] at hx ⊢
    rcases hx with h | h
    · exact Or.inr h
    · exact Or.inl h
  · intro i ri _ _ ⟨x, hx, hi⟩
    refine ⟨x, ?_, hi⟩
    rw [hys] at hx
    simp only [List.mem_append, List.mem_singleton, List.nil_append] at hx ⊢
    rcases hx with h | h
    · exact Or.inr h
    · exact Or.inl h

/-- **`Todo_scanRequestsLoop`** (given `Todo_demandRule`) -/
theorem scanRequestsLoop_sim (hdem : Todo_demandRule) : Todo_scanRequestsLoop := by
  intro rules hok fuel
  induction fuel with
  | zero =>
    intro w s ms _ _ _ hfin
    rw [scanRequestsLoop] at hfin
    simp only [halt_halted] at hfin
    cases hfin
  | succ fuel ih =>
    intro w s ms hr hp hh
    rw [scanRequestsLoop_succ]
    cases hq : s.ruleInfosToScan.getLast? with
    | none =>
      simp only
      intro _
      exact ⟨[], ms, Emits.refl s, rfl, hr, hp, fun _ h => h, rfl, List.getLast?_eq_none_iff.1 hq⟩
    | some request =>
      simp only
      have hpop := hr.popScan hq
      have hsc := (hpop.scanOk request (mem_scanReqs_hand _ request)).scanning
      have hproc : processRuleScanRequest request { s with ruleInfosToScan := s.ruleInfosToScan.dropLast } =
          scanLoop scanFuel request { s with ruleInfosToScan := s.ruleInfosToScan.dropLast } := by
        unfold processRuleScanRequest
        simp [RuleInfo.isScanning, hsc]
      rw [hproc]
      have hsim := scanLoop_sim hdem rules hok scanFuel _ ms request hpop hp hh
      intro hfin
      have hh1 := (haltMono_of (fun hR => rs_scanRequestsLoop hR fuel true)).of_result hfin
      obtain ⟨toks1, ms1, he1, hrun1, hr1, hp1, hreg1, htg1, _⟩ := hsim hh1
      exact Sim.prepend (s := s) he1 hrun1 hreg1 htg1 (ih true _ ms1 hr1 hp1 hh1) hfin

/-! ## 6. the loop-level facts `Aux` (wave 2) -/

/-- `demandRule` preserves `Aux` (proved by the prover of `demandRule`; hypothesis here) -/
def DemandRuleAux : Prop :=
  ∀ rules, RulesOk rules → ∀ (s : State) (ms : MSt) (h : Hand) (k : Key),
    h.dec = [] → Rel rules s ms h → ms.pend = none → s.halted = false → h.issuing = none → Registered s k →
    isScanned s (s.rule k) = true → (demandRule k s).2.halted = false →
    ∀ key, Aux key s h → Aux key (demandRule k s).2 h

/-- **How `Aux` moves**: tasks keep their wait counts, no rule becomes waiting, the ready queue and the input queue
only grow, the requested key stays non-idle. -/
theorem Aux.scanTransfer {key : Key} {s s' : State} {h h' : Hand} (ha : Aux key s h)
    (htask : ∀ a t', s'.taskInfos.lookup a = some t' → ∃ t, s.taskInfos.lookup a = some t ∧ t.waitCount = t'.waitCount)
    (hwait : ∀ a, (s'.rule a).state = .inProgressWaiting → (s.rule a).state = .inProgressWaiting)
    (hready : ∀ a, a ∈ s.readyTaskInfos → a ∈ s'.readyTaskInfos)
    (hiss : h'.issuingFor = h.issuingFor)
    (hstat : statusOf s none key ≠ .idle → statusOf s' none key ≠ .idle)
    (hinp : ∀ r ∈ h.inp ++ s.inputRequests, r ∈ h'.inp ++ s'.inputRequests) : Aux key s' h' where
  readyZero := by
    intro a t' h1 h2 h3
    obtain ⟨t, h4, h5⟩ := htask a t' h1
    rcases ha.readyZero a t h4 (hwait a h2) (h5.trans h3) with h6 | h6
    · exact Or.inl (hready a h6)
    · exact Or.inr (hiss.trans h6)
  rootSeen := by
    rcases ha.rootSeen with h1 | ⟨r, h1, h2⟩
    · exact Or.inl (hstat h1)
    · exact Or.inr ⟨r, hinp r h1, h2⟩

/-- `Aux` does not read the scan requests in hand -/
theorem Aux.scanHand {key : Key} {s : State} {h h' : Hand} (ha : Aux key s h) (hinp : h'.inp = h.inp)
    (hiss : h'.issuingFor = h.issuingFor) : Aux key s h' :=
  ha.scanTransfer (fun _ t' h1 => ⟨t', h1, rfl⟩) (fun _ h1 => h1) (fun _ h1 => h1) hiss (fun h1 => h1)
    (fun r hr => by rw [hinp]; exact hr)

/-- the recorder does not touch what `Aux` reads -/
theorem Aux.scanSame {key : Key} {s s' : State} {h : Hand} (hs : SameEngine s s') (ha : Aux key s h) : Aux key s' h := by
  refine ha.scanTransfer (fun _ t' h1 => ⟨t', by rw [← hs.taskInfos]; exact h1, rfl⟩) (fun a h1 => by rw [← rule_same hs a]; exact h1)
    (fun a h1 => by rw [hs.readyTaskInfos]; exact h1) rfl ?_ (fun r hr => by rw [hs.inputRequests]; exact hr)
  have : statusOf s' none key = statusOf s none key := by unfold statusOf; rw [hs.ruleInfos, hs.currentEpoch]
  rw [this]; exact id

/-- **one rule is replaced by a rule that is scanning or sits on a scan verdict** (`scanRule`, `finishScanRequest`,
`modScanRecord`); the input queue may grow -/
theorem Aux.scan_of_rule_update {key : Key} {s s' : State} {h : Hand} {k : Key} {ri' : RuleInfo} (ha : Aux key s h)
    (hlk : ∀ k', s'.ruleInfos.lookup k' = if k' = k then some ri' else s.ruleInfos.lookup k')
    (hst : ri'.state = .needsToRun ∨ ri'.state = .doesNotNeedToRun ∨ ri'.state = .isScanning)
    (hepoch : s'.currentEpoch = s.currentEpoch)
    (htasks : s'.taskInfos = s.taskInfos) (hready : s'.readyTaskInfos = s.readyTaskInfos)
    (hinp : ∀ r ∈ s.inputRequests, r ∈ s'.inputRequests) : Aux key s' h := by
  refine ha.scanTransfer (fun _ t' h1 => ⟨t', by rw [← htasks]; exact h1, rfl⟩) ?_ (fun a h1 => by rw [hready]; exact h1) rfl ?_ ?_
  · intro a h1
    unfold State.rule at h1 ⊢
    rw [hlk] at h1
    by_cases e : a = k
    · simp only [e, if_true, Option.getD_some] at h1
      rw [h1] at hst
      rcases hst with h | h | h <;> cases h
    · simp only [e, if_false] at h1; exact h1
  · by_cases e : key = k
    · intro _
      unfold statusOf
      rw [hlk]
      simp only [e, if_true]
      rcases hst with h | h | h <;> simp [h]
    · have : statusOf s' none key = statusOf s none key := by
        unfold statusOf; rw [hlk, hepoch]; simp only [e, if_false]
      rw [this]; exact id
  · intro r hr
    rcases List.mem_append.1 hr with h1 | h1
    · exact List.mem_append_left _ h1
    · exact List.mem_append_right _ (hinp r h1)

theorem Aux.scan_setRule_verdict {key : Key} {s : State} {h : Hand} {ri' : RuleInfo} (ha : Aux key s h)
    (hst : ri'.state = .needsToRun ∨ ri'.state = .doesNotNeedToRun ∨ ri'.state = .isScanning) :
    Aux key (s.setRule ri') h :=
  ha.scan_of_rule_update (k := ri'.key) (fun k' => setRule_lookup s ri' k') hst rfl rfl rfl (fun _ h1 => h1)

/-- **1. `scanRule` preserves `Aux`** (no hypothesis needed: `scanRule` only moves rule `k` to `IsScanning` /
`NeedsToRun` / `DoesNotNeedToRun` and appends to the scan queue) -/
theorem scanRule_aux (key k : Key) (s : State) (h : Hand) (ha : Aux key s h) : Aux key (scanRule k s).2 h := by
  rw [scanRule_eq]
  simp only
  split
  · exact ha
  split
  · exact ha
  split
  · exact (ha.scan_setRule_verdict (Or.inl rfl)).scanSame (emitAll_same _ _)
  split
  · exact (ha.scan_setRule_verdict (Or.inl rfl)).scanSame (emitAll_same _ _)
  split
  · exact (ha.scan_setRule_verdict (Or.inl rfl)).scanSame (emitAll_same _ _)
  split
  · exact (ha.scan_setRule_verdict (Or.inr (Or.inl rfl))).scanSame (emitAll_same _ _)
  · refine Aux.scanSame (emitAll_same _ _) ?_
    exact ha.scan_of_rule_update (k := (s.rule k).key) (ri' := { scanClean (s.rule k) with state := .isScanning, inProgressInfo := .pendingScanRecord {} })
      (fun k' => setRule_lookup s _ k') (Or.inr (Or.inr rfl)) rfl rfl rfl (fun _ h1 => h1)

/-- `getRuleInfoForKey` preserves `Aux` (a fresh rule is `Incomplete`) -/
theorem getRuleInfoForKey_aux (key k : Key) (s : State) (h : Hand) (hdb : s.hasDB = true) (ha : Aux key s h) :
    Aux key (getRuleInfoForKey k s) h := by
  have hs := getRuleInfoForKey_same k s
  have hlk := getRuleInfoForKey_lookup k s hdb
  refine ha.scanTransfer (fun _ t' h1 => ⟨t', by rw [← hs.taskInfos]; exact h1, rfl⟩) ?_
    (fun a h1 => by rw [hs.readyTaskInfos]; exact h1) rfl ?_ (fun r hr => by rw [hs.inputRequests]; exact hr)
  · intro a h1
    unfold State.rule at h1 ⊢
    rw [hlk] at h1
    split at h1
    · simp [freshRule] at h1
    · exact h1
  · intro h1
    by_cases hc : key = k ∧ s.ruleInfos.lookup k = none
    · exfalso
      apply h1
      unfold statusOf
      rw [hc.1, hc.2]
    · unfold statusOf at h1 ⊢
      rw [hlk, hs.currentEpoch, if_neg hc]
      exact h1

/-- **2a. `finishScanRequest` preserves `Aux`** (both verdicts; a `BAD` halt changes nothing) -/
theorem finishScanRequest_aux (key k : Key) (st : StateKind) (s : State) (h : Hand)
    (hst : st = .needsToRun ∨ st = .doesNotNeedToRun) (ha : Aux key s h) : Aux key (finishScanRequest k st s) h := by
  unfold finishScanRequest
  split
  · exact ha.scanSame (halt_same _ _)
  · rename_i rec _
    refine ha.scan_of_rule_update (k := (s.rule k).key) (ri' := { s.rule k with inProgressInfo := .null, state := st })
      (fun k' => ?_) ?_ rfl rfl rfl (fun r hr => List.mem_append_left _ hr)
    · exact setRule_lookup { s with ruleInfosToScan := s.ruleInfosToScan ++ rec.deferredScanRequests,
                                    inputRequests := s.inputRequests ++ rec.pausedInputRequests } _ k'
    · rcases hst with e | e
      · exact Or.inl e
      · exact Or.inr (Or.inl e)

/-- **2b. parking the request at the scan record of its scanning input preserves `Aux`** -/
theorem deferAtRecord_aux {key : Key} {s : State} {h : Hand} {ri : RuleInfo} {rec' : RuleScanRecord}
    (hs : ri.state = .isScanning) (ha : Aux key s h) :
    Aux key (s.setRule { ri with inProgressInfo := .pendingScanRecord rec' }) h :=
  ha.scan_setRule_verdict (Or.inr (Or.inr hs))

/-- **2c. parking the request at the task of its input preserves `Aux`** -/
theorem deferAtTask_aux {key : Key} {s : State} {h : Hand} {i : Key} {t : TaskInfo} {l : List RuleScanRequest}
    (hl : s.taskInfos.lookup i = some t) (hk : t.forRuleInfo = i) (ha : Aux key s h) :
    Aux key (s.setTask { t with deferredScanRequests := l }) h := by
  refine ha.scanTransfer ?_ (fun _ h1 => h1) (fun _ h1 => h1) rfl (fun h1 => h1) (fun _ h1 => h1)
  intro a t' h1
  rw [setTask_lookup] at h1
  by_cases e : a = i
  · subst e
    simp only [hk, if_true, Option.some.injEq] at h1
    subst h1
    exact ⟨t, hl, rfl⟩
  · simp only [hk, e, if_false] at h1
    exact ⟨t', h1, rfl⟩

/-- the `Aux` statement of `scanLoop` for a given fuel -/
def ScanLoopAuxAt (rules : List RuleSpec) (key : Key) (fuel : Nat) : Prop :=
  ∀ (s : State) (ms : MSt) (r : RuleScanRequest),
    Rel rules s ms { scan := [r] } → ms.pend = none → s.halted = false → (scanLoop fuel r s).halted = false →
    Aux key s { scan := [r] } → Aux key (scanLoop fuel r s) {}

theorem afterDemand_aux {rules : List RuleSpec} {key : Key} {fuel : Nat} (ih : ScanLoopAuxAt rules key fuel)
    {s : State} {ms : MSt} {r : RuleScanRequest} {input : Key}
    (hr : Rel rules s ms { scan := [r] }) (hp : ms.pend = none) (hh : s.halted = false)
    (hin : r.inputRuleInfo = some input) (hdone : isDone ms.m input = true)
    (hfin : (afterDemand fuel r input s).halted = false) (ha : Aux key s { scan := [r] }) :
    Aux key (afterDemand fuel r input s) {} := by
  have ha0 : Aux key s {} := ha.scanHand rfl rfl
  unfold afterDemand at hfin ⊢
  by_cases hc : (!r.orderOnly && decide ((s.rule r.ruleInfo).result.builtAt < (s.rule input).result.computedAt)) = true
  · rw [if_pos hc]
    exact (finishScanRequest_aux key _ _ s {} (Or.inl rfl) ha0).scanSame (emit_same _ _)
  · rw [if_neg hc] at hfin ⊢
    have hfresh : r.orderOnly = true ∨ ¬ (s.rule r.ruleInfo).result.builtAt < (s.rule input).result.computedAt := by
      simp only [Bool.and_eq_true, Bool.not_eq_true', decide_eq_true_eq, not_and] at hc
      cases hoo : r.orderOnly with
      | true => exact Or.inl rfl
      | false => exact Or.inr (hc hoo)
    by_cases hl : r.inputIndex + 1 = (s.rule r.ruleInfo).result.deps.length
    · have hb : (r.inputIndex + 1 != (s.rule r.ruleInfo).result.deps.length) = false := by simpa using hl
      rw [hb]
      simp only [Bool.false_eq_true, if_false]
      exact finishScanRequest_aux key _ _ s {} (Or.inr rfl) ha0
    · have hb : (r.inputIndex + 1 != (s.rule r.ruleInfo).result.deps.length) = true := by simpa using hl
      rw [hb] at hfin ⊢
      simp only [if_true] at hfin ⊢
      exact ih s ms _ (scanAdvance_sim rules s ms r input hr hin hdone hfresh hl) hp hh hfin (ha.scanHand rfl rfl)

theorem afterScan_aux (hdem : Todo_demandRule) (hdaux : DemandRuleAux) {rules : List RuleSpec} (hok : RulesOk rules)
    {key : Key} {fuel : Nat} (ih : ScanLoopAuxAt rules key fuel) {s : State} {ms : MSt} {r : RuleScanRequest} {input : Key}
    (hr : Rel rules s ms { scan := [r] }) (hp : ms.pend = none) (hh : s.halted = false)
    (hin : r.inputRuleInfo = some input)
    (hfin : (afterScan fuel r input (scanRule input s)).halted = false) (ha : Aux key s { scan := [r] }) :
    Aux key (afterScan fuel r input (scanRule input s)) {} := by
  have hokr := hr.scanOk r (mem_scanReqs_hand s r)
  have hreg_in : Registered s input := (hokr.cached input hin).1
  have hinhand : InHand { scan := [r] } s input := Or.inl ⟨r, by simp, hin⟩
  have hsim1 := scanRule_sim rules hok s ms { scan := [r] } input hr hp hh hreg_in hinhand (fun _ => hr.hand_demanded hin)
  have ha2 := scanRule_aux key input s _ ha
  generalize scanRule input s = p at hsim1 hfin ha2
  obtain ⟨b, s2⟩ := p
  simp only at hsim1 ha2
  have hh2 : s2.halted = false := (haltMono_afterScan fuel r input b).of_result hfin
  obtain ⟨_, ms2, _, _, hr2, hp2, hreg2, _, _, hsc_t, hsc_f⟩ := hsim1 hh2
  unfold afterScan at hfin ⊢
  simp only at hfin ⊢
  cases b with
  | false =>
    simp only [Bool.not_false, if_true]
    obtain ⟨ri, rec, _, hs, _, heq⟩ := hr2.modScanRecord_eq r (hsc_f rfl)
    rw [heq]
    exact (deferAtRecord_aux hs ha2).scanHand rfl rfl
  | true =>
    simp only [Bool.not_true, Bool.false_eq_true, if_false] at hfin ⊢
    have hsim2 := hdem rules hok s2 ms2 { scan := [r] } input rfl hr2 hp2 hh2 rfl (hreg2 _ hreg_in) (hsc_t rfl)
    have haux3 := fun hh3 => hdaux rules hok s2 ms2 { scan := [r] } input rfl hr2 hp2 hh2 rfl (hreg2 _ hreg_in) (hsc_t rfl) hh3 key ha2
    generalize demandRule input s2 = q at hsim2 hfin haux3
    obtain ⟨c, s3⟩ := q
    simp only at hsim2 hfin haux3
    cases c with
    | false =>
      simp only [Bool.not_false, if_true] at hfin ⊢
      have hh3 : s3.halted = false := hfin
      obtain ⟨_, ms3, _, _, hr3, _, _, _, _, hd_f, _⟩ := hsim2 hh3
      obtain ⟨t, hlt⟩ := Option.isSome_iff_exists.1 (hd_f rfl)
      have e : s3.modTask input (fun t => { t with deferredScanRequests := t.deferredScanRequests ++ [r] }) =
          s3.setTask { t with deferredScanRequests := t.deferredScanRequests ++ [r] } := by
        unfold State.modTask; rw [task_of_lookup hlt]
      rw [e]
      exact (deferAtTask_aux hlt (hr3.taskOk input t hlt).forRule (haux3 hh3)).scanHand rfl rfl
    | true =>
      simp only [Bool.not_true, Bool.false_eq_true, if_false] at hfin ⊢
      have hh3 : s3.halted = false := (haltMono_afterDemand fuel r input).of_result hfin
      obtain ⟨_, ms3, _, _, hr3, hp3, _, _, hd_t, _, _⟩ := hsim2 hh3
      exact afterDemand_aux ih hr3 hp3 hh3 hin (hd_t rfl) hfin (haux3 hh3)

theorem scanLoop_aux_at (hdem : Todo_demandRule) (hdaux : DemandRuleAux) {rules : List RuleSpec} (hok : RulesOk rules)
    (key : Key) : ∀ fuel, ScanLoopAuxAt rules key fuel
  | 0 => by
    intro s ms r _ _ _ hfin
    rw [scanLoop, halt_halted] at hfin
    cases hfin
  | fuel + 1 => by
    intro s ms r hr hp hh hfin ha
    have ih := scanLoop_aux_at hdem hdaux hok key fuel
    rw [scanLoop_succ] at hfin ⊢
    have hokr := hr.scanOk r (mem_scanReqs_hand s r)
    cases hin : r.inputRuleInfo with
    | some i =>
      rw [hin] at hfin
      simp only at hfin ⊢
      exact afterScan_aux hdem hdaux hok ih hr hp hh hin hfin ha
    | none =>
      rw [hin] at hfin
      simp only at hfin ⊢
      obtain ⟨d, hd⟩ : ∃ d, (s.rule r.ruleInfo).result.deps[r.inputIndex]? = some d :=
        ⟨_, List.getElem?_eq_getElem hokr.inBounds⟩
      rw [hd] at hfin ⊢
      simp only at hfin ⊢
      obtain ⟨_, ms1, _, _, hrel, hp1, hreg, hh1, _, _⟩ := hr.getRule' hh d.key
      have hrule := getRuleInfoForKey_rule_of_registered d.key s hr.hasDB hokr.reg
      have hlook := scanLookup_sim rules _ ms1 r d hrel hin (by rw [hrule]; exact hd) hreg
      have ha1 := (getRuleInfoForKey_aux key d.key s _ hr.hasDB ha).scanHand
        (h' := { scan := [{ r with inputRuleInfo := some d.key, orderOnly := d.orderOnly, singleUse := d.singleUse }] }) rfl rfl
      exact afterScan_aux hdem hdaux hok ih hlook (hp1.trans hp) hh1 rfl hfin ha1

/-- **2. `scanLoop` preserves `Aux`** -/
theorem scanLoop_aux (hdem : Todo_demandRule) (hdaux : DemandRuleAux) {rules : List RuleSpec} (hok : RulesOk rules)
    (key : Key) (fuel : Nat) (s : State) (ms : MSt) (r : RuleScanRequest) :
    Rel rules s ms { scan := [r] } → ms.pend = none → s.halted = false → (scanLoop fuel r s).halted = false →
    Aux key s { scan := [r] } → Aux key (scanLoop fuel r s) {} :=
  scanLoop_aux_at hdem hdaux hok key fuel s ms r

/-- **3. `scanRequestsLoop` preserves `Aux`** -/
theorem scanRequestsLoop_aux (hdem : Todo_demandRule) {rules : List RuleSpec} (hok : RulesOk rules) (key : Key) :
    ∀ (fuel : Nat) (w : Bool) (s : State) (ms : MSt),
      Rel rules s ms {} → ms.pend = none → s.halted = false → (scanRequestsLoop fuel w s).2.halted = false →
      DemandRuleAux → Aux key s {} → Aux key (scanRequestsLoop fuel w s).2 {} := by
  intro fuel
  induction fuel with
  | zero =>
    intro w s ms _ _ _ hfin
    rw [scanRequestsLoop] at hfin
    simp only [halt_halted] at hfin
    cases hfin
  | succ fuel ih =>
    intro w s ms hr hp hh hfin hdaux ha
    rw [scanRequestsLoop_succ] at hfin ⊢
    cases hq : s.ruleInfosToScan.getLast? with
    | none => exact ha
    | some request =>
      rw [hq] at hfin
      simp only at hfin ⊢
      have hpop := hr.popScan hq
      have hsc := (hpop.scanOk request (mem_scanReqs_hand _ request)).scanning
      have hproc : processRuleScanRequest request { s with ruleInfosToScan := s.ruleInfosToScan.dropLast } =
          scanLoop scanFuel request { s with ruleInfosToScan := s.ruleInfosToScan.dropLast } := by
        unfold processRuleScanRequest
        simp [RuleInfo.isScanning, hsc]
      rw [hproc] at hfin ⊢
      have hsim := scanLoop_sim hdem rules hok scanFuel _ ms request hpop hp hh
      have hh1 := (haltMono_of (fun hR => rs_scanRequestsLoop hR fuel true)).of_result hfin
      obtain ⟨_, ms1, _, _, hr1, hp1, _, _, _⟩ := hsim hh1
      have hapop : Aux key { s with ruleInfosToScan := s.ruleInfosToScan.dropLast } { scan := [request] } :=
        ⟨ha.readyZero, ha.rootSeen⟩
      have ha1 := scanLoop_aux hdem hdaux hok key scanFuel _ ms request hpop hp hh hh1 hapop
      exact ih true _ ms1 hr1 hp1 hh1 hfin hdaux ha1

end LLBuild.Refine
