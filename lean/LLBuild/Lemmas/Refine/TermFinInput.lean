/-
IM3 — termination / no-stall, section C (finished inputs): `finishedInputStep`, `finishedInputsLoop`
(design: notes/REFINE.md §8; definitions: `Term0.lean`).
* `PhiSame s s'`: the parts of the engine the potential `Phi` and `ClosedU` read are the same (`SameEngine`, a task record
  replaced in place with the same `done` / `issuedReqs` / waiters, the ready queue) — `Phi_same_fininput`, `ClosedU_same`;
* (T1) `finishedInputStep_nohalt`, `finishedInputsLoop_nohalt`: `BAD waitCount-underflow` and
  `BAD finished-dummy-request` are excluded from `Rel` (`TaskOk.waitCount` counts the request in hand,
  `Rel.dummyUnproc`), `issue` does not halt (`issue_run`, Demand.lean);
* (T2) `finishedInputStep_term` (`Phi` drops by 1: the finished request in hand weighs 1 and disappears; setting `recv`,
  the `issuing` mark, `waitCount` and the ready queue weigh nothing) and `finishedInputsLoop_term`, both under the
  hypothesis `IssueTerm` (the T2 statement of `DslTask::issue`, to be discharged by the prover of `demandRule`).
-/
import LLBuild.Lemmas.Refine.FinInput
import LLBuild.Lemmas.Refine.Demand
import LLBuild.Lemmas.Refine.Term0

namespace LLBuild.Refine
open LLBuild.Engine LLBuild.Engine.DSL LLBuild.EngineImpl

/-! ## what `Phi` and `ClosedU` read -/

/-- the two engine states agree on everything the potential and the closedness of the universe read -/
structure PhiSame (s s' : State) : Prop where
  ruleInfos : s'.ruleInfos = s.ruleInfos
  epoch : s'.currentEpoch = s.currentEpoch
  store : s'.store = s.store
  inputRequests : s'.inputRequests = s.inputRequests
  ruleInfosToScan : s'.ruleInfosToScan = s.ruleInfosToScan
  finishedInputRequests : s'.finishedInputRequests = s.finishedInputRequests
  done : ∀ k, (s'.task k).done = (s.task k).done
  issuedLen : ∀ k, (s'.task k).issuedReqs.length = (s.task k).issuedReqs.length
  requestedBy : requestedByAll s' = requestedByAll s
  deferred : s'.taskInfos.flatMap (fun p => p.2.deferredScanRequests) = s.taskInfos.flatMap (fun p => p.2.deferredScanRequests)

theorem PhiSame.of_same {s s' : State} (h : SameEngine s s') : PhiSame s s' :=
  { ruleInfos := h.ruleInfos, epoch := h.currentEpoch, store := h.store, inputRequests := h.inputRequests,
    ruleInfosToScan := h.ruleInfosToScan, finishedInputRequests := h.finishedInputRequests,
    done := fun k => by unfold State.task; rw [h.taskInfos],
    issuedLen := fun k => by unfold State.task; rw [h.taskInfos],
    requestedBy := by unfold requestedByAll; rw [h.taskInfos],
    deferred := by rw [h.taskInfos] }

/-- a task record replaced in place by one with the same completion flag, issued requests and waiters; any ready queue -/
theorem PhiSame.setTask {s : State} {a : Key} {t t' : TaskInfo} (ready' : List Key)
    (hl : s.taskInfos.lookup a = some t) (hfor : t'.forRuleInfo = a) (hd : t'.done = t.done)
    (hi : t'.issuedReqs = t.issuedReqs) (hrb : t'.requestedBy = t.requestedBy)
    (hds : t'.deferredScanRequests = t.deferredScanRequests) : PhiSame s (stepState s t' ready') := by
  have htask : ∀ k, (stepState s t' ready').task k = if k = a then t' else s.task k := by
    intro k
    show (s.setTask t').task k = _
    rw [setTask_task, hfor]
  have hta : s.task a = t := task_of_lookup hl
  refine { ruleInfos := rfl, epoch := rfl, store := rfl, inputRequests := rfl, ruleInfosToScan := rfl,
           finishedInputRequests := rfl, done := ?_, issuedLen := ?_, requestedBy := ?_, deferred := ?_ }
  · intro k
    rw [htask]
    by_cases e : k = a
    · simp only [e, if_true]; rw [hd, hta]
    · simp [e]
  · intro k
    rw [htask]
    by_cases e : k = a
    · simp only [e, if_true]; rw [hi, hta]
    · simp [e]
  · exact setTask_flatMap (fun t => t.requestedBy) hl hfor hrb
  · exact setTask_flatMap (fun t => t.deferredScanRequests) hl hfor hds

section same
variable {s s' : State} (h : PhiSame s s')
include h

theorem phase_same : phase s' = phase s := by
  funext k
  unfold phase
  rw [h.ruleInfos, h.epoch, h.done k]

theorem deps0_same : deps0 s' = deps0 s := by
  funext k
  unfold deps0
  rw [h.ruleInfos, h.store]

theorem ruleW_same (rules : List RuleSpec) : ruleW rules s' = ruleW rules s := by
  funext k
  unfold ruleW
  rw [phase_same h, deps0_same h, h.issuedLen k]

theorem inputQW_same : inputQW s' = inputQW s := by
  funext r
  unfold inputQW
  rw [phase_same h]

theorem rule_phiSame : s'.rule = s.rule := by
  funext k
  unfold State.rule
  rw [h.ruleInfos]

theorem scanRest_same : scanRest s' = scanRest s := by
  funext r
  unfold scanRest
  rw [rule_phiSame h]

theorem scanQW_same : scanQW s' = scanQW s := by
  funext r
  unfold scanQW
  rw [scanRest_same h, rule_phiSame h, phase_same h]

theorem liveRecords_phiSame : liveRecords s' = liveRecords s := by
  unfold liveRecords
  rw [h.ruleInfos]

theorem pausedAll_phiSame : pausedAll s' = pausedAll s := by
  unfold pausedAll
  rw [liveRecords_phiSame h]

/-- **`Phi` only reads what `PhiSame` keeps** -/
theorem Phi_same_fininput (rules : List RuleSpec) (U : List Key) (hd : Hand) : Phi rules U s' hd = Phi rules U s hd := by
  unfold Phi
  rw [ruleW_same h, inputQW_same h, scanQW_same h, scanRest_same h, pausedAll_phiSame h, liveRecords_phiSame h,
    h.requestedBy, h.deferred, h.inputRequests, h.ruleInfosToScan, h.finishedInputRequests]

theorem ClosedU_same {rules : List RuleSpec} {U : List Key} (hc : ClosedU rules U s) : ClosedU rules U s' :=
  { nodup := hc.nodup,
    registered := fun k hk => hc.registered k (by unfold Registered at *; rw [← h.ruleInfos]; exact hk),
    reqs := hc.reqs, discs := hc.discs,
    deps := fun k hk d hd => hc.deps k hk d (by rw [← deps0_same h]; exact hd),
    inputs := fun r hr => hc.inputs r (by rw [← h.inputRequests]; exact hr) }

end same

theorem TermStep.of_same {rules : List RuleSpec} {U : List Key} {s s' : State} (h : PhiSame s s') (hd : Hand)
    (hc : ClosedU rules U s) : TermStep rules U s hd s' hd 0 :=
  ⟨ClosedU_same h hc, by rw [Phi_same_fininput h]; exact Nat.le_refl _⟩

theorem TermStep.weaken {rules : List RuleSpec} {U : List Key} {s s' : State} {h h' : Hand} {c d : Nat}
    (a : TermStep rules U s h s' h' c) (hle : d ≤ c) : TermStep rules U s h s' h' d :=
  ⟨a.1, by have := a.2; omega⟩

/-- the potential does not read the `dec` / `issuing` part of the hand; a finished request in hand weighs 1 -/
theorem Phi_fin_dec (rules : List RuleSpec) (U : List Key) (s : State) (r : TaskInputRequest)
    (d : List TaskInputRequest) (i : Option (Key × List Req)) :
    Phi rules U s { dec := d, issuing := i } + 1 = Phi rules U s { fin := [r] } := by
  unfold Phi
  simp only [List.nil_append, List.cons_append, List.length_cons]
  omega

theorem Phi_dec_none (rules : List RuleSpec) (U : List Key) (s : State) (d : List TaskInputRequest)
    (i : Option (Key × List Req)) : Phi rules U s { dec := d, issuing := i } = Phi rules U s {} := rfl

/-- `pop_back` of `finishedInputRequests` into the hand: same potential -/
theorem Phi_popFin_fininput (rules : List RuleSpec) (U : List Key) (s : State) (l : List TaskInputRequest) (r : TaskInputRequest)
    (hq : s.finishedInputRequests = l ++ [r]) :
    Phi rules U { s with finishedInputRequests := l } { fin := [r] } = Phi rules U s {} := by
  unfold Phi
  have e : (({ fin := [r] } : Hand).fin ++ ({ s with finishedInputRequests := l } : State).finishedInputRequests).length
      = (({} : Hand).fin ++ s.finishedInputRequests).length := by
    rw [hq]; simp
  rw [e]; rfl


theorem ClosedU.popFin {rules : List RuleSpec} {U : List Key} {s : State} (hc : ClosedU rules U s) (l : List TaskInputRequest) :
    ClosedU rules U { s with finishedInputRequests := l } :=
  ⟨hc.nodup, hc.registered, hc.reqs, hc.discs, hc.deps, hc.inputs⟩

/-! ## the T2 statement of `DslTask::issue` (hypothesis; discharged by the prover of `demandRule`) -/

/-- `issue` never increases the potential: each fresh request costs 5 in `inputRequests` and is paid by the 6 that
`ruleW` of the (waiting) requesting rule loses when `issuedReqs` grows; a fresh registration is an idle key of `U` -/
def IssueTerm : Prop :=
  ∀ rules, RulesOk rules → ∀ (U : List Key) (s : State) (ms : MSt) (h : Hand) (a : Key) (l : List Req),
    h.issuing = none → Rel rules s ms { h with issuing := some (a, l) } → ms.pend = none → s.halted = false →
    (s.rule a).state = .inProgressWaiting →
    (∃ t, s.taskInfos.lookup a = some t ∧ (∀ q ∈ l, q ∉ t.issuedReqs) ∧ (∀ q ∈ t.issuedReqs, q ∈ allReqs (specOf rules a))) →
    l.Nodup → (∀ q ∈ l, q ∈ allReqs (specOf rules a)) → a ∉ s.readyTaskInfos →
    ClosedU rules U s → (∀ q ∈ l, q.key ∈ U) →
    TermStep rules U s { h with issuing := some (a, l) } (issue a l s) { h with issuing := some (a, []) } 0

/-! ## `finishedInputStep` -/

/-- the request in hand is counted: the wait count of its task is not 0 -/
theorem Rel.fin_waitCount {rules : List RuleSpec} {s : State} {ms : MSt} {r : TaskInputRequest} {a : Key} {t : TaskInfo}
    (hr : Rel rules s ms { fin := [r] }) (hra : r.taskInfo = some a) (hl : s.taskInfos.lookup a = some t) :
    t.waitCount ≠ 0 := by
  have hmem : r ∈ outstanding s { fin := [r] } := by
    unfold outstanding processed
    exact List.mem_append_right _ (List.mem_append_left _ (List.mem_append_left _ (List.mem_singleton.2 rfl)))
  have h1 : r ∈ ofTask a (outstanding s { fin := [r] }) := mem_ofTask.2 ⟨hmem, hra⟩
  have h2 := List.length_pos_of_mem h1
  have h3 := (hr.taskOk a t hl).waitCount
  omega

/-- the order-only case: `decrementTaskWaitCount` alone -/
theorem orderOnlyStep_run {rules : List RuleSpec} {s : State} {m : Engine.St} {r : TaskInputRequest} {a : Key}
    (hr : Rel rules s ⟨m, none⟩ { fin := [r] }) (hh : s.halted = false) (hra : r.taskInfo = some a) :
    (decrementTaskWaitCount a s).halted = false ∧
    ∀ U, ClosedU rules U s → TermStep rules U s { fin := [r] } (decrementTaskWaitCount a s) {} 1 := by
  obtain ⟨t, hl, _, _⟩ := hr.finReq hra
  have hfor := (hr.taskOk a t hl).forRule
  rw [decrement_eq hl hfor (hr.fin_waitCount hra hl)]
  refine ⟨hh, fun U hc => ?_⟩
  have hs := PhiSame.setTask (s := s) (t' := { t with waitCount := t.waitCount - 1 })
    (if t.waitCount - 1 = 0 then s.readyTaskInfos ++ [a] else s.readyTaskInfos) hl hfor rfl rfl rfl rfl
  refine ⟨ClosedU_same hs hc, ?_⟩
  rw [Phi_same_fininput hs]
  exact Nat.le_of_eq (Phi_fin_dec rules U s r [] none)

/-- the value case, with the client's computation made explicit: no halt, and the potential drops by 1 -/
theorem provideStep_run {rules : List RuleSpec} (hok : RulesOk rules)
    {s : State} {m : Engine.St} {a : Key} {t : TaskInfo} {q : Req}
    (hr : Rel rules s ⟨m, none⟩ { fin := [reqOf a q] }) (hh : s.halted = false) (hl : s.taskInfos.lookup a = some t)
    (hwait : (s.rule a).state = .inProgressWaiting) (hq : q ∈ t.issuedReqs) (hk : q.kind ≠ 2)
    (hund : delivered (m.task a).seq q = false)
    (v : Val) (hv : v = (s.rule q.key).result.value)
    (t' : TaskInfo) (ht' : t' = { t with recv := insertRecv q.id (maskVal q v) t.recv })
    (fresh : List Req) (hfresh : fresh = newReqs (specOf rules a) t') :
    (decrementTaskWaitCount a (issue a fresh (emit (.PV a q.id q.key v fresh) (s.setTask t')))).halted = false ∧
    ∀ U, IssueTerm → ClosedU rules U s →
      TermStep rules U s { fin := [reqOf a q] }
        (decrementTaskWaitCount a (issue a fresh (emit (.PV a q.id q.key v fresh) (s.setTask t')))) {} 1 := by
  have hta := hr.taskOk a t hl
  have hra : (reqOf a q).taskInfo = some a := rfl
  have hwc0 : t.waitCount ≠ 0 := hr.fin_waitCount hra hl
  -- the monitor's `provide`
  obtain ⟨tk', htk'⟩ : ∃ tk' : Task, tk' = { m.task a with issued := (m.task a).issued ++ fresh, seq := (q, v) :: (m.task a).seq } :=
    ⟨_, rfl⟩
  have hrelA := hr.provide hok hl hq rfl hk hwait t' ht' fresh hfresh tk' htk'
  have hstep := step_provide hok hr hl hq rfl hk hund hwait hv t' ht' fresh hfresh tk' htk'
  have htst : tstep (program rules) ⟨m, none⟩ (.PV a q.id q.key v fresh) = some ⟨stepM m a tk', none⟩ :=
    tstep_ev (by rfl) (by rfl) hstep
  obtain ⟨toks1, ms2, hE1, hrun1, hrelB, hms2⟩ := Rel.emit_list [.PV a q.id q.key v fresh] (s.setTask t') ⟨m, none⟩
    ⟨stepM m a tk', none⟩ hh (by intro x hx; simp at hx; subst hx; rfl) (by simp [trun, htst]) hrelA
  simp only [emitAll_cons, emitAll_nil] at hE1 hrelB
  have hpend2 : ms2.pend = none := by rcases hms2 with e | e <;> rw [e] <;> rfl
  -- the engine after `setTask` / after the recorder
  have hsA : PhiSame s (s.setTask t') :=
    PhiSame.setTask s.readyTaskInfos hl (by rw [ht']; exact hta.forRule) (by rw [ht']) (by rw [ht']) (by rw [ht']) (by rw [ht'])
  generalize hsB : emit (.PV a q.id q.key v fresh) (s.setTask t') = sB at *
  have hsBsame : SameEngine (s.setTask t') sB := by rw [← hsB]; exact emit_same _ _
  have hhB : sB.halted = false := by rw [← hsB, emit_halted_eq]; exact hh
  have hruleB : ∀ k, sB.rule k = s.rule k := fun k => rule_same hsBsame k
  have hlB : sB.taskInfos.lookup a = some t' := by
    rw [hsBsame.taskInfos, setTask_lookup]; simp [ht', hta.forRule]
  have hnotready : a ∉ sB.readyTaskInfos := by
    intro hin
    obtain ⟨t2, h1, _, h3⟩ := hrelB.readyOk a hin
    rw [hlB] at h1; cases h1
    rw [ht'] at h3
    exact hwc0 h3
  have hwaitB : (sB.rule a).state = .inProgressWaiting := by rw [hruleB]; exact hwait
  have hnewB : ∀ x ∈ fresh, x ∉ t'.issuedReqs := fun x hx => by rw [hfresh] at hx; exact newReqs_fresh hx
  have hallB : ∀ x ∈ t'.issuedReqs, x ∈ allReqs (specOf rules a) :=
    fun x hx => hta.issued_allReqs x (by rw [ht'] at hx; exact hx)
  have hndB : fresh.Nodup := by rw [hfresh]; exact newReqs_nodup _ _
  have hsubB : ∀ x ∈ fresh, x ∈ allReqs (specOf rules a) := fun x hx => by rw [hfresh] at hx; exact newReqs_subset hx
  -- `DslTask::issue` does not halt
  obtain ⟨toks2, ms3, tC, _, _, hrelC, _, _, _, hhC, _, hlC, hwcC, _, _⟩ :=
    issue_run hok fresh sB ms2 { dec := [reqOf a q] } a t' hrelB hpend2 hhB hwaitB hlB hnewB hallB hndB hsubB hnotready
  have hIT : ∀ U, IssueTerm → ClosedU rules U sB →
      TermStep rules U sB { dec := [reqOf a q], issuing := some (a, fresh) } (issue a fresh sB)
        { dec := [reqOf a q], issuing := some (a, []) } 0 := by
    intro U hit hcB
    have haU : a ∈ U := hcB.registered a (hrelB.task_registered (by rw [hlB]; rfl))
    exact hit rules hok U sB ms2 { dec := [reqOf a q] } a fresh rfl hrelB hpend2 hhB hwaitB ⟨t', hlB, hnewB, hallB⟩ hndB hsubB
      hnotready hcB (fun x hx => hcB.reqs a haU x (hsubB x hx))
  generalize hsC : issue a fresh sB = sC at *
  -- `decrementTaskWaitCount`
  have hforC : tC.forRuleInfo = a := (hrelC.taskOk a tC hlC).forRule
  have hwcC' : tC.waitCount ≠ 0 := by
    have : t'.waitCount = t.waitCount := by rw [ht']
    omega
  rw [decrement_eq hlC hforC hwcC']
  refine ⟨hhC, fun U hit hc => ?_⟩
  have hsD := PhiSame.setTask (s := sC) (t' := { tC with waitCount := tC.waitCount - 1 })
    (if tC.waitCount - 1 = 0 then sC.readyTaskInfos ++ [a] else sC.readyTaskInfos) hlC hforC rfl rfl rfl rfl
  have hsAB : PhiSame s sB := by
    have h2 := PhiSame.of_same hsBsame
    exact
      { ruleInfos := h2.ruleInfos.trans hsA.ruleInfos, epoch := h2.epoch.trans hsA.epoch, store := h2.store.trans hsA.store,
        inputRequests := h2.inputRequests.trans hsA.inputRequests, ruleInfosToScan := h2.ruleInfosToScan.trans hsA.ruleInfosToScan,
        finishedInputRequests := h2.finishedInputRequests.trans hsA.finishedInputRequests,
        done := fun k => (h2.done k).trans (hsA.done k), issuedLen := fun k => (h2.issuedLen k).trans (hsA.issuedLen k),
        requestedBy := h2.requestedBy.trans hsA.requestedBy, deferred := h2.deferred.trans hsA.deferred }
  have hcB : ClosedU rules U sB := ClosedU_same hsAB hc
  obtain ⟨hcC, hle⟩ := hIT U hit hcB
  refine ⟨ClosedU_same hsD hcC, ?_⟩
  rw [Phi_same_fininput hsD]
  have e1 : Phi rules U sC {} = Phi rules U sC { dec := [reqOf a q], issuing := some (a, []) } := rfl
  have e2 := Phi_same_fininput hsAB rules U { dec := [reqOf a q], issuing := some (a, fresh) }
  have e3 := Phi_fin_dec rules U s (reqOf a q) [reqOf a q] (some (a, fresh))
  omega


/-- **`finishedInputStep`: no halt, and the potential drops by 1** -/
theorem finishedInputStep_run {rules : List RuleSpec} (hok : RulesOk rules) {s : State} {ms : MSt} {r : TaskInputRequest}
    {a : Key} (hr : Rel rules s ms { fin := [r] }) (hp : ms.pend = none) (hh : s.halted = false)
    (hra : r.taskInfo = some a) :
    (finishedInputStep a r s).halted = false ∧
    ∀ U, IssueTerm → ClosedU rules U s → TermStep rules U s { fin := [r] } (finishedInputStep a r s) {} 1 := by
  obtain ⟨m, pend⟩ := ms
  simp only at hp; subst hp
  obtain ⟨t, hl, hwait, q, hq, hrq, hund⟩ := hr.finReq hra
  have hta := hr.taskOk a t hl
  by_cases hoo : r.orderOnly = true
  · have e : finishedInputStep a r s = decrementTaskWaitCount a s := by simp [finishedInputStep, hoo]
    rw [e]
    obtain ⟨h1, h2⟩ := orderOnlyStep_run hr hh hra
    exact ⟨h1, fun U _ hc => h2 U hc⟩
  · have hoo' : r.orderOnly = false := by simpa using hoo
    have hk : q.kind ≠ 2 := by
      intro e; rw [hrq] at hoo'; simp [reqOf, e] at hoo'
    subst hrq
    have e : finishedInputStep a (reqOf a q) s =
        decrementTaskWaitCount a (issue a (newReqs (specOf rules a) { t with recv := insertRecv q.id (maskVal q (s.rule q.key).result.value) t.recv })
          (emit (.PV a q.id q.key (s.rule q.key).result.value
              (newReqs (specOf rules a) { t with recv := insertRecv q.id (maskVal q (s.rule q.key).result.value) t.recv }))
            (s.setTask { t with recv := insertRecv q.id (maskVal q (s.rule q.key).result.value) t.recv }))) := by
      unfold finishedInputStep
      simp only [hoo', Bool.false_eq_true, if_false]
      rw [taskProvideValue_eq hok _ hta hl hq hk, hr.rules_eq]
      rfl
    rw [e]
    exact provideStep_run hok hr hh hl hwait hq hk (hund hk) _ rfl _ rfl _ rfl

/-- (T1) `finishedInputStep` does not halt: `BAD waitCount-underflow` is unreachable (the request in hand is counted in
`waitCount`, and `issue` only raises it), `issue` does not halt (`RulesOk.ids`, the rule is waiting) -/
theorem finishedInputStep_nohalt {rules : List RuleSpec} (hok : RulesOk rules) {s : State} {ms : MSt}
    {r : TaskInputRequest} {a : Key} (hr : Rel rules s ms { fin := [r] }) (hp : ms.pend = none) (hh : s.halted = false)
    (hra : r.taskInfo = some a) (_hnm : NoMid s) : (finishedInputStep a r s).halted = false :=
  (finishedInputStep_run hok hr hp hh hra).1

/-- (T2) `finishedInputStep`: the universe stays closed and the potential drops by 1 -/
theorem finishedInputStep_term {rules : List RuleSpec} (hok : RulesOk rules) {U : List Key} {s : State} {ms : MSt}
    {r : TaskInputRequest} {a : Key} (hr : Rel rules s ms { fin := [r] }) (hp : ms.pend = none) (hh : s.halted = false)
    (hra : r.taskInfo = some a) (_hnm : NoMid s) (hc : ClosedU rules U s) (hit : IssueTerm) :
    TermStep rules U s { fin := [r] } (finishedInputStep a r s) {} 1 :=
  (finishedInputStep_run hok hr hp hh hra).2 U hit hc

/-! ## `finishedInputsLoop` -/

/-- **`finishedInputsLoop`: no halt with `fuel > Phi`, and the potential drops (by ≥ 1 unless the queue was empty)** -/
theorem finishedInputsLoop_run {rules : List RuleSpec} (hok : RulesOk rules) (hit : IssueTerm) {U : List Key} :
    ∀ (fuel : Nat) (w : Bool) (s : State) (ms : MSt), Rel rules s ms {} → ms.pend = none → s.halted = false → NoMid s →
    ClosedU rules U s → Phi rules U s {} < fuel →
    (finishedInputsLoop fuel w s).2.halted = false ∧
    TermStep rules U s {} (finishedInputsLoop fuel w s).2 {} (if s.finishedInputRequests = [] then 0 else 1)
  | 0, _, _, _, _, _, _, _, _, hlt => by omega
  | fuel + 1, w, s, ms, hr, hp, hh, hnm, hc, hlt => by
    rw [finishedInputsLoop_succ]
    cases hgl : s.finishedInputRequests.getLast? with
    | none =>
      simp only
      have he : s.finishedInputRequests = [] := List.getLast?_eq_none_iff.1 hgl
      exact ⟨hh, hc, by simp [he]⟩
    | some request =>
      simp only
      obtain ⟨l, hl⟩ := List.getLast?_eq_some_iff.1 hgl
      have hdl : s.finishedInputRequests.dropLast = l := by rw [hl]; simp
      have hne : s.finishedInputRequests ≠ [] := by rw [hl]; simp
      rw [hdl]
      cases hti : request.taskInfo with
      | none =>
        -- `BAD finished-dummy-request`: a processed request is never a dummy
        exfalso
        apply hr.dummyUnproc request _ hti
        unfold processed
        rw [hl]
        exact List.mem_append_right _ (List.mem_append_right _ (List.mem_singleton.2 rfl))
      | some task =>
        simp only
        have hr0 := hr.popFin hl
        have hc0 := hc.popFin l
        have hphi0 := Phi_popFin_fininput rules U s l request hl
        obtain ⟨hh1, hterm1⟩ := finishedInputStep_run hok hr0 hp hh hti
        obtain ⟨hc1, hle1⟩ := hterm1 U hit hc0
        obtain ⟨_, ms1, _, _, hrel1, hp1, _, _, hnm1⟩ :=
          finishedInputStep_sim issue_sim endIssue rules hok { s with finishedInputRequests := l } ms request task
            hr0 hp hh hti hnm hh1
        obtain ⟨hh2, hc2, hle2⟩ := finishedInputsLoop_run hok hit fuel true _ ms1 hrel1 hp1 hh1 hnm1 hc1 (by omega)
        refine ⟨hh2, hc2, ?_⟩
        simp only [hne, if_false]
        omega

/-- (T1) `finishedInputsLoop` does not halt when the fuel exceeds the potential: neither `FUEL` nor
`BAD finished-dummy-request` (`Rel.dummyUnproc`) nor a halt of the body -/
theorem finishedInputsLoop_nohalt {rules : List RuleSpec} (hok : RulesOk rules) {U : List Key} {fuel : Nat} {w : Bool}
    {s : State} {ms : MSt} (hr : Rel rules s ms {}) (hp : ms.pend = none) (hh : s.halted = false) (hnm : NoMid s)
    (hc : ClosedU rules U s) (hit : IssueTerm) (hlt : Phi rules U s {} < fuel) :
    (finishedInputsLoop fuel w s).2.halted = false :=
  (finishedInputsLoop_run hok hit fuel w s ms hr hp hh hnm hc hlt).1

/-- (T2) `finishedInputsLoop` -/
theorem finishedInputsLoop_term {rules : List RuleSpec} (hok : RulesOk rules) {U : List Key} {fuel : Nat} {w : Bool}
    {s : State} {ms : MSt} (hr : Rel rules s ms {}) (hp : ms.pend = none) (hh : s.halted = false) (hnm : NoMid s)
    (hc : ClosedU rules U s) (hit : IssueTerm) (hlt : Phi rules U s {} < fuel) :
    TermStep rules U s {} (finishedInputsLoop fuel w s).2 {} (if s.finishedInputRequests = [] then 0 else 1) :=
  (finishedInputsLoop_run hok hit fuel w s ms hr hp hh hnm hc hlt).2

end LLBuild.Refine
