/-
C07 on the printed traces — token-level bookkeeping:
* `SeenInv pre m`: what the monitor state `m` says, read back on the tokens `pre` of the build so far: a scanning rule printed
  `S a 0`, a running / computing rule `T a`, a complete rule `S a 1` or `DS a _`, and every request the monitor counts as
  issued by the task of `a` occurs in the request list of an `ST a _` or `PV a _ _ _ _` token (`trun_seen`);
* `trunX_xuinv`: `XInv`, `Inv2`, `UInv` (Exec2/Exec6) along the tokens of a build that pass the in-order guards;
* `build_at_CY`: the monitor state in which a `CY ks` token of a build is accepted, with everything known there.
-/
import LLBuild.Lemmas.Engine.Exec6Dsl
import LLBuild.Lemmas.Refine.Sched5Snap

set_option linter.unusedSimpArgs false

namespace LLBuild.Refine
open LLBuild.Engine LLBuild.Engine.DSL LLBuild.EngineImpl

/-- the request `q` occurs in a request list the task of `a` printed -/
def IssuedTok (pre : List Tok) (a : Key) (q : Req) : Prop :=
  (∃ reqs, Tok.ST a reqs ∈ pre ∧ q ∈ reqs) ∨ (∃ id key v reqs, Tok.PV a id key v reqs ∈ pre ∧ q ∈ reqs)

theorem IssuedTok.mono {pre pre' : List Tok} {a : Key} {q : Req} (h : IssuedTok pre a q) (hs : ∀ t ∈ pre, t ∈ pre') :
    IssuedTok pre' a q := by
  rcases h with ⟨r, h1, h2⟩ | ⟨i, k, v, r, h1, h2⟩
  · exact Or.inl ⟨r, hs _ h1, h2⟩
  · exact Or.inr ⟨i, k, v, r, hs _ h1, h2⟩

structure SeenInv (pre : List Tok) (m : Engine.St) : Prop where
  scanning : ∀ a, m.status a = .scanning → Tok.S a 0 ∈ pre
  running : ∀ a, m.status a = .running ∨ m.status a = .computing → Tok.T a ∈ pre
  done : ∀ a, m.status a = .done → Tok.S a 1 ∈ pre ∨ ∃ row, Tok.DS a row ∈ pre
  issued : ∀ a q, q ∈ (m.task a).issued → IssuedTok pre a q

theorem SeenInv.mono {pre pre' : List Tok} {m : Engine.St} (h : SeenInv pre m) (hs : ∀ t ∈ pre, t ∈ pre') : SeenInv pre' m :=
  ⟨fun a ha => hs _ (h.scanning a ha), fun a ha => hs _ (h.running a ha),
    fun a ha => (h.done a ha).imp (hs _) (fun ⟨row, hr⟩ => ⟨row, hs _ hr⟩), fun a q hq => (h.issued a q hq).mono hs⟩

/-- what one event of the middle of a build changes of status and issued requests -/
theorem step_seen {P : Program} {m m' : Engine.St} {e : Event} (h : step P m e = some m') (hmid : Event.isMidX e = true) :
    (∀ a, m'.status a = .scanning → m.status a = .scanning ∨ e = .scanning a) ∧
    (∀ a, m'.status a = .running ∨ m'.status a = .computing →
      (m.status a = .running ∨ m.status a = .computing) ∨ e = .create a) ∧
    (∀ a q, q ∈ (m'.task a).issued → q ∈ (m.task a).issued ∨ (∃ reqs, e = .start a reqs ∧ q ∈ reqs) ∨
      (∃ id key v reqs, e = .provide a id key v reqs ∧ q ∈ reqs)) := by
  cases e with
  | scanning k =>
    simp only [step] at h
    split at h
    · cases h
      refine ⟨fun a ha => ?_, fun a ha => ?_, fun a q hq => Or.inl hq⟩
      · by_cases e : a = k
        · subst e; right; rfl
        · left; simpa [upd, e] using ha
      · left
        by_cases e : a = k
        · subst e; simp [upd] at ha
        · simpa [upd, e] using ha
    · cases h
  | needs k r i =>
    simp only [step] at h
    split at h
    · cases h
      refine ⟨fun a ha => ?_, fun a ha => ?_, fun a q hq => Or.inl hq⟩
      · left
        by_cases e : a = k
        · subst e; simp [upd] at ha
        · simpa [upd, e] using ha
      · left
        by_cases e : a = k
        · subst e; simp [upd] at ha
        · simpa [upd, e] using ha
    · cases h
  | upToDate k =>
    simp only [step] at h
    split at h
    · cases h
      refine ⟨fun a ha => ?_, fun a ha => ?_, fun a q hq => Or.inl hq⟩
      · left
        by_cases e : a = k
        · subst e; simp [upd] at ha
        · simpa [upd, e] using ha
      · left
        by_cases e : a = k
        · subst e; simp [upd] at ha
        · simpa [upd, e] using ha
    · cases h
  | create k =>
    simp only [step] at h
    split at h
    · cases h
      refine ⟨fun a ha => ?_, fun a ha => ?_, fun a q hq => ?_⟩
      · left
        by_cases e : a = k
        · subst e; simp [upd] at ha
        · simpa [upd, e] using ha
      · by_cases e : a = k
        · subst e; right; rfl
        · left; simpa [upd, e] using ha
      · by_cases e : a = k
        · subst e; simp [upd] at hq
        · left; simpa [upd, e] using hq
    · cases h
  | start k reqs =>
    simp only [step] at h
    split at h
    · cases h
      refine ⟨fun a ha => Or.inl ha, fun a ha => Or.inl ha, fun a q hq => ?_⟩
      by_cases e : a = k
      · subst e; right; left; exact ⟨reqs, rfl, by simpa [upd] using hq⟩
      · left; simpa [upd, e] using hq
    · cases h
  | prior k v =>
    simp only [step] at h
    split at h
    · cases h
      refine ⟨fun a ha => Or.inl ha, fun a ha => Or.inl ha, fun a q hq => ?_⟩
      by_cases e : a = k
      · subst e; left; simpa [upd] using hq
      · left; simpa [upd, e] using hq
    · cases h
  | provide k id key v reqs =>
    simp only [step] at h
    split at h
    · split at h
      · cases h
      · split at h
        · cases h
          refine ⟨fun a ha => Or.inl ha, fun a ha => Or.inl ha, fun a q hq => ?_⟩
          by_cases e : a = k
          · subst e
            have : q ∈ (m.task a).issued ++ reqs := by simpa [upd] using hq
            rcases List.mem_append.1 this with h1 | h1
            · left; exact h1
            · right; right; exact ⟨id, key, v, reqs, rfl, h1⟩
          · left; simpa [upd, e] using hq
        · cases h
    · cases h
  | inputsAvail k ds =>
    simp only [step] at h
    split at h
    · rename_i hc
      cases h
      simp only [Bool.and_eq_true, beq_iff_eq] at hc
      refine ⟨fun a ha => ?_, fun a ha => ?_, fun a q hq => ?_⟩
      · left
        by_cases e : a = k
        · subst e; simp [upd] at ha
        · simpa [upd, e] using ha
      · left
        by_cases e : a = k
        · subst e; left; exact hc.1.1.1.1
        · simpa [upd, e] using ha
      · by_cases e : a = k
        · subst e; left; simpa [upd] using hq
        · left; simpa [upd, e] using hq
    · cases h
  | complete k v f =>
    simp only [step] at h
    split at h
    · cases h
      refine ⟨fun a ha => Or.inl ha, fun a ha => Or.inl ha, fun a q hq => ?_⟩
      by_cases e : a = k
      · subst e; left; simpa [upd] using hq
      · left; simpa [upd, e] using hq
    · cases h
  | finished k row =>
    simp only [step] at h
    split at h
    · cases h
      refine ⟨fun a ha => ?_, fun a ha => ?_, fun a q hq => Or.inl hq⟩
      · left
        by_cases e : a = k
        · subst e; simp [upd] at ha
        · simpa [upd, e] using ha
      · left
        by_cases e : a = k
        · subst e; simp [upd] at ha
        · simpa [upd, e] using ha
    · cases h
  | _ => first
    | (exact Bool.noConfusion hmid)
    | (simp only [step] at h
       repeat' split at h
       all_goals (first | cases h | skip)
       all_goals (exact ⟨fun a ha => Or.inl ha, fun a ha => Or.inl ha, fun a q hq => Or.inl hq⟩))

/-- **one token** keeps `SeenInv` (tokens of the middle of a build, or `DE`) -/
theorem tstep_seen {P : Program} {ms ms' : MSt} {t : Tok} {acc : List Tok} (h : tstep P ms t = some ms')
    (hc : Tok.isClose t = false ∨ t = .DE) (htg : ms.m.target.isSome = true) (hs : SeenInv acc ms.m) :
    SeenInv (acc ++ [t]) ms'.m := by
  have hsub : ∀ x ∈ acc, x ∈ acc ++ [t] := fun x hx => List.mem_append_left _ hx
  have hlast : t ∈ acc ++ [t] := List.mem_append_right _ List.mem_cons_self
  rcases tstep_event h with ⟨_, hm⟩ | ⟨ev, he | ⟨k0, row0, ht, he⟩, hst⟩
  · rw [hm]; exact hs.mono hsub
  · have hmid : Event.isMidX ev = true := by
      rcases hc with hc | hc
      · rcases toEvent_midX he hc with hmid | ⟨k1, hk1⟩
        · exact hmid
        · subst hk1
          rw [step_buildStart_inside P k1 htg] at hst
          cases hst
      · subst hc
        simp only [Tok.toEvent?, Option.some.injEq] at he; subst he; rfl
    obtain ⟨h1, h2, h3⟩ := step_seen hst hmid
    refine ⟨fun a ha => ?_, fun a ha => ?_, fun a ha => ?_, fun a q hq => ?_⟩
    · rcases h1 a ha with e | e
      · exact hsub _ (hs.scanning a e)
      · subst e
        have : t = .S a 0 := by
          cases t <;> simp only [Tok.toEvent?, Option.some.injEq, reduceCtorEq] at he
          · rename_i k n
            rcases n with _ | _ | n <;> simp only [Tok.toEvent?, Option.some.injEq, reduceCtorEq, Event.scanning.injEq] at he
            · subst he; rfl
        rw [← this]; exact hlast
    · rcases h2 a ha with e | e
      · exact hsub _ (hs.running a e)
      · subst e
        have : t = .T a := by
          cases t <;> simp only [Tok.toEvent?, Option.some.injEq, reduceCtorEq, Event.create.injEq] at he
          · rename_i k n
            rcases n with _ | _ | n <;> simp only [Tok.toEvent?, Option.some.injEq, reduceCtorEq] at he
          · subst he; rfl
        rw [← this]; exact hlast
    · rcases step_newDone hst hmid a ha with e | e | ⟨row, e⟩
      · exact (hs.done a e).imp (hsub _) (fun ⟨row, hr⟩ => ⟨row, hsub _ hr⟩)
      · subst e
        have : t = .S a 1 := by
          cases t <;> simp only [Tok.toEvent?, Option.some.injEq, reduceCtorEq] at he
          · rename_i k n
            rcases n with _ | _ | n <;> simp only [Tok.toEvent?, Option.some.injEq, reduceCtorEq, Event.upToDate.injEq] at he
            · subst he; rfl
        left; rw [← this]; exact hlast
      · subst e
        cases t <;> simp only [Tok.toEvent?, Option.some.injEq, reduceCtorEq] at he
        rename_i k n
        rcases n with _ | _ | n <;> simp only [Tok.toEvent?, Option.some.injEq, reduceCtorEq] at he
    · rcases h3 a q hq with e | ⟨reqs, e, hr⟩ | ⟨id, key, v, reqs, e, hr⟩
      · exact (hs.issued a q e).mono hsub
      · subst e
        have : t = .ST a reqs := by
          cases t <;> simp only [Tok.toEvent?, Option.some.injEq, reduceCtorEq, Event.start.injEq] at he
          · rename_i k n
            rcases n with _ | _ | n <;> simp only [Tok.toEvent?, Option.some.injEq, reduceCtorEq] at he
          · obtain ⟨e1, e2⟩ := he; subst e1; subst e2; rfl
        exact Or.inl ⟨reqs, by rw [← this]; exact hlast, hr⟩
      · subst e
        have : t = .PV a id key v reqs := by
          cases t <;> simp only [Tok.toEvent?, Option.some.injEq, reduceCtorEq, Event.provide.injEq] at he
          · rename_i k n
            rcases n with _ | _ | n <;> simp only [Tok.toEvent?, Option.some.injEq, reduceCtorEq] at he
          · obtain ⟨e1, e2, e3, e4, e5⟩ := he; subst e1; subst e2; subst e3; subst e4; subst e5; rfl
        exact Or.inr ⟨id, key, v, reqs, by rw [← this]; exact hlast, hr⟩
  · subst ht; subst he
    obtain ⟨h1, h2, h3⟩ := step_seen hst rfl
    refine ⟨fun a ha => ?_, fun a ha => ?_, fun a ha => ?_, fun a q hq => ?_⟩
    · rcases h1 a ha with e | e
      · exact hsub _ (hs.scanning a e)
      · cases e
    · rcases h2 a ha with e | e
      · exact hsub _ (hs.running a e)
      · cases e
    · rcases step_newDone hst rfl a ha with e | e | ⟨row, e⟩
      · exact (hs.done a e).imp (hsub _) (fun ⟨row, hr⟩ => ⟨row, hsub _ hr⟩)
      · cases e
      · cases e; right; exact ⟨row0, hlast⟩
    · rcases h3 a q hq with e | ⟨reqs, e, hr⟩ | ⟨id, key, v, reqs, e, hr⟩
      · exact (hs.issued a q e).mono hsub
      · cases e
      · cases e

theorem trun_seen {P : Program} : ∀ (toks : List Tok) (ms ms' : MSt) (acc : List Tok), trun P ms toks = some ms' →
    (∀ t ∈ toks, Tok.isClose t = false ∨ t = .DE) → ms.m.target.isSome = true → SeenInv acc ms.m →
    SeenInv (acc ++ toks) ms'.m
  | [], ms, ms', acc, h, _, _, hs => by
    simp only [trun, Option.some.injEq] at h; subst h; simpa using hs
  | t :: ts, ms, ms', acc, h, hc, htg, hs => by
    simp only [trun] at h
    cases hts : tstep P ms t with
    | none => rw [hts] at h; simp at h
    | some ms1 =>
      rw [hts] at h; simp only [Option.bind_some] at h
      have hct := hc t List.mem_cons_self
      have := trun_seen ts ms1 ms' (acc ++ [t]) h (fun t' ht' => hc t' (List.mem_cons_of_mem _ ht'))
        (tstep_target_isSome hts hct htg) (tstep_seen hts hct htg hs)
      simpa [List.append_assoc] using this

/-- after `B key` nothing has been seen and nothing needs to be -/
theorem seen_after_B {P : Program} {m : Engine.St} {key : Key} {ms1 : MSt} (h : tstep P ⟨m, none⟩ (.B key) = some ms1) :
    SeenInv [Tok.B key] ms1.m := by
  have hst := tstep_ev_inv h (e := .buildStart key) rfl
  simp only [step] at hst
  split at hst
  · cases ms1; simp only [Option.some.injEq] at hst; subst hst
    exact ⟨(fun a ha => by cases ha), (fun a ha => by rcases ha with ha | ha <;> cases ha), (fun a ha => by cases ha),
      (fun a q hq => by cases hq)⟩
  · cases hst

/-! ## `XInv`, `Inv2`, `UInv` along the tokens of a build -/

theorem trunX_xuinv {P : Program} {σ : Snap} {root : Key} : ∀ (toks : List Tok) (ms ms' : MSt), trunX P ms toks = some ms' →
    (∀ t ∈ toks, Tok.isClose t = false) → XInv P σ root ms.m → Inv2 ms.m → UInv P σ ms.m →
    XInv P σ root ms'.m ∧ Inv2 ms'.m ∧ UInv P σ ms'.m
  | [], ms, ms', h, _, hx, h2, hu => by
    simp only [trunX, Option.some.injEq] at h; subst h; exact ⟨hx, h2, hu⟩
  | t :: ts, ms, ms', h, hc, hx, h2, hu => by
    simp only [trunX] at h
    cases hs : tstepX P ms t with
    | none => rw [hs] at h; simp at h
    | some ms1 =>
      rw [hs] at h; simp only [Option.bind_some] at h
      have hct := hc t List.mem_cons_self
      obtain ⟨a1, a2, _⟩ := tstepX_xinv hs hct hx h2
      have hu1 : UInv P σ ms1.m := by
        obtain ⟨hts, _⟩ := tstepX_tstep hs
        rcases tstep_event hts with ⟨_, hm⟩ | ⟨ev, he | ⟨k0, row0, ht, he⟩, hst⟩
        · rw [hm]; exact hu
        · rcases toEvent_midX he hct with hmid | ⟨k1, hk1⟩
          · exact step_uinv hx hu hst hmid
          · subst hk1
            rw [step_buildStart_inside P k1 (by rw [hx.target]; rfl)] at hst
            cases hst
        · subst ht; subst he; exact step_uinv hx hu hst rfl
      exact trunX_xuinv ts ms1 ms' h (fun t' ht' => hc t' (List.mem_cons_of_mem _ ht')) a1 a2 hu1

end LLBuild.Refine
