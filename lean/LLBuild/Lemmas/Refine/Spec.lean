/-
IM2 — refinement: the vocabulary of the per-function lemmas (used by `Todo.lean` and by the prover files).
-/
import LLBuild.Lemmas.Refine.Main
import LLBuild.Lemmas.Refine.Shape

namespace LLBuild.Refine
open LLBuild.Engine LLBuild.Engine.DSL LLBuild.EngineImpl

/-- some request for `k` is in hand or queued (the request that makes the engine look at `k` right now) -/
def InHand (h : Hand) (s : State) (k : Key) : Prop :=
  (∃ r ∈ h.scan ++ s.ruleInfosToScan, r.inputRuleInfo = some k) ∨ (∃ r ∈ h.inp ++ s.inputRequests, r.inputRuleInfo = k)

/-- the scan queue only holds requests that `scanRule` just created (true throughout `inputRequestsLoop`) -/
def FreshScanQ (s : State) : Prop := ∀ r ∈ s.ruleInfosToScan, r.inputRuleInfo = none

def RegMono (s s' : State) : Prop := ∀ k, Registered s k → Registered s' k

/-- **The shape of every per-function lemma**: if the function did not halt (`FUEL` / `BAD`), the tokens it
recorded are accepted by the token monitor from `ms`, and the relation holds again with hand `h'`, outside a
pending completion; registrations only grow; the monitor is still in the same build (`target`); `Post` = what the
caller needs to know besides `Rel`. -/
def Sim (rules : List RuleSpec) (s : State) (ms : MSt) (s' : State) (h' : Hand) (Post : MSt → Prop) : Prop :=
  s'.halted = false →
    ∃ toks ms', Emits s toks s' ∧ trun (program rules) ms toks = some ms' ∧ Rel rules s' ms' h' ∧ ms'.pend = none ∧
      RegMono s s' ∧ ms'.m.target = ms.m.target ∧ Post ms'

theorem Sim.mono {rules : List RuleSpec} {s s' : State} {ms : MSt} {h' : Hand} {Post Post' : MSt → Prop}
    (h : Sim rules s ms s' h' Post) (hpp : ∀ ms', Post ms' → Post' ms') : Sim rules s ms s' h' Post' := by
  intro hh
  obtain ⟨toks, ms', h1, h2, h3, h4, h5, h6, h7⟩ := h hh
  exact ⟨toks, ms', h1, h2, h3, h4, h5, h6, hpp ms' h7⟩

/-- once halted, always halted (so that "the result is not halted" propagates to every intermediate state) -/
def HaltMono (f : State → State) : Prop := ∀ s, s.halted = true → (f s).halted = true

theorem HaltMono.comp {f g : State → State} (hf : HaltMono f) (hg : HaltMono g) : HaltMono (fun s => g (f s)) :=
  fun s h => hg _ (hf s h)

theorem HaltMono.of_result {f : State → State} (hf : HaltMono f) {s : State} (h : (f s).halted = false) :
    s.halted = false := by
  cases hs : s.halted with
  | false => rfl
  | true => rw [hf s hs] at h; cases h

theorem haltMono_emit (t : Tok) : HaltMono (emit t) := fun s h => by rw [emit_halted_eq]; exact h
theorem haltMono_halt (t : Tok) : HaltMono (halt t) := fun s _ => halt_halted t s
theorem haltMono_doCancel : HaltMono doCancel := fun s h => by rw [doCancel_halted_eq]; exact h
theorem haltMono_getRuleInfoForKey (k : Key) : HaltMono (getRuleInfoForKey k) :=
  fun s h => by rw [(getRuleInfoForKey_same k s).halted]; exact h
theorem haltMono_setRule (ri : RuleInfo) : HaltMono (fun s => s.setRule ri) := fun _ h => h
theorem haltMono_setTask (t : TaskInfo) : HaltMono (fun s => s.setTask t) := fun _ h => h

end LLBuild.Refine
