/-
IM6, addendum — the `MutOk` / `runG_clamp` story of `Gen.lean` for `OpU` histories (`Final5.lean`).
`Gen.runG_clamp`: a `GEvent` run whose `mutate` events keep the external state inside the fixed points of a clamp `c` is
equally a run of the programs whose signature functions look at the clamped state (`clampPP c PP`).  For that one needs
"the only `mutate` events of a history are those of its `M` ops":
* `evOfToks_noMutate`: no `mutate` among the events of a (possibly cut) token trace — so none among the events of a
  completed build (`toEvents_noMutate`, Gen.lean) or of a KILLED build (`opEventsC_crashed_noMutate`: `evOfToks … ++ [crash]`);
* `OpU.mutOk c`, `uopEvents_mutOk`, `histEventsU_mutOk` (the analogues of `GOp.mutOk`, `gopEvents_mutOk`, `ghistEvents_mutOk`);
* `histEventsU_clamp` / `refinement_final_all_clamp`: the history of `refinement_final_all` is also accepted under `clampPP c`.
-/
import LLBuild.Lemmas.Refine.Final5

namespace LLBuild.Refine
open LLBuild.Engine LLBuild.Engine.DSL LLBuild.EngineImpl

/-! ## no `mutate` among the events of tokens -/

/-- no `mutate` among the events of a possibly cut token trace, in either phase -/
theorem evOfToks_noMutate : ∀ (toks : List Tok) (ph : Option Key) (evs : List Event), evOfToks ph toks = some evs →
    ∀ e ∈ evs, isMutate e = false
  | [], ph, evs, h, e, he => by
    simp only [evOfToks_nil, Option.some.injEq] at h; subst h; cases he
  | t :: ts, none, evs, h, e, he => by
    cases hS : Tok.isS2 t with
    | some k =>
      simp only [evOfToks, hS] at h
      exact evOfToks_noMutate ts (some k) evs h e he
    | none =>
      simp only [evOfToks, hS] at h
      cases hte : t.toEvent? with
      | none => rw [hte] at h; cases h
      | some x =>
        rw [hte] at h
        simp only at h
        cases hb : evOfToks none ts with
        | none => rw [hb] at h; cases h
        | some b =>
          rw [hb] at h
          simp only [Option.map_some, Option.some.injEq] at h; subst h
          rcases List.mem_cons.1 he with rfl | he'
          · exact toEvent?_noMutate hte
          · exact evOfToks_noMutate ts none b hb e he'
  | t :: ts, some k, evs, h, e, he => by
    have hreg : ∀ x, t.toEvent? = some x → (evOfToks (some k) ts).map (fun b => x :: b) = some evs →
        isMutate e = false := by
      intro x hte h'
      cases hb : evOfToks (some k) ts with
      | none => rw [hb] at h'; cases h'
      | some b =>
        rw [hb] at h'
        simp only [Option.map_some, Option.some.injEq] at h'; subst h'
        rcases List.mem_cons.1 he with rfl | he'
        · exact toEvent?_noMutate hte
        · exact evOfToks_noMutate ts (some k) b hb e he'
    cases t with
    | DS k' row =>
      simp only [evOfToks] at h
      split at h
      · cases hb : evOfToks none ts with
        | none => rw [hb] at h; cases h
        | some b =>
          rw [hb] at h
          simp only [Option.map_some, Option.some.injEq] at h; subst h
          rcases List.mem_cons.1 he with rfl | he'
          · rfl
          · exact evOfToks_noMutate ts none b hb e he'
      · cases h
    | L a => exact hreg _ rfl (by simpa [evOfToks, Tok.isReg, Tok.toEvent?] using h)
    | G a f => exact hreg _ rfl (by simpa [evOfToks, Tok.isReg, Tok.toEvent?] using h)
    | X => exact hreg _ rfl (by simpa [evOfToks, Tok.isReg, Tok.toEvent?] using h)
    | C a v f => exact hreg _ rfl (by simpa [evOfToks, Tok.isReg, Tok.toEvent?] using h)
    | _ => simp [evOfToks, Tok.isReg] at h

/-- no `mutate` among the events of a killed build (`evOfToks … ++ [crash]`) -/
theorem opEventsC_crashed_noMutate {key cancelAt : Nat} {sched : List SchedItem} {a : Async} {cut : Nat} {s : State}
    {evs : List Event} (h : opEventsC (.crashedBuild key cancelAt sched a cut) s = some evs) :
    ∀ e ∈ evs, isMutate e = false := by
  simp only [opEventsC] at h
  cases hb : evOfToks none (cutToks key cancelAt sched a cut s) with
  | none => rw [hb] at h; cases h
  | some b =>
    rw [hb] at h
    simp only [Option.map_some, Option.some.injEq] at h; subst h
    intro e he
    rcases List.mem_append.1 he with he' | he'
    · exact evOfToks_noMutate _ _ b hb e he'
    · simp only [List.mem_cons, List.not_mem_nil, or_false] at he'; subst he'; rfl

/-- no `mutate` among the events of a completed (asynchronous) build -/
theorem opEventsC_build_noMutate {key cancelAt : Nat} {sched : List SchedItem} {a : Async} {s : State}
    {evs : List Event} (h : opEventsC (.build key cancelAt sched a) s = some evs) :
    ∀ e ∈ evs, isMutate e = false :=
  toEvents_noMutate h

/-! ## `MutOk` for `OpU` histories -/

/-- an `M slot val` op keeps the external state inside the fixed points of the clamp -/
def OpU.mutOk (c : Env → Env) : OpU → Prop
  | .op (.mutate a b) => ∀ env, c env = env → c (upd env a b) = upd env a b
  | _ => True

theorem uopEvents_mutOk {c : Env → Env} {g : Nat} {o : OpU} {s : State} {gevs : List GEvent}
    (h : uopEvents g o s = some gevs) (hm : o.mutOk c) : ∀ e ∈ gevs, MutOk c e := by
  cases o with
  | program rules => cases h; intro e he; simp at he; subst he; trivial
  | op o =>
    simp only [uopEvents] at h
    cases h1 : opEventsC o s with
    | none => rw [h1] at h; cases h
    | some evs =>
      rw [h1] at h; cases h
      intro e he
      obtain ⟨x, hx, rfl⟩ := List.mem_map.1 he
      cases o with
      | wipe => cases h1; simp at hx; subst hx; trivial
      | restart => cases h1; simp at hx; subst hx; trivial
      | mutate a b => cases h1; simp at hx; subst hx; exact hm
      | build key cancelAt sched a => exact MutOk.of_noMutate c (opEventsC_build_noMutate h1 x hx)
      | crashedBuild key cancelAt sched a cut => exact MutOk.of_noMutate c (opEventsC_crashed_noMutate h1 x hx)

theorem histEventsU_mutOk {c : Env → Env} : ∀ (ops : List OpU) (g : Nat) (s : State) (gevs : List GEvent),
    histEventsU g ops s = some gevs → (∀ o ∈ ops, o.mutOk c) → ∀ e ∈ gevs, MutOk c e
  | [], g, s, gevs, h, _ => by cases h; intro e he; cases he
  | o :: os, g, s, gevs, h, hm => by
    simp only [histEventsU] at h
    cases h1 : uopEvents g o s with
    | none => rw [h1] at h; cases h
    | some a =>
      cases h2 : histEventsU (nextGenU g o) os (runOpU o s) with
      | none => rw [h1, h2] at h; cases h
      | some b =>
        rw [h1, h2] at h; cases h
        intro e he
        rcases List.mem_append.1 he with he' | he'
        · exact uopEvents_mutOk h1 (hm o List.mem_cons_self) e he'
        · exact histEventsU_mutOk os _ _ b h2 (fun x hx => hm x (List.mem_cons_of_mem _ hx)) e he'

/-- the embedding of `GOp` histories keeps the condition on `M` ops -/
theorem GOp.mutOk_toU (c : Env → Env) (o : GOp) : o.toU.mutOk c ↔ o.mutOk c := by
  cases o with
  | program rules => exact Iff.rfl
  | op o => cases o <;> exact Iff.rfl

/-! ## the clamped run -/

/-- **`runG_clamp` for `OpU` histories**: if the `M` ops of the history keep the external state inside the fixed points of
the clamp `c` (which fixes the initial external state), the accepted `GEvent` run of the history is also a run of the
programs judged with signatures computed from the clamped external state, and it ends in a fixed point of `c`. -/
theorem histEventsU_clamp {c : Env → Env} (h0 : c (fun _ => 0) = fun _ => 0) {PP : Nat → Program}
    {ops : List OpU} {g : Nat} {s : State} {gevs : List GEvent} {sg sg' : St × Nat}
    (he : histEventsU g ops s = some gevs) (hrun : runG PP sg gevs = some sg') (hc : c sg.1.env = sg.1.env)
    (hm : ∀ o ∈ ops, o.mutOk c) :
    runG (clampPP c PP) sg gevs = some sg' ∧ c sg'.1.env = sg'.1.env :=
  runG_clamp h0 gevs sg sg' hrun hc (histEventsU_mutOk ops g s gevs he hm)

/-- `refinement_final_all` with the clamped run added -/
theorem refinement_final_all_clamp {c : Env → Env} (h0 : c (fun _ => 0) = fun _ => 0)
    (rs0 : List RuleSpec) (ops : List OpU)
    (hok : ∀ r ∈ installedU rs0 ops, RulesOk r)
    (hs : histSizedU (installedU rs0 ops) 0 ops (opProgram rs0 {}))
    (hm : ∀ o ∈ ops, o.mutOk c) :
    ∃ gevs m', histEventsU 0 ops (opProgram rs0 {}) = some gevs ∧
      (∀ e ∈ gevs, MutOk c e) ∧
      runG (PPof (installedU rs0 ops)) ({}, 0) gevs = some (m', lastGenU 0 ops) ∧
      runG (clampPP c (PPof (installedU rs0 ops))) ({}, 0) gevs = some (m', lastGenU 0 ops) ∧
      c m'.env = m'.env ∧
      RelIdle (currentRulesU rs0 ops) (runOpsU ops (opProgram rs0 {})) m' ∧ Committed m' := by
  obtain ⟨gevs, m', h1, h2, h3, h4⟩ := refinement_final_all rs0 ops hok hs
  obtain ⟨h5, h6⟩ := histEventsU_clamp (sg := ({}, 0)) h0 h1 h2 h0 hm
  exact ⟨gevs, m', h1, histEventsU_mutOk ops 0 _ gevs h1 hm, h2, h5, h6, h3, h4⟩

/-
#print axioms evOfToks_noMutate            -- [propext, Quot.sound]
#print axioms opEventsC_crashed_noMutate   -- [propext, Quot.sound]
#print axioms uopEvents_mutOk              -- [propext, Quot.sound]
#print axioms histEventsU_mutOk            -- [propext, Quot.sound]
#print axioms histEventsU_clamp            -- [propext, Quot.sound]
#print axioms refinement_final_all_clamp   -- [propext, Classical.choice, Quot.sound]
-/
end LLBuild.Refine
