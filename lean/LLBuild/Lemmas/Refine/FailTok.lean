/-
IM7 — the `F` op: **`S k 2` ("rule complete") IS REPORTED ONLY BY `finishedTaskWrite` / `finishedTaskPre`**
(the body of `finishedTasksLoop(A)`); no other engine function emits it.  Needed to read a trace with a failed write
(`evOfToksF`, Fail0.lean): the window `S k 2 ; regs ; DS k row ; ER 6` is opened by `finishedTaskPre` alone, and nothing
that runs before it in the iteration or after it (`ER 6`, the drain, `cancelTail`, `DI`, `DE`, `R v`, `Z a b`) opens another.

The recorder framework of Crash2.lean (`ClosedT`: closure under `emit t` only for tokens that do not close the build) is
copied for the token class "not `S k 2`" (`ClosedS`, lemmas `rs2_…` / `rs2A_…`: the same proofs, the side condition
`Tok.isS2b t = false` is `rfl` at every `emit` of the engine except the one of `finishedTaskWrite`).  The functions that
(transitively) call `finishedTaskWrite` have no lemma: `finishedTasksLoopA`, `executeLoopA`, `executeTasksA`, `buildWorkA`,
`buildPreA`.  Instance: "the tokens recorded on top of a fixed older trace are not `S k 2`" (`closedS_new`); corollaries in
`Emits` form: `NoS2 s (f … s)` (`noS2_…`), `NoS2.of_emits`.  `finishedTaskPre` itself: `finishedTaskPre_emits`.
Core Lean only.
-/
import LLBuild.Lemmas.Refine.Fail0

namespace LLBuild.Refine
open LLBuild.Engine LLBuild.Engine.DSL LLBuild.EngineImpl

theorem isS2b_S2 (k : Key) : Tok.isS2b (.S k 2) = true := rfl

theorem isS2b_iff (t : Tok) : Tok.isS2b t = true ↔ ∃ k, t = .S k 2 := by
  constructor
  · intro h
    unfold Tok.isS2b at h
    cases hk : Tok.isS2 t with
    | none => rw [hk] at h; cases h
    | some k =>
      refine ⟨k, ?_⟩
      unfold Tok.isS2 at hk
      split at hk
      · cases hk; rfl
      · cases hk
  · rintro ⟨k, rfl⟩; rfl

theorem isS2b_of_isBad {t : Tok} (h : Tok.isBad t = true) : Tok.isS2b t = false := by
  cases t <;> first | rfl | cases h

theorem isReg_of_isLGX {t : Tok} (h : Tok.isLGX t = true) : Tok.isReg t = true := by
  cases t <;> first | rfl | cases h

theorem isS2b_of_isReg {t : Tok} (h : Tok.isReg t = true) : Tok.isS2b t = false := by
  cases t <;> first | rfl | cases h

/-- a predicate on `(halted, trace)` closed under the recorder operations as every engine function except
`finishedTaskWrite` uses them: `emit t` only for a token that is not `S k 2` -/
structure ClosedS (R : Bool → List Tok → Prop) : Prop where
  emit : ∀ (t : Tok) (s : State), Tok.isS2b t = false → R s.halted s.trace → R (emit t s).halted (emit t s).trace
  halt : ∀ (t : Tok) (s : State), Tok.isBad t = true → R s.halted s.trace → R (halt t s).halted (halt t s).trace
  doCancel : ∀ (s : State), R s.halted s.trace → R (doCancel s).halted (doCancel s).trace

/-- the start of `build()` up to and including `QC` (the argument of `executeTasksA` in `buildPreA`) -/
def buildStartA (s : State) : State :=
  let s0 := if s.hasDB then emit .DB s else s
  { emit .QC s0 with currentEpoch := (emit .QC s0).currentEpoch + 1 }

theorem buildPreA_eq_start (key : Key) (a : Async) (s : State) :
    buildPreA key a s =
      if (if s.hasDB then emit .DB s else s).buildCancelled then (0, if s.hasDB then emit .DB s else s)
      else buildTail key ((executeTasksA key a (buildStartA s)).1, (executeTasksA key a (buildStartA s)).2.2) := rfl

section PreserveS
variable {R : Bool → List Tok → Prop} (hR : ClosedS R)
include hR

local notation "⟪" s "⟫" => R (State.halted s) (State.trace s)

theorem rs2_modScanRecord (k : Key) (f : RuleScanRecord → RuleScanRecord) (s : State) (h : ⟪s⟫) :
    ⟪modScanRecord k f s⟫ := by
  unfold modScanRecord
  split
  · exact h
  · exact hR.halt _ _ rfl h

theorem rs2_getRuleInfoForKey (k : Key) (s : State) (h : ⟪s⟫) : ⟪getRuleInfoForKey k s⟫ := by
  unfold getRuleInfoForKey
  split
  · exact h
  · dsimp only
    split
    · split
      · exact hR.emit _ _ rfl (hR.emit _ _ rfl h)
      · exact hR.emit _ _ rfl (hR.emit _ _ rfl h)
    · exact hR.emit _ _ rfl h

theorem rs2_addTaskInputRequest (task key inputID : Nat) (oo su : Bool) (s : State) (h : ⟪s⟫) :
    ⟪addTaskInputRequest task key inputID oo su s⟫ := by
  unfold addTaskInputRequest
  split
  · exact hR.halt _ _ rfl h
  · exact rs2_getRuleInfoForKey hR _ _ h

theorem rs2_taskNeedsInput (task key inputID : Nat) (s : State) (h : ⟪s⟫) : ⟪taskNeedsInput task key inputID s⟫ := by
  unfold taskNeedsInput
  split
  · exact hR.emit _ _ rfl h
  · exact rs2_addTaskInputRequest hR _ _ _ _ _ _ h

theorem rs2_taskNeedsSingleUseInput (task key inputID : Nat) (s : State) (h : ⟪s⟫) :
    ⟪taskNeedsSingleUseInput task key inputID s⟫ := by
  unfold taskNeedsSingleUseInput
  split
  · exact hR.emit _ _ rfl h
  · exact rs2_addTaskInputRequest hR _ _ _ _ _ _ h

theorem rs2_taskMustFollow (task key : Nat) (s : State) (h : ⟪s⟫) : ⟪taskMustFollow task key s⟫ :=
  rs2_addTaskInputRequest hR _ _ _ _ _ _ h

theorem rs2_taskDiscoveredDependency (task key : Nat) (s : State) (h : ⟪s⟫) : ⟪taskDiscoveredDependency task key s⟫ := by
  unfold taskDiscoveredDependency
  split
  · exact hR.emit _ _ rfl h
  · exact h

theorem rs2_taskIsComplete (task : Key) (v : Val) (fc : Bool) (s : State) (h : ⟪s⟫) : ⟪taskIsComplete task v fc s⟫ := by
  unfold taskIsComplete
  dsimp only
  split
  · exact hR.emit _ _ rfl h
  · exact h

theorem rs2_issue (task : Key) : ∀ (l : List Req) (s : State), ⟪s⟫ → ⟪issue task l s⟫
  | [], s, h => h
  | q :: rest, s, h => by
    rw [issue]
    apply rs2_issue task rest
    split
    · exact rs2_taskNeedsInput hR _ _ _ _ h
    · split
      · exact rs2_taskNeedsSingleUseInput hR _ _ _ _ h
      · exact rs2_taskMustFollow hR _ _ _ h

theorem rs2_taskStart (task : Key) (s : State) (h : ⟪s⟫) : ⟪taskStart task s⟫ :=
  rs2_issue hR _ _ _ (hR.emit _ _ rfl h)

theorem rs2_taskProvideValue (task : Key) (id : Nat) (key : Key) (v : Val) (s : State) (h : ⟪s⟫) :
    ⟪taskProvideValue task id key v s⟫ :=
  rs2_issue hR _ _ _ (hR.emit _ _ rfl h)

theorem rs2_taskComplete (task : Key) (s : State) (h : ⟪s⟫) : ⟪taskComplete task s⟫ :=
  rs2_taskIsComplete hR _ _ _ _ (hR.emit _ _ rfl h)

theorem rs2_reportDiscovered (task : Key) : ∀ (l : List Key) (s : State), ⟪s⟫ → ⟪reportDiscovered task l s⟫
  | [], s, h => h
  | d :: ds, s, h => by
    rw [reportDiscovered]
    exact rs2_reportDiscovered task ds _ (rs2_taskDiscoveredDependency hR _ _ _ h)

theorem rs2_taskInputsAvailable (task : Key) (s : State) (h : ⟪s⟫) : ⟪taskInputsAvailable task s⟫ := by
  unfold taskInputsAvailable
  dsimp only
  have h1 := rs2_reportDiscovered hR task (discKeys (specOf s.rules task) (s.task task).recv) _
    (hR.emit (.IA task (discKeys (specOf s.rules task) (s.task task).recv)) s rfl h)
  split
  · exact rs2_taskComplete hR _ _ h1
  · exact h1

theorem rs2_completeKey (k : Key) (s : State) (h : ⟪s⟫) : ⟪(completeKey k s).2⟫ := by
  unfold completeKey
  split
  · exact rs2_taskComplete hR _ _ h
  · exact h

theorem rs2_completeSmallest (s : State) (h : ⟪s⟫) : ⟪(completeSmallest s).2⟫ := by
  unfold completeSmallest
  split
  · exact h
  · exact rs2_completeKey hR _ _ h

theorem rs2_completeKeys : ∀ (l : List Key) (any : Bool) (s : State), ⟪s⟫ → ⟪(completeKeys l any s).2⟫
  | [], any, s, h => h
  | k :: ks, any, s, h => by
    rw [completeKeys]
    exact rs2_completeKeys ks _ _ (rs2_completeKey hR k s h)

theorem rs2_hook (point : Nat) (s : State) (h : ⟪s⟫) : ⟪hook point s⟫ := by
  unfold hook
  split
  · exact rs2_completeSmallest hR _ h
  · split
    next any s1 heq =>
      have h1 : ⟪s1⟫ := by
        refine of_eq_pair heq ?_
        split
        · exact h
        · split
          next any2 s2 heq2 =>
            have h2 : ⟪s2⟫ := of_eq_pair heq2 (rs2_completeKeys hR _ _ _ h)
            dsimp only
            split
            · exact hR.doCancel _ h2
            · exact h2
      split
      · exact rs2_completeSmallest hR _ h1
      · exact h1

/-! ### scanning and demanding -/

theorem rs2_scanRule (k : Key) (s : State) (h : ⟪s⟫) : ⟪(scanRule k s).2⟫ := by
  unfold scanRule
  dsimp only
  repeat' split
  all_goals first
    | exact h
    | exact hR.emit _ _ rfl h
    | exact hR.emit _ _ rfl (hR.emit _ _ rfl h)
    | exact hR.emit _ _ rfl (hR.emit _ _ rfl (hR.emit _ _ rfl h))

theorem rs2_demandRule (k : Key) (s : State) (h : ⟪s⟫) : ⟪(demandRule k s).2⟫ := by
  unfold demandRule
  dsimp only
  split
  · exact h
  · split
    · exact h
    · split
      · exact hR.emit _ _ rfl h
      · have h1 := rs2_taskStart hR k _ (rs_modRule ((emit (.T k) s).setTask { forRuleInfo := k }) k
          (fun ri => { ri with state := .inProgressWaiting, inProgressInfo := .pendingTaskInfo,
                               result := { ri.result with deps := [] } }) (hR.emit (.T k) s rfl h))
        split <;> split <;> first | exact h1 | exact hR.emit _ _ rfl h1

theorem rs2_finishScanRequest (k : Key) (st : StateKind) (s : State) (h : ⟪s⟫) : ⟪finishScanRequest k st s⟫ := by
  unfold finishScanRequest
  split
  · exact hR.halt _ _ rfl h
  · exact h

theorem rs2_scanLoop : ∀ (fuel : Nat) (r : RuleScanRequest) (s : State), ⟪s⟫ → ⟪scanLoop fuel r s⟫
  | 0, r, s, h => by rw [scanLoop]; exact hR.halt _ _ rfl h
  | fuel + 1, r, s, h => by
    rw [scanLoop]
    dsimp only
    split
    · exact hR.halt _ _ rfl h
    · next request input s1 heq =>
      have h1 : ⟪s1⟫ := by
        split at heq
        · cases heq; exact h
        · split at heq
          · cases heq
          · cases heq; exact rs2_getRuleInfoForKey hR _ _ h
      have h2 := rs2_scanRule hR input s1 h1
      split
      · exact rs2_modScanRecord hR _ _ _ h2
      · have h3 := rs2_demandRule hR input _ h2
        split
        · exact h3
        · split
          · exact hR.emit _ _ rfl (rs2_finishScanRequest hR _ _ _ h3)
          · split
            · exact rs2_scanLoop fuel _ _ h3
            · exact rs2_finishScanRequest hR _ _ _ h3

theorem rs2_processRuleScanRequest (r : RuleScanRequest) (s : State) (h : ⟪s⟫) : ⟪processRuleScanRequest r s⟫ := by
  unfold processRuleScanRequest
  split
  · exact h
  · exact rs2_scanLoop hR _ _ _ h

theorem rs2_decrementTaskWaitCount (task : Key) (s : State) (h : ⟪s⟫) : ⟪decrementTaskWaitCount task s⟫ := by
  unfold decrementTaskWaitCount
  split
  · exact hR.halt _ _ rfl h
  · dsimp only
    split <;> exact h

theorem rs2_processInputRequest (r : TaskInputRequest) (s : State) (h : ⟪s⟫) : ⟪processInputRequest r s⟫ := by
  unfold processInputRequest
  dsimp only
  have h2 := rs2_scanRule hR r.inputRuleInfo s h
  split
  · exact rs2_modScanRecord hR _ _ _ h2
  · have h3 := rs2_demandRule hR r.inputRuleInfo _ h2
    split
    · exact h3
    · split <;> exact h3

theorem rs2_finishedInputStep (task : Key) (r : TaskInputRequest) (s : State) (h : ⟪s⟫) : ⟪finishedInputStep task r s⟫ := by
  unfold finishedInputStep
  apply rs2_decrementTaskWaitCount hR
  split
  · exact h
  · exact rs2_taskProvideValue hR _ _ _ _ _ h

theorem rs2_readyStep (task : Key) (s : State) (h : ⟪s⟫) : ⟪readyStep task s⟫ := by
  unfold readyStep
  exact rs2_taskInputsAvailable hR task _ (rs_modRule s _ _ h)

theorem rs2_pushDiscovered : ∀ (l : List Dep) (s : State), ⟪s⟫ → ⟪pushDiscovered l s⟫
  | [], s, h => h
  | d :: ds, s, h => by
    rw [pushDiscovered]
    exact rs2_pushDiscovered ds _ (rs2_getRuleInfoForKey hR d.key s h)

theorem rs2_setRuleResult (k : Key) (res : Res) (s : State) (h : ⟪s⟫) : ⟪(setRuleResult k res s).2⟫ := by
  unfold setRuleResult
  dsimp only
  split <;> exact hR.emit _ _ rfl h

theorem rs2_breakCycleLoop : ∀ (l : List Key) (s : State), ⟪s⟫ → ⟪(breakCycleLoop l s).2⟫
  | [], s, h => h
  | k :: rest, s, h => by
    rw [breakCycleLoop.eq_def]
    dsimp only
    split
    · split
      · exact h
      · exact hR.emit _ _ rfl (rs2_finishScanRequest hR _ _ _ h)
    · split
      · split
        · exact rs2_breakCycleLoop _ s h
        · split
          · exact rs2_breakCycleLoop _ s h
          · split <;> exact h
      · exact rs2_breakCycleLoop rest s h

theorem rs2_resolveCycle (key : Key) (s : State) (h : ⟪s⟫) : ⟪(resolveCycle key s).2⟫ := by
  unfold resolveCycle
  split
  · exact hR.halt _ _ rfl h
  · next cycleList _ =>
    have h1 : ⟪(breakCycle cycleList s).2⟫ := rs2_breakCycleLoop hR _ s h
    dsimp only
    split
    · exact h1
    · exact hR.emit _ _ rfl h1

theorem rs2A_asyncStep (it : SchedItem) (s : State) (h : ⟪s⟫) : ⟪asyncStep it s⟫ := by
  unfold asyncStep
  dsimp only
  have h1 := rs2_completeKeys hR it.keys false s h
  split
  · exact hR.doCancel _ h1
  · exact h1

theorem rs2A_asyncPoint (a : Async) (s : State) (h : ⟪s⟫) : ⟪(asyncPoint a s).2⟫ := by
  cases a with
  | nil => exact h
  | cons it rest => exact rs2A_asyncStep hR it s h

theorem rs2A_scanRequestsLoopA : ∀ (fuel : Nat) (w : Bool) (a : Async) (s : State), ⟪s⟫ → ⟪(scanRequestsLoopA fuel w a s).2.2⟫
  | 0, w, a, s, h => by rw [scanRequestsLoopA]; exact hR.halt _ _ rfl h
  | fuel + 1, w, a, s, h => by
    rw [scanRequestsLoopA]
    dsimp only
    have h1 := rs2A_asyncPoint hR a s h
    split
    · exact h1
    · exact rs2A_scanRequestsLoopA fuel _ _ _ (rs2_processRuleScanRequest hR _ _ h1)

theorem rs2A_inputRequestsLoopA : ∀ (fuel : Nat) (w : Bool) (a : Async) (s : State), ⟪s⟫ → ⟪(inputRequestsLoopA fuel w a s).2.2⟫
  | 0, w, a, s, h => by rw [inputRequestsLoopA]; exact hR.halt _ _ rfl h
  | fuel + 1, w, a, s, h => by
    rw [inputRequestsLoopA]
    dsimp only
    have h1 := rs2A_asyncPoint hR a s h
    split
    · exact h1
    · exact rs2A_inputRequestsLoopA fuel _ _ _ (rs2_processInputRequest hR _ _ h1)

theorem rs2A_finishedInputsLoopA : ∀ (fuel : Nat) (w : Bool) (a : Async) (s : State), ⟪s⟫ → ⟪(finishedInputsLoopA fuel w a s).2.2⟫
  | 0, w, a, s, h => by rw [finishedInputsLoopA]; exact hR.halt _ _ rfl h
  | fuel + 1, w, a, s, h => by
    rw [finishedInputsLoopA]
    dsimp only
    have h1 := rs2A_asyncPoint hR a s h
    split
    · exact h1
    · split
      · exact hR.halt _ _ rfl h1
      · exact rs2A_finishedInputsLoopA fuel _ _ _ (rs2_finishedInputStep hR _ _ _ h1)

theorem rs2A_readyTasksLoopA : ∀ (fuel : Nat) (w : Bool) (a : Async) (s : State), ⟪s⟫ → ⟪(readyTasksLoopA fuel w a s).2.2⟫
  | 0, w, a, s, h => by rw [readyTasksLoopA]; exact hR.halt _ _ rfl h
  | fuel + 1, w, a, s, h => by
    rw [readyTasksLoopA]
    dsimp only
    have h1 := rs2A_asyncPoint hR a s h
    split
    · exact h1
    · exact rs2A_readyTasksLoopA fuel _ _ _ (rs2_readyStep hR _ _ h1)

theorem rs2A_drainLoopA : ∀ (fuel : Nat) (a : Async) (s : State), ⟪s⟫ → ⟪(drainLoopA fuel a s).2⟫
  | 0, a, s, h => by rw [drainLoopA]; exact hR.halt _ _ rfl h
  | fuel + 1, a, s, h => by
    rw [drainLoopA]
    dsimp only
    have h1 := rs2_hook hR 2 _ (rs2A_asyncPoint hR a s h)
    split
    · exact h
    · split
      · exact hR.halt _ _ rfl h1
      · exact rs2A_drainLoopA fuel _ _ h1

theorem rs2A_cancelRemainingTasksA (a : Async) (s : State) (h : ⟪s⟫) : ⟪(cancelRemainingTasksA a s).2⟫ := by
  unfold cancelRemainingTasksA
  exact rsA_cancelTail _ (rs2A_drainLoopA hR _ _ _ h)

theorem rs2A_waitStep (s : State) (h : ⟪s⟫) : ⟪waitStep s⟫ := by
  unfold waitStep
  dsimp only
  split
  · exact hR.halt _ _ rfl (rs2_hook hR 1 s h)
  · exact rs2_hook hR 1 s h

theorem rs2A_buildTail (key : Key) (r : Bool × State) (h : ⟪r.2⟫) : ⟪(buildTail key r).2⟫ := by
  unfold buildTail
  obtain ⟨ok, s1⟩ := r
  dsimp only at h ⊢
  generalize hs2 : (if s1.hasDB = true then _ else s1) = s2
  have h2 : ⟪s2⟫ := by
    rw [← hs2]
    split
    · exact hR.emit _ _ rfl h
    · exact h
  split
  · exact h2
  · exact rs2_getRuleInfoForKey hR key s2 h2


/-! ### what Crash2.lean does not have -/

omit hR in
theorem rs2_finishedTaskWake (task : Key) (ti : TaskInfo) (s : State) (h : ⟪s⟫) : ⟪finishedTaskWake task ti s⟫ := h

theorem rs2A_stA1 (a : Async) (s : State) (h : ⟪s⟫) : ⟪(stA1 a s).2.2⟫ :=
  rs2A_scanRequestsLoopA hR _ _ _ _ h

theorem rs2A_stA2 (a : Async) (s : State) (h : ⟪s⟫) : ⟪(stA2 a s).2.2⟫ :=
  rs2A_inputRequestsLoopA hR _ _ _ _ (rs2A_stA1 hR a s h)

theorem rs2A_stA3 (a : Async) (s : State) (h : ⟪s⟫) : ⟪(stA3 a s).2.2⟫ :=
  rs2A_finishedInputsLoopA hR _ _ _ _ (rs2A_stA2 hR a s h)

theorem rs2A_stA4 (a : Async) (s : State) (h : ⟪s⟫) : ⟪(stA4 a s).2.2⟫ :=
  rs2A_readyTasksLoopA hR _ _ _ _ (rs2A_stA3 hR a s h)

/-- the top of an `executeLoopA` iteration: the item boundary and hook point 0 -/
theorem rs2A_loopTop (a : Async) (s : State) (h : ⟪s⟫) : ⟪hook 0 (asyncPoint a s).2⟫ :=
  rs2_hook hR 0 _ (rs2A_asyncPoint hR a s h)

/-- `build()` from its start up to and including `QC` -/
theorem rs2A_buildStartA (s : State) (h : ⟪s⟫) : ⟪buildStartA s⟫ := by
  unfold buildStartA
  have h0 : ⟪(if s.hasDB = true then emit .DB s else s)⟫ := by
    split
    · exact hR.emit _ _ rfl h
    · exact h
  exact hR.emit .QC _ rfl h0

/-- `DB` alone (the cancelled-before-start exit of `buildPreA`) -/
theorem rs2A_buildDB (s : State) (h : ⟪s⟫) : ⟪(if s.hasDB = true then emit .DB s else s)⟫ := by
  split
  · exact hR.emit _ _ rfl h
  · exact h

theorem rs2_finishDB (s : State) (h : ⟪s⟫) : ⟪finishDB s⟫ := by
  unfold finishDB
  split
  · exact hR.emit _ _ rfl h
  · exact h

theorem rs2_closeOf (p : Val × State) (h : ⟪p.2⟫) : ⟪closeOf p⟫ := by
  unfold closeOf
  exact hR.emit _ _ rfl (hR.emit (.R p.1) { p.2 with buildActive := false } rfl h)

/-- the end of `runBuildA` after the work loop: `DI`, `DE`, `R v`, `Z a b` -/
theorem rs2A_buildEnd (key : Key) (r : Bool × State) (h : ⟪r.2⟫) :
    ⟪closeOf ((buildTail key r).1, finishDB (buildTail key r).2)⟫ :=
  rs2_closeOf hR _ (rs2_finishDB hR _ (rs2A_buildTail hR key r h))

/-- the start of `runBuildA`: `B key`, from a recorder that has been reset -/
theorem rs2A_runBuildStart (key cancelAt : Nat) (sched : List SchedItem) (s : State) (h : R false []) :
    ⟪emit (.B key) (buildInit cancelAt sched s)⟫ :=
  hR.emit (.B key) (buildInit cancelAt sched s) rfl h

/-- a failed write: `DS k row`, `ER 6`, the drain, `cancelTail` -/
theorem rs2A_failExit (a : Async) (task : Key) (s : State) (h : ⟪finishedTaskPre task s⟫) :
    ⟪(cancelRemainingTasksA a (failExitState task s)).2⟫ := by
  unfold failExitState
  exact rs2A_cancelRemainingTasksA hR _ _
    (hR.emit (.ER 6) _ rfl (hR.emit (.DS (s.task task).forRuleInfo _) (finishedTaskPre task s) rfl h))

/-- the exit of `finishedTasksLoopA` after a failed write, as the loop writes it -/
theorem rs2A_failExit' (a : Async) (s : State) (h : ⟪s⟫) :
    ⟪(cancelRemainingTasksA a { emit (.ER 6) s with
        numOutstandingUnfinishedTasks := (emit (.ER 6) s).numOutstandingUnfinishedTasks - 1 }).2⟫ :=
  rs2A_cancelRemainingTasksA hR _ _ (hR.emit (.ER 6) s rfl h)

end PreserveS

/-! ## the instance: the tokens recorded on top of an older trace -/

/-- the trace is `new ++ tr0` and every token of `new` satisfies `Q` -/
def NewQ (Q : Tok → Prop) (tr0 : List Tok) (_ : Bool) (tr : List Tok) : Prop := ∃ new, tr = new ++ tr0 ∧ ∀ t ∈ new, Q t

theorem newQ_refl (Q : Tok → Prop) (s : State) : NewQ Q s.trace s.halted s.trace := ⟨[], rfl, fun _ h => by cases h⟩

theorem newQ_emit {Q : Tok → Prop} (hX : Q .X) (tr0 : List Tok) (t : Tok) (s : State) (ht : Q t)
    (h : NewQ Q tr0 s.halted s.trace) : NewQ Q tr0 (emit t s).halted (emit t s).trace := by
  by_cases hh : s.halted = true
  · rw [emit_halted t s hh]; exact h
  · have hh' : s.halted = false := by simpa using hh
    obtain ⟨new, hp, hq⟩ := h
    rcases emit_spec t s hh' with e | ⟨_, e⟩ <;> rw [e]
    · refine ⟨t :: new, by simp [hp], fun x hx => ?_⟩
      rcases List.mem_cons.1 hx with hx | hx
      · subst hx; exact ht
      · exact hq x hx
    · refine ⟨.X :: t :: new, by simp [hp], fun x hx => ?_⟩
      rcases List.mem_cons.1 hx with hx | hx
      · subst hx; exact hX
      · rcases List.mem_cons.1 hx with hx | hx
        · subst hx; exact ht
        · exact hq x hx

theorem newQ_halt {Q : Tok → Prop} (tr0 : List Tok) (t : Tok) (s : State) (ht : Q t)
    (h : NewQ Q tr0 s.halted s.trace) : NewQ Q tr0 (halt t s).halted (halt t s).trace := by
  by_cases hh : s.halted = true
  · have : halt t s = s := by simp [EngineImpl.halt, hh]
    rw [this]; exact h
  · have hh' : s.halted = false := by simpa using hh
    obtain ⟨new, hp, hq⟩ := h
    rw [halt_spec t s hh']
    refine ⟨t :: new, by simp [hp], fun x hx => ?_⟩
    rcases List.mem_cons.1 hx with hx | hx
    · subst hx; exact ht
    · exact hq x hx

theorem newQ_doCancel {Q : Tok → Prop} (hX : Q .X) (tr0 : List Tok) (s : State)
    (h : NewQ Q tr0 s.halted s.trace) : NewQ Q tr0 (doCancel s).halted (doCancel s).trace := by
  by_cases hh : s.halted = true
  · have e : (doCancel s).trace = s.trace := by
      unfold EngineImpl.doCancel; by_cases hc : s.cancelIssued = true <;> simp [hc, hh]
    unfold NewQ; rw [e]; exact h
  · have hh' : s.halted = false := by simpa using hh
    obtain ⟨new, hp, hq⟩ := h
    rcases doCancel_spec s hh' with e | ⟨_, e⟩ <;> rw [e]
    · exact ⟨new, hp, hq⟩
    · refine ⟨.X :: new, by simp [hp], fun x hx => ?_⟩
      rcases List.mem_cons.1 hx with hx | hx
      · subst hx; exact hX
      · exact hq x hx

/-- **the instance**: every token recorded on top of `tr0` is not `S k 2` -/
theorem closedS_new (tr0 : List Tok) : ClosedS (NewQ (fun t => Tok.isS2b t = false) tr0) where
  emit := fun t s ht h => newQ_emit (Q := fun t => Tok.isS2b t = false) rfl tr0 t s ht h
  halt := fun t s ht h => newQ_halt tr0 t s (isS2b_of_isBad ht) h
  doCancel := fun s h => newQ_doCancel (Q := fun t => Tok.isS2b t = false) rfl tr0 s h

/-! ## the corollaries in `Emits` form -/

/-- from `s` to `s'` the trace only grew, and by tokens that are not `S k 2` -/
def NoS2 (s s' : State) : Prop := ∃ toks, Emits s toks s' ∧ ∀ t ∈ toks, Tok.isS2b t = false

theorem noS2_iff (s s' : State) : NoS2 s s' ↔ ∃ toks, Emits s toks s' ∧ ∀ t ∈ toks, Tok.isS2b t = false := Iff.rfl

/-- the other form: ANY token list between the two states has no `S k 2` -/
theorem NoS2.of_emits {s s' : State} (h : NoS2 s s') {toks : List Tok} (he : Emits s toks s') :
    ∀ t ∈ toks, Tok.isS2b t = false := by
  obtain ⟨toks', he', hq⟩ := h
  rw [emits_inj he he']; exact hq

theorem NoS2.refl (s : State) : NoS2 s s := ⟨[], Emits.refl s, fun _ h => by cases h⟩

theorem NoS2.of_trace_eq {s s' : State} (h : s'.trace = s.trace) : NoS2 s s' :=
  ⟨[], by simp [Emits, h], fun _ h => by cases h⟩

theorem NoS2.trans {s1 s2 s3 : State} (a : NoS2 s1 s2) (b : NoS2 s2 s3) : NoS2 s1 s3 := by
  obtain ⟨t1, e1, p1⟩ := a
  obtain ⟨t2, e2, p2⟩ := b
  refine ⟨t1 ++ t2, e1.trans e2, fun t ht => ?_⟩
  rcases List.mem_append.1 ht with h | h
  · exact p1 t h
  · exact p2 t h

/-- a token list that contains `S k 2` is not what a `NoS2` step recorded -/
theorem NoS2.not_S2 {s s' : State} (h : NoS2 s s') {toks : List Tok} (he : Emits s toks s') (k : Key) : Tok.S k 2 ∉ toks :=
  fun hm => by have := h.of_emits he _ hm; cases this

/-- from the recorder framework to `NoS2` -/
theorem noS2_of {s s' : State}
    (h : ∀ {R : Bool → List Tok → Prop}, ClosedS R → R s.halted s.trace → R s'.halted s'.trace) : NoS2 s s' := by
  obtain ⟨new, hp, hq⟩ := h (closedS_new s.trace) (newQ_refl _ s)
  exact ⟨new.reverse, by simp [Emits, hp], fun t ht => hq t (List.mem_reverse.1 ht)⟩

theorem noS2_modScanRecord (k : Key) (f : RuleScanRecord → RuleScanRecord) (s : State) : NoS2 s (modScanRecord k f s) :=
  noS2_of (fun hR => rs2_modScanRecord hR k f s)
theorem noS2_getRuleInfoForKey (k : Key) (s : State) : NoS2 s (getRuleInfoForKey k s) :=
  noS2_of (fun hR => rs2_getRuleInfoForKey hR k s)
theorem noS2_addTaskInputRequest (task key inputID : Nat) (oo su : Bool) (s : State) :
    NoS2 s (addTaskInputRequest task key inputID oo su s) :=
  noS2_of (fun hR => rs2_addTaskInputRequest hR task key inputID oo su s)
theorem noS2_taskNeedsInput (task key inputID : Nat) (s : State) : NoS2 s (taskNeedsInput task key inputID s) :=
  noS2_of (fun hR => rs2_taskNeedsInput hR task key inputID s)
theorem noS2_taskNeedsSingleUseInput (task key inputID : Nat) (s : State) :
    NoS2 s (taskNeedsSingleUseInput task key inputID s) :=
  noS2_of (fun hR => rs2_taskNeedsSingleUseInput hR task key inputID s)
theorem noS2_taskMustFollow (task key : Nat) (s : State) : NoS2 s (taskMustFollow task key s) :=
  noS2_of (fun hR => rs2_taskMustFollow hR task key s)
theorem noS2_taskDiscoveredDependency (task key : Nat) (s : State) : NoS2 s (taskDiscoveredDependency task key s) :=
  noS2_of (fun hR => rs2_taskDiscoveredDependency hR task key s)
theorem noS2_taskIsComplete (task : Key) (v : Val) (fc : Bool) (s : State) : NoS2 s (taskIsComplete task v fc s) :=
  noS2_of (fun hR => rs2_taskIsComplete hR task v fc s)
theorem noS2_issue (task : Key) (l : List Req) (s : State) : NoS2 s (issue task l s) :=
  noS2_of (fun hR => rs2_issue hR task l s)
theorem noS2_taskStart (task : Key) (s : State) : NoS2 s (taskStart task s) :=
  noS2_of (fun hR => rs2_taskStart hR task s)
theorem noS2_taskProvideValue (task : Key) (id : Nat) (key : Key) (v : Val) (s : State) :
    NoS2 s (taskProvideValue task id key v s) :=
  noS2_of (fun hR => rs2_taskProvideValue hR task id key v s)
theorem noS2_taskComplete (task : Key) (s : State) : NoS2 s (taskComplete task s) :=
  noS2_of (fun hR => rs2_taskComplete hR task s)
theorem noS2_reportDiscovered (task : Key) (l : List Key) (s : State) : NoS2 s (reportDiscovered task l s) :=
  noS2_of (fun hR => rs2_reportDiscovered hR task l s)
theorem noS2_taskInputsAvailable (task : Key) (s : State) : NoS2 s (taskInputsAvailable task s) :=
  noS2_of (fun hR => rs2_taskInputsAvailable hR task s)
theorem noS2_completeKey (k : Key) (s : State) : NoS2 s (completeKey k s).2 :=
  noS2_of (fun hR => rs2_completeKey hR k s)
theorem noS2_completeSmallest (s : State) : NoS2 s (completeSmallest s).2 :=
  noS2_of (fun hR => rs2_completeSmallest hR s)
theorem noS2_completeKeys (l : List Key) (any : Bool) (s : State) : NoS2 s (completeKeys l any s).2 :=
  noS2_of (fun hR => rs2_completeKeys hR l any s)
theorem noS2_hook (point : Nat) (s : State) : NoS2 s (hook point s) :=
  noS2_of (fun hR => rs2_hook hR point s)
theorem noS2_scanRule (k : Key) (s : State) : NoS2 s (scanRule k s).2 :=
  noS2_of (fun hR => rs2_scanRule hR k s)
theorem noS2_demandRule (k : Key) (s : State) : NoS2 s (demandRule k s).2 :=
  noS2_of (fun hR => rs2_demandRule hR k s)
theorem noS2_finishScanRequest (k : Key) (st : StateKind) (s : State) : NoS2 s (finishScanRequest k st s) :=
  noS2_of (fun hR => rs2_finishScanRequest hR k st s)
theorem noS2_scanLoop (fuel : Nat) (r : RuleScanRequest) (s : State) : NoS2 s (scanLoop fuel r s) :=
  noS2_of (fun hR => rs2_scanLoop hR fuel r s)
theorem noS2_processRuleScanRequest (r : RuleScanRequest) (s : State) : NoS2 s (processRuleScanRequest r s) :=
  noS2_of (fun hR => rs2_processRuleScanRequest hR r s)
theorem noS2_decrementTaskWaitCount (task : Key) (s : State) : NoS2 s (decrementTaskWaitCount task s) :=
  noS2_of (fun hR => rs2_decrementTaskWaitCount hR task s)
theorem noS2_processInputRequest (r : TaskInputRequest) (s : State) : NoS2 s (processInputRequest r s) :=
  noS2_of (fun hR => rs2_processInputRequest hR r s)
theorem noS2_finishedInputStep (task : Key) (r : TaskInputRequest) (s : State) : NoS2 s (finishedInputStep task r s) :=
  noS2_of (fun hR => rs2_finishedInputStep hR task r s)
theorem noS2_readyStep (task : Key) (s : State) : NoS2 s (readyStep task s) :=
  noS2_of (fun hR => rs2_readyStep hR task s)
theorem noS2_pushDiscovered (l : List Dep) (s : State) : NoS2 s (pushDiscovered l s) :=
  noS2_of (fun hR => rs2_pushDiscovered hR l s)
theorem noS2_setRuleResult (k : Key) (res : Res) (s : State) : NoS2 s (setRuleResult k res s).2 :=
  noS2_of (fun hR => rs2_setRuleResult hR k res s)
theorem noS2_finishedTaskWake (task : Key) (ti : TaskInfo) (s : State) : NoS2 s (finishedTaskWake task ti s) :=
  noS2_of (fun _ => rs2_finishedTaskWake task ti s)
theorem noS2_breakCycleLoop (l : List Key) (s : State) : NoS2 s (breakCycleLoop l s).2 :=
  noS2_of (fun hR => rs2_breakCycleLoop hR l s)
theorem noS2_resolveCycle (key : Key) (s : State) : NoS2 s (resolveCycle key s).2 :=
  noS2_of (fun hR => rs2_resolveCycle hR key s)
theorem noS2_waitStep (s : State) : NoS2 s (waitStep s) :=
  noS2_of (fun hR => rs2A_waitStep hR s)
theorem noS2_asyncStep (it : SchedItem) (s : State) : NoS2 s (asyncStep it s) :=
  noS2_of (fun hR => rs2A_asyncStep hR it s)
theorem noS2_asyncPoint (a : Async) (s : State) : NoS2 s (asyncPoint a s).2 :=
  noS2_of (fun hR => rs2A_asyncPoint hR a s)
theorem noS2_loopTop (a : Async) (s : State) : NoS2 s (hook 0 (asyncPoint a s).2) :=
  noS2_of (fun hR => rs2A_loopTop hR a s)
theorem noS2_scanRequestsLoopA (fuel : Nat) (w : Bool) (a : Async) (s : State) : NoS2 s (scanRequestsLoopA fuel w a s).2.2 :=
  noS2_of (fun hR => rs2A_scanRequestsLoopA hR fuel w a s)
theorem noS2_inputRequestsLoopA (fuel : Nat) (w : Bool) (a : Async) (s : State) : NoS2 s (inputRequestsLoopA fuel w a s).2.2 :=
  noS2_of (fun hR => rs2A_inputRequestsLoopA hR fuel w a s)
theorem noS2_finishedInputsLoopA (fuel : Nat) (w : Bool) (a : Async) (s : State) :
    NoS2 s (finishedInputsLoopA fuel w a s).2.2 :=
  noS2_of (fun hR => rs2A_finishedInputsLoopA hR fuel w a s)
theorem noS2_readyTasksLoopA (fuel : Nat) (w : Bool) (a : Async) (s : State) : NoS2 s (readyTasksLoopA fuel w a s).2.2 :=
  noS2_of (fun hR => rs2A_readyTasksLoopA hR fuel w a s)
theorem noS2_stA1 (a : Async) (s : State) : NoS2 s (stA1 a s).2.2 := noS2_of (fun hR => rs2A_stA1 hR a s)
theorem noS2_stA2 (a : Async) (s : State) : NoS2 s (stA2 a s).2.2 := noS2_of (fun hR => rs2A_stA2 hR a s)
theorem noS2_stA3 (a : Async) (s : State) : NoS2 s (stA3 a s).2.2 := noS2_of (fun hR => rs2A_stA3 hR a s)
theorem noS2_stA4 (a : Async) (s : State) : NoS2 s (stA4 a s).2.2 := noS2_of (fun hR => rs2A_stA4 hR a s)
theorem noS2_drainLoopA (fuel : Nat) (a : Async) (s : State) : NoS2 s (drainLoopA fuel a s).2 :=
  noS2_of (fun hR => rs2A_drainLoopA hR fuel a s)
theorem noS2_cancelTail (s : State) : NoS2 s (cancelTail s) :=
  noS2_of (fun _ => rsA_cancelTail s)
theorem noS2_cancelRemainingTasksA (a : Async) (s : State) : NoS2 s (cancelRemainingTasksA a s).2 :=
  noS2_of (fun hR => rs2A_cancelRemainingTasksA hR a s)
theorem noS2_buildDB (s : State) : NoS2 s (if s.hasDB = true then emit .DB s else s) :=
  noS2_of (fun hR => rs2A_buildDB hR s)
theorem noS2_buildStartA (s : State) : NoS2 s (buildStartA s) :=
  noS2_of (fun hR => rs2A_buildStartA hR s)
theorem noS2_buildTail (key : Key) (r : Bool × State) : NoS2 r.2 (buildTail key r).2 :=
  noS2_of (fun hR => rs2A_buildTail hR key r)
theorem noS2_finishDB (s : State) : NoS2 s (finishDB s) :=
  noS2_of (fun hR => rs2_finishDB hR s)
theorem noS2_closeOf (p : Val × State) : NoS2 p.2 (closeOf p) :=
  noS2_of (fun hR => rs2_closeOf hR p)
/-- the end of `runBuildA` after the work loop (`r` = result of `executeTasksA`): `DI`, `DE`, `R v`, `Z a b` -/
theorem noS2_buildEnd (key : Key) (r : Bool × State) :
    NoS2 r.2 (closeOf ((buildTail key r).1, finishDB (buildTail key r).2)) :=
  noS2_of (fun hR => rs2A_buildEnd hR key r)
/-- **a failed write to the end of `cancelRemainingTasks`**: relative to `finishedTaskPre task s` -/
theorem noS2_failExit (a : Async) (task : Key) (s : State) :
    NoS2 (finishedTaskPre task s) (cancelRemainingTasksA a (failExitState task s)).2 :=
  noS2_of (fun hR => rs2A_failExit hR a task s)
theorem noS2_failExit' (a : Async) (s : State) :
    NoS2 s (cancelRemainingTasksA a { emit (.ER 6) s with
      numOutstandingUnfinishedTasks := (emit (.ER 6) s).numOutstandingUnfinishedTasks - 1 }).2 :=
  noS2_of (fun hR => rs2A_failExit' hR a s)

/-- the start of `runBuildA` (`B key`, `DB`, `QC`): everything recorded is not `S k 2` -/
theorem buildStart_noS2 (key cancelAt : Nat) (sched : List SchedItem) (s : State) :
    ∀ t ∈ (buildStartA (emit (.B key) (buildInit cancelAt sched s))).trace, Tok.isS2b t = false := by
  obtain ⟨new, hp, hq⟩ := rs2A_buildStartA (closedS_new []) _
    (rs2A_runBuildStart (closedS_new []) key cancelAt sched s ⟨[], rfl, fun _ h => by cases h⟩)
  rw [hp, List.append_nil]; exact hq

/-! ## `finishedTaskPre`: `S k 2`, then registrations only -/

theorem lgx_getRuleInfoForKey (tr0 : List Tok) (k : Key) (s : State)
    (h : NewQ (fun t => Tok.isLGX t = true) tr0 s.halted s.trace) :
    NewQ (fun t => Tok.isLGX t = true) tr0 (getRuleInfoForKey k s).halted (getRuleInfoForKey k s).trace := by
  unfold getRuleInfoForKey
  split
  · exact h
  · dsimp only
    split
    · split
      · exact newQ_emit (Q := fun t => Tok.isLGX t = true) rfl tr0 _ _ rfl
          (newQ_emit (Q := fun t => Tok.isLGX t = true) rfl tr0 _ _ rfl h)
      · exact newQ_emit (Q := fun t => Tok.isLGX t = true) rfl tr0 _ _ rfl
          (newQ_emit (Q := fun t => Tok.isLGX t = true) rfl tr0 _ _ rfl h)
    · exact newQ_emit (Q := fun t => Tok.isLGX t = true) rfl tr0 _ _ rfl h

theorem lgx_pushDiscovered (tr0 : List Tok) : ∀ (l : List Dep) (s : State),
    NewQ (fun t => Tok.isLGX t = true) tr0 s.halted s.trace →
    NewQ (fun t => Tok.isLGX t = true) tr0 (pushDiscovered l s).halted (pushDiscovered l s).trace
  | [], s, h => h
  | d :: ds, s, h => by
    rw [pushDiscovered]
    exact lgx_pushDiscovered tr0 ds _ (lgx_getRuleInfoForKey tr0 d.key s h)

/-- `pushDiscovered` records registrations (`L`, `G`, `X`) only — no hypothesis -/
theorem pushDiscovered_lgx (l : List Dep) (s : State) :
    ∃ toks, Emits s toks (pushDiscovered l s) ∧ ∀ t ∈ toks, Tok.isLGX t = true := by
  obtain ⟨new, hp, hq⟩ := lgx_pushDiscovered s.trace l s (newQ_refl _ s)
  exact ⟨new.reverse, by simp [Emits, hp], fun t ht => hq t (List.mem_reverse.1 ht)⟩

/-- **`finishedTaskPre` records exactly `S k 2` followed by registrations** (`L`, `G`, `X`), `k` the task's rule -/
theorem finishedTaskPre_emits (task : Key) (s : State) (hh : s.halted = false) :
    ∃ regs, Emits s (.S (s.task task).forRuleInfo 2 :: regs) (finishedTaskPre task s) ∧
      ∀ t ∈ regs, Tok.isLGX t = true := by
  unfold finishedTaskPre
  dsimp only
  generalize hs1 : s.modRule (s.task task).forRuleInfo (fun ri => setComplete s { ri with inProgressInfo := .null }) = s1
  have hh1 : s1.halted = false := by rw [← hs1]; exact hh
  have ht1 : s1.trace = s.trace := by rw [← hs1]; rfl
  have h2 : NewQ (fun t => Tok.isLGX t = true) (.S (s.task task).forRuleInfo 2 :: s.trace)
      (emit (.S (s.task task).forRuleInfo 2) s1).halted (emit (.S (s.task task).forRuleInfo 2) s1).trace := by
    rcases emit_spec (.S (s.task task).forRuleInfo 2) s1 hh1 with e | ⟨_, e⟩ <;> rw [e]
    · exact ⟨[], by simp [ht1], fun _ h => by cases h⟩
    · exact ⟨[.X], by simp [ht1], fun t ht => by simp at ht; subst ht; rfl⟩
  obtain ⟨new, hp, hq⟩ := lgx_pushDiscovered _ (s.task task).discoveredDependencies
    ((emit (.S (s.task task).forRuleInfo 2) s1).modRule (s.task task).forRuleInfo
      (fun ri => { ri with result := { ri.result with deps := ri.result.deps ++ (s.task task).discoveredDependencies } })) h2
  exact ⟨new.reverse, by simp [Emits, hp], fun t ht => hq t (List.mem_reverse.1 ht)⟩

/-- the same with the monitor's token classes: the registrations are `isReg`, hence not `S k 2` -/
theorem finishedTaskPre_emits_reg (task : Key) (s : State) (hh : s.halted = false) :
    ∃ regs, Emits s ([.S (s.task task).forRuleInfo 2] ++ regs) (finishedTaskPre task s) ∧
      (∀ t ∈ regs, Tok.isReg t = true) ∧ ∀ t ∈ regs, Tok.isS2b t = false := by
  obtain ⟨regs, he, hq⟩ := finishedTaskPre_emits task s hh
  exact ⟨regs, he, fun t ht => isReg_of_isLGX (hq t ht), fun t ht => isS2b_of_isReg (isReg_of_isLGX (hq t ht))⟩

end LLBuild.Refine
