/-
IM5 — process death in the middle of a build (C04): MONITOR FACTS ALONG A CUT PREFIX and THE CRASH STEP.
* `step_inner` / `tstep_inner` / `trun_inner`: no token except `DE` touches the committed database (`cdb`, `cdbIter`) or
  the external state, and no token except `Z` clears the target; so after a prefix `B key :: rest` without `DE`/`Z` the
  monitor accepts `crash` (`trun_B_target`, `step_crash`);
* `Committed m`: the committed database IS the database (`cdbIter = dbIter`, `cdb.res = db.res`).  NOT a monitor invariant
  (the monitor would accept a build that ends without `DE`): `dbEnd` and `crash` establish it, everything but
  `finished`/`dbIter` keeps it; for a COMPLETED build of the concrete engine it follows from the shape of the trace,
  `… ; DE [; X] ; R v ; Z n 0` (`runBuildA_trace_end`, `runBuildA_committed`);
* `crash_relIdle`: from `RelIdle rules s m ∧ Committed m`, after ANY accepted prefix `B key :: rest` (no `DE`, no `Z`; ending
  in any phase, also inside a write window) the monitor accepts `crash` and is then related to `opRestart s` — the new
  engine on the store the killed build never changed.
-/
import LLBuild.Lemmas.Refine.Crash0
import LLBuild.Lemmas.Refine.Final3

namespace LLBuild.Refine
open LLBuild.Engine LLBuild.Engine.DSL LLBuild.EngineImpl

def Tok.isDE : Tok → Bool
  | .DE => true
  | _ => false

def Tok.isZ : Tok → Bool
  | .Z _ _ => true
  | _ => false

/-! ## 1. what one event leaves alone -/

/-- the events inside a build before its commit: not `dbEnd`, not `tail`, none of the harness ops -/
def Event.isInner : Event → Bool
  | .dbEnd => false
  | .tail _ _ => false
  | .mutate _ _ => false
  | .restart => false
  | .wipe => false
  | .crash => false
  | _ => true

/-- `m'` has the committed database, the external state and (if any) a target of `m` -/
def InnerFrame (m m' : Engine.St) : Prop :=
  m'.cdb = m.cdb ∧ m'.cdbIter = m.cdbIter ∧ m'.env = m.env ∧ (m.target.isSome = true → m'.target.isSome = true)

theorem InnerFrame.refl (m : Engine.St) : InnerFrame m m := ⟨rfl, rfl, rfl, id⟩

theorem InnerFrame.trans {m1 m2 m3 : Engine.St} (a : InnerFrame m1 m2) (b : InnerFrame m2 m3) : InnerFrame m1 m3 :=
  ⟨b.1.trans a.1, b.2.1.trans a.2.1, b.2.2.1.trans a.2.2.1, fun h => b.2.2.2 (a.2.2.2 h)⟩

theorem step_inner {P : Program} {m m' : Engine.St} {e : Event} (h : step P m e = some m')
    (he : Event.isInner e = true) : InnerFrame m m' := by
  unfold InnerFrame
  cases e <;> first
    | (exact Bool.noConfusion he)
    | (simp only [step] at h
       repeat' split at h
       all_goals (cases h; first | done | exact ⟨rfl, rfl, rfl, id⟩ | exact ⟨rfl, rfl, rfl, fun _ => rfl⟩))

/-- `buildStart` sets the target -/
theorem step_buildStart_target {P : Program} {m m' : Engine.St} {k : Key} (h : step P m (.buildStart k) = some m') :
    m'.target.isSome = true := by
  simp only [step] at h
  split at h
  · cases h; rfl
  · cases h

/-! ## 2. one token, a token run -/

/-- inversion of `tstep`: `S k 2` is only buffered; every other accepted token is one event (its own, or the merged
`finished k row` for `DS k row`) -/
theorem tstep_event {P : Program} {ms ms' : MSt} {t : Tok} (h : tstep P ms t = some ms') :
    ((∃ k, t = .S k 2) ∧ ms'.m = ms.m) ∨
    ∃ e, (t.toEvent? = some e ∨ ∃ k row, t = .DS k row ∧ e = .finished k row) ∧ step P ms.m e = some ms'.m := by
  obtain ⟨m, pend⟩ := ms
  cases pend with
  | none =>
    cases hS : Tok.isS2 t with
    | some k =>
      have ht := isS2_eq_some hS; subst ht
      rw [tstep_S2] at h; cases h
      exact Or.inl ⟨⟨k, rfl⟩, rfl⟩
    | none =>
      rw [tstep_none_notS hS] at h
      cases hte : t.toEvent? with
      | none => rw [hte] at h; simp at h
      | some e =>
        rw [hte] at h; simp only [Option.bind_some] at h
        cases hst : step P m e with
        | none => rw [hst] at h; simp at h
        | some m1 =>
          rw [hst] at h; simp only [Option.map_some, Option.some.injEq] at h; subst h
          exact Or.inr ⟨e, Or.inl rfl, hst⟩
  | some k =>
    unfold tstep at h
    simp only at h
    cases t with
    | DS k' row =>
      simp only at h
      split at h
      · rename_i hk
        subst hk
        cases hst : step P m (.finished k row) with
        | none => rw [hst] at h; simp at h
        | some m2 =>
          rw [hst] at h; simp only [Option.map_some, Option.some.injEq] at h; subst h
          exact Or.inr ⟨_, Or.inr ⟨k, row, rfl, rfl⟩, hst⟩
      · simp at h
    | L a =>
      simp only [Tok.isReg, Tok.toEvent?, if_true] at h
      cases hst : step P m (.lookup a) with
      | none => rw [hst] at h; simp at h
      | some m1 =>
        rw [hst] at h; simp only [Option.map_some, Option.some.injEq] at h; subst h
        exact Or.inr ⟨_, Or.inl rfl, hst⟩
    | G a f =>
      simp only [Tok.isReg, Tok.toEvent?, if_true] at h
      cases hst : step P m (.dbGet a f) with
      | none => rw [hst] at h; simp at h
      | some m1 =>
        rw [hst] at h; simp only [Option.map_some, Option.some.injEq] at h; subst h
        exact Or.inr ⟨_, Or.inl rfl, hst⟩
    | X =>
      simp only [Tok.isReg, Tok.toEvent?, if_true] at h
      cases hst : step P m .cancel with
      | none => rw [hst] at h; simp at h
      | some m1 =>
        rw [hst] at h; simp only [Option.map_some, Option.some.injEq] at h; subst h
        exact Or.inr ⟨_, Or.inl rfl, hst⟩
    | C a v f =>
      simp only [Tok.isReg, Tok.toEvent?, if_true] at h
      cases hst : step P m (.complete a v (f != 0)) with
      | none => rw [hst] at h; simp at h
      | some m1 =>
        rw [hst] at h; simp only [Option.map_some, Option.some.injEq] at h; subst h
        exact Or.inr ⟨_, Or.inl rfl, hst⟩
    | _ => simp [Tok.isReg] at h

/-- the event of a token other than `DE` / `Z` is an inner one -/
theorem toEvent_inner {t : Tok} {e : Event} (h : t.toEvent? = some e) (h1 : Tok.isDE t = false) (h2 : Tok.isZ t = false) :
    Event.isInner e = true := by
  cases t with
  | S k n =>
    rcases n with _ | _ | n
    · simp only [Tok.toEvent?, Option.some.injEq] at h; subst h; rfl
    · simp only [Tok.toEvent?, Option.some.injEq] at h; subst h; rfl
    · simp [Tok.toEvent?] at h
  | DE => cases h1
  | Z a b => cases h2
  | _ => first
    | (simp only [Tok.toEvent?, Option.some.injEq] at h; subst h; rfl)
    | (simp [Tok.toEvent?] at h)

theorem tstep_inner {P : Program} {ms ms' : MSt} {t : Tok} (h : tstep P ms t = some ms')
    (h1 : Tok.isDE t = false) (h2 : Tok.isZ t = false) : InnerFrame ms.m ms'.m := by
  rcases tstep_event h with ⟨_, e⟩ | ⟨e, he | ⟨k, row, _, he⟩, hst⟩
  · rw [e]; exact InnerFrame.refl _
  · exact step_inner hst (toEvent_inner he h1 h2)
  · subst he; exact step_inner hst rfl

/-- **(1a)** along a token run without `DE` and `Z`: `env`, `cdb`, `cdbIter` are unchanged and a target stays -/
theorem trun_inner {P : Program} : ∀ (p : List Tok) (ms msp : MSt), trun P ms p = some msp →
    (∀ t ∈ p, Tok.isDE t = false ∧ Tok.isZ t = false) → InnerFrame ms.m msp.m
  | [], ms, msp, h, _ => by
    simp only [trun, Option.some.injEq] at h; subst h; exact InnerFrame.refl _
  | t :: ts, ms, msp, h, hp => by
    simp only [trun] at h
    cases hts : tstep P ms t with
    | none => rw [hts] at h; simp at h
    | some ms1 =>
      rw [hts] at h; simp only [Option.bind_some] at h
      have ht := hp t List.mem_cons_self
      exact (tstep_inner hts ht.1 ht.2).trans
        (trun_inner ts ms1 msp h (fun t' ht' => hp t' (List.mem_cons_of_mem _ ht')))

/-- **(1b)** a run `B key :: rest` without `DE`/`Z` ends inside the build: a target is set -/
theorem trun_B_target {P : Program} {m : Engine.St} {key : Key} {rest : List Tok} {msp : MSt}
    (h : trun P ⟨m, none⟩ (.B key :: rest) = some msp)
    (hp : ∀ t ∈ Tok.B key :: rest, Tok.isDE t = false ∧ Tok.isZ t = false) :
    InnerFrame m msp.m ∧ msp.m.target.isSome = true := by
  have hf := trun_inner _ _ _ h hp
  refine ⟨hf, ?_⟩
  simp only [trun] at h
  cases hts : tstep P ⟨m, none⟩ (.B key) with
  | none => rw [hts] at h; simp at h
  | some ms1 =>
    rw [hts] at h; simp only [Option.bind_some] at h
    have h1 : ms1.m.target.isSome = true := by
      rw [tstep_none_notS (by rfl)] at hts
      simp only [Tok.toEvent?, Option.bind_some] at hts
      cases hst : step P m (.buildStart key) with
      | none => rw [hst] at hts; simp at hts
      | some m1 =>
        rw [hst] at hts; simp only [Option.map_some, Option.some.injEq] at hts; subst hts
        exact step_buildStart_target hst
    exact (trun_inner rest ms1 msp h (fun t ht => hp t (List.mem_cons_of_mem _ ht))).2.2.2 h1

/-! ## 3. the crash event -/

/-- the monitor after `crash` -/
def crashSt (m : Engine.St) : Engine.St :=
  { m with mem := m.cdb, db := m.cdb, epoch := m.cdbIter, dbIter := m.cdbIter,
           status := fun _ => .idle, validSeen := fun _ => none, task := fun _ => {},
           registered := fun _ => false, pending := [], target := none, started := false }

theorem step_crash (P : Program) (m : Engine.St) (h : m.target.isSome = true) :
    step P m .crash = some (crashSt m) := by
  simp [step, h, crashSt]

/-! ## 4. committed-ness -/

/-- the committed database is the database: nothing would be lost by a crash right now -/
def Committed (m : Engine.St) : Prop := m.cdbIter = m.dbIter ∧ ∀ k, m.cdb.res k = m.db.res k

theorem Committed.init : Committed {} := ⟨rfl, fun _ => rfl⟩

/-- the events that write the database without committing -/
def Event.writesDB : Event → Bool
  | .finished _ _ => true
  | .dbIter _ => true
  | _ => false

/-- every event but `finished` / `dbIter` keeps committed-ness (`mutate`, `restart`, `wipe`, `cancel`, `ret`, `tail`, …) -/
theorem Committed.step {P : Program} {m m' : Engine.St} {e : Event} (h : step P m e = some m')
    (he : Event.writesDB e = false) (hc : Committed m) : Committed m' := by
  cases e <;> first
    | (exact Bool.noConfusion he)
    | (simp only [Engine.step] at h
       repeat' split at h
       all_goals (cases h; first | done | exact hc | exact ⟨rfl, fun _ => rfl⟩))

/-- `dbEnd` ESTABLISHES committed-ness -/
theorem Committed.of_dbEnd {P : Program} {m m' : Engine.St} (h : Engine.step P m .dbEnd = some m') : Committed m' := by
  simp only [Engine.step] at h
  split at h
  · cases h; exact ⟨rfl, fun _ => rfl⟩
  · cases h

/-- `crash` ESTABLISHES committed-ness -/
theorem Committed.of_crash {P : Program} {m m' : Engine.St} (h : Engine.step P m .crash = some m') : Committed m' := by
  simp only [Engine.step] at h
  split at h
  · cases h; exact ⟨rfl, fun _ => rfl⟩
  · cases h

theorem Committed.crashSt (m : Engine.St) : Committed (crashSt m) := ⟨rfl, fun _ => rfl⟩

/-- a token whose event is not `finished`/`dbIter` keeps committed-ness (`S k 2` does nothing) -/
theorem Committed.tstep {P : Program} {ms ms' : MSt} {t : Tok} (h : Refine.tstep P ms t = some ms')
    (ht : ∀ e, t.toEvent? = some e → Event.writesDB e = false) (hds : ∀ k row, t ≠ .DS k row)
    (hc : Committed ms.m) : Committed ms'.m := by
  rcases tstep_event h with ⟨_, e⟩ | ⟨e, he | ⟨k, row, he, _⟩, hst⟩
  · rw [e]; exact hc
  · exact Committed.step hst (ht e he) hc
  · exact absurd he (hds k row)

/-- `DE` is accepted only outside a write window, and establishes committed-ness -/
theorem tstep_DE {P : Program} {ms ms' : MSt} (h : Refine.tstep P ms .DE = some ms') : Committed ms'.m := by
  rcases tstep_event h with ⟨⟨k, e⟩, _⟩ | ⟨e, he | ⟨k, row, he, _⟩, hst⟩
  · cases e
  · simp only [Tok.toEvent?, Option.some.injEq] at he; subst he
    exact Committed.of_dbEnd hst
  · cases he

/-! ## 5. a COMPLETED build of the concrete engine ends committed -/

/-- the trace after `R v ; Z n 0` -/
theorem close_trace (v : Val) (sd : State) (hh : sd.halted = false) :
    (emit (.Z (emit (.R v) { sd with buildActive := false }).taskInfos.length 0)
      (emit (.R v) { sd with buildActive := false })).trace = .Z sd.taskInfos.length 0 :: .R v :: sd.trace := by
  have hhA : ({ sd with buildActive := false } : State).halted = false := hh
  have eR := emit_inactive (.R v) { sd with buildActive := false } hhA rfl
  have hhB : (emit (.R v) { sd with buildActive := false }).halted = false := by rw [eR]; exact hh
  have haB : (emit (.R v) { sd with buildActive := false }).buildActive = false := by rw [eR]
  rw [emit_inactive _ _ hhB haB, eR]

/-- the end of the trace of a build that did not halt: `… ; DE [; X] ; R v ; Z n 0` -/
theorem runBuildA_trace_end (key cancelAt : Nat) (sched : List SchedItem) (a : Async) (s : State)
    (hnh : (runBuildA key cancelAt sched a s).halted = false)
    (hdb : (buildPreA key a (emit (.B key) (buildInit cancelAt sched s))).2.hasDB = true) :
    ∃ v n x, (runBuildA key cancelAt sched a s).trace.reverse =
        (buildPreA key a (emit (.B key) (buildInit cancelAt sched s))).2.trace.reverse ++ [.DE] ++ x ++ [.R v, .Z n 0] ∧
      (x = [] ∨ x = [.X]) := by
  have hnhP : (buildPreA key a (emit (.B key) (buildInit cancelAt sched s))).2.halted = false := by
    rw [← runBuildA_pre_halted]; exact hnh
  rw [runBuildA_eq key cancelAt sched a s hdb]
  generalize buildPreA key a (emit (.B key) (buildInit cancelAt sched s)) = p at hnhP ⊢
  obtain ⟨v, sp⟩ := p
  simp only at hnhP ⊢
  unfold closeBuild
  have hh1 : (emit .DE sp).halted = false := by rw [emit_halted_eq]; exact hnhP
  rw [close_trace v (emit .DE sp) hh1]
  rcases emit_spec .DE sp hnhP with e | ⟨_, e⟩
  · exact ⟨v, (emit .DE sp).taskInfos.length, [], by rw [e]; simp, Or.inl rfl⟩
  · exact ⟨v, (emit .DE sp).taskInfos.length, [.X], by rw [e]; simp, Or.inr rfl⟩

/-- `R v` and `Z a b` and `X` keep committed-ness -/
theorem Committed.trun_close {P : Program} : ∀ (p : List Tok) (ms ms' : MSt), trun P ms p = some ms' →
    (∀ t ∈ p, t = .X ∨ (∃ v, t = .R v) ∨ ∃ a b, t = .Z a b) → Committed ms.m → Committed ms'.m
  | [], ms, ms', h, _, hc => by
    simp only [trun, Option.some.injEq] at h; subst h; exact hc
  | t :: ts, ms, ms', h, hp, hc => by
    simp only [trun] at h
    cases hts : Refine.tstep P ms t with
    | none => rw [hts] at h; simp at h
    | some ms1 =>
      rw [hts] at h; simp only [Option.bind_some] at h
      refine Committed.trun_close ts ms1 ms' h (fun t' ht' => hp t' (List.mem_cons_of_mem _ ht')) ?_
      refine Committed.tstep hts ?_ ?_ hc
      · intro e he
        rcases hp t List.mem_cons_self with e1 | ⟨v, e1⟩ | ⟨a, b, e1⟩ <;> subst e1 <;>
          simp only [Tok.toEvent?, Option.some.injEq] at he <;> subst he <;> rfl
      · intro k row e
        rcases hp t List.mem_cons_self with e1 | ⟨v, e1⟩ | ⟨a, b, e1⟩ <;> rw [e1] at e <;> cases e

/-- **a completed build ends committed**: whatever monitor state the token run of a `runBuildA` that did not halt
reaches, its committed database is its database (the trace ends `DE [; X] ; R v ; Z n 0`) -/
theorem runBuildA_committed {rules : List RuleSpec} (hloop : WorkLoopSpecA rules) {s : State} {m : Engine.St}
    (hr : RelIdle rules s m) (key cancelAt : Nat) (sched : List SchedItem) (a : Async)
    (hnh : (runBuildA key cancelAt sched a s).halted = false) {ms ms' : MSt}
    (h : trun (program rules) ms (runBuildA key cancelAt sched a s).trace.reverse = some ms') : Committed ms'.m := by
  obtain ⟨toks1, m1, he1, hrun1, hr1, hh1⟩ := prologue_B hr key cancelAt sched
  have hnhP : (buildPreA key a (emit (.B key) (buildInit cancelAt sched s))).2.halted = false := by
    rw [← runBuildA_pre_halted]; exact hnh
  obtain ⟨toks2, m2, b, he2, hrun2, hp⟩ := buildPreA_sim hloop a hr1 hh1 hnhP
  have hdb : (buildPreA key a (emit (.B key) (buildInit cancelAt sched s))).2.hasDB = true := hp.post.base.hasDB
  obtain ⟨v, n, x, htr, hx⟩ := runBuildA_trace_end key cancelAt sched a s hnh hdb
  rw [htr] at h
  obtain ⟨ms3, h3, h4⟩ := trun_prefix h
  obtain ⟨ms2, h2, h3'⟩ := trun_prefix h3
  obtain ⟨ms1, _, h2'⟩ := trun_prefix h2
  have hc2 : Committed ms2.m := by
    simp only [trun] at h2'
    cases hts : Refine.tstep (program rules) ms1 .DE with
    | none => rw [hts] at h2'; simp at h2'
    | some ms2' =>
      rw [hts] at h2'; simp only [Option.bind_some, Option.some.injEq] at h2'; subst h2'
      exact tstep_DE hts
  have hc3 : Committed ms3.m := by
    refine Committed.trun_close x ms2 ms3 h3' ?_ hc2
    intro t ht
    rcases hx with e | e <;> rw [e] at ht <;> simp at ht
    exact Or.inl ht
  refine Committed.trun_close _ ms3 ms' h4 ?_ hc3
  intro t ht
  simp only [List.mem_cons, List.not_mem_nil, or_false] at ht
  rcases ht with e | e
  · exact Or.inr (Or.inl ⟨v, e⟩)
  · exact Or.inr (Or.inr ⟨n, 0, e⟩)

/-! ## 6. the crash step -/

/-- **(2) the crash step.**  From related, committed states, after ANY accepted cut prefix `B key :: rest` without `DE` and
`Z` (ending in any phase — also inside a write window `S k 2 … ‖ DS k`), the monitor accepts `crash`, and is then related
to the NEW engine on the store as it was when the killed build started (`opRestart s`), committed again. -/
theorem crash_relIdle {rules : List RuleSpec} {s : State} {m : Engine.St} (hr : RelIdle rules s m) (hc : Committed m)
    {key : Key} {rest : List Tok} {msp : MSt}
    (h : trun (program rules) ⟨m, none⟩ (.B key :: rest) = some msp)
    (hp : ∀ t ∈ Tok.B key :: rest, Tok.isDE t = false ∧ Tok.isZ t = false) :
    ∃ mc, step (program rules) msp.m .crash = some mc ∧ RelIdle rules (opRestart s) mc ∧ Committed mc := by
  obtain ⟨⟨hcdb, hcit, henv, _⟩, htgt⟩ := trun_B_target h hp
  refine ⟨crashSt msp.m, step_crash _ _ htgt, ?_, Committed.crashSt _⟩
  have hit : msp.m.cdbIter = s.store.iteration := by rw [hcit, hc.1]; exact hr.dbIter
  have hdb : ∀ k, msp.m.cdb.res k = (s.store.rows.lookup k).getD {} := by
    intro k; rw [hcdb, hc.2 k]; exact hr.db k
  refine { rules_eq := hr.rules_eq, env := henv.trans hr.env, hasDB := rfl, noResolve := hr.noResolve, noFail := hr.noFail,
           epoch := hit, reg := ?_, keyOk := ?_, rulesNodup := List.nodup_nil, sig := ?_, res := ?_,
           resUnreg := fun _ _ => rfl, db := hdb,
           dbBuilt := hr.dbBuilt, dbBuiltLe := (fun k row h => by
             show row.builtAt ≤ s.store.iteration
             rw [hr.iterEq]; exact hr.dbBuiltLe k row h),
           dbIter := hit, builtLe := ?_,
           target := rfl, allIdle := fun _ => rfl, iterEq := rfl, states := ?_, noTasks := rfl, noScanQ := rfl, noInputQ := rfl,
           noFinQ := rfl, noReady := rfl, noFinTasks := rfl, noOutstanding := rfl, noScanning := rfl,
           noDeferred := hr.noDeferred, notActive := hr.notActive }
  all_goals intros
  all_goals simp_all [opRestart, newEngine, crashSt]

end LLBuild.Refine
