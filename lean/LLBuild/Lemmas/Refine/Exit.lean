/-
IM2 — refinement: leaving the work loop (section F of `Todo.lean`, except `Todo_findCycle`).
* `successExit : Todo_successExit` — nothing left to do: the guard of a successful `ret` holds (`RelPost … true`);
* `cancelRemainingTasks_sim : Todo_taskComplete → Todo_cancelRemainingTasks` and
  `cycleExit_sim : Todo_taskComplete → Todo_cycleExit` — both through ONE invariant of the drain (`DrainInv`) and ONE
  core lemma about what follows the drain (`cancelFinish_post`).

The drain invariant.  During the drain finished tasks are dropped without being processed, so `Rel` does not hold
for the engine state itself (`computingWhere`, `finTaskOk`, `outstandingCount` fail).  It holds for a GHOST state `g`
that differs from the real one only in `finishedTaskInfos` / `numOutstandingUnfinishedTasks` (the ghost keeps every
finished task queued): `taskComplete` neither reads nor — apart from appending — writes these two fields
(`taskComplete_frame`), so `Todo_taskComplete` applies to the ghost in every round.  The monitor flag `cycleSeen`
(set by `CY ks`, forbidden by `Rel.noCycle`) is kept outside the relation: `Rel` holds for the monitor state with the
flag as it was, and the tokens of the drain (`C`, `X`, `ER`: `taskComplete_toks`) commute with setting it
(`trun_drainSafe`).  The invariant also carries the count clause `n ≤ |pendingDeferred| + |finishedTaskInfos|` (from
`Rel.outstandingCount`), which gives `drain_noStall`; the two `Todo_…` statements themselves do not need it (they
assume that the result is not halted).
-/
import LLBuild.Lemmas.Refine.Scan
import LLBuild.Lemmas.Refine.Halt

namespace LLBuild.Refine
open LLBuild.Engine LLBuild.Engine.DSL LLBuild.EngineImpl

/-! ## Facts read off `Rel` outside a pending completion -/

/-- in flight for the monitor ⇔ the engine has a task -/
theorem rel_inflight_task {rules : List RuleSpec} {s : State} {m : Engine.St} {h : Hand}
    (hr : Rel rules s ⟨m, none⟩ h) (k : Key) : inflight m k = (s.taskInfos.lookup k).isSome := by
  have h1 : m.status k = statusOf s none k := hr.status k
  have h2 : (s.taskInfos.lookup k).isSome = (statusOf s none k == .running || statusOf s none k == .computing) :=
    hr.taskKeys k
  unfold inflight
  rw [h1, h2]

/-- a rule without a task is not in progress -/
theorem rel_noTask_state {rules : List RuleSpec} {s : State} {m : Engine.St} {h : Hand}
    (hr : Rel rules s ⟨m, none⟩ h) {k : Key} {ri : RuleInfo} (hl : s.ruleInfos.lookup k = some ri)
    (hnt : s.taskInfos.lookup k = none) : StateKind.inProgress ri.state = false := by
  have h2 : (s.taskInfos.lookup k).isSome = (statusOf s none k == .running || statusOf s none k == .computing) :=
    hr.taskKeys k
  rw [hnt] at h2
  simp only [statusOf, hl] at h2
  cases hs : ri.state <;> simp [hs, StateKind.inProgress] at h2 ⊢

theorem resetMem_res_of_not_inflight (m : Engine.St) (k : Key) (h : inflight m k = false) :
    (resetMem m).mem.res k = m.mem.res k := by
  simp [resetMem, h]

theorem resetMem_res_of_inflight (m : Engine.St) (k : Key) (h : inflight m k = true) :
    (resetMem m).mem.res k = { m.mem.res k with builtAt := 0 } := by
  simp [resetMem, h]

/-! ## 1. The successful exit -/

theorem successExit : Todo_successExit := by
  intro rules s ms key hr hp htgt hreg hbc hnt hns hcomp hsq hiq hfq hrq hftq hno hmid
  obtain ⟨m, p⟩ := ms
  simp only at hp
  subst hp
  replace htgt : m.target = some key := htgt
  have hst : ∀ k, m.status k = statusOf s none k := hr.status
  have hnotask : ∀ k, s.taskInfos.lookup k = none := by intro k; rw [hnt]; rfl
  have hinf : ∀ k, inflight m k = false := by
    intro k; rw [rel_inflight_task hr k, hnotask]; rfl
  have hstates : ∀ k ri, s.ruleInfos.lookup k = some ri → ri.state = .incomplete ∨ ri.state = .complete := by
    intro k ri hl
    have hmem := lookup_mem _ _ _ hl
    have hsc : ri.isScanning = false := by
      have h0 : (s.ruleInfos.filter (fun p => p.2.isScanning)) = [] := by
        apply List.eq_nil_of_length_eq_zero
        rw [← hr.scanCount]; exact hns
      have := List.filter_eq_nil_iff.1 h0 (k, ri) hmem
      simpa using this
    have hip := rel_noTask_state hr hl (hnotask k)
    obtain ⟨h1, h2⟩ := hmid k ri hl
    cases hs : ri.state <;> simp_all [RuleInfo.isScanning, StateKind.inProgress]
  have hdef : s.pendingDeferred = [] := by
    apply List.eq_nil_iff_forall_not_mem.2
    intro a ha
    obtain ⟨t, h1, _⟩ := hr.deferredOk a ha
    rw [hnotask] at h1; cases h1
  have hq : Quiet s :=
    { states := hstates, noTasks := hnt, noScanQ := hsq, noInputQ := hiq, noFinQ := hfq, noReady := hrq,
      noFinTasks := hftq, noOutstanding := hno, noScanning := hns, noDeferred := hdef }
  have hlr := hq.liveRecords hr.rulesNodup
  have hb : Base rules s m none := hr.toBase
  refine
    { toQuiet := hq,
      base := hb.congr_m rfl rfl (fun _ => rfl) (fun _ => rfl)
        (fun k => resetMem_res_of_not_inflight m k (hinf k)) (fun _ => rfl) rfl,
      active := hr.active, target := htgt, notReturned := hr.notReturned, epochPos := fun _ => hr.epochPos,
      ok := ?ok, failed := fun h => (by cases h) }
  intro _
  refine ⟨hreg, ?_, ?_, fun k _ => hinf k, hr.noCycle, ?_⟩
  · -- the requested key is done
    obtain ⟨ri, hl⟩ := Option.isSome_iff_exists.1 hreg
    rw [rule_of_lookup hl] at hcomp
    simp only [isComplete, Bool.and_eq_true, beq_iff_eq] at hcomp
    unfold isDone
    rw [hst key]
    simp [statusOf, hl, hcomp.1, hcomp.2]
  · -- nothing pending
    apply List.eq_nil_iff_forall_not_mem.2
    intro p hp
    rcases hr.pendingOk p hp with ⟨r, hr1, _⟩ | h
    · simp [unprocessed, pausedAll, hlr, hiq] at hr1
    · rw [hnotask] at h; cases h
  · -- no error was reported
    cases he : m.errSeen with
    | false => rfl
    | true => have := hr.errCancelled he; rw [hbc] at this; cases this

/-! ## 2a. The tokens of the drain (`C`, `X`, `ER`) against the monitor -/

/-- the tokens `taskComplete` can record -/
def Tok.drainSafe : Tok → Bool
  | .C _ _ _ => true
  | .X => true
  | .ER _ => true
  | _ => false

/-- the monitor with the flag `cycleSeen` overwritten -/
def setCy (c : Bool) (m : Engine.St) : Engine.St := { m with cycleSeen := c }

theorem step_complete_setCy (P : Program) (m : Engine.St) (c : Bool) (a : Key) (v : Val) (f : Bool) :
    step P (setCy c m) (.complete a v f) = (step P m (.complete a v f)).map (setCy c) := by
  simp only [step, setCy]
  simp only [apply_ite (Option.map (setCy c)), Option.map_some, Option.map_none]
  rfl

/-- what `complete` leaves alone -/
theorem step_complete_flags {P : Program} {m m1 : Engine.St} {a : Key} {v : Val} {f : Bool}
    (h : step P m (.complete a v f) = some m1) :
    m1.target = m.target ∧ m1.cancelled = m.cancelled ∧ m1.errSeen = m.errSeen := by
  simp only [step] at h
  split at h
  · cases h; exact ⟨rfl, rfl, rfl⟩
  · cases h

theorem tstep_drainSafe (P : Program) (m : Engine.St) (pend : Option Key) (t : Tok) (ht : Tok.drainSafe t = true)
    (ms' : MSt) (h : tstep P ⟨m, pend⟩ t = some ms') :
    ms'.m.target = m.target ∧ (m.cancelled = true → ms'.m.cancelled = true) ∧
    (m.errSeen = true → ms'.m.errSeen = true) ∧
    ∀ c, tstep P ⟨setCy c m, pend⟩ t = some ⟨setCy c ms'.m, ms'.pend⟩ := by
  cases t <;> simp only [Tok.drainSafe, Bool.false_eq_true] at ht
  case X =>
    rw [tstep_X] at h
    cases h
    exact ⟨rfl, fun _ => rfl, fun h => h, fun c => tstep_X P _⟩
  case C a v f =>
    cases hst : step P m (.complete a v (f != 0)) with
    | none =>
      cases pend <;> simp [tstep, Tok.isS2, Tok.isReg, Tok.toEvent?, hst] at h
    | some m1 =>
      rw [tstep_reg_any (t := .C a v f) pend (by rfl) (by rfl) hst] at h
      cases h
      obtain ⟨h1, h2, h3⟩ := step_complete_flags hst
      refine ⟨h1, fun h => by rw [h2]; exact h, fun h => by rw [h3]; exact h, fun c => ?_⟩
      apply tstep_reg_any (t := .C a v f) pend (by rfl) (by rfl)
      rw [step_complete_setCy, hst]; rfl
  case ER code =>
    cases pend with
    | some k => simp [tstep, Tok.isReg] at h
    | none =>
      rw [tstep_ev (t := .ER code) (m' := { m with errSeen := true }) (by rfl) (by rfl) (by rfl)] at h
      cases h
      exact ⟨rfl, fun h => h, fun _ => rfl,
        fun c => tstep_ev (t := .ER code) (by rfl) (by rfl) (by rfl)⟩

theorem trun_drainSafe (P : Program) : ∀ (toks : List Tok) (m : Engine.St) (pend : Option Key) (ms' : MSt),
    (∀ t ∈ toks, Tok.drainSafe t = true) → trun P ⟨m, pend⟩ toks = some ms' →
    ms'.m.target = m.target ∧ (m.cancelled = true → ms'.m.cancelled = true) ∧
    (m.errSeen = true → ms'.m.errSeen = true) ∧
    ∀ c, trun P ⟨setCy c m, pend⟩ toks = some ⟨setCy c ms'.m, ms'.pend⟩
  | [], m, pend, ms', _, h => by
    simp only [trun, Option.some.injEq] at h
    subst h
    exact ⟨rfl, fun h => h, fun h => h, fun c => rfl⟩
  | t :: rest, m, pend, ms', hs, h => by
    simp only [trun] at h
    cases hts : tstep P ⟨m, pend⟩ t with
    | none => rw [hts] at h; simp at h
    | some ms1 =>
      rw [hts] at h; simp only [Option.bind_some] at h
      obtain ⟨a1, a2, a3, a4⟩ := tstep_drainSafe P m pend t (hs t (by simp)) ms1 hts
      obtain ⟨m1, p1⟩ := ms1
      obtain ⟨b1, b2, b3, b4⟩ := trun_drainSafe P rest m1 p1 ms' (fun t ht => hs t (by simp [ht])) h
      refine ⟨b1.trans a1, fun h => b2 (a2 h), fun h => b3 (a3 h), fun c => ?_⟩
      simp only [trun, a4 c, Option.bind_some]
      exact b4 c

/-! ## 2b. `taskComplete`: its tokens, and the two fields it does not read -/

theorem Emits.unique {s s' : State} {a b : List Tok} (h1 : Emits s a s') (h2 : Emits s b s') : a = b := by
  unfold Emits at h1 h2
  rw [h1] at h2
  exact List.reverse_inj.1 (List.append_cancel_right h2)

theorem taskIsComplete_toks (a : Key) (v : Val) (f : Bool) (s : State) (hh : s.halted = false) :
    ∃ toks, Emits s toks (taskIsComplete a v f s) ∧ ∀ t ∈ toks, Tok.drainSafe t = true := by
  unfold taskIsComplete
  simp only []
  split
  · rcases emit_emits (.ER 4) s hh with e | e
    · exact ⟨[.ER 4], by simpa [Emits] using e, by simp [Tok.drainSafe]⟩
    · exact ⟨[.ER 4, .X], by simpa [Emits] using e, by simp [Tok.drainSafe]⟩
  · exact ⟨[], by simp [Emits, State.setRule], by simp⟩

theorem taskComplete_toks (a : Key) (s : State) (hh : s.halted = false) :
    ∃ toks, Emits s toks (taskComplete a s) ∧ ∀ t ∈ toks, Tok.drainSafe t = true := by
  unfold taskComplete
  simp only []
  generalize outValue (specOf s.rules a) s.env (s.task a).recv = v
  have hh1 : ((emit (.C a v (specOf s.rules a).force) s).modTask a (fun t => { t with done := true })).halted = false := by
    show (emit (.C a v (specOf s.rules a).force) s).halted = false
    simp [hh]
  obtain ⟨toks2, e2, hs2⟩ := taskIsComplete_toks a v ((specOf s.rules a).force != 0) _ hh1
  have e1 : ∃ toks1, Emits s toks1 ((emit (.C a v (specOf s.rules a).force) s).modTask a (fun t => { t with done := true })) ∧
      ∀ t ∈ toks1, Tok.drainSafe t = true := by
    rcases emit_emits (.C a v (specOf s.rules a).force) s hh with e | e
    · exact ⟨_, e, by simp [Tok.drainSafe]⟩
    · exact ⟨_, e, by simp [Tok.drainSafe]⟩
  obtain ⟨toks1, e1, hs1⟩ := e1
  refine ⟨toks1 ++ toks2, e1.trans e2, ?_⟩
  intro t ht
  rcases List.mem_append.1 ht with h | h
  · exact hs1 t h
  · exact hs2 t h

/-- the two fields in which the real engine state and the ghost of the drain differ -/
def fr (f : List Key) (n : Nat) (g : State) : State :=
  { g with finishedTaskInfos := f, numOutstandingUnfinishedTasks := n }

theorem emit_frame (t : Tok) (g : State) (f : List Key) (n : Nat) : emit t (fr f n g) = fr f n (emit t g) := by
  unfold emit fr
  by_cases hh : g.halted = true
  · simp [hh]
  · simp only [hh, Bool.false_eq_true, if_false]
    split <;> simp [doCancel] <;> split <;> rfl

theorem modTask_frame (g : State) (f : List Key) (n : Nat) (a : Key) (h : TaskInfo → TaskInfo) :
    (fr f n g).modTask a h = fr f n (g.modTask a h) := rfl

theorem taskIsComplete_frame (a : Key) (v : Val) (fc : Bool) (g : State) (f : List Key) (n : Nat) :
    ∃ f', taskIsComplete a v fc (fr f n g) = fr f' n (taskIsComplete a v fc g) ∧
      ((g.rule a).isInProgressComputing = true → f' = f ++ [a]) := by
  have h1 : (fr f n g).rule a = g.rule a := rfl
  by_cases hc : (g.rule a).isInProgressComputing = true
  · refine ⟨f ++ [a], ?_, fun _ => rfl⟩
    unfold taskIsComplete
    simp only [h1, hc, Bool.not_true, Bool.false_eq_true, if_false]
    rfl
  · refine ⟨f, ?_, fun h => absurd h hc⟩
    unfold taskIsComplete
    simp only [h1, hc, Bool.not_false, if_true, emit_frame]
    rfl

/-- `taskComplete` does not read `finishedTaskInfos` / `numOutstandingUnfinishedTasks` (it appends the task to the
former when the rule is computing, i.e. always: `ER 4` is unreachable) -/
theorem taskComplete_frame (a : Key) (g : State) (f : List Key) (n : Nat) :
    ∃ f', taskComplete a (fr f n g) = fr f' n (taskComplete a g) ∧
      ((g.rule a).isInProgressComputing = true → f' = f ++ [a]) := by
  unfold taskComplete
  simp only []
  have h1 : (fr f n g).rules = g.rules := rfl
  have h2 : (fr f n g).env = g.env := rfl
  have h3 : (fr f n g).task a = g.task a := rfl
  rw [h1, h2, h3, emit_frame, modTask_frame]
  obtain ⟨f', e1, e2⟩ := taskIsComplete_frame a (outValue (specOf g.rules a) g.env (g.task a).recv)
    ((specOf g.rules a).force != 0)
    ((emit (.C a (outValue (specOf g.rules a) g.env (g.task a).recv) (specOf g.rules a).force) g).modTask a
      (fun t => { t with done := true })) f n
  refine ⟨f', e1, fun h => e2 ?_⟩
  have : ((emit (.C a (outValue (specOf g.rules a) g.env (g.task a).recv) (specOf g.rules a).force) g).modTask a
      (fun t => { t with done := true })).rule a = g.rule a := by
    show (emit _ g).rule a = g.rule a
    simp
  rw [this]; exact h

theorem taskComplete_pendingDeferred (a : Key) (s : State) : (taskComplete a s).pendingDeferred = s.pendingDeferred := by
  unfold taskComplete taskIsComplete
  simp only []
  split
  · show (emit _ _).pendingDeferred = _
    rw [emit_pendingDeferred]
    show (emit _ s).pendingDeferred = _
    rw [emit_pendingDeferred]
  · show (emit _ s).pendingDeferred = _
    rw [emit_pendingDeferred]

/-! ## 2c. What follows the drain: `cancelTasks`, the scanning rules, the queues, `destroyTasks` -/

/-- what `cancelTasks` does to the rule of a task -/
def cancelRule (ri : RuleInfo) : RuleInfo :=
  { ri.setCancelled with inProgressInfo := .null, result := { ri.result with builtAt := 0 } }

/-- what the loop over `ruleInfos` does to a rule -/
def scanCancel (ri : RuleInfo) : RuleInfo := if ri.isScanning then ri.setCancelled else ri

theorem cancelTasks_frame : ∀ (l : List (Key × TaskInfo)) (s : State),
    cancelTasks l s = { s with ruleInfos := (cancelTasks l s).ruleInfos }
  | [], s => rfl
  | (_, t) :: rest, s => by
    rw [cancelTasks]
    exact cancelTasks_frame rest _

theorem cancelTasks_nodup : ∀ (l : List (Key × TaskInfo)) (s : State),
    (s.ruleInfos.map (fun p => p.1)).Nodup → ((cancelTasks l s).ruleInfos.map (fun p => p.1)).Nodup
  | [], s, h => h
  | (_, t) :: rest, s, h => by
    rw [cancelTasks]
    exact cancelTasks_nodup rest _ (setRule_rulesNodup _ h)

theorem cancelTasks_lookup : ∀ (l : List (Key × TaskInfo)) (s : State),
    (∀ p ∈ l, p.2.forRuleInfo = p.1) → (∀ p ∈ l, (s.ruleInfos.lookup p.1).isSome = true) →
    (∀ k ri, s.ruleInfos.lookup k = some ri → ri.key = k) →
    ∀ k, (cancelTasks l s).ruleInfos.lookup k =
      (s.ruleInfos.lookup k).map (fun ri => if (l.lookup k).isSome then cancelRule ri else ri)
  | [], s, _, _, _, k => by simp [cancelTasks]
  | (k0, t) :: rest, s, hfor, hreg, hkey, k => by
    have hf : t.forRuleInfo = k0 := hfor (k0, t) (by simp)
    obtain ⟨ri0, hl0⟩ := Option.isSome_iff_exists.1 (hreg (k0, t) (by simp))
    have hk0 : ri0.key = k0 := hkey k0 ri0 hl0
    have hl1 : ∀ k', (s.modRule t.forRuleInfo (fun ri =>
        { ri.setCancelled with inProgressInfo := .null, result := { ri.result with builtAt := 0 } })).ruleInfos.lookup k' =
        if k' = k0 then some (cancelRule ri0) else s.ruleInfos.lookup k' := by
      intro k'
      rw [hf, modRule_lookup _ _ _ (by rw [rule_of_lookup hl0]; exact hk0), rule_of_lookup hl0]
      rfl
    rw [cancelTasks]
    rw [cancelTasks_lookup rest _ (fun p hp => hfor p (by simp [hp])) ?_ ?_ k, hl1 k]
    · by_cases e : k = k0
      · subst e
        simp only [if_true, hl0, Option.map_some, lookup_cons_ite]
        split <;> rfl
      · simp only [e, if_false, lookup_cons_ite]
    · intro p hp
      rw [hl1]
      split
      · rfl
      · exact hreg p (by simp [hp])
    · intro k' ri h
      rw [hl1] at h
      split at h
      · rename_i e; cases h; subst e; exact hk0
      · exact hkey k' ri h

/-- `pendingDeferred` after `destroyTasks` -/
def destroyPD : List (Key × TaskInfo) → List Key → List Key
  | [], pd => pd
  | (k, _) :: rest, pd => destroyPD rest (pd.filter (· != k))

theorem destroyTasks_eq : ∀ (l : List (Key × TaskInfo)) (s : State),
    destroyTasks l s = { s with pendingDeferred := destroyPD l s.pendingDeferred }
  | [], s => rfl
  | (k, _) :: rest, s => by
    rw [destroyTasks, destroyTasks_eq rest]
    rfl

theorem mem_destroyPD : ∀ (l : List (Key × TaskInfo)) (pd : List Key) (a : Key),
    a ∈ destroyPD l pd → a ∈ pd ∧ l.lookup a = none
  | [], pd, a, h => ⟨h, rfl⟩
  | (k, _) :: rest, pd, a, h => by
    obtain ⟨h1, h2⟩ := mem_destroyPD rest _ a h
    simp only [List.mem_filter, bne_iff_ne, ne_eq] at h1
    refine ⟨h1.1, ?_⟩
    rw [lookup_cons_ite, if_neg h1.2]
    exact h2

/-- `cancelRemainingTasks` after the drain -/
def cancelFinish (s : State) : State :=
  let s := cancelTasks s.taskInfos s
  let s := { s with ruleInfos := s.ruleInfos.map (fun (p : Key × RuleInfo) => if p.2.isScanning then (p.1, p.2.setCancelled) else p),
                    numRulesBeingScanned := 0 }
  let tasks := s.taskInfos
  let s := { s with ruleInfosToScan := [], inputRequests := [], finishedInputRequests := [], readyTaskInfos := [],
                    finishedTaskInfos := [], taskInfos := [] }
  destroyTasks tasks s

theorem cancelRemainingTasks_eq (s : State) : cancelRemainingTasks s = cancelFinish (drainLoop loopFuel s) := rfl

/-- the rules after `cancelFinish` -/
def finalRules (s : State) : List (Key × RuleInfo) :=
  (cancelTasks s.taskInfos s).ruleInfos.map (fun p => (p.1, scanCancel p.2))

theorem scan_map_eq (l : List (Key × RuleInfo)) :
    l.map (fun (p : Key × RuleInfo) => if p.2.isScanning then (p.1, p.2.setCancelled) else p) =
      l.map (fun p => (p.1, scanCancel p.2)) := by
  apply List.map_congr_left
  intro p _
  unfold scanCancel
  split <;> rfl

theorem cancelFinish_eq (s : State) :
    cancelFinish s = { s with ruleInfos := finalRules s, numRulesBeingScanned := 0, ruleInfosToScan := [],
                              inputRequests := [], finishedInputRequests := [], readyTaskInfos := [],
                              finishedTaskInfos := [], taskInfos := [],
                              pendingDeferred := destroyPD s.taskInfos s.pendingDeferred } := by
  unfold cancelFinish finalRules
  simp only []
  rw [destroyTasks_eq, scan_map_eq]
  have hf := cancelTasks_frame s.taskInfos s
  generalize cancelTasks s.taskInfos s = c at hf ⊢
  rw [hf]

/-- the rule of `k` after `cancelFinish`, when `k` has a task (`b`) or not -/
def finalRule (b : Bool) (ri : RuleInfo) : RuleInfo := scanCancel (if b then cancelRule ri else ri)

theorem finalRule_task (ri : RuleInfo) : finalRule true ri = cancelRule ri := rfl
theorem finalRule_noTask (ri : RuleInfo) : finalRule false ri = scanCancel ri := rfl

theorem scanCancel_key (ri : RuleInfo) : (scanCancel ri).key = ri.key := by unfold scanCancel; split <;> rfl
theorem scanCancel_signature (ri : RuleInfo) : (scanCancel ri).signature = ri.signature := by unfold scanCancel; split <;> rfl
theorem scanCancel_result (ri : RuleInfo) : (scanCancel ri).result = ri.result := by unfold scanCancel; split <;> rfl
theorem scanCancel_state (ri : RuleInfo) :
    (scanCancel ri).state = if ri.state = .isScanning then .incomplete else ri.state := by
  unfold scanCancel RuleInfo.isScanning
  by_cases h : ri.state = .isScanning
  · simp [h, RuleInfo.setCancelled]
  · simp [h]

theorem finalRules_lookup (s : State)
    (hfor : ∀ p ∈ s.taskInfos, p.2.forRuleInfo = p.1) (hreg : ∀ p ∈ s.taskInfos, (s.ruleInfos.lookup p.1).isSome = true)
    (hkey : ∀ k ri, s.ruleInfos.lookup k = some ri → ri.key = k) (k : Key) :
    (finalRules s).lookup k = (s.ruleInfos.lookup k).map (finalRule (s.taskInfos.lookup k).isSome) := by
  unfold finalRules
  rw [lookup_map_snd (fun p => scanCancel p.2), cancelTasks_lookup s.taskInfos s hfor hreg hkey k]
  cases s.ruleInfos.lookup k with
  | none => rfl
  | some ri =>
    simp only [Option.map_some, finalRule]

theorem finalRules_nodup (s : State) (h : (s.ruleInfos.map (fun p => p.1)).Nodup) :
    ((finalRules s).map (fun p => p.1)).Nodup := by
  unfold finalRules
  rw [List.map_map]
  exact cancelTasks_nodup s.taskInfos s h

/-! ## 2d. The core lemma: from the relation at the end of the drain to `RelPost … false` -/

/-- **After the drain.**  `g` is the ghost state (`Rel` holds for it against the monitor state `m0`, which is the real
one up to the flag `cycleSeen`); the real engine state is `fr f 0 g`. -/
theorem cancelFinish_post {rules : List RuleSpec} {key : Key} {g : State} {m0 : Engine.St}
    (hr : Rel rules g ⟨m0, none⟩ {}) (hmid : NoMid g) (f : List Key) (c : Bool) (htgt : m0.target = some key)
    (hfail : m0.cancelled = true ∨ c = true ∨ m0.errSeen = true) :
    RelPost rules key (cancelFinish (fr f 0 g)) (setCy c m0) false := by
  have hb : Base rules g m0 none := hr.toBase
  have hmemT : ∀ p ∈ g.taskInfos, g.taskInfos.lookup p.1 = some p.2 :=
    fun p hp => lookup_of_mem_nodup _ _ _ hr.taskNodup hp
  have hfor : ∀ p ∈ (fr f 0 g).taskInfos, p.2.forRuleInfo = p.1 :=
    fun p hp => (hr.taskOk p.1 p.2 (hmemT p hp)).forRule
  have hregT : ∀ p ∈ (fr f 0 g).taskInfos, ((fr f 0 g).ruleInfos.lookup p.1).isSome = true :=
    fun p hp => hr.task_registered (by rw [hmemT p hp]; rfl)
  have hlk : ∀ k, (cancelFinish (fr f 0 g)).ruleInfos.lookup k =
      (g.ruleInfos.lookup k).map (finalRule (g.taskInfos.lookup k).isSome) := by
    intro k
    rw [cancelFinish_eq]
    exact finalRules_lookup (fr f 0 g) hfor hregT hb.keyOk k
  have hof : ∀ k ri', (cancelFinish (fr f 0 g)).ruleInfos.lookup k = some ri' →
      ∃ ri, g.ruleInfos.lookup k = some ri ∧ ri' = finalRule (g.taskInfos.lookup k).isSome ri := by
    intro k ri' h
    rw [hlk] at h
    cases h2 : g.ruleInfos.lookup k with
    | none => rw [h2] at h; cases h
    | some ri => rw [h2] at h; simp at h; exact ⟨ri, rfl, h.symm⟩
  have hinf : ∀ k, inflight (setCy c m0) k = (g.taskInfos.lookup k).isSome := fun k => rel_inflight_task hr k
  -- the rule of a key without a task
  have hnt : ∀ k ri, g.ruleInfos.lookup k = some ri → (g.taskInfos.lookup k).isSome = false →
      StateKind.inProgress ri.state = false := by
    intro k ri hl h
    exact rel_noTask_state hr hl (by cases h2 : g.taskInfos.lookup k <;> simp_all)
  have hnodup : ((cancelFinish (fr f 0 g)).ruleInfos.map (fun p => p.1)).Nodup := by
    rw [cancelFinish_eq]
    exact finalRules_nodup (fr f 0 g) hb.rulesNodup
  refine
    { states := ?states, noTasks := by rw [cancelFinish_eq], noScanQ := by rw [cancelFinish_eq],
      noInputQ := by rw [cancelFinish_eq], noFinQ := by rw [cancelFinish_eq], noReady := by rw [cancelFinish_eq],
      noFinTasks := by rw [cancelFinish_eq], noOutstanding := by rw [cancelFinish_eq]; rfl,
      noScanning := by rw [cancelFinish_eq], noDeferred := ?noDeferred, base := ?base,
      active := by rw [cancelFinish_eq]; exact hr.active, target := htgt, notReturned := hr.notReturned,
      epochPos := fun _ => by rw [cancelFinish_eq]; exact hr.epochPos,
      ok := fun h => (by cases h), failed := fun _ => hfail }
  case states =>
    intro k ri' h
    obtain ⟨ri, hl, rfl⟩ := hof k ri' h
    cases hb' : (g.taskInfos.lookup k).isSome with
    | true => left; rfl
    | false =>
      rw [finalRule_noTask, scanCancel_state]
      have h1 := hnt k ri hl hb'
      obtain ⟨h2, h3⟩ := hmid k ri hl
      cases hs : ri.state <;> simp_all [StateKind.inProgress]
  case noDeferred =>
    rw [cancelFinish_eq]
    apply List.eq_nil_iff_forall_not_mem.2
    intro a ha
    obtain ⟨h1, h2⟩ := mem_destroyPD _ _ a ha
    obtain ⟨t, h3, _⟩ := hr.deferredOk a h1
    have h2' : g.taskInfos.lookup a = none := h2
    rw [h3] at h2'; cases h2'
  case base =>
    refine
      { rules_eq := by rw [cancelFinish_eq]; exact hb.rules_eq, env := by rw [cancelFinish_eq]; exact hb.env,
        hasDB := by rw [cancelFinish_eq]; exact hb.hasDB, noResolve := by rw [cancelFinish_eq]; exact hb.noResolve,
        noFail := by rw [cancelFinish_eq]; exact hb.noFail, epoch := by rw [cancelFinish_eq]; exact hb.epoch,
        reg := ?reg, keyOk := ?keyOk, rulesNodup := hnodup, sig := ?sig, res := ?res, resUnreg := ?resUnreg,
        db := by rw [cancelFinish_eq]; exact hb.db, dbBuilt := by rw [cancelFinish_eq]; exact hb.dbBuilt,
        dbBuiltLe := by rw [cancelFinish_eq]; exact hb.dbBuiltLe, dbIter := by rw [cancelFinish_eq]; exact hb.dbIter,
        builtLe := ?builtLe }
    case reg =>
      intro k
      rw [hlk]
      show m0.registered k = _
      rw [hb.reg k]
      cases g.ruleInfos.lookup k <;> rfl
    case keyOk =>
      intro k ri' h
      obtain ⟨ri, hl, rfl⟩ := hof k ri' h
      have := hb.keyOk k ri hl
      cases (g.taskInfos.lookup k).isSome
      · rw [finalRule_noTask, scanCancel_key]; exact this
      · exact this
    case sig =>
      intro k ri' h
      obtain ⟨ri, hl, rfl⟩ := hof k ri' h
      have := hb.sig k ri hl
      cases (g.taskInfos.lookup k).isSome
      · rw [finalRule_noTask, scanCancel_signature]; exact this
      · exact this
    case res =>
      intro k ri' h
      obtain ⟨ri, hl, rfl⟩ := hof k ri' h
      have hold := hb.res k ri hl
      have hpk : ((none : Option Key) == some k) = false := rfl
      rw [hpk] at hold ⊢
      cases hb' : (g.taskInfos.lookup k).isSome with
      | true =>
        rw [resetMem_res_of_inflight _ k (by rw [hinf k, hb']), finalRule_task]
        obtain ⟨a1, a2, a3, _, _⟩ := hold
        exact ⟨a1, a2, a3, fun _ => rfl, fun _ _ hne => absurd rfl hne⟩
      | false =>
        rw [resetMem_res_of_not_inflight _ k (by rw [hinf k, hb']), finalRule_noTask, scanCancel_result, scanCancel_state]
        have h1 := hnt k ri hl hb'
        rw [h1] at hold
        have h2 : StateKind.inProgress (if ri.state = .isScanning then .incomplete else ri.state) = false := by
          split
          · rfl
          · exact h1
        rw [h2]
        exact hold
    case resUnreg =>
      intro k h
      rw [hlk] at h
      have hl : g.ruleInfos.lookup k = none := by
        cases h2 : g.ruleInfos.lookup k with
        | none => rfl
        | some ri => rw [h2] at h; cases h
      have hti : (g.taskInfos.lookup k).isSome = false := by
        cases h2 : (g.taskInfos.lookup k).isSome with
        | false => rfl
        | true =>
          have := hr.task_registered h2
          unfold Registered at this
          rw [hl] at this; cases this
      rw [resetMem_res_of_not_inflight _ k (by rw [hinf k, hti])]
      exact hb.resUnreg k hl
    case builtLe =>
      intro k ri' h
      obtain ⟨ri, hl, rfl⟩ := hof k ri' h
      have := hb.builtLe k ri hl
      cases (g.taskInfos.lookup k).isSome
      · rw [finalRule_noTask, scanCancel_result, cancelFinish_eq]; exact this
      · rw [finalRule_task, cancelFinish_eq]; exact Nat.zero_le _

/-! ## 2e. The drain -/

/-- **The invariant of the drain** (and of the state just after `CY ks`): the full relation holds for a ghost engine
state `g` that differs from the real one only in `finishedTaskInfos` / `numOutstandingUnfinishedTasks`, against a
monitor state `m0` that differs from the real one only in the flag `cycleSeen`; a cause of failure was reported. -/
def DrainInv (rules : List RuleSpec) (key : Key) (s : State) (m : Engine.St) : Prop :=
  ∃ (g : State) (m0 : Engine.St) (c : Bool) (f : List Key) (n : Nat),
    Rel rules g ⟨m0, none⟩ {} ∧ NoMid g ∧ s = fr f n g ∧ m = setCy c m0 ∧ m0.target = some key ∧
    (m0.cancelled = true ∨ c = true ∨ m0.errSeen = true) ∧
    -- the tasks still counted as outstanding are deferred or finished (NO STALL: `drain_noStall`)
    n ≤ g.pendingDeferred.length + f.length

theorem hook2_eq (s : State) : hook 2 s = (completeSmallest s).2 := rfl

/-- hook point 2 under the drain invariant: `completeSmallest` = one `Todo_taskComplete` on the ghost -/
theorem drain_hook {rules : List RuleSpec} {key : Key} (hok : RulesOk rules) (htc : Todo_taskComplete)
    {s : State} {m : Engine.St} (hinv : DrainInv rules key s m) (hh : s.halted = false) :
    ∃ toks m', Emits s toks (hook 2 s) ∧ trun (program rules) ⟨m, none⟩ toks = some ⟨m', none⟩ ∧
      DrainInv rules key (hook 2 s) m' := by
  obtain ⟨g, m0, c, f, n, hr, hmid, rfl, rfl, htgt, hfail, hcnt⟩ := hinv
  have hpd0 : (fr f n g).pendingDeferred = g.pendingDeferred := rfl
  rw [hook2_eq]
  unfold completeSmallest
  cases hpd : g.pendingDeferred with
  | nil =>
    simp only [hpd0, hpd]
    exact ⟨[], setCy c m0, Emits.refl _, rfl, g, m0, c, f, n, hr, hmid, rfl, rfl, htgt, hfail, hcnt⟩
  | cons k rest =>
    have hk : k ∈ g.pendingDeferred := by rw [hpd]; simp
    have hcont : (fr f n g).pendingDeferred.contains k = true := by
      rw [hpd0]; simpa using hk
    simp only [hpd0, hpd]
    unfold completeKey
    rw [if_pos hcont]
    show ∃ toks m', Emits (fr f n g) toks
        (taskComplete k (fr f n { g with pendingDeferred := g.pendingDeferred.filter (· != k) })) ∧ _ ∧
        DrainInv rules key (taskComplete k (fr f n { g with pendingDeferred := g.pendingDeferred.filter (· != k) })) m'
    obtain ⟨f', hf', hfapp⟩ := taskComplete_frame k { g with pendingDeferred := g.pendingDeferred.filter (· != k) } f n
    rw [hf']
    have hhg : g.halted = false := hh
    obtain ⟨toks, ms', he, hrun, hr', hpend, hmid'⟩ := htc rules hok g ⟨m0, none⟩ k hr hhg hk
    obtain ⟨toks2, he2, hsafe⟩ := taskComplete_toks k { g with pendingDeferred := g.pendingDeferred.filter (· != k) } hhg
    have he' : Emits { g with pendingDeferred := g.pendingDeferred.filter (· != k) } toks
        (taskComplete k { g with pendingDeferred := g.pendingDeferred.filter (· != k) }) := he
    have htoks : toks = toks2 := he'.unique he2
    subst htoks
    obtain ⟨m1, p1⟩ := ms'
    replace hpend : p1 = none := hpend
    subst hpend
    obtain ⟨b1, b2, b3, b4⟩ := trun_drainSafe (program rules) toks m0 none ⟨m1, none⟩ hsafe hrun
    refine ⟨toks, setCy c m1, he, b4 c, _, m1, c, f', n, hr', hmid' hmid, rfl, rfl, b1.trans htgt, ?_, ?_⟩
    · rcases hfail with h | h | h
      · exact Or.inl (b2 h)
      · exact Or.inr (Or.inl h)
      · exact Or.inr (Or.inr (b3 h))
    · -- the completed task moves from `pendingDeferred` to `finishedTaskInfos`
      obtain ⟨t, _, hcomp, _⟩ := hr.deferredOk k hk
      have hf2 : f' = f ++ [k] := hfapp (by
        show (g.rule k).isInProgressComputing = true
        simp [RuleInfo.isInProgressComputing, hcomp])
      have hnd := hr.deferredNodup
      rw [hpd] at hnd
      have hrest : (g.pendingDeferred.filter (· != k)) = rest := by
        rw [hpd, List.filter_cons]
        simp only [bne_self_eq_false, Bool.false_eq_true, if_false]
        apply List.filter_eq_self.2
        intro x hx
        have : x ≠ k := fun e => (List.nodup_cons.1 hnd).1 (e ▸ hx)
        simpa using this
      rw [taskComplete_pendingDeferred]
      show n ≤ (g.pendingDeferred.filter (· != k)).length + f'.length
      rw [hrest, hf2, List.length_append]
      rw [hpd] at hcnt
      simp only [List.length_cons, List.length_nil] at hcnt ⊢
      omega

/-- **NO STALL in the drain**: while tasks are counted as outstanding, hook point 2 leaves a finished task (the
invariant's count clause comes from `Rel.outstandingCount`), so `BAD stall` is never recorded by `drainLoop`. -/
theorem drain_noStall {rules : List RuleSpec} {key : Key} {s : State} {m : Engine.St} (hinv : DrainInv rules key s m)
    (h0 : s.numOutstandingUnfinishedTasks ≠ 0) : (hook 2 s).finishedTaskInfos ≠ [] := by
  obtain ⟨g, m0, c, f, n, hr, hmid, rfl, rfl, htgt, hfail, hcnt⟩ := hinv
  have hpd0 : (fr f n g).pendingDeferred = g.pendingDeferred := rfl
  replace h0 : n ≠ 0 := h0
  rw [hook2_eq]
  unfold completeSmallest
  cases hpd : g.pendingDeferred with
  | nil =>
    simp only [hpd0, hpd]
    show f ≠ []
    rw [hpd] at hcnt
    intro e; subst e
    simp at hcnt; exact h0 hcnt
  | cons k rest =>
    have hk : k ∈ g.pendingDeferred := by rw [hpd]; simp
    have hcont : (fr f n g).pendingDeferred.contains k = true := by
      rw [hpd0]; simpa using hk
    simp only [hpd0, hpd]
    unfold completeKey
    rw [if_pos hcont]
    show (taskComplete k (fr f n { g with pendingDeferred := g.pendingDeferred.filter (· != k) })).finishedTaskInfos ≠ []
    obtain ⟨f', hf', hfapp⟩ := taskComplete_frame k { g with pendingDeferred := g.pendingDeferred.filter (· != k) } f n
    obtain ⟨t, _, hcomp, _⟩ := hr.deferredOk k hk
    have hf2 : f' = f ++ [k] := hfapp (by
      show (g.rule k).isInProgressComputing = true
      simp [RuleInfo.isInProgressComputing, hcomp])
    rw [hf', hf2]
    show f ++ [k] ≠ []
    simp

theorem drainLoop_succ (fuel : Nat) (s : State) :
    drainLoop (fuel + 1) s =
      if s.numOutstandingUnfinishedTasks == 0 then s else
      if (hook 2 s).finishedTaskInfos.isEmpty then halt (.BAD "stall") (hook 2 s)
      else drainLoop fuel { hook 2 s with
        numOutstandingUnfinishedTasks := (hook 2 s).numOutstandingUnfinishedTasks - (hook 2 s).finishedTaskInfos.length,
        finishedTaskInfos := [] } := by
  rw [drainLoop]

theorem haltMono_drainLoop (fuel : Nat) : HaltMono (drainLoop fuel) := haltMono_of (fun hR => rs_drainLoop hR fuel)

/-- the drain loop: `C …` tokens, the invariant is kept, and the count is 0 at the end (a stall or running out of
fuel halts, which the caller excludes) -/
theorem drainLoop_sim {rules : List RuleSpec} {key : Key} (hok : RulesOk rules) (htc : Todo_taskComplete) :
    ∀ (fuel : Nat) (s : State) (m : Engine.St), DrainInv rules key s m → (drainLoop fuel s).halted = false →
    ∃ toks m', Emits s toks (drainLoop fuel s) ∧ trun (program rules) ⟨m, none⟩ toks = some ⟨m', none⟩ ∧
      DrainInv rules key (drainLoop fuel s) m' ∧ (drainLoop fuel s).numOutstandingUnfinishedTasks = 0
  | 0, s, m, _, hnh => by
    rw [drainLoop, halt_halted] at hnh; cases hnh
  | fuel + 1, s, m, hinv, hnh => by
    have hh : s.halted = false := (haltMono_drainLoop (fuel + 1)).of_result hnh
    rw [drainLoop_succ] at hnh ⊢
    by_cases h0 : (s.numOutstandingUnfinishedTasks == 0) = true
    · rw [if_pos h0]
      exact ⟨[], m, Emits.refl s, rfl, hinv, by simpa using h0⟩
    · rw [if_neg h0] at hnh ⊢
      by_cases h1 : (hook 2 s).finishedTaskInfos.isEmpty = true
      · rw [if_pos h1, halt_halted] at hnh; cases hnh
      · rw [if_neg h1] at hnh ⊢
        obtain ⟨toks1, m1, he1, hrun1, hinv1⟩ := drain_hook hok htc hinv hh
        have hinv2 : DrainInv rules key { hook 2 s with
            numOutstandingUnfinishedTasks := (hook 2 s).numOutstandingUnfinishedTasks - (hook 2 s).finishedTaskInfos.length,
            finishedTaskInfos := [] } m1 := by
          obtain ⟨g, m0, c, f, n, a1, a2, a3, a4, a5, a6, a7⟩ := hinv1
          refine ⟨g, m0, c, [], (hook 2 s).numOutstandingUnfinishedTasks - (hook 2 s).finishedTaskInfos.length,
            a1, a2, ?_, a4, a5, a6, ?_⟩
          · rw [a3]; rfl
          · rw [a3]
            show n - f.length ≤ g.pendingDeferred.length + 0
            omega
        obtain ⟨toks2, m2, he2, hrun2, hinv3, hnum⟩ := drainLoop_sim hok htc fuel _ m1 hinv2 hnh
        have he2' : Emits (hook 2 s) toks2 (drainLoop fuel { hook 2 s with
            numOutstandingUnfinishedTasks := (hook 2 s).numOutstandingUnfinishedTasks - (hook 2 s).finishedTaskInfos.length,
            finishedTaskInfos := [] }) := he2
        exact ⟨toks1 ++ toks2, m2, he1.trans he2', trun_append_some hrun1 hrun2, hinv3, hnum⟩

theorem cancelFinish_halted (s : State) : (cancelFinish s).halted = s.halted := by rw [cancelFinish_eq]
theorem cancelFinish_trace (s : State) : (cancelFinish s).trace = s.trace := by rw [cancelFinish_eq]

/-- **`cancelRemainingTasks` from the drain invariant** (shared by the cancellation and the cycle exits) -/
theorem cancel_of_drainInv {rules : List RuleSpec} {key : Key} (hok : RulesOk rules) (htc : Todo_taskComplete)
    {s : State} {m : Engine.St} (hinv : DrainInv rules key s m) (hnh : (cancelRemainingTasks s).halted = false) :
    ∃ toks m', Emits s toks (cancelRemainingTasks s) ∧ trun (program rules) ⟨m, none⟩ toks = some ⟨m', none⟩ ∧
      RelPost rules key (cancelRemainingTasks s) m' false ∧ m'.started = true := by
  rw [cancelRemainingTasks_eq] at hnh ⊢
  rw [cancelFinish_halted] at hnh
  obtain ⟨toks, m', he, hrun, hinv', hnum⟩ := drainLoop_sim hok htc loopFuel s m hinv hnh
  obtain ⟨g, m0, c, f, n, hr, hmid, hs, hm, htgt, hfail, _⟩ := hinv'
  rw [hs] at hnum
  replace hnum : n = 0 := hnum
  subst hnum
  refine ⟨toks, m', ?_, hrun, ?_, ?_⟩
  · unfold Emits at he ⊢
    rw [cancelFinish_trace]; exact he
  · rw [hs, hm]
    exact cancelFinish_post hr hmid f c htgt hfail
  · rw [hm]; exact hr.started

/-! ## 2. / 3. The two exits -/

theorem cancelRemainingTasks_sim (htc : Todo_taskComplete) : Todo_cancelRemainingTasks := by
  intro rules hok s ms key hr hp hh htgt hmid hcause hnh
  obtain ⟨m, p⟩ := ms
  simp only at hp
  subst hp
  replace htgt : m.target = some key := htgt
  apply cancel_of_drainInv hok htc _ hnh
  refine ⟨s, m, m.cycleSeen, s.finishedTaskInfos, s.numOutstandingUnfinishedTasks, hr, hmid, rfl, rfl, htgt, ?_,
    Nat.le_of_eq (by simpa using hr.outstandingCount)⟩
  rcases hcause with h | h | h | h
  · exact Or.inl h
  · exact Or.inr (Or.inl h)
  · exact Or.inr (Or.inr h)
  · rcases hr.cancelled h with h' | h'
    · exact Or.inl h'
    · exact Or.inr (Or.inr h')

theorem cycleExit_sim (htc : Todo_taskComplete) : Todo_cycleExit := by
  intro rules hok s ms key ks hr hp hh htgt hmid hlasso hnh
  obtain ⟨m, p⟩ := ms
  simp only at hp
  subst hp
  replace htgt : m.target = some key := htgt
  replace hlasso : lassoOk m key ks = true ∨ (ks.isEmpty = true ∧ isDone m key = true) := hlasso
  have hstep : step (program rules) m (.cycle ks) = some (setCy true m) := by
    simp only [step, htgt]
    rw [if_pos]
    · simp only [setCy, htgt]
    · rcases hlasso with h | ⟨h1, h2⟩
      · simp [h]
      · simp [h1, h2]
  have hts : tstep (program rules) ⟨m, none⟩ (.CY ks) = some ⟨setCy true m, none⟩ :=
    tstep_ev (t := .CY ks) (by rfl) (by rfl) hstep
  have hcnt : s.numOutstandingUnfinishedTasks ≤ s.pendingDeferred.length + s.finishedTaskInfos.length :=
    Nat.le_of_eq (by simpa using hr.outstandingCount)
  rcases emit_spec (.CY ks) s hh with he | ⟨_, he⟩
  · rw [he] at hnh ⊢
    have hinv : DrainInv rules key { s with trace := .CY ks :: s.trace } (setCy true m) := by
      refine ⟨_, m, true, s.finishedTaskInfos, s.numOutstandingUnfinishedTasks,
        hr.recorder (.CY ks :: s.trace) s.halted s.cancelAtEvent s.cancelIssued s.sched s.buildCancelled
          hr.cancelled hr.errCancelled, hmid, rfl, rfl, htgt, Or.inr (Or.inl rfl), hcnt⟩
    obtain ⟨toks, m', h1, h2, h3, h4⟩ := cancel_of_drainInv hok htc hinv hnh
    refine ⟨.CY ks :: toks, m', ?_, ?_, h3, h4⟩
    · unfold Emits at h1 ⊢
      rw [h1]; simp
    · simp only [trun, hts, Option.bind_some]
      exact h2
  · rw [he] at hnh ⊢
    have hinv : DrainInv rules key { s with trace := .X :: .CY ks :: s.trace, cancelIssued := true, buildCancelled := true }
        (setCy true (cancelM m)) := by
      refine ⟨_, cancelM m, true, s.finishedTaskInfos, s.numOutstandingUnfinishedTasks,
        hr.cancelled_ms (.X :: .CY ks :: s.trace), hmid, rfl, rfl, htgt, Or.inr (Or.inl rfl), hcnt⟩
    obtain ⟨toks, m', h1, h2, h3, h4⟩ := cancel_of_drainInv hok htc hinv hnh
    refine ⟨.CY ks :: .X :: toks, m', ?_, ?_, h3, h4⟩
    · unfold Emits at h1 ⊢
      rw [h1]; simp
    · simp only [trun, hts, Option.bind_some, tstep_X]
      exact h2

end LLBuild.Refine
