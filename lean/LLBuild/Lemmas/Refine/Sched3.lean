/-
C06 "the same set of executed rules" — the in-order guards (`Lemmas/Engine/Exec0.lean`) ON TOKENS.

`tstepX` / `trunX` = the token monitor `tstep` / `trun` (Defs.lean) with the additional check `tokOkX` (= `evOkX` of the
token's event) before every token.  Only two kinds of tokens are concerned (`Tok.isXTok`): `S k 0` (`scanning k`) and
`N k 3 (some d)`; for every other token `tstepX = tstep`.  Everything composes by append as for `trun`.
-/
import LLBuild.Lemmas.Engine.Exec0
import LLBuild.Lemmas.Refine.Sched2

namespace LLBuild.Refine
open LLBuild.Engine LLBuild.Engine.DSL LLBuild.EngineImpl

/-- the in-order check of one token, in monitor state `m` -/
def tokOkX (m : Engine.St) (t : Tok) : Bool :=
  match t.toEvent? with
  | some e => evOkX m e
  | none => true

/-- the tokens the check is about -/
def Tok.isXTok : Tok → Bool
  | .S _ 0 => true
  | .N _ 3 (some _) => true
  | _ => false

theorem tokOkX_of_notX (m : Engine.St) {t : Tok} (h : Tok.isXTok t = false) : tokOkX m t = true := by
  unfold tokOkX
  cases t with
  | S k n =>
    rcases n with _ | _ | n
    · cases h
    · rfl
    · rfl
  | N k r i =>
    rcases r with _ | _ | _ | _ | r
    · rfl
    · rfl
    · rfl
    · cases i with
      | none => rfl
      | some d => cases h
    · rfl
  | _ => rfl

theorem tokOkX_S0 (m : Engine.St) (k : Key) : tokOkX m (.S k 0) = demandedX m k := rfl

theorem tokOkX_N3 (m : Engine.St) (k d : Key) :
    tokOkX m (.N k 3 (some d)) =
      ((firstStale m (m.mem.res k) (m.mem.res k).deps).map (fun dp => dp.key) == some d) := rfl

def tstepX (P : Program) (ms : MSt) (t : Tok) : Option MSt := if tokOkX ms.m t then tstep P ms t else none

def trunX (P : Program) : MSt → List Tok → Option MSt
  | ms, [] => some ms
  | ms, t :: ts => (tstepX P ms t).bind (fun ms' => trunX P ms' ts)

theorem tstepX_tstep {P : Program} {ms ms' : MSt} {t : Tok} (h : tstepX P ms t = some ms') :
    tstep P ms t = some ms' ∧ tokOkX ms.m t = true := by
  unfold tstepX at h
  split at h
  · rename_i hc; exact ⟨h, hc⟩
  · cases h

theorem tstepX_of {P : Program} {ms ms' : MSt} {t : Tok} (h : tstep P ms t = some ms') (hok : tokOkX ms.m t = true) :
    tstepX P ms t = some ms' := by
  unfold tstepX; rw [if_pos hok]; exact h

theorem trunX_trun {P : Program} : ∀ (toks : List Tok) (ms ms' : MSt), trunX P ms toks = some ms' →
    trun P ms toks = some ms'
  | [], _, _, h => h
  | t :: ts, ms, ms', h => by
    simp only [trunX] at h
    cases hs : tstepX P ms t with
    | none => rw [hs] at h; simp at h
    | some ms1 =>
      rw [hs] at h; simp only [Option.bind_some] at h
      simp only [trun, (tstepX_tstep hs).1, Option.bind_some]
      exact trunX_trun ts ms1 ms' h

theorem trunX_append (P : Program) : ∀ (a b : List Tok) (ms : MSt),
    trunX P ms (a ++ b) = (trunX P ms a).bind (fun ms' => trunX P ms' b)
  | [], b, ms => by simp [trunX]
  | t :: a, b, ms => by
    simp only [List.cons_append, trunX]
    cases tstepX P ms t with
    | none => simp
    | some ms' => simpa using trunX_append P a b ms'

theorem trunX_append_some {P : Program} {a b : List Tok} {ms ms1 ms2 : MSt}
    (h1 : trunX P ms a = some ms1) (h2 : trunX P ms1 b = some ms2) : trunX P ms (a ++ b) = some ms2 := by
  rw [trunX_append, h1]; simpa using h2

theorem trunX_prefix {P : Program} {ms ms' : MSt} {p q : List Tok} (h : trunX P ms (p ++ q) = some ms') :
    ∃ msp, trunX P ms p = some msp ∧ trunX P msp q = some ms' := by
  rw [trunX_append] at h
  cases hp : trunX P ms p with
  | none => rw [hp] at h; simp at h
  | some msp => rw [hp] at h; exact ⟨msp, rfl, by simpa using h⟩

theorem trunX_nil (P : Program) (ms : MSt) : trunX P ms [] = some ms := rfl

theorem trunX_single {P : Program} {t : Tok} {ms ms' : MSt} (h : tstepX P ms t = some ms') :
    trunX P ms [t] = some ms' := by simp [trunX, h]

/-- a run of tokens none of which is `S k 0` / `N k 3 (some d)` passes the check -/
theorem trunX_of_notX {P : Program} : ∀ (toks : List Tok) (ms ms' : MSt), trun P ms toks = some ms' →
    (∀ t ∈ toks, Tok.isXTok t = false) → trunX P ms toks = some ms'
  | [], _, _, h, _ => h
  | t :: ts, ms, ms', h, hp => by
    simp only [trun] at h
    cases hs : tstep P ms t with
    | none => rw [hs] at h; simp at h
    | some ms1 =>
      rw [hs] at h; simp only [Option.bind_some] at h
      simp only [trunX, tstepX_of hs (tokOkX_of_notX _ (hp t List.mem_cons_self)), Option.bind_some]
      exact trunX_of_notX ts ms1 ms' h (fun t' ht' => hp t' (List.mem_cons_of_mem _ ht'))

/-- `trunX` agrees with `trun` wherever it is defined, so the two end states coincide -/
theorem trunX_eq_trun {P : Program} {toks : List Tok} {ms ms1 ms2 : MSt} (h1 : trunX P ms toks = some ms1)
    (h2 : trun P ms toks = some ms2) : ms1 = ms2 := by
  have := trunX_trun toks ms ms1 h1
  rw [this] at h2; cases h2; rfl

end LLBuild.Refine
