/-
C06 on the transliterated engine — SCHEDULE INDEPENDENCE, part 1: the monitor along the trace of ONE build that
`Succeeded` (notes/REFINESCHED.md §12).

* `Succeeded toks v`: a DECIDABLE predicate on a printed token trace: it contains `R v` and no `X`, no `CY _`, no `ER _`.
* token-conditional frames of the monitor: no token except `X`/`CY`/`ER` raises one of the flags `cancelled`, `cycleSeen`,
  `errSeen` (and `B key` clears them); no token except the closing ones (`DE`, `R`, `Z`) changes `env`, the target set by
  `B key`, or the ghost flag `pendingDropped`;
* `build_nofail_ret`: the trace of a completed build without `X`/`CY`/`ER` is `B key :: rest ++ [DE, R v, Z n 0]`; the
  monitor reaches `R v` with all three flags down, `target = some key`, `env` = the engine's, takes the SUCCESS branch of
  `ret` (so nothing was pending at the commit) and leaves `pendingDropped` as it found it.
-/
import LLBuild.Lemmas.Refine.Final4

namespace LLBuild.Refine
open LLBuild.Engine LLBuild.Engine.DSL LLBuild.EngineImpl

/-! ## 1. the predicate on traces -/

/-- the tokens that report a cause of failure: cancellation, a cycle, an error -/
def Tok.isFail : Tok → Bool
  | .X => true
  | .CY _ => true
  | .ER _ => true
  | _ => false

/-- `R v` -/
def Tok.isRet (v : Val) : Tok → Bool
  | .R w => w == v
  | _ => false

/-- no `X`, no `CY _`, no `ER _` -/
def NoFail (toks : List Tok) : Prop := toks.all (fun t => !Tok.isFail t) = true

/-- **the build returned `v` and reported no cancellation, no cycle, no error** -/
def Succeeded (toks : List Tok) (v : Val) : Prop := toks.any (Tok.isRet v) = true ∧ NoFail toks

instance (toks : List Tok) : Decidable (NoFail toks) := by unfold NoFail; infer_instance
instance (toks : List Tok) (v : Val) : Decidable (Succeeded toks v) := by unfold Succeeded; infer_instance

theorem NoFail.mem {toks : List Tok} (h : NoFail toks) {t : Tok} (ht : t ∈ toks) : Tok.isFail t = false := by
  have := List.all_eq_true.1 h t ht
  simpa using this

theorem NoFail.of_mem {toks : List Tok} (h : ∀ t ∈ toks, Tok.isFail t = false) : NoFail toks := by
  apply List.all_eq_true.2
  intro t ht; simp [h t ht]

theorem NoFail.append_left {a b : List Tok} (h : NoFail (a ++ b)) : NoFail a :=
  NoFail.of_mem (fun _ ht => h.mem (List.mem_append_left _ ht))

theorem NoFail.append_right {a b : List Tok} (h : NoFail (a ++ b)) : NoFail b :=
  NoFail.of_mem (fun _ ht => h.mem (List.mem_append_right _ ht))

theorem isRet_isClose {v : Val} {t : Tok} (h : Tok.isRet v t = true) : Tok.isClose t = true := by
  cases t <;> first | rfl | cases h

/-! ## 2. one event -/

/-- the three flags that make `ret` take its failure-shaped branch are down -/
def NoFlags (m : Engine.St) : Prop := m.cancelled = false ∧ m.cycleSeen = false ∧ m.errSeen = false

def Event.isFailEv : Event → Bool
  | .cancel => true
  | .cycle _ => true
  | .error _ => true
  | _ => false

/-- only `cancel`, `cycle`, `error` raise a flag -/
theorem step_noFlags {P : Program} {m m' : Engine.St} {e : Event} (h : step P m e = some m')
    (he : Event.isFailEv e = false) (hf : NoFlags m) : NoFlags m' := by
  unfold NoFlags at hf ⊢
  cases e <;> first
    | (exact Bool.noConfusion he)
    | (simp only [step] at h
       repeat' split at h
       all_goals (cases h; first | done | exact hf | exact ⟨rfl, rfl, rfl⟩))

/-- `buildStart` clears the flags, sets the target, and keeps `env` and `pendingDropped` -/
theorem step_buildStart_frame {P : Program} {m m' : Engine.St} {k : Key} (h : step P m (.buildStart k) = some m') :
    NoFlags m' ∧ m'.target = some k ∧ m'.env = m.env ∧ m'.pendingDropped = m.pendingDropped := by
  simp only [step] at h
  split at h
  · cases h; exact ⟨⟨rfl, rfl, rfl⟩, rfl, rfl, rfl⟩
  · cases h

/-- the events in the middle of a build: everything but `dbEnd`, `ret`, `tail` and the harness ops -/
def Event.isMid : Event → Bool
  | .dbEnd => false
  | .ret _ => false
  | .tail _ _ => false
  | .mutate _ _ => false
  | .restart => false
  | .wipe => false
  | .crash => false
  | _ => true

/-- what stays along the middle of a build: the external state, the ghost flag, the requested key -/
def MidFrame (m m' : Engine.St) : Prop :=
  m'.env = m.env ∧ m'.pendingDropped = m.pendingDropped ∧ ∀ k, m.target = some k → m'.target = some k

theorem MidFrame.refl (m : Engine.St) : MidFrame m m := ⟨rfl, rfl, fun _ h => h⟩

theorem MidFrame.trans {m1 m2 m3 : Engine.St} (a : MidFrame m1 m2) (b : MidFrame m2 m3) : MidFrame m1 m3 :=
  ⟨b.1.trans a.1, b.2.1.trans a.2.1, fun k h => b.2.2 k (a.2.2 k h)⟩

theorem step_mid {P : Program} {m m' : Engine.St} {e : Event} (h : step P m e = some m')
    (he : Event.isMid e = true) : MidFrame m m' := by
  unfold MidFrame
  cases e with
  | buildStart k =>
    simp only [step] at h
    split at h
    · rename_i hn
      cases h
      refine ⟨rfl, rfl, fun k' hk' => ?_⟩
      rw [hk'] at hn; cases hn
    · cases h
  | _ => first
    | (exact Bool.noConfusion he)
    | (simp only [step] at h
       repeat' split at h
       all_goals (cases h; first | done | exact ⟨rfl, rfl, fun _ h => h⟩))

/-- `dbEnd`: the flags, the target, `env`, `pending` stay; `pendingDropped` is raised iff something is pending -/
theorem step_dbEnd_frame {P : Program} {m m' : Engine.St} (h : step P m .dbEnd = some m') :
    m'.cancelled = m.cancelled ∧ m'.cycleSeen = m.cycleSeen ∧ m'.errSeen = m.errSeen ∧ m'.target = m.target ∧
    m'.env = m.env ∧ m'.pending = m.pending ∧ m'.pendingDropped = (m.pendingDropped || !m.pending.isEmpty) := by
  simp only [step] at h
  split at h
  · cases h; exact ⟨rfl, rfl, rfl, rfl, rfl, rfl, rfl⟩
  · cases h

/-- `ret` with the flags down is the SUCCESS branch: nothing is pending, `pendingDropped` stays -/
theorem step_ret_noFlags {P : Program} {m m' : Engine.St} {v : Val} (h : step P m (.ret v) = some m')
    (hf : NoFlags m) : m.pending = [] ∧ m'.pendingDropped = m.pendingDropped := by
  obtain ⟨h1, h2, h3⟩ := hf
  simp only [step] at h
  split at h
  · cases h
  · split at h
    · cases h
    · split at h
      · rename_i hc
        cases h
        simp only [Bool.and_eq_true] at hc
        exact ⟨List.isEmpty_iff.1 hc.1.2.1.2, rfl⟩
      · split at h
        · rename_i hc
          simp [h1, h2, h3] at hc
        · cases h

/-- `tail` keeps the ghost flag -/
theorem step_tail_pd {P : Program} {m m' : Engine.St} {a b : Nat} (h : step P m (.tail a b) = some m') :
    m'.pendingDropped = m.pendingDropped := by
  simp only [step] at h
  split at h
  · cases h; rfl
  · cases h

/-! ## 3. one token, a token run -/

theorem toEvent_notFail {t : Tok} {e : Event} (h : t.toEvent? = some e) (hf : Tok.isFail t = false) :
    Event.isFailEv e = false := by
  cases t with
  | S k n =>
    rcases n with _ | _ | n
    · simp only [Tok.toEvent?, Option.some.injEq] at h; subst h; rfl
    · simp only [Tok.toEvent?, Option.some.injEq] at h; subst h; rfl
    · simp [Tok.toEvent?] at h
  | X => cases hf
  | CY ks => cases hf
  | ER c => cases hf
  | _ => first
    | (simp only [Tok.toEvent?, Option.some.injEq] at h; subst h; rfl)
    | (simp [Tok.toEvent?] at h)

theorem toEvent_mid {t : Tok} {e : Event} (h : t.toEvent? = some e) (hc : Tok.isClose t = false) :
    Event.isMid e = true := by
  cases t with
  | S k n =>
    rcases n with _ | _ | n
    · simp only [Tok.toEvent?, Option.some.injEq] at h; subst h; rfl
    · simp only [Tok.toEvent?, Option.some.injEq] at h; subst h; rfl
    · simp [Tok.toEvent?] at h
  | DE => cases hc
  | R v => cases hc
  | Z a b => cases hc
  | _ => first
    | (simp only [Tok.toEvent?, Option.some.injEq] at h; subst h; rfl)
    | (simp [Tok.toEvent?] at h)

theorem tstep_noFlags {P : Program} {ms ms' : MSt} {t : Tok} (h : tstep P ms t = some ms')
    (hf : Tok.isFail t = false) (hm : NoFlags ms.m) : NoFlags ms'.m := by
  rcases tstep_event h with ⟨_, e⟩ | ⟨e, he | ⟨k, row, _, he⟩, hst⟩
  · rw [e]; exact hm
  · exact step_noFlags hst (toEvent_notFail he hf) hm
  · subst he; exact step_noFlags hst rfl hm

theorem tstep_mid {P : Program} {ms ms' : MSt} {t : Tok} (h : tstep P ms t = some ms')
    (hc : Tok.isClose t = false) : MidFrame ms.m ms'.m := by
  rcases tstep_event h with ⟨_, e⟩ | ⟨e, he | ⟨k, row, _, he⟩, hst⟩
  · rw [e]; exact MidFrame.refl _
  · exact step_mid hst (toEvent_mid he hc)
  · subst he; exact step_mid hst rfl

/-- along tokens other than `X`/`CY`/`ER` no flag is raised -/
theorem trun_noFlags {P : Program} : ∀ (p : List Tok) (ms msp : MSt), trun P ms p = some msp →
    NoFail p → NoFlags ms.m → NoFlags msp.m
  | [], ms, msp, h, _, hm => by
    simp only [trun, Option.some.injEq] at h; subst h; exact hm
  | t :: ts, ms, msp, h, hp, hm => by
    simp only [trun] at h
    cases hts : tstep P ms t with
    | none => rw [hts] at h; simp at h
    | some ms1 =>
      rw [hts] at h; simp only [Option.bind_some] at h
      exact trun_noFlags ts ms1 msp h (NoFail.of_mem (fun t' ht' => hp.mem (List.mem_cons_of_mem _ ht')))
        (tstep_noFlags hts (hp.mem List.mem_cons_self) hm)

/-- along tokens other than `DE`/`R`/`Z`: `env`, `pendingDropped` and the requested key stay -/
theorem trun_mid {P : Program} : ∀ (p : List Tok) (ms msp : MSt), trun P ms p = some msp →
    (∀ t ∈ p, Tok.isClose t = false) → MidFrame ms.m msp.m
  | [], ms, msp, h, _ => by
    simp only [trun, Option.some.injEq] at h; subst h; exact MidFrame.refl _
  | t :: ts, ms, msp, h, hp => by
    simp only [trun] at h
    cases hts : tstep P ms t with
    | none => rw [hts] at h; simp at h
    | some ms1 =>
      rw [hts] at h; simp only [Option.bind_some] at h
      exact (tstep_mid hts (hp t List.mem_cons_self)).trans
        (trun_mid ts ms1 msp h (fun t' ht' => hp t' (List.mem_cons_of_mem _ ht')))

/-- the first token of a build: `B key` -/
theorem tstep_B {P : Program} {m : Engine.St} {key : Key} {ms1 : MSt} (h : tstep P ⟨m, none⟩ (.B key) = some ms1) :
    NoFlags ms1.m ∧ ms1.m.target = some key ∧ ms1.m.env = m.env ∧ ms1.m.pendingDropped = m.pendingDropped := by
  rw [tstep_none_notS (by rfl)] at h
  simp only [Tok.toEvent?, Option.bind_some] at h
  cases hst : step P m (.buildStart key) with
  | none => rw [hst] at h; simp at h
  | some m1 =>
    rw [hst] at h; simp only [Option.map_some, Option.some.injEq] at h; subst h
    exact step_buildStart_frame hst

/-- **the middle of a build**: after `B key :: rest` (no `DE`/`R`/`Z` in `rest`) the requested key is `key`, `env` and
`pendingDropped` are the ones the build started with; without `X`/`CY`/`ER` the flags are down -/
theorem trun_B_mid {P : Program} {m : Engine.St} {key : Key} {rest : List Tok} {msp : MSt}
    (h : trun P ⟨m, none⟩ (.B key :: rest) = some msp) (hp : ∀ t ∈ rest, Tok.isClose t = false) :
    msp.m.target = some key ∧ msp.m.env = m.env ∧ msp.m.pendingDropped = m.pendingDropped ∧
      (NoFail rest → NoFlags msp.m) := by
  simp only [trun] at h
  cases hts : tstep P ⟨m, none⟩ (.B key) with
  | none => rw [hts] at h; simp at h
  | some ms1 =>
    rw [hts] at h; simp only [Option.bind_some] at h
    obtain ⟨hf1, ht1, he1, hd1⟩ := tstep_B hts
    obtain ⟨he, hd, ht⟩ := trun_mid rest ms1 msp h hp
    exact ⟨ht key ht1, he.trans he1, hd.trans hd1, fun hnf => trun_noFlags rest ms1 msp h hnf hf1⟩

/-- inversion of one token that is an event on its own -/
theorem tstep_ev_inv {P : Program} {ms ms' : MSt} {t : Tok} {e : Event} (h : tstep P ms t = some ms')
    (he : t.toEvent? = some e) : step P ms.m e = some ms'.m := by
  rcases tstep_event h with ⟨⟨k, e1⟩, _⟩ | ⟨e', he' | ⟨k, row, he', _⟩, hst⟩
  · subst e1; simp [Tok.toEvent?] at he
  · rw [he] at he'; cases he'; exact hst
  · subst he'; simp [Tok.toEvent?] at he

/-! ## 4. a completed build without `X` / `CY` / `ER` -/

/-- the monitor over the end `DE ; R v ; Z n 0` of a trace, entered with the flags down -/
theorem trun_close_noFlags {P : Program} {msA ms' : MSt} {v : Val} {n : Nat}
    (h : trun P msA [.DE, .R v, .Z n 0] = some ms') (hf : NoFlags msA.m) :
    ∃ msB msC : MSt, trun P msA [.DE] = some msB ∧ step P msB.m (.ret v) = some msC.m ∧ NoFlags msB.m ∧
      msB.m.target = msA.m.target ∧ msB.m.env = msA.m.env ∧
      msC.m.pendingDropped = msA.m.pendingDropped ∧ ms'.m.pendingDropped = msA.m.pendingDropped := by
  simp only [trun] at h
  cases h1 : tstep P msA .DE with
  | none => rw [h1] at h; simp at h
  | some msB =>
    rw [h1] at h; simp only [Option.bind_some] at h
    cases h2 : tstep P msB (.R v) with
    | none => rw [h2] at h; simp at h
    | some msC =>
      rw [h2] at h; simp only [Option.bind_some] at h
      cases h3 : tstep P msC (.Z n 0) with
      | none => rw [h3] at h; simp at h
      | some msD =>
        rw [h3] at h; simp only [Option.bind_some, Option.some.injEq] at h; subst h
        have s1 := tstep_ev_inv h1 rfl
        have s2 := tstep_ev_inv h2 rfl
        have s3 := tstep_ev_inv h3 rfl
        obtain ⟨a1, a2, a3, a4, a5, a6, a7⟩ := step_dbEnd_frame s1
        have hfB : NoFlags msB.m := ⟨a1.trans hf.1, a2.trans hf.2.1, a3.trans hf.2.2⟩
        obtain ⟨b1, b2⟩ := step_ret_noFlags s2 hfB
        have hpd : msB.m.pendingDropped = msA.m.pendingDropped := by
          rw [a7, ← a6, b1]; simp
        exact ⟨msB, msC, by simp [trun, h1], s2, hfB, a4, a5, b2.trans hpd,
          (step_tail_pd s3).trans (b2.trans hpd)⟩

/-- the shape of a completed trace without `X`: `B key :: rest ++ [DE, R v, Z n 0]` -/
theorem runBuildA_trace_nofail {rules : List RuleSpec} (hloop : WorkLoopSpecA rules) {s : State} {m : Engine.St}
    (hr : RelIdle rules s m) (key cancelAt : Nat) (sched : List SchedItem) (a : Async)
    (hnh : (runBuildA key cancelAt sched a s).halted = false)
    (hnf : NoFail (runBuildA key cancelAt sched a s).trace.reverse) :
    ∃ rest v n, (runBuildA key cancelAt sched a s).trace.reverse = (.B key :: rest) ++ [.DE, .R v, .Z n 0] ∧
      (∀ t ∈ rest, Tok.isClose t = false) ∧ NoFail rest := by
  obtain ⟨rest, v, n, x, h, hx, hnc⟩ := runBuildA_trace_shape hloop hr key cancelAt sched a hnh
  rw [h] at hnf
  have hx' : x = [] := by
    rcases hx with e | e
    · exact e
    · subst e
      have := hnf.mem (t := .X) (by simp)
      cases this
  subst hx'
  refine ⟨rest, v, n, by rw [h]; rfl, fun t ht => hnc t (List.mem_cons_of_mem _ ht), ?_⟩
  exact NoFail.of_mem (fun t ht => hnf.mem (List.mem_append_left _ (List.mem_cons_of_mem _ ht)))

/-- `Succeeded toks v` names the value of the only `R` token -/
theorem succeeded_value {key : Key} {rest : List Tok} {v w : Val} {n : Nat}
    (hc : ∀ t ∈ rest, Tok.isClose t = false)
    (h : ((Tok.B key :: rest) ++ [Tok.DE, Tok.R v, Tok.Z n 0]).any (Tok.isRet w) = true) : v = w := by
  obtain ⟨t, ht, hr⟩ := List.any_eq_true.1 h
  simp only [List.cons_append, List.mem_cons, List.mem_append, List.not_mem_nil, or_false] at ht
  rcases ht with e | e | e | e | e
  · subst e; cases hr
  · have := hc t e; rw [isRet_isClose hr] at this; cases this
  · subst e; cases hr
  · subst e; simpa [Tok.isRet] using hr
  · subst e; cases hr

/-- **A completed build without `X`/`CY`/`ER`, seen by the monitor.**  From related states, under the size condition:
the trace ends `DE ; R v ; Z n 0`; the monitor accepts the events `pre` before `R v` and reaches a state `m1` with the
three flags down, `target = some key` and the engine's external state; `ret v` is accepted from `m1` (necessarily through
the success-shaped branch), and neither it nor the rest of the build changes the ghost flag `pendingDropped`. -/
theorem build_nofail_ret {rules : List RuleSpec} (hok : RulesOk rules) {s : State} {m : Engine.St}
    (hr : RelIdle rules s m) (key cancelAt : Nat) (sched : List SchedItem) (a : Async)
    (hsize : workBound rules s key + 2 < scanFuel)
    (hnf : NoFail (runBuildA key cancelAt sched a s).trace.reverse) :
    ∃ rest v n pre m1 m2 m',
      (runBuildA key cancelAt sched a s).trace.reverse = (.B key :: rest) ++ [.DE, .R v, .Z n 0] ∧
      (∀ t ∈ rest, Tok.isClose t = false) ∧
      run (program rules) m pre = some m1 ∧ step (program rules) m1 (.ret v) = some m2 ∧
      NoFlags m1 ∧ m1.target = some key ∧ m1.env = s.env ∧ m2.pendingDropped = m.pendingDropped ∧
      trun (program rules) ⟨m, none⟩ (runBuildA key cancelAt sched a s).trace.reverse = some ⟨m', none⟩ ∧
      RelIdle rules (runBuildA key cancelAt sched a s) m' ∧ m'.pendingDropped = m.pendingDropped := by
  have hloop := workLoopA_final rules hok
  have hnh := build_terminates_async hok hr key cancelAt sched a hsize
  obtain ⟨m', hrun, hrel⟩ := runBuildA_sim hloop hr key cancelAt sched a hnh
  obtain ⟨rest, v, n, htr, hnc, hnfr⟩ := runBuildA_trace_nofail hloop hr key cancelAt sched a hnh hnf
  have hrun0 := hrun
  rw [htr] at hrun
  obtain ⟨msA, hA, hclose⟩ := trun_prefix hrun
  obtain ⟨htA, heA, hdA, hfA⟩ := trun_B_mid hA hnc
  obtain ⟨msB, msC, hDE, hret, hfB, htB, heB, hdC, hd'⟩ := trun_close_noFlags hclose (hfA hnfr)
  obtain ⟨pre, _, hpre⟩ := trun_evOfToks _ _ _ (trun_append_some hA hDE)
  exact ⟨rest, v, n, pre, msB.m, msC.m, m', htr, hnc, hpre, hret, hfB, htB.trans htA,
    (heB.trans heA).trans hr.env, hdC.trans hdA, hrun0, hrel, hd'.trans hdA⟩

end LLBuild.Refine
