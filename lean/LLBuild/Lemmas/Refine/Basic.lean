/-
IM2 — refinement: frame and structure lemmas.
* `trun` composes by append; an accepted token run gives `toEvents … = some evs` and an accepted `Engine.run`
  (`trun_toEvents`): THIS is the lemma that replaces "`toEvents` distributes over append" (it does not,
  because of the `S k 2 … DS k` merge; the token monitor `tstep` carries the merge in `MSt.pend`).
* association lists (`alSet`, `alErase`, `rowsSet`) against `List.lookup`;
* `emit` / `doCancel` / `halt`: only `trace`, `cancelIssued`, `buildCancelled`, `halted` change; the trace is append-only;
* `getRuleInfoForKey` only adds the key and emits `L`/`G`.
-/
import LLBuild.Lemmas.Refine.Defs

namespace LLBuild.Refine
open LLBuild.Engine LLBuild.Engine.DSL LLBuild.EngineImpl

/-! ## `trun` -/

theorem trun_append (P : Program) : ∀ (a b : List Tok) (ms : MSt),
    trun P ms (a ++ b) = (trun P ms a).bind (fun ms' => trun P ms' b)
  | [], b, ms => by simp [trun]
  | t :: a, b, ms => by
    simp only [List.cons_append, trun]
    cases tstep P ms t with
    | none => simp
    | some ms' => simpa using trun_append P a b ms'

theorem trun_append_some {P : Program} {a b : List Tok} {ms ms1 ms2 : MSt}
    (h1 : trun P ms a = some ms1) (h2 : trun P ms1 b = some ms2) : trun P ms (a ++ b) = some ms2 := by
  rw [trun_append, h1]; simpa using h2

theorem trun_single {P : Program} {t : Tok} {ms ms' : MSt} (h : tstep P ms t = some ms') :
    trun P ms [t] = some ms' := by simp [trun, h]

theorem trun_nil (P : Program) (ms : MSt) : trun P ms [] = some ms := rfl

/-! ## `toEvents` from an accepted token run -/

theorem run_append (P : Program) : ∀ (a b : List Event) (m : Engine.St),
    run P m (a ++ b) = (run P m a).bind (fun m' => run P m' b)
  | [], b, m => by simp [run]
  | e :: a, b, m => by
    simp only [List.cons_append, run]
    cases step P m e with
    | none => simp
    | some m' => simpa using run_append P a b m'

/-- the phase between `S k 2` and `DS k row` -/
theorem pendPhase {P : Program} {k : Key} {m' : Engine.St} : ∀ (rest acc : List Tok) (m : Engine.St),
    trun P ⟨m, some k⟩ rest = some ⟨m', none⟩ →
    ∃ regs row rest' evs m1 m2, splitAtWrite k acc rest = some (acc ++ regs, row, rest') ∧
      regs.mapM Tok.toEvent? = some evs ∧ run P m evs = some m1 ∧
      step P m1 (.finished k row) = some m2 ∧ trun P ⟨m2, none⟩ rest' = some ⟨m', none⟩ ∧
      rest'.length < rest.length
  | [], acc, m, h => by simp [trun] at h
  | t :: rest, acc, m, h => by
    simp only [trun] at h
    cases hts : tstep P ⟨m, some k⟩ t with
    | none => rw [hts] at h; simp at h
    | some ms1 =>
      rw [hts] at h; simp only [Option.bind_some] at h
      unfold tstep at hts
      simp only at hts
      cases t with
      | DS k' row =>
        simp only at hts
        split at hts
        · rename_i hk
          subst hk
          cases hst : step P m (.finished k row) with
          | none => rw [hst] at hts; simp at hts
          | some m2 =>
            rw [hst] at hts; simp at hts; subst hts
            exact ⟨[], row, rest, [], m, m2, by simp [splitAtWrite], by simp, by simp [run], hst, h, by simp⟩
        · simp at hts
      | L a =>
        simp only [Tok.isReg, Tok.toEvent?, if_true] at hts
        cases hst : step P m (.lookup a) with
        | none => rw [hst] at hts; simp at hts
        | some m1 =>
          rw [hst] at hts; simp at hts; subst hts
          obtain ⟨regs, row, rest', evs, m1', m2, h1, h2, h3, h4, h5, h6⟩ := pendPhase rest (acc ++ [.L a]) m1 h
          refine ⟨.L a :: regs, row, rest', .lookup a :: evs, m1', m2, ?_, ?_, ?_, h4, h5, ?_⟩
          · simp [splitAtWrite, h1]
          · simp [Tok.toEvent?, h2]
          · simp [run, hst, h3]
          · simp; omega
      | G a f =>
        simp only [Tok.isReg, Tok.toEvent?, if_true] at hts
        cases hst : step P m (.dbGet a f) with
        | none => rw [hst] at hts; simp at hts
        | some m1 =>
          rw [hst] at hts; simp at hts; subst hts
          obtain ⟨regs, row, rest', evs, m1', m2, h1, h2, h3, h4, h5, h6⟩ := pendPhase rest (acc ++ [.G a f]) m1 h
          refine ⟨.G a f :: regs, row, rest', .dbGet a f :: evs, m1', m2, ?_, ?_, ?_, h4, h5, ?_⟩
          · simp [splitAtWrite, h1]
          · simp [Tok.toEvent?, h2]
          · simp [run, hst, h3]
          · simp; omega
      | X =>
        simp only [Tok.isReg, Tok.toEvent?, if_true] at hts
        cases hst : step P m .cancel with
        | none => rw [hst] at hts; simp at hts
        | some m1 =>
          rw [hst] at hts; simp at hts; subst hts
          obtain ⟨regs, row, rest', evs, m1', m2, h1, h2, h3, h4, h5, h6⟩ := pendPhase rest (acc ++ [.X]) m1 h
          refine ⟨.X :: regs, row, rest', .cancel :: evs, m1', m2, ?_, ?_, ?_, h4, h5, ?_⟩
          · simp [splitAtWrite, h1]
          · simp [Tok.toEvent?, h2]
          · simp [run, hst, h3]
          · simp; omega
      | C a v f =>
        simp only [Tok.isReg, Tok.toEvent?, if_true] at hts
        cases hst : step P m (.complete a v (f != 0)) with
        | none => rw [hst] at hts; simp at hts
        | some m1 =>
          rw [hst] at hts; simp at hts; subst hts
          obtain ⟨regs, row, rest', evs, m1', m2, h1, h2, h3, h4, h5, h6⟩ := pendPhase rest (acc ++ [.C a v f]) m1 h
          refine ⟨.C a v f :: regs, row, rest', .complete a v (f != 0) :: evs, m1', m2, ?_, ?_, ?_, h4, h5, ?_⟩
          · simp [splitAtWrite, h1]
          · simp [Tok.toEvent?, h2]
          · simp [run, hst, h3]
          · simp; omega
      | _ => simp [Tok.isReg] at hts

theorem isS2_eq_some {t : Tok} {k : Key} (h : Tok.isS2 t = some k) : t = .S k 2 := by
  cases t with
  | S k' st =>
    rcases st with _ | _ | _ | n <;> simp [Tok.isS2] at h
    subst h; rfl
  | _ => simp [Tok.isS2] at h

theorem tstep_none_notS {P : Program} {m : Engine.St} {t : Tok} (h : Tok.isS2 t = none) :
    tstep P ⟨m, none⟩ t = (t.toEvent?).bind (fun e => (step P m e).map (fun m' => ({ m := m', pend := none } : MSt))) := by
  unfold tstep
  simp only [h]
  cases t.toEvent? <;> rfl

theorem toEventsAux_notS {t : Tok} (h : Tok.isS2 t = none) (fuel : Nat) (rest : List Tok) :
    toEventsAux (fuel + 1) (t :: rest) = (t.toEvent?).bind (fun e => (toEventsAux fuel rest).bind (fun b => some (e :: b))) := by
  cases t with
  | S k st =>
    rcases st with _ | _ | _ | n
    · rfl
    · rfl
    · simp [Tok.isS2] at h
    · rfl
  | _ => rfl

theorem trun_toEventsAux {P : Program} : ∀ (fuel : Nat) (toks : List Tok) (m m' : Engine.St),
    toks.length ≤ fuel → trun P ⟨m, none⟩ toks = some ⟨m', none⟩ →
    ∃ evs, toEventsAux fuel toks = some evs ∧ run P m evs = some m'
  | 0, [], m, m', _, h => by
    simp [trun] at h; exact ⟨[], by simp [toEventsAux], by simp [run, h]⟩
  | 0, _ :: _, _, _, hl, _ => by simp at hl
  | fuel + 1, [], m, m', _, h => by
    simp [trun] at h; exact ⟨[], by simp [toEventsAux], by simp [run, h]⟩
  | fuel + 1, t :: rest, m, m', hl, h => by
    simp only [trun] at h
    cases hts : tstep P ⟨m, none⟩ t with
    | none => rw [hts] at h; simp at h
    | some ms1 =>
      rw [hts] at h; simp only [Option.bind_some] at h
      have hl' : rest.length ≤ fuel := by simp at hl; omega
      cases hS : Tok.isS2 t with
      | some k =>
        have := isS2_eq_some hS; subst this
        simp [tstep, Tok.isS2] at hts; subst hts
        obtain ⟨regs, row, rest', evs, m1, m2, h1, h2, h3, h4, h5, h6⟩ := pendPhase rest [] m h
        obtain ⟨evs2, h7, h8⟩ := trun_toEventsAux fuel rest' m2 m' (by omega) h5
        refine ⟨evs ++ Event.finished k row :: evs2, ?_, ?_⟩
        · simp only [toEventsAux]
          simp at h1
          rw [h1]; simp [h2, h7]
        · rw [run_append, h3]; simp [run, h4, h8]
      | none =>
        have hne := hS
        rw [tstep_none_notS hne] at hts
        cases hte : t.toEvent? with
        | none => rw [hte] at hts; simp at hts
        | some e =>
          rw [hte] at hts; simp only [Option.bind_some] at hts
          cases hst : step P m e with
          | none => rw [hst] at hts; simp at hts
          | some m1 =>
            rw [hst] at hts; simp at hts; subst hts
            obtain ⟨evs2, h7, h8⟩ := trun_toEventsAux fuel rest m1 m' hl' h
            refine ⟨e :: evs2, ?_, by simp [run, hst, h8]⟩
            rw [toEventsAux_notS hne, hte]; simp [h7]

/-- **From tokens to events**: an accepted token run that ends outside a pending completion is a
trace `toEvents` understands, and the monitor accepts its events. -/
theorem trun_toEvents {P : Program} {toks : List Tok} {m m' : Engine.St}
    (h : trun P ⟨m, none⟩ toks = some ⟨m', none⟩) :
    ∃ evs, toEvents toks = some evs ∧ run P m evs = some m' :=
  trun_toEventsAux toks.length toks m m' (Nat.le_refl _) h

/-! ## single tokens -/

theorem tstep_ev {P : Program} {m m' : Engine.St} {t : Tok} {e : Event}
    (hn : Tok.isS2 t = none) (ht : t.toEvent? = some e) (hs : step P m e = some m') :
    tstep P ⟨m, none⟩ t = some ⟨m', none⟩ := by
  rw [tstep_none_notS hn, ht]; simp [hs]

theorem tstep_reg {P : Program} {m m' : Engine.St} {t : Tok} {e : Event} {k : Key}
    (hr : Tok.isReg t = true) (ht : t.toEvent? = some e) (hs : step P m e = some m') :
    tstep P ⟨m, some k⟩ t = some ⟨m', some k⟩ := by
  unfold tstep
  cases t <;> simp_all [Tok.isReg, Tok.toEvent?]

/-- a registration token (`L`, `G`, `X`, `C`) is accepted in both phases -/
theorem tstep_reg_any {P : Program} {m m' : Engine.St} {t : Tok} {e : Event} (pend : Option Key)
    (hr : Tok.isReg t = true) (ht : t.toEvent? = some e) (hs : step P m e = some m') :
    tstep P ⟨m, pend⟩ t = some ⟨m', pend⟩ := by
  cases pend with
  | none =>
    apply tstep_ev _ ht hs
    cases t <;> simp_all [Tok.isReg, Tok.isS2]
  | some k => exact tstep_reg hr ht hs

theorem tstep_S2 (P : Program) (m : Engine.St) (k : Key) : tstep P ⟨m, none⟩ (.S k 2) = some ⟨m, some k⟩ := by
  simp [tstep, Tok.isS2]

theorem tstep_DS {P : Program} {m m' : Engine.St} {k : Key} {row : Res}
    (hs : step P m (.finished k row) = some m') : tstep P ⟨m, some k⟩ (.DS k row) = some ⟨m', none⟩ := by
  simp [tstep, hs]

/-! ## association lists -/

theorem lookup_cons_ite {α : Type} (k k0 : Key) (y : α) (rest : List (Key × α)) :
    List.lookup k ((k0, y) :: rest) = if k = k0 then some y else rest.lookup k := by
  simp only [List.lookup]
  by_cases h : k = k0
  · subst h; simp
  · have : (k == k0) = false := by simpa using h
    simp [this, h]

theorem lookup_alSet {α : Type} : ∀ (l : List (Key × α)) (k k' : Key) (x : α),
    (alSet l k x).lookup k' = if k' = k then some x else l.lookup k'
  | [], k, k', x => by simp [alSet, lookup_cons_ite]
  | (k0, y) :: rest, k, k', x => by
    have ih := lookup_alSet rest k k' x
    simp only [alSet]
    by_cases h0 : k0 = k
    · subst h0
      by_cases h : k' = k0 <;> simp [lookup_cons_ite, h]
    · have : (k0 == k) = false := by simpa using h0
      simp only [this, Bool.false_eq_true, if_false, lookup_cons_ite, ih]
      by_cases h1 : k' = k0
      · subst h1; simp [h0]
      · simp [h1]

theorem lookup_alErase {α : Type} : ∀ (l : List (Key × α)) (k k' : Key),
    (alErase l k).lookup k' = if k' = k then none else l.lookup k'
  | [], k, k' => by simp [alErase]
  | (k0, y) :: rest, k, k' => by
    have ih := lookup_alErase rest k k'
    unfold alErase at ih ⊢
    simp only [List.filter]
    by_cases h0 : k0 = k
    · subst h0
      simp only [bne_self_eq_false, ih, lookup_cons_ite]
      by_cases h : k' = k0 <;> simp [h]
    · have : (k0 != k) = true := by simpa using h0
      simp only [this, lookup_cons_ite, ih]
      by_cases h1 : k' = k0
      · subst h1; simp [h0]
      · simp [h1]

theorem lookup_rowsSet : ∀ (rows : List (Key × Res)) (k k' : Key) (r : Res),
    (rowsSet rows k r).lookup k' = if k' = k then some r else rows.lookup k'
  | [], k, k', r => by simp [rowsSet, lookup_cons_ite]
  | (k0, y) :: rest, k, k', r => by
    have ih := lookup_rowsSet rest k k' r
    simp only [rowsSet]
    by_cases h0 : k0 = k
    · subst h0
      by_cases h : k' = k0 <;> simp [lookup_cons_ite, h]
    · have h0' : (k0 == k) = false := by simpa using h0
      simp only [h0', Bool.false_eq_true, if_false]
      by_cases hlt : keyLt k k0 = true
      · simp only [hlt, if_true, lookup_cons_ite]
      · simp only [hlt, Bool.false_eq_true, if_false, lookup_cons_ite, ih]
        by_cases h1 : k' = k0
        · subst h1; simp [h0]
        · simp [h1]

theorem alSet_keys_mem {α : Type} : ∀ (l : List (Key × α)) (k : Key) (x : α) (k' : Key),
    k' ∈ (alSet l k x).map (fun p => p.1) ↔ k' = k ∨ k' ∈ l.map (fun p => p.1)
  | [], k, x, k' => by simp [alSet]
  | (k0, y) :: rest, k, x, k' => by
    simp only [alSet]
    by_cases h0 : k0 = k
    · subst h0; simp
    · have : (k0 == k) = false := by simpa using h0
      simp only [this]
      have ih := alSet_keys_mem rest k x k'
      simp only [List.map_cons, List.mem_cons, Bool.false_eq_true, if_false] at ih ⊢
      rw [ih]
      constructor
      · rintro (h | h | h)
        · exact Or.inr (Or.inl h)
        · exact Or.inl h
        · exact Or.inr (Or.inr h)
      · rintro (h | h | h)
        · exact Or.inr (Or.inl h)
        · exact Or.inl h
        · exact Or.inr (Or.inr h)

theorem alSet_keys_nodup {α : Type} : ∀ (l : List (Key × α)) (k : Key) (x : α),
    (l.map (fun p => p.1)).Nodup → ((alSet l k x).map (fun p => p.1)).Nodup
  | [], k, x, _ => by simp [alSet]
  | (k0, y) :: rest, k, x, h => by
    simp only [alSet]
    by_cases h0 : k0 = k
    · subst h0; simpa using h
    · have : (k0 == k) = false := by simpa using h0
      simp only [this, Bool.false_eq_true, if_false, List.map_cons, List.nodup_cons] at h ⊢
      refine ⟨?_, alSet_keys_nodup rest k x h.2⟩
      intro hm
      rcases (alSet_keys_mem rest k x k0).1 hm with e | e
      · exact h0 e
      · exact h.1 e

theorem lookup_isSome_iff_mem_keys {α : Type} : ∀ (l : List (Key × α)) (k : Key),
    (l.lookup k).isSome = true ↔ k ∈ l.map (fun p => p.1)
  | [], k => by simp
  | (k0, y) :: rest, k => by
    simp only [List.lookup]
    by_cases h : k = k0
    · subst h; simp
    · have : (k == k0) = false := by simpa using h
      simp only [this, List.map_cons, List.mem_cons, h, false_or]
      exact lookup_isSome_iff_mem_keys rest k

theorem lookup_mem {α : Type} : ∀ (l : List (Key × α)) (k : Key) (x : α), l.lookup k = some x → (k, x) ∈ l
  | [], k, x, h => by simp at h
  | (k0, y) :: rest, k, x, h => by
    simp only [List.lookup] at h
    by_cases hk : k = k0
    · subst hk; simp at h; subst h; simp
    · have : (k == k0) = false := by simpa using hk
      simp only [this] at h
      exact List.mem_cons_of_mem _ (lookup_mem rest k x h)

theorem lookup_of_mem_nodup {α : Type} : ∀ (l : List (Key × α)) (k : Key) (x : α),
    (l.map (fun p => p.1)).Nodup → (k, x) ∈ l → l.lookup k = some x
  | [], k, x, _, h => by simp at h
  | (k0, y) :: rest, k, x, hn, h => by
    simp only [List.map_cons, List.nodup_cons] at hn
    simp only [List.lookup]
    rcases List.mem_cons.1 h with e | e
    · cases e; simp
    · have hk : k ≠ k0 := by
        intro e'; subst e'
        exact hn.1 (List.mem_map.2 ⟨(k, x), e, rfl⟩)
      have : (k == k0) = false := by simpa using hk
      simp only [this]
      exact lookup_of_mem_nodup rest k x hn.2 e

/-! ## `State.rule` / `State.task` accessors -/

@[simp] theorem setRule_lookup (s : State) (ri : RuleInfo) (k : Key) :
    (s.setRule ri).ruleInfos.lookup k = if k = ri.key then some ri else s.ruleInfos.lookup k := by
  simp [State.setRule, lookup_alSet]

@[simp] theorem setRule_rule (s : State) (ri : RuleInfo) (k : Key) :
    (s.setRule ri).rule k = if k = ri.key then ri else s.rule k := by
  unfold State.rule
  rw [setRule_lookup]
  by_cases h : k = ri.key <;> simp [h]

theorem rule_of_lookup {s : State} {k : Key} {ri : RuleInfo} (h : s.ruleInfos.lookup k = some ri) : s.rule k = ri := by
  simp [State.rule, h]

theorem modRule_lookup (s : State) (k : Key) (f : RuleInfo → RuleInfo) (hk : (f (s.rule k)).key = k) (k' : Key) :
    (s.modRule k f).ruleInfos.lookup k' = if k' = k then some (f (s.rule k)) else s.ruleInfos.lookup k' := by
  simp [State.modRule, hk]

@[simp] theorem setTask_lookup (s : State) (t : TaskInfo) (k : Key) :
    (s.setTask t).taskInfos.lookup k = if k = t.forRuleInfo then some t else s.taskInfos.lookup k := by
  simp [State.setTask, lookup_alSet]

@[simp] theorem setTask_task (s : State) (t : TaskInfo) (k : Key) :
    (s.setTask t).task k = if k = t.forRuleInfo then t else s.task k := by
  unfold State.task
  rw [setTask_lookup]
  by_cases h : k = t.forRuleInfo <;> simp [h]

theorem task_of_lookup {s : State} {k : Key} {t : TaskInfo} (h : s.taskInfos.lookup k = some t) : s.task k = t := by
  simp [State.task, h]


/-! ## The recorder: `emit`, `doCancel`, `halt` -/

theorem doCancel_spec (s : State) (hh : s.halted = false) :
    doCancel s = s ∨
    (s.cancelIssued = false ∧
      doCancel s = { s with cancelIssued := true, trace := .X :: s.trace, buildCancelled := true }) := by
  unfold doCancel
  by_cases hc : s.cancelIssued = true
  · simp [hc]
  · simp [hc, hh]

theorem emit_halted (t : Tok) (s : State) (hh : s.halted = true) : emit t s = s := by
  simp [emit, hh]

/-- `ev(s)`: the token is recorded, possibly followed by `X` (then `buildCancelled` is set). -/
theorem emit_spec (t : Tok) (s : State) (hh : s.halted = false) :
    emit t s = { s with trace := t :: s.trace } ∨
    (s.cancelIssued = false ∧
      emit t s = { s with trace := .X :: t :: s.trace, cancelIssued := true, buildCancelled := true }) := by
  unfold emit
  simp only [hh, Bool.false_eq_true, if_false]
  split
  · rename_i hc
    simp only [Bool.and_eq_true, Bool.not_eq_true'] at hc
    right
    refine ⟨hc.1.2, ?_⟩
    simp [doCancel, hc.1.2]
  · left; rfl

theorem halt_spec (t : Tok) (s : State) (hh : s.halted = false) :
    halt t s = { s with trace := t :: s.trace, halted := true } := by
  simp [halt, hh]

theorem halt_halted (t : Tok) (s : State) : (halt t s).halted = true := by
  unfold halt; by_cases h : s.halted = true <;> simp [h]

theorem emit_halted_eq (t : Tok) (s : State) : (emit t s).halted = s.halted := by
  by_cases hh : s.halted = true
  · rw [emit_halted t s hh]
  · have hh' : s.halted = false := by simpa using hh
    rcases emit_spec t s hh' with h | ⟨_, h⟩ <;> rw [h]

theorem doCancel_halted_eq (s : State) : (doCancel s).halted = s.halted := by
  unfold doCancel
  by_cases hc : s.cancelIssued = true
  · simp [hc]
  · by_cases hh : s.halted = true <;> simp [hc, hh]

/-- the trace is append-only: `emit` records `[t]` or `[t, X]` -/
theorem emit_emits (t : Tok) (s : State) (hh : s.halted = false) :
    Emits s [t] (emit t s) ∨ Emits s [t, .X] (emit t s) := by
  rcases emit_spec t s hh with h | ⟨_, h⟩
  · left; rw [h]; simp [Emits]
  · right; rw [h]; simp [Emits]

theorem doCancel_emits (s : State) (hh : s.halted = false) :
    Emits s [] (doCancel s) ∨ Emits s [.X] (doCancel s) := by
  rcases doCancel_spec s hh with h | ⟨_, h⟩
  · left; rw [h]; simp [Emits]
  · right; rw [h]; simp [Emits]

theorem halt_emits (t : Tok) (s : State) (hh : s.halted = false) : Emits s [t] (halt t s) := by
  rw [halt_spec t s hh]; simp [Emits]

theorem Emits.refl (s : State) : Emits s [] s := by simp [Emits]

theorem Emits.trans {s1 s2 s3 : State} {a b : List Tok} (h1 : Emits s1 a s2) (h2 : Emits s2 b s3) :
    Emits s1 (a ++ b) s3 := by
  unfold Emits at *
  rw [h2, h1]; simp

/-- only the recorder's fields (and `buildCancelled`) differ -/
structure SameEngine (s s' : State) : Prop where
  rules : s'.rules = s.rules
  env : s'.env = s.env
  store : s'.store = s.store
  hasDB : s'.hasDB = s.hasDB
  ruleInfos : s'.ruleInfos = s.ruleInfos
  taskInfos : s'.taskInfos = s.taskInfos
  ruleInfosToScan : s'.ruleInfosToScan = s.ruleInfosToScan
  inputRequests : s'.inputRequests = s.inputRequests
  finishedInputRequests : s'.finishedInputRequests = s.finishedInputRequests
  readyTaskInfos : s'.readyTaskInfos = s.readyTaskInfos
  finishedTaskInfos : s'.finishedTaskInfos = s.finishedTaskInfos
  numOutstandingUnfinishedTasks : s'.numOutstandingUnfinishedTasks = s.numOutstandingUnfinishedTasks
  numRulesBeingScanned : s'.numRulesBeingScanned = s.numRulesBeingScanned
  currentEpoch : s'.currentEpoch = s.currentEpoch
  shouldResolveCycle : s'.shouldResolveCycle = s.shouldResolveCycle
  buildActive : s'.buildActive = s.buildActive
  cancelAtEvent : s'.cancelAtEvent = s.cancelAtEvent
  sched : s'.sched = s.sched
  pendingDeferred : s'.pendingDeferred = s.pendingDeferred
  /-- cancellation is only ever switched on -/
  cancelMono : s.buildCancelled = true → s'.buildCancelled = true

theorem SameEngine.rfl' (s : State) : SameEngine s s := by constructor <;> first | rfl | exact id

theorem emit_same (t : Tok) (s : State) : SameEngine s (emit t s) := by
  by_cases hh : s.halted = true
  · rw [emit_halted t s hh]; exact SameEngine.rfl' s
  · have hh' : s.halted = false := by simpa using hh
    rcases emit_spec t s hh' with h | ⟨_, h⟩ <;> rw [h] <;> constructor <;> first | rfl | exact id | (intro; rfl)

theorem doCancel_same (s : State) : SameEngine s (doCancel s) := by
  unfold doCancel
  by_cases hc : s.cancelIssued = true
  · simp only [hc, if_true]; exact SameEngine.rfl' s
  · by_cases hh : s.halted = true <;> simp only [hc, hh, if_true, if_false, Bool.false_eq_true] <;>
      constructor <;> first | rfl | exact id | (intro; rfl)

theorem halt_same (t : Tok) (s : State) : SameEngine s (halt t s) := by
  unfold halt
  by_cases hh : s.halted = true
  · simp only [hh, if_true]; exact SameEngine.rfl' s
  · simp only [hh, if_false, Bool.false_eq_true]; constructor <;> first | rfl | exact id

@[simp] theorem emit_ruleInfos (t : Tok) (s : State) : (emit t s).ruleInfos = s.ruleInfos := (emit_same t s).ruleInfos
@[simp] theorem emit_taskInfos (t : Tok) (s : State) : (emit t s).taskInfos = s.taskInfos := (emit_same t s).taskInfos
@[simp] theorem emit_rules (t : Tok) (s : State) : (emit t s).rules = s.rules := (emit_same t s).rules
@[simp] theorem emit_env (t : Tok) (s : State) : (emit t s).env = s.env := (emit_same t s).env
@[simp] theorem emit_store (t : Tok) (s : State) : (emit t s).store = s.store := (emit_same t s).store
@[simp] theorem emit_hasDB (t : Tok) (s : State) : (emit t s).hasDB = s.hasDB := (emit_same t s).hasDB
@[simp] theorem emit_ruleInfosToScan (t : Tok) (s : State) : (emit t s).ruleInfosToScan = s.ruleInfosToScan := (emit_same t s).ruleInfosToScan
@[simp] theorem emit_inputRequests (t : Tok) (s : State) : (emit t s).inputRequests = s.inputRequests := (emit_same t s).inputRequests
@[simp] theorem emit_finishedInputRequests (t : Tok) (s : State) : (emit t s).finishedInputRequests = s.finishedInputRequests := (emit_same t s).finishedInputRequests
@[simp] theorem emit_readyTaskInfos (t : Tok) (s : State) : (emit t s).readyTaskInfos = s.readyTaskInfos := (emit_same t s).readyTaskInfos
@[simp] theorem emit_finishedTaskInfos (t : Tok) (s : State) : (emit t s).finishedTaskInfos = s.finishedTaskInfos := (emit_same t s).finishedTaskInfos
@[simp] theorem emit_numOutstanding (t : Tok) (s : State) : (emit t s).numOutstandingUnfinishedTasks = s.numOutstandingUnfinishedTasks := (emit_same t s).numOutstandingUnfinishedTasks
@[simp] theorem emit_numScanned (t : Tok) (s : State) : (emit t s).numRulesBeingScanned = s.numRulesBeingScanned := (emit_same t s).numRulesBeingScanned
@[simp] theorem emit_currentEpoch (t : Tok) (s : State) : (emit t s).currentEpoch = s.currentEpoch := (emit_same t s).currentEpoch
@[simp] theorem emit_shouldResolveCycle (t : Tok) (s : State) : (emit t s).shouldResolveCycle = s.shouldResolveCycle := (emit_same t s).shouldResolveCycle
@[simp] theorem emit_buildActive (t : Tok) (s : State) : (emit t s).buildActive = s.buildActive := (emit_same t s).buildActive
@[simp] theorem emit_cancelAtEvent (t : Tok) (s : State) : (emit t s).cancelAtEvent = s.cancelAtEvent := (emit_same t s).cancelAtEvent
@[simp] theorem emit_sched (t : Tok) (s : State) : (emit t s).sched = s.sched := (emit_same t s).sched
@[simp] theorem emit_pendingDeferred (t : Tok) (s : State) : (emit t s).pendingDeferred = s.pendingDeferred := (emit_same t s).pendingDeferred
@[simp] theorem emit_rule (t : Tok) (s : State) (k : Key) : (emit t s).rule k = s.rule k := by simp [State.rule]
@[simp] theorem emit_task (t : Tok) (s : State) (k : Key) : (emit t s).task k = s.task k := by simp [State.task]
@[simp] theorem emit_halted_simp (t : Tok) (s : State) : (emit t s).halted = s.halted := emit_halted_eq t s

/-- `emit` commutes with updates of the engine proper (used to move `setRule` across an `emit`) -/
theorem emit_setRule (t : Tok) (s : State) (ri : RuleInfo) : emit t (s.setRule ri) = (emit t s).setRule ri := by
  unfold emit State.setRule
  by_cases hh : s.halted = true
  · simp [hh]
  · simp only [hh, Bool.false_eq_true, if_false]
    split <;> simp [doCancel] <;> split <;> rfl


/-! ## `getRuleInfoForKey` -/

/-- everything but `ruleInfos` and the recorder's fields is unchanged -/
structure SameButRules (s s' : State) : Prop where
  rules : s'.rules = s.rules
  env : s'.env = s.env
  store : s'.store = s.store
  hasDB : s'.hasDB = s.hasDB
  taskInfos : s'.taskInfos = s.taskInfos
  ruleInfosToScan : s'.ruleInfosToScan = s.ruleInfosToScan
  inputRequests : s'.inputRequests = s.inputRequests
  finishedInputRequests : s'.finishedInputRequests = s.finishedInputRequests
  readyTaskInfos : s'.readyTaskInfos = s.readyTaskInfos
  finishedTaskInfos : s'.finishedTaskInfos = s.finishedTaskInfos
  numOutstandingUnfinishedTasks : s'.numOutstandingUnfinishedTasks = s.numOutstandingUnfinishedTasks
  numRulesBeingScanned : s'.numRulesBeingScanned = s.numRulesBeingScanned
  currentEpoch : s'.currentEpoch = s.currentEpoch
  shouldResolveCycle : s'.shouldResolveCycle = s.shouldResolveCycle
  buildActive : s'.buildActive = s.buildActive
  cancelAtEvent : s'.cancelAtEvent = s.cancelAtEvent
  sched : s'.sched = s.sched
  pendingDeferred : s'.pendingDeferred = s.pendingDeferred
  halted : s'.halted = s.halted
  cancelMono : s.buildCancelled = true → s'.buildCancelled = true

theorem SameEngine.toButRules {s s' : State} (h : SameEngine s s') (hh : s'.halted = s.halted) : SameButRules s s' :=
  { rules := h.rules, env := h.env, store := h.store, hasDB := h.hasDB, taskInfos := h.taskInfos,
    ruleInfosToScan := h.ruleInfosToScan, inputRequests := h.inputRequests,
    finishedInputRequests := h.finishedInputRequests, readyTaskInfos := h.readyTaskInfos,
    finishedTaskInfos := h.finishedTaskInfos, numOutstandingUnfinishedTasks := h.numOutstandingUnfinishedTasks,
    numRulesBeingScanned := h.numRulesBeingScanned, currentEpoch := h.currentEpoch,
    shouldResolveCycle := h.shouldResolveCycle, buildActive := h.buildActive, cancelAtEvent := h.cancelAtEvent,
    sched := h.sched, pendingDeferred := h.pendingDeferred, halted := hh, cancelMono := h.cancelMono }

theorem SameButRules.trans {s1 s2 s3 : State} (a : SameButRules s1 s2) (b : SameButRules s2 s3) : SameButRules s1 s3 :=
  { rules := b.rules.trans a.rules, env := b.env.trans a.env, store := b.store.trans a.store, hasDB := b.hasDB.trans a.hasDB,
    taskInfos := b.taskInfos.trans a.taskInfos, ruleInfosToScan := b.ruleInfosToScan.trans a.ruleInfosToScan,
    inputRequests := b.inputRequests.trans a.inputRequests,
    finishedInputRequests := b.finishedInputRequests.trans a.finishedInputRequests,
    readyTaskInfos := b.readyTaskInfos.trans a.readyTaskInfos, finishedTaskInfos := b.finishedTaskInfos.trans a.finishedTaskInfos,
    numOutstandingUnfinishedTasks := b.numOutstandingUnfinishedTasks.trans a.numOutstandingUnfinishedTasks,
    numRulesBeingScanned := b.numRulesBeingScanned.trans a.numRulesBeingScanned, currentEpoch := b.currentEpoch.trans a.currentEpoch,
    shouldResolveCycle := b.shouldResolveCycle.trans a.shouldResolveCycle, buildActive := b.buildActive.trans a.buildActive,
    cancelAtEvent := b.cancelAtEvent.trans a.cancelAtEvent, sched := b.sched.trans a.sched,
    pendingDeferred := b.pendingDeferred.trans a.pendingDeferred, halted := b.halted.trans a.halted,
    cancelMono := fun h => b.cancelMono (a.cancelMono h) }

theorem setRule_sameButRules (s : State) (ri : RuleInfo) : SameButRules s (s.setRule ri) := by
  constructor <;> first | rfl | exact id

theorem getRuleInfoForKey_same (k : Key) (s : State) : SameButRules s (getRuleInfoForKey k s) := by
  unfold getRuleInfoForKey
  split
  · constructor <;> first | rfl | exact id
  · have e1 := (emit_same (.L k) s).toButRules (emit_halted_eq _ _)
    simp only []
    split
    · split
      · exact (e1.trans ((emit_same _ _).toButRules (emit_halted_eq _ _))).trans (setRule_sameButRules _ _)
      · exact (e1.trans ((emit_same _ _).toButRules (emit_halted_eq _ _))).trans (setRule_sameButRules _ _)
    · exact e1.trans (setRule_sameButRules _ _)

/-- the `RuleInfo` a first lookup creates -/
def freshRule (s : State) (k : Key) : RuleInfo :=
  { key := k, signature := sigOf (specOf s.rules k) s.env, result := (s.store.rows.lookup k).getD {} }

/-- `getRuleInfoForKey` only adds the key -/
theorem getRuleInfoForKey_lookup (k : Key) (s : State) (hdb : s.hasDB = true) (k' : Key) :
    (getRuleInfoForKey k s).ruleInfos.lookup k' =
      if k' = k ∧ s.ruleInfos.lookup k = none then some (freshRule s k) else s.ruleInfos.lookup k' := by
  unfold getRuleInfoForKey
  cases hl : s.ruleInfos.lookup k with
  | some ri => simp
  | none =>
    simp only [emit_hasDB, hdb, if_true, emit_store, emit_rules, emit_env]
    cases hr : s.store.rows.lookup k with
    | none =>
      simp only [setRule_lookup, emit_ruleInfos, freshRule, hr, Option.getD_none, and_true]
    | some row =>
      simp only [setRule_lookup, emit_ruleInfos, freshRule, hr, Option.getD_some, and_true]

theorem getRuleInfoForKey_registered (k : Key) (s : State) (hdb : s.hasDB = true) :
    ((getRuleInfoForKey k s).ruleInfos.lookup k).isSome = true := by
  rw [getRuleInfoForKey_lookup k s hdb]
  cases hl : s.ruleInfos.lookup k <;> simp

/-- the tokens of a first lookup: `L k`, `G k found`, with at most one `X` after either -/
theorem getRuleInfoForKey_emits (k : Key) (s : State) (hdb : s.hasDB = true) (hh : s.halted = false) :
    (s.ruleInfos.lookup k).isSome = true ∧ getRuleInfoForKey k s = s ∨
    (s.ruleInfos.lookup k = none ∧
      ∃ x1 x2 : List Tok, (x1 = [] ∨ x1 = [.X]) ∧ (x2 = [] ∨ x2 = [.X]) ∧
        Emits s ([.L k] ++ x1 ++ [.G k (s.store.rows.lookup k).isSome] ++ x2) (getRuleInfoForKey k s)) := by
  unfold getRuleInfoForKey
  cases hl : s.ruleInfos.lookup k with
  | some ri => left; simp
  | none =>
    right
    refine ⟨rfl, ?_⟩
    simp only [emit_hasDB, hdb, if_true, emit_store]
    have e1 := emit_emits (.L k) s hh
    have hh1 : (emit (.L k) s).halted = false := by simp [hh]
    cases hr : s.store.rows.lookup k with
    | none =>
      simp only [Option.isSome_none]
      have e2 := emit_emits (.G k false) (emit (.L k) s) hh1
      rcases e1 with e1 | e1 <;> rcases e2 with e2 | e2
      · exact ⟨[], [], Or.inl rfl, Or.inl rfl, by simpa [Emits, State.setRule] using e1.trans e2⟩
      · exact ⟨[], [.X], Or.inl rfl, Or.inr rfl, by simpa [Emits, State.setRule] using e1.trans e2⟩
      · exact ⟨[.X], [], Or.inr rfl, Or.inl rfl, by simpa [Emits, State.setRule] using e1.trans e2⟩
      · exact ⟨[.X], [.X], Or.inr rfl, Or.inr rfl, by simpa [Emits, State.setRule] using e1.trans e2⟩
    | some row =>
      simp only [Option.isSome_some]
      have e2 := emit_emits (.G k true) (emit (.L k) s) hh1
      rcases e1 with e1 | e1 <;> rcases e2 with e2 | e2
      · exact ⟨[], [], Or.inl rfl, Or.inl rfl, by simpa [Emits, State.setRule] using e1.trans e2⟩
      · exact ⟨[], [.X], Or.inl rfl, Or.inr rfl, by simpa [Emits, State.setRule] using e1.trans e2⟩
      · exact ⟨[.X], [], Or.inr rfl, Or.inl rfl, by simpa [Emits, State.setRule] using e1.trans e2⟩
      · exact ⟨[.X], [.X], Or.inr rfl, Or.inr rfl, by simpa [Emits, State.setRule] using e1.trans e2⟩

end LLBuild.Refine
