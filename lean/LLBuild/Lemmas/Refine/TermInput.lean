/-
IM3 — termination / no-stall, part B (`processInputRequest`, `inputRequestsLoop`): obligations T1 (no halt) and T2
(`TermStep`: the universe stays closed, the potential `Phi` drops) of notes/REFINE.md §8.

* hypotheses about the functions of other parts: `TermInput.ScanRuleTerm`, `TermInput.DemandRuleNoHalt`,
  `TermInput.DemandRuleTerm` (namespaced so that they do not clash with the same names in other `Term*.lean` files);
  `scanRule` never halts: proved here (`scanRule_halted`);
* `SameW`: a bookkeeping update that changes no rule weight (`ruleW`, `inputQW`, `scanQW`, `scanRest` are the same
  functions before and after) and `Phi_sameW`: `Phi` after such an update in terms of the OLD weights;
* the three moves of a popped input request: parked (5 → 4), dropped (3 → 0), recorded (3 → 2 / 1);
* `processInputRequest_nohalt`, `processInputRequest_term`, `inputRequestsLoop_nohalt`, `inputRequestsLoop_term`.
-/
import LLBuild.Lemmas.Refine.Input
import LLBuild.Lemmas.Refine.Term0
import LLBuild.Lemmas.Refine.TermBasic

namespace LLBuild.Refine
open LLBuild.Engine LLBuild.Engine.DSL LLBuild.EngineImpl

/-! ## 0. what is assumed about `scanRule` / `demandRule` -/

namespace TermInput

/-- `scanRule` never increases the potential (the hypotheses from `Rel` are the ones the caller has at hand; this file
does not use them itself) -/
def ScanRuleTerm : Prop :=
  ∀ rules, RulesOk rules → ∀ (s : State) (ms : MSt) (h : Hand) (k : Key) (U : List Key),
    Rel rules s ms h → ms.pend = none → s.halted = false → Registered s k → ClosedU rules U s → k ∈ U →
    TermStep rules U s h (scanRule k s).2 h 0

def DemandRuleNoHalt : Prop :=
  ∀ rules, RulesOk rules → ∀ (s : State) (ms : MSt) (h : Hand) (k : Key) (U : List Key),
    h.dec = [] → Rel rules s ms h → ms.pend = none → s.halted = false → h.issuing = none → Registered s k →
    isScanned s (s.rule k) = true → ClosedU rules U s → k ∈ U → (demandRule k s).2.halted = false

def DemandRuleTerm : Prop :=
  ∀ rules, RulesOk rules → ∀ (s : State) (ms : MSt) (h : Hand) (k : Key) (U : List Key),
    h.dec = [] → Rel rules s ms h → ms.pend = none → s.halted = false → h.issuing = none → Registered s k →
    isScanned s (s.rule k) = true → ClosedU rules U s → k ∈ U → TermStep rules U s h (demandRule k s).2 h 0

end TermInput

/-- `scanRule` never halts (`ScanRuleNoHalt` of the task description holds outright) -/
theorem scanRule_halted (k : Key) (s : State) : (scanRule k s).2.halted = s.halted := by
  rw [scanRule_eq]
  dsimp only
  repeat' split
  all_goals first
    | rfl
    | (rw [emitAll_halted]; rfl)

/-! ## 2. bookkeeping updates that change no weight -/

/-- the part of `Xfer` the weights read -/
structure SameW (s s' : State) : Prop where
  epoch : s'.currentEpoch = s.currentEpoch
  store : s'.store = s.store
  ruleNone : ∀ k, s.ruleInfos.lookup k = none → s'.ruleInfos.lookup k = none
  ruleSome : ∀ k ri, s.ruleInfos.lookup k = some ri → ∃ ri', s'.ruleInfos.lookup k = some ri' ∧ RuleSim ri ri'
  taskDone : ∀ k, (s'.task k).done = (s.task k).done
  taskIssued : ∀ k, (s'.task k).issuedReqs = (s.task k).issuedReqs

namespace SameW
variable {s s' : State} (w : SameW s s')
include w

theorem phase_eq (k : Key) : phase s' k = phase s k := by
  unfold phase
  cases h0 : s.ruleInfos.lookup k with
  | none => rw [w.ruleNone k h0]
  | some ri =>
    obtain ⟨ri', h1, h2⟩ := w.ruleSome k ri h0
    rw [h1]
    simp only [h2.state, h2.builtAt, w.epoch, w.taskDone]

theorem registered (k : Key) : Registered s' k ↔ Registered s k := by
  unfold Registered
  cases h0 : s.ruleInfos.lookup k with
  | none => rw [w.ruleNone k h0]
  | some ri => obtain ⟨ri', h1, _⟩ := w.ruleSome k ri h0; rw [h1]; simp

/-- the dependency list of a rule that is not in progress -/
theorem rule_deps (k : Key) (hs : StateKind.inProgress (s.rule k).state = false) :
    (s'.rule k).result.deps = (s.rule k).result.deps := by
  unfold State.rule at hs ⊢
  cases h0 : s.ruleInfos.lookup k with
  | none => rw [w.ruleNone k h0]
  | some ri =>
    obtain ⟨ri', h1, h2⟩ := w.ruleSome k ri h0
    rw [h0] at hs
    rw [h1]; exact h2.deps hs

theorem deps0_eq (k : Key) (hp : phase s k = 6) : deps0 s' k = deps0 s k := by
  unfold deps0
  cases h0 : s.ruleInfos.lookup k with
  | none => rw [w.ruleNone k h0, w.store]
  | some ri =>
    obtain ⟨ri', h1, h2⟩ := w.ruleSome k ri h0
    rw [h1]
    apply h2.deps
    unfold phase at hp
    rw [h0] at hp
    simp only at hp
    cases hs : ri.state <;> simp [hs, StateKind.inProgress] at hp ⊢
    split at hp <;> cases hp

theorem ruleW_eq (rules : List RuleSpec) (k : Key) : ruleW rules s' k = ruleW rules s k := by
  unfold ruleW
  rw [w.phase_eq k, w.taskIssued k]
  by_cases hp : phase s k = 6
  · rw [w.deps0_eq k hp]
  · simp [hp]

theorem inputQW_eq (r : TaskInputRequest) : inputQW s' r = inputQW s r := by
  unfold inputQW; rw [w.phase_eq]

theorem scanRest_eq (r : RuleScanRequest) (hs : StateKind.inProgress (s.rule r.ruleInfo).state = false) :
    scanRest s' r = scanRest s r := by
  unfold scanRest; rw [w.rule_deps _ hs]

theorem scanQW_eq (r : RuleScanRequest) (hs : StateKind.inProgress (s.rule r.ruleInfo).state = false) :
    scanQW s' r = scanQW s r := by
  unfold scanQW
  rw [w.scanRest_eq r hs, w.rule_deps _ hs]
  cases (s.rule r.ruleInfo).result.deps[r.inputIndex]? with
  | none => rfl
  | some d => simp only [w.phase_eq]

end SameW

/-- every live scan request belongs to a rule that is not in progress (it is scanning) -/
theorem Rel.scanReq_notInProgress {rules : List RuleSpec} {s : State} {ms : MSt} {h : Hand} (hr : Rel rules s ms h)
    {r : RuleScanRequest} (hm : r ∈ scanReqs s h) : StateKind.inProgress (s.rule r.ruleInfo).state = false := by
  rw [(hr.scanOk r hm).scanning]; rfl

/-- **`Phi` after a weight-preserving update, in terms of the old weights** -/
theorem Phi_sameW {rules : List RuleSpec} {U : List Key} {s s' : State} {ms : MSt} {h h' : Hand}
    (hr : Rel rules s ms h) (w : SameW s s')
    (hq : h'.scan ++ s'.ruleInfosToScan = h.scan ++ s.ruleInfosToScan)
    (hd1 : (liveRecords s').flatMap (fun p => p.2.deferredScanRequests) = (liveRecords s).flatMap (fun p => p.2.deferredScanRequests))
    (hd2 : s'.taskInfos.flatMap (fun p => p.2.deferredScanRequests) = s.taskInfos.flatMap (fun p => p.2.deferredScanRequests)) :
    Phi rules U s' h' =
      sumBy (ruleW rules s) U
      + sumBy (inputQW s) (h'.inp ++ s'.inputRequests) + 4 * (pausedAll s').length + 2 * (requestedByAll s').length
      + (h'.fin ++ s'.finishedInputRequests).length
      + sumBy (scanQW s) (h.scan ++ s.ruleInfosToScan)
      + sumBy (fun r => scanRest s r + 4) ((liveRecords s).flatMap (fun p => p.2.deferredScanRequests))
      + sumBy (fun r => scanRest s r + 2) (s.taskInfos.flatMap (fun p => p.2.deferredScanRequests)) := by
  unfold Phi
  rw [hq, hd1, hd2]
  have e1 : sumBy (ruleW rules s') U = sumBy (ruleW rules s) U := sumBy_congr (fun k _ => w.ruleW_eq rules k)
  have e2 : sumBy (inputQW s') (h'.inp ++ s'.inputRequests) = sumBy (inputQW s) (h'.inp ++ s'.inputRequests) :=
    sumBy_congr (fun r _ => w.inputQW_eq r)
  have e3 : sumBy (scanQW s') (h.scan ++ s.ruleInfosToScan) = sumBy (scanQW s) (h.scan ++ s.ruleInfosToScan) :=
    sumBy_congr (fun r hm => w.scanQW_eq r (hr.scanReq_notInProgress (by
      unfold scanReqs; exact List.mem_append_left _ hm)))
  have e4 : sumBy (fun r => scanRest s' r + 4) ((liveRecords s).flatMap (fun p => p.2.deferredScanRequests)) =
      sumBy (fun r => scanRest s r + 4) ((liveRecords s).flatMap (fun p => p.2.deferredScanRequests)) :=
    sumBy_congr (fun r hm => by
      rw [w.scanRest_eq r (hr.scanReq_notInProgress (by
        unfold scanReqs deferredAll; exact List.mem_append_right _ (List.mem_append_left _ hm)))])
  have e5 : sumBy (fun r => scanRest s' r + 2) (s.taskInfos.flatMap (fun p => p.2.deferredScanRequests)) =
      sumBy (fun r => scanRest s r + 2) (s.taskInfos.flatMap (fun p => p.2.deferredScanRequests)) :=
    sumBy_congr (fun r hm => by
      rw [w.scanRest_eq r (hr.scanReq_notInProgress (by
        unfold scanReqs deferredAll; exact List.mem_append_right _ (List.mem_append_right _ hm)))])
  rw [e1, e2, e3, e4, e5]

/-- the universe stays closed across a weight-preserving update -/
theorem ClosedU.sameW {rules : List RuleSpec} {U : List Key} {s s' : State} (c : ClosedU rules U s) (w : SameW s s')
    (hdeps : ∀ k ∈ U, ∀ d ∈ deps0 s' k, d ∈ deps0 s k ∨ d.key ∈ U)
    (hin : ∀ r ∈ s'.inputRequests, r ∈ s.inputRequests) : ClosedU rules U s' :=
  { nodup := c.nodup,
    registered := fun k hk => c.registered k ((w.registered k).1 hk),
    reqs := c.reqs, discs := c.discs,
    deps := fun k hk d hd => by
      rcases hdeps k hk d hd with h1 | h1
      · exact c.deps k hk d h1
      · exact h1,
    inputs := fun r hr => c.inputs r (hin r hr) }

theorem inputQW_ge (s : State) (r : TaskInputRequest) : 3 ≤ inputQW s r := by
  unfold inputQW; split <;> omega

/-- the request in hand is counted like a queued one (`Phi_hand_inp` of TermBasic for the empty hand) -/
theorem Phi_hand_inp0 (rules : List RuleSpec) (U : List Key) (s : State) (r : TaskInputRequest) :
    Phi rules U s { inp := [r] } = Phi rules U s {} + inputQW s r := Phi_hand_inp rules U s {} r

/-! ## 3. the three moves of the request in hand -/

/-- parked in the scan record of its scanning input: 5 → 4 -/
theorem pause_term {rules : List RuleSpec} {U : List Key} {s : State} {ms : MSt} {r : TaskInputRequest} {ri : RuleInfo}
    {rec : RuleScanRecord} (hr : Rel rules s ms { inp := [r] }) (c : ClosedU rules U s)
    (hl : s.ruleInfos.lookup r.inputRuleInfo = some ri) (hs : ri.state = .isScanning)
    (hrec : ri.inProgressInfo = .pendingScanRecord rec) :
    TermStep rules U s { inp := [r] } (s.setRule { ri with inProgressInfo :=
      (InProgressInfo.pendingScanRecord { rec with pausedInputRequests := rec.pausedInputRequests ++ [r] }) }) {} 1 := by
  generalize hrec' : ({ rec with pausedInputRequests := rec.pausedInputRequests ++ [r] } : RuleScanRecord) = rec'
  generalize hri' : ({ ri with inProgressInfo := .pendingScanRecord rec' } : RuleInfo) = ri'
  have hkey : ri.key = r.inputRuleInfo := hr.keyOk _ ri hl
  have hkey' : ri'.key = r.inputRuleInfo := by rw [← hri']; exact hkey
  have hres' : ri'.result = ri.result := by rw [← hri']
  have hsim : RuleSim ri ri' := by
    rw [← hri']; exact ⟨rfl, rfl, rfl, rfl, rfl, rfl, rfl, fun _ => rfl, fun _ _ => ⟨rec', rfl⟩⟩
  have hlo : liveOf (r.inputRuleInfo, ri) = some (r.inputRuleInfo, rec) := by
    simp [liveOf, RuleInfo.isScanning, hs, RuleInfo.getPendingScanRecord, hrec]
  have hln : liveOf (r.inputRuleInfo, ri') = some (r.inputRuleInfo, rec') := by
    rw [← hri']; simp [liveOf, RuleInfo.isScanning, hs, RuleInfo.getPendingScanRecord]
  obtain ⟨A, B, hA, hB, _, _⟩ := liveRecords_split hr.rulesNodup hl ri' hkey'
  rw [hlo] at hA; rw [hln] at hB
  simp only [Option.toList] at hA hB
  have hdefer : rec'.deferredScanRequests = rec.deferredScanRequests := by rw [← hrec']
  have hpaused : rec'.pausedInputRequests = rec.pausedInputRequests ++ [r] := by rw [← hrec']
  have hd1 : (liveRecords (s.setRule ri')).flatMap (fun p => p.2.deferredScanRequests) =
      (liveRecords s).flatMap (fun p => p.2.deferredScanRequests) := by
    rw [hA, hB]; simp [List.flatMap_append, hdefer]
  have hpl : (pausedAll (s.setRule ri')).length = (pausedAll s).length + 1 := by
    unfold pausedAll
    rw [hA, hB]
    simp [List.flatMap_append, hpaused]
    omega
  have w : SameW s (s.setRule ri') :=
    { epoch := rfl, store := rfl, ruleNone := setRule_ruleNone hl ri' hkey', ruleSome := setRule_ruleSome hl hkey' hsim,
      taskDone := fun _ => rfl, taskIssued := fun _ => rfl }
  have hq5 : inputQW s r = 5 := by
    unfold inputQW phase; rw [hl]; simp [hs]
  refine ⟨c.sameW w ?_ (fun _ h => h), ?_⟩
  · intro k _ d hd
    left
    unfold deps0 at hd ⊢
    rw [setRule_lookup, hkey'] at hd
    by_cases e : k = r.inputRuleInfo
    · subst e; simp only [if_true] at hd; rw [hres'] at hd; rw [hl]; exact hd
    · simp only [e, if_false] at hd; exact hd
  · rw [Phi_sameW (U := U) (h' := {}) hr w rfl hd1 rfl, hpl, Phi_hand_inp0, hq5]
    unfold Phi
    dsimp only
    simp only [List.nil_append]
    have e1 : (s.setRule ri').inputRequests = s.inputRequests := rfl
    have e2 : requestedByAll (s.setRule ri') = requestedByAll s := rfl
    have e3 : (s.setRule ri').finishedInputRequests = s.finishedInputRequests := rfl
    rw [e1, e2, e3]
    omega

/-- a dummy request is dropped: 3 → 0 -/
theorem dropDummy_term {rules : List RuleSpec} {U : List Key} {s : State} {r : TaskInputRequest} (c : ClosedU rules U s) :
    TermStep rules U s { inp := [r] } s {} 1 := by
  refine ⟨c, ?_⟩
  rw [Phi_hand_inp0]
  have := inputQW_ge s r
  omega

/-- the task side of `inputDoneState` -/
theorem inputDone_taskFacts (ria' : RuleInfo) (r : TaskInputRequest) (tk : Option TaskInfo) (s : State)
    (hk : ∀ t, tk = some t → s.taskInfos.lookup r.inputRuleInfo = some t ∧ t.forRuleInfo = r.inputRuleInfo) :
    (∀ k0, ((inputDoneState ria' r tk s).task k0).done = (s.task k0).done ∧
      ((inputDoneState ria' r tk s).task k0).issuedReqs = (s.task k0).issuedReqs) ∧
    (inputDoneState ria' r tk s).taskInfos.flatMap (fun p => p.2.deferredScanRequests) =
      s.taskInfos.flatMap (fun p => p.2.deferredScanRequests) ∧
    (((requestedByAll (inputDoneState ria' r tk s)).length = (requestedByAll s).length ∧
        (inputDoneState ria' r tk s).finishedInputRequests.length = s.finishedInputRequests.length + 1) ∨
      ((requestedByAll (inputDoneState ria' r tk s)).length = (requestedByAll s).length + 1 ∧
        (inputDoneState ria' r tk s).finishedInputRequests.length = s.finishedInputRequests.length)) := by
  cases tk with
  | none =>
    refine ⟨fun k0 => ⟨rfl, rfl⟩, rfl, Or.inl ⟨rfl, ?_⟩⟩
    show (s.finishedInputRequests ++ [r]).length = _
    simp
  | some t =>
    obtain ⟨hl, hfor⟩ := hk t rfl
    generalize ht' : ({ t with requestedBy := t.requestedBy ++ [r] } : TaskInfo) = t'
    have hfor' : t'.forRuleInfo = r.inputRuleInfo := by rw [← ht']; exact hfor
    have eS : inputDoneState ria' r (some t) s = (s.setRule ria').setTask t' := by rw [← ht']; rfl
    obtain ⟨l1, l2, h1, h2⟩ := tasks_split (s := s.setRule ria') hl t' hfor'
    have h1' : s.taskInfos = l1 ++ (r.inputRuleInfo, t) :: l2 := h1
    rw [eS]
    refine ⟨?_, ?_, Or.inr ⟨?_, rfl⟩⟩
    · intro k0
      rw [setTask_task, hfor']
      by_cases e : k0 = r.inputRuleInfo
      · subst e
        have ht : s.task r.inputRuleInfo = t := task_of_lookup hl
        simp only [if_true]
        rw [ht, ← ht']
        exact ⟨rfl, rfl⟩
      · simp only [e, if_false]; exact ⟨rfl, rfl⟩
    · rw [h2, h1']; simp [List.flatMap_append, ← ht']
    · unfold requestedByAll
      rw [h2, h1']
      simp [List.flatMap_append, ← ht']
      omega

/-- a task's request is recorded as a dependency and queued: 3 → 1 (finished) / 2 (`requestedBy`) -/
theorem inputDone_term {rules : List RuleSpec} {U : List Key} {s : State} {ms : MSt} {r : TaskInputRequest} {a : Key}
    {ria : RuleInfo} (hr : Rel rules s ms { inp := [r] }) (c : ClosedU rules U s) (hU : r.inputRuleInfo ∈ U)
    (hta : r.taskInfo = some a) (hla : s.ruleInfos.lookup a = some ria) (tk : Option TaskInfo)
    (hk : ∀ t, tk = some t → s.taskInfos.lookup r.inputRuleInfo = some t ∧ t.forRuleInfo = r.inputRuleInfo) :
    TermStep rules U s { inp := [r] }
      (inputDoneState { ria with result := { ria.result with deps := ria.result.deps ++ [depOf r] } } r tk s) {} 1 := by
  generalize hria' : ({ ria with result := { ria.result with deps := ria.result.deps ++ [depOf r] } } : RuleInfo) = ria'
  have hrm : r ∈ outstanding s { inp := [r] } := by rw [outstanding_hand]; exact List.mem_cons_self
  have hwait : ria.state = .inProgressWaiting := by
    have := (hr.reqTask r hrm a hta).2
    rwa [rule_of_lookup hla] at this
  have hkey' : ria'.key = a := by rw [← hria']; exact hr.keyOk a ria hla
  have hstate' : ria'.state = .inProgressWaiting := by rw [← hria']; exact hwait
  have hdeps' : ria'.result.deps = ria.result.deps ++ [depOf r] := by rw [← hria']
  have hsim : RuleSim ria ria' := by
    rw [← hria']
    exact ⟨rfl, rfl, rfl, rfl, rfl, rfl, rfl, fun h => (by rw [hwait] at h; cases h), fun r0 h => ⟨r0, h⟩⟩
  obtain ⟨hT1, hT2, hT3⟩ := inputDone_taskFacts ria' r tk s hk
  generalize hS' : inputDoneState ria' r tk s = S' at hT1 hT2 hT3 ⊢
  have eR : S'.ruleInfos = (s.setRule ria').ruleInfos := by rw [← hS']; exact inputDone_ruleInfos _ _ _ _
  have eI : S'.inputRequests = s.inputRequests := by rw [← hS']; exact inputDone_inputRequests _ _ _ _
  have eQ : S'.ruleInfosToScan = s.ruleInfosToScan := by rw [← hS']; exact inputDone_scanQ _ _ _ _
  have eSt : S'.store = s.store := by rw [← hS']; exact inputDone_store _ _ _ _
  have hlive : liveRecords S' = liveRecords s := by
    have : liveRecords S' = liveRecords (s.setRule ria') := by unfold liveRecords; rw [eR]
    rw [this]
    exact setRule_liveRecords_nn hla hkey' (by simp [RuleInfo.isScanning, hwait]) (by simp [RuleInfo.isScanning, hstate'])
  have w : SameW s S' :=
    { epoch := by rw [← hS']; exact inputDone_epoch _ _ _ _, store := eSt,
      ruleNone := by rw [eR]; exact setRule_ruleNone hla ria' hkey',
      ruleSome := by rw [eR]; exact setRule_ruleSome hla hkey' hsim,
      taskDone := fun k0 => (hT1 k0).1, taskIssued := fun k0 => (hT1 k0).2 }
  refine ⟨c.sameW w ?_ (fun x hx => by rw [eI] at hx; exact hx), ?_⟩
  · intro k hkU d hd
    unfold deps0 at hd ⊢
    rw [eR, setRule_lookup, hkey', eSt] at hd
    by_cases e : k = a
    · subst e
      simp only [if_true, hdeps', List.mem_append, List.mem_singleton] at hd
      rcases hd with hd | hd
      · left; rw [hla]; exact hd
      · right; rw [hd]; exact hU
    · simp only [e, if_false] at hd; exact Or.inl hd
  · rw [Phi_sameW (U := U) (h' := {}) hr w (by rw [eQ]) (by rw [hlive]) hT2, Phi_hand_inp0]
    have hq3 := inputQW_ge s r
    have hp : pausedAll S' = pausedAll s := by unfold pausedAll; rw [hlive]
    rw [hp, eI]
    unfold Phi
    dsimp only
    simp only [List.nil_append]
    rcases hT3 with ⟨e1, e2⟩ | ⟨e1, e2⟩ <;> rw [e1, e2] <;> omega

/-! ## 4. `processInputRequest` -/

/-- `inputTail_shape` (Input.lean) with the requesting rule exposed -/
theorem inputTail_shape' {rules : List RuleSpec} {s : State} {ms : MSt} {r : TaskInputRequest} {b : Bool} {a : Key}
    (hr : Rel rules s ms { inp := [r] }) (hti : r.taskInfo = some a)
    (hb2 : b = false → (s.taskInfos.lookup r.inputRuleInfo).isSome = true) :
    ∃ (ria : RuleInfo) (tk : Option TaskInfo), s.ruleInfos.lookup a = some ria ∧
      inputTail r b s = inputDoneState { ria with result := { ria.result with deps := ria.result.deps ++ [depOf r] } } r tk s ∧
      ∀ t, tk = some t → s.taskInfos.lookup r.inputRuleInfo = some t ∧ t.forRuleInfo = r.inputRuleInfo := by
  have hrm : r ∈ outstanding s { inp := [r] } := by rw [outstanding_hand]; exact List.mem_cons_self
  obtain ⟨hts, hst⟩ := hr.reqTask r hrm a hti
  obtain ⟨ta, hta⟩ := Option.isSome_iff_exists.1 hts
  have hfor : (s.task a).forRuleInfo = a := by rw [task_of_lookup hta]; exact (hr.taskOk a ta hta).forRule
  obtain ⟨ria, hla⟩ := lookup_of_state (s := s) (k := a) (by rw [hst]; decide)
  generalize hria' : ({ ria with result := { ria.result with deps := ria.result.deps ++ [depOf r] } } : RuleInfo) = ria'
  cases b with
  | true =>
    refine ⟨ria, none, hla, ?_, fun t ht => by cases ht⟩
    rw [hria']
    unfold inputTail
    rw [hti]
    simp only [if_true, hfor, State.modRule, rule_of_lookup hla, hria']
    rfl
  | false =>
    obtain ⟨tk, htk⟩ := Option.isSome_iff_exists.1 (hb2 rfl)
    refine ⟨ria, some tk, hla, ?_, fun t ht => by cases ht; exact ⟨htk, (hr.taskOk _ tk htk).forRule⟩⟩
    rw [hria']
    unfold inputTail
    rw [hti]
    simp only [Bool.false_eq_true, if_false, hfor, State.modRule, rule_of_lookup hla, hria']
    have : (s.setRule ria').task r.inputRuleInfo = tk := by
      unfold State.task; rw [show (s.setRule ria').taskInfos = s.taskInfos from rfl, htk]; rfl
    unfold State.modTask
    rw [this]
    rfl

/-- the tail of `processInputRequest` (after `demandRule`): the request in hand (3) is dropped (0), queued as
finished (1) or in `requestedBy` (2) -/
theorem inputTail_term {rules : List RuleSpec} {U : List Key} {s : State} {ms : MSt} {r : TaskInputRequest} {b : Bool}
    (hr : Rel rules s ms { inp := [r] }) (c : ClosedU rules U s) (hU : r.inputRuleInfo ∈ U)
    (hb2 : b = false → (s.taskInfos.lookup r.inputRuleInfo).isSome = true) :
    TermStep rules U s { inp := [r] } (inputTail r b s) {} 1 := by
  cases hti : r.taskInfo with
  | none =>
    have e : inputTail r b s = s := by unfold inputTail; rw [hti]
    rw [e]; exact dropDummy_term c
  | some a =>
    obtain ⟨ria, tk, hla, e1, e2⟩ := inputTail_shape' hr hti hb2
    rw [e1]
    exact inputDone_term hr c hU hti hla tk e2

/-- the common part of T1 and T2: the states after `scanRule` and after `demandRule` -/
theorem processInputRequest_stages (hst : TermInput.ScanRuleTerm) (hdn : TermInput.DemandRuleNoHalt)
    {rules : List RuleSpec} (hok : RulesOk rules) {s : State} {ms : MSt} {r : TaskInputRequest} {U : List Key}
    (hr : Rel rules s ms { inp := [r] }) (hp : ms.pend = none) (hh : s.halted = false)
    (c : ClosedU rules U s) (hU : r.inputRuleInfo ∈ U) :
    (scanRule r.inputRuleInfo s).2.halted = false ∧
    TermStep rules U s { inp := [r] } (scanRule r.inputRuleInfo s).2 { inp := [r] } 0 ∧
    ∃ ms1, Rel rules (scanRule r.inputRuleInfo s).2 ms1 { inp := [r] } ∧ ms1.pend = none ∧
      Registered (scanRule r.inputRuleInfo s).2 r.inputRuleInfo ∧
      ((scanRule r.inputRuleInfo s).1 = false →
        ((scanRule r.inputRuleInfo s).2.rule r.inputRuleInfo).state = .isScanning) ∧
      ((scanRule r.inputRuleInfo s).1 = true →
        (demandRule r.inputRuleInfo (scanRule r.inputRuleInfo s).2).2.halted = false ∧
        ∃ ms2, Rel rules (demandRule r.inputRuleInfo (scanRule r.inputRuleInfo s).2).2 ms2 { inp := [r] } ∧
          ((demandRule r.inputRuleInfo (scanRule r.inputRuleInfo s).2).1 = false →
            ((demandRule r.inputRuleInfo (scanRule r.inputRuleInfo s).2).2.taskInfos.lookup r.inputRuleInfo).isSome = true)) := by
  have hrm : r ∈ outstanding s { inp := [r] } := by rw [outstanding_hand]; exact List.mem_cons_self
  have hreg : Registered s r.inputRuleInfo := (hr.reqReg r hrm).1
  have hin : InHand { inp := [r] } s r.inputRuleInfo := Or.inr ⟨r, List.mem_cons_self, rfl⟩
  have hsr := scanRule_sim rules hok s ms { inp := [r] } r.inputRuleInfo hr hp hh hreg hin (demanded_of_hand hr hp)
  have hh1 : (scanRule r.inputRuleInfo s).2.halted = false := by rw [scanRule_halted]; exact hh
  have ht1 := hst rules hok s ms { inp := [r] } r.inputRuleInfo U hr hp hh hreg c hU
  obtain ⟨toks1, ms1, _, _, hrel1, hp1, hreg1, _, _, hsc1, hsc2⟩ := hsr hh1
  refine ⟨hh1, ht1, ms1, hrel1, hp1, hreg1 _ hreg, hsc2, ?_⟩
  intro hb
  have hh2 := hdn rules hok _ ms1 { inp := [r] } r.inputRuleInfo U rfl hrel1 hp1 hh1 rfl (hreg1 _ hreg) (hsc1 hb) ht1.1 hU
  have hd := demandRule_sim rules hok _ ms1 { inp := [r] } r.inputRuleInfo rfl hrel1 hp1 hh1 rfl (hreg1 _ hreg) (hsc1 hb)
  obtain ⟨toks2, ms2, _, _, hrel2, _, _, _, _, hb2, _⟩ := hd hh2
  exact ⟨hh2, ms2, hrel2, hb2⟩

/-- a live scan record can be updated: `BAD use-of-freed-scan-record` is unreachable -/
theorem modScanRecord_live {rules : List RuleSpec} {s : State} {ms : MSt} {h : Hand} (hr : Rel rules s ms h) {k : Key}
    (hreg : Registered s k) (hs : (s.rule k).state = .isScanning) (f : RuleScanRecord → RuleScanRecord) :
    ∃ ri rc, s.ruleInfos.lookup k = some ri ∧ ri.state = .isScanning ∧ ri.inProgressInfo = .pendingScanRecord rc ∧
      modScanRecord k f s = s.setRule { ri with inProgressInfo := (InProgressInfo.pendingScanRecord (f rc)) } := by
  obtain ⟨ri, hl⟩ := Option.isSome_iff_exists.1 hreg
  rw [rule_of_lookup hl] at hs
  obtain ⟨rc, hrc⟩ := hr.recordLive k ri hl hs
  refine ⟨ri, rc, hl, hs, hrc, ?_⟩
  unfold modScanRecord
  rw [rule_of_lookup hl]
  simp only [RuleInfo.getPendingScanRecord, hrc, State.modRule, rule_of_lookup hl]

/-- **T1 for `processInputRequest`** -/
theorem processInputRequest_nohalt (hst : TermInput.ScanRuleTerm) (hdn : TermInput.DemandRuleNoHalt) :
    ∀ rules, RulesOk rules → ∀ (s : State) (ms : MSt) (r : TaskInputRequest) (U : List Key),
      Rel rules s ms { inp := [r] } → ms.pend = none → s.halted = false → FreshScanQ s → PendFresh ms.m →
      ClosedU rules U s → r.inputRuleInfo ∈ U → (processInputRequest r s).halted = false := by
  intro rules hok s ms r U hr hp hh _ _ c hU
  obtain ⟨hh1, _, ms1, hrel1, _, hreg1, hsc, hdem⟩ := processInputRequest_stages hst hdn hok hr hp hh c hU
  rw [processInputRequest_eq]
  cases hb : (scanRule r.inputRuleInfo s).1 with
  | false =>
    simp only [if_true]
    obtain ⟨ri, rc, _, _, _, e⟩ := modScanRecord_live hrel1 hreg1 (hsc hb)
      (fun rc => { rc with pausedInputRequests := rc.pausedInputRequests ++ [r] })
    rw [e]; exact hh1
  | true =>
    simp only [Bool.true_eq_false, if_false]
    rw [inputTail_halted]
    exact (hdem hb).1

/-- **T2 for `processInputRequest`** -/
theorem processInputRequest_term (hst : TermInput.ScanRuleTerm) (hdn : TermInput.DemandRuleNoHalt)
    (hdt : TermInput.DemandRuleTerm) :
    ∀ rules, RulesOk rules → ∀ (s : State) (ms : MSt) (r : TaskInputRequest) (U : List Key),
      Rel rules s ms { inp := [r] } → ms.pend = none → s.halted = false → FreshScanQ s → PendFresh ms.m →
      ClosedU rules U s → r.inputRuleInfo ∈ U →
      TermStep rules U s { inp := [r] } (processInputRequest r s) {} 1 := by
  intro rules hok s ms r U hr hp hh _ _ c hU
  obtain ⟨hh1, ht1, ms1, hrel1, hp1, hreg1, hsc, hdem⟩ := processInputRequest_stages hst hdn hok hr hp hh c hU
  rw [processInputRequest_eq]
  cases hb : (scanRule r.inputRuleInfo s).1 with
  | false =>
    simp only [if_true]
    obtain ⟨ri, rc, hl, hs, hrc, e⟩ := modScanRecord_live hrel1 hreg1 (hsc hb)
      (fun rc => { rc with pausedInputRequests := rc.pausedInputRequests ++ [r] })
    rw [e]
    exact (ht1.trans (pause_term hrel1 ht1.1 hl hs hrc)).mono (Nat.le_refl _)
  | true =>
    simp only [Bool.true_eq_false, if_false]
    obtain ⟨hh2, ms2, hrel2, hb2⟩ := hdem hb
    have hsr := scanRule_sim rules hok s ms { inp := [r] } r.inputRuleInfo hr hp hh
      ((hr.reqReg r (by rw [outstanding_hand]; exact List.mem_cons_self)).1)
      (Or.inr ⟨r, List.mem_cons_self, rfl⟩) (demanded_of_hand hr hp)
    obtain ⟨_, ms1', _, _, hrel1', hp1', _, _, _, hsc1, _⟩ := hsr hh1
    have ht2 := hdt rules hok _ ms1' { inp := [r] } r.inputRuleInfo U rfl hrel1' hp1' hh1 rfl hreg1 (hsc1 hb) ht1.1 hU
    exact ((ht1.trans ht2).trans (inputTail_term hrel2 ht2.1 hU hb2)).mono (Nat.le_refl _)

/-! ## 5. `inputRequestsLoop` -/

/-- **T1 and T2 for `inputRequestsLoop`** -/
theorem inputRequestsLoop_nohalt_term (hst : TermInput.ScanRuleTerm) (hdn : TermInput.DemandRuleNoHalt)
    (hdt : TermInput.DemandRuleTerm) :
    ∀ rules, RulesOk rules → ∀ (U : List Key) (fuel : Nat) (w : Bool) (s : State) (ms : MSt),
      Rel rules s ms {} → ms.pend = none → s.halted = false → FreshScanQ s → PendFresh ms.m →
      ClosedU rules U s → Phi rules U s {} < fuel →
      (inputRequestsLoop fuel w s).2.halted = false ∧
      TermStep rules U s {} (inputRequestsLoop fuel w s).2 {} (if s.inputRequests = [] then 0 else 1) := by
  intro rules hok U fuel
  induction fuel with
  | zero => intro w s ms _ _ _ _ _ _ hlt; exact absurd hlt (Nat.not_lt_zero _)
  | succ fuel ih =>
    intro w s ms hr hp hh hfq hpf c hlt
    rw [inputRequestsLoop]
    cases hq : s.inputRequests with
    | nil =>
      simp only [if_true]
      exact ⟨hh, c, Nat.le_refl _⟩
    | cons r rest =>
      simp only
      have hr0 := hr.popInput hp hq
      have c0 := c.popInput hq
      have hU := c.popped_mem hq
      have hphi0 := Phi_popInput0 rules U hq
      have hnh := processInputRequest_nohalt hst hdn rules hok { s with inputRequests := rest } ms r U hr0 hp hh hfq hpf c0 hU
      have htm := processInputRequest_term hst hdn hdt rules hok { s with inputRequests := rest } ms r U hr0 hp hh hfq hpf c0 hU
      have hpi := processInputRequest_sim demandRule_sim rules hok { s with inputRequests := rest } ms r hr0 hp hh hfq hpf
      generalize processInputRequest r { s with inputRequests := rest } = s1 at hnh htm hpi ⊢
      obtain ⟨toks1, ms1, _, _, hrel1, hp1, _, _, hfq1, hpf1⟩ := hpi hnh
      have hdrop := htm.2
      obtain ⟨hres, c2, hphi2⟩ := ih true s1 ms1 hrel1 hp1 hnh hfq1 hpf1 htm.1 (by omega)
      refine ⟨hres, c2, ?_⟩
      have : (if (r :: rest) = [] then 0 else 1) = 1 := by simp
      rw [this]
      omega

theorem inputRequestsLoop_nohalt (hst : TermInput.ScanRuleTerm) (hdn : TermInput.DemandRuleNoHalt)
    (hdt : TermInput.DemandRuleTerm) :
    ∀ rules, RulesOk rules → ∀ (U : List Key) (fuel : Nat) (w : Bool) (s : State) (ms : MSt),
      Rel rules s ms {} → ms.pend = none → s.halted = false → FreshScanQ s → PendFresh ms.m →
      ClosedU rules U s → Phi rules U s {} < fuel → (inputRequestsLoop fuel w s).2.halted = false :=
  fun rules hok U fuel w s ms hr hp hh hfq hpf c hlt =>
    (inputRequestsLoop_nohalt_term hst hdn hdt rules hok U fuel w s ms hr hp hh hfq hpf c hlt).1

theorem inputRequestsLoop_term (hst : TermInput.ScanRuleTerm) (hdn : TermInput.DemandRuleNoHalt)
    (hdt : TermInput.DemandRuleTerm) :
    ∀ rules, RulesOk rules → ∀ (U : List Key) (fuel : Nat) (w : Bool) (s : State) (ms : MSt),
      Rel rules s ms {} → ms.pend = none → s.halted = false → FreshScanQ s → PendFresh ms.m →
      ClosedU rules U s → Phi rules U s {} < fuel →
      TermStep rules U s {} (inputRequestsLoop fuel w s).2 {} (if s.inputRequests = [] then 0 else 1) :=
  fun rules hok U fuel w s ms hr hp hh hfq hpf c hlt =>
    (inputRequestsLoop_nohalt_term hst hdn hdt rules hok U fuel w s ms hr hp hh hfq hpf c hlt).2

/-- T1 ∧ T2 for `processInputRequest`, in one statement -/
theorem processInputRequest_nohalt_term (hst : TermInput.ScanRuleTerm) (hdn : TermInput.DemandRuleNoHalt)
    (hdt : TermInput.DemandRuleTerm) :
    ∀ rules, RulesOk rules → ∀ (s : State) (ms : MSt) (r : TaskInputRequest) (U : List Key),
      Rel rules s ms { inp := [r] } → ms.pend = none → s.halted = false → FreshScanQ s → PendFresh ms.m →
      ClosedU rules U s → r.inputRuleInfo ∈ U →
      (processInputRequest r s).halted = false ∧ TermStep rules U s { inp := [r] } (processInputRequest r s) {} 1 :=
  fun rules hok s ms r U hr hp hh hfq hpf c hU =>
    ⟨processInputRequest_nohalt hst hdn rules hok s ms r U hr hp hh hfq hpf c hU,
     processInputRequest_term hst hdn hdt rules hok s ms r U hr hp hh hfq hpf c hU⟩

end LLBuild.Refine
