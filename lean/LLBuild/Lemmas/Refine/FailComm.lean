/-
IM7 — the `F` op: NO ENGINE FUNCTION EXCEPT THE DATABASE WRITE READS (OR WRITES) THE FAILURE FLAG.
Every function of `Model/EngineImpl.lean` (and of the asynchronous restatement `Async0.lean`) other than
`setRuleResult` commutes with `withFail b`:
    `f args (withFail b s) = withFail b (f args s)`                    (state-returning functions)
    `f args (withFail b s) = ((f args s).1, withFail b (f args s).2)`   (functions returning a pair; triples alike)
The lemmas are named `f_withFail` and are meant to be used with `rw` / `simp only`, left to right (the flag is moved
outwards); for a call on an updated record, `f { withFail b s with x := v }`, rewrite the OTHER side right to left
(`rw [← f_withFail]`) and close with `rfl` (`withFail b { s with x := v } = { withFail b s with x := v }` is structure eta).
Contents, in dependency order: projections; the small updaters; the recorder; registration; the task interface; the
client; the hook; scanning and demanding; the loop bodies; cycle detection; the model's own loops; cancellation; the
asynchronous loops of `Async0.lean`; the stages `stA1..stA4`; the finished task up to the write; THE WRITE
(`setRuleResult_withFail_true`, `finishedTaskWrite_withFail_true`, `finishedTasksLoopA_withFail_true`); the build prologue
and epilogue; the ops; the unfolding equations of `executeLoopA` with the flag; "the flag is not written" corollaries.
Core Lean only (`Lean.Elab.Tactic` is imported for the three-line syntactic guard `lhs_is`).
-/
import Lean.Elab.Tactic
import LLBuild.Lemmas.Refine.Fail0

namespace LLBuild.Refine
open LLBuild.Engine LLBuild.Engine.DSL LLBuild.EngineImpl

/-! ## projections: every field other than `store` -/

@[simp] theorem withFail_rules (b : Bool) (s : State) : (withFail b s).rules = s.rules := rfl
@[simp] theorem withFail_env (b : Bool) (s : State) : (withFail b s).env = s.env := rfl
@[simp] theorem withFail_hasDB (b : Bool) (s : State) : (withFail b s).hasDB = s.hasDB := rfl
@[simp] theorem withFail_ruleInfos (b : Bool) (s : State) : (withFail b s).ruleInfos = s.ruleInfos := rfl
@[simp] theorem withFail_taskInfos (b : Bool) (s : State) : (withFail b s).taskInfos = s.taskInfos := rfl
@[simp] theorem withFail_ruleInfosToScan (b : Bool) (s : State) : (withFail b s).ruleInfosToScan = s.ruleInfosToScan := rfl
@[simp] theorem withFail_inputRequests (b : Bool) (s : State) : (withFail b s).inputRequests = s.inputRequests := rfl
@[simp] theorem withFail_finishedInputRequests (b : Bool) (s : State) :
    (withFail b s).finishedInputRequests = s.finishedInputRequests := rfl
@[simp] theorem withFail_readyTaskInfos (b : Bool) (s : State) : (withFail b s).readyTaskInfos = s.readyTaskInfos := rfl
@[simp] theorem withFail_finishedTaskInfos (b : Bool) (s : State) : (withFail b s).finishedTaskInfos = s.finishedTaskInfos := rfl
@[simp] theorem withFail_numOutstanding (b : Bool) (s : State) :
    (withFail b s).numOutstandingUnfinishedTasks = s.numOutstandingUnfinishedTasks := rfl
@[simp] theorem withFail_numScanned (b : Bool) (s : State) : (withFail b s).numRulesBeingScanned = s.numRulesBeingScanned := rfl
@[simp] theorem withFail_currentEpoch (b : Bool) (s : State) : (withFail b s).currentEpoch = s.currentEpoch := rfl
@[simp] theorem withFail_buildCancelled (b : Bool) (s : State) : (withFail b s).buildCancelled = s.buildCancelled := rfl
@[simp] theorem withFail_shouldResolveCycle (b : Bool) (s : State) : (withFail b s).shouldResolveCycle = s.shouldResolveCycle := rfl
@[simp] theorem withFail_trace (b : Bool) (s : State) : (withFail b s).trace = s.trace := rfl
@[simp] theorem withFail_halted (b : Bool) (s : State) : (withFail b s).halted = s.halted := rfl
@[simp] theorem withFail_cancelAtEvent (b : Bool) (s : State) : (withFail b s).cancelAtEvent = s.cancelAtEvent := rfl
@[simp] theorem withFail_cancelIssued (b : Bool) (s : State) : (withFail b s).cancelIssued = s.cancelIssued := rfl
@[simp] theorem withFail_buildActive (b : Bool) (s : State) : (withFail b s).buildActive = s.buildActive := rfl
@[simp] theorem withFail_sched (b : Bool) (s : State) : (withFail b s).sched = s.sched := rfl
@[simp] theorem withFail_pendingDeferred (b : Bool) (s : State) : (withFail b s).pendingDeferred = s.pendingDeferred := rfl
@[simp] theorem withFail_rule (b : Bool) (s : State) (k : Key) : (withFail b s).rule k = s.rule k := rfl
@[simp] theorem withFail_task (b : Bool) (s : State) (k : Key) : (withFail b s).task k = s.task k := rfl
@[simp] theorem withFail_isComplete (b : Bool) (s : State) (ri : RuleInfo) : isComplete (withFail b s) ri = isComplete s ri := rfl
@[simp] theorem withFail_isScanned (b : Bool) (s : State) (ri : RuleInfo) : isScanned (withFail b s) ri = isScanned s ri := rfl
@[simp] theorem withFail_setComplete (b : Bool) (s : State) (ri : RuleInfo) : setComplete (withFail b s) ri = setComplete s ri := rfl
/-- the store of `withFail b s` -/
theorem withFail_store (b : Bool) (s : State) : (withFail b s).store = { s.store with failNextSet := b } := rfl

/-! ## the small updaters (all by structure eta) -/

theorem setRule_withFail (b : Bool) (s : State) (ri : RuleInfo) : (withFail b s).setRule ri = withFail b (s.setRule ri) := rfl
theorem modRule_withFail (b : Bool) (s : State) (k : Key) (f : RuleInfo → RuleInfo) :
    (withFail b s).modRule k f = withFail b (s.modRule k f) := rfl
theorem setTask_withFail (b : Bool) (s : State) (t : TaskInfo) : (withFail b s).setTask t = withFail b (s.setTask t) := rfl
theorem modTask_withFail (b : Bool) (s : State) (k : Key) (f : TaskInfo → TaskInfo) :
    (withFail b s).modTask k f = withFail b (s.modTask k f) := rfl
theorem pushInput_withFail (b : Bool) (r : TaskInputRequest) (s : State) :
    pushInput r (withFail b s) = withFail b (pushInput r s) := rfl
theorem destroyTask_withFail (b : Bool) (task : Key) (s : State) :
    destroyTask task (withFail b s) = withFail b (destroyTask task s) := rfl

/-- the result of a function returning `(x, s')`, with `g` applied to the state -/
def mapSt {α : Type} (g : State → State) (r : α × State) : α × State := (r.1, g r.2)

@[simp] theorem mapSt_fst {α : Type} (g : State → State) (r : α × State) : (mapSt g r).1 = r.1 := rfl
@[simp] theorem mapSt_snd {α : Type} (g : State → State) (r : α × State) : (mapSt g r).2 = g r.2 := rfl
theorem mapSt_mk {α : Type} (g : State → State) (x : α) (s : State) : mapSt g (x, s) = (x, g s) := rfl
theorem mapSt_eq {α : Type} (g : State → State) (r : α × State) : mapSt g r = (r.1, g r.2) := rfl

/-- `g` pushed through an `if` (the two tests only have to agree up to unfolding `withFail`) -/
theorem ite_push {α β : Type} (g : α → β) (c : Prop) [Decidable c] {A B : α} {A' B' : β}
    (hA : A' = g A) (hB : B' = g B) : (if c then A' else B') = g (if c then A else B) := by
  split <;> assumption

/-- `ite_push` with two tests that are only propositionally the same (closed by `Iff.rfl`: they agree up to unfolding
`withFail`; the tactic below applies it at reducible transparency so that nothing is unfolded to find an `if`) -/
theorem ite_push' {α β : Type} (g : α → β) (c c' : Prop) [Decidable c] [Decidable c'] {A B : α} {A' B' : β}
    (hc : c ↔ c') (hA : A' = g A) (hB : B' = g B) : (if c then A' else B') = g (if c' then A else B) := by
  by_cases h : c
  · rw [if_pos h, if_pos (hc.1 h)]; exact hA
  · rw [if_neg h, if_neg (fun h' => h (hc.2 h'))]; exact hB

/-- `mapSt g` on an explicit pair -/
theorem pair_push {α : Type} (g : State → State) (x : α) {A A' : State} (h : A' = g A) :
    (x, A') = mapSt g (x, A) := by rw [h]; rfl

/-- normalise the projections of `withFail b s` everywhere, including the `Decidable` instances of the `if`s (which
`simp` leaves alone: after `simp only [withFail_…]` the tests are rewritten but their instances still mention
`withFail b s`, and the term is then type-correct only up to unfolding `withFail`) -/
syntax "wf_norm" : tactic
macro_rules
  | `(tactic| wf_norm) =>
    `(tactic| try dsimp (config := { instances := true }) only [withFail_rules, withFail_env, withFail_hasDB,
        withFail_ruleInfos, withFail_taskInfos, withFail_ruleInfosToScan, withFail_inputRequests,
        withFail_finishedInputRequests, withFail_readyTaskInfos, withFail_finishedTaskInfos, withFail_numOutstanding,
        withFail_numScanned, withFail_currentEpoch, withFail_buildCancelled, withFail_shouldResolveCycle, withFail_trace,
        withFail_halted, withFail_cancelAtEvent, withFail_cancelIssued, withFail_buildActive, withFail_sched,
        withFail_pendingDeferred, withFail_rule, withFail_task, withFail_isComplete, withFail_isScanned,
        withFail_setComplete])

/-- succeeds iff the goal is an equation whose left-hand side is SYNTACTICALLY an application of the given constant
(a guard: `refine ite_push' …` would otherwise unfold definitions until it finds an `if`) -/
elab "lhs_is " c:ident : tactic => do
  let g ← Lean.Elab.Tactic.getMainGoal
  let t ← Lean.instantiateMVars (← g.getType)
  let n ← Lean.Elab.realizeGlobalConstNoOverloadWithInfo c
  match t.eq? with
  | some (_, lhs, _) => if lhs.isAppOf n then pure () else Lean.throwError "lhs_is: other head"
  | none => Lean.throwError "lhs_is: not an equation"

/-- the recursive part of `wf_close` -/
syntax "wf_core" : tactic
macro_rules
  | `(tactic| wf_core) =>
    `(tactic| first
      | (lhs_is ite; refine ite_push' _ _ _ ?_ ?_ ?_ <;> first | exact Iff.rfl | wf_core | skip)
      | (lhs_is Prod.mk; refine pair_push _ _ ?_ <;> first | wf_core | skip)
      | rfl
      | (split <;> first | wf_core | skip))

/-- a generic closing tactic: `ite_push'` at an `if`, `pair_push` at a pair, structure eta at the leaves, `split` at a
`match`; what it cannot close is left as a goal -/
syntax "wf_close" : tactic
macro_rules
  | `(tactic| wf_close) => `(tactic| (wf_norm; wf_core))

/-- `withFail b` pulled out of an `if` -/
theorem ite_withFail (b : Bool) (c : Prop) [Decidable c] (A B : State) :
    (if c then withFail b A else withFail b B) = withFail b (if c then A else B) := by
  split <;> rfl

/-! ## the recorder -/

theorem doCancel_withFail (b : Bool) (s : State) : doCancel (withFail b s) = withFail b (doCancel s) := by
  unfold doCancel
  wf_close

theorem emit_withFail (b : Bool) (t : Tok) (s : State) : emit t (withFail b s) = withFail b (emit t s) := by
  unfold emit
  refine ite_push _ _ rfl ?_
  refine ite_push _ _ ?_ rfl
  exact doCancel_withFail b { s with trace := t :: s.trace }

theorem halt_withFail (b : Bool) (t : Tok) (s : State) : halt t (withFail b s) = withFail b (halt t s) := by
  unfold halt
  wf_close

theorem modScanRecord_withFail (b : Bool) (k : Key) (f : RuleScanRecord → RuleScanRecord) (s : State) :
    modScanRecord k f (withFail b s) = withFail b (modScanRecord k f s) := by
  unfold modScanRecord
  simp only [withFail_rule, modRule_withFail, halt_withFail]
  wf_close

/-! ## registration -/

theorem getRuleInfoForKey_withFail (b : Bool) (k : Key) (s : State) :
    getRuleInfoForKey k (withFail b s) = withFail b (getRuleInfoForKey k s) := by
  unfold getRuleInfoForKey
  simp only [withFail_ruleInfos, emit_withFail, withFail_rules, withFail_env, withFail_hasDB, withFail_store,
    setRule_withFail]
  wf_close

/-! ## the task interface -/

theorem addTaskInputRequest_withFail (b : Bool) (task key inputID : Nat) (oo su : Bool) (s : State) :
    addTaskInputRequest task key inputID oo su (withFail b s) = withFail b (addTaskInputRequest task key inputID oo su s) := by
  unfold addTaskInputRequest
  simp only [withFail_rule, halt_withFail, getRuleInfoForKey_withFail, withFail_inputRequests]
  wf_close

theorem taskNeedsInput_withFail (b : Bool) (task key inputID : Nat) (s : State) :
    taskNeedsInput task key inputID (withFail b s) = withFail b (taskNeedsInput task key inputID s) := by
  unfold taskNeedsInput
  simp only [emit_withFail, addTaskInputRequest_withFail]
  wf_close

theorem taskNeedsSingleUseInput_withFail (b : Bool) (task key inputID : Nat) (s : State) :
    taskNeedsSingleUseInput task key inputID (withFail b s) = withFail b (taskNeedsSingleUseInput task key inputID s) := by
  unfold taskNeedsSingleUseInput
  simp only [emit_withFail, addTaskInputRequest_withFail]
  wf_close

theorem taskMustFollow_withFail (b : Bool) (task key : Nat) (s : State) :
    taskMustFollow task key (withFail b s) = withFail b (taskMustFollow task key s) :=
  addTaskInputRequest_withFail b _ _ _ _ _ s

theorem taskDiscoveredDependency_withFail (b : Bool) (task key : Nat) (s : State) :
    taskDiscoveredDependency task key (withFail b s) = withFail b (taskDiscoveredDependency task key s) := by
  unfold taskDiscoveredDependency
  simp only [emit_withFail, withFail_rule, modTask_withFail]
  wf_close

theorem taskIsComplete_withFail (b : Bool) (task : Key) (v : Val) (fc : Bool) (s : State) :
    taskIsComplete task v fc (withFail b s) = withFail b (taskIsComplete task v fc s) := by
  unfold taskIsComplete
  simp only [emit_withFail, withFail_rule, withFail_currentEpoch, setRule_withFail]
  wf_close

/-! ## the client -/

theorem issue_withFail (b : Bool) (task : Key) : ∀ (l : List Req) (s : State),
    issue task l (withFail b s) = withFail b (issue task l s)
  | [], _ => rfl
  | q :: rest, s => by
    rw [issue, issue]
    simp only [modTask_withFail, taskNeedsInput_withFail, taskNeedsSingleUseInput_withFail, taskMustFollow_withFail]
    rw [← issue_withFail b task rest]
    congr 1
    wf_close

theorem taskStart_withFail (b : Bool) (task : Key) (s : State) :
    taskStart task (withFail b s) = withFail b (taskStart task s) := by
  unfold taskStart
  simp only [withFail_rules, withFail_task, emit_withFail, issue_withFail]

theorem taskProvideValue_withFail (b : Bool) (task : Key) (id : Nat) (key : Key) (v : Val) (s : State) :
    taskProvideValue task id key v (withFail b s) = withFail b (taskProvideValue task id key v s) := by
  unfold taskProvideValue
  simp only [withFail_rules, withFail_task, setTask_withFail, emit_withFail, issue_withFail] <;> rfl

theorem taskComplete_withFail (b : Bool) (task : Key) (s : State) :
    taskComplete task (withFail b s) = withFail b (taskComplete task s) := by
  unfold taskComplete
  simp only [withFail_rules, withFail_env, withFail_task, emit_withFail, modTask_withFail, taskIsComplete_withFail]

theorem reportDiscovered_withFail (b : Bool) (task : Key) : ∀ (l : List Key) (s : State),
    reportDiscovered task l (withFail b s) = withFail b (reportDiscovered task l s)
  | [], _ => rfl
  | d :: ds, s => by
    rw [reportDiscovered, reportDiscovered, taskDiscoveredDependency_withFail, reportDiscovered_withFail b task ds]

theorem taskInputsAvailable_withFail (b : Bool) (task : Key) (s : State) :
    taskInputsAvailable task (withFail b s) = withFail b (taskInputsAvailable task s) := by
  unfold taskInputsAvailable
  simp only [withFail_rules, withFail_task, emit_withFail, reportDiscovered_withFail, taskComplete_withFail]
  wf_close

/-! ## the hook-driven schedule -/

theorem completeKey_withFail (b : Bool) (k : Key) (s : State) :
    completeKey k (withFail b s) = ((completeKey k s).1, withFail b (completeKey k s).2) := by
  show _ = mapSt (withFail b) _
  unfold completeKey
  refine ite_push _ _ ?_ rfl
  rw [mapSt_mk, ← taskComplete_withFail]
  rfl

theorem completeSmallest_withFail (b : Bool) (s : State) :
    completeSmallest (withFail b s) = ((completeSmallest s).1, withFail b (completeSmallest s).2) := by
  unfold completeSmallest
  simp only [withFail_pendingDeferred, completeKey_withFail]
  wf_close

theorem completeKeys_withFail (b : Bool) : ∀ (l : List Key) (any : Bool) (s : State),
    completeKeys l any (withFail b s) = ((completeKeys l any s).1, withFail b (completeKeys l any s).2)
  | [], _, _ => rfl
  | k :: ks, any, s => by
    rw [completeKeys, completeKeys, completeKey_withFail]
    exact completeKeys_withFail b ks _ _

theorem hookSched_withFail (b : Bool) (s : State) :
    hookSched (withFail b s) = ((hookSched s).1, withFail b (hookSched s).2) := by
  show _ = mapSt (withFail b) _
  unfold hookSched
  simp only [withFail_sched]
  split
  · rfl
  · next it rest _ =>
    have h := completeKeys_withFail b it.keys false { s with sched := rest }
    rw [show completeKeys it.keys false { withFail b s with sched := rest } = _ from h, mapSt_mk]
    simp only [doCancel_withFail]
    refine congrArg _ ?_
    wf_close

theorem hook_withFail (b : Bool) (point : Nat) (s : State) : hook point (withFail b s) = withFail b (hook point s) := by
  rw [hook_eq, hook_eq]
  simp only [hookSched_withFail, completeSmallest_withFail]
  wf_close

/-! ## scanning and demanding -/

theorem scanRule_withFail (b : Bool) (k : Key) (s : State) :
    scanRule k (withFail b s) = ((scanRule k s).1, withFail b (scanRule k s).2) := by
  show _ = mapSt (withFail b) _
  unfold scanRule
  simp only [withFail_rule, withFail_isScanned, setRule_withFail, emit_withFail, withFail_rules, withFail_env]
  wf_close

theorem demandRule_withFail (b : Bool) (k : Key) (s : State) :
    demandRule k (withFail b s) = ((demandRule k s).1, withFail b (demandRule k s).2) := by
  show _ = mapSt (withFail b) _
  unfold demandRule
  simp only [withFail_rule, withFail_isComplete, withFail_setComplete, setRule_withFail, setTask_withFail, modRule_withFail,
    emit_withFail, taskStart_withFail, withFail_task, ite_withFail, withFail_readyTaskInfos]
  wf_close

theorem finishScanRequest_withFail (b : Bool) (k : Key) (st : StateKind) (s : State) :
    finishScanRequest k st (withFail b s) = withFail b (finishScanRequest k st s) := by
  unfold finishScanRequest
  simp only [withFail_rule, halt_withFail]
  wf_close

theorem afterDemand_withFail_of (b : Bool) (fuel : Nat)
    (ih : ∀ (r : RuleScanRequest) (s : State), scanLoop fuel r (withFail b s) = withFail b (scanLoop fuel r s))
    (request : RuleScanRequest) (input : Key) (s : State) :
    afterDemand fuel request input (withFail b s) = withFail b (afterDemand fuel request input s) := by
  unfold afterDemand
  simp only [withFail_rule, finishScanRequest_withFail, emit_withFail, ih]
  wf_close

theorem afterScan_withFail_of (b : Bool) (fuel : Nat)
    (ih : ∀ (r : RuleScanRequest) (s : State), scanLoop fuel r (withFail b s) = withFail b (scanLoop fuel r s))
    (request : RuleScanRequest) (input : Key) (p : Bool × State) :
    afterScan fuel request input (p.1, withFail b p.2) = withFail b (afterScan fuel request input p) := by
  unfold afterScan
  simp only [modScanRecord_withFail, demandRule_withFail, modTask_withFail, afterDemand_withFail_of b fuel ih]
  wf_close

theorem scanLoop_withFail (b : Bool) : ∀ (fuel : Nat) (r : RuleScanRequest) (s : State),
    scanLoop fuel r (withFail b s) = withFail b (scanLoop fuel r s)
  | 0, r, s => by rw [scanLoop, scanLoop, halt_withFail]
  | fuel + 1, r, s => by
    rw [scanLoop_succ, scanLoop_succ]
    simp only [withFail_rule, getRuleInfoForKey_withFail, halt_withFail, scanRule_withFail,
      afterScan_withFail_of b fuel (scanLoop_withFail b fuel)]
    wf_close

theorem afterDemand_withFail (b : Bool) (fuel : Nat) (request : RuleScanRequest) (input : Key) (s : State) :
    afterDemand fuel request input (withFail b s) = withFail b (afterDemand fuel request input s) :=
  afterDemand_withFail_of b fuel (scanLoop_withFail b fuel) request input s

theorem afterScan_withFail (b : Bool) (fuel : Nat) (request : RuleScanRequest) (input : Key) (p : Bool × State) :
    afterScan fuel request input (p.1, withFail b p.2) = withFail b (afterScan fuel request input p) :=
  afterScan_withFail_of b fuel (scanLoop_withFail b fuel) request input p

theorem processRuleScanRequest_withFail (b : Bool) (r : RuleScanRequest) (s : State) :
    processRuleScanRequest r (withFail b s) = withFail b (processRuleScanRequest r s) := by
  unfold processRuleScanRequest
  simp only [withFail_rule, scanLoop_withFail]
  wf_close

theorem decrementTaskWaitCount_withFail (b : Bool) (task : Key) (s : State) :
    decrementTaskWaitCount task (withFail b s) = withFail b (decrementTaskWaitCount task s) := by
  unfold decrementTaskWaitCount
  simp only [withFail_task, halt_withFail, modTask_withFail, withFail_readyTaskInfos]
  wf_close

theorem inputTail_withFail (b : Bool) (r : TaskInputRequest) (avail : Bool) (s : State) :
    inputTail r avail (withFail b s) = withFail b (inputTail r avail s) := by
  unfold inputTail
  simp only [withFail_task, modRule_withFail, modTask_withFail, withFail_finishedInputRequests]
  wf_close

theorem processInputRequest_withFail (b : Bool) (r : TaskInputRequest) (s : State) :
    processInputRequest r (withFail b s) = withFail b (processInputRequest r s) := by
  rw [processInputRequest_eq, processInputRequest_eq]
  simp only [scanRule_withFail, demandRule_withFail, modScanRecord_withFail, inputTail_withFail]
  wf_close

theorem pushDiscovered_withFail (b : Bool) : ∀ (l : List Dep) (s : State),
    pushDiscovered l (withFail b s) = withFail b (pushDiscovered l s)
  | [], _ => rfl
  | d :: ds, s => by
    rw [pushDiscovered_cons, pushDiscovered_cons, getRuleInfoForKey_withFail, pushInput_withFail,
      pushDiscovered_withFail b ds]

/-! ## the loop bodies -/

theorem finishedInputStep_withFail (b : Bool) (task : Key) (r : TaskInputRequest) (s : State) :
    finishedInputStep task r (withFail b s) = withFail b (finishedInputStep task r s) := by
  unfold finishedInputStep
  simp only [withFail_rule, taskProvideValue_withFail, ite_withFail, decrementTaskWaitCount_withFail]

theorem readyStep_withFail (b : Bool) (task : Key) (s : State) :
    readyStep task (withFail b s) = withFail b (readyStep task s) := by
  unfold readyStep
  simp only [withFail_task, modRule_withFail, taskInputsAvailable_withFail]
  rfl

theorem waitStep_withFail (b : Bool) (s : State) : waitStep (withFail b s) = withFail b (waitStep s) := by
  unfold waitStep
  simp only [hook_withFail, withFail_finishedTaskInfos, halt_withFail]
  wf_close

theorem finishedTaskWake_withFail (b : Bool) (task : Key) (ti : TaskInfo) (s : State) :
    finishedTaskWake task ti (withFail b s) = withFail b (finishedTaskWake task ti s) := rfl

theorem finishedTaskPre_withFail (b : Bool) (task : Key) (s : State) :
    finishedTaskPre task (withFail b s) = withFail b (finishedTaskPre task s) := by
  unfold finishedTaskPre
  simp only [withFail_task, modRule_withFail, withFail_setComplete, emit_withFail, pushDiscovered_withFail]

/-! ## cycle detection -/

theorem gatherScanRecords_withFail (b : Bool) (s : State) : ∀ (fuel : Nat) (active visited : List Key) (g : Graph),
    gatherScanRecords (withFail b s) fuel active visited g = gatherScanRecords s fuel active visited g
  | 0, _, _, _ => rfl
  | fuel + 1, active, visited, g => by
    rw [gatherScanRecords, gatherScanRecords]
    simp only [withFail_rule, withFail_task, gatherScanRecords_withFail b s fuel]
    rfl

theorem findCycle_withFail (b : Bool) (key : Key) (s : State) : findCycle key (withFail b s) = findCycle key s := by
  unfold findCycle
  simp only [withFail_taskInfos, withFail_task, withFail_ruleInfos, gatherScanRecords_withFail]

theorem predGraph_withFail (b : Bool) (s : State) : predGraph (withFail b s) = predGraph s := by
  unfold predGraph
  simp only [withFail_taskInfos, withFail_task, withFail_ruleInfos, gatherScanRecords_withFail]

theorem findTaskInputRequestForRule_withFail (b : Bool) (s : State) (k : Key) : ∀ (l : List TaskInputRequest),
    findTaskInputRequestForRule (withFail b s) k l = findTaskInputRequestForRule s k l
  | [] => rfl
  | r :: rest => by
    rw [findTaskInputRequestForRule, findTaskInputRequestForRule]
    simp only [withFail_task, findTaskInputRequestForRule_withFail b s k rest]

theorem breakCycleLoop_withFail (b : Bool) : ∀ (l : List Key) (s : State),
    breakCycleLoop l (withFail b s) = ((breakCycleLoop l s).1, withFail b (breakCycleLoop l s).2)
  | [], _ => rfl
  | k :: rest, s => by
    show _ = mapSt (withFail b) _
    rw [breakCycleLoop.eq_def, breakCycleLoop.eq_def]
    simp only [withFail_rule, withFail_task, withFail_shouldResolveCycle, findTaskInputRequestForRule_withFail,
      breakCycleLoop_withFail b _ s]
    wf_close
    rw [← modRule_withFail, ← emit_withFail, ← finishScanRequest_withFail]
    rfl


theorem breakCycle_withFail (b : Bool) (l : List Key) (s : State) :
    breakCycle l (withFail b s) = ((breakCycle l s).1, withFail b (breakCycle l s).2) :=
  breakCycleLoop_withFail b _ s

theorem resolveCycle_withFail (b : Bool) (key : Key) (s : State) :
    resolveCycle key (withFail b s) = ((resolveCycle key s).1, withFail b (resolveCycle key s).2) := by
  show _ = mapSt (withFail b) _
  unfold resolveCycle
  simp only [findCycle_withFail, halt_withFail, breakCycle_withFail, emit_withFail]
  wf_close

/-! ## the model's own (synchronous) loops -/

theorem scanRequestsLoop_withFail (b : Bool) : ∀ (fuel : Nat) (w : Bool) (s : State),
    scanRequestsLoop fuel w (withFail b s) = ((scanRequestsLoop fuel w s).1, withFail b (scanRequestsLoop fuel w s).2)
  | 0, w, s => by rw [scanRequestsLoop, scanRequestsLoop, halt_withFail]
  | fuel + 1, w, s => by
    rw [scanRequestsLoop_succ, scanRequestsLoop_succ]
    simp only [withFail_ruleInfosToScan]
    split
    · rfl
    · next request _ =>
      rw [← scanRequestsLoop_withFail b fuel, ← processRuleScanRequest_withFail]
      rfl


theorem inputRequestsLoop_withFail (b : Bool) : ∀ (fuel : Nat) (w : Bool) (s : State),
    inputRequestsLoop fuel w (withFail b s) = ((inputRequestsLoop fuel w s).1, withFail b (inputRequestsLoop fuel w s).2)
  | 0, w, s => by rw [inputRequestsLoop, inputRequestsLoop, halt_withFail]
  | fuel + 1, w, s => by
    rw [inputRequestsLoop, inputRequestsLoop]
    simp only [withFail_inputRequests]
    split
    · rfl
    · next request rest _ =>
      rw [← inputRequestsLoop_withFail b fuel, ← processInputRequest_withFail]
      rfl

theorem finishedInputsLoop_withFail (b : Bool) : ∀ (fuel : Nat) (w : Bool) (s : State),
    finishedInputsLoop fuel w (withFail b s) = ((finishedInputsLoop fuel w s).1, withFail b (finishedInputsLoop fuel w s).2)
  | 0, w, s => by rw [finishedInputsLoop, finishedInputsLoop, halt_withFail]
  | fuel + 1, w, s => by
    rw [finishedInputsLoop_succ, finishedInputsLoop_succ]
    simp only [withFail_finishedInputRequests]
    split
    · rfl
    · split
      · rw [← halt_withFail]; rfl
      · rw [← finishedInputsLoop_withFail b fuel, ← finishedInputStep_withFail]
        rfl

theorem readyTasksLoop_withFail (b : Bool) : ∀ (fuel : Nat) (w : Bool) (s : State),
    readyTasksLoop fuel w (withFail b s) = ((readyTasksLoop fuel w s).1, withFail b (readyTasksLoop fuel w s).2)
  | 0, w, s => by rw [readyTasksLoop, readyTasksLoop, halt_withFail]
  | fuel + 1, w, s => by
    rw [readyTasksLoop_succ, readyTasksLoop_succ]
    simp only [withFail_readyTaskInfos]
    split
    · rfl
    · rw [← readyTasksLoop_withFail b fuel, ← readyStep_withFail]
      rfl

/-! ## cancellation -/

theorem drainLoop_withFail (b : Bool) : ∀ (fuel : Nat) (s : State),
    drainLoop fuel (withFail b s) = withFail b (drainLoop fuel s)
  | 0, s => by rw [drainLoop, drainLoop, halt_withFail]
  | fuel + 1, s => by
    rw [drainLoop_succ, drainLoop_succ]
    simp only [hook_withFail, withFail_numOutstanding, withFail_finishedTaskInfos, halt_withFail]
    wf_norm
    refine ite_push' _ _ _ Iff.rfl rfl ?_
    refine ite_push' _ _ _ Iff.rfl rfl ?_
    rw [← drainLoop_withFail b fuel]
    rfl

theorem cancelTasks_withFail (b : Bool) : ∀ (l : List (Key × TaskInfo)) (s : State),
    cancelTasks l (withFail b s) = withFail b (cancelTasks l s)
  | [], _ => rfl
  | (_, t) :: rest, s => by
    rw [cancelTasks, cancelTasks, modRule_withFail, cancelTasks_withFail b rest]

theorem destroyTasks_withFail (b : Bool) : ∀ (l : List (Key × TaskInfo)) (s : State),
    destroyTasks l (withFail b s) = withFail b (destroyTasks l s)
  | [], _ => rfl
  | (k, _) :: rest, s => by
    rw [destroyTasks, destroyTasks, destroyTask_withFail, destroyTasks_withFail b rest]

theorem cancelTail_withFail (b : Bool) (s : State) : cancelTail (withFail b s) = withFail b (cancelTail s) := by
  unfold cancelTail
  simp only [withFail_taskInfos, cancelTasks_withFail]
  rw [← destroyTasks_withFail]
  rfl

theorem cancelRemainingTasks_withFail (b : Bool) (s : State) :
    cancelRemainingTasks (withFail b s) = withFail b (cancelRemainingTasks s) := by
  rw [cancelRemainingTasks_eq_tail, cancelRemainingTasks_eq_tail, drainLoop_withFail, cancelTail_withFail]

/-! ## the asynchronous restatement (`Async0.lean`) -/

theorem asyncStep_withFail (b : Bool) (it : SchedItem) (s : State) :
    asyncStep it (withFail b s) = withFail b (asyncStep it s) := by
  unfold asyncStep
  simp only [completeKeys_withFail, doCancel_withFail]
  wf_close

theorem asyncPoint_withFail (b : Bool) (a : Async) (s : State) :
    asyncPoint a (withFail b s) = ((asyncPoint a s).1, withFail b (asyncPoint a s).2) := by
  cases a with
  | nil => rfl
  | cons it rest => simp only [asyncPoint, asyncStep_withFail]

theorem scanRequestsLoopA_withFail (b : Bool) : ∀ (fuel : Nat) (w : Bool) (a : Async) (s : State),
    scanRequestsLoopA fuel w a (withFail b s) =
      ((scanRequestsLoopA fuel w a s).1, (scanRequestsLoopA fuel w a s).2.1, withFail b (scanRequestsLoopA fuel w a s).2.2)
  | 0, w, a, s => by rw [scanRequestsLoopA, scanRequestsLoopA, halt_withFail]
  | fuel + 1, w, a, s => by
    rw [scanRequestsLoopA, scanRequestsLoopA]
    simp only [asyncPoint_withFail, withFail_ruleInfosToScan]
    split
    · rfl
    · rw [← scanRequestsLoopA_withFail b fuel, ← processRuleScanRequest_withFail]
      rfl

theorem inputRequestsLoopA_withFail (b : Bool) : ∀ (fuel : Nat) (w : Bool) (a : Async) (s : State),
    inputRequestsLoopA fuel w a (withFail b s) =
      ((inputRequestsLoopA fuel w a s).1, (inputRequestsLoopA fuel w a s).2.1, withFail b (inputRequestsLoopA fuel w a s).2.2)
  | 0, w, a, s => by rw [inputRequestsLoopA, inputRequestsLoopA, halt_withFail]
  | fuel + 1, w, a, s => by
    rw [inputRequestsLoopA, inputRequestsLoopA]
    simp only [asyncPoint_withFail, withFail_inputRequests]
    split
    · rfl
    · rw [← inputRequestsLoopA_withFail b fuel, ← processInputRequest_withFail]
      rfl

theorem finishedInputsLoopA_withFail (b : Bool) : ∀ (fuel : Nat) (w : Bool) (a : Async) (s : State),
    finishedInputsLoopA fuel w a (withFail b s) =
      ((finishedInputsLoopA fuel w a s).1, (finishedInputsLoopA fuel w a s).2.1,
        withFail b (finishedInputsLoopA fuel w a s).2.2)
  | 0, w, a, s => by rw [finishedInputsLoopA_zero, finishedInputsLoopA_zero, halt_withFail]
  | fuel + 1, w, a, s => by
    rw [finishedInputsLoopA_succ, finishedInputsLoopA_succ]
    simp only [asyncPoint_withFail, withFail_finishedInputRequests]
    split
    · rfl
    · split
      · rw [← halt_withFail]; rfl
      · rw [← finishedInputsLoopA_withFail b fuel, ← finishedInputStep_withFail]
        rfl

theorem readyTasksLoopA_withFail (b : Bool) : ∀ (fuel : Nat) (w : Bool) (a : Async) (s : State),
    readyTasksLoopA fuel w a (withFail b s) =
      ((readyTasksLoopA fuel w a s).1, (readyTasksLoopA fuel w a s).2.1, withFail b (readyTasksLoopA fuel w a s).2.2)
  | 0, w, a, s => by rw [readyTasksLoopA, readyTasksLoopA, halt_withFail]
  | fuel + 1, w, a, s => by
    rw [readyTasksLoopA, readyTasksLoopA]
    simp only [asyncPoint_withFail, withFail_readyTaskInfos]
    split
    · rfl
    · rw [← readyTasksLoopA_withFail b fuel, ← readyStep_withFail]
      rfl

theorem drainLoopA_withFail (b : Bool) : ∀ (fuel : Nat) (a : Async) (s : State),
    drainLoopA fuel a (withFail b s) = ((drainLoopA fuel a s).1, withFail b (drainLoopA fuel a s).2)
  | 0, a, s => by rw [drainLoopA, drainLoopA, halt_withFail]
  | fuel + 1, a, s => by
    show _ = mapSt (withFail b) _
    rw [drainLoopA_succ, drainLoopA_succ]
    simp only [asyncPoint_withFail, hook_withFail, withFail_numOutstanding, withFail_finishedTaskInfos, halt_withFail]
    wf_norm
    refine ite_push' _ _ _ Iff.rfl rfl ?_
    refine ite_push' _ _ _ Iff.rfl rfl ?_
    rw [mapSt_eq, ← drainLoopA_withFail b fuel]
    rfl

theorem cancelRemainingTasksA_withFail (b : Bool) (a : Async) (s : State) :
    cancelRemainingTasksA a (withFail b s) = ((cancelRemainingTasksA a s).1, withFail b (cancelRemainingTasksA a s).2) := by
  unfold cancelRemainingTasksA
  simp only [drainLoopA_withFail, cancelTail_withFail]

/-! ## the work-loop stages (`AsyncLoop.lean`) -/

theorem stA1_withFail (b : Bool) (a : Async) (s : State) :
    stA1 a (withFail b s) = ((stA1 a s).1, (stA1 a s).2.1, withFail b (stA1 a s).2.2) :=
  scanRequestsLoopA_withFail b _ _ _ _

theorem stA2_withFail (b : Bool) (a : Async) (s : State) :
    stA2 a (withFail b s) = ((stA2 a s).1, (stA2 a s).2.1, withFail b (stA2 a s).2.2) := by
  unfold stA2
  rw [stA1_withFail]
  exact inputRequestsLoopA_withFail b _ _ _ _

theorem stA3_withFail (b : Bool) (a : Async) (s : State) :
    stA3 a (withFail b s) = ((stA3 a s).1, (stA3 a s).2.1, withFail b (stA3 a s).2.2) := by
  unfold stA3
  rw [stA2_withFail]
  exact finishedInputsLoopA_withFail b _ _ _ _

theorem stA4_withFail (b : Bool) (a : Async) (s : State) :
    stA4 a (withFail b s) = ((stA4 a s).1, (stA4 a s).2.1, withFail b (stA4 a s).2.2) := by
  unfold stA4
  rw [stA3_withFail]
  exact readyTasksLoopA_withFail b _ _ _ _

/-- `stA5` is `finishedTasksLoopA` on the (commuting) result of `stA4` -/
theorem stA5_withFail_eq (b : Bool) (a : Async) (s : State) :
    stA5 a (withFail b s) = finishedTasksLoopA loopFuel (stA4 a s).1 (stA4 a s).2.1 (withFail b (stA4 a s).2.2) := by
  unfold stA5
  rw [stA4_withFail]

/-- the head of an `executeLoopA` iteration: the item boundary and hook point 0 -/
theorem execHead_withFail (b : Bool) (a : Async) (s : State) :
    (asyncPoint a (withFail b s)).1 = (asyncPoint a s).1 ∧
    hook 0 (asyncPoint a (withFail b s)).2 = withFail b (hook 0 (asyncPoint a s).2) := by
  rw [asyncPoint_withFail, hook_withFail]
  exact ⟨rfl, rfl⟩

/-! ## the finished task: everything but the write -/

theorem failExitState_withFail (b : Bool) (task : Key) (s : State) :
    failExitState task (withFail b s) = withFail b (failExitState task s) := by
  unfold failExitState
  simp only [finishedTaskPre_withFail, withFail_task, withFail_rule, emit_withFail]
  rfl

/-- a function that commutes with `withFail` does not change the flag -/
theorem flag_of_comm {f : State → State} (h : ∀ (b : Bool) (s : State), f (withFail b s) = withFail b (f s)) (s : State) :
    (f s).store.failNextSet = s.store.failNextSet := by
  have e := h s.store.failNextSet s
  rw [withFail_self] at e
  rw [e]; rfl

theorem pushDiscovered_hasDB : ∀ (l : List Dep) (s : State), (pushDiscovered l s).hasDB = s.hasDB
  | [], _ => rfl
  | d :: ds, s => by
    rw [pushDiscovered_cons, pushDiscovered_hasDB ds]
    exact (getRuleInfoForKey_same d.key s).hasDB

theorem finishedTaskPre_hasDB (task : Key) (s : State) : (finishedTaskPre task s).hasDB = s.hasDB := by
  unfold finishedTaskPre
  rw [pushDiscovered_hasDB]
  show (emit _ _).hasDB = _
  rw [emit_hasDB]
  rfl

/-! ## the write: the only reader of the flag -/

/-- with the flag set the write fails: `DS` is recorded, the flag is consumed, the rows are untouched -/
theorem setRuleResult_withFail_true (k : Key) (res : Res) (s : State) :
    setRuleResult k res (withFail true s) = (false, withFail false (emit (.DS k res) s)) := by
  unfold setRuleResult
  simp only [emit_withFail, withFail_flag, if_true]
  rfl

/-- with the flag clear the write succeeds -/
theorem setRuleResult_withFail_false (k : Key) (res : Res) (s : State) :
    setRuleResult k res (withFail false s) =
      (true, { withFail false (emit (.DS k res) s) with
        store := { (withFail false (emit (.DS k res) s)).store with rows := rowsSet (emit (.DS k res) s).store.rows k res } }) := by
  unfold setRuleResult
  simp only [emit_withFail, withFail_flag, Bool.false_eq_true, if_false]
  rfl

/-- **(ii)** the body of `finishedTasksLoop` up to the write, with the flag set -/
theorem finishedTaskWrite_withFail_true (task : Key) (s : State) (hdb : (finishedTaskPre task s).hasDB = true) :
    finishedTaskWrite task (withFail true s) =
      (false, withFail false (emit (.DS (s.task task).forRuleInfo ((finishedTaskPre task s).rule (s.task task).forRuleInfo).result)
        (finishedTaskPre task s))) := by
  rw [finishedTaskWrite_pre, finishedTaskPre_withFail]
  simp only [withFail_hasDB, hdb, if_true, withFail_task, withFail_rule, setRuleResult_withFail_true]

theorem finishedTaskWrite_withFail_true' (task : Key) (s : State) (hdb : s.hasDB = true) :
    finishedTaskWrite task (withFail true s) =
      (false, withFail false (emit (.DS (s.task task).forRuleInfo ((finishedTaskPre task s).rule (s.task task).forRuleInfo).result)
        (finishedTaskPre task s))) :=
  finishedTaskWrite_withFail_true task s (by rw [finishedTaskPre_hasDB]; exact hdb)

/-! ## `finishedTasksLoopA` -/

/-- **(i)** no finished task at the item boundary: the loop returns, and commutes -/
theorem finishedTasksLoopA_withFail_none (b : Bool) (fuel : Nat) (w : Bool) (a : Async) (s : State)
    (h : (asyncPoint a s).2.finishedTaskInfos.getLast? = none) :
    finishedTasksLoopA (fuel + 1) w a (withFail b s) = (false, w, (asyncPoint a s).1, withFail b (asyncPoint a s).2) ∧
    finishedTasksLoopA (fuel + 1) w a s = (false, w, (asyncPoint a s).1, (asyncPoint a s).2) := by
  refine ⟨?_, ?_⟩
  · rw [finishedTasksLoopA_succ, asyncPoint_withFail]
    simp only [withFail_finishedTaskInfos, h]
  · rw [finishedTasksLoopA_succ]
    simp only [h]

theorem finishedTasksLoopA_withFail_zero (b : Bool) (w : Bool) (a : Async) (s : State) :
    finishedTasksLoopA 0 w a (withFail b s) = (false, w, a, withFail b (halt .FUEL s)) := by
  rw [finishedTasksLoopA, halt_withFail]

/-- **(iii)** a finished task at the item boundary and the flag set: the write fails and the loop leaves through
`cancelRemainingTasks` from `failExitState` (the flag consumed) -/
theorem finishedTasksLoopA_withFail_true (fuel : Nat) (w : Bool) (a : Async) (s : State) (task : Key)
    (h : (asyncPoint a s).2.finishedTaskInfos.getLast? = some task)
    (hdb : (asyncPoint a s).2.hasDB = true) :
    finishedTasksLoopA (fuel + 1) w a (withFail true s) =
      (true, true,
        (cancelRemainingTasksA (asyncPoint a s).1 (withFail false (failExitState task
          { (asyncPoint a s).2 with finishedTaskInfos := (asyncPoint a s).2.finishedTaskInfos.dropLast }))).1,
        (cancelRemainingTasksA (asyncPoint a s).1 (withFail false (failExitState task
          { (asyncPoint a s).2 with finishedTaskInfos := (asyncPoint a s).2.finishedTaskInfos.dropLast }))).2) := by
  rw [finishedTasksLoopA_succ, asyncPoint_withFail]
  simp only [withFail_finishedTaskInfos, h]
  have e : ({ withFail true (asyncPoint a s).2 with finishedTaskInfos := (asyncPoint a s).2.finishedTaskInfos.dropLast } : State) =
      withFail true { (asyncPoint a s).2 with finishedTaskInfos := (asyncPoint a s).2.finishedTaskInfos.dropLast } := rfl
  have hw := finishedTaskWrite_withFail_true' task
    { (asyncPoint a s).2 with finishedTaskInfos := (asyncPoint a s).2.finishedTaskInfos.dropLast } hdb
  simp only [e, hw, Bool.not_false, if_true, emit_withFail]
  rfl

/-- (iii) with the flag pulled out of the cancellation -/
theorem finishedTasksLoopA_withFail_true' (fuel : Nat) (w : Bool) (a : Async) (s : State) (task : Key)
    (h : (asyncPoint a s).2.finishedTaskInfos.getLast? = some task)
    (hdb : (asyncPoint a s).2.hasDB = true) :
    finishedTasksLoopA (fuel + 1) w a (withFail true s) =
      (true, true,
        (cancelRemainingTasksA (asyncPoint a s).1 (failExitState task
          { (asyncPoint a s).2 with finishedTaskInfos := (asyncPoint a s).2.finishedTaskInfos.dropLast })).1,
        withFail false (cancelRemainingTasksA (asyncPoint a s).1 (failExitState task
          { (asyncPoint a s).2 with finishedTaskInfos := (asyncPoint a s).2.finishedTaskInfos.dropLast })).2) := by
  rw [finishedTasksLoopA_withFail_true fuel w a s task h hdb, cancelRemainingTasksA_withFail]

/-! ## the build around the work loop -/

theorem buildInit_withFail (b : Bool) (cancelAt : Nat) (sched : List SchedItem) (s : State) :
    buildInit cancelAt sched (withFail b s) = withFail b (buildInit cancelAt sched s) := rfl

theorem freeScanRecords_withFail (b : Bool) (s : State) : freeScanRecords (withFail b s) = withFail b (freeScanRecords s) := rfl

theorem finishDB_withFail (b : Bool) (s : State) : finishDB (withFail b s) = withFail b (finishDB s) := by
  unfold finishDB
  simp only [emit_withFail]
  wf_close

theorem closeOf_withFail (b : Bool) (v : Val) (s : State) : closeOf (v, withFail b s) = withFail b (closeOf (v, s)) := by
  unfold closeOf
  simp only [emit_taskInfos]
  rw [← emit_withFail, ← emit_withFail]
  rfl

/-- `db->buildStarted()`: the first step of `buildPreA` -/
def buildStart (s : State) : State := if s.hasDB then emit .DB s else s

theorem buildStart_withFail (b : Bool) (s : State) : buildStart (withFail b s) = withFail b (buildStart s) := by
  unfold buildStart
  simp only [emit_withFail]
  wf_close

/-- the state with which `buildWorkA` calls `executeTasksA`: `QC` recorded, the epoch incremented -/
def buildWorkInit (s : State) : State := { emit .QC s with currentEpoch := (emit .QC s).currentEpoch + 1 }

theorem buildWorkInit_withFail (b : Bool) (s : State) : buildWorkInit (withFail b s) = withFail b (buildWorkInit s) := by
  unfold buildWorkInit
  simp only [emit_withFail]
  rfl

/-- the state with which `executeTasksA` enters `executeLoopA`: the root registered and requested -/
def executeTasksInit (key : Key) (s : State) : State :=
  pushInput { taskInfo := none, inputID := 0, inputRuleInfo := key }
    (getRuleInfoForKey key { s with finishedInputRequests := [] })

theorem executeTasksInit_withFail (b : Bool) (key : Key) (s : State) :
    executeTasksInit key (withFail b s) = withFail b (executeTasksInit key s) := by
  unfold executeTasksInit
  rw [← pushInput_withFail, ← getRuleInfoForKey_withFail]
  rfl

theorem executeTasksA_eq (key : Key) (a : Async) (s : State) :
    executeTasksA key a s = executeLoopA key loopFuel a (executeTasksInit key s) := rfl

theorem buildWorkA_eq (key : Key) (a : Async) (s : State) :
    buildWorkA key a s =
      buildTail key ((executeLoopA key loopFuel a (executeTasksInit key (buildWorkInit s))).1,
        (executeLoopA key loopFuel a (executeTasksInit key (buildWorkInit s))).2.2) := rfl

/-- `buildPreA` as: `buildStart`, the cancellation test, then the work loop from
`executeTasksInit key (buildWorkInit (buildStart s))` and `buildTail` -/
theorem buildPreA_eq (key : Key) (a : Async) (s : State) :
    buildPreA key a s =
      if (buildStart s).buildCancelled then (0, buildStart s)
      else buildTail key ((executeLoopA key loopFuel a (executeTasksInit key (buildWorkInit (buildStart s)))).1,
        (executeLoopA key loopFuel a (executeTasksInit key (buildWorkInit (buildStart s)))).2.2) := rfl

/-- `build()` from its start to the entry of the work loop (`DB`, `QC`, the epoch, `L`/`G` of the root) commutes -/
theorem buildPrologue_withFail (b : Bool) (key : Key) (s : State) :
    executeTasksInit key (buildWorkInit (buildStart (withFail b s))) =
      withFail b (executeTasksInit key (buildWorkInit (buildStart s))) := by
  rw [buildStart_withFail, buildWorkInit_withFail, executeTasksInit_withFail]

/-- `runBuildA`'s own prologue: `buildInit`, `B key` -/
theorem runPrologue_withFail (b : Bool) (key cancelAt : Nat) (sched : List SchedItem) (s : State) :
    emit (.B key) (buildInit cancelAt sched (withFail b s)) = withFail b (emit (.B key) (buildInit cancelAt sched s)) := by
  rw [buildInit_withFail, emit_withFail]

/-- a build that is cancelled before it starts commutes as a whole -/
theorem buildPreA_withFail_cancelled (b : Bool) (key : Key) (a : Async) (s : State)
    (h : (buildStart s).buildCancelled = true) :
    buildPreA key a (withFail b s) = (0, withFail b (buildStart s)) ∧ buildPreA key a s = (0, buildStart s) := by
  refine ⟨?_, ?_⟩
  · rw [buildPreA_eq, buildStart_withFail]
    simp only [withFail_buildCancelled, h, if_true]
  · rw [buildPreA_eq]
    simp only [h, if_true]

theorem buildTail_withFail (b : Bool) (key : Key) (ok : Bool) (s : State) :
    buildTail key (ok, withFail b s) = ((buildTail key (ok, s)).1, withFail b (buildTail key (ok, s)).2) := by
  show _ = mapSt (withFail b) _
  unfold buildTail
  have e : (if (withFail b s).hasDB = true then
        { emit (.DI (withFail b s).currentEpoch) (withFail b s) with
          store := { (withFail b s).store with iteration := (withFail b s).currentEpoch } }
      else withFail b s) =
      withFail b (if s.hasDB = true then
        { emit (.DI s.currentEpoch) s with store := { s.store with iteration := s.currentEpoch } } else s) := by
    refine ite_push' _ _ _ Iff.rfl ?_ rfl
    simp only [withFail_currentEpoch, emit_withFail]
    rfl
  simp only [e, getRuleInfoForKey_withFail, withFail_rule, freeScanRecords_withFail]
  wf_close

/-! ## the ops between builds -/

theorem newEngine_withFail (b : Bool) (s : State) : newEngine (withFail b s) = withFail b (newEngine s) := rfl
theorem opRestart_withFail (b : Bool) (s : State) : opRestart (withFail b s) = withFail b (opRestart s) := rfl
theorem opProgram_withFail (b : Bool) (rules : List RuleSpec) (s : State) :
    opProgram rules (withFail b s) = withFail b (opProgram rules s) := rfl
theorem opMutate_withFail (b : Bool) (slot val : Nat) (s : State) :
    opMutate slot val (withFail b s) = withFail b (opMutate slot val s) := rfl
/-- `W` resets the store, hence the flag -/
theorem opWipe_withFail (b : Bool) (s : State) : opWipe (withFail b s) = opWipe s := rfl
theorem opFail_withFail (b : Bool) (s : State) : opFail (withFail b s) = withFail true s := rfl
theorem opOracle_withFail (b : Bool) (key : Key) (s : State) : opOracle key (withFail b s) = opOracle key s := by
  unfold opOracle
  simp only [withFail_rules, withFail_env]

/-! ## `executeLoopA` around `finishedTasksLoopA`: the unfolding equations with the flag moved to where it is read -/

/-- the end of an iteration (everything after the wait branch; the recursive calls keep the flag) -/
theorem afterWaitA_withFail (b : Bool) (key : Key) (fuel : Nat) (w : Bool) (a : Async) (s : State) :
    afterWaitA key fuel w a (withFail b s) =
      if w then executeLoopA key fuel a (withFail b s) else
      if !s.taskInfos.isEmpty || s.numRulesBeingScanned != 0 || !isComplete s (s.rule key) then
        if (resolveCycle key s).1 then executeLoopA key fuel a (withFail b (resolveCycle key s).2)
        else (false, (cancelRemainingTasksA a (resolveCycle key s).2).1,
          withFail b (cancelRemainingTasksA a (resolveCycle key s).2).2)
      else (true, a, withFail b s) := by
  unfold afterWaitA
  simp only [withFail_taskInfos, withFail_numScanned, withFail_isComplete, withFail_rule, resolveCycle_withFail,
    cancelRemainingTasksA_withFail]

/-- the item boundary and the wait branch after `finishedTasksLoopA` returned `r` (state component with the flag) -/
theorem afterTasksA_withFail (b : Bool) (key : Key) (fuel : Nat) (f w : Bool) (a : Async) (s : State) :
    afterTasksA key fuel (f, w, a, withFail b s) =
      if f then (false, a, withFail b s) else
      if !w && (asyncPoint a s).2.numOutstandingUnfinishedTasks != 0 then
        afterWaitA key fuel true (asyncPoint a s).1 (withFail b (waitStep (asyncPoint a s).2))
      else afterWaitA key fuel w (asyncPoint a s).1 (withFail b (asyncPoint a s).2) := by
  unfold afterTasksA
  simp only [asyncPoint_withFail, withFail_numOutstanding, waitStep_withFail]

/-- one iteration of the work loop with the flag: it reaches `finishedTasksLoopA` (inside `stA5`) unchanged -/
theorem executeLoopA_succ_withFail (b : Bool) (key : Key) (fuel : Nat) (a : Async) (s : State) :
    executeLoopA key (fuel + 1) a (withFail b s) =
      if s.halted then (false, a, withFail b s) else
      if (hook 0 (asyncPoint a s).2).buildCancelled then
        (false, (cancelRemainingTasksA (asyncPoint a s).1 (hook 0 (asyncPoint a s).2)).1,
          withFail b (cancelRemainingTasksA (asyncPoint a s).1 (hook 0 (asyncPoint a s).2)).2)
      else afterTasksA key fuel
        (finishedTasksLoopA loopFuel (stA4 (asyncPoint a s).1 (hook 0 (asyncPoint a s).2)).1
          (stA4 (asyncPoint a s).1 (hook 0 (asyncPoint a s).2)).2.1
          (withFail b (stA4 (asyncPoint a s).1 (hook 0 (asyncPoint a s).2)).2.2)) := by
  rw [executeLoopA_succ]
  simp only [withFail_halted, asyncPoint_withFail, hook_withFail, withFail_buildCancelled, cancelRemainingTasksA_withFail,
    stA5_withFail_eq]

theorem executeLoopA_zero_withFail (b : Bool) (key : Key) (a : Async) (s : State) :
    executeLoopA key 0 a (withFail b s) = (false, a, withFail b (halt .FUEL s)) := by
  rw [executeLoopA_zero, halt_withFail]

/-! ## corollaries: the flag is not written either -/

/-- pair-valued version of `flag_of_comm` -/
theorem flag_of_comm_pair {α : Type} {f : State → α × State}
    (h : ∀ (b : Bool) (s : State), f (withFail b s) = ((f s).1, withFail b (f s).2)) (s : State) :
    (f s).2.store.failNextSet = s.store.failNextSet := by
  have e := h s.store.failNextSet s
  rw [withFail_self] at e
  rw [e]; rfl

theorem emit_flag (t : Tok) (s : State) : (emit t s).store.failNextSet = s.store.failNextSet :=
  flag_of_comm (f := emit t) (fun b s => emit_withFail b t s) s
theorem hook_flag (point : Nat) (s : State) : (hook point s).store.failNextSet = s.store.failNextSet :=
  flag_of_comm (f := hook point) (fun b s => hook_withFail b point s) s
theorem asyncPoint_flag (a : Async) (s : State) : (asyncPoint a s).2.store.failNextSet = s.store.failNextSet :=
  flag_of_comm_pair (f := asyncPoint a) (fun b s => asyncPoint_withFail b a s) s
theorem stA4_flag (a : Async) (s : State) : (stA4 a s).2.2.store.failNextSet = s.store.failNextSet := by
  have e := stA4_withFail s.store.failNextSet a s
  rw [withFail_self] at e
  rw [e]; rfl
theorem finishedTaskPre_flag (task : Key) (s : State) : (finishedTaskPre task s).store.failNextSet = s.store.failNextSet :=
  flag_of_comm (f := finishedTaskPre task) (fun b s => finishedTaskPre_withFail b task s) s
theorem failExitState_flag (task : Key) (s : State) : (failExitState task s).store.failNextSet = s.store.failNextSet :=
  flag_of_comm (f := failExitState task) (fun b s => failExitState_withFail b task s) s
theorem cancelRemainingTasksA_flag (a : Async) (s : State) :
    (cancelRemainingTasksA a s).2.store.failNextSet = s.store.failNextSet :=
  flag_of_comm_pair (f := cancelRemainingTasksA a) (fun b s => cancelRemainingTasksA_withFail b a s) s
theorem executeTasksInit_flag (key : Key) (s : State) : (executeTasksInit key s).store.failNextSet = s.store.failNextSet :=
  flag_of_comm (f := executeTasksInit key) (fun b s => executeTasksInit_withFail b key s) s

/-- (iii) for a state whose own flag is clear (`withFail true s = opFail s`): the exit state is `failExitState` itself -/
theorem finishedTasksLoopA_opFail (fuel : Nat) (w : Bool) (a : Async) (s : State) (task : Key)
    (hf : s.store.failNextSet = false)
    (h : (asyncPoint a s).2.finishedTaskInfos.getLast? = some task)
    (hdb : (asyncPoint a s).2.hasDB = true) :
    finishedTasksLoopA (fuel + 1) w a (withFail true s) =
      (true, true,
        (cancelRemainingTasksA (asyncPoint a s).1 (failExitState task
          { (asyncPoint a s).2 with finishedTaskInfos := (asyncPoint a s).2.finishedTaskInfos.dropLast })).1,
        (cancelRemainingTasksA (asyncPoint a s).1 (failExitState task
          { (asyncPoint a s).2 with finishedTaskInfos := (asyncPoint a s).2.finishedTaskInfos.dropLast })).2) := by
  rw [finishedTasksLoopA_withFail_true fuel w a s task h hdb, withFail_of_flag]
  rw [failExitState_flag]
  show (asyncPoint a s).2.store.failNextSet = false
  rw [asyncPoint_flag, hf]

end LLBuild.Refine
