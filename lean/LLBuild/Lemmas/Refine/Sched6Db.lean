/-
C03 on the transliterated engine — concrete-level facts about restarts:
* `runBuildA_env`, `runOpsC_env`: builds, restarts and killed builds do not touch the external state;
* `splitRestarts`: a restart inserted before every build of a history; `splitRestarts_env`: same external state afterwards;
* `restart_store_holds_values`: for every rule the engine holds a built result for, the store has a built row with the same
  value and `computedAt`, and `builtAt` no newer than the one in memory (from the monitor invariant `Inv.memDb`).
-/
import LLBuild.Lemmas.Engine.Run
import LLBuild.Lemmas.Refine.Sched6End

namespace LLBuild.Refine
open LLBuild.Engine LLBuild.Engine.DSL LLBuild.EngineImpl

theorem step_ret_env {P : Program} {m m' : Engine.St} {v : Val} (h : step P m (.ret v) = some m') : m'.env = m.env := by
  simp only [step] at h
  split at h
  · cases h
  · split at h
    · cases h
    · split at h
      · cases h; rfl
      · split at h
        · cases h; rfl
        · cases h

theorem step_tail_env {P : Program} {m m' : Engine.St} {a b : Nat} (h : step P m (.tail a b) = some m') : m'.env = m.env := by
  simp only [step] at h
  split at h
  · cases h; rfl
  · cases h

/-- a build does not touch the external state -/
theorem runBuildA_env {rules : List RuleSpec} (hok : RulesOk rules) {s : State} {m : Engine.St}
    (hr : RelIdle rules s m) (key cancelAt : Nat) (sched : List SchedItem) (a : Async)
    (hsize : workBound rules s key + 2 < scanFuel) : (runBuildA key cancelAt sched a s).env = s.env := by
  obtain ⟨_, v, _, _, m1, m2, m', _, _, _, _, hret, _, henv, _, _, _, hrel, hZ, _⟩ :=
    build_general hok hr key cancelAt sched a hsize
  rw [← hrel.env, step_tail_env hZ, step_ret_env hret, henv]

/-- a restart before every build -/
def splitRestarts : List OpC → List OpC
  | [] => []
  | .build key c sched a :: ops => .restart :: .build key c sched a :: splitRestarts ops
  | op :: ops => op :: splitRestarts ops

/-- two engine states with the same program and external state (whatever else differs) -/
theorem runOpC_env {rules : List RuleSpec} (hok : RulesOk rules) {s : State} {m : Engine.St} (hr : RelIdle rules s m)
    (op : OpC) (hs : histSizedC rules [op] s) :
    (runOpC op s).env = (match op with | .wipe => (fun _ => 0) | .mutate a b => upd s.env a b | _ => s.env) := by
  cases op with
  | wipe => rfl
  | restart => rfl
  | mutate a b => rfl
  | build key c sched a => exact runBuildA_env hok hr key c sched a hs.1
  | crashedBuild key c sched a cut => rfl

/-- **the split history ends in the same external state** (both histories sized) -/
theorem splitRestarts_env {rules : List RuleSpec} (hok : RulesOk rules) :
    ∀ (ops : List OpC) (s s' : State) (m m' : Engine.St), RelIdle rules s m → Committed m → RelIdle rules s' m' → Committed m' →
      s'.env = s.env → histSizedC rules ops s → histSizedC rules (splitRestarts ops) s' →
      (runOpsC (splitRestarts ops) s').env = (runOpsC ops s).env
  | [], s, s', m, m', _, _, _, _, he, _, _ => he
  | op :: ops, s, s', m, m', hr, hc, hr', hc', he, hs, hs' => by
    cases op with
    | build key c sched a =>
      simp only [splitRestarts, runOpsC] at hs' ⊢
      obtain ⟨_, m1, _, _, h1, hc1⟩ := refinement_opC hok hr hc (.build key c sched a) ⟨hs.1, trivial⟩
      obtain ⟨_, mr, _, _, hr2, hc2⟩ := refinement_opC hok hr' hc' .restart ⟨trivial, trivial⟩
      obtain ⟨_, m2, _, _, h3, hc3⟩ := refinement_opC hok hr2 hc2 (.build key c sched a) ⟨hs'.2.1, trivial⟩
      refine splitRestarts_env hok ops _ _ m1 m2 h1 hc1 h3 hc3 ?_ hs.2 hs'.2.2
      have e1 : (runBuildA key c sched a (opRestart s')).env = s'.env := runBuildA_env hok hr2 key c sched a hs'.2.1
      have e2 : (runBuildA key c sched a s).env = s.env := runBuildA_env hok hr key c sched a hs.1
      exact e1.trans (he.trans e2.symm)
    | wipe =>
      simp only [splitRestarts, runOpsC] at hs' ⊢
      obtain ⟨_, m1, _, _, h1, hc1⟩ := refinement_opC hok hr hc .wipe ⟨trivial, trivial⟩
      obtain ⟨_, m2, _, _, h3, hc3⟩ := refinement_opC hok hr' hc' .wipe ⟨trivial, trivial⟩
      exact splitRestarts_env hok ops _ _ m1 m2 h1 hc1 h3 hc3 rfl hs.2 hs'.2
    | restart =>
      simp only [splitRestarts, runOpsC] at hs' ⊢
      obtain ⟨_, m1, _, _, h1, hc1⟩ := refinement_opC hok hr hc .restart ⟨trivial, trivial⟩
      obtain ⟨_, m2, _, _, h3, hc3⟩ := refinement_opC hok hr' hc' .restart ⟨trivial, trivial⟩
      exact splitRestarts_env hok ops _ _ m1 m2 h1 hc1 h3 hc3 he hs.2 hs'.2
    | mutate x y =>
      simp only [splitRestarts, runOpsC] at hs' ⊢
      obtain ⟨_, m1, _, _, h1, hc1⟩ := refinement_opC hok hr hc (.mutate x y) ⟨trivial, trivial⟩
      obtain ⟨_, m2, _, _, h3, hc3⟩ := refinement_opC hok hr' hc' (.mutate x y) ⟨trivial, trivial⟩
      refine splitRestarts_env hok ops _ _ m1 m2 h1 hc1 h3 hc3 ?_ hs.2 hs'.2
      show upd s'.env x y = upd s.env x y
      rw [he]
    | crashedBuild key c sched a cut =>
      simp only [splitRestarts, runOpsC] at hs' ⊢
      obtain ⟨_, m1, _, _, h1, hc1⟩ := refinement_opC hok hr hc (.crashedBuild key c sched a cut) ⟨hs.1, trivial⟩
      obtain ⟨_, m2, _, _, h3, hc3⟩ := refinement_opC hok hr' hc' (.crashedBuild key c sched a cut) ⟨hs'.1, trivial⟩
      exact splitRestarts_env hok ops _ _ m1 m2 h1 hc1 h3 hc3 he hs.2 hs'.2

/-- **the store holds what the engine holds** (values): for every rule with a built in-memory result there is a built store
row with the same value and `computedAt`, and a `builtAt` that is not newer -/
theorem restart_store_holds_values {rules : List RuleSpec} {s : State} {m : Engine.St} (hr : RelIdle rules s m)
    (hi : Engine.Inv (program rules) m) {k : Key} {ri : RuleInfo} (hl : s.ruleInfos.lookup k = some ri)
    (hb : ri.result.builtAt ≠ 0) :
    ∃ row, s.store.rows.lookup k = some row ∧ row.builtAt ≠ 0 ∧ row.value = ri.result.value ∧
      row.computedAt = ri.result.computedAt ∧ row.builtAt ≤ ri.result.builtAt := by
  obtain ⟨h1, _, h3, h4, _⟩ := hr.res k ri hl
  have hp : ((none : Option Key) == some k) = false := rfl
  have hbm : (m.mem.res k).builtAt ≠ 0 := by rw [h4 hp]; exact hb
  have hnf : inflight m k = false := by simp [inflight, hr.allIdle k]
  obtain ⟨d1, d2, d3, _, _, _, d7⟩ := hi.memDb k hbm hnf
  rw [hr.db k] at d1 d2 d3 d7
  cases hrow : s.store.rows.lookup k with
  | none => rw [hrow] at d1; exact absurd rfl d1
  | some row =>
    rw [hrow] at d1 d2 d3 d7
    exact ⟨row, rfl, d1, d2.trans h1, d3.trans h3, by rw [← h4 hp]; exact d7⟩

end LLBuild.Refine
