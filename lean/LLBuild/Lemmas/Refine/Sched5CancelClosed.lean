/-
C05 "a cancellation followed by any further engine work ends in a failed result" — part 1: THE RECORDER AND THE FLAG.
`buildCancelled` is never reset inside a build, and `X` is recorded only by `doCancel`, which sets it.  The engine functions
touch the three fields `halted` / `trace` / `buildCancelled` only through `emit t` (with `t ≠ X`), `halt t` (with `t ≠ X`),
`doCancel`, and `buildCancelled := true` (the error paths `ER 2/3/4`).  So every predicate `R` on
`(halted, trace, buildCancelled)` closed under these four operations (`ClosedC R`) is preserved by every engine function
(`rc_…`, `rcA_…`: the walk of Halt.lean / AsyncLoop.lean §1 with the third component).  Instance: `CancelInv`
(`X` recorded ⇒ the flag is set).  Core Lean only.
-/
import LLBuild.Lemmas.Refine.Final4

namespace LLBuild.Refine
open LLBuild.Engine LLBuild.Engine.DSL LLBuild.EngineImpl

/-- the cancellation token -/
def Tok.isCancelTok : Tok → Bool
  | .X => true
  | _ => false

theorem Tok.ne_X_of_isCancelTok {t : Tok} (h : Tok.isCancelTok t = false) : t ≠ Tok.X := by
  intro e; subst e; cases h

/-- a predicate on `(halted, trace, buildCancelled)` closed under the recorder operations and the error paths, as the
engine uses them (the engine itself never records `X`: only `doCancel` does) -/
structure ClosedC (R : Bool → List Tok → Bool → Prop) : Prop where
  emit : ∀ (t : Tok) (s : State), Tok.isCancelTok t = false → R s.halted s.trace s.buildCancelled →
    R (emit t s).halted (emit t s).trace (emit t s).buildCancelled
  halt : ∀ (t : Tok) (s : State), Tok.isCancelTok t = false → R s.halted s.trace s.buildCancelled →
    R (halt t s).halted (halt t s).trace (halt t s).buildCancelled
  doCancel : ∀ (s : State), R s.halted s.trace s.buildCancelled →
    R (doCancel s).halted (doCancel s).trace (doCancel s).buildCancelled
  setC : ∀ (h : Bool) (tr : List Tok) (b : Bool), R h tr b → R h tr true

/-- **`X` is recorded only together with setting `buildCancelled`** (which nothing inside a build resets) -/
def CancelInv (_h : Bool) (tr : List Tok) (b : Bool) : Prop := Tok.X ∈ tr → b = true

theorem doCancel_cancelInv (s : State) (h : CancelInv s.halted s.trace s.buildCancelled) :
    CancelInv (doCancel s).halted (doCancel s).trace (doCancel s).buildCancelled := by
  unfold EngineImpl.doCancel
  by_cases hc : s.cancelIssued = true
  · simp only [hc, if_true]; exact h
  · by_cases hh : s.halted = true
    · simp only [hc, hh, if_true, Bool.false_eq_true, if_false]; exact fun _ => rfl
    · simp only [hc, hh, Bool.false_eq_true, if_false]; exact fun _ => rfl

theorem closedC_cancelInv : ClosedC CancelInv where
  emit := fun t s ht h => by
    by_cases hh : s.halted = true
    · rw [emit_halted t s hh]; exact h
    · have hh' : s.halted = false := by simpa using hh
      rcases emit_spec t s hh' with e | ⟨_, e⟩ <;> rw [e]
      · intro hx
        rcases List.mem_cons.1 hx with e1 | e1
        · exact absurd e1.symm (Tok.ne_X_of_isCancelTok ht)
        · exact h e1
      · exact fun _ => rfl
  halt := fun t s ht h => by
    by_cases hh : s.halted = true
    · have : halt t s = s := by simp [EngineImpl.halt, hh]
      rw [this]; exact h
    · have hh' : s.halted = false := by simpa using hh
      rw [halt_spec t s hh']
      intro hx
      rcases List.mem_cons.1 hx with e1 | e1
      · exact absurd e1.symm (Tok.ne_X_of_isCancelTok ht)
      · exact h e1
  doCancel := doCancel_cancelInv
  setC := fun _ _ _ _ _ => rfl

section PreserveC
variable {R : Bool → List Tok → Bool → Prop} (hR : ClosedC R)

local notation "⟪" s "⟫" => R (State.halted s) (State.trace s) (State.buildCancelled s)

/-! ### leaves -/

theorem of_eq_pairC {α : Type} {p : α × State} {a : α} {s1 : State} (e : p = (a, s1)) (h : ⟪p.2⟫) : ⟪s1⟫ := by
  subst e; exact h

theorem rc_setRule (s : State) (ri : RuleInfo) (h : ⟪s⟫) : ⟪s.setRule ri⟫ := h
theorem rc_setTask (s : State) (t : TaskInfo) (h : ⟪s⟫) : ⟪s.setTask t⟫ := h
theorem rc_modRule (s : State) (k : Key) (f : RuleInfo → RuleInfo) (h : ⟪s⟫) : ⟪s.modRule k f⟫ := h
theorem rc_modTask (s : State) (k : Key) (f : TaskInfo → TaskInfo) (h : ⟪s⟫) : ⟪s.modTask k f⟫ := h

include hR

theorem rc_modScanRecord (k : Key) (f : RuleScanRecord → RuleScanRecord) (s : State) (h : ⟪s⟫) :
    ⟪modScanRecord k f s⟫ := by
  unfold modScanRecord
  split
  · exact h
  · exact hR.halt _ _ rfl h

theorem rc_getRuleInfoForKey (k : Key) (s : State) (h : ⟪s⟫) : ⟪getRuleInfoForKey k s⟫ := by
  unfold getRuleInfoForKey
  split
  · exact h
  · dsimp only
    split
    · split
      · exact hR.emit _ _ rfl (hR.emit _ _ rfl h)
      · exact hR.emit _ _ rfl (hR.emit _ _ rfl h)
    · exact hR.emit _ _ rfl h

theorem rc_addTaskInputRequest (task key inputID : Nat) (oo su : Bool) (s : State) (h : ⟪s⟫) :
    ⟪addTaskInputRequest task key inputID oo su s⟫ := by
  unfold addTaskInputRequest
  split
  · exact hR.halt _ _ rfl h
  · exact rc_getRuleInfoForKey hR _ _ h

theorem rc_taskNeedsInput (task key inputID : Nat) (s : State) (h : ⟪s⟫) : ⟪taskNeedsInput task key inputID s⟫ := by
  unfold taskNeedsInput
  split
  · exact hR.setC _ _ _ (hR.emit _ _ rfl h)
  · exact rc_addTaskInputRequest hR _ _ _ _ _ _ h

theorem rc_taskNeedsSingleUseInput (task key inputID : Nat) (s : State) (h : ⟪s⟫) :
    ⟪taskNeedsSingleUseInput task key inputID s⟫ := by
  unfold taskNeedsSingleUseInput
  split
  · exact hR.setC _ _ _ (hR.emit _ _ rfl h)
  · exact rc_addTaskInputRequest hR _ _ _ _ _ _ h

theorem rc_taskMustFollow (task key : Nat) (s : State) (h : ⟪s⟫) : ⟪taskMustFollow task key s⟫ :=
  rc_addTaskInputRequest hR _ _ _ _ _ _ h

theorem rc_taskDiscoveredDependency (task key : Nat) (s : State) (h : ⟪s⟫) : ⟪taskDiscoveredDependency task key s⟫ := by
  unfold taskDiscoveredDependency
  split
  · exact hR.setC _ _ _ (hR.emit _ _ rfl h)
  · exact h

theorem rc_taskIsComplete (task : Key) (v : Val) (fc : Bool) (s : State) (h : ⟪s⟫) : ⟪taskIsComplete task v fc s⟫ := by
  unfold taskIsComplete
  dsimp only
  split
  · exact hR.setC _ _ _ (hR.emit _ _ rfl h)
  · exact h

theorem rc_issue (task : Key) : ∀ (l : List Req) (s : State), ⟪s⟫ → ⟪issue task l s⟫
  | [], s, h => h
  | q :: rest, s, h => by
    rw [issue]
    apply rc_issue task rest
    split
    · exact rc_taskNeedsInput hR _ _ _ _ h
    · split
      · exact rc_taskNeedsSingleUseInput hR _ _ _ _ h
      · exact rc_taskMustFollow hR _ _ _ h

theorem rc_taskStart (task : Key) (s : State) (h : ⟪s⟫) : ⟪taskStart task s⟫ :=
  rc_issue hR _ _ _ (hR.emit _ _ rfl h)

theorem rc_taskProvideValue (task : Key) (id : Nat) (key : Key) (v : Val) (s : State) (h : ⟪s⟫) :
    ⟪taskProvideValue task id key v s⟫ :=
  rc_issue hR _ _ _ (hR.emit _ _ rfl h)

theorem rc_taskComplete (task : Key) (s : State) (h : ⟪s⟫) : ⟪taskComplete task s⟫ :=
  rc_taskIsComplete hR _ _ _ _ (hR.emit _ _ rfl h)

theorem rc_reportDiscovered (task : Key) : ∀ (l : List Key) (s : State), ⟪s⟫ → ⟪reportDiscovered task l s⟫
  | [], s, h => h
  | d :: ds, s, h => by
    rw [reportDiscovered]
    exact rc_reportDiscovered task ds _ (rc_taskDiscoveredDependency hR _ _ _ h)

theorem rc_taskInputsAvailable (task : Key) (s : State) (h : ⟪s⟫) : ⟪taskInputsAvailable task s⟫ := by
  unfold taskInputsAvailable
  dsimp only
  have h1 := rc_reportDiscovered hR task (discKeys (specOf s.rules task) (s.task task).recv) _
    (hR.emit (.IA task (discKeys (specOf s.rules task) (s.task task).recv)) s rfl h)
  split
  · exact rc_taskComplete hR _ _ h1
  · exact h1

omit hR in
theorem rc_destroyTask (task : Key) (s : State) (h : ⟪s⟫) : ⟪destroyTask task s⟫ := h

theorem rc_completeKey (k : Key) (s : State) (h : ⟪s⟫) : ⟪(completeKey k s).2⟫ := by
  unfold completeKey
  split
  · exact rc_taskComplete hR _ _ h
  · exact h

theorem rc_completeSmallest (s : State) (h : ⟪s⟫) : ⟪(completeSmallest s).2⟫ := by
  unfold completeSmallest
  split
  · exact h
  · exact rc_completeKey hR _ _ h

theorem rc_completeKeys : ∀ (l : List Key) (any : Bool) (s : State), ⟪s⟫ → ⟪(completeKeys l any s).2⟫
  | [], any, s, h => h
  | k :: ks, any, s, h => by
    rw [completeKeys]
    exact rc_completeKeys ks _ _ (rc_completeKey hR k s h)

theorem rc_hook (point : Nat) (s : State) (h : ⟪s⟫) : ⟪hook point s⟫ := by
  unfold hook
  split
  · exact rc_completeSmallest hR _ h
  · split
    next any s1 heq =>
      have h1 : ⟪s1⟫ := by
        refine of_eq_pairC heq ?_
        split
        · exact h
        · split
          next any2 s2 heq2 =>
            have h2 : ⟪s2⟫ := of_eq_pairC heq2 (rc_completeKeys hR _ _ _ h)
            dsimp only
            split
            · exact hR.doCancel _ h2
            · exact h2
      split
      · exact rc_completeSmallest hR _ h1
      · exact h1

/-! ### scanning and demanding -/

theorem rc_scanRule (k : Key) (s : State) (h : ⟪s⟫) : ⟪(scanRule k s).2⟫ := by
  unfold scanRule
  dsimp only
  repeat' split
  all_goals first
    | exact h
    | exact hR.emit _ _ rfl h
    | exact hR.emit _ _ rfl (hR.emit _ _ rfl h)
    | exact hR.emit _ _ rfl (hR.emit _ _ rfl (hR.emit _ _ rfl h))

theorem rc_demandRule (k : Key) (s : State) (h : ⟪s⟫) : ⟪(demandRule k s).2⟫ := by
  unfold demandRule
  dsimp only
  split
  · exact h
  · split
    · exact h
    · split
      · exact hR.emit _ _ rfl h
      · have h1 := rc_taskStart hR k _ (rc_modRule ((emit (.T k) s).setTask { forRuleInfo := k }) k
          (fun ri => { ri with state := .inProgressWaiting, inProgressInfo := .pendingTaskInfo,
                               result := { ri.result with deps := [] } }) (hR.emit (.T k) s rfl h))
        split <;> split <;> first | exact h1 | exact hR.emit _ _ rfl h1

theorem rc_finishScanRequest (k : Key) (st : StateKind) (s : State) (h : ⟪s⟫) : ⟪finishScanRequest k st s⟫ := by
  unfold finishScanRequest
  split
  · exact hR.halt _ _ rfl h
  · exact h

theorem rc_scanLoop : ∀ (fuel : Nat) (r : RuleScanRequest) (s : State), ⟪s⟫ → ⟪scanLoop fuel r s⟫
  | 0, r, s, h => by rw [scanLoop]; exact hR.halt _ _ rfl h
  | fuel + 1, r, s, h => by
    rw [scanLoop]
    dsimp only
    split
    · exact hR.halt _ _ rfl h
    · next request input s1 heq =>
      have h1 : ⟪s1⟫ := by
        split at heq
        · cases heq; exact h
        · split at heq
          · cases heq
          · cases heq; exact rc_getRuleInfoForKey hR _ _ h
      have h2 := rc_scanRule hR input s1 h1
      split
      · exact rc_modScanRecord hR _ _ _ h2
      · have h3 := rc_demandRule hR input _ h2
        split
        · exact h3
        · split
          · exact hR.emit _ _ rfl (rc_finishScanRequest hR _ _ _ h3)
          · split
            · exact rc_scanLoop fuel _ _ h3
            · exact rc_finishScanRequest hR _ _ _ h3

theorem rc_processRuleScanRequest (r : RuleScanRequest) (s : State) (h : ⟪s⟫) : ⟪processRuleScanRequest r s⟫ := by
  unfold processRuleScanRequest
  split
  · exact h
  · exact rc_scanLoop hR _ _ _ h

theorem rc_decrementTaskWaitCount (task : Key) (s : State) (h : ⟪s⟫) : ⟪decrementTaskWaitCount task s⟫ := by
  unfold decrementTaskWaitCount
  split
  · exact hR.halt _ _ rfl h
  · dsimp only
    split <;> exact h

theorem rc_processInputRequest (r : TaskInputRequest) (s : State) (h : ⟪s⟫) : ⟪processInputRequest r s⟫ := by
  unfold processInputRequest
  dsimp only
  have h2 := rc_scanRule hR r.inputRuleInfo s h
  split
  · exact rc_modScanRecord hR _ _ _ h2
  · have h3 := rc_demandRule hR r.inputRuleInfo _ h2
    split
    · exact h3
    · split <;> exact h3

theorem rc_finishedInputStep (task : Key) (r : TaskInputRequest) (s : State) (h : ⟪s⟫) : ⟪finishedInputStep task r s⟫ := by
  unfold finishedInputStep
  apply rc_decrementTaskWaitCount hR
  split
  · exact h
  · exact rc_taskProvideValue hR _ _ _ _ _ h

theorem rc_readyStep (task : Key) (s : State) (h : ⟪s⟫) : ⟪readyStep task s⟫ := by
  unfold readyStep
  exact rc_taskInputsAvailable hR task _ (rc_modRule s _ _ h)

theorem rc_pushDiscovered : ∀ (l : List Dep) (s : State), ⟪s⟫ → ⟪pushDiscovered l s⟫
  | [], s, h => h
  | d :: ds, s, h => by
    rw [pushDiscovered]
    exact rc_pushDiscovered ds _ (rc_getRuleInfoForKey hR d.key s h)

theorem rc_setRuleResult (k : Key) (res : Res) (s : State) (h : ⟪s⟫) : ⟪(setRuleResult k res s).2⟫ := by
  unfold setRuleResult
  dsimp only
  split <;> exact hR.emit _ _ rfl h

theorem rc_finishedTaskWrite (task : Key) (s : State) (h : ⟪s⟫) : ⟪(finishedTaskWrite task s).2⟫ := by
  unfold finishedTaskWrite
  dsimp only
  have h1 : ⟪emit (.S (s.task task).forRuleInfo 2)
      (s.modRule (s.task task).forRuleInfo (fun ri => setComplete s { ri with inProgressInfo := .null }))⟫ :=
    hR.emit _ _ rfl h
  have h2 := rc_pushDiscovered hR (s.task task).discoveredDependencies _
    (rc_modRule _ (s.task task).forRuleInfo
      (fun ri => { ri with result := { ri.result with deps := ri.result.deps ++ (s.task task).discoveredDependencies } }) h1)
  split
  · exact rc_setRuleResult hR _ _ _ h2
  · exact h2

/-! ### cancellation, cycles -/

omit hR in
theorem rc_cancelTasks : ∀ (l : List (Key × TaskInfo)) (s : State), ⟪s⟫ → ⟪cancelTasks l s⟫
  | [], s, h => h
  | (_, t) :: rest, s, h => by
    rw [cancelTasks]
    exact rc_cancelTasks rest _ h

omit hR in
theorem rc_destroyTasks : ∀ (l : List (Key × TaskInfo)) (s : State), ⟪s⟫ → ⟪destroyTasks l s⟫
  | [], s, h => h
  | (k, _) :: rest, s, h => by
    rw [destroyTasks]
    exact rc_destroyTasks rest _ h

theorem rc_breakCycleLoop : ∀ (l : List Key) (s : State), ⟪s⟫ → ⟪(breakCycleLoop l s).2⟫
  | [], s, h => h
  | k :: rest, s, h => by
    rw [breakCycleLoop.eq_def]
    dsimp only
    split
    · split
      · exact h
      · exact hR.emit _ _ rfl (rc_finishScanRequest hR _ _ _ h)
    · split
      · split
        · exact rc_breakCycleLoop _ s h
        · split
          · exact rc_breakCycleLoop _ s h
          · split <;> exact h
      · exact rc_breakCycleLoop rest s h

theorem rc_resolveCycle (key : Key) (s : State) (h : ⟪s⟫) : ⟪(resolveCycle key s).2⟫ := by
  unfold resolveCycle
  split
  · exact hR.halt _ _ rfl h
  · next cycleList _ =>
    have h1 : ⟪(breakCycle cycleList s).2⟫ := rc_breakCycleLoop hR _ s h
    dsimp only
    split
    · exact h1
    · exact hR.emit _ _ rfl h1

/-! ### the asynchronous functions -/

theorem rcA_asyncStep (it : SchedItem) (s : State) (h : ⟪s⟫) : ⟪asyncStep it s⟫ := by
  unfold asyncStep
  dsimp only
  have h1 := rc_completeKeys hR it.keys false s h
  split
  · exact hR.doCancel _ h1
  · exact h1

theorem rcA_asyncPoint (a : Async) (s : State) (h : ⟪s⟫) : ⟪(asyncPoint a s).2⟫ := by
  cases a with
  | nil => exact h
  | cons it rest => exact rcA_asyncStep hR it s h

theorem rcA_scanRequestsLoopA : ∀ (fuel : Nat) (w : Bool) (a : Async) (s : State), ⟪s⟫ → ⟪(scanRequestsLoopA fuel w a s).2.2⟫
  | 0, w, a, s, h => by rw [scanRequestsLoopA]; exact hR.halt _ _ rfl h
  | fuel + 1, w, a, s, h => by
    rw [scanRequestsLoopA]
    dsimp only
    have h1 := rcA_asyncPoint hR a s h
    split
    · exact h1
    · exact rcA_scanRequestsLoopA fuel _ _ _ (rc_processRuleScanRequest hR _ _ h1)

theorem rcA_inputRequestsLoopA : ∀ (fuel : Nat) (w : Bool) (a : Async) (s : State), ⟪s⟫ → ⟪(inputRequestsLoopA fuel w a s).2.2⟫
  | 0, w, a, s, h => by rw [inputRequestsLoopA]; exact hR.halt _ _ rfl h
  | fuel + 1, w, a, s, h => by
    rw [inputRequestsLoopA]
    dsimp only
    have h1 := rcA_asyncPoint hR a s h
    split
    · exact h1
    · exact rcA_inputRequestsLoopA fuel _ _ _ (rc_processInputRequest hR _ _ h1)

theorem rcA_finishedInputsLoopA : ∀ (fuel : Nat) (w : Bool) (a : Async) (s : State), ⟪s⟫ → ⟪(finishedInputsLoopA fuel w a s).2.2⟫
  | 0, w, a, s, h => by rw [finishedInputsLoopA]; exact hR.halt _ _ rfl h
  | fuel + 1, w, a, s, h => by
    rw [finishedInputsLoopA]
    dsimp only
    have h1 := rcA_asyncPoint hR a s h
    split
    · exact h1
    · split
      · exact hR.halt _ _ rfl h1
      · exact rcA_finishedInputsLoopA fuel _ _ _ (rc_finishedInputStep hR _ _ _ h1)

theorem rcA_readyTasksLoopA : ∀ (fuel : Nat) (w : Bool) (a : Async) (s : State), ⟪s⟫ → ⟪(readyTasksLoopA fuel w a s).2.2⟫
  | 0, w, a, s, h => by rw [readyTasksLoopA]; exact hR.halt _ _ rfl h
  | fuel + 1, w, a, s, h => by
    rw [readyTasksLoopA]
    dsimp only
    have h1 := rcA_asyncPoint hR a s h
    split
    · exact h1
    · exact rcA_readyTasksLoopA fuel _ _ _ (rc_readyStep hR _ _ h1)

theorem rcA_drainLoopA : ∀ (fuel : Nat) (a : Async) (s : State), ⟪s⟫ → ⟪(drainLoopA fuel a s).2⟫
  | 0, a, s, h => by rw [drainLoopA]; exact hR.halt _ _ rfl h
  | fuel + 1, a, s, h => by
    rw [drainLoopA]
    dsimp only
    have h1 := rc_hook hR 2 _ (rcA_asyncPoint hR a s h)
    split
    · exact h
    · split
      · exact hR.halt _ _ rfl h1
      · exact rcA_drainLoopA fuel _ _ h1

omit hR in
theorem rcA_cancelTail (s : State) (h : ⟪s⟫) : ⟪cancelTail s⟫ := by
  unfold cancelTail
  dsimp only
  apply rc_destroyTasks
  exact rc_cancelTasks _ _ h

theorem rcA_cancelRemainingTasksA (a : Async) (s : State) (h : ⟪s⟫) : ⟪(cancelRemainingTasksA a s).2⟫ := by
  unfold cancelRemainingTasksA
  exact rcA_cancelTail _ (rcA_drainLoopA hR _ _ _ h)

theorem rcA_finishedTasksLoopA : ∀ (fuel : Nat) (w : Bool) (a : Async) (s : State), ⟪s⟫ →
    ⟪(finishedTasksLoopA fuel w a s).2.2.2⟫
  | 0, w, a, s, h => by rw [finishedTasksLoopA]; exact hR.halt _ _ rfl h
  | fuel + 1, w, a, s, h => by
    rw [finishedTasksLoopA]
    dsimp only
    have h0 := rcA_asyncPoint hR a s h
    split
    · exact h0
    · next task _ =>
      have h1 := rc_finishedTaskWrite hR task
        { (asyncPoint a s).2 with finishedTaskInfos := (asyncPoint a s).2.finishedTaskInfos.dropLast } h0
      split
      · exact rcA_cancelRemainingTasksA hR _ _ (hR.emit _ _ rfl h1)
      · exact rcA_finishedTasksLoopA fuel _ _ _ h1

theorem rcA_waitStep (s : State) (h : ⟪s⟫) : ⟪waitStep s⟫ := by
  unfold waitStep
  dsimp only
  split
  · exact hR.halt _ _ rfl (rc_hook hR 1 s h)
  · exact rc_hook hR 1 s h

end PreserveC

end LLBuild.Refine
