/-
C06 "the same set of executed rules" — stage 4a of `runBuildA_simX`: THE ASYNCHRONOUS WORK LOOP PASSES THE IN-ORDER GUARDS.
`WorkLoopSpecAX` = `WorkLoopSpecA` (AsyncLoop.lean) with `trunX` in place of `trun`; `workLoopA_finalX` is the induction of
`workLoopA_final` with, per piece of an iteration, either the `SimX` lemma of SchedXLoops.lean (scan requests, input
requests) or the existing `…_sim` lemma plus "this function records no X-token" (SchedXClosed.lean): item boundaries,
`hook`, finished inputs, ready tasks, finished tasks, the wait, the cycle report, the cancellation drain.
-/
import LLBuild.Lemmas.Refine.SchedXLoops

namespace LLBuild.Refine
open LLBuild.Engine LLBuild.Engine.DSL LLBuild.EngineImpl

theorem Inv.stepX {rules : List RuleSpec} {key : Key} {s : State} {ms : MSt} {s' : State} {Post : MSt → Prop}
    (hi : Inv rules key s ms) (hs : SimX rules s ms s' {} Post) (hh : s'.halted = false) :
    ∃ toks ms', Emits s toks s' ∧ trunX (program rules) ms toks = some ms' ∧ Inv rules key s' ms' ∧ Post ms' := by
  obtain ⟨toks, ms', he, hr, hrel, hp, hreg, ht, hpost⟩ := hs hh
  have hr' := trunX_trun toks ms ms' hr
  exact ⟨toks, ms', he, hr,
    ⟨hrel, hp, ht.trans hi.target, hreg key hi.reg, trun_pendFresh toks hr' hi.pendFresh,
      Cyc.trun_noMF toks ms ms' hr' hi.noMF⟩, hpost⟩

/-- the conclusion of `WorkLoopSpecAX` for a result `res` -/
def LoopPostX (rules : List RuleSpec) (key : Key) (s : State) (ms : MSt) (res : Bool × State) : Prop :=
  ∃ toks m', Emits s toks res.2 ∧ trunX (program rules) ms toks = some ⟨m', none⟩ ∧
    RelPost rules key res.2 m' res.1 ∧ m'.started = true

theorem LoopPostX.prepend {rules : List RuleSpec} {key : Key} {s0 s : State} {ms0 ms : MSt} {toks0 : List Tok}
    {res : Bool × State} (he : Emits s0 toks0 s) (hr : trunX (program rules) ms0 toks0 = some ms)
    (h : LoopPostX rules key s ms res) : LoopPostX rules key s0 ms0 res := by
  obtain ⟨toks, m', he', hr', hp, hst⟩ := h
  exact ⟨toks0 ++ toks, m', he.trans he', trunX_append_some hr hr', hp, hst⟩

theorem LoopPost.toX {rules : List RuleSpec} {key : Key} {s : State} {ms : MSt} {res : Bool × State}
    (h : LoopPost rules key s ms res) (hn : NoXB s res.2) : LoopPostX rules key s ms res := by
  obtain ⟨toks, m', he, hr, hp, hst⟩ := h
  exact ⟨toks, m', he, hn.trunX he hr, hp, hst⟩

/-- `asyncPoint_inv` with `trunX` -/
theorem asyncPoint_invX {rules : List RuleSpec} {key : Key} (a : Async) {s : State} {ms : MSt}
    (hi : Inv rules key s ms) (hh : s.halted = false) :
    ∃ toks ms', Emits s toks (asyncPoint a s).2 ∧ trunX (program rules) ms toks = some ms' ∧
      Inv rules key (asyncPoint a s).2 ms' ∧ ms'.m.errSeen = ms.m.errSeen ∧ (asyncPoint a s).2.halted = false ∧
      (NoMid s → NoMid (asyncPoint a s).2) ∧ (Aux key s {} → Aux key (asyncPoint a s).2 {}) ∧
      (DiscM (program rules) ms.m → DiscM (program rules) ms'.m) := by
  obtain ⟨toks, ms', he, hr, rest⟩ := asyncPoint_inv a hi hh
  exact ⟨toks, ms', he, (noXB_asyncPoint a s).trunX he hr, rest⟩

theorem apN_invX {rules : List RuleSpec} {key : Key} : ∀ (n : Nat) (a : Async) {s : State} {ms : MSt},
    Inv rules key s ms → s.halted = false →
    ∃ toks ms', Emits s toks (apN n a s).2 ∧ trunX (program rules) ms toks = some ms' ∧
      Inv rules key (apN n a s).2 ms' ∧ ms'.m.errSeen = ms.m.errSeen ∧ (apN n a s).2.halted = false ∧
      (NoMid s → NoMid (apN n a s).2) ∧ (Aux key s {} → Aux key (apN n a s).2 {}) ∧
      (DiscM (program rules) ms.m → DiscM (program rules) ms'.m)
  | 0, a, s, ms, hi, hh => ⟨[], ms, Emits.refl s, rfl, hi, rfl, hh, id, id, id⟩
  | n + 1, a, s, ms, hi, hh => by
    obtain ⟨toks1, ms1, he1, hr1, hi1, her1, hh1, hnm1, haux1, hd1⟩ := apN_invX n a hi hh
    obtain ⟨toks2, ms2, he2, hr2, hi2, her2, hh2, hnm2, haux2, hd2⟩ :=
      asyncPoint_invX (apN n a s).1 hi1 hh1
    exact ⟨toks1 ++ toks2, ms2, he1.trans he2, trunX_append_some hr1 hr2, hi2, her2.trans her1, hh2,
      fun h => hnm2 (hnm1 h), fun h => haux2 (haux1 h), fun h => hd2 (hd1 h)⟩

/-- the end of an iteration: next iteration, success, or a reported cycle -/
theorem afterWaitA_specX {rules : List RuleSpec} (hok : RulesOk rules) {key : Key} {fuel : Nat}
    (ih : ∀ a s ms, Inv rules key s ms → NoMid s → Aux key s {} → s.halted = false →
      (executeLoopA key fuel a s).2.2.halted = false → LoopPostX rules key s ms (pr (executeLoopA key fuel a s)))
    (w : Bool) (a : Async) (s : State) (ms : MSt) (hi : Inv rules key s ms) (hnm : NoMid s) (haux : Aux key s {})
    (hh : s.halted = false)
    (hq : w = false → ms.m.errSeen = false ∧ s.ruleInfosToScan = [] ∧ s.inputRequests = [] ∧
      s.finishedInputRequests = [] ∧ s.readyTaskInfos = [] ∧ s.finishedTaskInfos = [] ∧
      s.numOutstandingUnfinishedTasks = 0)
    (hnh : (afterWaitA key fuel w a s).2.2.halted = false) :
    LoopPostX rules key s ms (pr (afterWaitA key fuel w a s)) := by
  unfold afterWaitA at hnh ⊢
  cases w with
  | true =>
    simp only [if_true] at hnh ⊢
    exact ih a s ms hi hnm haux hh hnh
  | false =>
    simp only [Bool.false_eq_true, if_false] at hnh ⊢
    obtain ⟨herr, q1, q2, q3, q4, q5, hnum⟩ := hq rfl
    have hrc := resolveCycle_noResolve key s hi.rel.noResolve
    by_cases hc : (!s.taskInfos.isEmpty || s.numRulesBeingScanned != 0 || !isComplete s (s.rule key)) = true
    · rw [if_pos hc] at hnh ⊢
      cases hfc : findCycle key s with
      | none =>
        rw [hfc] at hrc; simp only [] at hrc
        rw [hrc] at hnh; simp only [Bool.false_eq_true, if_false] at hnh
        rw [haltMono_cancelA a _ (halt_halted _ _)] at hnh; cases hnh
      | some ks =>
        rw [hfc] at hrc; simp only [] at hrc
        rw [hrc] at hnh ⊢; simp only [Bool.false_eq_true, if_false] at hnh ⊢
        have hl := findCycle_fixed rules s ms key ks hi.rel hi.pend hi.target hnm q1 q2 q3 q4 q5 hnum hfc
          (cycleSearchOk_of_findCycle hfc) hi.noMF haux.readyWhenZero (haux.rootNotIdle hi.rel hi.pend q2)
        have hpost : LoopPost rules key s ms
            (pr (false, (cancelRemainingTasksA a (emit (.CY ks) s)).1, (cancelRemainingTasksA a (emit (.CY ks) s)).2)) :=
          cycleExitA_sim rules hok a s ms key ks hi.rel hi.pend hh hi.target hnm hl hnh
        exact hpost.toX ((NoXB.emit (.CY ks) s rfl).trans (noXB_cancelRemainingTasksA a _))
    · rw [if_neg hc] at hnh ⊢
      simp only [Bool.or_eq_true, Bool.not_eq_eq_eq_not, Bool.not_true, List.isEmpty_eq_false_iff, ne_eq,
        bne_iff_ne, not_or, Decidable.not_not, Bool.not_eq_false] at hc
      obtain ⟨⟨ht, hns⟩, hcomp⟩ := hc
      refine ⟨[], ms.m, Emits.refl s, ?_,
        successExit' rules s ms key hi.rel hi.pend hi.target hi.reg herr ht hns hcomp q1 q2 q3 q4 q5 hnum hnm,
        hi.rel.started⟩
      rw [← hi.pend]
      rfl

/-- the end of an iteration from the result of `finishedTasksLoopA` -/
theorem afterTasksA_specX {rules : List RuleSpec} (hok : RulesOk rules) {key : Key} {fuel : Nat}
    (ih : ∀ a s ms, Inv rules key s ms → NoMid s → Aux key s {} → s.halted = false →
      (executeLoopA key fuel a s).2.2.halted = false → LoopPostX rules key s ms (pr (executeLoopA key fuel a s)))
    (r : Bool × Bool × Async × State) (hr1 : r.1 = false) (ms : MSt) (hi : Inv rules key r.2.2.2 ms)
    (hnm : NoMid r.2.2.2) (haux : Aux key r.2.2.2 {}) (hh : r.2.2.2.halted = false)
    (hq : r.2.1 = false → ms.m.errSeen = false ∧ r.2.2.2.ruleInfosToScan = [] ∧ r.2.2.2.inputRequests = [] ∧
      r.2.2.2.finishedInputRequests = [] ∧ r.2.2.2.readyTaskInfos = [])
    (hnh : (afterTasksA key fuel r).2.2.halted = false) :
    LoopPostX rules key r.2.2.2 ms (pr (afterTasksA key fuel r)) := by
  unfold afterTasksA at hnh ⊢
  simp only [hr1, Bool.false_eq_true, if_false] at hnh ⊢
  obtain ⟨toks6, ms6, he6, hr6, hi6, her6, hh6, hnm6, haux6, -⟩ := asyncPoint_invX r.2.2.1 hi hh
  refine LoopPostX.prepend he6 hr6 ?_
  obtain ⟨f1, f2, f3, f4, f5⟩ := asyncPoint_frame r.2.2.1 r.2.2.2
  by_cases hw : (!r.2.1 && (asyncPoint r.2.2.1 r.2.2.2).2.numOutstandingUnfinishedTasks != 0) = true
  · rw [if_pos hw] at hnh ⊢
    have h7 := afterWaitA_of_result hnh
    have e7 := waitStep_eq h7
    rw [e7] at hnh h7 ⊢
    obtain ⟨toks7, ms7, he7, hr7, hi7, hnm7⟩ :=
      hi6.stepX (SimX.of_noX (hook_sim rules hok 1 _ ms6 hi6.rel hi6.pend hh6) (fun _ => noXB_hook 1 _)) h7
    refine LoopPostX.prepend he7 hr7 ?_
    exact afterWaitA_specX hok ih true _ _ ms7 hi7 (hnm7 (hnm6 hnm)) (hook_aux key 1 hi6.rel hi6.pend hh6 (haux6 haux)) h7
      (fun h => by cases h) hnh
  · rw [if_neg hw] at hnh ⊢
    refine afterWaitA_specX hok ih _ _ _ ms6 hi6 (hnm6 hnm) (haux6 haux) hh6 ?_ hnh
    intro hw5
    obtain ⟨herr, q1, q2, q3, q4⟩ := hq hw5
    have hnum : (asyncPoint r.2.2.1 r.2.2.2).2.numOutstandingUnfinishedTasks = 0 := by
      rw [hw5] at hw
      simpa using hw
    have q5 : (asyncPoint r.2.2.1 r.2.2.2).2.finishedTaskInfos = [] := by
      have hc := hi6.rel.outstandingCount
      rw [hnum] at hc
      apply List.eq_nil_of_length_eq_zero
      omega
    exact ⟨her6.trans herr, f1.trans q1, f2.trans q2, f3.trans q3, f4.trans q4, q5, hnum⟩

/-- the statement of `WorkLoopSpecA` with the in-order guards checked -/
def WorkLoopSpecAX (rules : List RuleSpec) : Prop :=
  ∀ (key : Key) (fuel : Nat) (a : Async) (s : State) (ms : MSt),
    Rel rules s ms {} → NoMid s → ms.pend = none → ms.m.target = some key → Registered s key → s.halted = false →
    (∀ p ∈ ms.m.pending, isDone ms.m p.1 = false) →
    (∀ a q, delivered (ms.m.task a).seq q = true → q.kind ≠ 2) →
    Aux key s {} →
    (executeLoopA key fuel a s).2.2.halted = false →
    ∃ toks m', Emits s toks (executeLoopA key fuel a s).2.2 ∧ trunX (program rules) ms toks = some ⟨m', none⟩ ∧
      RelPost rules key (executeLoopA key fuel a s).2.2 m' (executeLoopA key fuel a s).1 ∧ m'.started = true

/-- **the asynchronous work loop passes the in-order guards, for every schedule** -/
theorem workLoopA_finalX : ∀ rules, RulesOk rules → WorkLoopSpecAX rules := by
  intro rules hok key fuel
  suffices H : ∀ a s ms, Inv rules key s ms → NoMid s → Aux key s {} → s.halted = false →
      (executeLoopA key fuel a s).2.2.halted = false → LoopPostX rules key s ms (pr (executeLoopA key fuel a s)) from
    fun a s ms hr hnm hp ht hreg hh hpf hmf haux hnh => H a s ms ⟨hr, hp, ht, hreg, hpf, hmf⟩ hnm haux hh hnh
  have hS := asyncStepSim
  have hF := asyncStepFrame
  have hA := asyncStepAux
  have hT := asyncStepTerm
  induction fuel with
  | zero =>
    intro a s ms _ _ _ _ hnh
    rw [executeLoopA_zero, halt_halted] at hnh; cases hnh
  | succ fuel ih =>
    intro a s ms hi hnm haux hh hnh
    rw [executeLoopA_succ] at hnh ⊢
    simp only [hh, Bool.false_eq_true, if_false] at hnh ⊢
    -- the item boundary at the top of the loop
    obtain ⟨toksP, msP, heP, hrP, hiP, -, hhP, hnmP', hauxP', -⟩ := asyncPoint_invX a hi hh
    refine LoopPostX.prepend heP hrP ?_
    have hnmP := hnmP' hnm
    have hauxP := hauxP' haux
    generalize asyncPoint a s = p0 at hnh hiP hhP hnmP hauxP ⊢
    obtain ⟨a0, sP⟩ := p0
    simp only [] at hnh hiP hhP hnmP hauxP ⊢
    clear heP hrP hnmP' hauxP' hi hnm haux hh s ms a
    -- `hook 0`
    have hh0 : (hook 0 sP).halted = false := by
      by_cases hc : (hook 0 sP).buildCancelled = true
      · rw [if_pos hc] at hnh; exact (haltMono_cancelA a0).of_result hnh
      · rw [if_neg hc] at hnh
        have h5 := afterTasksA_of_result hnh
        have h4 : (stA4 a0 (hook 0 sP)).2.2.halted = false := (haltMono_finTasksA _ _ _).of_result h5
        have h3 : (stA3 a0 (hook 0 sP)).2.2.halted = false := (haltMono_readyA _ _ _).of_result h4
        have h2 : (stA2 a0 (hook 0 sP)).2.2.halted = false := (haltMono_finInputA _ _ _).of_result h3
        have h1 : (stA1 a0 (hook 0 sP)).2.2.halted = false := (haltMono_inputA _ _ _).of_result h2
        exact (haltMono_scanA _ _ _).of_result h1
    obtain ⟨toks0, ms0, he0, hr0, hi0, hnm0'⟩ :=
      hiP.stepX (SimX.of_noX (hook_sim rules hok 0 sP msP hiP.rel hiP.pend hhP) (fun _ => noXB_hook 0 sP)) hh0
    have hnm0 := hnm0' hnmP
    have haux0 : Aux key (hook 0 sP) {} := hook_aux key 0 hiP.rel hiP.pend hhP hauxP
    refine LoopPostX.prepend he0 hr0 ?_
    generalize hook 0 sP = s0 at hnh hh0 hi0 hnm0 haux0 ⊢
    clear he0 hr0 hnm0' hiP hnmP hauxP hhP sP msP
    by_cases hc : s0.buildCancelled = true
    · rw [if_pos hc] at hnh ⊢
      have hpost : LoopPost rules key s0 ms0
          (pr (false, (cancelRemainingTasksA a0 s0).1, (cancelRemainingTasksA a0 s0).2)) :=
        cancelRemainingTasksA_sim rules hok a0 s0 ms0 key hi0.rel hi0.pend hh0 hi0.target hnm0
          (Or.inr (Or.inr (Or.inr hc))) hnh
      exact hpost.toX (noXB_cancelRemainingTasksA a0 s0)
    · rw [if_neg hc] at hnh ⊢
      have hc' : s0.buildCancelled = false := by simpa using hc
      have herr0 : ms0.m.errSeen = false := by
        cases he : ms0.m.errSeen with
        | false => rfl
        | true => have := hi0.rel.errCancelled he; rw [hc'] at this; cases this
      have h5 := afterTasksA_of_result hnh
      have h4 : (stA4 a0 s0).2.2.halted = false := (haltMono_finTasksA _ _ _).of_result h5
      have h3 : (stA3 a0 s0).2.2.halted = false := (haltMono_readyA _ _ _).of_result h4
      have h2 : (stA2 a0 s0).2.2.halted = false := (haltMono_finInputA _ _ _).of_result h3
      have h1 : (stA1 a0 s0).2.2.halted = false := (haltMono_inputA _ _ _).of_result h2
      have IH : ∀ a s ms, Inv rules key s ms → NoMid s → Aux key s {} → s.halted = false →
          (executeLoopA key fuel a s).2.2.halted = false → LoopPostX rules key s ms (pr (executeLoopA key fuel a s)) := ih
      by_cases hw5 : (stA5 a0 s0).2.1 = true
      · -- some loop did work: stage by stage
        have S1 : SimX rules s0 ms0 (stA1 a0 s0).2.2 {} (fun _ => (stA1 a0 s0).2.2.ruleInfosToScan = []) :=
          scanRequestsLoopA_simX hok loopFuel false a0 s0 ms0 hi0.rel hi0.pend hh0
        have haux1 : Aux key (stA1 a0 s0).2.2 {} :=
          scanRequestsLoopA_aux hS hF hA hT hok key loopFuel false a0 s0 ms0 hi0.rel hi0.pend hh0 h1 haux0
        obtain ⟨toks1, ms1, he1, hr1, hi1, hq1⟩ := hi0.stepX S1 h1
        have hfresh1 : FreshScanQ (stA1 a0 s0).2.2 := by
          intro r hr; rw [hq1] at hr; cases hr
        have S2 : SimX rules (stA1 a0 s0).2.2 ms1 (stA2 a0 s0).2.2 {} (fun ms' =>
            ((stA2 a0 s0).2.2.inputRequests = [] ∧ NoMid (stA2 a0 s0).2.2 ∧ FreshScanQ (stA2 a0 s0).2.2) ∧
              PendFresh ms'.m) :=
          inputRequestsLoopA_simX hok loopFuel (stA1 a0 s0).1 (stA1 a0 s0).2.1 (stA1 a0 s0).2.2 ms1
            hi1.rel hi1.pend h1 hfresh1 hi1.pendFresh
        have haux2 : Aux key (stA2 a0 s0).2.2 {} :=
          inputRequestsLoopA_aux hS hF hA rules hok loopFuel (stA1 a0 s0).1 (stA1 a0 s0).2.1 (stA1 a0 s0).2.2 ms1 key
            hi1.rel hi1.pend h1 hfresh1 hi1.pendFresh h2 scanRuleAux demandRule_aux haux1
        obtain ⟨toks2, ms2, he2, hr2, hi2, ⟨-, hnm2, -⟩, -⟩ := hi1.stepX S2 h2
        have S3 : SimX rules (stA2 a0 s0).2.2 ms2 (stA3 a0 s0).2.2 {} (fun _ =>
            (stA3 a0 s0).2.2.finishedInputRequests = [] ∧ NoMid (stA3 a0 s0).2.2) :=
          SimX.of_noX
            (finishedInputsLoopA_sim hS hF hA hT rules hok loopFuel (stA2 a0 s0).1 (stA2 a0 s0).2.1 (stA2 a0 s0).2.2 ms2
              hi2.rel hi2.pend h2 hnm2)
            (fun _ => noXB_finishedInputsLoopA _ _ _ _)
        have haux3 : Aux key (stA3 a0 s0).2.2 {} :=
          finishedInputsLoopA_aux hS hF hA hT hok loopFuel (stA2 a0 s0).1 (stA2 a0 s0).2.1 (stA2 a0 s0).2.2 ms2
            hi2.rel hi2.pend h2 hnm2 h3 haux2
        obtain ⟨toks3, ms3, he3, hr3, hi3, -, hnm3⟩ := hi2.stepX S3 h3
        have S4 : SimX rules (stA3 a0 s0).2.2 ms3 (stA4 a0 s0).2.2 {} (fun _ =>
            (stA4 a0 s0).2.2.readyTaskInfos = [] ∧ NoMid (stA4 a0 s0).2.2) :=
          SimX.of_noX
            (readyTasksLoopA_sim rules hok loopFuel (stA3 a0 s0).1 (stA3 a0 s0).2.1 (stA3 a0 s0).2.2 ms3
              hi3.rel hi3.pend h3 hnm3)
            (fun _ => noXB_readyTasksLoopA _ _ _ _)
        have haux4 : Aux key (stA4 a0 s0).2.2 {} :=
          readyTasksLoopA_aux key loopFuel (stA3 a0 s0).1 (stA3 a0 s0).2.1 (stA3 a0 s0).2.2 ms3
            hi3.rel hi3.pend h3 hnm3 h4 haux3
        obtain ⟨toks4, ms4, he4, hr4, hi4, -, hnm4⟩ := hi3.stepX S4 h4
        have S5 : (stA5 a0 s0).1 = false ∧ Sim rules (stA4 a0 s0).2.2 ms4 (stA5 a0 s0).2.2.2 {} (fun _ =>
            (stA5 a0 s0).2.2.2.finishedTaskInfos = [] ∧ NoMid (stA5 a0 s0).2.2.2) :=
          finishedTasksLoopA_sim hS hF rules hok loopFuel (stA4 a0 s0).1 (stA4 a0 s0).2.1 (stA4 a0 s0).2.2 ms4
            hi4.rel hi4.pend h4 hnm4
        have haux5 : Aux key (stA5 a0 s0).2.2.2 {} :=
          finishedTasksLoopA_aux hS hF hA hok loopFuel (stA4 a0 s0).1 (stA4 a0 s0).2.1 (stA4 a0 s0).2.2 ms4
            hi4.rel hi4.pend h4 hnm4 haux4
        obtain ⟨hfail, S5⟩ := S5
        have S5X : SimX rules (stA4 a0 s0).2.2 ms4 (stA5 a0 s0).2.2.2 {} (fun _ =>
            (stA5 a0 s0).2.2.2.finishedTaskInfos = [] ∧ NoMid (stA5 a0 s0).2.2.2) :=
          SimX.of_noX S5 (fun _ => noXB_finishedTasksLoopA _ _ _ _)
        obtain ⟨toks5, ms5, he5, hr5, hi5, -, hnm5⟩ := hi4.stepX S5X h5
        refine LoopPostX.prepend (he1.trans (he2.trans (he3.trans (he4.trans he5))))
          (trunX_append_some hr1 (trunX_append_some hr2 (trunX_append_some hr3 (trunX_append_some hr4 hr5)))) ?_
        exact afterTasksA_specX hok IH (stA5 a0 s0) hfail ms5 hi5 hnm5 haux5 h5
          (fun h => by rw [hw5] at h; cases h) hnh
      · -- no work: five item boundaries
        have hw5' : (stA5 a0 s0).2.1 = false := by simpa using hw5
        obtain ⟨e, q1, q2, q3, q4, -, hfail⟩ := noworkA_all a0 s0 hw5' h1 h2 h3 h4 h5
        obtain ⟨toks5, ms5, he5, hr5, hi5, her5, hh5, hnm5, haux5, -⟩ := apN_invX 5 a0 hi0 hh0
        have hnm5' := hnm5 hnm0
        have haux5' := haux5 haux0
        rw [← e] at he5 hi5 hh5 hnm5' haux5' q1 q2 q3 q4
        refine LoopPostX.prepend he5 hr5 ?_
        exact afterTasksA_specX hok IH (stA5 a0 s0) hfail ms5 hi5 hnm5' haux5' hh5
          (fun _ => ⟨her5.trans herr0, q1, q2, q3, q4⟩) hnh

end LLBuild.Refine
