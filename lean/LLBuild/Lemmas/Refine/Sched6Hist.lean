/-
C03 on the transliterated engine — THE EXECUTED SET IS THE SAME AFTER A RESTART.

`Lemmas/Engine/Exec6Restart*.lean`: `MDInv` (what success-only histories keep between memory and database: values, signatures,
`computedAt` equal; `builtAt` of the database older or equal, with no non-order-only dependency computed in between; dependency
lists equal up to the single-use entries), `step_mdinv`, `MDInv.snapSim`, `SnapSim.mustRun`.
Here: the history induction (`sched6_history`) that carries `Inv`, `InvC`, `Inv2`, `MDInv` along a concrete history ALL OF
WHOSE COMPLETED BUILDS printed no `X`/`CY`/`ER` (`histNoFail`; killed builds allowed), and the end result
`mustRun_restart_concrete : MustRun P (snapC rules s) key k ↔ MustRun P (snapC rules (opRestart s)) key k`
when the signatures the engine holds are current (`sigCurrent`).
-/
import LLBuild.Lemmas.Engine.Exec6RestartFinal
import LLBuild.Lemmas.Refine.Sched6Db

namespace LLBuild.Refine
open LLBuild.Engine LLBuild.Engine.DSL LLBuild.EngineImpl

/-! ## the ghost flag is sticky -/

theorem step_pd_sticky {P : Program} {s s' : St} {e : Event} (h : step P s e = some s') (hw : e ≠ .wipe)
    (hd : s.pendingDropped = true) : s'.pendingDropped = true := by
  cases e <;> simp only [step] at h
  case wipe => exact absurd rfl hw
  case dbEnd =>
    split at h
    · cases h; simp [hd]
    · cases h
  case ret v =>
    split at h
    · cases h
    · split at h
      · cases h
      · split at h
        · cases h; exact hd
        · split at h
          · cases h; simp [hd]
          · cases h
  case provide k id key v reqs =>
    split at h
    · split at h
      · cases h
      · split at h
        · cases h; exact hd
        · cases h
    · cases h
  case cycle ks =>
    split at h
    · split at h
      · cases h; exact hd
      · cases h
    · cases h
  all_goals first
    | (cases h; exact hd)
    | (split at h
       · cases h; exact hd
       · cases h)

theorem run_pd_sticky {P : Program} : ∀ (evs : List Event) (s s' : St), run P s evs = some s' → (∀ e ∈ evs, e ≠ .wipe) →
    s'.pendingDropped = false → s.pendingDropped = false
  | [], s, s', h, _, hd => by simp only [run, Option.some.injEq] at h; subst h; exact hd
  | e :: es, s, s', h, hw, hd => by
    simp only [run] at h
    cases hs : step P s e with
    | none => rw [hs] at h; simp at h
    | some s1 =>
      rw [hs] at h
      have h1 := run_pd_sticky es s1 s' h (fun e' he' => hw e' (List.mem_cons_of_mem _ he')) hd
      cases hds : s.pendingDropped with
      | false => rfl
      | true => rw [step_pd_sticky hs (hw e List.mem_cons_self) hds] at h1; cases h1

theorem step_ret_status {P : Program} {m m' : Engine.St} {v : Val} (h : step P m (.ret v) = some m') :
    m'.status = m.status := by
  simp only [step] at h
  split at h
  · cases h
  · split at h
    · cases h
    · split at h
      · cases h; rfl
      · split at h
        · cases h; rfl
        · cases h

/-- the monitor invariants together -/
structure AllInv (P : Program) (m : Engine.St) : Prop where
  inv : Engine.Inv P m
  invC : InvC P m
  inv2 : Inv2 m
  md : MDInv m

/-- one event that is neither `ret` nor `tail` -/
theorem step_allInv {P : Program} (hP : P.WF) {s s' : St} {e : Event} (h : step P s e = some s') (ha : AllInv P s)
    (hd : s'.pendingDropped = false)
    (hret : ∀ v, e = .ret v → s.cancelled = false ∧ s.cycleSeen = false ∧ s.errSeen = false)
    (htail : ∀ a b, e = .tail a b → ∀ k, inflight s k = false) : AllInv P s' :=
  ⟨step_inv hP h ha.inv ha.invC hd, step_invC hP h ha.inv ha.invC hd, ha.inv2.preserved h,
    step_mdinv hP ha.inv ha.inv2 ha.md h hret htail⟩

theorem run_allInv {P : Program} (hP : P.WF) : ∀ (evs : List Event) (s s' : St), run P s evs = some s' →
    (∀ e ∈ evs, e ≠ .wipe ∧ (∀ v, e ≠ .ret v) ∧ ∀ a b, e ≠ .tail a b) → s'.pendingDropped = false →
    AllInv P s → AllInv P s'
  | [], s, s', h, _, _, ha => by simp only [run, Option.some.injEq] at h; subst h; exact ha
  | e :: es, s, s', h, hm, hd, ha => by
    simp only [run] at h
    cases hs : step P s e with
    | none => rw [hs] at h; simp at h
    | some s1 =>
      rw [hs] at h
      have hme := hm e List.mem_cons_self
      have hd1 : s1.pendingDropped = false :=
        run_pd_sticky es s1 s' h (fun e' he' => (hm e' (List.mem_cons_of_mem _ he')).1) hd
      exact run_allInv hP es s1 s' h (fun e' he' => hm e' (List.mem_cons_of_mem _ he')) hd
        (step_allInv hP hs ha hd1 (fun v ev => absurd ev (hme.2.1 v)) (fun a b ev => absurd ev (hme.2.2 a b)))

/-- neither `wipe` nor `ret` nor `tail` -/
def Event.isPlain : Event → Bool
  | .wipe => false
  | .ret _ => false
  | .tail _ _ => false
  | _ => true

theorem Event.isPlain_spec {e : Event} (h : Event.isPlain e = true) :
    e ≠ .wipe ∧ (∀ v, e ≠ .ret v) ∧ ∀ a b, e ≠ .tail a b := by
  refine ⟨?_, ?_, ?_⟩
  · intro he; subst he; cases h
  · intro v he; subst he; cases h
  · intro a b he; subst he; cases h

/-- the events of tokens that are not `R`/`Z` are not `wipe`, `ret`, `tail` -/
theorem evOfToks_plain {toks : List Tok} {ph : Option Key} {evs : List Event} (h : evOfToks ph toks = some evs)
    (hz : ∀ t ∈ toks, Tok.isZ t = false ∧ ∀ w, t ≠ Tok.R w) :
    ∀ e ∈ evs, e ≠ .wipe ∧ (∀ v, e ≠ .ret v) ∧ ∀ a b, e ≠ .tail a b := by
  intro e he
  apply Event.isPlain_spec
  obtain ⟨t, ht, hh⟩ := evOfToks_mem toks ph evs h e he
  rcases hh with hh | ⟨k, row, _, hh⟩
  · obtain ⟨hzt, hrt⟩ := hz t ht
    cases t with
    | S k n =>
      rcases n with _ | _ | n
      · simp only [Tok.toEvent?, Option.some.injEq] at hh; subst hh; rfl
      · simp only [Tok.toEvent?, Option.some.injEq] at hh; subst hh; rfl
      · simp [Tok.toEvent?] at hh
    | Z a b => cases hzt
    | R w => exact absurd rfl (hrt w)
    | _ => first
      | (simp only [Tok.toEvent?, Option.some.injEq] at hh; subst hh; rfl)
      | (simp [Tok.toEvent?] at hh)
  · subst hh; rfl

/-! ## one completed build without `X`/`CY`/`ER` -/

theorem build_nofail_allInv {rules : List RuleSpec} (hok : RulesOk rules) (hP : (program rules).WF) {s : State}
    {m : Engine.St} (hr : RelIdle rules s m) (ha : AllInv (program rules) m) (hd : m.pendingDropped = false)
    (key cancelAt : Nat) (sched : List SchedItem) (a : Async) (hsize : workBound rules s key + 2 < scanFuel)
    (hnf : NoFail (runBuildA key cancelAt sched a s).trace.reverse) :
    ∃ evs m', toEvents (runBuildA key cancelAt sched a s).trace.reverse = some evs ∧
      run (program rules) m evs = some m' ∧ RelIdle rules (runBuildA key cancelAt sched a s) m' ∧ Committed m' ∧
      AllInv (program rules) m' ∧ m'.pendingDropped = false := by
  have hloop := workLoopA_final rules hok
  have hnh := build_terminates_async hok hr key cancelAt sched a hsize
  obtain ⟨m', hrunX, hrel⟩ := runBuildA_simX hok hr key cancelAt sched a hnh
  have hrunT := trunX_trun _ _ _ hrunX
  obtain ⟨evs, hevs, hrunE⟩ := trun_toEvents hrunT
  have hcomm := runBuildA_committed hloop hr key cancelAt sched a hnh hrunT
  refine ⟨evs, m', hevs, hrunE, hrel, hcomm, ?_⟩
  obtain ⟨rest, v, n, htr, hnc, hnfr⟩ := runBuildA_trace_nofail hloop hr key cancelAt sched a hnh hnf
  rw [htr] at hrunX
  obtain ⟨msA, hA, hclose⟩ := trunX_prefix hrunX
  have hA' := hA
  simp only [trunX] at hA'
  cases hB : tstepX (program rules) ⟨m, none⟩ (.B key) with
  | none => rw [hB] at hA'; simp at hA'
  | some ms1 =>
    rw [hB] at hA'; simp only [Option.bind_some] at hA'
    obtain ⟨x1, i1, _⟩ := tstepX_B_xinv hB ha.inv2
    obtain ⟨xA, _, _⟩ := trunX_xinv rest ms1 msA hA' hnc x1 i1
    obtain ⟨_, _, hdA, hfA'⟩ := trun_B_mid (trunX_trun _ _ _ hA) hnc
    have hfA := hfA' hnfr
    -- `DE ; R v ; Z n 0`
    have hcl := trunX_trun _ _ _ hclose
    simp only [trun] at hcl
    cases hDE : tstep (program rules) msA .DE with
    | none => rw [hDE] at hcl; simp at hcl
    | some msB =>
      rw [hDE] at hcl; simp only [Option.bind_some] at hcl
      cases hR : tstep (program rules) msB (.R v) with
      | none => rw [hR] at hcl; simp at hcl
      | some msC =>
        rw [hR] at hcl; simp only [Option.bind_some] at hcl
        cases hZ : tstep (program rules) msC (.Z n 0) with
        | none => rw [hZ] at hcl; simp at hcl
        | some msD =>
          rw [hZ] at hcl; simp only [Option.bind_some, Option.some.injEq] at hcl
          have sDE := tstep_ev_inv hDE (e := .dbEnd) rfl
          have sR := tstep_ev_inv hR (e := .ret v) rfl
          have sZ := tstep_ev_inv hZ (e := .tail n 0) rfl
          rw [hcl] at sZ
          obtain ⟨d1, d2, d3, _, _, d6, d7⟩ := step_dbEnd_frame sDE
          have hfB : NoFlags msB.m := ⟨d1.trans hfA.1, d2.trans hfA.2.1, d3.trans hfA.2.2⟩
          obtain ⟨hpend, hpdC⟩ := step_ret_noFlags sR hfB
          have hpdB : msB.m.pendingDropped = false := by rw [d7, ← d6, hpend, hdA, hd]; rfl
          have hpdC' : msC.m.pendingDropped = false := hpdC.trans hpdB
          have hpd' : m'.pendingDropped = false := (step_tail_pd sZ).trans hpdC'
          -- the events before `R`
          have hDE1 : trun (program rules) msA [.DE] = some msB := by simp [trun, hDE]
          have hpreT := trun_append_some (trunX_trun _ _ _ hA) hDE1
          obtain ⟨pre, hev, hpre⟩ := trun_evOfToks _ _ _ hpreT
          have hplain := evOfToks_plain hev (by
            intro t ht
            rcases List.mem_append.1 ht with e | e
            · rcases List.mem_cons.1 e with e | e
              · subst e; exact ⟨rfl, fun w hw => by cases hw⟩
              · have := hnc t e
                exact ⟨(isClose_false this).2, fun w hw => by subst hw; cases this⟩
            · simp only [List.mem_cons, List.not_mem_nil, or_false] at e; subst e
              exact ⟨rfl, fun w hw => by cases hw⟩)
          have haB := run_allInv hP pre m msB.m hpre hplain hpdB ha
          have haC := step_allInv hP sR haB hpdC' (fun _ _ => hfB) (fun a b e => by cases e)
          -- nothing in flight at `tail`
          have xB := xinv_dbEnd xA sDE
          obtain ⟨root, _, _, _, hquiet⟩ := step_ret_dry sR hfB
          have hnofl : ∀ k, inflight msC.m k = false := by
            intro k
            have hst : msC.m.status = msB.m.status := step_ret_status sR
            cases hfl : inflight msB.m k with
            | false => simpa [inflight, hst] using hfl
            | true =>
              have hin : k ∈ msB.m.ran := by
                apply (xB.key k).inRan
                simp only [inflight, Bool.or_eq_true, beq_iff_eq] at hfl
                exact hfl
              rw [hquiet k hin] at hfl; cases hfl
          have haD := step_allInv hP sZ haC hpd' (fun v e => by cases e) (fun _ _ _ => hnofl)
          exact ⟨haD, hpd'⟩

/-! ## histories -/

theorem sched6_op {rules : List RuleSpec} (hok : RulesOk rules) (hP : (program rules).WF) {s : State} {m : Engine.St}
    (hr : RelIdle rules s m) (hc : Committed m) (ha : AllInv (program rules) m) (hd : m.pendingDropped = false)
    (op : OpC) (hs : histSizedC rules [op] s) (hnf : histNoFail [op] s) :
    ∃ evs m', opEventsC op s = some evs ∧ run (program rules) m evs = some m' ∧ RelIdle rules (runOpC op s) m' ∧
      Committed m' ∧ AllInv (program rules) m' ∧ m'.pendingDropped = false := by
  cases op with
  | wipe =>
    obtain ⟨m', h1, h2⟩ := hr.wipe (program rules)
    have hpd : m'.pendingDropped = false := by
      simp only [step] at h1
      split at h1
      · cases h1; rfl
      · cases h1
    exact ⟨[.wipe], m', rfl, by simp [run, h1], h2, Committed.step h1 rfl hc,
      step_allInv hP h1 ha hpd (fun v e => by cases e) (fun a b e => by cases e), hpd⟩
  | restart =>
    obtain ⟨m', h1, h2⟩ := hr.restart (program rules)
    have hpd : m'.pendingDropped = false := by
      simp only [step] at h1
      split at h1
      · cases h1; exact hd
      · cases h1
    exact ⟨[.restart], m', rfl, by simp [run, h1], h2, Committed.step h1 rfl hc,
      step_allInv hP h1 ha hpd (fun v e => by cases e) (fun a b e => by cases e), hpd⟩
  | mutate x y =>
    obtain ⟨m', h1, h2⟩ := hr.mutate (program rules) x y
    have hpd : m'.pendingDropped = false := by
      simp only [step] at h1
      split at h1
      · cases h1; exact hd
      · cases h1
    exact ⟨[.mutate x y], m', rfl, by simp [run, h1], h2, Committed.step h1 rfl hc,
      step_allInv hP h1 ha hpd (fun v e => by cases e) (fun a b e => by cases e), hpd⟩
  | build key cancelAt sched a =>
    exact build_nofail_allInv hok hP hr ha hd key cancelAt sched a hs.1 hnf.1
  | crashedBuild key cancelAt sched a cut =>
    have hloop := workLoopA_final rules hok
    have hnh := build_terminates_async hok hr key cancelAt sched a hs.1
    obtain ⟨m', hrun, _⟩ := runBuildA_sim hloop hr key cancelAt sched a hnh
    obtain ⟨rest, q, hcut, hfull, hnc⟩ := cutToks_noClose hloop hr key cancelAt sched a cut hnh
    have hp : ∀ t ∈ Tok.B key :: rest, Tok.isDE t = false ∧ Tok.isZ t = false := by
      intro t ht
      rcases List.mem_cons.1 ht with e | e
      · subst e; exact ⟨rfl, rfl⟩
      · exact isClose_false (hnc t e)
    rw [hfull] at hrun
    obtain ⟨msp, hpre, _⟩ := trun_prefix hrun
    obtain ⟨mc, hstep, hrel, hcm⟩ := crash_relIdle hr hc hpre hp
    obtain ⟨evs, hev, hrunE⟩ := trun_evOfToks _ _ _ hpre
    have hpdp : msp.m.pendingDropped = m.pendingDropped := (trun_B_mid hpre hnc).2.2.1
    have hpdc : mc.pendingDropped = false := by
      rw [step_crash _ _ (trun_B_target hpre hp).2] at hstep
      cases hstep
      exact hpdp.trans hd
    have hplain := evOfToks_plain hev (by
      intro t ht
      rcases List.mem_cons.1 ht with e | e
      · subst e; exact ⟨rfl, fun w hw => by cases hw⟩
      · have := hnc t e
        exact ⟨(isClose_false this).2, fun w hw => by subst hw; cases this⟩)
    have hap := run_allInv hP evs m msp.m hrunE hplain (hpdp.trans hd) ha
    refine ⟨evs ++ [.crash], mc, by simp [opEventsC, hcut, hev], ?_, hrel, hcm,
      step_allInv hP hstep hap hpdc (fun v e => by cases e) (fun a b e => by cases e), hpdc⟩
    rw [run_append, hrunE]
    simp [run, hstep]

theorem sched6_history {rules : List RuleSpec} (hok : RulesOk rules) (hP : (program rules).WF) :
    ∀ (ops : List OpC) (s : State) (m : Engine.St), RelIdle rules s m → Committed m → AllInv (program rules) m →
      m.pendingDropped = false → histSizedC rules ops s → histNoFail ops s →
      ∃ evs m', histEventsC ops s = some evs ∧ run (program rules) m evs = some m' ∧ RelIdle rules (runOpsC ops s) m' ∧
        Committed m' ∧ AllInv (program rules) m' ∧ m'.pendingDropped = false
  | [], s, m, hr, hc, ha, hd, _, _ => ⟨[], m, rfl, rfl, hr, hc, ha, hd⟩
  | op :: ops, s, m, hr, hc, ha, hd, hs, hnf => by
    obtain ⟨evs1, m1, h1, h2, h3, hc1, ha1, hd1⟩ := sched6_op hok hP hr hc ha hd op ⟨hs.1, trivial⟩ ⟨hnf.1, trivial⟩
    obtain ⟨evs2, m2, h4, h5, h6, hc2, ha2, hd2⟩ := sched6_history hok hP ops (runOpC op s) m1 h3 hc1 ha1 hd1 hs.2 hnf.2
    refine ⟨evs1 ++ evs2, m2, ?_, ?_, h6, hc2, ha2, hd2⟩
    · simp [histEventsC, h1, h4]
    · rw [run_append, h2]; simpa using h5

theorem allInv_init (P : Program) : AllInv P ({} : Engine.St) := ⟨Inv.init P, Inv.init P, Inv2.init, MDInv.init⟩

/-- the signatures the engine holds are the ones the delegate would compute now -/
def sigCurrent (rules : List RuleSpec) (s : State) : Bool :=
  s.ruleInfos.all fun p => p.2.signature == sigOf (specOf rules p.1) s.env

/-- **C03 (the executed set does not depend on whether the engine is restarted).**  After a history from a fresh harness all
of whose completed builds printed no `X`/`CY`/`ER` (killed builds allowed), with the engine's signatures current: the
reference executed set of the next build is the same for the engine that stayed alive and for a new engine on its store. -/
theorem mustRun_restart_concrete {rules : List RuleSpec} (hok : RulesOk rules) (hP : (program rules).WF) (ops : List OpC)
    (hs : histSizedC rules ops (opProgram rules {})) (hnf : histNoFail ops (opProgram rules {}))
    (hsig : sigCurrent rules (runOpsC ops (opProgram rules {})) = true) (key k : Key) :
    MustRun (program rules) (snapC rules (runOpsC ops (opProgram rules {}))) key k ↔
      MustRun (program rules) (snapC rules (opRestart (runOpsC ops (opProgram rules {})))) key k := by
  obtain ⟨_, m, _, hrun, hrel, _, ha, _⟩ :=
    sched6_history hok hP ops _ _ (RelIdle.init rules) Committed.init (allInv_init _) rfl hs hnf
  obtain ⟨mr, hstep, hrelr⟩ := hrel.restart (program rules)
  have hsigM : ∀ k, m.registered k = true → m.sigAt k = (program rules).sig m.env k := by
    intro k hk
    rw [hrel.reg k] at hk
    cases hl : (runOpsC ops (opProgram rules {})).ruleInfos.lookup k with
    | none => rw [hl] at hk; cases hk
    | some ri =>
      rw [hrel.sig k ri hl, hrel.env]
      have hm := lookup_mem _ k ri hl
      have := List.all_eq_true.1 hsig (k, ri) hm
      have h' : ri.signature = sigOf (specOf rules k) (runOpsC ops (opProgram rules {})).env := by simpa using this
      exact h'
  have hsim := ha.md.snapSim ha.inv hrel.target hsigM hstep
  exact ((snapEq_of_relIdle hrel).mustRun key k).symm.trans
    ((hsim.mustRun key k).trans ((snapEq_of_relIdle hrelr).mustRun key k))

end LLBuild.Refine
