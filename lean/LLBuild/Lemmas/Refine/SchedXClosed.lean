/-
C06 "the same set of executed rules" — stage 2 of `runBuildA_simX`: THE FUNCTIONS THAT RECORD NO X-TOKEN.
`S k 0` is recorded only by `scanRule`, `N k 3 (some d)` only by `scanLoop`.  Every other function of the engine model
(`getRuleInfoForKey`, `issue`/`taskStart`/`taskProvideValue`, `demandRule`, `finishScanRequest`, `taskComplete`,
`taskInputsAvailable`, `hook`, `finishedInputStep`, `readyStep`, `finishedTaskWrite`, `resolveCycle`, `asyncStep`/`asyncPoint`,
`finishedInputsLoopA`, `readyTasksLoopA`, `finishedTasksLoopA`, `drainLoopA`/`cancelRemainingTasksA`, `waitStep`, `buildTail`)
records only tokens that are not X-tokens: the recorder-closure framework of Halt.lean / Crash2.lean (`Closed`, `ClosedT`)
re-stated for the token class `Tok.isXTok` (`ClosedX`, lemmas `rx_…` / `rxA_…`: the proofs of Crash2.lean, the side condition
`Tok.isXTok t = false` is `rfl` at every `emit` of these functions), instantiated with "the trace is the old one plus tokens
that are not X-tokens" (`NoXB`, SchedXScan.lean).
-/
import LLBuild.Lemmas.Refine.SchedXScan

namespace LLBuild.Refine
open LLBuild.Engine LLBuild.Engine.DSL LLBuild.EngineImpl

/-- a predicate on `(halted, trace)` closed under the recorder operations as the functions OTHER than `scanRule` /
`scanLoop` use them: `emit t` only for a token that is not an X-token -/
structure ClosedX (R : Bool → List Tok → Prop) : Prop where
  emit : ∀ (t : Tok) (s : State), Tok.isXTok t = false → R s.halted s.trace → R (emit t s).halted (emit t s).trace
  halt : ∀ (t : Tok) (s : State), Tok.isBad t = true → R s.halted s.trace → R (halt t s).halted (halt t s).trace
  doCancel : ∀ (s : State), R s.halted s.trace → R (doCancel s).halted (doCancel s).trace

section PreserveX
variable {R : Bool → List Tok → Prop} (hR : ClosedX R)
include hR

local notation "⟪" s "⟫" => R (State.halted s) (State.trace s)

theorem rx_modScanRecord (k : Key) (f : RuleScanRecord → RuleScanRecord) (s : State) (h : ⟪s⟫) :
    ⟪modScanRecord k f s⟫ := by
  unfold modScanRecord
  split
  · exact h
  · exact hR.halt _ _ rfl h

theorem rx_getRuleInfoForKey (k : Key) (s : State) (h : ⟪s⟫) : ⟪getRuleInfoForKey k s⟫ := by
  unfold getRuleInfoForKey
  split
  · exact h
  · dsimp only
    split
    · split
      · exact hR.emit _ _ rfl (hR.emit _ _ rfl h)
      · exact hR.emit _ _ rfl (hR.emit _ _ rfl h)
    · exact hR.emit _ _ rfl h

theorem rx_addTaskInputRequest (task key inputID : Nat) (oo su : Bool) (s : State) (h : ⟪s⟫) :
    ⟪addTaskInputRequest task key inputID oo su s⟫ := by
  unfold addTaskInputRequest
  split
  · exact hR.halt _ _ rfl h
  · exact rx_getRuleInfoForKey hR _ _ h

theorem rx_taskNeedsInput (task key inputID : Nat) (s : State) (h : ⟪s⟫) : ⟪taskNeedsInput task key inputID s⟫ := by
  unfold taskNeedsInput
  split
  · exact hR.emit _ _ rfl h
  · exact rx_addTaskInputRequest hR _ _ _ _ _ _ h

theorem rx_taskNeedsSingleUseInput (task key inputID : Nat) (s : State) (h : ⟪s⟫) :
    ⟪taskNeedsSingleUseInput task key inputID s⟫ := by
  unfold taskNeedsSingleUseInput
  split
  · exact hR.emit _ _ rfl h
  · exact rx_addTaskInputRequest hR _ _ _ _ _ _ h

theorem rx_taskMustFollow (task key : Nat) (s : State) (h : ⟪s⟫) : ⟪taskMustFollow task key s⟫ :=
  rx_addTaskInputRequest hR _ _ _ _ _ _ h

theorem rx_taskDiscoveredDependency (task key : Nat) (s : State) (h : ⟪s⟫) : ⟪taskDiscoveredDependency task key s⟫ := by
  unfold taskDiscoveredDependency
  split
  · exact hR.emit _ _ rfl h
  · exact h

theorem rx_taskIsComplete (task : Key) (v : Val) (fc : Bool) (s : State) (h : ⟪s⟫) : ⟪taskIsComplete task v fc s⟫ := by
  unfold taskIsComplete
  dsimp only
  split
  · exact hR.emit _ _ rfl h
  · exact h

theorem rx_issue (task : Key) : ∀ (l : List Req) (s : State), ⟪s⟫ → ⟪issue task l s⟫
  | [], s, h => h
  | q :: rest, s, h => by
    rw [issue]
    apply rx_issue task rest
    split
    · exact rx_taskNeedsInput hR _ _ _ _ h
    · split
      · exact rx_taskNeedsSingleUseInput hR _ _ _ _ h
      · exact rx_taskMustFollow hR _ _ _ h

theorem rx_taskStart (task : Key) (s : State) (h : ⟪s⟫) : ⟪taskStart task s⟫ :=
  rx_issue hR _ _ _ (hR.emit _ _ rfl h)

theorem rx_taskProvideValue (task : Key) (id : Nat) (key : Key) (v : Val) (s : State) (h : ⟪s⟫) :
    ⟪taskProvideValue task id key v s⟫ :=
  rx_issue hR _ _ _ (hR.emit _ _ rfl h)

theorem rx_taskComplete (task : Key) (s : State) (h : ⟪s⟫) : ⟪taskComplete task s⟫ :=
  rx_taskIsComplete hR _ _ _ _ (hR.emit _ _ rfl h)

theorem rx_reportDiscovered (task : Key) : ∀ (l : List Key) (s : State), ⟪s⟫ → ⟪reportDiscovered task l s⟫
  | [], s, h => h
  | d :: ds, s, h => by
    rw [reportDiscovered]
    exact rx_reportDiscovered task ds _ (rx_taskDiscoveredDependency hR _ _ _ h)

theorem rx_taskInputsAvailable (task : Key) (s : State) (h : ⟪s⟫) : ⟪taskInputsAvailable task s⟫ := by
  unfold taskInputsAvailable
  dsimp only
  have h1 := rx_reportDiscovered hR task (discKeys (specOf s.rules task) (s.task task).recv) _
    (hR.emit (.IA task (discKeys (specOf s.rules task) (s.task task).recv)) s rfl h)
  split
  · exact rx_taskComplete hR _ _ h1
  · exact h1

theorem rx_completeKey (k : Key) (s : State) (h : ⟪s⟫) : ⟪(completeKey k s).2⟫ := by
  unfold completeKey
  split
  · exact rx_taskComplete hR _ _ h
  · exact h

theorem rx_completeSmallest (s : State) (h : ⟪s⟫) : ⟪(completeSmallest s).2⟫ := by
  unfold completeSmallest
  split
  · exact h
  · exact rx_completeKey hR _ _ h

theorem rx_completeKeys : ∀ (l : List Key) (any : Bool) (s : State), ⟪s⟫ → ⟪(completeKeys l any s).2⟫
  | [], any, s, h => h
  | k :: ks, any, s, h => by
    rw [completeKeys]
    exact rx_completeKeys ks _ _ (rx_completeKey hR k s h)

theorem rx_hook (point : Nat) (s : State) (h : ⟪s⟫) : ⟪hook point s⟫ := by
  unfold hook
  split
  · exact rx_completeSmallest hR _ h
  · split
    next any s1 heq =>
      have h1 : ⟪s1⟫ := by
        refine of_eq_pair heq ?_
        split
        · exact h
        · split
          next any2 s2 heq2 =>
            have h2 : ⟪s2⟫ := of_eq_pair heq2 (rx_completeKeys hR _ _ _ h)
            dsimp only
            split
            · exact hR.doCancel _ h2
            · exact h2
      split
      · exact rx_completeSmallest hR _ h1
      · exact h1

/-! ### scanning and demanding -/

theorem rx_demandRule (k : Key) (s : State) (h : ⟪s⟫) : ⟪(demandRule k s).2⟫ := by
  unfold demandRule
  dsimp only
  split
  · exact h
  · split
    · exact h
    · split
      · exact hR.emit _ _ rfl h
      · have h1 := rx_taskStart hR k _ (rs_modRule ((emit (.T k) s).setTask { forRuleInfo := k }) k
          (fun ri => { ri with state := .inProgressWaiting, inProgressInfo := .pendingTaskInfo,
                               result := { ri.result with deps := [] } }) (hR.emit (.T k) s rfl h))
        split <;> split <;> first | exact h1 | exact hR.emit _ _ rfl h1

theorem rx_finishScanRequest (k : Key) (st : StateKind) (s : State) (h : ⟪s⟫) : ⟪finishScanRequest k st s⟫ := by
  unfold finishScanRequest
  split
  · exact hR.halt _ _ rfl h
  · exact h

theorem rx_decrementTaskWaitCount (task : Key) (s : State) (h : ⟪s⟫) : ⟪decrementTaskWaitCount task s⟫ := by
  unfold decrementTaskWaitCount
  split
  · exact hR.halt _ _ rfl h
  · dsimp only
    split <;> exact h

theorem rx_finishedInputStep (task : Key) (r : TaskInputRequest) (s : State) (h : ⟪s⟫) : ⟪finishedInputStep task r s⟫ := by
  unfold finishedInputStep
  apply rx_decrementTaskWaitCount hR
  split
  · exact h
  · exact rx_taskProvideValue hR _ _ _ _ _ h

theorem rx_readyStep (task : Key) (s : State) (h : ⟪s⟫) : ⟪readyStep task s⟫ := by
  unfold readyStep
  exact rx_taskInputsAvailable hR task _ (rs_modRule s _ _ h)

theorem rx_pushDiscovered : ∀ (l : List Dep) (s : State), ⟪s⟫ → ⟪pushDiscovered l s⟫
  | [], s, h => h
  | d :: ds, s, h => by
    rw [pushDiscovered]
    exact rx_pushDiscovered ds _ (rx_getRuleInfoForKey hR d.key s h)

theorem rx_setRuleResult (k : Key) (res : Res) (s : State) (h : ⟪s⟫) : ⟪(setRuleResult k res s).2⟫ := by
  unfold setRuleResult
  dsimp only
  split <;> exact hR.emit _ _ rfl h

theorem rx_finishedTaskWrite (task : Key) (s : State) (h : ⟪s⟫) : ⟪(finishedTaskWrite task s).2⟫ := by
  unfold finishedTaskWrite
  dsimp only
  have h1 : ⟪emit (.S (s.task task).forRuleInfo 2)
      (s.modRule (s.task task).forRuleInfo (fun ri => setComplete s { ri with inProgressInfo := .null }))⟫ :=
    hR.emit _ _ rfl h
  have h2 := rx_pushDiscovered hR (s.task task).discoveredDependencies _
    (rs_modRule _ (s.task task).forRuleInfo
      (fun ri => { ri with result := { ri.result with deps := ri.result.deps ++ (s.task task).discoveredDependencies } }) h1)
  split
  · exact rx_setRuleResult hR _ _ _ h2
  · exact h2

theorem rx_breakCycleLoop : ∀ (l : List Key) (s : State), ⟪s⟫ → ⟪(breakCycleLoop l s).2⟫
  | [], s, h => h
  | k :: rest, s, h => by
    rw [breakCycleLoop.eq_def]
    dsimp only
    split
    · split
      · exact h
      · exact hR.emit _ _ rfl (rx_finishScanRequest hR _ _ _ h)
    · split
      · split
        · exact rx_breakCycleLoop _ s h
        · split
          · exact rx_breakCycleLoop _ s h
          · split <;> exact h
      · exact rx_breakCycleLoop rest s h

theorem rx_resolveCycle (key : Key) (s : State) (h : ⟪s⟫) : ⟪(resolveCycle key s).2⟫ := by
  unfold resolveCycle
  split
  · exact hR.halt _ _ rfl h
  · next cycleList _ =>
    have h1 : ⟪(breakCycle cycleList s).2⟫ := rx_breakCycleLoop hR _ s h
    dsimp only
    split
    · exact h1
    · exact hR.emit _ _ rfl h1

theorem rxA_asyncStep (it : SchedItem) (s : State) (h : ⟪s⟫) : ⟪asyncStep it s⟫ := by
  unfold asyncStep
  dsimp only
  have h1 := rx_completeKeys hR it.keys false s h
  split
  · exact hR.doCancel _ h1
  · exact h1

theorem rxA_asyncPoint (a : Async) (s : State) (h : ⟪s⟫) : ⟪(asyncPoint a s).2⟫ := by
  cases a with
  | nil => exact h
  | cons it rest => exact rxA_asyncStep hR it s h

theorem rxA_finishedInputsLoopA : ∀ (fuel : Nat) (w : Bool) (a : Async) (s : State), ⟪s⟫ → ⟪(finishedInputsLoopA fuel w a s).2.2⟫
  | 0, w, a, s, h => by rw [finishedInputsLoopA]; exact hR.halt _ _ rfl h
  | fuel + 1, w, a, s, h => by
    rw [finishedInputsLoopA]
    dsimp only
    have h1 := rxA_asyncPoint hR a s h
    split
    · exact h1
    · split
      · exact hR.halt _ _ rfl h1
      · exact rxA_finishedInputsLoopA fuel _ _ _ (rx_finishedInputStep hR _ _ _ h1)

theorem rxA_readyTasksLoopA : ∀ (fuel : Nat) (w : Bool) (a : Async) (s : State), ⟪s⟫ → ⟪(readyTasksLoopA fuel w a s).2.2⟫
  | 0, w, a, s, h => by rw [readyTasksLoopA]; exact hR.halt _ _ rfl h
  | fuel + 1, w, a, s, h => by
    rw [readyTasksLoopA]
    dsimp only
    have h1 := rxA_asyncPoint hR a s h
    split
    · exact h1
    · exact rxA_readyTasksLoopA fuel _ _ _ (rx_readyStep hR _ _ h1)

theorem rxA_drainLoopA : ∀ (fuel : Nat) (a : Async) (s : State), ⟪s⟫ → ⟪(drainLoopA fuel a s).2⟫
  | 0, a, s, h => by rw [drainLoopA]; exact hR.halt _ _ rfl h
  | fuel + 1, a, s, h => by
    rw [drainLoopA]
    dsimp only
    have h1 := rx_hook hR 2 _ (rxA_asyncPoint hR a s h)
    split
    · exact h
    · split
      · exact hR.halt _ _ rfl h1
      · exact rxA_drainLoopA fuel _ _ h1

theorem rxA_cancelRemainingTasksA (a : Async) (s : State) (h : ⟪s⟫) : ⟪(cancelRemainingTasksA a s).2⟫ := by
  unfold cancelRemainingTasksA
  exact rsA_cancelTail _ (rxA_drainLoopA hR _ _ _ h)

theorem rxA_finishedTasksLoopA : ∀ (fuel : Nat) (w : Bool) (a : Async) (s : State), ⟪s⟫ →
    ⟪(finishedTasksLoopA fuel w a s).2.2.2⟫
  | 0, w, a, s, h => by rw [finishedTasksLoopA]; exact hR.halt _ _ rfl h
  | fuel + 1, w, a, s, h => by
    rw [finishedTasksLoopA]
    dsimp only
    have h0 := rxA_asyncPoint hR a s h
    split
    · exact h0
    · next task _ =>
      have h1 := rx_finishedTaskWrite hR task
        { (asyncPoint a s).2 with finishedTaskInfos := (asyncPoint a s).2.finishedTaskInfos.dropLast } h0
      split
      · exact rxA_cancelRemainingTasksA hR _ _ (hR.emit _ _ rfl h1)
      · exact rxA_finishedTasksLoopA fuel _ _ _ h1

theorem rxA_waitStep (s : State) (h : ⟪s⟫) : ⟪waitStep s⟫ := by
  unfold waitStep
  dsimp only
  split
  · exact hR.halt _ _ rfl (rx_hook hR 1 s h)
  · exact rx_hook hR 1 s h

theorem rxA_buildTail (key : Key) (r : Bool × State) (h : ⟪r.2⟫) : ⟪(buildTail key r).2⟫ := by
  unfold buildTail
  obtain ⟨ok, s1⟩ := r
  dsimp only at h ⊢
  generalize hs2 : (if s1.hasDB = true then _ else s1) = s2
  have h2 : ⟪s2⟫ := by
    rw [← hs2]
    split
    · exact hR.emit _ _ rfl h
    · exact h
  split
  · exact h2
  · exact rx_getRuleInfoForKey hR key s2 h2

end PreserveX

/-! ## the instance: the tokens recorded since `s0` are not X-tokens -/

/-- the trace is that of `s0` plus tokens that are not X-tokens -/
def NoXSince (s0 : State) (_ : Bool) (tr : List Tok) : Prop := ∃ toks, tr = toks.reverse ++ s0.trace ∧ NoXL toks

theorem closedX_noXSince (s0 : State) : ClosedX (NoXSince s0) where
  emit := fun t s ht h => by
    obtain ⟨toks, e, hn⟩ := h
    obtain ⟨b, eb, hb⟩ := NoXB.emit t s ht
    exact ⟨toks ++ b, by unfold Emits at eb; rw [eb, e]; simp, hn.append hb⟩
  halt := fun t s ht h => by
    by_cases hh : s.halted = true
    · have : halt t s = s := by simp [EngineImpl.halt, hh]
      rw [this]; exact h
    · have hh' : s.halted = false := by simpa using hh
      obtain ⟨toks, e, hn⟩ := h
      rw [halt_spec t s hh']
      refine ⟨toks ++ [t], by simp [e], hn.append (NoXL.cons ?_ NoXL.nil)⟩
      cases t <;> first | rfl | cases ht
  doCancel := fun s h => by
    obtain ⟨toks, e, hn⟩ := h
    by_cases hh : s.halted = true
    · have e' : (doCancel s).trace = s.trace := by
        unfold EngineImpl.doCancel; by_cases hc : s.cancelIssued = true <;> simp [hc, hh]
      exact ⟨toks, by rw [e', e], hn⟩
    · have hh' : s.halted = false := by simpa using hh
      rcases doCancel_spec s hh' with e' | ⟨_, e'⟩ <;> rw [e']
      · exact ⟨toks, e, hn⟩
      · exact ⟨toks ++ [.X], by simp [e], hn.append (NoXL.cons rfl NoXL.nil)⟩

/-- from the closure lemma of a function to `NoXB` -/
theorem noXB_of {f : State → State}
    (hf : ∀ {R : Bool → List Tok → Prop}, ClosedX R → ∀ s, R s.halted s.trace → R (f s).halted (f s).trace) (s : State) :
    NoXB s (f s) := by
  obtain ⟨toks, e, hn⟩ := hf (closedX_noXSince s) s ⟨[], rfl, NoXL.nil⟩
  exact ⟨toks, e, hn⟩

theorem noXB_getRuleInfoForKey (k : Key) (s : State) : NoXB s (getRuleInfoForKey k s) :=
  noXB_of (fun hR => rx_getRuleInfoForKey hR k) s
theorem noXB_demandRule (k : Key) (s : State) : NoXB s (demandRule k s).2 :=
  noXB_of (f := fun s => (demandRule k s).2) (fun hR => rx_demandRule hR k) s
theorem noXB_finishScanRequest (k : Key) (st : StateKind) (s : State) : NoXB s (finishScanRequest k st s) :=
  noXB_of (fun hR => rx_finishScanRequest hR k st) s
theorem noXB_modScanRecord (k : Key) (f : RuleScanRecord → RuleScanRecord) (s : State) : NoXB s (modScanRecord k f s) :=
  noXB_of (fun hR => rx_modScanRecord hR k f) s
theorem noXB_hook (point : Nat) (s : State) : NoXB s (hook point s) := noXB_of (fun hR => rx_hook hR point) s
theorem noXB_waitStep (s : State) : NoXB s (waitStep s) := noXB_of (fun hR => rxA_waitStep hR) s
theorem noXB_resolveCycle (key : Key) (s : State) : NoXB s (resolveCycle key s).2 :=
  noXB_of (f := fun s => (resolveCycle key s).2) (fun hR => rx_resolveCycle hR key) s
theorem noXB_asyncPoint (a : Async) (s : State) : NoXB s (asyncPoint a s).2 :=
  noXB_of (f := fun s => (asyncPoint a s).2) (fun hR => rxA_asyncPoint hR a) s
theorem noXB_finishedInputsLoopA (fuel : Nat) (w : Bool) (a : Async) (s : State) :
    NoXB s (finishedInputsLoopA fuel w a s).2.2 :=
  noXB_of (f := fun s => (finishedInputsLoopA fuel w a s).2.2) (fun hR => rxA_finishedInputsLoopA hR fuel w a) s
theorem noXB_readyTasksLoopA (fuel : Nat) (w : Bool) (a : Async) (s : State) :
    NoXB s (readyTasksLoopA fuel w a s).2.2 :=
  noXB_of (f := fun s => (readyTasksLoopA fuel w a s).2.2) (fun hR => rxA_readyTasksLoopA hR fuel w a) s
theorem noXB_finishedTasksLoopA (fuel : Nat) (w : Bool) (a : Async) (s : State) :
    NoXB s (finishedTasksLoopA fuel w a s).2.2.2 :=
  noXB_of (f := fun s => (finishedTasksLoopA fuel w a s).2.2.2) (fun hR => rxA_finishedTasksLoopA hR fuel w a) s
theorem noXB_cancelRemainingTasksA (a : Async) (s : State) : NoXB s (cancelRemainingTasksA a s).2 :=
  noXB_of (f := fun s => (cancelRemainingTasksA a s).2) (fun hR => rxA_cancelRemainingTasksA hR a) s
theorem noXB_buildTail (key : Key) (r : Bool × State) : NoXB r.2 (buildTail key r).2 := by
  obtain ⟨toks, e, hn⟩ := rxA_buildTail (closedX_noXSince r.2) key r ⟨[], rfl, NoXL.nil⟩
  exact ⟨toks, e, hn⟩

end LLBuild.Refine
