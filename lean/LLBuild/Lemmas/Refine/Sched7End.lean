/-
Token lifts of C02 / C06 — `JInv` = `TokInv` (Sched7Tok.lean) + "`S k 1` printed ⇒ `k` is complete and never ran", and
`build_mid`: `build_at_mid` (Sched7.lean) instantiated with it.
-/
import LLBuild.Lemmas.Refine.Sched7Aux
import LLBuild.Lemmas.Refine.Sched7Tok

namespace LLBuild.Refine
open LLBuild.Engine LLBuild.Engine.DSL LLBuild.EngineImpl

/-- a rule found up to date (`S k 1`) is complete and was not executed -/
def UpTok (acc : List Tok) (m : Engine.St) : Prop := ∀ k, Tok.S k 1 ∈ acc → m.status k = .done ∧ k ∉ m.ran

structure JInv (acc : List Tok) (m : Engine.St) : Prop where
  tok : TokInv acc m
  up : UpTok acc m

theorem jinv_after_B {P : Program} {m : Engine.St} {key : Key} {ms1 : MSt}
    (h : tstep P ⟨m, none⟩ (.B key) = some ms1) : JInv [Tok.B key] ms1.m :=
  ⟨tokInv_after_B h, fun k hk => by simp at hk⟩

theorem tstep_jinv {P : Program} {ms ms' : MSt} {t : Tok} {acc : List Tok} (h : tstep P ms t = some ms')
    (hc : Tok.isClose t = false) (htg : ms.m.target.isSome = true) (hj : JInv acc ms.m) : JInv (acc ++ [t]) ms'.m := by
  refine ⟨tstep_tokInv h (Or.inl hc) htg hj.tok, ?_⟩
  intro k hk
  rcases tstep_event h with ⟨⟨k0, e⟩, hm⟩ | ⟨ev, he | ⟨k0, row0, ht, he⟩, hst⟩
  · subst e
    rw [hm]
    rcases List.mem_append.1 hk with e | e
    · exact hj.up k e
    · simp at e
  · have hmid : Event.isMidX ev = true := by
      rcases toEvent_midX he hc with hmid | ⟨k1, hk1⟩
      · exact hmid
      · subst hk1
        rw [step_buildStart_inside P k1 htg] at hst; cases hst
    have hran := step_ranX hst hmid
    rcases List.mem_append.1 hk with e | e
    · obtain ⟨hd, hr⟩ := hj.up k e
      refine ⟨step_done_stays hst hmid k hd, ?_⟩
      rw [hran]
      intro hmem
      rcases List.mem_append.1 hmem with h1 | h1
      · -- `create k` needs `needsRun`
        cases ev <;> simp only [Event.cKey, Option.toList, List.mem_cons, List.not_mem_nil, or_false] at h1
        subst h1
        simp only [step] at hst
        split at hst
        · rename_i hcc
          simp only [Bool.and_eq_true, beq_iff_eq] at hcc
          rw [hd] at hcc; cases hcc.1
        · cases hst
      · exact hr h1
    · simp only [List.mem_cons, List.not_mem_nil, or_false] at e
      subst e
      simp only [Tok.toEvent?, Option.some.injEq] at he
      subst he
      have hst' := hst
      simp only [step] at hst'
      split at hst'
      · rename_i hcc
        simp only [Bool.and_eq_true, beq_iff_eq] at hcc
        have hsc : ms.m.status k = .scanning := hcc.1.1
        have hnr : k ∉ ms.m.ran := fun hr => by
          rcases hj.tok.ranSt k hr with e | e | e <;> (rw [hsc] at e; cases e)
        refine ⟨?_, ?_⟩
        · cases ms'; simp only [Option.some.injEq] at hst'; subst hst'; simp [upd]
        · rw [hran]; simpa [Event.cKey] using hnr
      · cases hst'
  · subst ht; subst he
    have hran := step_ranX hst rfl
    rcases List.mem_append.1 hk with e | e
    · obtain ⟨hd, hr⟩ := hj.up k e
      refine ⟨step_done_stays hst rfl k hd, ?_⟩
      rw [hran]; simpa [Event.cKey] using hr
    · simp at e

/-- **the monitor at a middle token, with all token bookkeeping** -/
theorem build_mid {rules : List RuleSpec} (hok : RulesOk rules) {s : State} {m : Engine.St}
    (hr : RelIdle rules s m) (h2 : Inv2 m) (key cancelAt : Nat) (sched : List SchedItem) (a : Async)
    (hsize : workBound rules s key + 2 < scanFuel) {pre post : List Tok} {t : Tok}
    (htr : (runBuildA key cancelAt sched a s).trace.reverse = pre ++ t :: post) (ht : Tok.isMidTok t = true) :
    ∃ msp msq, trun (program rules) ⟨m, none⟩ pre = some msp ∧ tstep (program rules) msp t = some msq ∧
      tokOkX msp.m t = true ∧ MidInv (program rules) (snapOf (program rules) m) key pre msp.m ∧ JInv pre msp.m ∧
      msp.m.env = s.env ∧ msp.m.pendingDropped = m.pendingDropped ∧ ∃ pre', pre = Tok.B key :: pre' :=
  build_at_mid hok hr h2 key cancelAt sched a hsize htr ht (J := JInv) (fun _ h => jinv_after_B h)
    (fun _ _ _ _ h hc htg hj => tstep_jinv h hc htg hj)

/-- the same at the END of the middle of a build (all of `B key :: rest`), for traces without `X`/`CY`/`ER` -/
theorem build_end_nofail {rules : List RuleSpec} (hok : RulesOk rules) {s : State} {m : Engine.St}
    (hr : RelIdle rules s m) (h2 : Inv2 m) (key cancelAt : Nat) (sched : List SchedItem) (a : Async)
    (hsize : workBound rules s key + 2 < scanFuel)
    (hnf : NoFail (runBuildA key cancelAt sched a s).trace.reverse) :
    ∃ (rest : List Tok) (v : Val) (n : Nat) (msA : MSt),
      (runBuildA key cancelAt sched a s).trace.reverse = (Tok.B key :: rest) ++ [Tok.DE, Tok.R v, Tok.Z n 0] ∧
      (∀ t ∈ rest, Tok.isClose t = false) ∧
      MidInv (program rules) (snapOf (program rules) m) key (.B key :: rest) msA.m ∧ JInv (.B key :: rest) msA.m ∧
      ∀ k ∈ msA.m.ran, msA.m.status k = .done := by
  have hloop := workLoopA_final rules hok
  have hnh := build_terminates_async hok hr key cancelAt sched a hsize
  obtain ⟨m', hrunX, _⟩ := runBuildA_simX hok hr key cancelAt sched a hnh
  obtain ⟨rest, v, n, htr, hnc, hnfr⟩ := runBuildA_trace_nofail hloop hr key cancelAt sched a hnh hnf
  rw [htr] at hrunX
  obtain ⟨msA, hA, hclose⟩ := trunX_prefix hrunX
  have hA' := hA
  simp only [trunX] at hA'
  cases hB : tstepX (program rules) ⟨m, none⟩ (.B key) with
  | none => rw [hB] at hA'; simp at hA'
  | some ms1 =>
    rw [hB] at hA'; simp only [Option.bind_some] at hA'
    obtain ⟨x1, i1, _⟩ := tstepX_B_xinv hB h2
    have hBt := (tstepX_tstep hB).1
    have hidle : ∀ k, ms1.m.status k = .idle := by
      have hst := tstep_ev_inv hBt (e := .buildStart key) rfl
      simp only [step] at hst
      split at hst
      · cases ms1; simp only [Option.some.injEq] at hst; subst hst; intro k; rfl
      · cases hst
    have hm1 : MidInv (program rules) (snapOf (program rules) m) key [Tok.B key] ms1.m :=
      ⟨x1, i1, (fun k hk => by rw [hidle k] at hk; cases hk), (fun d hd => by rw [hidle d] at hd; cases hd),
        seen_after_B hBt⟩
    have hmid := trunX_midInv rest ms1 msA [Tok.B key] hA' hnc hm1
    have ht1 : ms1.m.target.isSome = true := by rw [(tstep_B hBt).2.1]; rfl
    -- `JInv` along `rest`
    have hJ' : ∀ (toks : List Tok) (ms ms' : MSt) (acc : List Tok), trun (program rules) ms toks = some ms' →
        (∀ t ∈ toks, Tok.isClose t = false) → ms.m.target.isSome = true → JInv acc ms.m → JInv (acc ++ toks) ms'.m := by
      intro toks
      induction toks with
      | nil =>
        intro ms ms' acc h _ _ hj
        simp only [trun, Option.some.injEq] at h; subst h; simpa using hj
      | cons t ts ih =>
        intro ms ms' acc h hc htg hj
        simp only [trun] at h
        cases hs : tstep (program rules) ms t with
        | none => rw [hs] at h; simp at h
        | some ms1 =>
          rw [hs] at h; simp only [Option.bind_some] at h
          have hct := hc t List.mem_cons_self
          have := ih ms1 ms' (acc ++ [t]) h (fun t' ht' => hc t' (List.mem_cons_of_mem _ ht'))
            (tstep_target_isSome hs (Or.inl hct) htg) (tstep_jinv hs hct htg hj)
          simpa [List.append_assoc] using this
    have hj := hJ' rest ms1 msA [Tok.B key] (trunX_trun _ _ _ hA') hnc ht1 (jinv_after_B hBt)
    -- nothing in flight at the end
    have hfA := (trun_B_mid (trunX_trun _ _ _ hA) hnc).2.2.2 hnfr
    obtain ⟨msB, msC, hDE, hret, hfB, _, _, _, _⟩ := trun_close_noFlags (trunX_trun _ _ _ hclose) hfA
    have hDE' : tstep (program rules) msA .DE = some msB := by
      simp only [trun] at hDE
      cases hts : tstep (program rules) msA .DE with
      | none => rw [hts] at hDE; simp at hDE
      | some x => rw [hts] at hDE; simpa using hDE
    have hstDE := tstep_ev_inv hDE' (e := .dbEnd) rfl
    have hsame : msB.m.status = msA.m.status ∧ msB.m.ran = msA.m.ran := by
      simp only [step] at hstDE
      split at hstDE
      · cases msB; simp only [Option.some.injEq] at hstDE; subst hstDE; exact ⟨rfl, rfl⟩
      · cases hstDE
    obtain ⟨_, _, _, _, hquiet⟩ := step_ret_dry hret hfB
    refine ⟨rest, v, n, msA, htr, hnc, by simpa using hmid, by simpa using hj, ?_⟩
    intro k hk
    have hq := hquiet k (by rw [hsame.2]; exact hk)
    rcases ((by simpa using hmid : MidInv _ _ _ _ msA.m).x.key k).ranSt hk with e | e | e
    · simp [inflight, hsame.1, e] at hq
    · simp [inflight, hsame.1, e] at hq
    · exact e

end LLBuild.Refine
