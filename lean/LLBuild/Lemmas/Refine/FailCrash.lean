/-
IM7-G — the `F` op: A BUILD KILLED WHILE THE FAILURE IS ARMED (notes/REFINE.md §11, §10).
`crashedBuildF_refines`: for an idle, unflagged, committed `s` related to `m`, the build from `withFail true s` killed after
`cut + 1` tokens (before its commit): the events of the cut trace under the failed-write reading (`evOfToksF`) followed by
`crash` are accepted, and the monitor is then related to `opRestart s` and committed.  (The engine state afterwards is
`opRestart (withFail true s) = withFail true (opRestart s)`: the flag survives in the model.)

Proof.  The whole flagged trace has one of the two shapes of `FailRun` and is `trunF`-accepted.  The cut prefix `p` of
`full = p ++ q` is `trunF`-accepted by `trunF_prefix` at every `splitOk` cut.  At the three other cuts — `… DS ‖ ER 6 …`,
`… DS ‖ X ; ER 6 …`, `… DS ; X ‖ ER 6 …` — the look-ahead of `evOfToksF` on the CUT trace sees no `ER 6` and reads a completed
write; the `DS` of such a cut is THE failing write (`uniqueDS`: it is the only `DS` of the trace), and the prefix through it
is accepted by the plain monitor (last two conjuncts of `FailRun`), on which prefix `trunF` is `trun` (`trunF_window_ok`).
Then `trunF_B_target` (the `trunF` version of `Crash1.trun_B_target`) and `crash_core` (= `Crash1.crash_relIdle` from the frame
facts).
-/
import LLBuild.Lemmas.Refine.FailBuild

namespace LLBuild.Refine
open LLBuild.Engine LLBuild.Engine.DSL LLBuild.EngineImpl

/-! ## 1. list facts -/

theorem endsDS_true : ∀ {p : List Tok}, endsDS p = true → ∃ a d, p = a ++ [d] ∧ Tok.isDS d = true
  | [], h => by cases h
  | [t], h => ⟨[], t, rfl, h⟩
  | t :: t' :: ts, h => by
    rw [endsDS_cons_cons] at h
    obtain ⟨a, d, e, hd⟩ := endsDS_true h
    exact ⟨t :: a, d, by rw [e]; rfl, hd⟩

theorem endsDSX_true : ∀ {p : List Tok}, endsDSX p = true → ∃ a d, p = a ++ [d, .X] ∧ Tok.isDS d = true
  | [], h => by cases h
  | [_], h => by cases h
  | [t, t'], h => by
    simp only [endsDSX_pair, Bool.and_eq_true] at h
    have := isXb_eq h.2; subst this
    exact ⟨[], t, rfl, h.1⟩
  | t :: t' :: t'' :: ts, h => by
    rw [endsDSX_cons_cons_cons] at h
    obtain ⟨a, d, e, hd⟩ := endsDSX_true h
    exact ⟨t :: a, d, by rw [e]; rfl, hd⟩

/-- a list with exactly one `DS` splits around it in one way only -/
theorem uniqueDS : ∀ {A B a' b' : List Tok} {d d' : Tok}, (∀ t ∈ A, Tok.isDS t = false) → (∀ t ∈ B, Tok.isDS t = false) →
    Tok.isDS d' = true → a' ++ d' :: b' = A ++ d :: B → a' = A ∧ d' = d ∧ b' = B
  | [], B, [], b', d, d', _, _, _, e => by
    simp only [List.nil_append, List.cons.injEq] at e
    exact ⟨rfl, e.1, e.2⟩
  | [], B, x :: a'', b', d, d', _, hB, hd', e => by
    simp only [List.nil_append, List.cons_append, List.cons.injEq] at e
    have : d' ∈ B := by rw [← e.2]; simp
    rw [hB d' this] at hd'; cases hd'
  | y :: A', B, [], b', d, d', hA, _, hd', e => by
    simp only [List.nil_append, List.cons_append, List.cons.injEq] at e
    rw [e.1, hA y List.mem_cons_self] at hd'; cases hd'
  | y :: A', B, x :: a'', b', d, d', hA, hB, hd', e => by
    simp only [List.cons_append, List.cons.injEq] at e
    obtain ⟨h1, h2, h3⟩ := uniqueDS (fun t ht => hA t (List.mem_cons_of_mem _ ht)) hB hd' e.2
    exact ⟨by rw [e.1, h1], h2, h3⟩

/-- outside a window, without `S _ 2`, an accepted token run contains no `DS` -/
theorem trun_noS2_noDS {P : Program} : ∀ (toks : List Tok) (m : Engine.St) (ms' : MSt), S2Free toks →
    trun P ⟨m, none⟩ toks = some ms' → ∀ t ∈ toks, Tok.isDS t = false
  | [], _, _, _, _ => fun _ h => by cases h
  | t :: ts, m, ms', hS, h => by
    simp only [trun] at h
    cases hts : tstep P ⟨m, none⟩ t with
    | none => rw [hts] at h; simp at h
    | some ms1 =>
      rw [hts] at h; simp only [Option.bind_some] at h
      have hp := tstep_noS2_pend (hS t List.mem_cons_self) hts
      obtain ⟨m1, p1⟩ := ms1
      simp only at hp; subst hp
      have ih := trun_noS2_noDS ts m1 ms' (fun t ht => hS t (List.mem_cons_of_mem _ ht)) h
      intro u hu
      rcases List.mem_cons.1 hu with e | e
      · subst e
        cases hd : Tok.isDS u with
        | false => rfl
        | true =>
          cases u <;> simp [Tok.isDS] at hd
          simp [tstep, Tok.isS2, Tok.toEvent?] at hts
      · exact ih u e

/-- on `regs ; DS k row ; [X]` (nothing after it) the failed-write clause does not fire: `trunF` is `trun` -/
theorem trunF_regs_DS (P : Program) (k : Key) (row : Res) {xs : List Tok} (hx : xs = [] ∨ xs = [.X]) :
    ∀ (regs : List Tok) (ms : MSt), (∀ t ∈ regs, Tok.isDS t = false) →
      trunF P ms (regs ++ .DS k row :: xs) = trun P ms (regs ++ .DS k row :: xs)
  | [], ms, _ => by
    have hn : nextIsER6 xs = false := by rcases hx with rfl | rfl <;> rfl
    rw [List.nil_append, trunF_cons_ok P ms _ hn]
    simp only [trun]
    cases tstep P ms (.DS k row) with
    | none => rfl
    | some ms1 =>
      simp only [Option.bind_some]
      rcases hx with rfl | rfl
      · simp [trun]
      · rw [trunF_cons_ok P ms1 _ (ts := []) rfl]
        simp only [trun]
        cases tstep P ms1 .X with
        | none => rfl
        | some ms2 => simp
  | t :: ts, ms, hR => by
    rw [List.cons_append, trunF_cons_notDS P ms _ (hR t List.mem_cons_self)]
    simp only [trun]
    cases tstep P ms t with
    | none => rfl
    | some ms1 =>
      simp only [Option.bind_some]
      exact trunF_regs_DS P k row hx ts ms1 (fun t ht => hR t (List.mem_cons_of_mem _ ht))

/-- the prefix through the failing write: `trunF` is `trun` -/
theorem trunF_window_ok (P : Program) (k : Key) (row : Res) {pre regs xs : List Tok} (m : Engine.St)
    (hpre : S2Free pre) (hR : ∀ t ∈ regs, Tok.isReg t = true) (hx : xs = [] ∨ xs = [.X]) :
    trunF P ⟨m, none⟩ (pre ++ .S k 2 :: (regs ++ .DS k row :: xs)) =
      trun P ⟨m, none⟩ (pre ++ .S k 2 :: (regs ++ .DS k row :: xs)) := by
  rw [trunF_noS2 P pre _ m hpre, trun_append]
  cases trun P ⟨m, none⟩ pre with
  | none => rfl
  | some ms1 =>
    simp only [Option.bind_some]
    rw [trunF_cons_notDS P ms1 _ (t := .S k 2) rfl]
    simp only [trun]
    cases tstep P ms1 (.S k 2) with
    | none => rfl
    | some ms2 =>
      simp only [Option.bind_some]
      exact trunF_regs_DS P k row hx regs ms2 (fun t ht => isDS_of_isReg (hR t ht))

/-! ## 2. the frame facts along a `trunF` run -/

/-- **(1a) for `trunF`** -/
theorem trunF_inner {P : Program} : ∀ (p : List Tok) (ms msp : MSt), trunF P ms p = some msp →
    (∀ t ∈ p, Tok.isDE t = false ∧ Tok.isZ t = false) → InnerFrame ms.m msp.m
  | [], ms, msp, h, _ => by
    simp only [trunF_nil, Option.some.injEq] at h; subst h; exact InnerFrame.refl _
  | t :: ts, ms, msp, h, hp => by
    rw [trunF_cons] at h
    cases hts : tstepF P ms t (nextIsER6 ts) with
    | none => rw [hts] at h; simp at h
    | some ms1 =>
      rw [hts] at h; simp only [Option.bind_some] at h
      have ih := trunF_inner ts ms1 msp h (fun t' ht' => hp t' (List.mem_cons_of_mem _ ht'))
      have ht := hp t List.mem_cons_self
      rcases tstepF_cases hts with ⟨k, row, _, _, _, hm⟩ | ⟨hstep, _⟩
      · subst hm; exact ih
      · exact (tstep_inner hstep ht.1 ht.2).trans ih

/-- **(1b) for `trunF`** -/
theorem trunF_B_target {P : Program} {m : Engine.St} {key : Key} {rest : List Tok} {msp : MSt}
    (h : trunF P ⟨m, none⟩ (.B key :: rest) = some msp)
    (hp : ∀ t ∈ Tok.B key :: rest, Tok.isDE t = false ∧ Tok.isZ t = false) :
    InnerFrame m msp.m ∧ msp.m.target.isSome = true := by
  have hf := trunF_inner _ _ _ h hp
  refine ⟨hf, ?_⟩
  rw [trunF_cons_none] at h
  cases hts : tstep P ⟨m, none⟩ (.B key) with
  | none => rw [hts] at h; simp at h
  | some ms1 =>
    rw [hts] at h; simp only [Option.bind_some] at h
    have h1 : ms1.m.target.isSome = true := by
      rw [tstep_none_notS (by rfl)] at hts
      simp only [Tok.toEvent?, Option.bind_some] at hts
      cases hst : step P m (.buildStart key) with
      | none => rw [hst] at hts; simp at hts
      | some m1 =>
        rw [hst] at hts; simp only [Option.map_some, Option.some.injEq] at hts; subst hts
        exact step_buildStart_target hst
    exact (trunF_inner rest ms1 msp h (fun t ht => hp t (List.mem_cons_of_mem _ ht))).2.2.2 h1

/-- the crash step from the frame facts (the proof of `Crash1.crash_relIdle`) -/
theorem crash_core {rules : List RuleSpec} {s : State} {m mp : Engine.St} (hr : RelIdle rules s m) (hc : Committed m)
    (hf : InnerFrame m mp) (htgt : mp.target.isSome = true) :
    ∃ mc, step (program rules) mp .crash = some mc ∧ RelIdle rules (opRestart s) mc ∧ Committed mc := by
  obtain ⟨hcdb, hcit, henv, _⟩ := hf
  refine ⟨crashSt mp, step_crash _ _ htgt, ?_, Committed.crashSt _⟩
  have hit : mp.cdbIter = s.store.iteration := by rw [hcit, hc.1]; exact hr.dbIter
  have hdb : ∀ k, mp.cdb.res k = (s.store.rows.lookup k).getD {} := by
    intro k; rw [hcdb, hc.2 k]; exact hr.db k
  refine { rules_eq := hr.rules_eq, env := henv.trans hr.env, hasDB := rfl, noResolve := hr.noResolve, noFail := hr.noFail,
           epoch := hit, reg := ?_, keyOk := ?_, rulesNodup := List.nodup_nil, sig := ?_, res := ?_,
           resUnreg := fun _ _ => rfl, db := hdb,
           dbBuilt := hr.dbBuilt, dbBuiltLe := (fun k row h => by
             show row.builtAt ≤ s.store.iteration
             rw [hr.iterEq]; exact hr.dbBuiltLe k row h),
           dbIter := hit, builtLe := ?_,
           target := rfl, allIdle := fun _ => rfl, iterEq := rfl, states := ?_, noTasks := rfl, noScanQ := rfl, noInputQ := rfl,
           noFinQ := rfl, noReady := rfl, noFinTasks := rfl, noOutstanding := rfl, noScanning := rfl,
           noDeferred := hr.noDeferred, notActive := hr.notActive }
  all_goals intros
  all_goals simp_all [opRestart, newEngine, crashSt]

/-! ## 3. the cut trace of a flagged build -/

/-- `cutToks_spec` (Final4.lean) from the shape of the trace alone -/
theorem cutToks_of_shape {key cancelAt : Nat} {sched : List SchedItem} {a : Async} (cut : Nat) {s : State}
    {rest tail : List Tok}
    (h : (runBuildA key cancelAt sched a s).trace.reverse = (.B key :: rest) ++ .DE :: tail)
    (hnc : ∀ t ∈ Tok.B key :: rest, Tok.isClose t = false) :
    ∃ rest' q, cutToks key cancelAt sched a cut s = .B key :: rest' ∧
      (runBuildA key cancelAt sched a s).trace.reverse = (.B key :: rest') ++ q ∧
      ∀ t ∈ Tok.B key :: rest', Tok.isDE t = false ∧ Tok.isZ t = false := by
  have htw : ((runBuildA key cancelAt sched a s).trace.reverse).takeWhile (fun t => !Tok.isDE t) = .B key :: rest := by
    rw [h]
    apply takeWhile_append_stop
    · intro t ht; simp [(isClose_false (hnc t ht)).1]
    · rfl
  refine ⟨rest.take cut, rest.drop cut ++ .DE :: tail, ?_, ?_, ?_⟩
  · unfold cutToks; rw [htw]; rfl
  · rw [h]
    simp only [List.cons_append, List.cons.injEq, true_and]
    rw [← List.append_assoc, List.take_append_drop]
  · intro t ht
    apply isClose_false
    apply hnc
    rcases List.mem_cons.1 ht with e | e
    · exact e ▸ List.mem_cons_self
    · exact List.mem_cons_of_mem _ (List.mem_of_mem_take e)

/-- **every prefix of the trace of a flagged run is accepted by `trunF`** (also at the three cuts where `trunF` does not
split: there the cut trace reads the failing write as completed, and that reading is accepted too) -/
theorem failRun_prefix_trunF {P : Program} {m : Engine.St} {toks : List Tok} {m' : Engine.St} {f : Bool}
    (h : FailRun P ⟨m, none⟩ toks m' f) {p q : List Tok} (e : toks = p ++ q) :
    ∃ msp, trunF P ⟨m, none⟩ p = some msp := by
  have hT := h.trunF
  rw [e] at hT
  by_cases hsp : splitOk p q
  · obtain ⟨msp, h1, _⟩ := trunF_prefix hT hsp
    exact ⟨msp, h1⟩
  · -- a bad cut: `p` ends with a `DS` (or `DS ; X`)
    have hbad : (endsDS p = true ∧ nextIsER6 q = true) ∨ (endsDSX p = true ∧ headIsER6 q = true) := by
      unfold splitOk at hsp
      cases h1 : endsDS p <;> cases h2 : nextIsER6 q <;> cases h3 : endsDSX p <;> cases h4 : headIsER6 q <;>
        simp_all
    cases f with
    | false =>
      -- no `DS` at all in the trace
      have hnd := trun_noS2_noDS toks m _ h.1 h.2
      rcases hbad with ⟨h1, _⟩ | ⟨h1, _⟩
      · obtain ⟨a', d, ep, hd⟩ := endsDS_true h1
        have : d ∈ toks := by rw [e, ep]; simp
        rw [hnd d this] at hd; cases hd
      · obtain ⟨a', d, ep, hd⟩ := endsDSX_true h1
        have : d ∈ toks := by rw [e, ep]; simp
        rw [hnd d this] at hd; cases hd
    | true =>
      obtain ⟨pre, k, row, regs, xs, post, m0, m1, et, h1, h2, h3, h4, h5, h6, h7, ⟨ms2, h8⟩, ⟨ms3, h9⟩⟩ := h
      -- the only `DS` of the trace is the failing write
      have hA : ∀ t ∈ pre ++ .S k 2 :: regs, Tok.isDS t = false := by
        intro t ht
        rcases List.mem_append.1 ht with ht | ht
        · exact trun_noS2_noDS pre m _ h1 h2 t ht
        · rcases List.mem_cons.1 ht with ht | ht
          · subst ht; rfl
          · exact isDS_of_isReg (h3 t ht)
      have hB : ∀ t ∈ xs ++ .ER 6 :: post, Tok.isDS t = false :=
        trun_noS2_noDS _ m1 _ (noS2_xs_ER6 h4 h6) h7
      have etA : toks = (pre ++ .S k 2 :: regs) ++ .DS k row :: (xs ++ .ER 6 :: post) := by
        rw [et]; simp only [List.append_assoc, List.cons_append]
      rcases hbad with ⟨hd1, hq⟩ | ⟨hd1, hq⟩
      · obtain ⟨a', d, ep, hd⟩ := endsDS_true hd1
        have e2 : a' ++ d :: q = (pre ++ .S k 2 :: regs) ++ .DS k row :: (xs ++ .ER 6 :: post) := by
          rw [← etA, e, ep]; simp
        obtain ⟨ea, ed, _⟩ := uniqueDS hA hB hd e2
        have ep' : p = pre ++ .S k 2 :: (regs ++ .DS k row :: []) := by
          rw [ep, ea, ed]; simp only [List.append_assoc, List.cons_append]
        refine ⟨ms2, ?_⟩
        rw [ep', trunF_window_ok P k row m h1 h3 (Or.inl rfl)]
        exact trun_append_some h2 h8
      · obtain ⟨a', d, ep, hd⟩ := endsDSX_true hd1
        have e2 : a' ++ d :: (.X :: q) = (pre ++ .S k 2 :: regs) ++ .DS k row :: (xs ++ .ER 6 :: post) := by
          rw [← etA, e, ep]; simp
        obtain ⟨ea, ed, eq⟩ := uniqueDS hA hB hd e2
        have hxs : xs = [.X] := by
          rcases h4 with rfl | rfl
          · simp only [List.nil_append, List.cons.injEq] at eq
            cases eq.1
          · rfl
        have ep' : p = pre ++ .S k 2 :: (regs ++ .DS k row :: xs) := by
          rw [ep, ea, ed, hxs]; simp only [List.append_assoc, List.cons_append]
        refine ⟨ms3, ?_⟩
        rw [ep', trunF_window_ok P k row m h1 h3 h4]
        exact trun_append_some h2 h9

/-! ## 4. the killed, flagged build -/

/-- **G: a build killed while the failure is armed is accepted.**  From related, committed states (`s` without the flag),
under the size condition, for every asynchronous schedule and every cut point before the commit: the events of the cut
trace of the build from `withFail true s`, read with the failed-write clause, followed by `crash`, are accepted by the
monitor, which is then related to the new engine on the unchanged store and committed. -/
theorem crashedBuildF_refines {rules : List RuleSpec} (hok : RulesOk rules) {s : State} {m : Engine.St}
    (hr : RelIdle rules s m) (hc : Committed m) (key cancelAt : Nat) (sched : List SchedItem) (a : Async) (cut : Nat)
    (hsize : workBound rules s key + 2 < scanFuel) :
    ∃ evs mc, evOfToksF none (cutToks key cancelAt sched a cut (withFail true s)) = some evs ∧
      run (program rules) m (evs ++ [.crash]) = some mc ∧ RelIdle rules (opRestart s) mc ∧ Committed mc := by
  have hnh := build_terminates_fail hok hr key cancelAt sched a hsize
  obtain ⟨m', failed, hf, -, -, -⟩ := runBuildF_sim hok hr key cancelAt sched a hnh
  obtain ⟨rest, v, n, x, hshape, _, hnc⟩ := runBuildF_trace_shape hok hr key cancelAt sched a hnh
  obtain ⟨rest', q, hcut, hfull, hp⟩ := cutToks_of_shape cut hshape hnc
  obtain ⟨msp, hpre⟩ := failRun_prefix_trunF (f := failed) hf hfull
  obtain ⟨hfr, htgt⟩ := trunF_B_target hpre hp
  obtain ⟨mc, hstep, hrel, hcm⟩ := crash_core hr hc hfr htgt
  obtain ⟨evs, hev, hrunE⟩ := trunF_evOfToksF _ _ _ hpre
  refine ⟨evs, mc, by rw [hcut]; exact hev, ?_, hrel, hcm⟩
  rw [run_append, hrunE]
  simp [run, hstep]

/-- the engine state after the killed, flagged build: a new engine on the unchanged store, the flag still set -/
theorem crashedBuildF_state (key cancelAt : Nat) (sched : List SchedItem) (a : Async) (cut : Nat) (s : State) :
    runOpC (.crashedBuild key cancelAt sched a cut) (withFail true s) = withFail true (opRestart s) := rfl

/-
#print axioms failRun_prefix_trunF     -- [propext, Classical.choice, Quot.sound]
#print axioms crashedBuildF_refines    -- [propext, Classical.choice, Quot.sound]
-/
end LLBuild.Refine
