/-
IM7 — the token monitor with the failed-write clause (`trunF` / `evOfToksF`, Fail0.lean): LIST-LEVEL FACTS.
Nothing here mentions the engine model: only lists of tokens.

A failed write is `DS k row ; [X] ; ER 6` (`nextIsER6`, a look-ahead of TWO tokens: the `X` of a cancellation that fired at
the `DS` token itself may stand in between).

* `tstepF` / `trunF_cons`: one token of `trunF` depends on the rest of the trace only through `nextIsER6`;
* `splitOk a b`, `trunF_append` (T0): `trunF` splits at every point `a ‖ b` except the three cuts that change the reading
  of a `DS`: `… DS ‖ ER 6 …`, `… DS ‖ X ; ER 6 …`, `… DS ; X ‖ ER 6 …`;
* `trunF_noS2` (T1): on a prefix without `S _ 2`, read from outside a window, `trunF` is `trun`;
* `trun_regs_phase`, `trunF_failed_window` (T2): the failed window `S k 2 ; regs ; DS k row ; [X] ; ER 6` steps the
  monitor by `regs` only and leaves the window;  `trunF_failed_window_some`, `trunF_failed_build` (T2'); the primed
  forms are the same with the trace written with left-nested `++`;
* `trunF_evOfToksF` (T3): an accepted `trunF` run is an accepted event run of `evOfToksF`;
* `trunF_prefix` (T4): prefix closure at every `splitOk` cut; at the three other cuts the prefix WITHOUT the `DS` is
  accepted (`trunF_prefix_dropDS`, `trunF_prefix_dropDSX`);
* `evOfToksF_noMutate` (T5);
* `evOfToksF_noER6`, `trunF_noER6` (T6): without `ER 6` the `F` readings are the plain ones.
Core Lean only.
-/
import LLBuild.Lemmas.Refine.Fail0

namespace LLBuild.Refine
open LLBuild.Engine LLBuild.Engine.DSL LLBuild.EngineImpl

/-! ## one token of `trunF` -/

/-- `DS _ _` as a Boolean -/
def Tok.isDS : Tok → Bool
  | .DS _ _ => true
  | _ => false

/-- the last token is a `DS` -/
def endsDS : List Tok → Bool
  | [] => false
  | [t] => Tok.isDS t
  | _ :: t :: ts => endsDS (t :: ts)

@[simp] theorem endsDS_nil : endsDS [] = false := rfl
@[simp] theorem endsDS_single (t : Tok) : endsDS [t] = Tok.isDS t := rfl
@[simp] theorem endsDS_cons_cons (t t' : Tok) (ts : List Tok) : endsDS (t :: t' :: ts) = endsDS (t' :: ts) := rfl

theorem endsDS_append_single : ∀ (a : List Tok) (t : Tok), endsDS (a ++ [t]) = Tok.isDS t
  | [], _ => rfl
  | [_], _ => rfl
  | _ :: t' :: a, t => by
    simp only [List.cons_append, endsDS_cons_cons]
    exact endsDS_append_single (t' :: a) t

/-- `X` as a Boolean -/
def Tok.isXb : Tok → Bool
  | .X => true
  | _ => false

theorem isXb_eq {t : Tok} (h : Tok.isXb t = true) : t = .X := by
  cases t <;> simp [Tok.isXb] at h
  rfl

/-- the last two tokens are `DS _ _ ; X` -/
def endsDSX : List Tok → Bool
  | [] => false
  | [_] => false
  | [t, t'] => Tok.isDS t && Tok.isXb t'
  | _ :: t :: t' :: ts => endsDSX (t :: t' :: ts)

@[simp] theorem endsDSX_nil : endsDSX [] = false := rfl
@[simp] theorem endsDSX_single (t : Tok) : endsDSX [t] = false := rfl
@[simp] theorem endsDSX_pair (t t' : Tok) : endsDSX [t, t'] = (Tok.isDS t && Tok.isXb t') := rfl
@[simp] theorem endsDSX_cons_cons_cons (t t' t'' : Tok) (ts : List Tok) :
    endsDSX (t :: t' :: t'' :: ts) = endsDSX (t' :: t'' :: ts) := rfl

theorem endsDSX_append_pair : ∀ (a : List Tok) (t t' : Tok), endsDSX (a ++ [t, t']) = (Tok.isDS t && Tok.isXb t')
  | [], _, _ => rfl
  | [_], _, _ => rfl
  | _ :: u :: a, t, t' => by
    have := endsDSX_append_pair (u :: a) t t'
    cases a with
    | nil => exact this
    | cons v a => exact this

/-- the first token is `ER 6` (look-ahead of ONE token) -/
def headIsER6 : List Tok → Bool
  | t :: _ => Tok.isER6 t
  | [] => false

/-! ### the look-ahead `nextIsER6` -/

theorem nextIsER6_X_cons (b : List Tok) : nextIsER6 (.X :: b) = headIsER6 b := by
  cases b <;> rfl

theorem nextIsER6_cons_notX {t : Tok} (b : List Tok) (h : Tok.isXb t = false) : nextIsER6 (t :: b) = Tok.isER6 t := by
  cases t <;> first | rfl | (simp [Tok.isXb] at h)

theorem nextIsER6_cons_cons_append (t t' : Tok) (a b : List Tok) :
    nextIsER6 (t :: t' :: (a ++ b)) = nextIsER6 (t :: t' :: a) := by
  cases t <;> rfl

theorem headIsER6_of_next {b : List Tok} (h : nextIsER6 b = false) : headIsER6 b = false := by
  cases b with
  | nil => rfl
  | cons t b' => cases t <;> first | rfl | exact h

theorem nextIsER6_mem {ts : List Tok} (h : nextIsER6 ts = true) : ∃ t ∈ ts, Tok.isER6 t = true := by
  unfold nextIsER6 at h
  split at h
  · exact ⟨_, List.mem_cons_of_mem _ List.mem_cons_self, h⟩
  · exact ⟨_, List.mem_cons_self, h⟩
  · cases h

/-- `nextIsER6 b` holds exactly for `b = ER 6 :: _` and `b = X :: ER 6 :: _` -/
theorem nextIsER6_iff (b : List Tok) :
    nextIsER6 b = true ↔ (∃ r, b = .ER 6 :: r) ∨ (∃ r, b = .X :: .ER 6 :: r) := by
  constructor
  · intro h
    cases b with
    | nil => cases h
    | cons t b' =>
      cases hx : Tok.isXb t with
      | false =>
        rw [nextIsER6_cons_notX b' hx] at h
        cases t <;> simp [Tok.isER6] at h
        subst h; exact Or.inl ⟨b', rfl⟩
      | true =>
        have := isXb_eq hx; subst this
        rw [nextIsER6_X_cons] at h
        cases b' with
        | nil => cases h
        | cons u r =>
          simp only [headIsER6] at h
          cases u <;> simp [Tok.isER6] at h
          subst h; exact Or.inr ⟨r, rfl⟩
  · rintro (⟨r, rfl⟩ | ⟨r, rfl⟩) <;> rfl

/-- a cut `a ‖ b` that does not change the reading of a `DS` at the end of `a`: NOT `… DS ‖ ER 6 …`, NOT
`… DS ‖ X ; ER 6 …` (first conjunct, `nextIsER6_iff`), NOT `… DS ; X ‖ ER 6 …` (second conjunct) -/
def splitOk (a b : List Tok) : Prop :=
  (endsDS a = false ∨ nextIsER6 b = false) ∧ (endsDSX a = false ∨ headIsER6 b = false)

theorem splitOk_of_next (a : List Tok) {b : List Tok} (h : nextIsER6 b = false) : splitOk a b :=
  ⟨Or.inr h, Or.inr (headIsER6_of_next h)⟩

theorem splitOk_nil_right (a : List Tok) : splitOk a [] := splitOk_of_next a rfl

theorem splitOk_nil_left (b : List Tok) : splitOk [] b := ⟨Or.inl rfl, Or.inl rfl⟩

theorem splitOk_of_ends {a : List Tok} (b : List Tok) (h1 : endsDS a = false) (h2 : endsDSX a = false) :
    splitOk a b := ⟨Or.inl h1, Or.inl h2⟩

theorem splitOk_of_noER6 (a : List Tok) {b : List Tok} (h : ∀ t ∈ b, Tok.isER6 t = false) : splitOk a b := by
  apply splitOk_of_next
  cases hn : nextIsER6 b with
  | false => rfl
  | true =>
    obtain ⟨t, ht, he⟩ := nextIsER6_mem hn
    rw [h t ht] at he; cases he

/-- one token of `trunF`; `nx` = "`ER 6` comes next (at most an `X` in between)" -/
def tstepF (P : Program) (ms : MSt) (t : Tok) (nx : Bool) : Option MSt :=
  match ms.pend, t with
  | some k, .DS k' _ => if k = k' ∧ nx = true then some { ms with pend := none } else tstep P ms t
  | _, _ => tstep P ms t

@[simp] theorem trunF_nil (P : Program) (ms : MSt) : trunF P ms [] = some ms := by
  rw [trunF]

/-- **`trunF` is a fold with one token of look-ahead** -/
theorem trunF_cons (P : Program) (ms : MSt) (t : Tok) (ts : List Tok) :
    trunF P ms (t :: ts) = (tstepF P ms t (nextIsER6 ts)).bind (fun ms' => trunF P ms' ts) := by
  obtain ⟨m, pend⟩ := ms
  cases pend <;> cases t <;> simp only [trunF, tstepF] <;> try (first | rfl | (split <;> rfl))

theorem tstepF_false (P : Program) (ms : MSt) (t : Tok) : tstepF P ms t false = tstep P ms t := by
  unfold tstepF
  split
  · simp
  · rfl

theorem tstepF_notDS (P : Program) (ms : MSt) {t : Tok} (nx : Bool) (h : Tok.isDS t = false) :
    tstepF P ms t nx = tstep P ms t := by
  unfold tstepF
  split
  · simp [Tok.isDS] at h
  · rfl

theorem tstepF_none (P : Program) (m : Engine.St) (t : Tok) (nx : Bool) :
    tstepF P ⟨m, none⟩ t nx = tstep P ⟨m, none⟩ t := by
  unfold tstepF
  split
  · rename_i h; simp at h
  · rfl

theorem tstepF_fail (P : Program) (m : Engine.St) (k : Key) (row : Res) :
    tstepF P ⟨m, some k⟩ (.DS k row) true = some ⟨m, none⟩ := by
  simp [tstepF]

theorem trunF_cons_none (P : Program) (m : Engine.St) (t : Tok) (ts : List Tok) :
    trunF P ⟨m, none⟩ (t :: ts) = (tstep P ⟨m, none⟩ t).bind (fun ms' => trunF P ms' ts) := by
  rw [trunF_cons, tstepF_none]

theorem trunF_cons_notDS (P : Program) (ms : MSt) {t : Tok} (ts : List Tok) (h : Tok.isDS t = false) :
    trunF P ms (t :: ts) = (tstep P ms t).bind (fun ms' => trunF P ms' ts) := by
  rw [trunF_cons, tstepF_notDS P ms _ h]

theorem trunF_cons_ok (P : Program) (ms : MSt) (t : Tok) {ts : List Tok} (h : nextIsER6 ts = false) :
    trunF P ms (t :: ts) = (tstep P ms t).bind (fun ms' => trunF P ms' ts) := by
  rw [trunF_cons, h, tstepF_false]

/-- the failed write: no `finished` event, the window is left -/
theorem trunF_cons_fail (P : Program) (m : Engine.St) (k : Key) (row : Res) {ts : List Tok}
    (h : nextIsER6 ts = true) : trunF P ⟨m, some k⟩ (.DS k row :: ts) = trunF P ⟨m, none⟩ ts := by
  rw [trunF_cons, h, tstepF_fail]; rfl

theorem nextIsER6_xs {xs : List Tok} (hx : xs = [] ∨ xs = [.X]) (post : List Tok) :
    nextIsER6 (xs ++ .ER 6 :: post) = true := by
  rcases hx with rfl | rfl <;> rfl

theorem trunF_DS_ER6 (P : Program) (m : Engine.St) (k : Key) (row : Res) {xs : List Tok}
    (hx : xs = [] ∨ xs = [.X]) (post : List Tok) :
    trunF P ⟨m, some k⟩ (.DS k row :: (xs ++ .ER 6 :: post)) = trunF P ⟨m, none⟩ (xs ++ .ER 6 :: post) :=
  trunF_cons_fail P m k row (nextIsER6_xs hx post)

/-- the optional `X` of a cancellation that fired at the `DS` token -/
def xt (c : Bool) : List Tok := if c then [.X] else []

theorem xt_cases (c : Bool) : xt c = [] ∨ xt c = [.X] := by
  cases c
  · exact Or.inl rfl
  · exact Or.inr rfl

/-! ## T0: append -/

/-- **`trunF` splits at every `splitOk` cut** -/
theorem trunF_append (P : Program) : ∀ (a b : List Tok) (ms : MSt), splitOk a b →
    trunF P ms (a ++ b) = (trunF P ms a).bind (fun ms' => trunF P ms' b)
  | [], b, ms, _ => by simp
  | [t], b, ms, h => by
    have e : tstepF P ms t (nextIsER6 b) = tstepF P ms t false := by
      rcases h.1 with h | h
      · rw [tstepF_notDS P ms _ (by simpa using h), tstepF_notDS P ms _ (by simpa using h)]
      · rw [h]
    show trunF P ms (t :: b) = (trunF P ms [t]).bind (fun ms' => trunF P ms' b)
    rw [trunF_cons, trunF_cons, e]
    show _ = ((tstepF P ms t false).bind (fun ms' => trunF P ms' [])).bind (fun ms' => trunF P ms' b)
    cases tstepF P ms t false with
    | none => rfl
    | some ms1 => simp
  | t :: t' :: a, b, ms, h => by
    have e : tstepF P ms t (nextIsER6 (t' :: (a ++ b))) = tstepF P ms t (nextIsER6 (t' :: a)) := by
      cases a with
      | cons t'' a'' => rw [List.cons_append, nextIsER6_cons_cons_append]
      | nil =>
        rw [List.nil_append]
        cases hx : Tok.isXb t' with
        | false => rw [nextIsER6_cons_notX b hx, nextIsER6_cons_notX [] hx]
        | true =>
          have := isXb_eq hx; subst this
          rcases h.2 with h2 | h2
          · have hd : Tok.isDS t = false := by simpa [Tok.isXb] using h2
            rw [tstepF_notDS P ms _ hd, tstepF_notDS P ms _ hd]
          · rw [nextIsER6_X_cons, h2]; rfl
    have hok : splitOk (t' :: a) b := by
      refine ⟨by simpa using h.1, ?_⟩
      cases a with
      | nil => exact Or.inl rfl
      | cons t'' a'' => simpa using h.2
    have ih := fun ms1 => trunF_append P (t' :: a) b ms1 hok
    show trunF P ms (t :: (t' :: (a ++ b))) = (trunF P ms (t :: t' :: a)).bind (fun ms' => trunF P ms' b)
    rw [trunF_cons, trunF_cons P ms t (t' :: a), e]
    cases tstepF P ms t (nextIsER6 (t' :: a)) with
    | none => rfl
    | some ms1 => simpa using ih ms1

theorem trunF_append_some {P : Program} {a b : List Tok} {ms ms1 ms2 : MSt} (hc : splitOk a b)
    (h1 : trunF P ms a = some ms1) (h2 : trunF P ms1 b = some ms2) : trunF P ms (a ++ b) = some ms2 := by
  rw [trunF_append P a b ms hc, h1]; simpa using h2

/-! ## T1: a prefix without `S _ 2`, read from outside a window -/

theorem isS2_of_isS2b {t : Tok} (h : Tok.isS2b t = false) : Tok.isS2 t = none := by
  unfold Tok.isS2b at h
  cases hS : Tok.isS2 t with
  | none => rfl
  | some k => rw [hS] at h; simp at h

theorem tstep_noS2_pend {P : Program} {m : Engine.St} {t : Tok} {ms' : MSt} (hS : Tok.isS2b t = false)
    (h : tstep P ⟨m, none⟩ t = some ms') : ms'.pend = none := by
  rw [tstep_none_notS (isS2_of_isS2b hS)] at h
  cases hte : t.toEvent? with
  | none => rw [hte] at h; simp at h
  | some e =>
    rw [hte] at h; simp only [Option.bind_some] at h
    cases hst : step P m e with
    | none => rw [hst] at h; simp at h
    | some m1 =>
      rw [hst] at h; simp only [Option.map_some, Option.some.injEq] at h; subst h; rfl

/-- outside a window, tokens other than `S _ 2` do not open one -/
theorem trun_noS2_pend {P : Program} : ∀ (toks : List Tok) (m : Engine.St) (ms' : MSt),
    (∀ t ∈ toks, Tok.isS2b t = false) → trun P ⟨m, none⟩ toks = some ms' → ms'.pend = none
  | [], m, ms', _, h => by
    simp only [trun, Option.some.injEq] at h; subst h; rfl
  | t :: ts, m, ms', hS, h => by
    simp only [trun] at h
    cases hts : tstep P ⟨m, none⟩ t with
    | none => rw [hts] at h; simp at h
    | some ms1 =>
      rw [hts] at h; simp only [Option.bind_some] at h
      have hp := tstep_noS2_pend (hS t List.mem_cons_self) hts
      obtain ⟨m1, p1⟩ := ms1
      simp only at hp; subst hp
      exact trun_noS2_pend ts m1 ms' (fun t ht => hS t (List.mem_cons_of_mem _ ht)) h

/-- **T1** -/
theorem trunF_noS2 (P : Program) : ∀ (toks rest : List Tok) (m : Engine.St),
    (∀ t ∈ toks, Tok.isS2b t = false) →
    trunF P ⟨m, none⟩ (toks ++ rest) = (trun P ⟨m, none⟩ toks).bind (fun ms' => trunF P ms' rest)
  | [], rest, m, _ => by simp [trun]
  | t :: ts, rest, m, hS => by
    rw [List.cons_append, trunF_cons_none]
    simp only [trun]
    cases hts : tstep P ⟨m, none⟩ t with
    | none => rfl
    | some ms1 =>
      have hp := tstep_noS2_pend (hS t List.mem_cons_self) hts
      obtain ⟨m1, p1⟩ := ms1
      simp only at hp; subst hp
      simp only [Option.bind_some]
      exact trunF_noS2 P ts rest m1 (fun t ht => hS t (List.mem_cons_of_mem _ ht))

/-- T1, `rest = []`: on tokens other than `S _ 2`, from outside a window, `trunF` IS `trun` -/
theorem trunF_eq_trun_noS2 (P : Program) (toks : List Tok) (m : Engine.St)
    (hS : ∀ t ∈ toks, Tok.isS2b t = false) : trunF P ⟨m, none⟩ toks = trun P ⟨m, none⟩ toks := by
  have := trunF_noS2 P toks [] m hS
  rw [List.append_nil] at this
  rw [this]
  cases trun P ⟨m, none⟩ toks with
  | none => rfl
  | some ms1 => simp

/-! ## T2: the failed window -/

theorem isS2b_of_isReg_mon {t : Tok} (h : Tok.isReg t = true) : Tok.isS2b t = false := by
  cases t <;> simp [Tok.isReg] at h <;> rfl

theorem isDS_of_isReg {t : Tok} (h : Tok.isReg t = true) : Tok.isDS t = false := by
  cases t <;> simp [Tok.isReg] at h <;> rfl

/-- a registration steps the monitor the same way inside and outside a window -/
theorem tstep_reg_phase (P : Program) (m : Engine.St) (k : Key) {t : Tok} (h : Tok.isReg t = true) :
    tstep P ⟨m, some k⟩ t = (tstep P ⟨m, none⟩ t).map (fun ms1 => ⟨ms1.m, some k⟩) := by
  cases t <;> simp [Tok.isReg] at h
  · rename_i a
    simp only [tstep, Tok.isS2, Tok.isReg, Tok.toEvent?, if_true]
    cases step P m (.lookup a) <;> rfl
  · rename_i a f
    simp only [tstep, Tok.isS2, Tok.isReg, Tok.toEvent?, if_true]
    cases step P m (.dbGet a f) <;> rfl
  · rename_i a v f
    simp only [tstep, Tok.isS2, Tok.isReg, Tok.toEvent?, if_true]
    cases step P m (.complete a v (f != 0)) <;> rfl
  · simp only [tstep, Tok.isS2, Tok.isReg, Tok.toEvent?, if_true]
    cases step P m .cancel <;> rfl

/-- **registrations step the monitor `m` identically in phase `none` and in phase `some k`** -/
theorem trun_regs_phase (P : Program) (k : Key) : ∀ (regs : List Tok) (m : Engine.St),
    (∀ t ∈ regs, Tok.isReg t = true) →
    trun P ⟨m, some k⟩ regs = (trun P ⟨m, none⟩ regs).map (fun ms1 => ⟨ms1.m, some k⟩)
  | [], m, _ => rfl
  | t :: ts, m, hR => by
    have ht := hR t List.mem_cons_self
    simp only [trun]
    rw [tstep_reg_phase P m k ht]
    cases hts : tstep P ⟨m, none⟩ t with
    | none => rfl
    | some ms1 =>
      have hp := tstep_noS2_pend (isS2b_of_isReg_mon ht) hts
      obtain ⟨m1, p1⟩ := ms1
      simp only at hp; subst hp
      simp only [Option.map_some, Option.bind_some]
      exact trun_regs_phase P k ts m1 (fun t ht => hR t (List.mem_cons_of_mem _ ht))

theorem trun_regs_pend {P : Program} {regs : List Tok} {m : Engine.St} {ms' : MSt}
    (hR : ∀ t ∈ regs, Tok.isReg t = true) (h : trun P ⟨m, none⟩ regs = some ms') : ms'.pend = none :=
  trun_noS2_pend regs m ms' (fun t ht => isS2b_of_isReg_mon (hR t ht)) h

/-- inside a window: registrations, then the failed write -/
theorem trunF_window_fail (P : Program) (k : Key) (row : Res) {xs : List Tok} (hx : xs = [] ∨ xs = [.X])
    (post : List Tok) : ∀ (regs : List Tok) (m : Engine.St),
    (∀ t ∈ regs, Tok.isReg t = true) →
    trunF P ⟨m, some k⟩ (regs ++ .DS k row :: (xs ++ .ER 6 :: post)) =
      (trun P ⟨m, none⟩ regs).bind (fun ms1 => trunF P ⟨ms1.m, none⟩ (xs ++ .ER 6 :: post))
  | [], m, _ => by
    simp only [List.nil_append, trun, Option.bind_some]
    exact trunF_DS_ER6 P m k row hx post
  | t :: ts, m, hR => by
    have ht := hR t List.mem_cons_self
    rw [List.cons_append, trunF_cons_notDS P _ _ (isDS_of_isReg ht), tstep_reg_phase P m k ht]
    simp only [trun]
    cases hts : tstep P ⟨m, none⟩ t with
    | none => rfl
    | some ms1 =>
      have hp := tstep_noS2_pend (isS2b_of_isReg_mon ht) hts
      obtain ⟨m1, p1⟩ := ms1
      simp only at hp; subst hp
      simp only [Option.map_some, Option.bind_some]
      exact trunF_window_fail P k row hx post ts m1 (fun t ht => hR t (List.mem_cons_of_mem _ ht))

/-- **T2: the failed window** `S k 2 ; regs ; DS k row ; [X] ; ER 6` steps the monitor by `regs` only -/
theorem trunF_failed_window (P : Program) (k : Key) (row : Res) (regs : List Tok) {xs : List Tok}
    (hx : xs = [] ∨ xs = [.X]) (post : List Tok) (m : Engine.St) (hR : ∀ t ∈ regs, Tok.isReg t = true) :
    trunF P ⟨m, none⟩ (.S k 2 :: (regs ++ .DS k row :: (xs ++ .ER 6 :: post))) =
      (trun P ⟨m, none⟩ regs).bind (fun ms1 => trunF P ⟨ms1.m, none⟩ (xs ++ .ER 6 :: post)) := by
  rw [trunF_cons_none, tstep_S2]
  simp only [Option.bind_some]
  exact trunF_window_fail P k row hx post regs m hR

/-- the trace written with left-nested `++` is the right-nested one -/
theorem failed_window_assoc (k : Key) (row : Res) (regs xs post : List Tok) :
    (.S k 2 :: regs ++ .DS k row :: xs ++ .ER 6 :: post : List Tok) =
      .S k 2 :: (regs ++ .DS k row :: (xs ++ .ER 6 :: post)) := by
  simp only [List.cons_append, List.append_assoc]

theorem failed_build_assoc (k : Key) (row : Res) (pre regs xs post : List Tok) :
    (pre ++ .S k 2 :: regs ++ .DS k row :: xs ++ .ER 6 :: post : List Tok) =
      pre ++ .S k 2 :: (regs ++ .DS k row :: (xs ++ .ER 6 :: post)) := by
  simp only [List.cons_append, List.append_assoc]

theorem trunF_failed_window' (P : Program) (k : Key) (row : Res) (regs : List Tok) {xs : List Tok}
    (hx : xs = [] ∨ xs = [.X]) (post : List Tok) (m : Engine.St) (hR : ∀ t ∈ regs, Tok.isReg t = true) :
    trunF P ⟨m, none⟩ (.S k 2 :: regs ++ .DS k row :: xs ++ .ER 6 :: post) =
      (trun P ⟨m, none⟩ regs).bind (fun ms1 => trunF P ⟨ms1.m, none⟩ (xs ++ .ER 6 :: post)) := by
  rw [failed_window_assoc]
  exact trunF_failed_window P k row regs hx post m hR

theorem noS2_xs_ER6 {xs post : List Tok} (hx : xs = [] ∨ xs = [.X]) (hpost : ∀ t ∈ post, Tok.isS2b t = false) :
    ∀ t ∈ xs ++ .ER 6 :: post, Tok.isS2b t = false := by
  intro t ht
  rcases List.mem_append.1 ht with e | e
  · rcases hx with rfl | rfl
    · cases e
    · simp only [List.mem_cons, List.not_mem_nil, or_false] at e; subst e; rfl
  · rcases List.mem_cons.1 e with e | e
    · subst e; rfl
    · exact hpost t e

/-- **T2'** -/
theorem trunF_failed_window_some {P : Program} {k : Key} {row : Res} {regs xs post : List Tok} {m m1 : Engine.St}
    {ms2 : MSt} (hR : ∀ t ∈ regs, Tok.isReg t = true) (hx : xs = [] ∨ xs = [.X])
    (h1 : trun P ⟨m, none⟩ regs = some ⟨m1, none⟩)
    (hpost : ∀ t ∈ post, Tok.isS2b t = false)
    (h2 : trun P ⟨m1, none⟩ (xs ++ .ER 6 :: post) = some ms2) :
    trunF P ⟨m, none⟩ (.S k 2 :: (regs ++ .DS k row :: (xs ++ .ER 6 :: post))) = some ms2 := by
  rw [trunF_failed_window P k row regs hx post m hR, h1]
  simp only [Option.bind_some]
  rw [trunF_eq_trun_noS2 P _ m1 (noS2_xs_ER6 hx hpost)]
  exact h2

theorem trunF_failed_window_some' {P : Program} {k : Key} {row : Res} {regs xs post : List Tok} {m m1 : Engine.St}
    {ms2 : MSt} (hR : ∀ t ∈ regs, Tok.isReg t = true) (hx : xs = [] ∨ xs = [.X])
    (h1 : trun P ⟨m, none⟩ regs = some ⟨m1, none⟩)
    (hpost : ∀ t ∈ post, Tok.isS2b t = false)
    (h2 : trun P ⟨m1, none⟩ (xs ++ .ER 6 :: post) = some ms2) :
    trunF P ⟨m, none⟩ (.S k 2 :: regs ++ .DS k row :: xs ++ .ER 6 :: post) = some ms2 := by
  rw [failed_window_assoc]
  exact trunF_failed_window_some hR hx h1 hpost h2

/-- **T2', a whole build**: `pre ; S k 2 ; regs ; DS k row ; [X] ; ER 6 ; post` -/
theorem trunF_failed_build {P : Program} {k : Key} {row : Res} {pre regs xs post : List Tok} {m0 m m1 : Engine.St}
    {ms2 : MSt} (hpre : ∀ t ∈ pre, Tok.isS2b t = false)
    (h0 : trun P ⟨m0, none⟩ pre = some ⟨m, none⟩)
    (hR : ∀ t ∈ regs, Tok.isReg t = true) (hx : xs = [] ∨ xs = [.X])
    (h1 : trun P ⟨m, none⟩ regs = some ⟨m1, none⟩)
    (hpost : ∀ t ∈ post, Tok.isS2b t = false)
    (h2 : trun P ⟨m1, none⟩ (xs ++ .ER 6 :: post) = some ms2) :
    trunF P ⟨m0, none⟩ (pre ++ .S k 2 :: (regs ++ .DS k row :: (xs ++ .ER 6 :: post))) = some ms2 := by
  rw [trunF_noS2 P pre _ m0 hpre, h0]
  simp only [Option.bind_some]
  exact trunF_failed_window_some hR hx h1 hpost h2

/-- the same, with the trace written `pre ++ S k 2 :: regs ++ DS k row :: xs ++ ER 6 :: post` (left-nested `++`) -/
theorem trunF_failed_build' {P : Program} {k : Key} {row : Res} {pre regs xs post : List Tok} {m0 m m1 : Engine.St}
    {ms2 : MSt} (hpre : ∀ t ∈ pre, Tok.isS2b t = false)
    (h0 : trun P ⟨m0, none⟩ pre = some ⟨m, none⟩)
    (hR : ∀ t ∈ regs, Tok.isReg t = true) (hx : xs = [] ∨ xs = [.X])
    (h1 : trun P ⟨m, none⟩ regs = some ⟨m1, none⟩)
    (hpost : ∀ t ∈ post, Tok.isS2b t = false)
    (h2 : trun P ⟨m1, none⟩ (xs ++ .ER 6 :: post) = some ms2) :
    trunF P ⟨m0, none⟩ (pre ++ .S k 2 :: regs ++ .DS k row :: xs ++ .ER 6 :: post) = some ms2 := by
  rw [failed_build_assoc]
  exact trunF_failed_build hpre h0 hR hx h1 hpost h2

/-! ## T3: an accepted `trunF` run is an accepted event run of `evOfToksF` -/

@[simp] theorem evOfToksF_nil (ph : Option Key) : evOfToksF ph [] = some [] := by
  cases ph <;> rfl

theorem evOfToksF_DS_fail (k : Key) (row : Res) {ts : List Tok} (h : nextIsER6 ts = true) :
    evOfToksF (some k) (.DS k row :: ts) = evOfToksF none ts := by
  simp [evOfToksF, h]

theorem evOfToksF_DS_ok (k : Key) (row : Res) {ts : List Tok} (h : nextIsER6 ts = false) :
    evOfToksF (some k) (.DS k row :: ts) = (evOfToksF none ts).map (fun b => Event.finished k row :: b) := by
  simp [evOfToksF, h]

/-- one accepted token of `tstep` (not a failed write) is zero or one event of `evOfToksF` -/
theorem tstep_evOfToksF {P : Program} {ms ms1 : MSt} {t : Tok} (ts : List Tok) (hts : tstep P ms t = some ms1)
    (hn : Tok.isDS t = true → nextIsER6 ts = false) :
    ∃ es, run P ms.m es = some ms1.m ∧
      evOfToksF ms.pend (t :: ts) = (evOfToksF ms1.pend ts).map (fun b => es ++ b) := by
  obtain ⟨m, pend⟩ := ms
  cases pend with
  | none =>
    cases hS : Tok.isS2 t with
    | some k =>
      have ht := isS2_eq_some hS; subst ht
      rw [tstep_S2] at hts
      simp only [Option.some.injEq] at hts; subst hts
      refine ⟨[], rfl, ?_⟩
      show evOfToksF none (Tok.S k 2 :: ts) = _
      simp only [evOfToksF, Tok.isS2, List.nil_append]
      cases evOfToksF (some k) ts <;> rfl
    | none =>
      rw [tstep_none_notS hS] at hts
      cases hte : t.toEvent? with
      | none => rw [hte] at hts; simp at hts
      | some e =>
        rw [hte] at hts; simp only [Option.bind_some] at hts
        cases hst : step P m e with
        | none => rw [hst] at hts; simp at hts
        | some m1 =>
          rw [hst] at hts; simp only [Option.map_some, Option.some.injEq] at hts; subst hts
          refine ⟨[e], by simp [run, hst], ?_⟩
          show evOfToksF none (t :: ts) = _
          simp only [evOfToksF, hS, hte]
          rfl
  | some k =>
    have hreg : ∀ e, Tok.isReg t = true → t.toEvent? = some e → Tok.isDS t = false →
        ∃ es, run P m es = some ms1.m ∧
          evOfToksF (some k) (t :: ts) = (evOfToksF ms1.pend ts).map (fun b => es ++ b) := by
      intro e hr hte hds
      have h2 : tstep P ⟨m, some k⟩ t = (step P m e).map (fun m' => ({ m := m', pend := some k } : MSt)) := by
        cases t <;> simp_all [tstep, Tok.isReg, Tok.toEvent?]
      rw [h2] at hts
      cases hst : step P m e with
      | none => rw [hst] at hts; simp at hts
      | some m1 =>
        rw [hst] at hts; simp only [Option.map_some, Option.some.injEq] at hts; subst hts
        refine ⟨[e], by simp [run, hst], ?_⟩
        have h3 : evOfToksF (some k) (t :: ts) = (evOfToksF (some k) ts).map (fun b => e :: b) := by
          cases t <;> simp_all [evOfToksF, Tok.isReg, Tok.toEvent?]
        rw [h3]; rfl
    cases t with
    | DS k' row =>
      have hn' := hn rfl
      unfold tstep at hts
      simp only at hts
      split at hts
      · rename_i hk
        subst hk
        cases hst : step P m (.finished k row) with
        | none => rw [hst] at hts; simp at hts
        | some m2 =>
          rw [hst] at hts; simp only [Option.map_some, Option.some.injEq] at hts; subst hts
          refine ⟨[Event.finished k row], by simp [run, hst], ?_⟩
          show evOfToksF (some k) (Tok.DS k row :: ts) = _
          rw [evOfToksF_DS_ok k row hn']; rfl
      · simp at hts
    | L a => exact hreg _ rfl rfl rfl
    | G a f => exact hreg _ rfl rfl rfl
    | X => exact hreg _ rfl rfl rfl
    | C a v f => exact hreg _ rfl rfl rfl
    | _ => simp [tstep, Tok.isReg] at hts

/-- the cases of one token of `trunF` -/
theorem tstepF_cases {P : Program} {ms ms1 : MSt} {t : Tok} {nx : Bool} (h : tstepF P ms t nx = some ms1) :
    (∃ k row, ms.pend = some k ∧ t = .DS k row ∧ nx = true ∧ ms1 = { ms with pend := none }) ∨
    (tstep P ms t = some ms1 ∧ (Tok.isDS t = true → nx = false)) := by
  obtain ⟨m, pend⟩ := ms
  cases pend with
  | none =>
    rw [tstepF_none] at h
    refine Or.inr ⟨h, ?_⟩
    intro hd
    -- a `DS` outside a window is rejected
    cases t <;> simp [Tok.isDS] at hd
    simp [tstep, Tok.isS2, Tok.toEvent?] at h
  | some k =>
    cases hd : Tok.isDS t with
    | false => rw [tstepF_notDS _ _ _ hd] at h; exact Or.inr ⟨h, fun e => by cases e⟩
    | true =>
      cases t <;> simp [Tok.isDS] at hd
      rename_i k' row
      cases nx with
      | false => rw [tstepF_false] at h; exact Or.inr ⟨h, fun _ => rfl⟩
      | true =>
        by_cases hk : k = k'
        · subst hk
          rw [tstepF_fail] at h
          simp only [Option.some.injEq] at h
          exact Or.inl ⟨k, row, rfl, rfl, rfl, h.symm⟩
        · have e : tstepF P ⟨m, some k⟩ (.DS k' row) true = tstep P ⟨m, some k⟩ (.DS k' row) := by
            simp [tstepF, hk]
          rw [e] at h
          simp [tstep, hk] at h

/-- **T3: an accepted `trunF` run is an accepted event run of `evOfToksF`**, whatever the phases -/
theorem trunF_evOfToksF {P : Program} : ∀ (toks : List Tok) (ms ms' : MSt),
    trunF P ms toks = some ms' → ∃ evs, evOfToksF ms.pend toks = some evs ∧ run P ms.m evs = some ms'.m
  | [], ms, ms', h => by
    simp only [trunF_nil, Option.some.injEq] at h
    subst h
    exact ⟨[], by simp, rfl⟩
  | t :: ts, ms, ms', h => by
    rw [trunF_cons] at h
    cases hts : tstepF P ms t (nextIsER6 ts) with
    | none => rw [hts] at h; simp at h
    | some ms1 =>
      rw [hts] at h; simp only [Option.bind_some] at h
      obtain ⟨evs, he, hr⟩ := trunF_evOfToksF ts ms1 ms' h
      rcases tstepF_cases hts with ⟨k, row, hp, ht, hx, hm⟩ | ⟨hstep, hn⟩
      · subst ht; subst hm
        refine ⟨evs, ?_, hr⟩
        rw [hp, evOfToksF_DS_fail k row hx]
        exact he
      · obtain ⟨es, hrun, hev⟩ := tstep_evOfToksF ts hstep hn
        refine ⟨es ++ evs, ?_, ?_⟩
        · rw [hev, he]; rfl
        · rw [run_append, hrun]; simpa using hr

/-! ## T4: prefixes -/

/-- **prefix closure** at every `splitOk` cut -/
theorem trunF_prefix {P : Program} {ms ms' : MSt} {a b : List Tok} (h : trunF P ms (a ++ b) = some ms')
    (hc : splitOk a b) : ∃ ms1, trunF P ms a = some ms1 ∧ trunF P ms1 b = some ms' := by
  rw [trunF_append P a b ms hc] at h
  cases hp : trunF P ms a with
  | none => rw [hp] at h; simp at h
  | some ms1 => rw [hp] at h; exact ⟨ms1, rfl, by simpa using h⟩

/-- the cuts `… DS k row ‖ ER 6 …` and `… DS k row ‖ X ; ER 6 …` (indeed any `b`): the prefix WITHOUT the `DS` is
accepted -/
theorem trunF_prefix_dropDS {P : Program} {ms ms' : MSt} {a' b : List Tok} {k : Key} {row : Res}
    (h : trunF P ms ((a' ++ [.DS k row]) ++ b) = some ms') :
    ∃ ms1, trunF P ms a' = some ms1 ∧ trunF P ms1 (.DS k row :: b) = some ms' := by
  rw [List.append_assoc] at h
  exact trunF_prefix h (splitOk_of_next a' rfl)

/-- the cut `… DS k row ; X ‖ ER 6 …` (indeed any `b`): the prefix WITHOUT `DS k row ; X` is accepted -/
theorem trunF_prefix_dropDSX {P : Program} {ms ms' : MSt} {a' b : List Tok} {k : Key} {row : Res}
    (h : trunF P ms ((a' ++ [.DS k row, .X]) ++ b) = some ms') :
    ∃ ms1, trunF P ms a' = some ms1 ∧ trunF P ms1 (.DS k row :: .X :: b) = some ms' := by
  rw [List.append_assoc] at h
  exact trunF_prefix h (splitOk_of_next a' rfl)

/-- every prefix that ends neither with `DS` nor with `DS ; X` is accepted -/
theorem trunF_prefix_of_notDS {P : Program} {ms ms' : MSt} {a b : List Tok} (h : trunF P ms (a ++ b) = some ms')
    (h1 : endsDS a = false) (h2 : endsDSX a = false) :
    ∃ ms1, trunF P ms a = some ms1 ∧ trunF P ms1 b = some ms' :=
  trunF_prefix h (splitOk_of_ends b h1 h2)

/-- every prefix whose remainder starts neither with `ER 6` nor with `X ; ER 6` is accepted -/
theorem trunF_prefix_of_next {P : Program} {ms ms' : MSt} {a b : List Tok} (h : trunF P ms (a ++ b) = some ms')
    (hb : nextIsER6 b = false) : ∃ ms1, trunF P ms a = some ms1 ∧ trunF P ms1 b = some ms' :=
  trunF_prefix h (splitOk_of_next a hb)

/-! ## T5: no `mutate` among the events of tokens -/

theorem evOfToksF_noMutate : ∀ (toks : List Tok) (ph : Option Key) (evs : List Event),
    evOfToksF ph toks = some evs → ∀ e ∈ evs, isMutate e = false
  | [], ph, evs, h, e, he => by
    simp only [evOfToksF_nil, Option.some.injEq] at h; subst h; cases he
  | t :: ts, none, evs, h, e, he => by
    cases hS : Tok.isS2 t with
    | some k =>
      simp only [evOfToksF, hS] at h
      exact evOfToksF_noMutate ts (some k) evs h e he
    | none =>
      simp only [evOfToksF, hS] at h
      cases hte : t.toEvent? with
      | none => rw [hte] at h; cases h
      | some x =>
        rw [hte] at h
        simp only at h
        cases hb : evOfToksF none ts with
        | none => rw [hb] at h; cases h
        | some b =>
          rw [hb] at h
          simp only [Option.map_some, Option.some.injEq] at h; subst h
          rcases List.mem_cons.1 he with rfl | he'
          · exact toEvent?_noMutate hte
          · exact evOfToksF_noMutate ts none b hb e he'
  | t :: ts, some k, evs, h, e, he => by
    have hreg : ∀ x, t.toEvent? = some x → (evOfToksF (some k) ts).map (fun b => x :: b) = some evs →
        isMutate e = false := by
      intro x hte h'
      cases hb : evOfToksF (some k) ts with
      | none => rw [hb] at h'; cases h'
      | some b =>
        rw [hb] at h'
        simp only [Option.map_some, Option.some.injEq] at h'; subst h'
        rcases List.mem_cons.1 he with rfl | he'
        · exact toEvent?_noMutate hte
        · exact evOfToksF_noMutate ts (some k) b hb e he'
    cases t with
    | DS k' row =>
      by_cases hk : k = k'
      · subst hk
        cases hn : nextIsER6 ts with
        | true =>
          rw [evOfToksF_DS_fail k row hn] at h
          exact evOfToksF_noMutate ts none evs h e he
        | false =>
          rw [evOfToksF_DS_ok k row hn] at h
          cases hb : evOfToksF none ts with
          | none => rw [hb] at h; cases h
          | some b =>
            rw [hb] at h
            simp only [Option.map_some, Option.some.injEq] at h; subst h
            rcases List.mem_cons.1 he with rfl | he'
            · rfl
            · exact evOfToksF_noMutate ts none b hb e he'
      · simp [evOfToksF, hk] at h
    | L a => exact hreg _ rfl (by simpa [evOfToksF, Tok.isReg, Tok.toEvent?] using h)
    | G a f => exact hreg _ rfl (by simpa [evOfToksF, Tok.isReg, Tok.toEvent?] using h)
    | X => exact hreg _ rfl (by simpa [evOfToksF, Tok.isReg, Tok.toEvent?] using h)
    | C a v f => exact hreg _ rfl (by simpa [evOfToksF, Tok.isReg, Tok.toEvent?] using h)
    | _ => simp [evOfToksF, Tok.isReg] at h

/-! ## T6: without `ER 6` the `F` readings are the plain ones -/

theorem nextIsER6_of_noER6 {ts : List Tok} (h : ∀ t ∈ ts, Tok.isER6 t = false) : nextIsER6 ts = false := by
  cases hn : nextIsER6 ts with
  | false => rfl
  | true =>
    obtain ⟨t, ht, he⟩ := nextIsER6_mem hn
    rw [h t ht] at he; cases he

theorem evOfToksF_noER6 : ∀ (toks : List Tok) (ph : Option Key), (∀ t ∈ toks, Tok.isER6 t = false) →
    evOfToksF ph toks = evOfToks ph toks
  | [], ph, _ => by simp
  | t :: ts, none, hE => by
    have ih := fun ph => evOfToksF_noER6 ts ph (fun t ht => hE t (List.mem_cons_of_mem _ ht))
    cases hS : Tok.isS2 t with
    | some k => simp only [evOfToksF, evOfToks, hS, ih]
    | none =>
      cases hte : t.toEvent? with
      | none => simp only [evOfToksF, evOfToks, hS, hte]
      | some e => simp only [evOfToksF, evOfToks, hS, hte, ih]
  | t :: ts, some k, hE => by
    have ih := fun ph => evOfToksF_noER6 ts ph (fun t ht => hE t (List.mem_cons_of_mem _ ht))
    have hn := nextIsER6_of_noER6 (fun t ht => hE t (List.mem_cons_of_mem _ ht))
    cases t <;> simp [evOfToksF, evOfToks, ih, hn, Tok.isReg, Tok.toEvent?]

theorem trunF_noER6 (P : Program) : ∀ (toks : List Tok) (ms : MSt), (∀ t ∈ toks, Tok.isER6 t = false) →
    trunF P ms toks = trun P ms toks
  | [], ms, _ => by simp [trun]
  | t :: ts, ms, hE => by
    have hn := nextIsER6_of_noER6 (fun t ht => hE t (List.mem_cons_of_mem _ ht))
    rw [trunF_cons_ok P ms t hn]
    simp only [trun]
    cases tstep P ms t with
    | none => rfl
    | some ms1 =>
      simp only [Option.bind_some]
      exact trunF_noER6 P ts ms1 (fun t ht => hE t (List.mem_cons_of_mem _ ht))

/-- a failed window, read as events: the registrations, no completion (without and with the `X` of a cancellation) -/
example : evOfToksF none [.S 1 2, .L 2, .DS 1 default, .ER 6, .R 0] = some [.lookup 2, .error 6, .ret 0] ∧
    evOfToksF none [.S 1 2, .L 2, .DS 1 default, .X, .ER 6, .R 0] = some [.lookup 2, .cancel, .error 6, .ret 0] ∧
    evOfToks none [.S 1 2, .L 2, .DS 1 default, .ER 6, .R 0] =
      some [.lookup 2, .finished 1 default, .error 6, .ret 0] ∧
    evOfToks none [.S 1 2, .L 2, .DS 1 default, .X, .ER 6, .R 0] =
      some [.lookup 2, .finished 1 default, .cancel, .error 6, .ret 0] ∧
    -- two `X` are not a failed write
    evOfToksF none [.S 1 2, .DS 1 default, .X, .X, .ER 6] = some [.finished 1 default, .cancel, .cancel, .error 6] := by
  refine ⟨?_, ?_, ?_, ?_, ?_⟩ <;> rfl

/-
#print axioms trunF_append                -- [propext, Quot.sound]
#print axioms trunF_noS2                  -- [propext]
#print axioms trunF_eq_trun_noS2          -- [propext, Quot.sound]
#print axioms trun_regs_phase             -- [propext]
#print axioms trunF_failed_window         -- [propext]
#print axioms trunF_failed_window'        -- [propext]
#print axioms trunF_failed_window_some    -- [propext, Quot.sound]
#print axioms trunF_failed_window_some'   -- [propext, Quot.sound]
#print axioms trunF_failed_build          -- [propext, Quot.sound]
#print axioms trunF_failed_build'         -- [propext, Quot.sound]
#print axioms trunF_evOfToksF             -- [propext]
#print axioms trunF_prefix                -- [propext, Quot.sound]
#print axioms trunF_prefix_dropDS         -- [propext, Quot.sound]
#print axioms trunF_prefix_dropDSX        -- [propext, Quot.sound]
#print axioms evOfToksF_noMutate          -- [propext, Quot.sound]
#print axioms evOfToksF_noER6             -- [propext]
#print axioms trunF_noER6                 -- [propext]
#print axioms nextIsER6_iff               -- [propext, Quot.sound]
-/
end LLBuild.Refine
